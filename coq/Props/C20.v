(* C20 - Unitary-tensor simplification preserves the value for orthogonal
   tensors.  Property theorems only; model in Models/Unitary.v, proofs in
   Models/UnitaryProofs.v, concrete witnesses in Models/UnitaryExamples.v. *)
From Coq Require Import ZArith QArith List String.
Open Scope string_scope.
From ADC Require Import Core.Scalar Core.Index Core.Expr.
From ADC Require Import Models.Unitary Models.UnitaryProofs Models.UnitaryExamples.

(* The orthogonality rewriting at the level of sums: with two matrices A, B
   satisfying sum_o A o x * B o y = [x = y] on the range of p and an arbitrary
   remainder F that does not depend on p, the sum over p can be carried out. *)
Theorem C20_orth_sum_rewrite :
  forall (S : Scalar) (T : tmodel S) (A B : nat -> nat -> K S) (D xs : list index)
         (p q r : index) (F : env -> K S) (r0 : env),
    depends_on S D F -> ~ In p D -> p <> q -> p <> r ->
    irange S T q = irange S T p -> irange S T r = irange S T p ->
    (forall x y, In x (irange S T p) -> In y (irange S T p) ->
       ksum (irange S T p) (fun o => kmul S (A o x) (B o y)) = if Nat.eqb x y then k1 S else k0 S) ->
    (In q xs \/ In (r0 q) (irange S T q)) -> (In r xs \/ In (r0 r) (irange S T r)) ->
    sum_over S T (xs ++ p :: nil) r0 (fun e => kmul S (kmul S (A (e p) (e q)) (B (e p) (e r))) (F e)) =
    sum_over S T xs r0 (fun e => kmul S (delta_val S e q r) (F e)).
Proof. exact orth_sum_rewrite. Qed.
Print Assumptions C20_orth_sum_rewrite.

(* One step of the rewriting relation preserves the value of the term for
   every tensor model in which the tensor is an orthogonal matrix on the range
   of the sort of its indices, for every assignment of the targets within
   their ranges - if the two remaining indices are distinct, or the coinciding
   index is a target, or it still occurs in the result. *)
Theorem C20_unitary_step_sound :
  forall (S : Scalar) (T : tmodel S) name tg t p q r t' r0,
    unitary_step name tg t p q r t' ->
    same_sort q p = true -> same_sort r p = true ->
    orthogonal S T name (irange S T p) ->
    (forall x, In x tg -> In (r0 x) (irange S T x)) ->
    (q <> r \/ In q tg \/ In q (term_idx t')) ->
    eval_term S T tg r0 t = eval_term S T tg r0 t'.
Proof. exact unitary_step_sound. Qed.
Print Assumptions C20_unitary_step_sound.

(* Without that side condition the statement about the relation is false
   (U_pq U_pq -> 1 although the value is the dimension of the space); the
   repaired code and the executable pass skip exactly these pairs, see
   C20_unitary_pass_safe. *)
Theorem C20_unitary_step_sound_nosidecond_refuted :
  exists (S : Scalar) (T : tmodel S) name tg t p q r t' r0,
    unitary_step name tg t p q r t' /\
    same_sort q p = true /\ same_sort r p = true /\
    orthogonal S T name (irange S T p) /\
    (forall x, In x tg -> In (r0 x) (irange S T x)) /\
    eval_term S T tg r0 t <> eval_term S T tg r0 t'.
Proof. exact unitary_step_sound_nosidecond_refuted. Qed.
Print Assumptions C20_unitary_step_sound_nosidecond_refuted.

(* What exactly is lost: if the coinciding remaining index q is neither a target
   nor present in the rest of the term, the input's value is the output's value
   times the number of orbitals in the range of q. *)
Theorem C20_unitary_step_square_value :
  forall (S : Scalar) (T : tmodel S) name tg t p q t' r0,
    unitary_step name tg t p q q t' ->
    same_sort q p = true ->
    orthogonal S T name (irange S T p) ->
    (forall x, In x tg -> In (r0 x) (irange S T x)) ->
    ~ In q tg -> ~ In q (term_idx t') ->
    eval_term S T tg r0 t = kmul S (kcount S (irange S T q)) (eval_term S T tg r0 t').
Proof. exact unitary_step_square_value. Qed.
Print Assumptions C20_unitary_step_square_value.

(* Every step taken by the executable pass satisfies that side condition (the
   guard added to the code skips the other pairs) ... *)
Theorem C20_unitary_pass_safe :
  forall name tg t pos p q r t',
    unitary_pass_tg name tg t = RStep (pos, p, q, r) t' ->
    q <> r \/ In q tg \/ In q (term_idx t').
Proof. exact unitary_pass_safe. Qed.
Print Assumptions C20_unitary_pass_safe.

(* ... so the whole executable recursion (pair replacement, multiplying out a
   remaining sum, recursion on every resulting term) preserves the value for
   provided targets: the value of the input term is the sum of the values of
   the returned terms, for every model in which the tensor is orthogonal on
   the sort of its indices and every target assignment within ranges.  The
   only premise is the well-formedness of the input ([wfb]: the tensor's
   indices lie in one sort; sum factors are homogeneous). *)
Theorem C20_unitary_iter_sound :
  forall (S : Scalar) (T : tmodel S) name sp sn tg fuel t out r0,
    unitary_iter fuel name (Some tg) t = Some out ->
    wfb name sp sn tg t = true ->
    orthogonal S T name (rng T sp sn) ->
    (forall x, In x tg -> In (r0 x) (irange S T x)) ->
    eval_term S T tg r0 t = ksum out (eval_term S T tg r0).
Proof. exact unitary_iter_sound. Qed.
Print Assumptions C20_unitary_iter_sound.

(* The call tree observed in the implementation (any factor order between the
   levels, provided or Einstein targets), once accepted by the boolean checker,
   preserves the value. *)
Theorem C20_check_tree_sound :
  forall (S : Scalar) (T : tmodel S) name sp sn prov fuel n r0,
    check_tree fuel name sp sn prov n = true ->
    orthogonal S T name (rng T sp sn) ->
    (forall x, In x (targets_of prov (oroot n)) -> In (r0 x) (irange S T x)) ->
    eval_term S T (targets_of prov (oroot n)) r0 (oroot n)
    = ksum (leaves fuel n) (eval_term S T (targets_of prov (oroot n)) r0).
Proof. exact check_tree_sound. Qed.
Print Assumptions C20_check_tree_sound.

(* Regression examples on the inputs of the three repaired defects. *)
Theorem C20_square_regression :
  unitary_pass "U" (Some nil) sq_term = RNone /\
  unitary_pass "U" None sq_term = RNone /\
  unitary_iter 3 "U" (Some nil) sq_term = Some (sq_term :: nil) /\
  unitary_iter 3 "U" None sq_term = Some (sq_term :: nil) /\
  unitary_iter 3 "U" (Some (iq :: nil)) sq_term = Some (Term 1 nil :: nil).
Proof. exact square_regression. Qed.
Print Assumptions C20_square_regression.

Theorem C20_sum_regression :
  unitary_iter 3 "U" (Some (iq :: is_ :: nil)) sum_term
  = Some (Term (1 * 1) (Tn "e" (iq :: nil) :: nil) :: Term (1 * 1) (Tn "e" (is_ :: nil) :: nil) :: nil) /\
  wfb "U" Gen NoSpin (iq :: is_ :: nil) sum_term = true.
Proof. exact sum_regression. Qed.
Print Assumptions C20_sum_regression.

(* Einstein convention: a step whose remaining indices differ (and whose delta
   is not absorbed by an equal one) keeps the Einstein target indices, and
   preserves the value with each side read under its own Einstein targets. *)
Theorem C20_einstein_targets_step :
  forall name tg t p q r t',
    unitary_step name tg t p q r t' ->
    q <> r -> delta_zero q r = false -> existsb (is_delta_fac q r) (tfacs t) = false ->
    forall x, In x (einstein_targets t') <-> In x (einstein_targets t).
Proof. exact einstein_targets_step. Qed.
Print Assumptions C20_einstein_targets_step.

Theorem C20_unitary_step_sound_einstein :
  forall (S : Scalar) (T : tmodel S) name t p q r t' r0,
    unitary_step name (einstein_targets t) t p q r t' ->
    same_sort q p = true -> same_sort r p = true ->
    orthogonal S T name (irange S T p) ->
    (forall x, In x (einstein_targets t) -> In (r0 x) (irange S T x)) ->
    q <> r -> existsb (is_delta_fac q r) (tfacs t) = false ->
    eval_term S T (einstein_targets t) r0 t = eval_term S T (einstein_targets t') r0 t'.
Proof. exact unitary_step_sound_einstein. Qed.
Print Assumptions C20_unitary_step_sound_einstein.

(* evaluate_deltas=True: the provided targets are handed on to
   func.evaluate_deltas; U_pq U_pr T_q with targets (q, r) keeps delta_qr and
   its value (before the repair it became T_r, see
   UnitaryExamples.simplify_ed_ignoring_targets_refuted). *)
Theorem C20_simplify_ed_regression :
  simplify_ed_as_coded 3 "U" (Some (iq :: ir :: nil)) ed_term
  = Some (Term 1 ((ADelta iq ir, false) :: Tn "T" (iq :: nil) :: nil) :: nil) /\
  eval_term QcScalar Tex (iq :: ir :: nil) env_qr ed_term
  = eval_term QcScalar Tex (iq :: ir :: nil) env_qr (Term 1 ((ADelta iq ir, false) :: Tn "T" (iq :: nil) :: nil)) /\
  eval_term QcScalar Tex (iq :: ir :: nil) env0 ed_term
  = eval_term QcScalar Tex (iq :: ir :: nil) env0 (Term 1 ((ADelta iq ir, false) :: Tn "T" (iq :: nil) :: nil)).
Proof. exact simplify_ed_regression. Qed.
Print Assumptions C20_simplify_ed_regression.

(* A successful call of the model of simplify_term_unitary is a step of the
   relation ... *)
Theorem C20_unitary_pass_sound :
  forall name tg t pos p q r t',
    unitary_pass_tg name tg t = RStep (pos, p, q, r) t' -> unitary_step name tg t p q r t'.
Proof. exact unitary_pass_sound. Qed.
Print Assumptions C20_unitary_pass_sound.

(* ... and every chain of steps that satisfy the side condition (checked by
   the boolean search) preserves the value, for all orthogonal models. *)
Theorem C20_reachable_sound :
  forall (S : Scalar) (T : tmodel S) name sp sn prov fuel t goal r0,
    reachable true name sp sn prov fuel t goal = true ->
    orthogonal S T name (rng T sp sn) ->
    (forall x, In x (targets_of prov t) -> In (r0 x) (irange S T x)) ->
    eval_term S T (targets_of prov t) r0 t = eval_term S T (targets_of prov goal) r0 goal.
Proof. exact reachable_sound. Qed.
Print Assumptions C20_reachable_sound.

(* Pairs whose common index is a target or occurs anywhere else admit no step. *)
Theorem C20_untouched_spec :
  forall name tg t p q r t',
    In p tg \/ icount p (term_idx t) <> 2%nat -> ~ unitary_step name tg t p q r t'.
Proof. exact untouched_spec. Qed.
Print Assumptions C20_untouched_spec.

(* The pair enumeration is complete: when the pass finds nothing, the only
   steps of the relation are those the guard skips (remaining indices coincide
   in a contracted index occurring nowhere else); hence every term returned by
   the recursion is terminal in that sense. *)
Theorem C20_unitary_pass_complete :
  forall name tg t, unitary_pass_tg name tg t = RNone ->
    forall p q r t', unitary_step name tg t p q r t' -> skip_pair tg (term_idx t) q r = true.
Proof. exact unitary_pass_complete. Qed.
Print Assumptions C20_unitary_pass_complete.

Theorem C20_terminal_spec :
  forall fuel name prov t out t', unitary_iter fuel name prov t = Some out -> In t' out ->
    forall p q r t'', unitary_step name (targets_of prov t') t' p q r t'' ->
                      skip_pair (targets_of prov t') (term_idx t') q r = true.
Proof. exact terminal_spec. Qed.
Print Assumptions C20_terminal_spec.

(* Mixed-position pairs U_qp U_pr are left untouched by the code and by the
   model.  What their contraction is worth: s * delta_qr for a carrier with
   U_xy = s U_yx, i.e. -delta_qr for a bra-ket antisymmetric orthogonal tensor. *)
Theorem C20_mixed_position_sum :
  forall (S : Scalar) (T : tmodel S) name R c1 c2 (sg : bool),
    orthogonal S T name R ->
    (forall x y, mat S T name c1 x y = kmul S (ksgn sg) (mat S T name c1 y x)) ->
    forall x y, In x R -> In y R ->
      ksum R (fun o => kmul S (mat S T name c1 x o) (mat S T name c2 o y))
      = kmul S (ksgn sg) (if Nat.eqb x y then k1 S else k0 S).
Proof. exact mixed_position_sum. Qed.
Print Assumptions C20_mixed_position_sum.

(* The hypotheses are satisfiable: a rotation matrix over the rationals. *)
Theorem C20_orthogonal_example :
  forall sp sn, orthogonal QcScalar Tex "U" (rng Tex sp sn).
Proof. exact Tex_orthogonal. Qed.
Print Assumptions C20_orthogonal_example.
