(* C04 - intermediate states are orthonormal order by order.  Property
   theorems only (instances decided per run; partial for the all-orders
   statement). *)
From Coq Require Import ZArith QArith List.
From ADC Require Import Core.Scalar Core.Index Core.Expr Core.Swap Core.Canon Core.Equiv
  Core.DeltaRule Core.Equiv2 Models.RSPTCheck.

(* A derived overlap expression accepted by the validator against the
   antisymmetrised delta product (order 0) resp. against the empty expression
   (higher orders, different classes), and a precursor overlap accepted
   against its transpose, have equal values for EVERY choice of ground-state
   amplitude tensors (any tensor model with the declared symmetries) and every
   in-range assignment of the bra / ket indices. *)
Theorem C04_overlap_pair_value :
  forall (S : Scalar) (T : tmodel S), respects S T -> model_ok S T ->
  forall tg c1 c2 overlap expected, check_equiv2 tg c1 c2 overlap expected = true ->
  forall r, env_ok S T tg r -> eval S T tg r overlap = eval S T tg r expected.
Proof. exact check_equiv2_sound. Qed.
Print Assumptions C04_overlap_pair_value.

(* the value of "identically zero": the empty expression evaluates to 0 *)
Theorem C04_zero_expression :
  forall (S : Scalar) (T : tmodel S) tg r, eval S T tg r nil = k0 S.
Proof. reflexivity. Qed.
Print Assumptions C04_zero_expression.

(* The explicitly constructed intermediate states (determinant space,
   harness/isr_explicit.py: excitation operators on the normalised perturbed
   ground state, Gram-Schmidt, S^(-1/2)) that C03 and C05 compare the derived
   matrices with are certified orthonormal inside Coq on every run: [ortho_ok]
   accepts a list of states (one coefficient polynomial per determinant) only
   if, for every value x of the perturbation parameter,
   <I(x)|J(x)> = delta_IJ + x^(N+1) * rem  (mod p). *)
Theorem C04_explicit_states_orthonormal_certificate :
  forall p N states, ortho_ok p N states = true ->
  forall i j A B x,
    nth_error states i = Some A -> nth_error states j = Some B ->
    exists rem,
      ((dotv (values A x) (values B x)) mod p
       = (delta i j + x ^ Z.of_nat (S N) * rem) mod p)%Z.
Proof. exact ortho_ok_sound. Qed.
Print Assumptions C04_explicit_states_orthonormal_certificate.
