(* C05 - ISR properties and transition moments equal explicit matrix
   elements.  Property theorems only (partial). *)
From Coq Require Import ZArith QArith List.
From ADC Require Import Core.Scalar Core.Index Models.Fock Models.Wick Models.WickProofs.

(* Semantic anchor (C01): every Wick evaluation entering
   X_I <I| O - <O> |J> Y_J or X_I <I| O |Psi0> equals, for arbitrary
   amplitude, operator-matrix and integral tensors, the determinant-space
   expectation value of the same operator product.  The identification of the
   summed, order-expanded result with the matrix elements between the
   explicitly constructed intermediate states (and the 1/sqrt(n_o! n_v!)
   normalisation) is decided per run by exact linear algebra in determinant
   space and is not a Coq theorem: partial. *)
Theorem C05_matrix_elements_are_determinant_expectation_values_partial :
  forall (S : Scalar) M env gs (T : (index -> nat) -> K S) xs,
    env_ok M env -> groups_ok gs = true ->
    sum_idx S M xs env (fun e => kmul S (T e) (zK S (wval M e (wicks_groups gs)))) =
    sum_idx S M xs env (fun e => kmul S (T e) (zK S (gvev M (map (inst_group e) gs)))).
Proof. exact wicks_value. Qed.
Print Assumptions C05_matrix_elements_are_determinant_expectation_values_partial.
