(* C02 - ground-state perturbation theory agrees with explicit
   determinant-space RSPT.  Property theorems only (partial: see below). *)
From Coq Require Import List Arith ZArith.
From ADC Require Import Core.Scalar Core.Index Models.PT Models.Fock Models.Wick Models.WickProofs Models.RSPTCheck.
Import ListNotations.

(* Order bookkeeping: the combinations of perturbation orders used for every
   n-th order product are exactly the tuples of the given length with entries
   in [min, order] that sum to the order, each listed once - every Cauchy
   product coefficient is complete and nothing is counted twice.  All orders,
   lengths and minimal orders. *)
Theorem C02_gen_term_orders_spec :
  forall order len min l,
  In l (gen_term_orders order len min) <->
  length l = len /\ Forall (fun x => min <= x <= order) l /\ list_sum l = order.
Proof. exact gen_term_orders_spec. Qed.
Print Assumptions C02_gen_term_orders_spec.

Theorem C02_gen_term_orders_NoDup :
  forall order len min, NoDup (gen_term_orders order len min).
Proof. exact gen_term_orders_NoDup. Qed.
Print Assumptions C02_gen_term_orders_NoDup.

(* Semantic anchor (proved under C01): every matrix element that the
   perturbation expansion evaluates - <Phi| L H1 |psi(n-1)>, <Phi_k| ... >,
   <psi(m)| D |psi(k)> - is, for arbitrary amplitude / integral tensors T and
   summed over the contracted indices xs, the expectation value of the same
   operator product in the reference determinant, computed by explicit
   action on determinants.  Hence each derived energy, amplitude numerator
   and expectation value equals the corresponding determinant-space quantity
   built from the amplitude tensors; that these tensors are the RSPT
   coefficients is the induction over the order, which is decided per run
   by explicit linear algebra (harness/detspace.py) and is not a Coq theorem:
   C02 is therefore claimed as partial. *)
Theorem C02_matrix_elements_are_determinant_expectation_values_partial :
  forall (S : Scalar) M env gs (T : (index -> nat) -> K S) xs,
    env_ok M env -> groups_ok gs = true ->
    sum_idx S M xs env (fun e => kmul S (T e) (zK S (wval M e (wicks_groups gs)))) =
    sum_idx S M xs env (fun e => kmul S (T e) (zK S (gvev M (map (inst_group e) gs)))).
Proof. exact wicks_value. Qed.
Print Assumptions C02_matrix_elements_are_determinant_expectation_values_partial.

(* The explicit determinant-space perturbation series that the derived
   formulas are compared with are certified inside Coq on every run: the
   harness hands the dense matrices of H0 and H1 (rows), the energies E_n and
   the wavefunction coefficients (one polynomial per determinant) to
   [rspt_ok]; acceptance means that, modulo the prime p and for every value x
   of the perturbation parameter, the truncated series satisfy
   (H0 + x H1) Psi(x) - E(x) Psi(x) = x^(N+1) * remainder  componentwise, with
   intermediate normalisation <ref|Psi(x)> = 1 + O(x^(N+1)) - i.e. they are a
   Rayleigh-Schroedinger solution through order N.  The linear solver of the
   engine is thereby untrusted.  (Uniqueness of that solution needs the
   non-singular resolvent and is not stated.) *)
Theorem C02_rspt_certificate :
  forall p N H0 H1 E Psi ref,
  rspt_ok p N H0 H1 E Psi ref = true ->
  (forall i r0 r1 q x,
      nth_error H0 i = Some r0 -> nth_error H1 i = Some r1 ->
      nth_error Psi i = Some q ->
      exists rem,
        (dotv r0 (values Psi x) + x * dotv r1 (values Psi x)
         - peval E x * peval q x) mod p
        = (x ^ Z.of_nat (S N) * rem) mod p)%Z
  /\ (forall x, exists rem,
        (peval (nth ref Psi []) x) mod p
        = (1 + x ^ Z.of_nat (S N) * rem) mod p)%Z.
Proof. exact rspt_ok_sound. Qed.
Print Assumptions C02_rspt_certificate.
