(* C09 - Kronecker-delta evaluation preserves the value and keeps index
   information.  Statements only; the model is Models/Deltas.v, the proofs are
   in Models/DeltasProofs.v, concrete instances in Models/DeltasExamples.v.

   Notation.  [state] = coefficient and argument list of the sympy Mul in the
   order the implementation iterates over it; [pass tg st] = one execution of
   the loop of evaluate_deltas; [eval_deltas fuel reorder tg st] = the
   recursion, with an arbitrary step [reorder] between two passes (sympy
   rebuilds the product); [state_val S T tgs r st] = value of the product in
   the tensor model T over the scalars S, the indices not in [tgs] summed over
   their ranges, the targets [tgs] assigned by [r]. *)
From Coq Require Import ZArith QArith List Bool Permutation.
From ADC Require Import Core.Scalar Core.Index Core.Expr Core.Canon Models.Deltas Models.DeltasProofs
  Models.DeltasExamples.
Import ListNotations.

(* (1) Information.  In every orbital model (general = occupied + virtual, no
   spin label = alpha + beta, no orbital twice) the index that
   [preferred_and_killable] keeps ranges over a subset of the orbitals of the
   index it removes - for all 81 combinations of (space, spin) x (space, spin)
   a delta can carry. *)
Theorem C09_pref_kill_info :
  forall (S : Scalar) (T : tmodel S), orbital_model S T ->
  forall i j pref kill : index,
    idx_alive i j = true -> pk_of i j = Some (pref, kill) ->
    incl (irange S T pref) (irange S T kill).
Proof. exact pref_kill_info. Qed.
Print Assumptions C09_pref_kill_info.

(* (2) One pass preserves the value, for every scalar field, tensor model,
   argument order, list of deltas and for every assignment of the targets
   within their ranges - provided every contracted index that sits on a delta
   also occurs on another object ([cov]); [tgp] are the targets the code
   protects, [tgs] the targets of the value ([tgs] subset of [tgp]).  If the
   product becomes 0 (a delta between incompatible indices appears) the value
   was 0. *)
Theorem C09_pass_sound :
  forall (S : Scalar) (T : tmodel S), orbital_model S T ->
  forall (tgp tgs : list index) (st : state) (r : env),
    wf_objs (sobjs st) -> incl tgs tgp -> cov tgs (sobjs st) -> inrange S T r tgs ->
    match pr_state (pass tgp st) with
    | Some st' => state_val S T tgs r st' = state_val S T tgs r st
    | None => state_val S T tgs r st = k0 S
    end.
Proof. exact pass_sound. Qed.
Print Assumptions C09_pass_sound.

(* (3) The index that is substituted away is never a target index, and it is
   one of the two indices of a delta of the product (replaced by the other). *)
Theorem C09_pass_keeps_targets :
  forall (tg : list index) (st : state) (from to : index),
    pr_action (pass tg st) = Some (from, to) ->
    ~ In from tg /\
    exists i j, In (ADelta i j, 1%Z) (sobjs st) /\ ((from = i /\ to = j) \/ (from = j /\ to = i)).
Proof. exact pass_keeps_targets. Qed.
Print Assumptions C09_pass_keeps_targets.

(* (4) The whole recursion preserves the value: any fuel, any step between the
   passes that keeps well-formedness, coverage and the value ([good_step];
   re-ordering the arguments is one, (7)); hypothesis of the property: every
   contracted index occurs on at least one non-delta object ([covered]). *)
Theorem C09_eval_deltas_sound :
  forall (S : Scalar) (T : tmodel S), orbital_model S T ->
  forall (fuel : nat) (reorder : state -> state) (tgp tgs : list index) (r : env),
    good_step S T tgs reorder -> incl tgs tgp -> inrange S T r tgs ->
    forall st : state, wf_objs (sobjs st) -> covered tgs (sobjs st) ->
    match eval_deltas fuel reorder tgp st with
    | OutOfFuel => True
    | Zero => state_val S T tgs r st = k0 S
    | Done st' => state_val S T tgs r st' = state_val S T tgs r st
    end.
Proof. exact eval_deltas_sound. Qed.
Print Assumptions C09_eval_deltas_sound.

(* (5) Every delta left in the returned product is stuck: it has no preferred
   index, or its killable index is a target and (its preferred index is a
   target too or the two indices do not carry equal information).  Without
   hypotheses there is one exception, which is what the code does: if the
   product collapses to a single object the recursive call returns it as it
   is (a lone delta is not a Mul).  Under the hypothesis of the property
   (every contracted index occurs on a non-delta object) there is no
   exception. *)
Theorem C09_eval_deltas_terminal :
  forall (fuel : nat) (reorder : state -> state) (tg : list index) (st st' : state),
    eval_deltas fuel reorder tg st = Done st' -> terminal tg st' \/ is_mul st' = false.
Proof. exact eval_deltas_terminal. Qed.
Print Assumptions C09_eval_deltas_terminal.

Theorem C09_eval_deltas_terminal_covered :
  forall (S : Scalar) (T : tmodel S), orbital_model S T ->
  forall (fuel : nat) (reorder : state -> state) (tgp tgs : list index),
    good_step S T tgs reorder -> incl tgs tgp ->
    forall st st' : state, wf_objs (sobjs st) -> covered tgs (sobjs st) ->
    eval_deltas fuel reorder tgp st = Done st' -> terminal tgp st'.
Proof. exact eval_deltas_terminal_covered. Qed.
Print Assumptions C09_eval_deltas_terminal_covered.

(* (6) The recursion ends: fuel > number of deltas suffices whenever the step
   between passes does not create deltas. *)
Theorem C09_eval_deltas_fuel :
  forall (reorder : state -> state) (tg : list index),
    (forall st, (length (deltas_of (sobjs (reorder st))) <= length (deltas_of (sobjs st)))%nat) ->
    forall (fuel : nat) (st : state),
      (length (deltas_of (sobjs st)) < fuel)%nat -> eval_deltas fuel reorder tg st <> OutOfFuel.
Proof. exact eval_deltas_fuel. Qed.
Print Assumptions C09_eval_deltas_fuel.

(* (7) Re-ordering the arguments between passes is an admissible step. *)
Theorem C09_reorder_good_step :
  forall (S : Scalar) (T : tmodel S) (tgs : list index) (f : state -> state),
    (forall st, scoef (f st) = scoef st /\ Permutation (sobjs (f st)) (sobjs st)) ->
    good_step S T tgs f.
Proof. exact perm_good_step. Qed.
Print Assumptions C09_reorder_good_step.

(* (8) Targets by the summation convention.  An index occurring exactly once
   in the product is among the targets that evaluate_deltas determines by
   counting objects when no targets are given; hence (2) and (4) hold for the
   first call without targets, the value taken with the targets of the
   summation convention. *)
Theorem C09_einstein_targets_counted :
  forall os : list obj, (forall o, In o os -> snd o <> 0%Z) ->
    incl (einstein_targets os) (targets_by_count os).
Proof. exact einstein_targets_counted. Qed.
Print Assumptions C09_einstein_targets_counted.

Theorem C09_eval_deltas_counted_sound :
  forall (S : Scalar) (T : tmodel S), orbital_model S T ->
  forall (fuel : nat) (reorder : state -> state) (st : state) (r : env),
    let tgs := einstein_targets (sobjs st) in
    good_step S T tgs reorder -> inrange S T r tgs ->
    wf_objs (sobjs st) -> covered tgs (sobjs st) ->
    match eval_deltas fuel reorder (targets_by_count (sobjs st)) st with
    | OutOfFuel => True
    | Zero => state_val S T tgs r st = k0 S
    | Done st' => state_val S T tgs r st' = state_val S T tgs r st
    end.
Proof. exact eval_deltas_counted_sound. Qed.
Print Assumptions C09_eval_deltas_counted_sound.

(* (9) The coverage hypothesis cannot be dropped: for delta_pq with both
   indices contracted and no other object the code returns 1 while the value
   is the number of orbitals (this is the case the property excludes). *)
Theorem C09_pass_uncovered_refuted :
  exists (S : Scalar) (T : tmodel S) (tg : list index) (st st' : state) (r : env),
    orbital_model S T /\ wf_objs (sobjs st) /\ inrange S T r tg /\
    pr_state (pass tg st) = Some st' /\
    state_val S T tg r st' <> state_val S T tg r st.
Proof. exact pass_uncovered_refuted. Qed.
Print Assumptions C09_pass_uncovered_refuted.

(* (10) The hypotheses are decidable; the check evaluates these two functions
   on every argument list it records. *)
Theorem C09_hypotheses_decidable :
  forall (tgs : list index) (os : list obj),
    (wf_objsb os = true -> wf_objs os) /\ (coveredb tgs os = true -> covered tgs os).
Proof. exact (fun tgs os => conj (wf_objsb_ok os) (coveredb_ok tgs os)). Qed.
Print Assumptions C09_hypotheses_decidable.

(* (11) Certificate for an observed call tree.  [check_trace_top st tg obs]
   re-runs the model pass on the first argument list, compares its result with
   the expression the implementation produced (same normal form of
   Core.Equiv: sorted contracted indices, canonical tensors with sign,
   delta^2 = delta), checks the hypotheses of (2) and continues with the
   *observed* argument list of the next call.  If it evaluates to true, the
   last observed expression (the result) has the value of the input in every
   tensor model that respects the declared tensor symmetries, for every
   assignment of the targets within their ranges.  The harness evaluates it
   inside Coq for every recorded call tree. *)
Theorem C09_check_trace_sound :
  forall (S : Scalar) (T : tmodel S), orbital_model S T -> Core.Canon.respects S T ->
  forall (st : state) (tg : option (list index)) (obs : list (option state)) (r : env),
    let tgs := match tg with Some l => l | None => einstein_targets (sobjs st) end in
    inrange S T r tgs -> check_trace_top st tg obs = true ->
    state_val S T tgs r st = oval S T tgs r (last obs None).
Proof. exact check_trace_top_sound. Qed.
Print Assumptions C09_check_trace_sound.

(* (12) Tensors that the constructors of AntiSymmetricTensor / Amplitude return
   as 0 - a repeated index in the upper or lower group, or bra-ket
   antisymmetry with coinciding sorted upper and lower tuples - have value 0
   in every model respecting the declared symmetries (2 is invertible through
   the embedding of Q); [check_trace_top] accepts an observed 0 on this
   ground. *)
Theorem C09_zero_tensor_value :
  forall (S : Scalar) (T : tmodel S), Core.Canon.respects S T ->
  forall (r : env) (t : tens), tens_zero t = true -> tens_val S T r t = k0 S.
Proof. exact tens_zero_val. Qed.
Print Assumptions C09_zero_tensor_value.

(* The hypotheses are satisfiable: a model with four spin orbitals, the
   product 1/2 delta_ij delta_pj f_pa g_j with targets i, a. *)
Example C09_hypotheses_satisfiable :
  orbital_model QcS T4 /\ wf_objs (sobjs st1) /\ covered tg1 (sobjs st1) /\
  inrange QcS T4 env4 tg1 /\
  eval_deltas 3 (fun s => s) tg1 st1 = Done (St (1 # 2) [tf [ii; ia]; tg_ [ii]]).
Proof. exact (conj T4_orbital_model (conj st1_wf (conj st1_covered (conj env4_inrange st1_eval)))). Qed.
