(* C14 - removing / differentiating by a tensor undoes a contraction exactly.
   Property theorems only. *)
From Coq Require Import ZArith QArith List.
From ADC Require Import Core.Scalar Core.Index Core.Expr Core.Swap Core.Canon Core.Equiv Core.DeltaRule Core.Equiv2.

(* Kronecker-delta rule used when the removed tensor carried target or
   repeated indices: eliminating a delta that carries a contracted index keeps
   the value, for every model with duplicate-free index ranges and every
   assignment of the targets within their ranges. *)
Theorem C14_delta_rule :
  forall (S : Scalar) (T : tmodel S), model_ok S T ->
  forall tg x y t t' r, elim_delta tg x y t = Some t' -> env_ok S T tg r ->
  eval_term S T tg r t = eval_term S T tg r t'.
Proof. intros S T M tg x y t t' r. apply (elim_delta_sound S T M). Qed.
Print Assumptions C14_delta_rule.

(* The re-contracted block expressions (remove_tensor) resp. the derivative
   contracted with a variation tensor, when accepted by the validator against
   the input resp. its first variation, have the same value in every tensor
   model respecting the declared symmetries, for every target assignment. *)
Theorem C14_recontraction_pair_value :
  forall (S : Scalar) (T : tmodel S), respects S T -> model_ok S T ->
  forall tg c1 c2 recontracted original, check_equiv2 tg c1 c2 recontracted original = true ->
  forall r, env_ok S T tg r -> eval S T tg r recontracted = eval S T tg r original.
Proof. exact check_equiv2_sound. Qed.
Print Assumptions C14_recontraction_pair_value.
