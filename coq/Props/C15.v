(* C15 - spin integration yields exactly the requested spin block *)
From Coq Require Import List.
From ADC Require Import Core.Scalar Core.Index Core.Expr Models.Spin Models.SpinProofs.
Import ListNotations.

(* The list of spin assignments substituted by (patched) integrate_spin for one term
   is duplicate-free and is exactly the set of total maps indices -> {alpha, beta}
   that agree with the target spins and put every object with a block table on
   an allowed block. *)
Theorem C15_integrate_enumerates : forall tm objs tidx,
  wf_objs objs -> NoDup tidx -> idx_closed objs tidx ->
  exists R, integrate_objs true tm objs tidx = Ok R /\
    NoDup (map (assign_list tidx) R) /\
    forall a, In a (map (assign_list tidx) R) <->
              exists g, good tm objs tidx g /\ a = map (fun x => Some (g x)) tidx.
Proof. exact integrate_enumerates. Qed.
Print Assumptions C15_integrate_enumerates.

(* The code as it is computes the same list whenever it does not raise, some object
   has a block table and every contracted index sits on an object with a table. *)
Theorem C15_impl_agrees : forall tm objs tidx R,
  wf_objs objs -> NoDup tidx -> idx_closed objs tidx ->
  has_table objs -> contracted_on_table tm objs tidx ->
  integrate_objs false tm objs tidx = Ok R -> integrate_objs true tm objs tidx = Ok R.
Proof. exact impl_agrees. Qed.
Print Assumptions C15_impl_agrees.

(* Outside these side conditions the code as it is violates the enumeration property. *)
Theorem C15_impl_refuted_no_table :
  exists tm objs tidx, wf_objs objs /\ NoDup tidx /\ idx_closed objs tidx /\
    integrate_objs false tm objs tidx = Ok [] /\ exists g, good tm objs tidx g.
Proof. exact impl_refuted_no_table. Qed.
Print Assumptions C15_impl_refuted_no_table.

Theorem C15_impl_refuted_shallow_copy :
  exists tm objs tidx R, wf_objs objs /\ NoDup tidx /\ idx_closed objs tidx /\ has_table objs /\
    integrate_objs false tm objs tidx = Ok R /\ ~ NoDup (map (assign_list tidx) R) /\
    exists g, good tm objs tidx g /\ ~ In (map (fun x => Some (g x)) tidx) (map (assign_list tidx) R).
Proof. exact impl_refuted_shallow_copy. Qed.
Print Assumptions C15_impl_refuted_shallow_copy.

Theorem C15_impl_refuted_repeated_index :
  exists tm objs tidx c, wf_objs objs /\ NoDup tidx /\ idx_closed objs tidx /\ has_table objs /\
    contracted_on_table tm objs tidx /\
    integrate_objs false tm objs tidx = Err c /\ exists g, good tm objs tidx g.
Proof. exact impl_refuted_repeated_index. Qed.
Print Assumptions C15_impl_refuted_repeated_index.
