(* C15 - spin integration yields exactly the requested spin block *)
From Coq Require Import List.
From ADC Require Import Core.Scalar Core.Index Core.Expr Models.Spin Models.SpinProofs.
Import ListNotations.

(* The list of spin assignments substituted by integrate_spin for one term
   is duplicate-free and is exactly the set of total maps indices -> {alpha, beta}
   that agree with the target spins and put every object with a block table on
   an allowed block. *)
Theorem C15_integrate_enumerates : forall tm objs tidx,
  wf_objs objs -> NoDup tidx -> idx_closed objs tidx ->
  exists R, integrate_objs tm objs tidx = Ok R /\
    NoDup (map (assign_list tidx) R) /\
    forall a, In a (map (assign_list tidx) R) <->
              exists g, good tm objs tidx g /\ a = map (fun x => Some (g x)) tidx.
Proof. exact integrate_enumerates. Qed.
Print Assumptions C15_integrate_enumerates.

(* the well-formedness hypothesis is decided by the boolean that the harness
   evaluates on every input *)
Theorem C15_wf_check_sound : forall objs, wf_objs_b objs = true -> wf_objs objs.
Proof. exact wf_objs_b_sound. Qed.
Print Assumptions C15_wf_check_sound.

(* integrate_spin (after the repairs it is the function of C15_integrate_enumerates
   itself) never raises: no side condition on tables, targets or indices is needed. *)
Theorem C15_impl_agrees : forall tm objs tidx, exists R, integrate_objs tm objs tidx = Ok R.
Proof. exact integrate_total. Qed.
Print Assumptions C15_impl_agrees.

(* Regression examples: the inputs on which the code violated the enumeration
   property before the repairs (sum_i f_ii; delta_ij e_a with i, j alpha; V^{ij}_{ij}). *)
Theorem C15_regression_no_table :
  rbind (integrate_objs [] [([w_i; w_i], None)] [w_i]) (fun R => Ok (map (assign_list [w_i]) R)) =
  Ok [[Some SA]; [Some SB]].
Proof. exact regression_no_table. Qed.
Print Assumptions C15_regression_no_table.

Theorem C15_regression_shallow_copy :
  rbind (integrate_objs [(w_i, SA); (w_j, SA)] [([w_i; w_j], Some delta_blocks); ([w_a], None)] [w_i; w_j; w_a])
        (fun R => Ok (map (assign_list [w_i; w_j; w_a]) R)) =
  Ok [[Some SA; Some SA; Some SA]; [Some SA; Some SA; Some SB]].
Proof. exact regression_shallow_copy. Qed.
Print Assumptions C15_regression_shallow_copy.

Theorem C15_regression_repeated_index :
  rbind (integrate_objs [] [([w_i; w_j; w_i; w_j], Some eri_blocks)] [w_i; w_j])
        (fun R => Ok (map (assign_list [w_i; w_j]) R)) =
  Ok [[Some SA; Some SA]; [Some SA; Some SB]; [Some SB; Some SA]; [Some SB; Some SB]].
Proof. exact regression_repeated_index. Qed.
Print Assumptions C15_regression_repeated_index.

(* ------------------------------------------------------------------ *)
From Coq Require Import ZArith QArith.
From Coq Require String Ascii.
From ADC Require Import Models.SpinValue Models.SpinDfs Models.SpinBlocks Models.SpinExamples.

(* Value of the integrated term.  For every scalar ring, every tensor model whose
   spin-orbital ranges are alpha ++ beta, every term of spin orbitals whose tensors
   vanish outside the allowed blocks of their objects, every target-spin map tm and
   every assignment r of the targets to spin orbitals of the requested spins: the
   spin-orbital value of the term equals the sum, over the enumerated spin
   assignments m, of the value of the term with every index x renamed to x_{m(x)}
   (which ranges over the alpha resp. beta orbitals only). *)
Theorem C15_integrate_value :
  forall (S : Scalar) (T : tmodel S) (ospin : nat -> sp),
  (forall s, rng T s NoSpin = rng T s Alpha ++ rng T s Beta) ->
  (forall s o, In o (rng T s Alpha) -> ospin o = SA) ->
  (forall s o, In o (rng T s Beta) -> ospin o = SB) ->
  forall (tbl : atom -> option (list block)) (tg : list index) (tm : tmap),
  (forall x, In x tg <-> tlookup tm x <> None) ->
  forall (t : term) (tidx : list index), NoDup tidx -> (forall x, In x tidx <-> In x (term_idx t)) ->
  wf_objs (objs_of tbl (tfacs t)) ->
  (forall x, In x (term_idx t) -> ispin x = NoSpin) ->
  vanishes S T ospin tbl (tfacs t) ->
  forall r : env,
  (forall x s, In x tidx -> tlookup tm x = Some s -> ospin (r x) = s) ->
  (forall x, In x (tg ++ term_idx t) -> ispin x = NoSpin /\ iuid x = 0%N) ->
  exists R, integrate_objs tm (objs_of tbl (tfacs t)) tidx = Ok R /\
    eval_term S T tg r t =
    ksum R (fun m => eval_term S T (map (lab m) tg) (fun y => r (unspin y)) (ren_term (lab m) t)).
Proof. exact integrate_value. Qed.
Print Assumptions C15_integrate_value.

(* No admissible spin assignment: the value on the requested block is zero. *)
Theorem C15_no_assignment_zero :
  forall (S : Scalar) (T : tmodel S) (ospin : nat -> sp),
  (forall s, rng T s NoSpin = rng T s Alpha ++ rng T s Beta) ->
  (forall s o, In o (rng T s Alpha) -> ospin o = SA) ->
  (forall s o, In o (rng T s Beta) -> ospin o = SB) ->
  forall (tbl : atom -> option (list block)) (tg : list index) (tm : tmap),
  (forall x, In x tg <-> tlookup tm x <> None) ->
  forall (t : term) (tidx : list index), NoDup tidx -> (forall x, In x tidx <-> In x (term_idx t)) ->
  wf_objs (objs_of tbl (tfacs t)) ->
  (forall x, In x (term_idx t) -> ispin x = NoSpin) ->
  vanishes S T ospin tbl (tfacs t) ->
  forall r : env,
  (forall x s, In x tidx -> tlookup tm x = Some s -> ospin (r x) = s) ->
  (forall g, ~ good tm (objs_of tbl (tfacs t)) tidx g) -> eval_term S T tg r t = k0 S.
Proof. exact no_good_zero. Qed.
Print Assumptions C15_no_assignment_zero.

(* Expansion of the antisymmetrised integrals, pointwise in the assignment of
   orbitals (partial: the lifting through the sums over contracted indices, i.e.
   that the expanded terms have the contracted indices of the original term, is
   not proved; it is checked per case by the syntactic comparison of the harness). *)
Theorem C15_eri_expand_value_partial :
  forall (S : Scalar) (T : tmodel S) (ospin : nat -> sp),
  (forall p q r s : nat,
     tv T KAnti (String.String (Ascii.Ascii false true true false true false true false) String.EmptyString)
        1%Z [p; q] [r; s] =
     kadd S (kmul S (kmul S (dsp S ospin p r) (dsp S ospin q s))
               (tv T KSym (String.String (Ascii.Ascii false true true false true true true false) String.EmptyString)
                   1%Z [p; r] [q; s]))
            (kopp S (kmul S (kmul S (dsp S ospin p s) (dsp S ospin q r))
               (tv T KSym (String.String (Ascii.Ascii false true true false true true true false) String.EmptyString)
                   1%Z [p; s] [q; r])))) ->
  forall (rho : env) (u : term) (l : list term),
  lab_ok ospin rho -> (forall f, In f (tfacs u) -> eri_ok f) ->
  expand_eri_term u = Ok l -> term_val S T rho u = ksum l (fun u' => term_val S T rho u').
Proof. exact eri_expand_value. Qed.
Print Assumptions C15_eri_expand_value_partial.

(* Restricted reference: renaming every beta index to the alpha index of the same
   name keeps the value when alpha and beta tensors coincide. *)
Theorem C15_restricted_value :
  forall (S : Scalar) (T : tmodel S) (alpha_of : nat -> nat),
  (forall s, rng T s Alpha = map alpha_of (rng T s Beta)) ->
  (forall s o, In o (rng T s Alpha) -> alpha_of o = o) ->
  forall (tg0 : list index) (u : term),
  (forall x, In x (tg0 ++ term_idx u) -> ispin x <> NoSpin) ->
  inj_on to_alpha (tg0 ++ term_idx u) ->
  (forall rho : env, (forall x, In x (tg0 ++ term_idx u) -> In (rho x) (irange S T x)) ->
     term_val S T (fun x => alpha_of (rho x)) u = term_val S T rho u) ->
  forall rho rho' : env,
  (forall y, In y tg0 -> In (rho y) (irange S T y)) ->
  (forall y, In y (tg0 ++ term_idx u) -> rho' (to_alpha y) = alpha_of (rho y)) ->
  eval_term S T (map to_alpha tg0) rho' (ren_term to_alpha u) = eval_term S T tg0 rho u.
Proof. exact restricted_value. Qed.
Print Assumptions C15_restricted_value.

(* _has_valid_combination returns True exactly if one spin map can be chosen from
   every object without giving an index two spins. *)
Theorem C15_dfs_sound : forall ls v r, hvc ls v = Some r ->
  exists ms, choice ms ls /\ ok_chain v ms /\ r = fold_left sunion ms v.
Proof. exact hvc_sound. Qed.
Print Assumptions C15_dfs_sound.
Theorem C15_dfs_complete : forall ls v ms, ls <> [] -> choice ms ls -> ok_chain v ms -> hvc ls v <> None.
Proof. exact hvc_complete. Qed.
Print Assumptions C15_dfs_complete.
(* ... and a consistent choice is the same as a common spin function *)
Theorem C15_dfs_choice_is_spin_function : forall ms v,
  (exists g, agrees v g) -> Forall (fun m => exists g, agrees m g) ms ->
  (ok_chain v ms <-> exists g, agrees v g /\ Forall (fun m => agrees m g) ms).
Proof. exact chain_iff_common. Qed.
Print Assumptions C15_dfs_choice_is_spin_function.

(* A block that allowed_spin_blocks(expr, target) does not report admits, for no term
   of the expression, a spin function that gives the targets the block's spins and
   puts every object on an allowed block ... *)
Theorem C15_block_not_reported : forall it tgt e L bl,
  expr_allowed_blocks it tgt e = Ok L -> length bl = length tgt -> ~ In bl L ->
  forall atoms, In atoms e -> exists objs, sobjs_of it atoms = Ok objs /\
    forall g, ~ block_fun_ok objs bl tgt g.
Proof. exact block_not_reported. Qed.
Print Assumptions C15_block_not_reported.

(* ... hence every term of the expression is identically zero on that block. *)
Theorem C15_unreported_block_zero :
  forall (S : Scalar) (T : tmodel S) (ospin : nat -> sp),
  (forall s, rng T s NoSpin = rng T s Alpha ++ rng T s Beta) ->
  (forall s o, In o (rng T s Alpha) -> ospin o = SA) ->
  (forall s o, In o (rng T s Beta) -> ospin o = SB) ->
  forall it tgt e L bl (t : term) (r : env),
  expr_allowed_blocks it tgt e = Ok L -> length bl = length tgt -> ~ In bl L -> NoDup tgt ->
  In (term_atoms t) e ->
  wf_objs (objs_of (tbl_of it) (tfacs t)) ->
  (forall x, In x (term_idx t) -> ispin x = NoSpin) ->
  vanishes S T ospin (tbl_of it) (tfacs t) ->
  (forall s x, In (s, x) (combine bl tgt) -> ospin (r x) = s) ->
  eval_term S T tgt r t = k0 S.
Proof. exact unreported_block_zero. Qed.
Print Assumptions C15_unreported_block_zero.

(* the hypotheses are satisfiable: MP2-energy term on a four-orbital model over Qc *)
Example C15_hypotheses_satisfiable : forall r : env,
  exists R, integrate_objs [] (objs_of (tbl_of []) (tfacs mp2)) (atoms_idx (term_atoms mp2)) = Ok R /\
    length R = 6 /\
    eval_term QcS15 T15 [] r mp2 =
    ksum R (fun m => eval_term QcS15 T15 (map (lab m) []) (fun y => r (unspin y)) (ren_term (lab m) mp2)).
Proof. exact ex_integrate_value. Qed.
