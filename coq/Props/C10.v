(* C10 - reported permutational symmetries are true; decompositions are
   lossless.  Property theorems only. *)
From Coq Require Import ZArith QArith List Permutation.
From ADC Require Import Core.Scalar Core.Index Core.Expr Core.Swap Core.Canon Core.Equiv Core.SwapAny Models.Symmetry.

(* Applying permutation operators (targets included) to an expression and
   evaluating at r is evaluating the original at the permuted assignment. *)
Theorem C10_permutation_operator_meaning :
  forall (S : Scalar) (T : tmodel S) tg ps, perms_ok tg ps = true ->
  forall e r, eval S T tg r (permute_expr ps e) = eval S T tg (permute_env ps r) e.
Proof. exact eval_permute. Qed.
Print Assumptions C10_permutation_operator_meaning.

(* A reported symmetry (perms, f) accepted by the per-run check maps the
   expression onto f times itself in value, in every model respecting the
   declared tensor symmetries and for every target assignment. *)
Theorem C10_reported_symmetry_sound :
  forall (S : Scalar) (T : tmodel S), respects S T ->
  forall tg ps f c1 c2 e, symmetry_check tg ps f c1 c2 e = true ->
  forall r, eval S T tg (permute_env ps r) e = kmul S (ofQ S f) (eval S T tg r e).
Proof. exact reported_symmetry_sound. Qed.
Print Assumptions C10_reported_symmetry_sound.

(* Splitting by permutational symmetry: applying the reported permutation
   operators to the returned parts reproduces the value of the original. *)
Theorem C10_symmetry_decomposition_lossless :
  forall (S : Scalar) (T : tmodel S), respects S T ->
  forall tg c1 c2 parts e, reassemble_ok tg parts = true ->
  check_equiv tg c1 c2 (reassemble parts) e = true ->
  forall r, ksum parts (part_value S T tg r) = eval S T tg r e.
Proof. exact decomposition_lossless. Qed.
Print Assumptions C10_symmetry_decomposition_lossless.

(* Sorting / filtering: any way of distributing the terms over parts (a
   permutation of the term list, e.g. grouping by a key) keeps the value, and
   a filter splits the value into the kept and the dropped part. *)
Theorem C10_grouping_lossless :
  forall (S : Scalar) (T : tmodel S) tg r e1 e2, Permutation e1 e2 ->
  eval S T tg r e1 = eval S T tg r e2.
Proof. exact eval_perm. Qed.
Print Assumptions C10_grouping_lossless.

Theorem C10_filter_split :
  forall (S : Scalar) (T : tmodel S) tg r (p : term -> bool) e,
  eval S T tg r e = kadd S (eval S T tg r (filter p e)) (eval S T tg r (filter (fun t => negb (p t)) e)).
Proof. exact eval_partition. Qed.
Print Assumptions C10_filter_split.
