(* C06 - tensor objects identify exactly the index tuples related by the
   declared symmetry.  Property theorems only; the model is in
   Models/TensorObj.v, the proofs in Models/TensorObjProofs.v. *)
From Coq Require Import ZArith NArith List Bool String Permutation.
From ADC Require Import Core.Scalar Core.Index Core.Expr Core.Canon.
From ADC Require Import Models.TensorObj Models.TensorObjProofs Models.TensorObjExpr.
Import ListNotations.
Local Notation length := List.length.

(* sympy's bidirectional bubble sort (as called by AntiSymmetricTensor) never
   runs out of fuel; it returns the unique strictly sorted permutation of its
   input together with the exact number of inversions as swap count, and raises
   ViolationOfPauliPrinciple exactly for tuples with a repeated index - for
   index tuples of every length. *)
Theorem C06_bubble_sort_spec : forall l,
  match bubble l with
  | BOk l' n => Permutation l l' /\ ssorted l' /\ n = inversions l /\ NoDup l
  | BPauli => ~ NoDup l
  | BFuel => False
  end.
Proof. exact bubble_spec. Qed.
Print Assumptions C06_bubble_sort_spec.

(* Soundness of every constructor (AntiSymmetricTensor, SymmetricTensor,
   Amplitude; all ranks, all index tuples incl. repeats, all bra_ket_sym):
   in every tensor model with the declared symmetries the raw index order has
   the value sign * canonical tensor, for every index assignment; a result 0
   means the raw value is 0 (given that 2 is not a zero divisor). *)
Theorem C06_mk_tensor_sound : forall (S : Scalar) (T : tmodel S), sym_respects S T ->
  forall k n bks u l r,
  match mk_tensor k n bks u l with
  | TOk neg t' => tens_val S T r (Tens k n bks u l) = kmul S (ksgn neg) (tens_val S T r t')
  | TZero => two_regular S -> tens_val S T r (Tens k n bks u l) = k0 S
  | TErr => True
  end.
Proof. exact mk_tensor_sound. Qed.
Print Assumptions C06_mk_tensor_sound.

(* The same holds for models satisfying Core.Canon.respects. *)
Theorem C06_respects_sym_respects : forall S T, respects S T -> sym_respects S T.
Proof. exact respects_sym_respects. Qed.
Print Assumptions C06_respects_sym_respects.

(* Orbit, antisymmetric classes: permuting the upper indices by a permutation
   of parity p and the lower ones by one of parity q gives the same canonical
   tensor times (-1)^(p+q) (zero and exceptions are preserved). *)
Theorem C06_mk_anti_orbit : forall k n bks p q u1 u2 l1 l2,
  PermPar p u1 u2 -> PermPar q l1 l2 ->
  mk_anti k n bks u2 l2 = tres_neg (xorb p q) (mk_anti k n bks u1 l1).
Proof. exact mk_anti_orbit. Qed.
Print Assumptions C06_mk_anti_orbit.

(* PermPar is Permutation with a parity attached, and on duplicate-free tuples
   the parity is determined by the two tuples. *)
Theorem C06_permutation_has_parity : forall l l',
  Permutation l l' <-> exists p, PermPar p l l'.
Proof. intros l l'; split; [apply Permutation_PermPar|intros [p H]; eapply PermPar_Permutation; eauto]. Qed.
Print Assumptions C06_permutation_has_parity.

Theorem C06_parity_well_defined : forall p l l', PermPar p l l' -> NoDup l ->
  Nat.odd (inversions l') = xorb p (Nat.odd (inversions l)).
Proof. exact PermPar_inversions. Qed.
Print Assumptions C06_parity_well_defined.

(* Orbit, SymmetricTensor: no sign inside a group. *)
Theorem C06_mk_sym_orbit : forall k n bks u1 u2 l1 l2,
  Permutation u1 u2 -> Permutation l1 l2 -> mk_sym k n bks u2 l2 = mk_sym k n bks u1 l1.
Proof. exact mk_sym_orbit. Qed.
Print Assumptions C06_mk_sym_orbit.

(* Orbit, bra-ket swap: exchanging upper and lower multiplies by bra_ket_sym
   (zero stays zero) - provided no two different dummies share a name (see
   C06_braket_same_name_refuted). *)
Theorem C06_mk_anti_braket : forall k n bks u l, bks_valid bks = true -> length u = length l ->
  names_inj (u ++ l) ->
  mk_anti k n bks l u = tres_neg (Z.eqb bks (-1)) (mk_anti k n bks u l).
Proof. exact mk_anti_braket. Qed.
Print Assumptions C06_mk_anti_braket.

Theorem C06_mk_sym_braket : forall k n bks u l, bks_valid bks = true -> length u = length l ->
  names_inj (u ++ l) ->
  mk_sym k n bks l u = tres_neg (Z.eqb bks (-1)) (mk_sym k n bks u l).
Proof. exact mk_sym_braket. Qed.
Print Assumptions C06_mk_sym_braket.

(* A bra-ket antisymmetric tensor whose bra and ket hold the same indices (in
   any order) is returned as zero, and zero is its value in every model
   (before the repair 2521687 the code returned +T^{ij}_{ij}; the harness keeps
   the probe AntiSymmetricTensor('T',(i,j),(i,j),-1)). *)
Theorem C06_mk_tensor_braket_diag_zero : forall k n u l, k <> KNonSym -> Permutation u l ->
  mk_tensor k n (-1) u l = TZero /\
  (forall S T, sym_respects S T -> two_regular S -> forall r,
      tens_val S T r (Tens k n (-1) u l) = k0 S).
Proof. exact mk_tensor_braket_diag_zero. Qed.
Print Assumptions C06_mk_tensor_braket_diag_zero.

(* The side condition names_inj cannot be dropped: with two different dummies
   of the same name the bra-ket related orderings stay different objects
   (outside the property's quantifier). *)
Theorem C06_braket_same_name_refuted :
  exists k n u l, NoDup (u ++ l) /\ length u = length l /\
    mk_tensor k n 1 l u <> tres_neg false (mk_tensor k n 1 u l).
Proof. exact braket_same_name_refuted. Qed.
Print Assumptions C06_braket_same_name_refuted.

(* Zero exactly when forced: a repeated index in an antisymmetric group, or
   bra-ket antisymmetry with the same indices in bra and ket. *)
Theorem C06_mk_anti_zero_iff : forall k n bks u l,
  mk_anti k n bks u l = TZero <->
  (~ NoDup u \/ ~ NoDup l \/ (bks = (-1)%Z /\ Permutation u l)).
Proof. exact mk_anti_zero_iff. Qed.
Print Assumptions C06_mk_anti_zero_iff.

Theorem C06_mk_sym_zero_iff : forall k n bks u l,
  mk_sym k n bks u l = TZero <-> (bks = (-1)%Z /\ Permutation u l).
Proof. exact mk_sym_zero_iff. Qed.
Print Assumptions C06_mk_sym_zero_iff.

(* Separation: two constructions with the same canonical tensor have the same
   class, name and bra-ket symmetry, and index tuples related by a permutation
   inside upper and inside lower or - only with bra-ket symmetry - the swap. *)
Theorem C06_mk_tensor_separates : forall k1 n1 b1 u1 l1 s1 k2 n2 b2 u2 l2 s2 t,
  mk_tensor k1 n1 b1 u1 l1 = TOk s1 t -> mk_tensor k2 n2 b2 u2 l2 = TOk s2 t ->
  k1 = k2 /\ n1 = n2 /\ b1 = b2 /\
  ((Permutation u1 u2 /\ Permutation l1 l2) \/
   (b1 <> 0%Z /\ k1 <> KNonSym /\ Permutation u1 l2 /\ Permutation l1 u2)).
Proof. exact mk_tensor_separates. Qed.
Print Assumptions C06_mk_tensor_separates.

(* Re-canonicalising a canonical tensor returns it with sign +. *)
Theorem C06_mk_tensor_idempotent : forall k n bks u l s t,
  mk_tensor k n bks u l = TOk s t -> mk_tensor k n bks (tupper t) (tlower t) = TOk false t.
Proof. exact mk_tensor_idempotent. Qed.
Print Assumptions C06_mk_tensor_idempotent.

(* Kronecker delta: value-sound in every orbital model with occ/virt and
   alpha/beta disjoint; 1 iff same index; 0 iff the spaces or spins clash;
   otherwise the two arguments in canonical order; symmetric; not forced to 0
   or 1 when it survives; powers. *)
Theorem C06_delta_eval_sound : forall (S : Scalar) rg, rng_disjoint rg ->
  forall i j r, in_rng rg r i -> in_rng rg r j ->
  match delta_eval i j with
  | DOne => delta_val S r i j = k1 S
  | DZero => delta_val S r i j = k0 S
  | DDelta a b => delta_val S r i j = delta_val S r a b
  end.
Proof. exact delta_eval_sound. Qed.
Print Assumptions C06_delta_eval_sound.

Theorem C06_delta_eval_one_iff : forall i j, delta_eval i j = DOne <-> i = j.
Proof. exact delta_eval_one_iff. Qed.
Print Assumptions C06_delta_eval_one_iff.

Theorem C06_delta_eval_zero_iff : forall i j, delta_eval i j = DZero <->
  (i <> j /\ (space_clash (ispace i) (ispace j) = true \/ spin_clash (ispin i) (ispin j) = true)).
Proof. exact delta_eval_zero_iff. Qed.
Print Assumptions C06_delta_eval_zero_iff.

Theorem C06_delta_eval_ordered : forall i j a b, delta_eval i j = DDelta a b ->
  idx_lt a b /\ ((a = i /\ b = j) \/ (a = j /\ b = i)) /\
  space_clash (ispace a) (ispace b) = false /\ spin_clash (ispin a) (ispin b) = false.
Proof. exact delta_eval_ordered. Qed.
Print Assumptions C06_delta_eval_ordered.

Theorem C06_delta_eval_symmetric : forall i j, delta_eval j i = delta_eval i j.
Proof. exact delta_eval_symmetric. Qed.
Print Assumptions C06_delta_eval_symmetric.

Theorem C06_delta_eval_not_forced : forall i j a b, delta_eval i j = DDelta a b ->
  rng_disjoint std_rng /\
  exists r1 r2, in_rng std_rng r1 i /\ in_rng std_rng r1 j /\ r1 i = r1 j /\
                in_rng std_rng r2 i /\ in_rng std_rng r2 j /\ r2 i <> r2 j.
Proof. intros i j a b H. split; [exact std_rng_disjoint|exact (delta_eval_not_forced i j a b H)]. Qed.
Print Assumptions C06_delta_eval_not_forced.

Theorem C06_delta_pow_sound : forall (S : Scalar) r i j m,
  kprod (repeat (delta_val S r i j) (Datatypes.S m)) = delta_val S r i j.
Proof. exact delta_pow_sound. Qed.
Print Assumptions C06_delta_pow_sound.

(* Assumptions (one tensor at a time): tensors whose name is not declared are
   untouched; applying the assumptions twice equals applying them once;
   the value is unchanged in every model satisfying the assumption. *)
Theorem C06_assumptions_untouched : forall syms antis t,
  smem (tname t) syms = false -> smem (tname t) antis = false ->
  apply_braket_obj syms antis t = TOk false t.
Proof. exact apply_braket_untouched. Qed.
Print Assumptions C06_assumptions_untouched.

Theorem C06_assumptions_idempotent : forall (real : bool) syms antis t s t',
  let syms' := if real then "f"%string :: "V"%string :: syms else syms in
  (forall m, m = tname t \/ m = real_name (tname t) -> smem m syms' && smem m antis = false) ->
  assume_obj real syms antis t = TOk s t' -> assume_obj real syms antis t' = TOk false t'.
Proof. exact assume_idempotent. Qed.
Print Assumptions C06_assumptions_idempotent.

(* Expr(t1cc^a_i, real=True, sym_tensors=["t1"]) = t1^i_a with bra_ket_sym 1,
   stable under re-application (was not idempotent before the repair ca056bd;
   the harness keeps the probe). *)
Theorem C06_assumptions_cc_example :
  let t' := Tens KAmp "t1" 1 [ix_i] [ix_a] in
  assume_obj true ["t1"%string] [] (Tens KAmp "t1cc" 0 [ix_a] [ix_i]) = TOk false t' /\
  assume_obj true ["t1"%string] [] t' = TOk false t'.
Proof. exact assume_cc_example. Qed.
Print Assumptions C06_assumptions_cc_example.

Theorem C06_assumptions_value : forall (S : Scalar) (T : tmodel S), sym_respects S T ->
  forall r (real : bool) syms antis t,
  model_satisfies S T real syms antis t ->
  match assume_obj real syms antis t with
  | TOk neg t' => tens_val S T r t = kmul S (ksgn neg) (tens_val S T r t')
  | TZero => two_regular S -> tens_val S T r t = k0 S
  | TErr => True
  end.
Proof. exact assume_sound. Qed.
Print Assumptions C06_assumptions_value.

(* The same on whole expressions: Expr(e, real, sym_tensors, antisym_tensors)
   (terms and factors re-canonicalised one tensor at a time, zero terms dropped)
   has the value of e for every choice of target indices and every assignment,
   in every model that satisfies the assumptions for the tensors of e. *)
Theorem C06_assumptions_value_expr : forall (S : Scalar) (T : tmodel S),
  sym_respects S T -> two_regular S ->
  forall (real : bool) syms antis (e : expr),
  (forall t, In t e -> facs_satisfy S T real syms antis (tfacs t)) ->
  forall e', assume_expr real syms antis e = Some e' ->
  forall tg r, eval S T tg r e = eval S T tg r e'.
Proof. exact assume_expr_value. Qed.
Print Assumptions C06_assumptions_value_expr.

(* The hypotheses are satisfiable together (rationals, a non-trivial model). *)
Theorem C06_hypotheses_satisfiable :
  sym_respects QcScalar ex_model /\ two_regular QcScalar /\ rng_disjoint (rng ex_model) /\
  declared_as QcScalar ex_model "f" 1.
Proof. exact TensorObjProofs.C06_hypotheses_satisfiable. Qed.
Print Assumptions C06_hypotheses_satisfiable.
