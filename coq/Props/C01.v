(* C01 - Wick evaluation equals the Fermi-vacuum expectation value.
   Property theorems only; the independent determinant-space semantics is in
   Models/Fock.v, the model of adcgen's code in Models/Wick.v, the proofs in
   Models/WickProofs.v. *)
From Coq Require Import ZArith List Bool.
From ADC Require Import Core.Scalar Core.Index Core.Expr Models.Fock Models.Wick Models.WickProofs.
Import ListNotations.

(* Canonical anticommutation relations of the independent semantics: for all
   products u, v, all elementary operators a, b, all determinants d, d' over
   any number of spin orbitals. *)
Theorem C01_car :
  forall n (u : list eop) (a b : eop) (v : list eop) (d d' : det),
    (amp n (u ++ a :: b :: v) d d' + amp n (u ++ b :: a :: v) d d')%Z
    = (b2z (acomm a b) * amp n (u ++ v) d d')%Z.
Proof. exact car_amp. Qed.
Print Assumptions C01_car.

(* a|Phi> = 0 for quasi-annihilators, <Phi|a = 0 for quasi-creators *)
Theorem C01_reference_annihilated :
  forall M (u : list eop) (a : eop),
    (qann M a = true -> vev M (u ++ [a]) = 0%Z) /\
    (snd a < norb M -> qcre M a = true -> vev M (a :: u) = 0%Z).
Proof. intros M u a. split; [apply vev_qann_last|apply vev_qcre_first]. Qed.
Print Assumptions C01_reference_annihilated.

(* The library's contraction of two operators is the expectation value of the
   pair (all 36 kind/space cases, general indices included: the extra delta
   with the fresh occ/virt index, summed over its range, restricts the pair
   to the right side of the Fermi level). *)
Theorem C01_contraction_is_vev :
  forall M env a b, env_ok M env ->
    cres_val M env (contraction a b) = vev M [inst env a; inst env b].
Proof. exact contraction_is_vev. Qed.
Print Assumptions C01_contraction_is_vev.

(* Central theorem: for every non-empty operator string (any length, any
   interleaving of creators and annihilators, occupied / virtual / general
   indices, repeated indices allowed), every orbital model and every
   assignment of orbitals to the indices within the range of their space, the
   signed sum of delta products returned by the model of
   _contract_operator_string equals <Phi| string |Phi>. *)
Theorem C01_contract_is_vev :
  forall M env ops, env_ok M env -> ops <> [] ->
    wval M env (contract ops) = vev M (map (inst env) ops).
Proof. exact contract_is_vev. Qed.
Print Assumptions C01_contract_is_vev.

(* the operator part of wicks (0 operators: 1; 1 operator: 0; otherwise the
   recursion) for every string *)
Theorem C01_wicks_ops_is_vev :
  forall M env ops, env_ok M env ->
    wval M env (wicks_ops ops) = vev M (map (inst env) ops).
Proof. exact wicks_ops_is_vev. Qed.
Print Assumptions C01_wicks_ops_is_vev.

(* The counting prefilter only cuts branches that contribute nothing: where
   it says "no fully contracted contribution" the plain recursion returns
   the empty sum, the filtered and the plain recursion return the same list
   at every depth, and the expectation value is indeed zero. *)
Theorem C01_prefilter_sound :
  forall ops, prefilter ops = false -> contract_nofilter ops = [].
Proof. exact prefilter_sound. Qed.
Print Assumptions C01_prefilter_sound.

Theorem C01_prefilter_irrelevant :
  forall ops, contract ops = contract_nofilter ops.
Proof. exact contract_eq_nofilter. Qed.
Print Assumptions C01_prefilter_irrelevant.

Theorem C01_prefilter_false_vev_zero :
  forall M env ops, env_ok M env -> prefilter ops = false ->
    vev M (map (inst env) ops) = 0%Z.
Proof. exact prefilter_false_vev_zero. Qed.
Print Assumptions C01_prefilter_false_vev_zero.

(* Normal-ordered groups whose indices are occupied/virtual: the model's
   flattening (quasi-creators first, sign of the permutation) followed by the
   contraction recursion has the value of the product in which every group
   N[...] has its own determinant-space meaning. *)
Theorem C01_no_flatten_sound :
  forall M env gs, env_ok M env -> groups_ok gs = true ->
    wval M env (wicks_groups gs) = gvev M (map (inst_group env) gs).
Proof. exact no_flatten_sound. Qed.
Print Assumptions C01_no_flatten_sound.

(* a normal-ordered product alone has expectation value 0 (wicks returns
   S.Zero for NO objects), and operators of the same class anticommute
   exactly, so the order sympy chooses inside the classes is immaterial *)
Theorem C01_normal_ordered_vev_zero :
  forall M (l : list eop), l <> [] -> (forall o, In o l -> snd o < norb M) ->
    vev M (snd (normal_order M l)) = 0%Z.
Proof. exact vev_normal_ordered. Qed.
Print Assumptions C01_normal_ordered_vev_zero.

Theorem C01_same_class_anticommute :
  forall M (u : list eop) (a b : eop) (v : list eop),
    qcre M a = qcre M b -> vev M (u ++ a :: b :: v) = (- vev M (u ++ b :: a :: v))%Z.
Proof. exact vev_swap_same_class. Qed.
Print Assumptions C01_same_class_anticommute.

(* With tensors: for every scalar domain, every tensor part T (an arbitrary
   function of the orbital assignment, hence any tensors with any values),
   every list xs of contracted indices and every assignment of the other
   indices, the result of the model multiplied by the tensors and summed over
   xs equals the expectation value of the operator product multiplied by the
   tensors and summed over xs. *)
Theorem C01_wicks_value :
  forall (S : Scalar) M env gs (T : (index -> nat) -> K S) xs,
    env_ok M env -> groups_ok gs = true ->
    sum_idx S M xs env (fun e => kmul S (T e) (zK S (wval M e (wicks_groups gs)))) =
    sum_idx S M xs env (fun e => kmul S (T e) (zK S (gvev M (map (inst_group e) gs)))).
Proof. exact wicks_value. Qed.
Print Assumptions C01_wicks_value.

(* Rules.apply removes exactly the terms containing a tensor whose
   (name, block) is forbidden, keeping order and multiplicity of the rest. *)
Theorem C01_rules_exact :
  forall r e t,
    In t (rules_apply r e) <->
    In t e /\ forall f, In f (tfacs t) -> ~ forbidden_spec r (fst f).
Proof. exact rules_exact. Qed.
Print Assumptions C01_rules_exact.

Theorem C01_rules_apply_filter :
  forall r e, rules_apply r e = filter (fun t => negb (term_forbidden r t)) e.
Proof. exact rules_apply_filter. Qed.
Print Assumptions C01_rules_apply_filter.

(* The hypotheses are satisfiable and the statement is not vacuous:
   2 occupied + 2 virtual spin orbitals, <Phi| a+_i a_a a+_p a_q a+_b a_j |Phi>
   with i,j -> 0, a,b -> 2 and general p,q -> 1: the string has the value of
   the library's three contributions (one of them survives). *)
Definition exM : orbmodel := {| norb := 4; is_occ := fun o => Nat.ltb o 2 |}.
Definition ex_env (x : index) : nat :=
  match ispace x with Occ => 0 | Virt => 2 | Gen => 1 end.
Example C01_env_ok_satisfiable : env_ok exM ex_env.
Proof. intros x. unfold ex_env. destruct (ispace x); vm_compute; tauto. Qed.
Example C01_nontrivial_instance :
  let i := Idx Occ NoSpin 105 0 0 in let j := Idx Occ NoSpin 106 0 0 in
  let a := Idx Virt NoSpin 97 0 0 in let b := Idx Virt NoSpin 98 0 0 in
  let p := Idx Gen NoSpin 112 0 0 in let q := Idx Gen NoSpin 113 0 0 in
  let ops := [Op true i; Op false a; Op true p; Op false q; Op true b; Op false j] in
  List.length (contract ops) = 3 /\
  wval exM ex_env (contract ops) = 1%Z /\ vev exM (map (inst ex_env) ops) = 1%Z.
Proof. vm_compute. auto. Qed.
Example C01_no_instance :
  (* <Phi| a+_i a_a N[a_c a+_b] a+_d a_j |Phi> = - <Phi| a+_i a_a a+_b a_c a+_d a_j |Phi>
     with i,j -> 0 and a,b,c,d -> 2 equals -1 *)
  let i := Idx Occ NoSpin 105 0 0 in let j := Idx Occ NoSpin 106 0 0 in
  let a := Idx Virt NoSpin 97 0 0 in let b := Idx Virt NoSpin 98 0 0 in
  let c := Idx Virt NoSpin 99 0 0 in let d := Idx Virt NoSpin 100 0 0 in
  let gs := [(false, [Op true i; Op false a]); (true, [Op false c; Op true b]);
             (false, [Op true d; Op false j])] in
  groups_ok gs = true /\ fst (flatten_groups gs) = true /\
  wval exM ex_env (wicks_groups gs) = (-1)%Z /\
  gvev exM (map (inst_group ex_env) gs) = (-1)%Z.
Proof. vm_compute. auto. Qed.
