(* C18 - printing and importing restores the expression (placeholder while the
   proofs are developed in /tmp; replaced when green). *)
From Coq Require Import List.
From ADC Require Import Models.Latex.
