(* C18 - printing an expression and importing the text restores the
   expression.  Property theorems only; the model of the importer
   (func.py:49-273) and of the printers is Models/Latex.v, the proofs are in
   Models/LatexProofs.v.

   [wf_expr e]: names over letters/digits (tensor names <> "a", symbols over
   letters), index names = one of the 24 letters + digits, fractions not
   nested, a sum as numerator/denominator only inside \frac; all ranks, all
   exponents, all spins, all nesting depths of brackets / NO groups.
   [forget cfg e]: e with every tensor class replaced by the class the
   importer derives from the name under the configured tensor names [cfg]
   and with bra-ket symmetry 0 (what the text cannot carry).
   [reapply sym antisym]: Expr(.., sym_tensors=.., antisym_tensors=..). *)
From Coq Require Import List Ascii String ZArith.
From ADC Require Import Core.Index Core.Expr Models.Latex Models.LatexProofs.
Import ListNotations.

(* names and spins of every index list are recovered by import_indices *)
Theorem C18_import_indices_spec :
  forall l, forallb wf_idx l = true -> import_indices (print_idxs l) = Some l.
Proof. exact import_indices_print. Qed.
Print Assumptions C18_import_indices_spec.

(* every tensor / symbol / operator with every exponent: the importer returns
   the same name, indices, spins and exponent, the class chosen by name *)
Theorem C18_import_tensor_spec :
  forall cfg b e, wf_base b = true ->
  import_tensor cfg false (print_pow (print_base b) e) = Some (OPow (forget_base cfg b) e).
Proof. exact import_tensor_print. Qed.
Print Assumptions C18_import_tensor_spec.

(* importing the printed text of any expression of the fragment, for any order
   of terms and factors and any configured tensor names *)
Theorem C18_import_print_roundtrip :
  forall cfg e, wf_expr e = true ->
  import_model cfg false (print_model e) = Some (forget cfg e).
Proof. exact import_print_roundtrip. Qed.
Print Assumptions C18_import_print_roundtrip.

(* printing the imported expression gives the same text *)
Theorem C18_print_import_print :
  forall cfg e e', wf_expr e = true ->
  import_model cfg false (print_model e) = Some e' -> print_model e' = print_model e.
Proof. exact print_import_print. Qed.
Print Assumptions C18_print_import_print.

(* the whole property under the side condition that the tensor classes are
   those the importer derives from the names ([consistent]: amplitudes by
   name, Coulomb integrals and symbolic denominators SymmetricTensor, all
   other names AntiSymmetricTensor - what the library itself builds) *)
Theorem C18_import_print_reapply_roundtrip :
  forall cfg sym antisym e, wf_expr e = true -> consistent cfg sym antisym e = true ->
  exists e', import_model cfg false (print_model e) = Some e' /\
             reapply sym antisym e' = e /\ print_model e' = print_model e.
Proof. exact import_print_reapply_roundtrip. Qed.
Print Assumptions C18_import_print_reapply_roundtrip.

(* the kind clause for the symbolic denominator: for every configuration in
   which its name is not an amplitude name, any index lists, sign and exponent,
   the tensor use_symbolic_denominators builds (SymmetricTensor, bra-ket
   antisymmetric) comes back as SymmetricTensor, the antisymmetry through
   antisym_tensors, and prints to the same text *)
Theorem C18_symbolic_denominator_roundtrip :
  forall cfg sym neg up lo e,
  is_adc_amplitude cfg (n_sym_orb_denom cfg) = false ->
  is_t_amplitude cfg (n_sym_orb_denom cfg) = false ->
  wf_tname (n_sym_orb_denom cfg) = true -> smem (n_sym_orb_denom cfg) sym = false ->
  forallb wf_idx up = true -> forallb wf_idx lo = true ->
  exists e', import_model cfg false (print_model [denom_term cfg neg up lo e]) = Some e' /\
             reapply sym [n_sym_orb_denom cfg] e' = [denom_term cfg neg up lo e] /\
             expr_kinds (reapply sym [n_sym_orb_denom cfg] e') = [(n_sym_orb_denom cfg, KSym, (-1)%Z)] /\
             print_model e' = print_model [denom_term cfg neg up lo e].
Proof. exact symbolic_denominator_roundtrip. Qed.
Print Assumptions C18_symbolic_denominator_roundtrip.

(* D^{i}_{a} under the default names: the input on which the kind clause
   failed before the repair of import_tensor, now a positive instance *)
Theorem C18_import_kind_D_restored :
  wf_expr D_witness = true /\ consistent default_names [] [L "D"] D_witness = true /\
  exists e', import_model default_names false (print_model D_witness) = Some e' /\
             reapply [] [L "D"] e' = D_witness /\
             expr_kinds (reapply [] [L "D"] e') = [(L "D", KSym, (-1)%Z)] /\
             print_model e' = print_model D_witness.
Proof. exact import_kind_D_restored. Qed.
Print Assumptions C18_import_kind_D_restored.

(* the hypotheses are satisfiable on a non-trivial expression *)
Example C18_hypotheses_satisfiable :
  wf_expr example_expr = true /\ consistent default_names [L "V"; L "f"] [] example_expr = true.
Proof. exact example_hypotheses. Qed.

(* tensors with an empty upper or lower index group (Y^{}_{j}, X^{a}_{},
   d^{}_{q}, v^{}_{}, n_{}) are covered by the theorems above *)
Example C18_empty_groups_roundtrip :
  wf_expr empty_group_expr = true /\ consistent default_names [L "f"] [] empty_group_expr = true /\
  print_model empty_group_expr = "- {Y^{}_{j}} {f^{j}_{j}} + {X^{a_{\alpha}}_{}}^{2} {d^{}_{j}} {v^{}_{}} {n_{}}"%string /\
  import_model default_names false (print_model empty_group_expr) = Some (forget default_names empty_group_expr).
Proof. exact empty_groups_roundtrip. Qed.
