(* Canonical forms used by the equivalence validator: sorting with parity,
   tensors modulo their declared symmetry, generic keyed insertion sort. *)
From Coq Require Import ZArith QArith List Bool Lia Permutation.
From ADC Require Import Core.Scalar Core.Index Core.Expr.
Import ListNotations.

(* ---------- generic insertion sort by a key, result is a permutation ---------- *)
Section KeySort.
Context {A : Type} (key : A -> list N).
Fixpoint kinsert (x : A) (l : list A) : list A :=
  match l with
  | [] => [x]
  | y :: r => if lex_leb (key x) (key y) then x :: y :: r else y :: kinsert x r
  end.
Fixpoint ksort (l : list A) : list A :=
  match l with [] => [] | x :: r => kinsert x (ksort r) end.
Lemma kinsert_perm x l : Permutation (x :: l) (kinsert x l).
Proof. induction l as [|y r IH]; simpl; [reflexivity|].
  destruct (lex_leb (key x) (key y)); [reflexivity|].
  rewrite perm_swap. constructor. exact IH. Qed.
Lemma ksort_perm l : Permutation l (ksort l).
Proof. induction l as [|x r IH]; simpl; [constructor|].
  rewrite <- kinsert_perm. constructor; exact IH. Qed.
End KeySort.

(* ---------- index sort with parity ---------- *)
Fixpoint insert_par (x : index) (l : list index) : bool * list index :=
  match l with
  | [] => (false, [x])
  | y :: r => if idx_leb x y then (false, x :: y :: r)
              else let (p, r') := insert_par x r in (negb p, y :: r')
  end.
Fixpoint sort_par (l : list index) : bool * list index :=
  match l with
  | [] => (false, [])
  | x :: r => let (p, r') := sort_par r in
              let (q, r'') := insert_par x r' in (xorb p q, r'')
  end.

Section Parity.
Variable S : Scalar.
Notation "1" := (k1 S). Infix "*" := (kmul S). Notation "- x" := (kopp S x).
Add Ring KR3 : (Kring S).

(* [g] changes by the sign [ksgn s] under an adjacent transposition *)
Definition adj_sym (s : bool) (g : list index -> K S) :=
  forall l1 a b l2, g (l1 ++ a :: b :: l2) = ksgn s * g (l1 ++ b :: a :: l2).

Lemma insert_par_sound s g : adj_sym s g -> forall x l pre,
  g (pre ++ x :: l) = ksgn (s && fst (insert_par x l)) * g (pre ++ snd (insert_par x l)).
Proof. intros Hg x l. induction l as [|y r IH]; intros pre; simpl.
  - rewrite andb_false_r; simpl; ring.
  - destruct (idx_leb x y); simpl; [rewrite andb_false_r; simpl; ring|].
    destruct (insert_par x r) as [p r'] eqn:E; simpl in *.
    rewrite Hg. replace (pre ++ y :: x :: r) with ((pre ++ [y]) ++ x :: r) by (rewrite <- app_assoc; reflexivity).
    rewrite IH. rewrite <- app_assoc; simpl.
    destruct s, p; simpl; ring. Qed.

Lemma sort_par_sound s g : adj_sym s g -> forall l pre,
  g (pre ++ l) = ksgn (s && fst (sort_par l)) * g (pre ++ snd (sort_par l)).
Proof. intros Hg l. induction l as [|x r IH]; intros pre; simpl.
  - rewrite andb_false_r; simpl; ring.
  - destruct (sort_par r) as [p r'] eqn:E1. destruct (insert_par x r') as [q r''] eqn:E2. simpl in *.
    replace (pre ++ x :: r) with ((pre ++ [x]) ++ r) by (rewrite <- app_assoc; reflexivity).
    rewrite IH. rewrite <- app_assoc; simpl.
    rewrite (insert_par_sound s g Hg x r' pre). rewrite E2; simpl.
    destruct s, p, q; simpl; ring. Qed.
End Parity.

(* ---------- tensors modulo declared symmetry ---------- *)
Definition inner_sym (k : kind) : option bool :=     (* Some true = antisymmetric *)
  match k with KAnti => Some true | KAmp => Some true | KSym => Some false | KNonSym => None end.

Definition keys_of (l : list index) : list N := flat_map idx_key l.

(* returns (negative?, canonical tensor) *)
Definition canon_tens (t : tens) : bool * tens :=
  match inner_sym (tkind t) with
  | None => (false, t)
  | Some s =>
    let (pu, u) := sort_par (tupper t) in
    let (pl, l) := sort_par (tlower t) in
    let sg := s && xorb pu pl in
    if (Z.eqb (tbks t) 1 || Z.eqb (tbks t) (-1)) && Nat.eqb (length u) (length l)
       && lex_ltb (keys_of l) (keys_of u)
    then (xorb sg (Z.eqb (tbks t) (-1)), Tens (tkind t) (tname t) (tbks t) l u)
    else (sg, Tens (tkind t) (tname t) (tbks t) u l)
  end.

Section Respects.
Variable S : Scalar.
Variable T : tmodel S.
Notation "1" := (k1 S). Infix "*" := (kmul S). Notation "- x" := (kopp S x).
Add Ring KR4 : (Kring S).

(* The tensor model satisfies the symmetries that the tensor kinds declare. *)
Record respects : Prop := {
  resp_upper : forall k n bks s, inner_sym k = Some s -> forall u1 a b u2 l,
      tv T k n bks (u1 ++ a :: b :: u2) l = ksgn s * tv T k n bks (u1 ++ b :: a :: u2) l;
  resp_lower : forall k n bks s, inner_sym k = Some s -> forall u l1 a b l2,
      tv T k n bks u (l1 ++ a :: b :: l2) = ksgn s * tv T k n bks u (l1 ++ b :: a :: l2);
  resp_bk_sym : forall k n u l, inner_sym k <> None -> length u = length l ->
      tv T k n 1%Z l u = tv T k n 1%Z u l;
  resp_bk_anti : forall k n u l, inner_sym k <> None -> length u = length l ->
      tv T k n (-1)%Z l u = - tv T k n (-1)%Z u l;
  resp_sqrt : forall p, sqrtv T p * sqrtv T p = ofQ S (Zpos p # 1)
}.

Hypothesis R : respects.

Lemma canon_tens_sound r t :
  tens_val S T r t = ksgn (fst (canon_tens t)) * tens_val S T r (snd (canon_tens t)).
Proof. unfold canon_tens. destruct t as [k n bks u l]; simpl.
  destruct (inner_sym k) as [s|] eqn:Ek; [|simpl; ring].
  destruct (sort_par u) as [pu u'] eqn:Eu. destruct (sort_par l) as [pl l'] eqn:El.
  assert (H1 : tens_val S T r (Tens k n bks u l) =
               ksgn (s && xorb pu pl) * tens_val S T r (Tens k n bks u' l')).
  { unfold tens_val; simpl.
    assert (Au : adj_sym S s (fun x => tv T k n bks (map r x) (map r l))).
    { intros l1 a b l2. rewrite !map_app; simpl. apply (resp_upper R k n bks s Ek). }
    pose proof (sort_par_sound S s _ Au u []) as Hu.
    simpl in Hu. rewrite Eu in Hu; simpl in Hu. rewrite Hu.
    assert (Al : adj_sym S s (fun x => tv T k n bks (map r u') (map r x))).
    { intros l1 a b l2. rewrite !map_app; simpl. apply (resp_lower R k n bks s Ek). }
    pose proof (sort_par_sound S s _ Al l []) as Hl.
    simpl in Hl. rewrite El in Hl; simpl in Hl. rewrite Hl.
    destruct s, pu, pl; simpl; ring. }
  rewrite H1.
  destruct ((Z.eqb bks 1 || Z.eqb bks (-1)) && Nat.eqb (length u') (length l') && lex_ltb (keys_of l') (keys_of u')) eqn:Ec;
    simpl; [|reflexivity].
  rewrite !andb_true_iff in Ec. destruct Ec as [[Eb Elen] _].
  apply Nat.eqb_eq in Elen.
  assert (Hne : inner_sym k <> None) by congruence.
  assert (Hlen : length (map r u') = length (map r l')) by (rewrite !map_length; exact Elen).
  unfold tens_val; simpl.
  apply orb_true_iff in Eb. destruct Eb as [Eb|Eb]; apply Z.eqb_eq in Eb; subst bks; simpl.
  - rewrite (resp_bk_sym R k n _ _ Hne Hlen). rewrite xorb_false_r. reflexivity.
  - rewrite (resp_bk_anti R k n _ _ Hne Hlen). rewrite xorb_true_r.
    destruct (s && xorb pu pl); simpl; ring. Qed.
End Respects.
