(* Equivalence validator with orbital-energy fraction algebra: terms that
   agree in contracted indices and remainder are compared as rational
   functions of the orbital energies (Ring_polynom over Q coefficients). *)
From Coq Require Import ZArith QArith List Bool Lia Permutation Ring_polynom Ring_theory BinList Setoid.
From Coq Require String.
From ADC Require Import Core.Scalar Core.Index Core.Expr Core.Swap Core.Canon Core.Equiv Core.DeltaRule Core.Equiv2 Core.Pauli.
Import ListNotations.

(* ---------- syntactic part (no scalars needed) ---------- *)
Definition is_eps (en : String.string) (t : tens) : option index :=
  match tkind t, tupper t, tlower t with
  | KNonSym, [i], [] => if String.eqb (tname t) en && Z.eqb (tbks t) 0 then Some i else None
  | _, _, _ => None end.

Fixpoint find_pos (i : index) (vs : list index) : option positive :=
  match vs with
  | [] => None
  | v :: r => if index_eqb i v then Some 1%positive else option_map Pos.succ (find_pos i r)
  end.

Fixpoint tens_pe en vs (ts : list tens) : option (PExpr Q) :=
  match ts with
  | [] => Some (PEc 1%Q)
  | t :: r => match is_eps en t, tens_pe en vs r with
              | Some i, Some pe => match find_pos i vs with
                                   | Some p => Some (PEmul (PEX Q p) pe) | None => None end
              | _, _ => None end
  end.
Fixpoint poly_pe en vs (p : list (Q * list tens)) : option (PExpr Q) :=
  match p with
  | [] => Some (PEc 0%Q)
  | qt :: r => match tens_pe en vs (snd qt), poly_pe en vs r with
               | Some a, Some b => Some (PEadd (PEmul (PEc (fst qt)) a) b)
               | _, _ => None end
  end.

Record fparts := mk_fparts { fp_rem : list factor; fp_num : PExpr Q; fp_den : list (PExpr Q) }.
Definition fac_pe en vs (f : factor) : option (PExpr Q) :=
  match fst f with
  | APoly p => poly_pe en vs p
  | ATens t => match is_eps en t with
               | Some i => match find_pos i vs with Some p => Some (PEX Q p) | None => None end
               | None => None end
  | _ => None end.
Fixpoint split_facs en vs (fs : list factor) : fparts :=
  match fs with
  | [] => mk_fparts [] (PEc 1%Q) []
  | f :: r =>
    let P := split_facs en vs r in
    match fac_pe en vs f with
    | Some pe => if snd f then mk_fparts (fp_rem P) (fp_num P) (pe :: fp_den P)
                 else mk_fparts (fp_rem P) (PEmul pe (fp_num P)) (fp_den P)
    | None => mk_fparts (f :: fp_rem P) (fp_num P) (fp_den P)
    end
  end.

Definition cdivQ := triv_div 0%Q 1%Q Qeq_bool.
Definition pnorm (pe : PExpr Q) := norm_subst 0%Q 1%Q Qplus Qmult Qminus Qopp Qeq_bool cdivQ 0 nil pe.
Definition peq (a b : PExpr Q) : bool := Peq Qeq_bool (pnorm a) (pnorm b).
Definition prod_pe (l : list (PExpr Q)) : PExpr Q := fold_right (fun a b => PEmul a b) (PEc 1%Q) l.

Definition fentry := (Q * PExpr Q * list (PExpr Q))%type.
Definition fnf := list (key * list fentry).
Fixpoint fnf_add (k : key) (e : fentry) (n : fnf) : fnf :=
  match n with
  | [] => [(k, [e])]
  | (k', es) :: r => if key_eqb k k' then (k', e :: es) :: r else (k', es) :: fnf_add k e r
  end.
Definition fterm_key en vs (tg : list index) (t : term) : key * fentry :=
  let P := split_facs en vs (tfacs t) in
  let (s, fs) := canon_mono (fp_rem P) in
  ((ksort idx_key (contracted tg t), fs), (qsgn s (tcoef t), fp_num P, fp_den P)).
Definition build_fnf en vs tg (ts : list term) : fnf :=
  fold_left (fun n t => let (k, e) := fterm_key en vs tg t in fnf_add k e n) ts [].

(* multiset operations on brackets modulo polynomial equality *)
Fixpoint remove_one (d : PExpr Q) (l : list (PExpr Q)) : option (list (PExpr Q)) :=
  match l with
  | [] => None
  | x :: r => if peq d x then Some r
              else match remove_one d r with Some r' => Some (x :: r') | None => None end
  end.
(* brackets of [need] that are not covered by [have] *)
Fixpoint missing (need have : list (PExpr Q)) : list (PExpr Q) :=
  match need with
  | [] => []
  | d :: r => match remove_one d have with
              | Some have' => missing r have'
              | None => d :: missing r have end
  end.
Definition common_den (es : list fentry) : list (PExpr Q) :=
  fold_left (fun dc e => dc ++ missing (snd e) dc) es [].
Definition all_dens (es : list fentry) : list (PExpr Q) := flat_map (fun e => snd e) es.
Definition entry_num (dc : list (PExpr Q)) (e : fentry) : PExpr Q :=
  PEmul (PEmul (PEc (fst (fst e))) (snd (fst e))) (prod_pe (missing dc (snd e))).
Definition entry_ok (dc : list (PExpr Q)) (e : fentry) : bool :=
  peq (PEmul (prod_pe (snd e)) (prod_pe (missing dc (snd e)))) (prod_pe dc).
Definition key_zero (es : list fentry) : bool :=
  let dc := common_den es in
  forallb (entry_ok dc) es &&
  forallb (fun d => existsb (fun d' => peq d d') (all_dens es)) dc &&
  peq (fold_right (fun e acc => PEadd (entry_num dc e) acc) (PEc 0%Q) es) (PEc 0%Q).
Definition fnf_zero (n : fnf) : bool := forallb (fun kes => key_zero (snd kes)) n.

Definition equiv_fnf en vs tg c1 c2 (e1 e2 : expr) : option fnf :=
  match expand_all2 tg e1 c1, expand_all2 tg e2 c2 with
  | Some l1, Some l2 => Some (build_fnf en vs tg (drop_pauli (l1 ++ map neg_term l2)))
  | _, _ => None end.
Definition check_equiv_frac en vs tg c1 c2 (e1 e2 : expr) : bool :=
  match equiv_fnf en vs tg c1 c2 e1 e2 with Some n => fnf_zero n | None => false end.
(* the denominators that must not vanish *)
Definition frac_dens en vs tg c1 c2 (e1 e2 : expr) : list (PExpr Q) :=
  match equiv_fnf en vs tg c1 c2 e1 e2 with
  | Some n => flat_map (fun kes => all_dens (snd kes)) n | None => [] end.
