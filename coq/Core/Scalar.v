(* Scalars: an arbitrary commutative ring with an embedding of Q and a total
   "inverse" function.  All theorems of the development quantify over a value
   of type [Scalar]; nothing is an axiom. *)
From Coq Require Import ZArith QArith List Ring Setoid Permutation Lia.
Import ListNotations.

Record Scalar := {
  K : Type;
  k0 : K; k1 : K;
  kadd : K -> K -> K; kmul : K -> K -> K; ksub : K -> K -> K; kopp : K -> K;
  kinv : K -> K;
  ofQ : Q -> K;
  Kring : ring_theory k0 k1 kadd kmul ksub kopp (@eq K);
  ofQ_eq : forall a b, Qeq a b -> ofQ a = ofQ b;
  ofQ_0 : ofQ 0%Q = k0;
  ofQ_1 : ofQ 1%Q = k1;
  ofQ_add : forall a b, ofQ (a + b)%Q = kadd (ofQ a) (ofQ b);
  ofQ_mul : forall a b, ofQ (a * b)%Q = kmul (ofQ a) (ofQ b);
  kinv_opp : forall x, kinv (kopp x) = kopp (kinv x)
}.

Section ScalarFacts.
Variable S : Scalar.
Notation "0" := (k0 S). Notation "1" := (k1 S).
Infix "+" := (kadd S). Infix "*" := (kmul S). Infix "-" := (ksub S).
Notation "- x" := (kopp S x).
Add Ring KR : (Kring S).

Lemma ofQ_opp a : ofQ S (- a)%Q = - ofQ S a.
Proof.
  assert (H : ofQ S (- a)%Q + ofQ S a = 0).
  { rewrite <- ofQ_add. rewrite <- (ofQ_0 S). apply ofQ_eq. ring. }
  transitivity (ofQ S (- a)%Q + ofQ S a - ofQ S a); [ring|rewrite H; ring].
Qed.

(* finite sums and products over lists *)
Fixpoint ksum {A} (l : list A) (f : A -> K S) : K S :=
  match l with [] => 0 | x :: r => f x + ksum r f end.
Fixpoint kprod (l : list (K S)) : K S :=
  match l with [] => 1 | x :: r => x * kprod r end.

Lemma ksum_ext {A} (l : list A) f g : (forall x, In x l -> f x = g x) -> ksum l f = ksum l g.
Proof. induction l as [|x r IH]; simpl; intros H; [reflexivity|].
  rewrite (H x), IH; auto. Qed.
Lemma ksum_zero {A} (l : list A) : ksum l (fun _ => 0) = 0.
Proof. induction l; simpl; [reflexivity|rewrite IHl; ring]. Qed.
Lemma ksum_add {A} (l : list A) f g : ksum l (fun x => f x + g x) = ksum l f + ksum l g.
Proof. induction l; simpl; [ring|rewrite IHl; ring]. Qed.
Lemma ksum_scal {A} (l : list A) c f : ksum l (fun x => c * f x) = c * ksum l f.
Proof. induction l; simpl; [ring|rewrite IHl; ring]. Qed.
Lemma ksum_app {A} (l1 l2 : list A) f : ksum (l1 ++ l2) f = ksum l1 f + ksum l2 f.
Proof. induction l1; simpl; [ring|rewrite IHl1; ring]. Qed.
Lemma ksum_swap {A B} (l1 : list A) (l2 : list B) f :
  ksum l1 (fun a => ksum l2 (fun b => f a b)) = ksum l2 (fun b => ksum l1 (fun a => f a b)).
Proof. induction l1; simpl; [rewrite ksum_zero; reflexivity|].
  rewrite IHl1, ksum_add; reflexivity. Qed.
Lemma ksum_perm {A} (l1 l2 : list A) f : Permutation l1 l2 -> ksum l1 f = ksum l2 f.
Proof. induction 1; simpl; [reflexivity|rewrite IHPermutation; reflexivity|ring|congruence]. Qed.
Lemma ksum_map {A B} (g : A -> B) l f : ksum (map g l) f = ksum l (fun x => f (g x)).
Proof. induction l; simpl; [reflexivity|rewrite IHl; reflexivity]. Qed.

Lemma kprod_app l1 l2 : kprod (l1 ++ l2) = kprod l1 * kprod l2.
Proof. induction l1; simpl; [ring|rewrite IHl1; ring]. Qed.
Lemma kprod_perm l1 l2 : Permutation l1 l2 -> kprod l1 = kprod l2.
Proof. induction 1; simpl; [reflexivity|rewrite IHPermutation; reflexivity|ring|congruence]. Qed.

(* (-1)^b *)
Definition ksgn (b : bool) : K S := if b then kopp S (k1 S) else k1 S.
Lemma ksgn_xorb a b : ksgn (xorb a b) = ksgn a * ksgn b.
Proof. destruct a, b; simpl; ring. Qed.
Lemma ksgn_sq b : ksgn b * ksgn b = 1.
Proof. destruct b; simpl; ring. Qed.
End ScalarFacts.

Arguments ksum {S A} l f.
Arguments kprod {S} l.
Arguments ksgn {S} b.
