(* Terms containing an antisymmetric tensor with a repeated index in one
   group vanish (characteristic 0: scalars embed Q). *)
From Coq Require Import ZArith QArith List Bool Lia Permutation.
From ADC Require Import Core.Scalar Core.Index Core.Expr Core.Canon.
Import ListNotations.

Fixpoint has_dup (l : list index) : bool :=
  match l with [] => false | x :: r => imem x r || has_dup r end.
Definition pauli_fac (f : factor) : bool :=
  match f with
  | (ATens t, false) => match inner_sym (tkind t) with
                        | Some true => has_dup (tupper t) || has_dup (tlower t)
                        | _ => false end
  | _ => false end.
Definition pauli_zero (t : term) : bool := existsb pauli_fac (tfacs t).
Definition drop_pauli (l : list term) : list term := filter (fun t => negb (pauli_zero t)) l.

Section Pauli.
Variable S : Scalar.
Variable T : tmodel S.
Hypothesis R : respects S T.
Notation "0" := (k0 S). Notation "1" := (k1 S).
Infix "+" := (kadd S). Infix "*" := (kmul S). Notation "- x" := (kopp S x).
Add Ring KRpa : (Kring S).

Lemma self_neg_zero (v : K S) : v = - v -> v = 0.
Proof. intros H. assert (H2 : v + v = 0) by (rewrite H at 1; ring).
  transitivity (ofQ S (1#2) * (ofQ S 2 * v)).
  - rewrite (Rmul_assoc (Kring S)), <- ofQ_mul.
    rewrite (ofQ_eq S ((1#2) * 2)%Q 1%Q) by reflexivity. rewrite ofQ_1. ring.
  - replace (ofQ S 2 * v) with (v + v).
    + rewrite H2. ring.
    + rewrite (ofQ_eq S 2%Q (1 + 1)%Q) by reflexivity. rewrite ofQ_add, ofQ_1. ring. Qed.

Lemma dup_adjacent g : adj_sym S true g -> forall r1 pre x r2,
  g (pre ++ x :: r1 ++ x :: r2) = 0.
Proof. intros Hg. induction r1 as [|y r1 IH]; intros pre x r2; simpl.
  - apply self_neg_zero. rewrite (Hg pre x x r2) at 1. simpl. ring.
  - rewrite (Hg pre x y). replace (pre ++ y :: x :: r1 ++ x :: r2) with ((pre ++ [y]) ++ x :: r1 ++ x :: r2)
      by (rewrite <- app_assoc; reflexivity).
    rewrite IH. simpl. ring. Qed.

Lemma has_dup_zero g : adj_sym S true g -> forall l pre, has_dup l = true -> g (pre ++ l) = 0.
Proof. intros Hg. induction l as [|x r IH]; intros pre; simpl; [discriminate|].
  rewrite orb_true_iff. intros [H|H].
  - apply imem_In in H. apply in_split in H. destruct H as [r1 [r2 ->]]. apply dup_adjacent; exact Hg.
  - replace (pre ++ x :: r) with ((pre ++ [x]) ++ r) by (rewrite <- app_assoc; reflexivity).
    apply IH; exact H. Qed.

Lemma pauli_fac_zero r f : pauli_fac f = true -> fac_val S T r f = 0.
Proof. destruct f as [[t|i j|n|q|p] [|]]; simpl; try discriminate.
  destruct t as [k n b u l]; simpl. destruct (inner_sym k) as [[|]|] eqn:Ek; try discriminate.
  rewrite orb_true_iff. unfold fac_val, tens_val; simpl. intros [H|H].
  - assert (A : adj_sym S true (fun x => tv T k n b (map r x) (map r l))).
    { intros l1 a c l2. rewrite !map_app; simpl. apply (resp_upper S T R k n b true Ek). }
    apply (has_dup_zero _ A u [] H).
  - assert (A : adj_sym S true (fun x => tv T k n b (map r u) (map r x))).
    { intros l1 a c l2. rewrite !map_app; simpl. apply (resp_lower S T R k n b true Ek). }
    apply (has_dup_zero _ A l [] H). Qed.

Lemma pauli_zero_val tg r t : pauli_zero t = true -> eval_term S T tg r t = 0.
Proof. unfold pauli_zero. intros H. apply existsb_exists in H. destruct H as [f [Hin Hf]].
  unfold eval_term. rewrite (sum_over_ext S T _ _ (fun _ => 0)); [apply sum_over_zero|].
  intros r'. unfold term_val, mono_val.
  apply in_split in Hin. destruct Hin as [l1 [l2 ->]].
  rewrite map_app, kprod_app. simpl. rewrite (pauli_fac_zero r' f Hf). ring. Qed.

Lemma drop_pauli_val tg r l : ksum (drop_pauli l) (eval_term S T tg r) = ksum l (eval_term S T tg r).
Proof. unfold drop_pauli. induction l as [|t l IH]; simpl; [reflexivity|].
  destruct (pauli_zero t) eqn:E; simpl; rewrite IH; [rewrite (pauli_zero_val tg r t E); ring|reflexivity]. Qed.
End Pauli.
