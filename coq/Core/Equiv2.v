(* Equivalence validator with Kronecker-delta elimination: certificates may
   first eliminate deltas carrying a contracted index, then rename and weight
   as in Core/Equiv.v. *)
From Coq Require Import ZArith QArith List Bool Lia Permutation.
From ADC Require Import Core.Scalar Core.Index Core.Expr Core.Swap Core.Canon Core.Equiv Core.DeltaRule.
Import ListNotations.

Record tcert2 := mk_tcert2 { c_deltas : list (index * index); c_w : tcert }.

Fixpoint elim_all (tg : list index) (ds : list (index * index)) (t : term) : option term :=
  match ds with
  | [] => Some t
  | xy :: ds' => match elim_delta tg (fst xy) (snd xy) t with
                 | Some t' => elim_all tg ds' t' | None => None end
  end.
Definition expand_term2 tg (t : term) (c : tcert2) : option (list term) :=
  match elim_all tg (c_deltas c) t with Some t' => expand_term tg t' (c_w c) | None => None end.
Fixpoint expand_all2 tg (e : expr) (cs : list tcert2) : option (list term) :=
  match e with
  | [] => Some []
  | t :: e' =>
    let (c, cs') := match cs with [] => (mk_tcert2 [] [], []) | c :: cs' => (c, cs') end in
    match expand_term2 tg t c, expand_all2 tg e' cs' with
    | Some l1, Some l2 => Some (l1 ++ l2)
    | _, _ => None end
  end.
Definition equiv_nf2 tg c1 c2 (e1 e2 : expr) : option nf :=
  match expand_all2 tg e1 c1, expand_all2 tg e2 c2 with
  | Some l1, Some l2 => Some (build_nf tg (l1 ++ map neg_term l2))
  | _, _ => None end.
Definition check_equiv2 tg c1 c2 (e1 e2 : expr) : bool :=
  match equiv_nf2 tg c1 c2 e1 e2 with Some n => nf_zero n | None => false end.
Definition equiv_residual2 tg c1 c2 (e1 e2 : expr) : option nat :=
  match equiv_nf2 tg c1 c2 e1 e2 with Some n => Some (length (nf_residual n)) | None => None end.

Section Sound2.
Variable S : Scalar.
Variable T : tmodel S.
Hypothesis R : respects S T.
Hypothesis MOK : model_ok S T.
Infix "+" := (kadd S). Notation "- x" := (kopp S x).
Add Ring KR9 : (Kring S).

Lemma elim_all_sound tg r ds : env_ok S T tg r -> forall t t', elim_all tg ds t = Some t' ->
  eval_term S T tg r t = eval_term S T tg r t'.
Proof. intros Hr. induction ds as [|[x y] ds IH]; intros t t'; simpl.
  - intros H; inversion H; reflexivity.
  - destruct (elim_delta tg x y t) as [t1|] eqn:E; [|discriminate]. intros H.
    rewrite (elim_delta_sound S T MOK tg x y t t1 r E Hr). apply IH; exact H. Qed.

Lemma expand_term2_sound tg r t c l : env_ok S T tg r -> expand_term2 tg t c = Some l ->
  terms_val S T tg r l = eval_term S T tg r t.
Proof. intros Hr. unfold expand_term2. destruct (elim_all tg (c_deltas c) t) as [t'|] eqn:E; [|discriminate].
  intros H. rewrite (elim_all_sound tg r _ Hr _ _ E). apply (expand_term_sound S T tg r t' (c_w c) l H). Qed.

Lemma expand_all2_sound tg r : env_ok S T tg r -> forall e cs l, expand_all2 tg e cs = Some l ->
  terms_val S T tg r l = eval S T tg r e.
Proof. intros Hr. induction e as [|t e IH]; intros cs l; simpl.
  - intros H; inversion H; reflexivity.
  - destruct cs as [|c cs'].
    + destruct (expand_term2 tg t (mk_tcert2 [] [])) eqn:E1; [|discriminate].
      destruct (expand_all2 tg e []) eqn:E2; [|discriminate]. intros H; inversion H; subst.
      unfold terms_val, eval; simpl. rewrite ksum_app.
      fold (terms_val S T tg r l0). fold (terms_val S T tg r l1).
      rewrite (expand_term2_sound _ _ _ _ _ Hr E1), (IH _ _ E2). reflexivity.
    + destruct (expand_term2 tg t c) eqn:E1; [|discriminate].
      destruct (expand_all2 tg e cs') eqn:E2; [|discriminate]. intros H; inversion H; subst.
      unfold terms_val, eval; simpl. rewrite ksum_app.
      fold (terms_val S T tg r l0). fold (terms_val S T tg r l1).
      rewrite (expand_term2_sound _ _ _ _ _ Hr E1), (IH _ _ E2). reflexivity. Qed.

Theorem check_equiv2_sound tg c1 c2 e1 e2 : check_equiv2 tg c1 c2 e1 e2 = true ->
  forall r, env_ok S T tg r -> eval S T tg r e1 = eval S T tg r e2.
Proof. unfold check_equiv2, equiv_nf2.
  destruct (expand_all2 tg e1 c1) as [l1|] eqn:E1; [|discriminate].
  destruct (expand_all2 tg e2 c2) as [l2|] eqn:E2; [|discriminate].
  intros Hz r Hr. pose proof (nf_zero_val S T r _ Hz) as H. rewrite (build_nf_val S T R) in H.
  unfold terms_val in H. rewrite ksum_app in H.
  fold (terms_val S T tg r l1) in H. fold (terms_val S T tg r (map neg_term l2)) in H.
  rewrite neg_terms_val in H.
  rewrite (expand_all2_sound _ _ Hr _ _ _ E1), (expand_all2_sound _ _ Hr _ _ _ E2) in H.
  transitivity (eval S T tg r e1 + - eval S T tg r e2 + eval S T tg r e2); [ring|rewrite H; ring]. Qed.
End Sound2.
