(* Syntax of adcgen expressions (operator-free fragment) and their value in an
   arbitrary tensor model. *)
From Coq Require Import ZArith QArith List Bool Lia String Permutation.
From ADC Require Import Core.Scalar Core.Index.
Import ListNotations.

Inductive kind := KAnti | KSym | KAmp | KNonSym.
Record tens := Tens { tkind : kind; tname : string; tbks : Z;
                      tupper : list index; tlower : list index }.
Inductive atom :=
| ATens (t : tens)
| ADelta (i j : index)
| ASymb (name : string)
| ASqrt (r : positive)
| APoly (p : list (Q * list tens)).
Definition factor := (atom * bool)%type.          (* bool: inverted *)
Record term := Term { tcoef : Q; tfacs : list factor }.
Definition expr := list term.

Definition env := index -> nat.
Definition upd (r : env) (x : index) (o : nat) : env :=
  fun y => if index_eqb y x then o else r y.

Section Sem.
Variable S : Scalar.
Notation "0" := (k0 S). Notation "1" := (k1 S).
Infix "+" := (kadd S). Infix "*" := (kmul S).
Notation "- x" := (kopp S x).
Add Ring KR2 : (Kring S).

Record tmodel := { rng : space -> spin -> list nat;
                   tv : kind -> string -> Z -> list nat -> list nat -> K S;
                   symv : string -> K S;
                   sqrtv : positive -> K S }.
Variable T : tmodel.

Definition irange (x : index) := rng T (ispace x) (ispin x).

Definition tens_idx (t : tens) := tupper t ++ tlower t.
Definition tens_val (r : env) (t : tens) : K S :=
  tv T (tkind t) (tname t) (tbks t) (map r (tupper t)) (map r (tlower t)).
Definition delta_val (r : env) (i j : index) : K S :=
  if Nat.eqb (r i) (r j) then 1 else 0.
Definition pterm_val (r : env) (qt : Q * list tens) : K S :=
  ofQ S (fst qt) * kprod (map (tens_val r) (snd qt)).
Definition poly_val (r : env) (p : list (Q * list tens)) : K S :=
  ksum p (pterm_val r).
Definition poly_idx (p : list (Q * list tens)) : list index :=
  flat_map (fun qt => flat_map tens_idx (snd qt)) p.
Definition atom_idx (a : atom) : list index :=
  match a with
  | ATens t => tens_idx t | ADelta i j => [i; j] | ASymb _ => [] | ASqrt _ => []
  | APoly p => poly_idx p end.
Definition atom_val (r : env) (a : atom) : K S :=
  match a with
  | ATens t => tens_val r t | ADelta i j => delta_val r i j
  | ASymb n => symv T n | ASqrt p => sqrtv T p | APoly p => poly_val r p end.
Definition fac_val (r : env) (f : factor) : K S :=
  if snd f then kinv S (atom_val r (fst f)) else atom_val r (fst f).
Definition fac_idx (f : factor) := atom_idx (fst f).
Definition mono_val (r : env) (fs : list factor) : K S := kprod (map (fac_val r) fs).
Definition mono_idx (fs : list factor) := flat_map fac_idx fs.
Definition term_idx (t : term) := mono_idx (tfacs t).

Definition contracted_of (tg : list index) (ix : list index) : list index :=
  filter (fun x => negb (imem x tg)) (inodup ix).
Definition contracted (tg : list index) (t : term) := contracted_of tg (term_idx t).

Fixpoint sum_over (xs : list index) (r : env) (F : env -> K S) : K S :=
  match xs with
  | [] => F r
  | x :: xs' => ksum (irange x) (fun o => sum_over xs' (upd r x o) F)
  end.

Definition term_val (r : env) (t : term) : K S := ofQ S (tcoef t) * mono_val r (tfacs t).
Definition eval_term (tg : list index) (r : env) (t : term) : K S :=
  sum_over (contracted tg t) r (fun r' => term_val r' t).
Definition eval (tg : list index) (r : env) (e : expr) : K S := ksum e (eval_term tg r).

(* --- dependence of values on the environment --- *)
Definition agree (l : list index) (r1 r2 : env) := forall x, In x l -> r1 x = r2 x.

Lemma map_agree l r1 r2 : agree l r1 r2 -> map r1 l = map r2 l.
Proof. intros H; apply map_ext_in; exact H. Qed.
Lemma agree_app l1 l2 r1 r2 : agree (l1 ++ l2) r1 r2 <-> agree l1 r1 r2 /\ agree l2 r1 r2.
Proof. unfold agree; split; [intros H; split; intros x Hx; apply H; apply in_or_app; auto|].
  intros [H1 H2] x Hx; apply in_app_or in Hx; destruct Hx; auto. Qed.
Lemma tens_val_agree t r1 r2 : agree (tens_idx t) r1 r2 -> tens_val r1 t = tens_val r2 t.
Proof. unfold tens_idx, tens_val; intros H; apply agree_app in H; destruct H as [H1 H2].
  rewrite (map_agree _ _ _ H1), (map_agree _ _ _ H2); reflexivity. Qed.
Lemma tprod_agree ts r1 r2 : agree (flat_map tens_idx ts) r1 r2 ->
  kprod (map (tens_val r1) ts) = kprod (map (tens_val r2) ts).
Proof. induction ts as [|t ts IH]; simpl; intros H; [reflexivity|].
  apply agree_app in H; destruct H as [H1 H2]. rewrite (tens_val_agree _ _ _ H1), IH; auto. Qed.
Lemma poly_val_agree p r1 r2 : agree (poly_idx p) r1 r2 -> poly_val r1 p = poly_val r2 p.
Proof. unfold poly_val, poly_idx. induction p as [|qt p IH]; simpl; intros H; [reflexivity|].
  apply agree_app in H; destruct H as [H1 H2]. rewrite IH by exact H2.
  unfold pterm_val at 1 3. rewrite (tprod_agree _ _ _ H1). reflexivity. Qed.
Lemma atom_val_agree a r1 r2 : agree (atom_idx a) r1 r2 -> atom_val r1 a = atom_val r2 a.
Proof. destruct a as [t|i j|n|q|p]; simpl; intros H; try reflexivity.
  - apply tens_val_agree; exact H.
  - unfold delta_val. rewrite (H i), (H j); simpl; auto.
  - apply poly_val_agree; exact H. Qed.
Lemma fac_val_agree f r1 r2 : agree (fac_idx f) r1 r2 -> fac_val r1 f = fac_val r2 f.
Proof. unfold fac_val, fac_idx; intros H. rewrite (atom_val_agree _ _ _ H); reflexivity. Qed.
Lemma mono_val_agree fs r1 r2 : agree (mono_idx fs) r1 r2 -> mono_val r1 fs = mono_val r2 fs.
Proof. unfold mono_val, mono_idx. induction fs as [|f fs IH]; simpl; intros H; [reflexivity|].
  apply agree_app in H; destruct H as [H1 H2]. rewrite (fac_val_agree _ _ _ H1), IH; auto. Qed.
Lemma term_val_agree t r1 r2 : agree (term_idx t) r1 r2 -> term_val r1 t = term_val r2 t.
Proof. unfold term_val, term_idx; intros H. rewrite (mono_val_agree _ _ _ H); reflexivity. Qed.

(* [F] depends only on the indices in [D] *)
Definition depends_on (D : list index) (F : env -> K S) :=
  forall r1 r2, agree D r1 r2 -> F r1 = F r2.

Lemma sum_over_agree D xs F r1 r2 : depends_on D F ->
  (forall x, In x D -> ~ In x xs -> r1 x = r2 x) ->
  sum_over xs r1 F = sum_over xs r2 F.
Proof. intros HF. revert r1 r2. induction xs as [|x xs IH]; simpl; intros r1 r2 H.
  - apply HF. intros y Hy; apply H; auto.
  - apply ksum_ext. intros o _. apply IH. intros y Hy Hn. unfold upd.
    destruct (index_eqb y x) eqn:E; [reflexivity|]. apply H; auto.
    intros [Hx|Hx]; [subst; rewrite index_eqb_refl in E; discriminate|auto]. Qed.

Lemma sum_over_ext xs F G r : (forall r', F r' = G r') -> sum_over xs r F = sum_over xs r G.
Proof. intros H. revert r. induction xs as [|x xs IH]; simpl; intros r; [apply H|].
  apply ksum_ext; intros o _; apply IH. Qed.
Lemma sum_over_add xs F G r : sum_over xs r (fun r' => F r' + G r') = sum_over xs r F + sum_over xs r G.
Proof. revert r. induction xs as [|x xs IH]; simpl; intros r; [reflexivity|].
  rewrite <- ksum_add. apply ksum_ext; intros o _; apply IH. Qed.
Lemma sum_over_scal xs c F r : sum_over xs r (fun r' => c * F r') = c * sum_over xs r F.
Proof. revert r. induction xs as [|x xs IH]; simpl; intros r; [reflexivity|].
  rewrite <- ksum_scal. apply ksum_ext; intros o _; apply IH. Qed.
Lemma sum_over_zero xs r : sum_over xs r (fun _ => 0) = 0.
Proof. revert r. induction xs as [|x xs IH]; simpl; intros r; [reflexivity|].
  rewrite (ksum_ext S _ _ (fun _ => 0)); [apply ksum_zero|intros o _; apply IH]. Qed.

Lemma upd_comm r x y o p : x <> y -> forall z, upd (upd r x o) y p z = upd (upd r y p) x o z.
Proof. intros H z. unfold upd. destruct (index_eqb z y) eqn:E1, (index_eqb z x) eqn:E2; try reflexivity.
  apply index_eqb_eq in E1, E2; congruence. Qed.

(* exchanging the order of summation *)
Lemma sum_over_swap_head D x y xs F r : depends_on D F -> x <> y ->
  sum_over (x :: y :: xs) r F = sum_over (y :: x :: xs) r F.
Proof. intros HF Hxy. simpl. rewrite ksum_swap. apply ksum_ext; intros p _. apply ksum_ext; intros o _.
  apply (sum_over_agree D); [exact HF|]. intros z _ _. apply upd_comm; exact Hxy. Qed.

Lemma sum_over_perm D xs ys F r : depends_on D F -> NoDup xs -> Permutation xs ys ->
  sum_over xs r F = sum_over ys r F.
Proof. intros HF Hnd HP. revert r Hnd. induction HP; intros r Hnd.
  - reflexivity.
  - simpl. inversion Hnd; subst. apply ksum_ext; intros o _. apply IHHP; assumption.
  - inversion Hnd as [|? ? Hn1 Hnd']; subst. apply (sum_over_swap_head D); [exact HF|].
    intros ->. apply Hn1; left; reflexivity.
  - rewrite IHHP1 by assumption. apply IHHP2. eapply Permutation_NoDup; eauto. Qed.

End Sem.

Arguments rng {S} _. Arguments tv {S} _. Arguments symv {S} _. Arguments sqrtv {S} _.
