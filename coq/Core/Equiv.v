(* The verified equivalence validator: [check_equiv tg c1 c2 e1 e2 = true]
   implies that e1 and e2 have the same value in every tensor model that
   respects the declared symmetries, for every assignment of the targets. *)
From Coq Require Import ZArith QArith List Bool Lia Permutation.
From Coq Require String Ascii.
From ADC Require Import Core.Scalar Core.Index Core.Expr Core.Swap Core.Canon.
Import ListNotations.

(* ---------- boolean equalities ---------- *)
Fixpoint list_eqb {A} (eqb : A -> A -> bool) (l1 l2 : list A) : bool :=
  match l1, l2 with
  | [], [] => true
  | x :: r1, y :: r2 => eqb x y && list_eqb eqb r1 r2
  | _, _ => false end.
Lemma list_eqb_eq {A} (eqb : A -> A -> bool) :
  (forall a b, eqb a b = true -> a = b) -> forall l1 l2, list_eqb eqb l1 l2 = true -> l1 = l2.
Proof. intros H l1. induction l1 as [|x r IH]; destruct l2 as [|y r2]; simpl; try congruence.
  rewrite andb_true_iff. intros [H1 H2]. f_equal; auto. Qed.

Definition kind_code k := match k with KAnti => 0%N | KSym => 1%N | KAmp => 2%N | KNonSym => 3%N end.
Definition kind_eqb a b := N.eqb (kind_code a) (kind_code b).
Lemma kind_eqb_eq a b : kind_eqb a b = true -> a = b.
Proof. destruct a, b; simpl; intros; try reflexivity; discriminate. Qed.
Definition q_eqb (a b : Q) := Z.eqb (Qnum a) (Qnum b) && Pos.eqb (Qden a) (Qden b).
Lemma q_eqb_eq a b : q_eqb a b = true -> a = b.
Proof. destruct a, b; unfold q_eqb; simpl. rewrite andb_true_iff, Z.eqb_eq, Pos.eqb_eq.
  intros [-> ->]; reflexivity. Qed.
Definition idxl_eqb := list_eqb index_eqb.
Lemma idxl_eqb_eq a b : idxl_eqb a b = true -> a = b.
Proof. apply list_eqb_eq. intros x y H; apply index_eqb_eq; exact H. Qed.
Definition tens_eqb (a b : tens) :=
  kind_eqb (tkind a) (tkind b) && String.eqb (tname a) (tname b) && Z.eqb (tbks a) (tbks b)
  && idxl_eqb (tupper a) (tupper b) && idxl_eqb (tlower a) (tlower b).
Lemma tens_eqb_eq a b : tens_eqb a b = true -> a = b.
Proof. destruct a, b; unfold tens_eqb; simpl. rewrite !andb_true_iff.
  intros [[[[H1 H2] H3] H4] H5]. apply kind_eqb_eq in H1. apply String.eqb_eq in H2.
  apply Z.eqb_eq in H3. apply idxl_eqb_eq in H4. apply idxl_eqb_eq in H5. subst; reflexivity. Qed.
Definition pterm_eqb (a b : Q * list tens) := q_eqb (fst a) (fst b) && list_eqb tens_eqb (snd a) (snd b).
Lemma pterm_eqb_eq a b : pterm_eqb a b = true -> a = b.
Proof. destruct a, b; unfold pterm_eqb; simpl. rewrite andb_true_iff. intros [H1 H2].
  apply q_eqb_eq in H1. apply (list_eqb_eq _ tens_eqb_eq) in H2. subst; reflexivity. Qed.
Definition atom_eqb (a b : atom) : bool :=
  match a, b with
  | ATens s, ATens t => tens_eqb s t
  | ADelta i j, ADelta k l => index_eqb i k && index_eqb j l
  | ASymb m, ASymb n => String.eqb m n
  | ASqrt p, ASqrt q => Pos.eqb p q
  | APoly p, APoly q => list_eqb pterm_eqb p q
  | _, _ => false end.
Lemma atom_eqb_eq a b : atom_eqb a b = true -> a = b.
Proof. destruct a, b; simpl; try discriminate; intros H.
  - apply tens_eqb_eq in H; subst; reflexivity.
  - apply andb_true_iff in H; destruct H as [H1 H2]. apply index_eqb_eq in H1, H2. subst; reflexivity.
  - apply String.eqb_eq in H; subst; reflexivity.
  - apply Pos.eqb_eq in H; subst; reflexivity.
  - apply (list_eqb_eq _ pterm_eqb_eq) in H; subst; reflexivity. Qed.
Definition fac_eqb (a b : factor) := atom_eqb (fst a) (fst b) && Bool.eqb (snd a) (snd b).
Lemma fac_eqb_eq a b : fac_eqb a b = true -> a = b.
Proof. destruct a, b; unfold fac_eqb; simpl. rewrite andb_true_iff. intros [H1 H2].
  apply atom_eqb_eq in H1. apply Bool.eqb_prop in H2. subst; reflexivity. Qed.

(* ---------- sort codes (only the order they induce matters) ---------- *)
Definition code_string (s : String.string) : list N :=
  N.of_nat (String.length s) :: map Ascii.N_of_ascii (String.list_ascii_of_string s).
Definition code_idxl (l : list index) : list N := N.of_nat (length l) :: keys_of l.
Definition code_tens (t : tens) : list N :=
  kind_code (tkind t) :: code_string (tname t) ++ [Z.to_N (tbks t + 1)]
  ++ code_idxl (tupper t) ++ code_idxl (tlower t).
Definition code_tensl (ts : list tens) : list N := N.of_nat (length ts) :: flat_map code_tens ts.
Definition code_pterm (qt : Q * list tens) : list N := code_tensl (snd qt).
Definition code_atom (a : atom) : list N :=
  match a with
  | ASqrt p => [0%N; Npos p]
  | ASymb n => 1%N :: code_string n
  | ADelta i j => 2%N :: keys_of [i; j]
  | ATens t => 3%N :: code_tens t
  | APoly p => 4%N :: N.of_nat (length p) ::
      flat_map (fun qt => Z.to_N (Z.abs (Qnum (fst qt))) :: Npos (Qden (fst qt)) :: code_pterm qt) p
  end.
Definition code_fac (f : factor) : list N := (if snd f then 1%N else 0%N) :: code_atom (fst f).

(* ---------- canonical atoms, factors, monomials ---------- *)
Definition parity_of (l : list (bool * tens)) : bool := fold_right (fun x acc => xorb (fst x) acc) false l.
Definition qsgn (b : bool) (q : Q) : Q := if b then Qopp q else q.
Definition canon_pterm (qt : Q * list tens) : Q * list tens :=
  let cs := map canon_tens (snd qt) in
  (qsgn (parity_of cs) (fst qt), ksort code_tens (map snd cs)).
Definition canon_poly (p : list (Q * list tens)) : bool * list (Q * list tens) :=
  let p2 := ksort code_pterm (map canon_pterm p) in
  match p2 with
  | (q, _) :: _ => if (Qnum q <? 0)%Z then (true, map (fun qt => (Qopp (fst qt), snd qt)) p2) else (false, p2)
  | [] => (false, [])
  end.
Definition canon_atom (a : atom) : bool * atom :=
  match a with
  | ATens t => let (s, t') := canon_tens t in (s, ATens t')
  | ADelta i j => (false, if idx_leb i j then ADelta i j else ADelta j i)
  | APoly p => let (s, p') := canon_poly p in (s, APoly p')
  | _ => (false, a)
  end.
Definition canon_fac (f : factor) : bool * factor :=
  let (s, a) := canon_atom (fst f) in (s, (a, snd f)).
Definition canon_mono (fs : list factor) : bool * list factor :=
  let cs := map canon_fac fs in
  (fold_right (fun x acc => xorb (fst x) acc) false cs, ksort code_fac (map snd cs)).

(* ---------- normal forms ---------- *)
Definition key := (list index * list factor)%type.
Definition key_eqb (a b : key) := idxl_eqb (fst a) (fst b) && list_eqb fac_eqb (snd a) (snd b).
Lemma key_eqb_eq a b : key_eqb a b = true -> a = b.
Proof. destruct a, b; unfold key_eqb; simpl. rewrite andb_true_iff. intros [H1 H2].
  apply idxl_eqb_eq in H1. apply (list_eqb_eq _ fac_eqb_eq) in H2. subst; reflexivity. Qed.
Definition nf := list (key * Q).
Fixpoint nf_add (k : key) (q : Q) (n : nf) : nf :=
  match n with
  | [] => [(k, q)]
  | (k', q') :: r => if key_eqb k k' then (k', Qred (q' + q)) :: r else (k', q') :: nf_add k q r
  end.
Definition term_key (tg : list index) (t : term) : key * Q :=
  let (s, fs) := canon_mono (tfacs t) in
  ((ksort idx_key (contracted tg t), fs), qsgn s (tcoef t)).
Definition build_nf (tg : list index) (ts : list term) : nf :=
  fold_left (fun n t => let (k, q) := term_key tg t in nf_add k q n) ts [].
Definition nf_zero (n : nf) : bool := forallb (fun kq => Qeq_bool (snd kq) 0) n.
Definition nf_residual (n : nf) : nf := filter (fun kq => negb (Qeq_bool (snd kq) 0)) n.

(* ---------- certificates ---------- *)
Definition swaps := list (index * index).
Definition tcert := list (Q * swaps).           (* weighted renamings of one term *)
Definition swaps_ok (tg : list index) (sw : swaps) : bool :=
  forallb (fun ab => same_sort (fst ab) (snd ab) && negb (imem (fst ab) tg) && negb (imem (snd ab) tg)) sw.
Definition apply_swaps (sw : swaps) (t : term) : term :=
  fold_left (fun t ab => swap_term (fst ab) (snd ab) t) sw t.
Definition qsum (l : list Q) : Q := fold_right Qplus 0%Q l.
Definition expand_term_w (tg : list index) (t : term) (c : tcert) : option (list term) :=
  if Qeq_bool (qsum (map fst c)) 1 && forallb (fun ws => swaps_ok tg (snd ws)) c
  then Some (map (fun ws => let t' := apply_swaps (snd ws) t in
                            Term (Qred (fst ws * tcoef t')) (tfacs t')) c)
  else None.
Definition expand_term (tg : list index) (t : term) (c : tcert) : option (list term) :=
  match c with [] => Some [t] | _ => expand_term_w tg t c end.
Fixpoint expand_all (tg : list index) (e : expr) (cs : list tcert) : option (list term) :=
  match e with
  | [] => Some []
  | t :: e' =>
    let (c, cs') := match cs with [] => ([], []) | c :: cs' => (c, cs') end in
    match expand_term tg t c, expand_all tg e' cs' with
    | Some l1, Some l2 => Some (l1 ++ l2)
    | _, _ => None end
  end.
Definition neg_term (t : term) : term := Term (Qopp (tcoef t)) (tfacs t).
Definition equiv_nf tg c1 c2 (e1 e2 : expr) : option nf :=
  match expand_all tg e1 c1, expand_all tg e2 c2 with
  | Some l1, Some l2 => Some (build_nf tg (l1 ++ map neg_term l2))
  | _, _ => None end.
Definition check_equiv tg c1 c2 (e1 e2 : expr) : bool :=
  match equiv_nf tg c1 c2 e1 e2 with Some n => nf_zero n | None => false end.
(* number of non-cancelling normal-form entries, for diagnostics *)
Definition equiv_residual tg c1 c2 (e1 e2 : expr) : option nat :=
  match equiv_nf tg c1 c2 e1 e2 with Some n => Some (length (nf_residual n)) | None => None end.

(* number of distinct normal-form keys of an expression after applying the
   certificate: smaller than the number of terms iff the validator merged two
   terms (which are then proved equal up to a factor). *)
Definition merged_size tg c (e : expr) : option nat :=
  match expand_all tg e c with Some l => Some (length (build_nf tg l)) | None => None end.

(* ================= soundness ================= *)
Section Sound.
Variable S : Scalar.
Variable T : tmodel S.
Hypothesis R : respects S T.
Notation "0" := (k0 S). Notation "1" := (k1 S).
Infix "+" := (kadd S). Infix "*" := (kmul S). Notation "- x" := (kopp S x).
Add Ring KR5 : (Kring S).
Opaque Qred.

Lemma ofQ_qsgn b q : ofQ S (qsgn b q) = ksgn b * ofQ S q.
Proof. destruct b; simpl; [rewrite ofQ_opp|]; ring. Qed.
Lemma kinv_ksgn b x : kinv S (ksgn b * x) = ksgn b * kinv S x.
Proof. destruct b; simpl.
  - replace (- (1) * x) with (- x) by ring. rewrite kinv_opp. ring.
  - replace (1 * x) with x by ring. ring. Qed.
Lemma ofQ_Qred q : ofQ S (Qred q) = ofQ S q.
Proof. apply ofQ_eq. apply Qred_correct. Qed.

Lemma tprod_canon r ts :
  kprod (map (tens_val S T r) ts) =
  ksgn (parity_of (map canon_tens ts)) * kprod (map (tens_val S T r) (map snd (map canon_tens ts))).
Proof. induction ts as [|t ts IH]; simpl; [ring|].
  rewrite IH. rewrite (canon_tens_sound S T R r t). rewrite ksgn_xorb. ring. Qed.

Lemma pterm_canon r qt : pterm_val S T r qt = pterm_val S T r (canon_pterm qt).
Proof. destruct qt as [q ts]. unfold pterm_val, canon_pterm; simpl.
  rewrite ofQ_qsgn. rewrite (tprod_canon r ts).
  rewrite (kprod_perm S _ (map (tens_val S T r) (ksort code_tens (map snd (map canon_tens ts))))).
  - ring.
  - apply Permutation_map. apply ksort_perm. Qed.

Lemma poly_neg r p : poly_val S T r (map (fun qt => (Qopp (fst qt), snd qt)) p) = - poly_val S T r p.
Proof. unfold poly_val. induction p as [|[q ts] p IH]; simpl; [ring|].
  rewrite IH. unfold pterm_val; simpl. rewrite ofQ_opp. ring. Qed.

Lemma canon_poly_sound r p :
  poly_val S T r p = ksgn (fst (canon_poly p)) * poly_val S T r (snd (canon_poly p)).
Proof. unfold canon_poly.
  assert (H : poly_val S T r p = poly_val S T r (ksort code_pterm (map canon_pterm p))).
  { unfold poly_val. rewrite <- (ksum_perm S _ _ _ (ksort_perm code_pterm (map canon_pterm p))).
    rewrite ksum_map. apply ksum_ext. intros qt _. apply pterm_canon. }
  rewrite H. destruct (ksort code_pterm (map canon_pterm p)) as [|[q ts] p2].
  - unfold ksgn; cbn [fst snd]. ring.
  - destruct (Qnum q <? 0)%Z; cbn [fst snd]; unfold ksgn.
    + rewrite (poly_neg r ((q, ts) :: p2)). ring.
    + ring. Qed.

Lemma delta_val_sym r i j : delta_val S r i j = delta_val S r j i.
Proof. unfold delta_val. rewrite Nat.eqb_sym. reflexivity. Qed.

Lemma canon_atom_sound r a :
  atom_val S T r a = ksgn (fst (canon_atom a)) * atom_val S T r (snd (canon_atom a)).
Proof. destruct a as [t|i j|n|q|p]; simpl; try ring.
  - pose proof (canon_tens_sound S T R r t) as H. destruct (canon_tens t); simpl in *. exact H.
  - destruct (idx_leb i j); simpl; [ring|rewrite delta_val_sym; ring].
  - pose proof (canon_poly_sound r p) as H. destruct (canon_poly p); simpl in *. exact H. Qed.

Lemma canon_fac_sound r f :
  fac_val S T r f = ksgn (fst (canon_fac f)) * fac_val S T r (snd (canon_fac f)).
Proof. destruct f as [a inv]. unfold canon_fac, fac_val; simpl.
  pose proof (canon_atom_sound r a) as H. destruct (canon_atom a) as [s a']; simpl in *.
  destruct inv; [rewrite H; apply kinv_ksgn|exact H]. Qed.

Lemma canon_mono_sound r fs :
  mono_val S T r fs = ksgn (fst (canon_mono fs)) * mono_val S T r (snd (canon_mono fs)).
Proof. unfold canon_mono; simpl. unfold mono_val.
  rewrite <- (kprod_perm S _ _ (Permutation_map (fac_val S T r) (ksort_perm code_fac (map snd (map canon_fac fs))))).
  induction fs as [|f fs IH]; simpl; [ring|].
  rewrite IH, (canon_fac_sound r f), ksgn_xorb. ring. Qed.

Definition key_val (r : env) (k : key) : K S := sum_over S T (fst k) r (fun r' => mono_val S T r' (snd k)).
Definition nf_val (r : env) (n : nf) : K S := ksum n (fun kq => ofQ S (snd kq) * key_val r (fst kq)).

Lemma nf_add_val r k q n : nf_val r (nf_add k q n) = ofQ S q * key_val r k + nf_val r n.
Proof. unfold nf_val. induction n as [|[k' q'] n IH]; cbn [nf_add ksum fst snd]; [ring|].
  destruct (key_eqb k k') eqn:E; cbn [ksum fst snd].
  - apply key_eqb_eq in E; subst. rewrite ofQ_Qred, ofQ_add. ring.
  - rewrite IH. ring. Qed.

Lemma contracted_NoDup tg t : NoDup (contracted tg t).
Proof. unfold contracted, contracted_of. apply NoDup_filter. apply inodup_NoDup. Qed.

Lemma term_key_val tg r t :
  eval_term S T tg r t = ofQ S (snd (term_key tg t)) * key_val r (fst (term_key tg t)).
Proof. unfold term_key. pose proof (fun r' => canon_mono_sound r' (tfacs t)) as Hc.
  destruct (canon_mono (tfacs t)) as [s fs]; simpl in *. unfold key_val; simpl.
  unfold eval_term.
  rewrite (sum_over_perm S T (term_idx t) _ (ksort idx_key (contracted tg t))).
  - rewrite <- sum_over_scal. apply sum_over_ext. intros r'. unfold term_val.
    rewrite Hc, ofQ_qsgn. ring.
  - intros e1 e2 He. apply term_val_agree; exact He.
  - apply contracted_NoDup.
  - apply ksort_perm. Qed.

Definition terms_val tg r (ts : list term) : K S := ksum ts (eval_term S T tg r).

Lemma build_nf_val_gen tg r ts n :
  nf_val r (fold_left (fun n t => let (k, q) := term_key tg t in nf_add k q n) ts n)
  = nf_val r n + terms_val tg r ts.
Proof. revert n. induction ts as [|t ts IH]; intros n.
  - simpl. unfold terms_val; simpl; ring.
  - cbn [fold_left]. rewrite IH. pose proof (term_key_val tg r t) as H.
    destruct (term_key tg t) as [k q]. cbn [fst snd] in H. rewrite nf_add_val.
    unfold terms_val. cbn [ksum]. rewrite H. ring. Qed.
Lemma build_nf_val tg r ts : nf_val r (build_nf tg ts) = terms_val tg r ts.
Proof. unfold build_nf. rewrite build_nf_val_gen. unfold nf_val; simpl. ring. Qed.

Lemma nf_zero_val r n : nf_zero n = true -> nf_val r n = 0.
Proof. unfold nf_zero, nf_val. induction n as [|[k q] n IH]; simpl; [reflexivity|].
  rewrite andb_true_iff. intros [H1 H2]. rewrite IH by exact H2.
  apply Qeq_bool_eq in H1. rewrite (ofQ_eq S _ _ H1), ofQ_0. ring. Qed.

Lemma eval_term_coef tg r c fs :
  eval_term S T tg r (Term c fs) = ofQ S c * eval_term S T tg r (Term 1 fs).
Proof. unfold eval_term, contracted, term_idx; simpl. rewrite <- sum_over_scal.
  apply sum_over_ext. intros r'. unfold term_val; simpl. rewrite ofQ_1. ring. Qed.

Lemma apply_swaps_sound tg r sw t : swaps_ok tg sw = true ->
  eval_term S T tg r (apply_swaps sw t) = eval_term S T tg r t.
Proof. unfold apply_swaps, swaps_ok. revert t. induction sw as [|[a b] sw IH]; intros t; simpl; [reflexivity|].
  rewrite !andb_true_iff. intros [[[H1 H2] H3] H4]. rewrite IH by exact H4.
  apply eval_term_swap; [exact H1| |].
  - apply imem_nIn. destruct (imem a tg); [discriminate|reflexivity].
  - apply imem_nIn. destruct (imem b tg); [discriminate|reflexivity]. Qed.

Lemma ofQ_qsum l : ofQ S (qsum l) = ksum l (ofQ S).
Proof. induction l; simpl; [apply ofQ_0|]. rewrite ofQ_add, IHl. reflexivity. Qed.

Lemma expand_term_w_sound tg r t c l : expand_term_w tg t c = Some l ->
  terms_val tg r l = eval_term S T tg r t.
Proof. unfold expand_term_w.
  destruct (Qeq_bool (qsum (map fst c)) 1 && forallb (fun ws => swaps_ok tg (snd ws)) c) eqn:E; [|discriminate].
  intros H; inversion H; subst l; clear H. apply andb_true_iff in E. destruct E as [E1 E2].
  apply Qeq_bool_eq in E1. unfold terms_val. rewrite ksum_map.
  rewrite (ksum_ext S c _ (fun ws => ofQ S (fst ws) * eval_term S T tg r t)).
  - rewrite <- (ksum_map S fst c (fun x => ofQ S x * eval_term S T tg r t)).
    transitivity (ksum (map fst c) (ofQ S) * eval_term S T tg r t).
    + generalize (map fst c). intros l. induction l; simpl; [ring|]. rewrite IHl. ring.
    + rewrite <- ofQ_qsum. rewrite (ofQ_eq S _ _ E1), ofQ_1. ring.
  - intros [q sw] Hin. cbv beta zeta. cbn [fst snd]. rewrite forallb_forall in E2. specialize (E2 _ Hin). cbn [snd] in E2.
    rewrite eval_term_coef. rewrite ofQ_Qred, ofQ_mul.
    rewrite <- (apply_swaps_sound tg r sw t E2).
    destruct (apply_swaps sw t) as [c0 fs0]; cbn [tcoef tfacs].
    rewrite (eval_term_coef tg r c0). ring. Qed.
Lemma expand_term_sound tg r t c l : expand_term tg t c = Some l ->
  terms_val tg r l = eval_term S T tg r t.
Proof. unfold expand_term. destruct c as [|w c'].
  - intros H; inversion H; subst. unfold terms_val; simpl. ring.
  - apply expand_term_w_sound. Qed.

Lemma expand_all_sound tg r e cs l : expand_all tg e cs = Some l ->
  terms_val tg r l = eval S T tg r e.
Proof. revert cs l. induction e as [|t e IH]; intros cs l; simpl.
  - intros H; inversion H; reflexivity.
  - destruct cs as [|c cs'].
    + destruct (expand_term tg t []) eqn:E1; [|discriminate].
      destruct (expand_all tg e []) eqn:E2; [|discriminate]. intros H; inversion H; subst.
      unfold terms_val, eval; simpl. rewrite ksum_app.
      fold (terms_val tg r l0). fold (terms_val tg r l1).
      rewrite (expand_term_sound _ _ _ _ _ E1), (IH _ _ E2). reflexivity.
    + destruct (expand_term tg t c) eqn:E1; [|discriminate].
      destruct (expand_all tg e cs') eqn:E2; [|discriminate]. intros H; inversion H; subst.
      unfold terms_val, eval; simpl. rewrite ksum_app.
      fold (terms_val tg r l0). fold (terms_val tg r l1).
      rewrite (expand_term_sound _ _ _ _ _ E1), (IH _ _ E2). reflexivity. Qed.

Lemma neg_terms_val tg r l : terms_val tg r (map neg_term l) = - terms_val tg r l.
Proof. unfold terms_val. induction l as [|t l IH]; simpl; [ring|]. rewrite IH.
  destruct t as [c fs]; unfold neg_term; simpl.
  rewrite (eval_term_coef tg r (Qopp c)), (eval_term_coef tg r c), ofQ_opp. ring. Qed.

Theorem check_equiv_sound tg c1 c2 e1 e2 : check_equiv tg c1 c2 e1 e2 = true ->
  forall r, eval S T tg r e1 = eval S T tg r e2.
Proof. unfold check_equiv, equiv_nf.
  destruct (expand_all tg e1 c1) as [l1|] eqn:E1; [|discriminate].
  destruct (expand_all tg e2 c2) as [l2|] eqn:E2; [|discriminate].
  intros Hz r. pose proof (nf_zero_val r _ Hz) as H. rewrite build_nf_val in H.
  unfold terms_val in H. rewrite ksum_app in H.
  fold (terms_val tg r l1) in H. fold (terms_val tg r (map neg_term l2)) in H.
  rewrite neg_terms_val in H.
  rewrite (expand_all_sound _ _ _ _ _ E1), (expand_all_sound _ _ _ _ _ E2) in H.
  transitivity (eval S T tg r e1 + - eval S T tg r e2 + eval S T tg r e2); [ring|rewrite H; ring]. Qed.
End Sound.
