(* Replacing a tensor factor by (an instance of) its definition: if the
   factor has the value of the definition body for every assignment of its
   own indices, and the contracted indices of the body are fresh, the value
   of the term is unchanged. *)
From Coq Require Import ZArith QArith List Bool Lia Permutation.
From ADC Require Import Core.Scalar Core.Index Core.Expr Core.DeltaRule.
Import ListNotations.

Fixpoint remove_nth {A} (n : nat) (l : list A) : list A :=
  match n, l with
  | _, [] => []
  | O, _ :: r => r
  | S k, x :: r => x :: remove_nth k r
  end.

Definition unfold_terms (c : Q) (rest : list factor) (body : expr) : expr :=
  map (fun b => Term (Qmult c (tcoef b)) (tfacs b ++ rest)) body.

Definition unfold_at (pos : nat) (body : expr) (t : term) : option (atom * expr) :=
  match nth_error (tfacs t) pos with
  | Some (a, false) => Some (a, unfold_terms (tcoef t) (remove_nth pos (tfacs t)) body)
  | _ => None
  end.

(* side conditions, decidable *)
Definition body_term_ok (tg : list index) (aidx : list index) (rest : list factor) (b : term) : bool :=
  (* contracted indices of the body term are fresh for the rest and the targets *)
  forallb (fun x => imem x aidx || (negb (imem x (mono_idx rest)) && negb (imem x tg))) (mono_idx (tfacs b))
  (* every non-target index of the replaced factor still occurs *)
  && forallb (fun x => imem x tg || imem x (mono_idx rest) || imem x (mono_idx (tfacs b))) aidx.
Definition unfold_ok (tg : list index) (pos : nat) (body : expr) (t : term) : bool :=
  match nth_error (tfacs t) pos with
  | Some (a, false) =>
    forallb (body_term_ok tg (atom_idx a) (remove_nth pos (tfacs t))) body
  | _ => false
  end.

Section Unfold.
Variable S : Scalar.
Variable T : tmodel S.
Notation "0" := (k0 S). Notation "1" := (k1 S).
Infix "+" := (kadd S). Infix "*" := (kmul S).
Add Ring KRu : (Kring S).

Lemma NoDup_app_intro {A} (l1 l2 : list A) : NoDup l1 -> NoDup l2 ->
  (forall x, In x l1 -> ~ In x l2) -> NoDup (l1 ++ l2).
Proof. induction 1 as [|x l1 Hx Hnd IH]; intros H2 Hd; simpl; [exact H2|].
  constructor.
  - rewrite in_app_iff. intros [H|H]; [contradiction|]. apply (Hd x); [left; reflexivity|exact H].
  - apply IH; [exact H2|]. intros y Hy. apply Hd. right; exact Hy. Qed.

Lemma nth_remove_perm {A} (l : list A) n x : nth_error l n = Some x ->
  Permutation l (x :: remove_nth n l).
Proof. revert n. induction l as [|y l IH]; intros [|n]; simpl; try discriminate.
  - intros H; inversion H; subst. reflexivity.
  - intros H. rewrite (IH n H) at 1. apply perm_swap. Qed.

Lemma mono_val_perm r l1 l2 : Permutation l1 l2 -> mono_val S T r l1 = mono_val S T r l2.
Proof. intros H. unfold mono_val. apply kprod_perm. apply Permutation_map. exact H. Qed.
Lemma mono_idx_perm_in l1 l2 z : Permutation l1 l2 -> In z (mono_idx l1) <-> In z (mono_idx l2).
Proof. intros H. unfold mono_idx. rewrite !in_flat_map. split; intros [f [Hf Hz]]; exists f; split; auto.
  - eapply Permutation_in; eauto.
  - eapply Permutation_in; [symmetry|]; eauto. Qed.
Lemma mono_val_app r l1 l2 : mono_val S T r (l1 ++ l2) = mono_val S T r l1 * mono_val S T r l2.
Proof. unfold mono_val. rewrite map_app, kprod_app. reflexivity. Qed.
Lemma mono_idx_app l1 l2 : mono_idx (l1 ++ l2) = mono_idx l1 ++ mono_idx l2.
Proof. unfold mono_idx. apply flat_map_app. Qed.

(* a factor that does not depend on the summed indices can be pulled out *)
Lemma sum_over_pull xs r (G F : env -> K S) :
  (forall r1 r2, (forall z, ~ In z xs -> r1 z = r2 z) -> G r1 = G r2) ->
  sum_over S T xs r (fun r' => G r' * F r') = G r * sum_over S T xs r F.
Proof. intros HG. revert r. induction xs as [|x xs IH]; intros r; simpl; [reflexivity|].
  rewrite <- ksum_scal. apply ksum_ext. intros o _.
  rewrite IH.
  - f_equal. apply HG. intros z Hz. unfold upd. destruct (index_eqb z x) eqn:E; [|reflexivity].
    apply index_eqb_eq in E. subst. exfalso. apply Hz. left; reflexivity.
  - intros r1 r2 H. apply HG. intros z Hz. apply H. intros Hin. apply Hz. right; exact Hin. Qed.

Lemma contracted_spec tg fs z :
  In z (contracted_of tg (mono_idx fs)) <-> In z (mono_idx fs) /\ ~ In z tg.
Proof. unfold contracted_of. rewrite filter_In, inodup_In, negb_true_iff, imem_nIn. tauto. Qed.
Lemma contracted_of_NoDup tg l : NoDup (contracted_of tg l).
Proof. unfold contracted_of. apply NoDup_filter, inodup_NoDup. Qed.

Theorem unfold_at_sound tg pos body t a e' :
  unfold_at pos body t = Some (a, e') -> unfold_ok tg pos body t = true ->
  (forall r, atom_val S T r a = eval S T (atom_idx a) r body) ->
  forall r, eval_term S T tg r t = eval S T tg r e'.
Proof. unfold unfold_at, unfold_ok. destruct (nth_error (tfacs t) pos) as [[a0 inv]|] eqn:En; [|discriminate].
  destruct inv; [discriminate|]. intros H Hok Hdef r. inversion H; subst a0 e'; clear H.
  set (rest := remove_nth pos (tfacs t)) in *.
  pose proof (nth_remove_perm _ _ _ En) as HP. fold rest in HP.
  set (C := contracted tg t).
  assert (HC : forall z, In z C <-> (In z (atom_idx a) \/ In z (mono_idx rest)) /\ ~ In z tg).
  { intros z. unfold C, contracted, term_idx. rewrite contracted_spec.
    rewrite (mono_idx_perm_in _ _ z HP). unfold mono_idx at 1; simpl. rewrite in_app_iff.
    unfold fac_idx; simpl. fold (mono_idx rest). tauto. }
  (* value of t as a sum over C *)
  assert (Ht : eval_term S T tg r t =
               sum_over S T C r (fun r' => ofQ S (tcoef t) * mono_val S T r' rest * atom_val S T r' a)).
  { unfold eval_term. fold C. apply sum_over_ext. intros r'. unfold term_val.
    rewrite (mono_val_perm r' _ _ HP). unfold mono_val at 1; simpl. unfold fac_val at 1; simpl.
    fold (mono_val S T r' rest). ring. }
  rewrite Ht. clear Ht.
  unfold eval, unfold_terms. rewrite ksum_map.
  (* each body term *)
  assert (Hb : forall b, In b body ->
     eval_term S T tg r (Term (tcoef t * tcoef b) (tfacs b ++ rest)) =
     sum_over S T C r (fun r' => ofQ S (tcoef t) * mono_val S T r' rest * eval_term S T (atom_idx a) r' b)).
  { intros b Hin. rewrite forallb_forall in Hok. specialize (Hok b Hin).
    unfold body_term_ok in Hok. apply andb_true_iff in Hok. destruct Hok as [H1 H2].
    rewrite forallb_forall in H1, H2.
    set (Cb := contracted (atom_idx a) b).
    assert (HCb : forall z, In z Cb <-> In z (mono_idx (tfacs b)) /\ ~ In z (atom_idx a)).
    { intros z. unfold Cb, contracted, term_idx. apply contracted_spec. }
    assert (Hfresh : forall z, In z Cb -> ~ In z (mono_idx rest) /\ ~ In z tg).
    { intros z Hz. apply HCb in Hz. destruct Hz as [Hz1 Hz2]. specialize (H1 z Hz1).
      apply orb_true_iff in H1. destruct H1 as [H1|H1]; [apply imem_In in H1; contradiction|].
      apply andb_true_iff in H1. destruct H1 as [H1a H1b].
      apply negb_true_iff in H1a, H1b. apply imem_nIn in H1a, H1b. tauto. }
    assert (Hdisj : forall z, In z C -> ~ In z Cb).
    { intros z Hz Hzb. apply HC in Hz. destruct (Hfresh z Hzb) as [F1 F2]. apply HCb in Hzb.
      destruct Hz as [[Hz|Hz] _]; tauto. }
    unfold eval_term at 1.
    rewrite (sum_over_perm S T (term_idx (Term (tcoef t * tcoef b) (tfacs b ++ rest))) _ (C ++ Cb)).
    - rewrite sum_over_app. apply sum_over_ext. intros r'.
      unfold eval_term. fold Cb.
      transitivity (sum_over S T Cb r' (fun r'' => (ofQ S (tcoef t) * mono_val S T r'' rest) * term_val S T r'' b)).
      + apply sum_over_ext. intros r''. unfold term_val; simpl. rewrite mono_val_app, ofQ_mul. ring.
      + apply (sum_over_pull Cb r' (fun r'' => ofQ S (tcoef t) * mono_val S T r'' rest)
                              (fun r'' => term_val S T r'' b)).
        intros r1 r2 Hag. f_equal. apply mono_val_agree. intros z Hz. apply Hag.
        intros Hzc. apply Hfresh in Hzc. tauto.
    - intros e1 e2 He. apply term_val_agree; exact He.
    - apply contracted_of_NoDup.
    - apply NoDup_Permutation.
      + apply contracted_of_NoDup.
      + apply NoDup_app_intro; [apply contracted_of_NoDup|apply contracted_of_NoDup|exact Hdisj].
      + intros z. unfold contracted, term_idx; simpl. rewrite contracted_spec, mono_idx_app, !in_app_iff, HC, HCb.
        split.
        * intros [[Hz|Hz] Hn]; [|left; tauto].
          destruct (in_dec index_eq_dec z (atom_idx a)) as [Ha|Ha]; [left; tauto|right; tauto].
        * intros [[[Ha|Hr] Hn]|[Hb1 Hb2]].
          -- split; [|exact Hn]. specialize (H2 z Ha). rewrite !orb_true_iff in H2.
             destruct H2 as [[H2|H2]|H2]; apply imem_In in H2; [contradiction|right; exact H2|left; exact H2].
          -- tauto.
          -- split; [left; exact Hb1|]. apply (Hfresh z). apply HCb. tauto. }
  rewrite (ksum_ext S body _ _ Hb).
  (* exchange the sum over the body with the sum over C *)
  assert (Hsw : forall (l : list term) (G : env -> K S) (H : env -> term -> K S) r0,
     ksum l (fun b => sum_over S T C r0 (fun r' => G r' * H r' b)) =
     sum_over S T C r0 (fun r' => G r' * ksum l (H r'))).
  { intros l G H r0. induction l as [|b l IH]; simpl.
    - rewrite (sum_over_ext S T C _ (fun _ => 0)); [rewrite sum_over_zero; reflexivity|intros; ring].
    - rewrite IH, <- sum_over_add. apply sum_over_ext. intros; ring. }
  rewrite Hsw. apply sum_over_ext. intros r'. rewrite Hdef. unfold eval. reflexivity.
Qed.
End Unfold.
