(* Indices of adcgen: space, spin, name = letter + number, and a uid that
   distinguishes raw [Index(..)] dummies (uid > 0) from registry indices. *)
From Coq Require Import ZArith NArith List Bool Lia Ascii String.
Import ListNotations.

Inductive space := Gen | Occ | Virt.          (* 'g' < 'o' < 'v' *)
Inductive spin := NoSpin | Alpha | Beta.       (* '' < 'a' < 'b' *)

Record index := Idx { ispace : space; ispin : spin; iletter : N; inum : N; iuid : N }.

Definition space_code s := match s with Gen => 0%N | Occ => 1%N | Virt => 2%N end.
Definition spin_code s := match s with NoSpin => 0%N | Alpha => 1%N | Beta => 2%N end.

Definition space_eqb a b := N.eqb (space_code a) (space_code b).
Definition spin_eqb a b := N.eqb (spin_code a) (spin_code b).

Lemma space_eqb_eq a b : space_eqb a b = true <-> a = b.
Proof. destruct a, b; simpl; split; intro H; try reflexivity; discriminate. Qed.
Lemma spin_eqb_eq a b : spin_eqb a b = true <-> a = b.
Proof. destruct a, b; simpl; split; intro H; try reflexivity; discriminate. Qed.

Definition index_eqb (a b : index) : bool :=
  space_eqb (ispace a) (ispace b) && spin_eqb (ispin a) (ispin b) &&
  N.eqb (iletter a) (iletter b) && N.eqb (inum a) (inum b) && N.eqb (iuid a) (iuid b).

Lemma index_eqb_eq a b : index_eqb a b = true <-> a = b.
Proof.
  destruct a as [s1 p1 l1 n1 u1], b as [s2 p2 l2 n2 u2]; unfold index_eqb; simpl.
  rewrite !andb_true_iff, space_eqb_eq, spin_eqb_eq, !N.eqb_eq.
  split; [intros [[[[-> ->] ->] ->] ->]; reflexivity|intros H; inversion H; auto].
Qed.
Lemma index_eqb_refl a : index_eqb a a = true.
Proof. apply index_eqb_eq; reflexivity. Qed.
Lemma index_eqb_neq a b : index_eqb a b = false <-> a <> b.
Proof. rewrite <- index_eqb_eq. destruct (index_eqb a b); split; congruence. Qed.
Lemma index_eq_dec (a b : index) : {a = b} + {a <> b}.
Proof. destruct (index_eqb a b) eqn:E; [left; apply index_eqb_eq; exact E|right; apply index_eqb_neq; exact E]. Qed.
Lemma index_eqb_sym a b : index_eqb a b = index_eqb b a.
Proof. destruct (index_eqb a b) eqn:E.
  - apply index_eqb_eq in E; subst; symmetry; apply index_eqb_refl.
  - symmetry; apply index_eqb_neq; apply index_eqb_neq in E; congruence. Qed.

(* lexicographic comparison of lists of N, used as generic sort key *)
Fixpoint lex_cmp (a b : list N) : comparison :=
  match a, b with
  | [], [] => Eq | [], _ => Lt | _, [] => Gt
  | x :: a', y :: b' => match N.compare x y with Eq => lex_cmp a' b' | c => c end
  end.
Definition lex_leb a b := match lex_cmp a b with Gt => false | _ => true end.
Definition lex_ltb a b := match lex_cmp a b with Lt => true | _ => false end.
Lemma lex_cmp_eq a b : lex_cmp a b = Eq <-> a = b.
Proof. revert b; induction a as [|x a IH]; destruct b as [|y b]; simpl; try (split; congruence).
  destruct (N.compare_spec x y); subst.
  - rewrite IH; split; congruence.
  - split; [discriminate|intros HH; inversion HH; lia].
  - split; [discriminate|intros HH; inversion HH; lia]. Qed.

(* sort_idx_canonical: (space[0], spin, number, letter, hash) *)
Definition idx_key (i : index) : list N :=
  [space_code (ispace i); spin_code (ispin i); inum i; iletter i; iuid i].
Definition idx_cmp a b := lex_cmp (idx_key a) (idx_key b).
Definition idx_ltb a b := lex_ltb (idx_key a) (idx_key b).
Definition idx_leb a b := lex_leb (idx_key a) (idx_key b).

Lemma idx_key_inj a b : idx_key a = idx_key b -> a = b.
Proof. destruct a as [s1 p1 l1 n1 u1], b as [s2 p2 l2 n2 u2]; unfold idx_key; simpl.
  intros H; inversion H.
  assert (s1 = s2) by (destruct s1, s2; simpl in *; congruence).
  assert (p1 = p2) by (destruct p1, p2; simpl in *; congruence).
  subst; reflexivity. Qed.
Lemma idx_cmp_eq a b : idx_cmp a b = Eq <-> a = b.
Proof. unfold idx_cmp; rewrite lex_cmp_eq; split; [apply idx_key_inj|congruence]. Qed.

(* the sort (range class) of an index *)
Definition same_sort (a b : index) : bool :=
  space_eqb (ispace a) (ispace b) && spin_eqb (ispin a) (ispin b).
Lemma same_sort_eq a b : same_sort a b = true -> ispace a = ispace b /\ ispin a = ispin b.
Proof. unfold same_sort; rewrite andb_true_iff, space_eqb_eq, spin_eqb_eq; auto. Qed.

(* membership *)
Fixpoint imem (x : index) (l : list index) : bool :=
  match l with [] => false | y :: r => index_eqb x y || imem x r end.
Lemma imem_In x l : imem x l = true <-> In x l.
Proof. induction l as [|y r IH]; simpl; [split; [discriminate|tauto]|].
  rewrite orb_true_iff, IH, index_eqb_eq; split; intros [H|H]; auto. Qed.
Lemma imem_nIn x l : imem x l = false <-> ~ In x l.
Proof. rewrite <- imem_In; destruct (imem x l); split; congruence. Qed.

(* duplicate removal keeping first occurrences *)
Fixpoint inodup_acc (seen l : list index) : list index :=
  match l with
  | [] => []
  | x :: r => if imem x seen then inodup_acc seen r else x :: inodup_acc (x :: seen) r
  end.
Definition inodup l := inodup_acc [] l.

Lemma inodup_acc_In seen l x : In x (inodup_acc seen l) <-> In x l /\ ~ In x seen.
Proof. revert seen; induction l as [|y r IH]; intros seen; simpl; [tauto|].
  destruct (imem y seen) eqn:E.
  - rewrite IH. apply imem_In in E. split; [tauto|]. intros [[->|H] Hn]; tauto.
  - apply imem_nIn in E. simpl. rewrite IH. simpl.
    destruct (index_eq_dec y x) as [->|Hne]; [tauto|]. split; [tauto|].
    intros [[H|H] Hn]; [congruence|]. right; split; auto. intros [H2|H2]; auto.
Qed.
Lemma inodup_acc_NoDup seen l : NoDup (inodup_acc seen l).
Proof. revert seen; induction l as [|y r IH]; intros seen; simpl; [constructor|].
  destruct (imem y seen); [apply IH|]. constructor; [|apply IH].
  rewrite inodup_acc_In. simpl; tauto. Qed.
Lemma inodup_In l x : In x (inodup l) <-> In x l.
Proof. unfold inodup; rewrite inodup_acc_In; simpl; tauto. Qed.
Lemma inodup_NoDup l : NoDup (inodup l).
Proof. apply inodup_acc_NoDup. Qed.

(* transposition of two indices *)
Definition swap_idx (a b x : index) : index :=
  if index_eqb x a then b else if index_eqb x b then a else x.
Lemma swap_idx_invol a b x : swap_idx a b (swap_idx a b x) = x.
Proof. unfold swap_idx.
  destruct (index_eqb x a) eqn:E1.
  - apply index_eqb_eq in E1; subst. destruct (index_eqb b a) eqn:E2.
    + apply index_eqb_eq in E2; auto.
    + rewrite index_eqb_refl; reflexivity.
  - destruct (index_eqb x b) eqn:E2.
    + apply index_eqb_eq in E2; subst. rewrite index_eqb_refl; reflexivity.
    + rewrite E1, E2; reflexivity. Qed.
Lemma swap_idx_inj a b x y : swap_idx a b x = swap_idx a b y -> x = y.
Proof. intros H. rewrite <- (swap_idx_invol a b x), H. apply swap_idx_invol. Qed.
Lemma swap_idx_other a b x : x <> a -> x <> b -> swap_idx a b x = x.
Proof. intros H1 H2; unfold swap_idx. apply index_eqb_neq in H1, H2. rewrite H1, H2; reflexivity. Qed.
Lemma swap_idx_sort a b x : same_sort a b = true -> same_sort (swap_idx a b x) x = true.
Proof. intros H. unfold swap_idx.
  destruct (index_eqb x a) eqn:E1; [apply index_eqb_eq in E1; subst|].
  - unfold same_sort in *. rewrite andb_true_iff in *. destruct H as [H1 H2].
    apply space_eqb_eq in H1; apply spin_eqb_eq in H2. rewrite H1, H2.
    split; [apply space_eqb_eq|apply spin_eqb_eq]; reflexivity.
  - destruct (index_eqb x b) eqn:E2; [apply index_eqb_eq in E2; subst; exact H|].
    unfold same_sort. rewrite andb_true_iff. split; [apply space_eqb_eq|apply spin_eqb_eq]; reflexivity.
Qed.
Lemma imem_swap a b x l : imem (swap_idx a b x) (map (swap_idx a b) l) = imem x l.
Proof. induction l as [|y r IH]; simpl; [reflexivity|]. rewrite IH. f_equal.
  destruct (index_eqb x y) eqn:E.
  - apply index_eqb_eq in E; subst; apply index_eqb_refl.
  - apply index_eqb_neq. apply index_eqb_neq in E. intros H; apply E; eapply swap_idx_inj; eauto. Qed.
Lemma inodup_acc_swap a b seen l :
  inodup_acc (map (swap_idx a b) seen) (map (swap_idx a b) l) = map (swap_idx a b) (inodup_acc seen l).
Proof. revert seen; induction l as [|y r IH]; intros seen; simpl; [reflexivity|].
  rewrite imem_swap. destruct (imem y seen); [apply IH|]. simpl. f_equal. apply (IH (y :: seen)). Qed.
Lemma inodup_swap a b l : inodup (map (swap_idx a b) l) = map (swap_idx a b) (inodup l).
Proof. apply (inodup_acc_swap a b []). Qed.
