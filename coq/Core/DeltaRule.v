(* The Kronecker-delta rule at the level of the expression semantics:
   sum_x delta_xy F(x) = F(y) for a contracted index x of the same sort as y. *)
From Coq Require Import ZArith QArith List Bool Lia Permutation.
From ADC Require Import Core.Scalar Core.Index Core.Expr.
Import ListNotations.

Definition subst_idx (x y z : index) : index := if index_eqb z x then y else z.
Definition subst_tens x y (t : tens) : tens :=
  Tens (tkind t) (tname t) (tbks t) (map (subst_idx x y) (tupper t)) (map (subst_idx x y) (tlower t)).
Definition subst_poly x y (p : list (Q * list tens)) :=
  map (fun qt => (fst qt, map (subst_tens x y) (snd qt))) p.
Definition subst_atom x y (a : atom) : atom :=
  match a with
  | ATens t => ATens (subst_tens x y t)
  | ADelta i j => ADelta (subst_idx x y i) (subst_idx x y j)
  | ASymb n => ASymb n | ASqrt r => ASqrt r
  | APoly p => APoly (subst_poly x y p) end.
Definition subst_fac x y (f : factor) : factor := (subst_atom x y (fst f), snd f).
Definition subst_facs x y (fs : list factor) := map (subst_fac x y) fs.

Definition is_delta (x y : index) (f : factor) : bool :=
  match f with
  | (ADelta i j, false) => (index_eqb i x && index_eqb j y) || (index_eqb i y && index_eqb j x)
  | _ => false end.
Fixpoint remove_first_delta (x y : index) (fs : list factor) : option (list factor) :=
  match fs with
  | [] => None
  | f :: r => if is_delta x y f then Some r
              else match remove_first_delta x y r with Some r' => Some (f :: r') | None => None end
  end.
Definition is_trivial_delta (f : factor) : bool :=
  match f with (ADelta i j, false) => index_eqb i j | _ => false end.

Definition incl_b (l1 l2 : list index) : bool := forallb (fun z => imem z l2) l1.
Definition elim_delta (tg : list index) (x y : index) (t : term) : option term :=
  if same_sort x y && negb (index_eqb x y) && negb (imem x tg) then
    match remove_first_delta x y (tfacs t) with
    | Some fs' =>
      let t' := Term (tcoef t) (filter (fun f => negb (is_trivial_delta f)) (subst_facs x y fs')) in
      let C := contracted tg t in
      let C' := filter (fun z => negb (index_eqb z x)) C in
      if imem x C && (imem y tg || imem y C) && incl_b (contracted tg t') C' && incl_b C' (contracted tg t')
      then Some t' else None
    | None => None end
  else None.

Section Delta.
Variable S : Scalar.
Variable T : tmodel S.
Notation "0" := (k0 S). Notation "1" := (k1 S).
Infix "+" := (kadd S). Infix "*" := (kmul S).
Add Ring KR8 : (Kring S).

Definition model_ok : Prop := forall s p, NoDup (rng T s p).
Definition env_ok (tg : list index) (r : env) : Prop := forall z, In z tg -> In (r z) (irange S T z).

(* ---- the one-index delta sum ---- *)
Lemma ksum_delta (l : list nat) (v : nat) (g : nat -> K S) : NoDup l -> In v l ->
  ksum l (fun o => (if Nat.eqb o v then 1 else 0) * g o) = g v.
Proof. induction l as [|a l IH]; intros Hnd Hin; [destruct Hin|].
  inversion Hnd as [|? ? Hna Hnd']; subst. simpl.
  destruct (Nat.eqb a v) eqn:E.
  - apply Nat.eqb_eq in E; subst a.
    rewrite (ksum_ext S l _ (fun _ => 0)).
    + rewrite ksum_zero. ring.
    + intros o Ho. destruct (Nat.eqb o v) eqn:E2; [apply Nat.eqb_eq in E2; subst; contradiction|ring].
  - destruct Hin as [->|Hin]; [rewrite Nat.eqb_refl in E; discriminate|].
    rewrite IH by assumption. ring. Qed.

(* ---- substitution ---- *)
Definition sub_env (r : env) x y : env := fun z => r (subst_idx x y z).
Lemma tens_val_subst x y r t : tens_val S T r (subst_tens x y t) = tens_val S T (sub_env r x y) t.
Proof. unfold tens_val, subst_tens; simpl. rewrite !map_map. reflexivity. Qed.
Lemma poly_val_subst x y r p : poly_val S T r (subst_poly x y p) = poly_val S T (sub_env r x y) p.
Proof. unfold poly_val, subst_poly. rewrite ksum_map. apply ksum_ext. intros [q ts] _.
  unfold pterm_val; simpl. rewrite map_map. f_equal. f_equal. apply map_ext. intros; apply tens_val_subst. Qed.
Lemma atom_val_subst x y r a : atom_val S T r (subst_atom x y a) = atom_val S T (sub_env r x y) a.
Proof. destruct a; simpl; try reflexivity; [apply tens_val_subst|apply poly_val_subst]. Qed.
Lemma fac_val_subst x y r f : fac_val S T r (subst_fac x y f) = fac_val S T (sub_env r x y) f.
Proof. unfold fac_val, subst_fac; simpl. rewrite atom_val_subst. reflexivity. Qed.
Lemma mono_val_subst x y r fs : mono_val S T r (subst_facs x y fs) = mono_val S T (sub_env r x y) fs.
Proof. unfold mono_val, subst_facs. rewrite map_map. f_equal. apply map_ext. intros; apply fac_val_subst. Qed.
Lemma sub_env_upd x y r z : sub_env r x y z = upd r x (r y) z.
Proof. unfold sub_env, subst_idx, upd. destruct (index_eqb z x); reflexivity. Qed.
Lemma mono_val_upd_subst x y r fs : mono_val S T (upd r x (r y)) fs = mono_val S T r (subst_facs x y fs).
Proof. rewrite mono_val_subst. apply mono_val_agree. intros z _. symmetry. apply sub_env_upd. Qed.

Lemma filter_trivial_val r fs :
  mono_val S T r (filter (fun f => negb (is_trivial_delta f)) fs) = mono_val S T r fs.
Proof. unfold mono_val. induction fs as [|f fs IH]; simpl; [reflexivity|].
  destruct (is_trivial_delta f) eqn:E; simpl; rewrite IH; [|reflexivity].
  destruct f as [[t|i j|n|q|p] [|]]; simpl in E; try discriminate.
  apply index_eqb_eq in E; subst. unfold fac_val; simpl. unfold delta_val. rewrite Nat.eqb_refl. ring. Qed.

(* ---- indices under substitution ---- *)
Lemma flat_map_map_comm2 {A} (f : A -> list index) (g : A -> A) h l :
  (forall a, f (g a) = map h (f a)) -> flat_map f (map g l) = map h (flat_map f l).
Proof. intros H. induction l; simpl; [reflexivity|]. rewrite map_app, H, IHl. reflexivity. Qed.
Lemma tens_idx_subst x y t : tens_idx (subst_tens x y t) = map (subst_idx x y) (tens_idx t).
Proof. unfold tens_idx, subst_tens; simpl. rewrite map_app. reflexivity. Qed.
Lemma atom_idx_subst x y a : atom_idx (subst_atom x y a) = map (subst_idx x y) (atom_idx a).
Proof. destruct a; simpl; try reflexivity; [apply tens_idx_subst|].
  unfold poly_idx, subst_poly. apply flat_map_map_comm2. intros [q ts]; simpl.
  apply flat_map_map_comm2. apply tens_idx_subst. Qed.
Lemma mono_idx_subst x y fs : mono_idx (subst_facs x y fs) = map (subst_idx x y) (mono_idx fs).
Proof. unfold mono_idx, subst_facs. apply flat_map_map_comm2. intros f. unfold fac_idx, subst_fac; simpl.
  apply atom_idx_subst. Qed.

Lemma mono_idx_filter_trivial z fs :
  In z (mono_idx (filter (fun f => negb (is_trivial_delta f)) fs)) -> In z (mono_idx fs).
Proof. unfold mono_idx. rewrite !in_flat_map. intros [f [Hf Hz]]. apply filter_In in Hf. exists f; tauto. Qed.

(* ---- splitting nested sums ---- *)
Lemma sum_over_app l1 l2 r F :
  sum_over S T (l1 ++ l2) r F = sum_over S T l1 r (fun r' => sum_over S T l2 r' F).
Proof. revert r. induction l1 as [|x l1 IH]; intros r; simpl; [reflexivity|].
  apply ksum_ext. intros o _. apply IH. Qed.

Lemma sum_over_ext_valid_aux F G xs : forall done r,
  (forall r', (forall z, In z done \/ In z xs -> In (r' z) (irange S T z)) ->
              (forall z, ~ In z done -> ~ In z xs -> r' z = r z) -> F r' = G r') ->
  (forall z, In z done -> In (r z) (irange S T z)) ->
  sum_over S T xs r F = sum_over S T xs r G.
Proof. induction xs as [|x xs IH]; intros done r H Hd; simpl.
  - apply H; [intros z [Hz|[]]; auto|reflexivity].
  - apply ksum_ext. intros o Ho. apply (IH (x :: done)).
    + intros r' H1 H2. apply H.
      * intros z [Hz|[Hz|Hz]]; apply H1; [left; right; exact Hz|left; left; exact Hz|right; exact Hz].
      * intros z Hn1 Hn2. rewrite H2; [|intros [Hz|Hz]; [apply Hn2; left; exact Hz|contradiction]|intros Hz; apply Hn2; right; exact Hz].
        unfold upd. destruct (index_eqb z x) eqn:E; [|reflexivity].
        apply index_eqb_eq in E. subst. exfalso. apply Hn2. left; reflexivity.
    + intros z [Hz|Hz]; unfold upd.
      * subst. rewrite index_eqb_refl. exact Ho.
      * destruct (index_eqb z x) eqn:E; [apply index_eqb_eq in E; subst; exact Ho|apply Hd; exact Hz]. Qed.

Lemma sum_over_ext_valid F G xs r :
  (forall r', (forall z, In z xs -> In (r' z) (irange S T z)) ->
              (forall z, ~ In z xs -> r' z = r z) -> F r' = G r') ->
  sum_over S T xs r F = sum_over S T xs r G.
Proof. intros H. apply (sum_over_ext_valid_aux F G xs [] r).
  - intros r' H1 H2. apply H; [intros z Hz; apply H1; right; exact Hz|intros z Hz; apply H2; [intros []|exact Hz]].
  - intros z []. Qed.

(* ---- removing the delta factor ---- *)
Lemma remove_first_delta_val x y fs fs' r : remove_first_delta x y fs = Some fs' ->
  mono_val S T r fs = delta_val S r x y * mono_val S T r fs'.
Proof. revert fs'. induction fs as [|f fs IH]; intros fs'; simpl; [discriminate|].
  destruct (is_delta x y f) eqn:E.
  - intros H; inversion H; subst. unfold mono_val; simpl. f_equal.
    destruct f as [[t|i j|n|q|p] [|]]; simpl in E; try discriminate.
    unfold fac_val; simpl. apply orb_true_iff in E. destruct E as [E|E]; apply andb_true_iff in E;
      destruct E as [E1 E2]; apply index_eqb_eq in E1, E2; subst; [reflexivity|].
    unfold delta_val. rewrite Nat.eqb_sym. reflexivity.
  - destruct (remove_first_delta x y fs) as [r'|]; [|discriminate]. intros H; inversion H; subst.
    unfold mono_val in *; simpl. rewrite (IH r' eq_refl). ring. Qed.
Lemma incl_b_spec l1 l2 : incl_b l1 l2 = true -> forall z, In z l1 -> In z l2.
Proof. unfold incl_b. rewrite forallb_forall. intros H z Hz. apply imem_In. apply H; exact Hz. Qed.

Hypothesis MOK : model_ok.

Theorem elim_delta_sound tg x y t t' r : elim_delta tg x y t = Some t' -> env_ok tg r ->
  eval_term S T tg r t = eval_term S T tg r t'.
Proof. unfold elim_delta. intros H Hr.
  destruct (same_sort x y && negb (index_eqb x y) && negb (imem x tg)) eqn:Ec; [|discriminate].
  rewrite !andb_true_iff in Ec. destruct Ec as [[Es Exy] Extg].
  apply negb_true_iff in Exy, Extg. apply index_eqb_neq in Exy. apply imem_nIn in Extg.
  destruct (remove_first_delta x y (tfacs t)) as [fs'|] eqn:Er; [|discriminate].
  set (fs2 := filter (fun f => negb (is_trivial_delta f)) (subst_facs x y fs')) in *.
  set (C := contracted tg t) in *.
  set (C' := filter (fun z => negb (index_eqb z x)) C) in *.
  destruct (imem x C && (imem y tg || imem y C) && incl_b (contracted tg (Term (tcoef t) fs2)) C'
            && incl_b C' (contracted tg (Term (tcoef t) fs2))) eqn:Ek; [|discriminate].
  inversion H; subst t'; clear H.
  rewrite !andb_true_iff in Ek. destruct Ek as [[[HxC Hy] Hi1] Hi2].
  apply imem_In in HxC.
  assert (HCnd : NoDup C) by (unfold C, contracted, contracted_of; apply NoDup_filter, inodup_NoDup).
  assert (HC'in : forall z, In z C' <-> In z C /\ z <> x).
  { intros z. unfold C'. rewrite filter_In, negb_true_iff, index_eqb_neq. tauto. }
  assert (HC'nd : NoDup C') by (unfold C'; apply NoDup_filter; exact HCnd).
  assert (HP : Permutation C (C' ++ [x])).
  { apply NoDup_Permutation; [exact HCnd| |].
    - apply (Permutation_NoDup (Permutation_cons_append C' x)). constructor; [|exact HC'nd].
      rewrite HC'in. tauto.
    - intros z. rewrite in_app_iff, HC'in. simpl. destruct (index_eq_dec z x) as [->|Hne]; [tauto|].
      split; [tauto|intros [[? ?]|[?|[]]]; [tauto|congruence]]. }
  assert (HyC : In y tg \/ In y C').
  { apply orb_true_iff in Hy. destruct Hy as [Hy|Hy]; apply imem_In in Hy; [left; exact Hy|right].
    apply HC'in. split; [exact Hy|congruence]. }
  unfold eval_term. fold C.
  rewrite (sum_over_perm S T (term_idx t) C (C' ++ [x]) _ r);
    [|intros e1 e2 He; apply term_val_agree; exact He|exact HCnd|exact HP].
  rewrite sum_over_app.
  transitivity (sum_over S T C' r (fun r' => term_val S T r' (Term (tcoef t) fs2))).
  - apply sum_over_ext_valid. intros r' Hv Ho. simpl.
    unfold term_val at 1; simpl.
    rewrite (ksum_ext S _ _ (fun o => (if Nat.eqb o (r' y) then 1 else 0) *
                                      (ofQ S (tcoef t) * mono_val S T (upd r' x o) fs'))).
    + rewrite ksum_delta.
      * rewrite mono_val_upd_subst. unfold term_val; simpl. unfold fs2. rewrite filter_trivial_val. reflexivity.
      * apply MOK.
      * apply same_sort_eq in Es. destruct Es as [Es1 Es2].
        unfold irange. rewrite Es1, Es2. fold (irange S T y).
        destruct HyC as [Hy'|Hy'].
        -- destruct (in_dec index_eq_dec y C') as [Hy2|Hy2]; [apply Hv; exact Hy2|].
           rewrite Ho by exact Hy2. apply Hr; exact Hy'.
        -- apply Hv; exact Hy'.
    + intros o _. rewrite (remove_first_delta_val x y _ _ _ Er). unfold delta_val, upd.
      rewrite index_eqb_refl. assert (E : index_eqb y x = false) by (apply index_eqb_neq; congruence).
      rewrite E. ring.
  - apply (sum_over_perm S T (term_idx (Term (tcoef t) fs2))).
    + intros e1 e2 He. apply term_val_agree; exact He.
    + exact HC'nd.
    + apply NoDup_Permutation; [exact HC'nd|
                                unfold contracted, contracted_of; apply NoDup_filter, inodup_NoDup|].
      intros z. split; [apply (incl_b_spec _ _ Hi2)|apply (incl_b_spec _ _ Hi1)].
Qed.
End Delta.
