(* Renaming contracted indices by a transposition preserves the value. *)
From Coq Require Import ZArith QArith List Bool Lia String Permutation.
From ADC Require Import Core.Scalar Core.Index Core.Expr.
Import ListNotations.

Definition swap_tens a b (t : tens) : tens :=
  Tens (tkind t) (tname t) (tbks t) (map (swap_idx a b) (tupper t)) (map (swap_idx a b) (tlower t)).
Definition swap_poly a b (p : list (Q * list tens)) :=
  map (fun qt => (fst qt, map (swap_tens a b) (snd qt))) p.
Definition swap_atom a b (x : atom) : atom :=
  match x with
  | ATens t => ATens (swap_tens a b t)
  | ADelta i j => ADelta (swap_idx a b i) (swap_idx a b j)
  | ASymb n => ASymb n | ASqrt r => ASqrt r
  | APoly p => APoly (swap_poly a b p) end.
Definition swap_fac a b (f : factor) : factor := (swap_atom a b (fst f), snd f).
Definition swap_term a b (t : term) : term := Term (tcoef t) (map (swap_fac a b) (tfacs t)).

Section SwapSem.
Variable S : Scalar.
Variable T : tmodel S.
Notation sw := swap_idx.
Definition comp_env (r : env) a b : env := fun x => r (sw a b x).

Lemma tens_val_swap a b r t : tens_val S T r (swap_tens a b t) = tens_val S T (comp_env r a b) t.
Proof. unfold tens_val, swap_tens; simpl. rewrite !map_map. reflexivity. Qed.
Lemma tprod_swap a b r ts :
  map (tens_val S T r) (map (swap_tens a b) ts) = map (tens_val S T (comp_env r a b)) ts.
Proof. rewrite map_map. apply map_ext. intros; apply tens_val_swap. Qed.
Lemma poly_val_swap a b r p : poly_val S T r (swap_poly a b p) = poly_val S T (comp_env r a b) p.
Proof. unfold poly_val, swap_poly. rewrite ksum_map. apply ksum_ext. intros [q ts] _.
  unfold pterm_val; simpl. rewrite tprod_swap. reflexivity. Qed.
Lemma atom_val_swap a b r x : atom_val S T r (swap_atom a b x) = atom_val S T (comp_env r a b) x.
Proof. destruct x; simpl; try reflexivity; [apply tens_val_swap|apply poly_val_swap]. Qed.
Lemma fac_val_swap a b r f : fac_val S T r (swap_fac a b f) = fac_val S T (comp_env r a b) f.
Proof. unfold fac_val, swap_fac; simpl. rewrite atom_val_swap. reflexivity. Qed.
Lemma mono_val_swap a b r fs : mono_val S T r (map (swap_fac a b) fs) = mono_val S T (comp_env r a b) fs.
Proof. unfold mono_val. rewrite map_map. f_equal. apply map_ext. intros; apply fac_val_swap. Qed.
Lemma term_val_swap a b r t : term_val S T r (swap_term a b t) = term_val S T (comp_env r a b) t.
Proof. unfold term_val, swap_term; simpl. rewrite mono_val_swap. reflexivity. Qed.

Lemma tens_idx_swap a b t : tens_idx (swap_tens a b t) = map (sw a b) (tens_idx t).
Proof. unfold tens_idx, swap_tens; simpl. rewrite map_app. reflexivity. Qed.
Lemma flat_map_map_comm {A} (f : A -> list index) (g : A -> A) h l :
  (forall x, f (g x) = map h (f x)) -> flat_map f (map g l) = map h (flat_map f l).
Proof. intros H. induction l; simpl; [reflexivity|]. rewrite map_app, H, IHl. reflexivity. Qed.
Lemma atom_idx_swap a b x : atom_idx (swap_atom a b x) = map (sw a b) (atom_idx x).
Proof. destruct x; simpl; try reflexivity; [apply tens_idx_swap|].
  unfold poly_idx, swap_poly. apply flat_map_map_comm. intros [q ts]; simpl.
  apply flat_map_map_comm. apply tens_idx_swap. Qed.
Lemma term_idx_swap a b t : term_idx (swap_term a b t) = map (sw a b) (term_idx t).
Proof. unfold term_idx, mono_idx, swap_term; simpl. apply flat_map_map_comm.
  intros f; unfold fac_idx, swap_fac; simpl. apply atom_idx_swap. Qed.

Lemma contracted_swap a b tg t : ~ In a tg -> ~ In b tg ->
  contracted tg (swap_term a b t) = map (sw a b) (contracted tg t).
Proof. intros Ha Hb. unfold contracted, contracted_of. rewrite term_idx_swap, inodup_swap.
  generalize (inodup (term_idx t)) as l. induction l as [|x l IH]; simpl; [reflexivity|].
  assert (E : imem (sw a b x) tg = imem x tg).
  { unfold swap_idx. destruct (index_eqb x a) eqn:E1.
    - apply index_eqb_eq in E1; subst. apply imem_nIn in Ha, Hb. congruence.
    - destruct (index_eqb x b) eqn:E2; [|reflexivity].
      apply index_eqb_eq in E2; subst. apply imem_nIn in Ha, Hb. congruence. }
  rewrite E. destruct (imem x tg); simpl; rewrite IH; reflexivity. Qed.

Lemma comp_env_upd a b r x o y : comp_env (upd r (sw a b x) o) a b y = upd (comp_env r a b) x o y.
Proof. unfold comp_env, upd.
  destruct (index_eqb y x) eqn:E.
  - apply index_eqb_eq in E; subst. rewrite index_eqb_refl. reflexivity.
  - assert (H : index_eqb (sw a b y) (sw a b x) = false).
    { apply index_eqb_neq. apply index_eqb_neq in E. intros H; apply E; eapply swap_idx_inj; eauto. }
    rewrite H. reflexivity. Qed.

Lemma sum_over_reindex a b D xs F r : same_sort a b = true -> depends_on S D F ->
  sum_over S T (map (sw a b) xs) r (fun r' => F (comp_env r' a b)) = sum_over S T xs (comp_env r a b) F.
Proof. intros Hs HF. revert r. induction xs as [|x xs IH]; simpl; intros r; [reflexivity|].
  assert (Hr : irange S T (sw a b x) = irange S T x).
  { unfold irange. pose proof (swap_idx_sort a b x Hs) as H. apply same_sort_eq in H.
    destruct H as [-> ->]. reflexivity. }
  rewrite Hr. apply ksum_ext. intros o _. rewrite IH.
  apply (sum_over_agree S T D); [exact HF|]. intros y _ _. apply comp_env_upd. Qed.

Lemma eval_term_depends tg t r1 r2 : agree tg r1 r2 ->
  eval_term S T tg r1 t = eval_term S T tg r2 t.
Proof. intros H. unfold eval_term. apply (sum_over_agree S T (term_idx t)).
  - intros e1 e2 He. apply term_val_agree; exact He.
  - intros x Hx Hn. apply H. unfold contracted, contracted_of in Hn.
    rewrite filter_In, inodup_In in Hn.
    destruct (imem x tg) eqn:E; [apply imem_In; exact E|]. exfalso; apply Hn; split; auto. Qed.

Theorem eval_term_swap a b tg r t : same_sort a b = true -> ~ In a tg -> ~ In b tg ->
  eval_term S T tg r (swap_term a b t) = eval_term S T tg r t.
Proof. intros Hs Ha Hb. unfold eval_term at 1. rewrite contracted_swap by assumption.
  transitivity (sum_over S T (contracted tg t) (comp_env r a b) (fun r' => term_val S T r' t)).
  - rewrite <- (sum_over_reindex a b (term_idx t) _ (fun r' => term_val S T r' t));
      [|exact Hs|intros e1 e2 He; apply term_val_agree; exact He].
    apply sum_over_ext. intros; apply term_val_swap.
  - apply eval_term_depends. intros x Hx. unfold comp_env. rewrite swap_idx_other; [reflexivity| |]; congruence. Qed.
End SwapSem.
