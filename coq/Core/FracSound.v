(* Soundness of the fraction validator of Core/Frac.v. *)
From Coq Require Import ZArith QArith List Bool Lia Permutation Ring_polynom Ring_theory BinList Setoid.
From Coq Require String.
From ADC Require Import Core.Scalar Core.Index Core.Expr Core.Swap Core.Canon Core.Equiv Core.DeltaRule Core.Equiv2 Core.Pauli Core.Frac.
Import ListNotations.

Section FracSound.
Variable S : Scalar.
Variable T : tmodel S.
Variable en : String.string.
Variable vs : list index.
Hypothesis R : respects S T.
Hypothesis MOK : model_ok S T.
(* field law for the total inverse *)
Hypothesis Hinv : forall x, x <> k0 S -> kmul S x (kinv S x) = k1 S.

Notation KK := (K S).
Notation "0" := (k0 S). Notation "1" := (k1 S).
Infix "+" := (kadd S). Infix "*" := (kmul S). Infix "-" := (ksub S). Notation "- x" := (kopp S x).
Add Ring KRf : (Kring S).
Opaque Qred.

(* ---- Ring_polynom instance ---- *)
Definition Rsth : Equivalence (@eq KK) := eq_equivalence.
Lemma Reqe : ring_eq_ext (kadd S) (kmul S) (kopp S) (@eq KK).
Proof. constructor; congruence. Qed.
Definition ARth := Rth_ARth Rsth Reqe (Kring S).
Lemma ofQ_sub a b : ofQ S (a - b)%Q = ofQ S a - ofQ S b.
Proof. unfold Qminus. rewrite ofQ_add, ofQ_opp. ring. Qed.
Lemma Qmorph : ring_morph 0 1 (kadd S) (kmul S) (ksub S) (kopp S) (@eq KK)
                 0%Q 1%Q Qplus Qmult Qminus Qopp Qeq_bool (ofQ S).
Proof. constructor.
  - apply ofQ_0. - apply ofQ_1. - apply ofQ_add. - apply ofQ_sub. - apply ofQ_mul. - apply ofQ_opp.
  - intros x y H. apply ofQ_eq. apply Qeq_bool_eq; exact H. Qed.
Definition powth := pow_N_th 1 (kmul S) Rsth.
Definition divth := triv_div_th Rsth Reqe ARth Qmorph.
Definition pe_eval (l : list KK) (pe : PExpr Q) : KK :=
  PEeval 0 1 (kadd S) (kmul S) (ksub S) (kopp S) (ofQ S) id_phi_N (pow_N 1 (kmul S)) l pe.
Arguments pe_eval : simpl never.
Lemma peq_sound a b : peq a b = true -> forall l, pe_eval l a = pe_eval l b.
Proof. intros H l. unfold pe_eval.
  exact (ring_correct Rsth Reqe ARth Qmorph powth divth 0 l nil a b I H). Qed.

Lemma pe_eval_mul l a b : pe_eval l (PEmul a b) = pe_eval l a * pe_eval l b.
Proof. reflexivity. Qed.
Lemma pe_eval_add l a b : pe_eval l (PEadd a b) = pe_eval l a + pe_eval l b.
Proof. reflexivity. Qed.
Lemma pe_eval_c l c : pe_eval l (PEc c) = ofQ S c.
Proof. reflexivity. Qed.

(* ---- variables ---- *)
Definition eps_val (r : env) (i : index) : KK := tv T KNonSym en 0%Z [r i] [].
Definition venv (r : env) : list KK := map (eps_val r) vs.

Lemma nth_succ (d : KK) p l : BinList.nth d (Pos.succ p) l = BinList.nth d p (tl l).
Proof. revert l. induction p as [p IH|p IH|]; intros l; simpl.
  - rewrite IH. f_equal. rewrite jump_succ. simpl. rewrite !jump_tl. reflexivity.
  - reflexivity.
  - reflexivity. Qed.
Lemma find_pos_nth r i : forall l p, find_pos i l = Some p ->
  BinList.nth 0 p (map (eps_val r) l) = eps_val r i.
Proof. induction l as [|v l IH]; intros p; simpl; [discriminate|].
  destruct (index_eqb i v) eqn:E.
  - intros H; inversion H; subst. apply index_eqb_eq in E; subst. reflexivity.
  - destruct (find_pos i l) as [q|]; simpl; [|discriminate]. intros H; inversion H; subst.
    rewrite nth_succ. simpl. apply IH; reflexivity. Qed.

Lemma is_eps_val r t i : is_eps en t = Some i -> tens_val S T r t = eps_val r i.
Proof. unfold is_eps, tens_val, eps_val. destruct t as [k n b u l]; simpl.
  destruct k; try discriminate. destruct u as [|j [|? ?]]; try discriminate.
  destruct l; try discriminate.
  destruct (String.eqb n en && Z.eqb b 0) eqn:E; [|discriminate].
  apply andb_true_iff in E. destruct E as [E1 E2]. apply String.eqb_eq in E1. apply Z.eqb_eq in E2.
  intros H; inversion H; subst. reflexivity. Qed.

Lemma tens_pe_sound r ts pe : tens_pe en vs ts = Some pe ->
  pe_eval (venv r) pe = kprod (map (tens_val S T r) ts).
Proof. revert pe. induction ts as [|t ts IH]; intros pe; simpl.
  - intros H; inversion H; subst. unfold pe_eval; simpl. apply ofQ_1.
  - destruct (is_eps en t) as [i|] eqn:Ei; [|discriminate].
    destruct (tens_pe en vs ts) as [pe'|]; [|discriminate].
    destruct (find_pos i vs) as [p|] eqn:Ep; [|discriminate].
    intros H; inversion H; subst. unfold pe_eval; simpl. fold (pe_eval (venv r) pe').
    rewrite (IH pe' eq_refl). unfold venv. rewrite (find_pos_nth r i vs p Ep).
    rewrite (is_eps_val r t i Ei). reflexivity. Qed.
Lemma poly_pe_sound r p pe : poly_pe en vs p = Some pe -> pe_eval (venv r) pe = poly_val S T r p.
Proof. revert pe. induction p as [|[q ts] p IH]; intros pe; simpl.
  - intros H; inversion H; subst. unfold pe_eval, poly_val; simpl. apply ofQ_0.
  - destruct (tens_pe en vs ts) as [a|] eqn:Ea; [|discriminate].
    destruct (poly_pe en vs p) as [b|]; [|discriminate].
    intros H; inversion H; subst. unfold pe_eval; simpl.
    fold (pe_eval (venv r) a). fold (pe_eval (venv r) b).
    rewrite (IH b eq_refl), (tens_pe_sound r ts a Ea). unfold poly_val; simpl. unfold pterm_val; simpl. reflexivity. Qed.
Lemma fac_pe_sound r f pe : fac_pe en vs f = Some pe -> pe_eval (venv r) pe = atom_val S T r (fst f).
Proof. unfold fac_pe. destruct f as [[t|i j|n|q|p] inv]; simpl; try discriminate.
  - destruct (is_eps en t) as [i|] eqn:Ei; [|discriminate].
    destruct (find_pos i vs) as [p|] eqn:Ep; [|discriminate].
    intros H; inversion H; subst. unfold pe_eval; simpl. unfold venv.
    rewrite (find_pos_nth r i vs p Ep). symmetry. apply is_eps_val; exact Ei.
  - apply poly_pe_sound. Qed.

Definition dens_val (l : list KK) (ds : list (PExpr Q)) : KK := kprod (map (fun d => kinv S (pe_eval l d)) ds).
Lemma split_facs_val r fs :
  mono_val S T r fs =
  mono_val S T r (fp_rem (split_facs en vs fs)) * pe_eval (venv r) (fp_num (split_facs en vs fs))
  * dens_val (venv r) (fp_den (split_facs en vs fs)).
Proof. unfold mono_val, dens_val. induction fs as [|f fs IH]; simpl.
  - unfold pe_eval; simpl. rewrite ofQ_1. ring.
  - destruct (fac_pe en vs f) as [pe|] eqn:E.
    + pose proof (fac_pe_sound r f pe E) as Hv. destruct f as [a inv]; simpl in *.
      destruct inv; simpl; rewrite IH; unfold fac_val; simpl.
      * rewrite Hv. ring.
      * rewrite pe_eval_mul, Hv. ring.
    + simpl. rewrite IH. ring. Qed.

(* ---- entries and normal forms ---- *)
Definition entry_val (l : list KK) (e : fentry) : KK :=
  ofQ S (fst (fst e)) * pe_eval l (snd (fst e)) * dens_val l (snd e).
Definition fkey_val (r : env) (kes : key * list fentry) : KK :=
  sum_over S T (fst (fst kes)) r
    (fun r' => mono_val S T r' (snd (fst kes)) * ksum (snd kes) (entry_val (venv r'))).
Definition fnf_val (r : env) (n : fnf) : KK := ksum n (fkey_val r).

Lemma fnf_add_val r k e n :
  fnf_val r (fnf_add k e n) = fkey_val r (k, [e]) + fnf_val r n.
Proof. unfold fnf_val. induction n as [|[k' es] n IH]; cbn [fnf_add ksum]; [reflexivity|].
  destruct (key_eqb k k') eqn:E; cbn [ksum].
  - apply key_eqb_eq in E; subst.
    assert (Hs : fkey_val r (k', e :: es) = fkey_val r (k', [e]) + fkey_val r (k', es)).
    { unfold fkey_val; cbn [fst snd ksum]. rewrite <- sum_over_add. apply sum_over_ext. intros r'. ring. }
    rewrite Hs. ring.
  - rewrite IH. ring. Qed.

Lemma fterm_key_val tg r t :
  eval_term S T tg r t = fkey_val r (fst (fterm_key en vs tg t), [snd (fterm_key en vs tg t)]).
Proof. unfold fterm_key.
  pose proof (fun r' => canon_mono_sound S T R r' (fp_rem (split_facs en vs (tfacs t)))) as Hc.
  destruct (canon_mono (fp_rem (split_facs en vs (tfacs t)))) as [s fs]; simpl in *.
  unfold fkey_val; cbn [fst snd ksum]. unfold eval_term.
  rewrite (sum_over_perm S T (term_idx t) _ (ksort idx_key (contracted tg t))).
  - apply sum_over_ext. intros r'. unfold term_val. rewrite (split_facs_val r' (tfacs t)).
    rewrite Hc. unfold entry_val; cbn [fst snd]. rewrite ofQ_qsgn. ring.
  - intros e1 e2 He. apply term_val_agree; exact He.
  - apply contracted_NoDup.
  - apply ksort_perm. Qed.

Lemma build_fnf_val_gen tg r ts n :
  fnf_val r (fold_left (fun n t => let (k, e) := fterm_key en vs tg t in fnf_add k e n) ts n)
  = fnf_val r n + terms_val S T tg r ts.
Proof. revert n. induction ts as [|t ts IH]; intros n.
  - simpl. unfold terms_val; simpl. ring.
  - cbn [fold_left]. rewrite IH. pose proof (fterm_key_val tg r t) as H.
    destruct (fterm_key en vs tg t) as [k e]. cbn [fst snd] in H. rewrite fnf_add_val.
    unfold terms_val. cbn [ksum]. rewrite H. ring. Qed.
Lemma build_fnf_val tg r ts : fnf_val r (build_fnf en vs tg ts) = terms_val S T tg r ts.
Proof. unfold build_fnf. rewrite build_fnf_val_gen. unfold fnf_val; simpl. ring. Qed.

(* ---- field facts ---- *)
Lemma mul_nonzero x y : x <> 0 -> y <> 0 -> x * y <> 0.
Proof. intros Hx Hy H. apply Hx.
  transitivity (x * y * kinv S y); [rewrite <- (Rmul_assoc (Kring S)), (Hinv y Hy); ring|rewrite H; ring]. Qed.

Lemma cancel_nonzero x p : p <> 0 -> x * p = 0 -> x = 0.
Proof. intros Hp H. transitivity (x * p * kinv S p); [rewrite <- (Rmul_assoc (Kring S)), (Hinv p Hp); ring|rewrite H; ring]. Qed.

Lemma prod_pe_val l ds : pe_eval l (prod_pe ds) = kprod (map (pe_eval l) ds).
Proof. induction ds as [|d ds IH]; simpl; [apply ofQ_1|].
  rewrite pe_eval_mul, IH. reflexivity. Qed.
Lemma dens_times_prod l ds : (forall d, In d ds -> pe_eval l d <> 0) ->
  dens_val l ds * kprod (map (pe_eval l) ds) = 1.
Proof. unfold dens_val. induction ds as [|d ds IH]; intros H; simpl; [ring|].
  transitivity ((pe_eval l d * kinv S (pe_eval l d)) * (kprod (map (fun d0 => kinv S (pe_eval l d0)) ds) * kprod (map (pe_eval l) ds))); [ring|].
  rewrite Hinv by (apply H; left; reflexivity). rewrite IH by (intros; apply H; right; assumption). ring. Qed.

Lemma key_zero_sound es l : key_zero es = true ->
  (forall d, In d (all_dens es) -> pe_eval l d <> 0) -> (1 <> 0) ->
  ksum es (entry_val l) = 0.
Proof. unfold key_zero. set (dc := common_den es). rewrite !andb_true_iff. intros [[H1 H2] H3] Hnz H10.
  set (P := kprod (map (pe_eval l) dc)).
  assert (HP : P <> 0).
  { unfold P. clear H1 H3. induction dc as [|d dc' IH]; simpl; [exact H10|].
    simpl in H2. apply andb_true_iff in H2. destruct H2 as [Hd Hr].
    apply mul_nonzero; [|apply IH; exact Hr].
    apply existsb_exists in Hd. destruct Hd as [d' [Hin Hq]].
    rewrite (peq_sound d d' Hq l). apply Hnz; exact Hin. }
  apply (cancel_nonzero _ P HP).
  assert (He : forall e, In e es -> entry_val l e * P = pe_eval l (entry_num dc e)).
  { intros e Hin. rewrite forallb_forall in H1. specialize (H1 e Hin). unfold entry_ok in H1.
    pose proof (peq_sound _ _ H1 l) as Hq. rewrite pe_eval_mul, !prod_pe_val in Hq. fold P in Hq. rewrite <- Hq.
    unfold entry_num, entry_val. rewrite !pe_eval_mul, pe_eval_c, prod_pe_val.
    assert (Hd : dens_val l (snd e) * kprod (map (pe_eval l) (snd e)) = 1).
    { apply dens_times_prod. intros d Hd. apply Hnz. unfold all_dens. apply in_flat_map. exists e; auto. }
    transitivity (ofQ S (fst (fst e)) * pe_eval l (snd (fst e)) * (dens_val l (snd e) * kprod (map (pe_eval l) (snd e)))
                  * kprod (map (pe_eval l) (missing dc (snd e)))); [ring|rewrite Hd; ring]. }
  pose proof (peq_sound _ _ H3 l) as Hs. rewrite (pe_eval_c l 0%Q), ofQ_0 in Hs.
  rewrite <- Hs. clear Hs H1 H2 H3 Hnz.
  assert (Haux : forall es', (forall e, In e es' -> entry_val l e * P = pe_eval l (entry_num dc e)) ->
            ksum es' (entry_val l) * P =
            pe_eval l (fold_right (fun e acc => PEadd (entry_num dc e) acc) (PEc 0%Q) es')).
  { induction es' as [|e es' IH]; intros He'; simpl.
    - rewrite pe_eval_c, ofQ_0. ring.
    - rewrite pe_eval_add. rewrite <- IH by (intros; apply He'; right; assumption).
      rewrite <- (He' e) by (left; reflexivity). ring. }
  apply Haux. exact He. Qed.

Lemma fnf_zero_val r n : fnf_zero n = true -> (1 <> 0) ->
  (forall r' d, In d (flat_map (fun kes => all_dens (snd kes)) n) -> pe_eval (venv r') d <> 0) ->
  fnf_val r n = 0.
Proof. unfold fnf_zero, fnf_val. intros H H10 Hnz. induction n as [|[k es] n IH]; simpl; [reflexivity|].
  simpl in H. apply andb_true_iff in H. destruct H as [H1 H2].
  rewrite IH; [|exact H2|intros r' d Hd; apply Hnz; simpl; apply in_or_app; right; exact Hd].
  unfold fkey_val; cbn [fst snd].
  rewrite (sum_over_ext S T _ _ (fun _ => 0)).
  - rewrite sum_over_zero. ring.
  - intros r'. rewrite (key_zero_sound es (venv r') H1); [ring| |exact H10].
    intros d Hd. apply Hnz. simpl. apply in_or_app. left; exact Hd. Qed.

Theorem check_equiv_frac_sound tg c1 c2 e1 e2 :
  check_equiv_frac en vs tg c1 c2 e1 e2 = true -> (1 <> 0) ->
  (forall r' d, In d (frac_dens en vs tg c1 c2 e1 e2) -> pe_eval (venv r') d <> 0) ->
  forall r, env_ok S T tg r -> eval S T tg r e1 = eval S T tg r e2.
Proof. unfold check_equiv_frac, frac_dens, equiv_fnf.
  destruct (expand_all2 tg e1 c1) as [l1|] eqn:E1; [|discriminate].
  destruct (expand_all2 tg e2 c2) as [l2|] eqn:E2; [|discriminate].
  intros Hz H10 Hnz r Hr. pose proof (fnf_zero_val r _ Hz H10 Hnz) as H. rewrite build_fnf_val in H.
  unfold terms_val in H. rewrite (drop_pauli_val S T R) in H. rewrite ksum_app in H.
  fold (terms_val S T tg r l1) in H. fold (terms_val S T tg r (map neg_term l2)) in H.
  rewrite neg_terms_val in H.
  rewrite (expand_all2_sound S T MOK tg r Hr _ _ _ E1), (expand_all2_sound S T MOK tg r Hr _ _ _ E2) in H.
  transitivity (eval S T tg r e1 + - eval S T tg r e2 + eval S T tg r e2); [ring|rewrite H; ring]. Qed.
End FracSound.
