(* Transposing two indices of a term (targets allowed): the permuted term,
   evaluated at an assignment r, is the original term evaluated at r∘(a b). *)
From Coq Require Import ZArith QArith List Bool Lia Permutation.
From ADC Require Import Core.Scalar Core.Index Core.Expr Core.Swap.
Import ListNotations.

Definition closed_under_swap (a b : index) (tg : list index) : bool :=
  forallb (fun x => imem (swap_idx a b x) tg) tg.

Section SwapAny.
Variable S : Scalar.
Variable T : tmodel S.
Notation sw := swap_idx.
Add Ring KR6 : (Kring S).

Lemma closed_imem a b tg x : closed_under_swap a b tg = true ->
  imem (sw a b x) tg = imem x tg.
Proof. unfold closed_under_swap. rewrite forallb_forall. intros H.
  destruct (imem x tg) eqn:E.
  - apply H. apply imem_In; exact E.
  - destruct (imem (sw a b x) tg) eqn:E2; [|reflexivity].
    apply imem_In in E2. specialize (H _ E2). rewrite swap_idx_invol in H. congruence. Qed.

Lemma contracted_swap_any a b tg t : closed_under_swap a b tg = true ->
  contracted tg (swap_term a b t) = map (sw a b) (contracted tg t).
Proof. intros Hc. unfold contracted, contracted_of. rewrite term_idx_swap, inodup_swap.
  generalize (inodup (term_idx t)) as l. induction l as [|x l IH]; simpl; [reflexivity|].
  rewrite (closed_imem a b tg x Hc). destruct (imem x tg); simpl; rewrite IH; reflexivity. Qed.

Theorem eval_term_swap_any a b tg r t : same_sort a b = true -> closed_under_swap a b tg = true ->
  eval_term S T tg r (swap_term a b t) = eval_term S T tg (comp_env r a b) t.
Proof. intros Hs Hc. unfold eval_term. rewrite contracted_swap_any by assumption.
  rewrite <- (sum_over_reindex S T a b (term_idx t) _ (fun r' => term_val S T r' t));
    [|exact Hs|intros e1 e2 He; apply term_val_agree; exact He].
  apply sum_over_ext. intros; apply term_val_swap. Qed.

Definition swap_expr a b (e : expr) : expr := map (swap_term a b) e.
Theorem eval_swap_any a b tg r e : same_sort a b = true -> closed_under_swap a b tg = true ->
  eval S T tg r (swap_expr a b e) = eval S T tg (comp_env r a b) e.
Proof. intros Hs Hc. unfold eval, swap_expr. rewrite ksum_map. apply ksum_ext.
  intros t _. apply eval_term_swap_any; assumption. Qed.

(* permutation products: transpositions applied one after another *)
Definition permute_expr (ps : list (index * index)) (e : expr) : expr :=
  fold_left (fun e ab => swap_expr (fst ab) (snd ab) e) ps e.
Fixpoint permute_env (ps : list (index * index)) (r : env) : env :=
  match ps with [] => r | ab :: ps' => comp_env (permute_env ps' r) (fst ab) (snd ab) end.
Definition perms_ok (tg : list index) (ps : list (index * index)) : bool :=
  forallb (fun ab => same_sort (fst ab) (snd ab) && closed_under_swap (fst ab) (snd ab) tg) ps.

Theorem eval_permute tg ps : perms_ok tg ps = true -> forall e r,
  eval S T tg r (permute_expr ps e) = eval S T tg (permute_env ps r) e.
Proof. unfold permute_expr, permute_env, perms_ok.
  induction ps as [|[a b] ps IH]; intros H e r; simpl; [reflexivity|].
  simpl in H. rewrite !andb_true_iff in H. destruct H as [[H1 H2] H3].
  rewrite IH by exact H3. rewrite eval_swap_any by assumption. reflexivity. Qed.

(* decompositions *)
Lemma eval_app tg r e1 e2 : eval S T tg r (e1 ++ e2) = kadd S (eval S T tg r e1) (eval S T tg r e2).
Proof. unfold eval. apply ksum_app. Qed.
Lemma eval_perm tg r e1 e2 : Permutation e1 e2 -> eval S T tg r e1 = eval S T tg r e2.
Proof. unfold eval. apply ksum_perm. Qed.
Theorem eval_partition tg r (p : term -> bool) e :
  eval S T tg r e = kadd S (eval S T tg r (filter p e)) (eval S T tg r (filter (fun t => negb (p t)) e)).
Proof. unfold eval. induction e as [|t e IH]; simpl; [ring|].
  rewrite IH. destruct (p t); simpl; ring. Qed.
End SwapAny.
