(* C15 - proofs about the model in Models/Spin.v *)
From Coq Require Import ZArith NArith QArith List Bool Lia Permutation.
From ADC Require Import Core.Scalar Core.Index Core.Expr Models.Spin.
Import ListNotations.
Open Scope nat_scope.
Open Scope list_scope.

(* ------------------------------------------------------------------ *)
(* index sets                                                           *)
(* ------------------------------------------------------------------ *)
Lemma iinter_true a b : iinter a b = true <-> exists x, In x a /\ In x b.
Proof. unfold iinter. rewrite existsb_exists. split; intros [x [H1 H2]]; exists x; split; auto;
  apply imem_In; auto. Qed.
Lemma iinter_false a b : iinter a b = false <-> forall x, In x a -> ~ In x b.
Proof. split.
  - intros H x Ha Hb. assert (iinter a b = true) by (apply iinter_true; eauto). congruence.
  - intros H. destruct (iinter a b) eqn:E; [|reflexivity]. apply iinter_true in E.
    destruct E as [x [Ha Hb]]. exfalso; eapply H; eauto. Qed.
Lemma iunion_In a b x : In x (iunion a b) <-> In x a \/ In x b.
Proof. unfold iunion. rewrite in_app_iff, filter_In. split.
  - intros [H|[H _]]; auto.
  - intros [H|H]; auto. destruct (imem x a) eqn:E; [left; apply imem_In; auto|right; split; auto]. Qed.
Lemma iadd_In y a x : In x (iadd y a) <-> x = y \/ In x a.
Proof. unfold iadd. destruct (imem y a) eqn:E.
  - apply imem_In in E. split; [auto|intros [->|H]; auto].
  - rewrite in_app_iff; simpl. split; [intros [H|[H|[]]]; auto|intros [H|H]; auto]. Qed.
Lemma isubset_incl a b : isubset a b = true <-> incl a b.
Proof. unfold isubset. rewrite forallb_forall. split; intros H x Hx.
  - apply imem_In; auto.
  - apply imem_In; apply H; auto. Qed.
Lemma iset_eqb_iff a b : iset_eqb a b = true <-> (forall x, In x a <-> In x b).
Proof. unfold iset_eqb. rewrite andb_true_iff, !isubset_incl. split.
  - intros [H1 H2] x; split; auto.
  - intros H; split; intros x Hx; apply H; auto. Qed.

(* ------------------------------------------------------------------ *)
(* spin maps                                                            *)
(* ------------------------------------------------------------------ *)
Definition agrees (m : smap) (g : index -> sp) : Prop :=
  (forall x, In x (sa m) -> g x = SA) /\ (forall x, In x (sb m) -> g x = SB).
Definition sdom (m : smap) (x : index) : Prop := In x (sa m) \/ In x (sb m).
Definition sequiv (m1 m2 : smap) : Prop :=
  (forall x, In x (sa m1) <-> In x (sa m2)) /\ (forall x, In x (sb m1) <-> In x (sb m2)).

Lemma sequiv_sym m1 m2 : sequiv m1 m2 -> sequiv m2 m1.
Proof. intros [H1 H2]; split; intros x; symmetry; auto. Qed.
Lemma smap_eqb_iff m1 m2 : smap_eqb m1 m2 = true <-> sequiv m1 m2.
Proof. unfold smap_eqb, sequiv. rewrite andb_true_iff, !iset_eqb_iff. tauto. Qed.
Lemma agrees_sequiv m1 m2 g : sequiv m1 m2 -> agrees m1 g -> agrees m2 g.
Proof. intros [E1 E2] [H1 H2]; split; intros x Hx; [apply H1, E1|apply H2, E2]; auto. Qed.
Lemma agrees_disj m g x : agrees m g -> In x (sa m) -> ~ In x (sb m).
Proof. intros [H1 H2] Ha Hb. specialize (H1 x Ha). specialize (H2 x Hb). congruence. Qed.
Lemma agrees_sspin m g x : agrees m g -> sdom m x -> sspin m x = Some (g x).
Proof. intros Hag Hd. unfold sspin. destruct (imem x (sb m)) eqn:Eb.
  - apply imem_In in Eb. rewrite (proj2 Hag x Eb). reflexivity.
  - apply imem_nIn in Eb. destruct Hd as [Ha|Hb]; [|contradiction].
    assert (Ea : imem x (sa m) = true) by (apply imem_In; auto). rewrite Ea, (proj1 Hag x Ha). reflexivity. Qed.
Lemma sspin_none m x : ~ sdom m x -> sspin m x = None.
Proof. intros H. unfold sspin.
  destruct (imem x (sb m)) eqn:Eb; [exfalso; apply H; right; apply imem_In; auto|].
  destruct (imem x (sa m)) eqn:Ea; [exfalso; apply H; left; apply imem_In; auto|reflexivity]. Qed.

Lemma sadd_sa s x m y : In y (sa (sadd s x m)) <-> (s = SA /\ y = x) \/ In y (sa m).
Proof. destruct s; simpl.
  - rewrite iadd_In. split; [intros [->|H]; auto|intros [[_ ->]|H]; auto].
  - split; [auto|intros [[H _]|H]; [discriminate|auto]]. Qed.
Lemma sadd_sb s x m y : In y (sb (sadd s x m)) <-> (s = SB /\ y = x) \/ In y (sb m).
Proof. destruct s; simpl.
  - split; [auto|intros [[H _]|H]; [discriminate|auto]].
  - rewrite iadd_In. split; [intros [->|H]; auto|intros [[_ ->]|H]; auto]. Qed.

Lemma add_zip_sa zp m y : In y (sa (add_zip zp m)) <-> In (SA, y) zp \/ In y (sa m).
Proof. revert m; induction zp as [|[s x] r IH]; intros m; simpl; [tauto|].
  rewrite IH, sadd_sa. split.
  - intros [H|[[-> ->]|H]]; auto.
  - intros [[H|H]|H]; auto. inversion H; subst; auto. Qed.
Lemma add_zip_sb zp m y : In y (sb (add_zip zp m)) <-> In (SB, y) zp \/ In y (sb m).
Proof. revert m; induction zp as [|[s x] r IH]; intros m; simpl; [tauto|].
  rewrite IH, sadd_sb. split.
  - intros [H|[[-> ->]|H]]; auto.
  - intros [[H|H]|H]; auto. inversion H; subst; auto. Qed.

Lemma sunion_sa m ad x : In x (sa (sunion m ad)) <-> In x (sa m) \/ In x (sa ad).
Proof. apply iunion_In. Qed.
Lemma sunion_sb m ad x : In x (sb (sunion m ad)) <-> In x (sb m) \/ In x (sb ad).
Proof. apply iunion_In. Qed.

Lemma contra_false m ad : contra m ad = false <->
  (forall x, In x (sa m) -> ~ In x (sb ad)) /\ (forall x, In x (sb m) -> ~ In x (sa ad)).
Proof. unfold contra. rewrite orb_false_iff, !iinter_false. tauto. Qed.
Lemma agrees_no_contra m ad g : agrees m g -> agrees ad g -> contra m ad = false.
Proof. intros [A1 B1] [A2 B2]. apply contra_false; split; intros x H1 H2.
  - specialize (A1 x H1). specialize (B2 x H2). congruence.
  - specialize (B1 x H1). specialize (A2 x H2). congruence. Qed.
Lemma agrees_sunion m ad g : agrees m g -> agrees ad g -> agrees (sunion m ad) g.
Proof. intros [A1 B1] [A2 B2]; split; intros x H.
  - apply sunion_sa in H; destruct H; auto.
  - apply sunion_sb in H; destruct H; auto. Qed.
Lemma agrees_sunion_inv m ad g : agrees (sunion m ad) g -> agrees m g /\ agrees ad g.
Proof. intros [A B]; repeat split; intros x H; (apply A; apply sunion_sa; tauto) || (apply B; apply sunion_sb; tauto). Qed.

Lemma glue m ad g1 g2 : agrees m g1 -> agrees ad g2 -> contra m ad = false ->
  exists g, agrees (sunion m ad) g /\ (forall x, sdom m x -> g x = g1 x) /\ (forall x, sdom ad x -> g x = g2 x).
Proof. intros H1 H2 Hc. apply contra_false in Hc. destruct Hc as [C1 C2].
  exists (fun x => if imem x (sa m) || imem x (sb m) then g1 x else g2 x).
  assert (Hin : forall x, sdom m x -> (imem x (sa m) || imem x (sb m)) = true).
  { intros x [H|H]; apply orb_true_iff; [left|right]; apply imem_In; auto. }
  assert (Hout : forall x, (imem x (sa m) || imem x (sb m)) = false -> ~ sdom m x).
  { intros x E [H|H]; apply orb_false_iff in E; destruct E as [Ea Eb];
      [apply imem_nIn in Ea|apply imem_nIn in Eb]; auto. }
  assert (Hd2 : forall x, sdom ad x ->
            (if imem x (sa m) || imem x (sb m) then g1 x else g2 x) = g2 x).
  { intros x Hx. destruct (imem x (sa m) || imem x (sb m)) eqn:E; [|reflexivity].
    apply orb_true_iff in E. destruct Hx as [Hx|Hx].
    - rewrite (proj1 H2 x Hx). destruct E as [E|E]; apply imem_In in E.
      + apply (proj1 H1); auto.
      + exfalso; eapply C2; eauto.
    - rewrite (proj2 H2 x Hx). destruct E as [E|E]; apply imem_In in E.
      + exfalso; eapply C1; eauto.
      + apply (proj2 H1); auto. }
  split; [|split].
  - split; intros x Hx.
    + apply sunion_sa in Hx. destruct Hx as [Hx|Hx].
      * rewrite Hin by (left; auto). apply (proj1 H1); auto.
      * rewrite Hd2 by (left; auto). apply (proj1 H2); auto.
    + apply sunion_sb in Hx. destruct Hx as [Hx|Hx].
      * rewrite Hin by (right; auto). apply (proj2 H1); auto.
      * rewrite Hd2 by (right; auto). apply (proj2 H2); auto.
  - intros x Hx. rewrite Hin; auto.
  - exact Hd2. Qed.

(* pairwise non-equivalence *)
Definition NE (m1 m2 : smap) : Prop := ~ sequiv m1 m2.
Lemma FOP_snoc {A} (R : A -> A -> Prop) l c :
  ForallOrdPairs R l -> Forall (fun a => R a c) l -> ForallOrdPairs R (l ++ [c]).
Proof. induction 1 as [|a l Ha Hl IH]; intros Hc; simpl.
  - constructor; constructor.
  - inversion Hc; subst. constructor; [|auto].
    apply Forall_app; split; auto. Qed.

(* ------------------------------------------------------------------ *)
(* a list of spin maps represents exactly the functions satisfying P    *)
(* ------------------------------------------------------------------ *)
Definition local (D : list index) (P : (index -> sp) -> Prop) : Prop :=
  forall g g', (forall x, In x D -> g x = g' x) -> P g -> P g'.

Record Rep (D : list index) (P : (index -> sp) -> Prop) (L : list smap) : Prop := {
  rep_s : forall m, In m L -> (forall x, sdom m x <-> In x D) /\ exists g, P g /\ agrees m g;
  rep_c : forall g, P g -> exists m, In m L /\ agrees m g;
  rep_u : ForallOrdPairs NE L }.

Lemma rep_ext D D' (P P' : (index -> sp) -> Prop) L :
  (forall x, In x D <-> In x D') -> (forall g, P g <-> P' g) -> Rep D P L -> Rep D' P' L.
Proof. intros HD HP [Hs Hc Hu]. split; [| |exact Hu].
  - intros m Hm. destruct (Hs m Hm) as [Hd [g [Hg Ha]]]. split.
    + intros x. rewrite Hd. apply HD.
    + exists g; split; [apply HP|]; auto.
  - intros g Hg. apply Hc. apply HP; auto. Qed.

Lemma comb_acc_in ps : forall acc c, In c (comb_acc ps acc) ->
  In c acc \/ exists m ad, In (m, ad) ps /\ contra m ad = false /\ c = sunion m ad.
Proof. induction ps as [|[m ad] ps IH]; intros acc c H; simpl in *; [auto|].
  destruct (contra m ad) eqn:Ec.
  - destruct (IH _ _ H) as [H1|[m' [ad' [H1 H2]]]]; [auto|right; exists m', ad'; auto].
  - destruct (existsb (smap_eqb (sunion m ad)) acc) eqn:Ee.
    + destruct (IH _ _ H) as [H1|[m' [ad' [H1 H2]]]]; [auto|right; exists m', ad'; auto].
    + destruct (IH _ _ H) as [H1|[m' [ad' [H1 H2]]]]; [|right; exists m', ad'; auto].
      apply in_app_or in H1. destruct H1 as [H1|[H1|[]]]; [auto|].
      right; exists m, ad; subst; auto. Qed.
Lemma comb_acc_mono ps : forall acc c, In c acc -> In c (comb_acc ps acc).
Proof. induction ps as [|[m ad] ps IH]; intros acc c H; simpl; [auto|].
  destruct (contra m ad); [auto|]. destruct (existsb (smap_eqb (sunion m ad)) acc); [auto|].
  apply IH. apply in_or_app; auto. Qed.
Lemma comb_acc_complete ps : forall acc m ad, In (m, ad) ps -> contra m ad = false ->
  exists c, In c (comb_acc ps acc) /\ sequiv c (sunion m ad).
Proof. induction ps as [|[m0 ad0] ps IH]; intros acc m ad H Hc; simpl in *; [contradiction|].
  destruct H as [H|H].
  - inversion H; subst. rewrite Hc.
    destruct (existsb (smap_eqb (sunion m ad)) acc) eqn:Ee.
    + apply existsb_exists in Ee. destruct Ee as [a [Ha Hb]]. apply smap_eqb_iff in Hb.
      exists a; split; [apply comb_acc_mono; auto|apply sequiv_sym; auto].
    + exists (sunion m ad); split; [apply comb_acc_mono; apply in_or_app; right; left; auto|].
      split; intros x; tauto.
  - destruct (contra m0 ad0); [auto|]. destruct (existsb (smap_eqb (sunion m0 ad0)) acc); auto. Qed.
Lemma comb_acc_fop ps : forall acc, ForallOrdPairs NE acc -> ForallOrdPairs NE (comb_acc ps acc).
Proof. induction ps as [|[m ad] ps IH]; intros acc H; simpl; [auto|].
  destruct (contra m ad); [auto|].
  destruct (existsb (smap_eqb (sunion m ad)) acc) eqn:Ee; [auto|].
  apply IH. apply FOP_snoc; [auto|]. apply Forall_forall. intros a Ha Heq.
  assert (E : existsb (smap_eqb (sunion m ad)) acc = true).
  { apply existsb_exists. exists a; split; [auto|]. apply smap_eqb_iff. apply sequiv_sym; auto. }
  congruence. Qed.

Lemma sdom_sunion m ad x : sdom (sunion m ad) x <-> sdom m x \/ sdom ad x.
Proof. unfold sdom. rewrite sunion_sa, sunion_sb. tauto. Qed.

Lemma rep_combine D1 P1 L1 D2 P2 L2 : local D1 P1 -> local D2 P2 ->
  Rep D1 P1 L1 -> Rep D2 P2 L2 -> Rep (D1 ++ D2) (fun g => P1 g /\ P2 g) (combine_step L1 L2).
Proof. intros Hl1 Hl2 [S1 C1 U1] [S2 C2 U2]. unfold combine_step. split.
  - intros c Hc. apply comb_acc_in in Hc. destruct Hc as [[]|[m [ad [Hin [Hcon ->]]]]].
    apply in_prod_iff in Hin. destruct Hin as [Hm Had].
    destruct (S1 m Hm) as [Hd1 [g1 [Hp1 Ha1]]]. destruct (S2 ad Had) as [Hd2 [g2 [Hp2 Ha2]]].
    split.
    + intros x. rewrite sdom_sunion, in_app_iff, Hd1, Hd2. tauto.
    + destruct (glue m ad g1 g2 Ha1 Ha2 Hcon) as [g [Hg [He1 He2]]].
      exists g. split; [split|exact Hg].
      * apply (Hl1 g1); [|auto]. intros x Hx. symmetry. apply He1. apply Hd1; auto.
      * apply (Hl2 g2); [|auto]. intros x Hx. symmetry. apply He2. apply Hd2; auto.
  - intros g [Hp1 Hp2]. destruct (C1 g Hp1) as [m [Hm Ha1]]. destruct (C2 g Hp2) as [ad [Had Ha2]].
    destruct (comb_acc_complete (list_prod L1 L2) [] m ad) as [c [Hc He]].
    + apply in_prod_iff; auto.
    + eapply agrees_no_contra; eauto.
    + exists c; split; [auto|]. apply (agrees_sequiv (sunion m ad)); [apply sequiv_sym; auto|].
      apply agrees_sunion; auto.
  - apply comb_acc_fop. constructor. Qed.

Lemma local_and D1 D2 (P1 P2 : (index -> sp) -> Prop) : local D1 P1 -> local D2 P2 ->
  local (D1 ++ D2) (fun g => P1 g /\ P2 g).
Proof. intros H1 H2 g g' He [Hp1 Hp2]. split.
  - apply (H1 g); [|auto]. intros x Hx; apply He; apply in_or_app; auto.
  - apply (H2 g); [|auto]. intros x Hx; apply He; apply in_or_app; auto. Qed.

(* ---------- one object ---------- *)
Definition compat_on (tm : tmap) (ix : list index) (g : index -> sp) : Prop :=
  forall x s, In x ix -> tlookup tm x = Some s -> g x = s.
Definition Pobj (tm : tmap) (ix : list index) (tb : list block) (g : index -> sp) : Prop :=
  compat_on tm ix g /\ In (map g ix) tb.
Lemma local_Pobj tm ix tb : local ix (Pobj tm ix tb).
Proof. intros g g' He [Hc Hi]. split.
  - intros x s Hx Hl. rewrite <- (He x Hx). eapply Hc; eauto.
  - replace (map g' ix) with (map g ix); [auto|]. apply map_ext_in. auto. Qed.

Lemma zip_map_spec tm zp : forall acc m, zip_map tm zp acc = Some m <->
  (forall s x s', In (s, x) zp -> tlookup tm x = Some s' -> s = s') /\ m = add_zip zp acc.
Proof. induction zp as [|[s x] r IH]; intros acc m; simpl.
  - split; [intros H; inversion H; split; [intros ? ? ? []|reflexivity]|intros [_ ->]; reflexivity].
  - destruct (tlookup tm x) as [s'|] eqn:El.
    + destruct (sp_eqb s s') eqn:Es.
      * apply sp_eqb_eq in Es; subst s'. rewrite IH. split; intros [H1 H2]; split; auto.
        -- intros s0 x0 s0' [Hin|Hin] Hl; [inversion Hin; subst; congruence|eauto].
        -- intros s0 x0 s0' Hin Hl. eapply H1; eauto.
      * split; [discriminate|]. intros [H1 _]. specialize (H1 s x s' (or_introl eq_refl) El).
        subst. destruct s'; discriminate.
    + rewrite IH. split; intros [H1 H2]; split; auto.
      * intros s0 x0 s0' [Hin|Hin] Hl; [inversion Hin; subst; congruence|eauto].
      * intros s0 x0 s0' Hin Hl. eapply H1; eauto. Qed.

Definition obj_maps_spec (tm : tmap) (tb : list block) (ix : list index) : list smap :=
  flat_map (fun bl => match zip_map tm (combine bl ix) sempty with
                      | Some m => if iinter (sa m) (sb m) then [] else [m]
                      | None => [] end) tb.
Lemma obj_maps_true tm tb ix : obj_maps tm tb ix = Ok (obj_maps_spec tm tb ix).
Proof. induction tb as [|bl tb IH]; simpl; [reflexivity|].
  destruct (zip_map tm (combine bl ix) sempty) as [m|]; [|exact IH].
  destruct (iinter (sa m) (sb m)); [exact IH|]. rewrite IH. reflexivity. Qed.
Lemma in_combine_map {A B} (f : A -> B) (l : list A) a b : In (b, a) (combine (map f l) l) -> b = f a.
Proof. induction l as [|y l IH]; simpl; [tauto|]. intros [H|H]; [inversion H; reflexivity|auto]. Qed.
Lemma in_combine_of {A B} (f : A -> B) (l : list A) a : In a l -> In (f a, a) (combine (map f l) l).
Proof. induction l as [|y l IH]; simpl; [tauto|]. intros [->|H]; auto. Qed.
Lemma combine_fun_eq {A B} (g : A -> B) (bl : list B) (ix : list A) : length bl = length ix ->
  (forall s x, In (s, x) (combine bl ix) -> g x = s) -> map g ix = bl.
Proof. revert ix; induction bl as [|b bl IH]; destruct ix as [|x ix]; simpl; intros Hl H; try discriminate; [reflexivity|].
  f_equal; [apply H; auto|apply IH; [lia|intros; apply H; auto]]. Qed.
Lemma in_combine_r_ex {A B} (bl : list B) (ix : list A) x : length bl = length ix -> In x ix ->
  exists s, In (s, x) (combine bl ix).
Proof. revert ix; induction bl as [|b bl IH]; destruct ix as [|y ix]; simpl; intros Hl H; try discriminate; [tauto|].
  destruct H as [->|H]; [exists b; auto|]. destruct (IH ix) as [s Hs]; [lia|auto|exists s; auto]. Qed.

Definition wf_table (ix : list index) (tb : list block) : Prop :=
  NoDup tb /\ (forall bl, In bl tb -> length bl = length ix) /\ ix <> [].

Lemma obj_maps_rep tm ix tb : wf_table ix tb -> Rep ix (Pobj tm ix tb) (obj_maps_spec tm tb ix).
Proof. intros [Hnd [Hlen _]]. unfold obj_maps_spec.
  (* facts about the map of one block *)
  assert (Hblk : forall bl m, length bl = length ix ->
            zip_map tm (combine bl ix) sempty = Some m -> iinter (sa m) (sb m) = false ->
            (forall x, sdom m x <-> In x ix) /\
            (forall g, agrees m g <-> map g ix = bl) /\
            (forall g, agrees m g -> compat_on tm ix g)).
  { intros bl m Hl Hz Hi. apply zip_map_spec in Hz. destruct Hz as [Hcomp ->].
    assert (Hsa : forall y, In y (sa (add_zip (combine bl ix) sempty)) <-> In (SA, y) (combine bl ix)).
    { intros y. rewrite add_zip_sa. simpl. tauto. }
    assert (Hsb : forall y, In y (sb (add_zip (combine bl ix) sempty)) <-> In (SB, y) (combine bl ix)).
    { intros y. rewrite add_zip_sb. simpl. tauto. }
    split; [|split].
    - intros x. unfold sdom. rewrite Hsa, Hsb. split.
      + intros [H|H]; eapply in_combine_r; eauto.
      + intros H. destruct (in_combine_r_ex bl ix x Hl H) as [[|] Hs]; auto.
    - intros g. split.
      + intros [Ha Hb]. apply combine_fun_eq; [auto|]. intros [|] x Hin; [apply Ha, Hsa|apply Hb, Hsb]; auto.
      + intros <-. split; intros x Hx; [apply Hsa in Hx|apply Hsb in Hx];
          apply in_combine_map in Hx; auto.
    - intros g [Ha Hb] x s Hx Hlk. destruct (in_combine_r_ex bl ix x Hl Hx) as [s0 Hs0].
      rewrite <- (Hcomp s0 x s Hs0 Hlk). destruct s0; [apply Ha, Hsa|apply Hb, Hsb]; auto. }
  assert (Hwit : forall m, iinter (sa m) (sb m) = false ->
            agrees m (fun x => if imem x (sb m) then SB else SA)).
  { intros m Hi. split; intros x Hx.
    - destruct (imem x (sb m)) eqn:E; [|reflexivity]. apply imem_In in E.
      exfalso. eapply (proj1 (iinter_false _ _) Hi); eauto.
    - assert (E : imem x (sb m) = true) by (apply imem_In; auto). rewrite E; reflexivity. }
  split.
  - intros m Hm. apply in_flat_map in Hm. destruct Hm as [bl [Hbl Hm]].
    destruct (zip_map tm (combine bl ix) sempty) as [m'|] eqn:Ez; [|contradiction].
    destruct (iinter (sa m') (sb m')) eqn:Ei; [contradiction|]. destruct Hm as [<-|[]].
    destruct (Hblk bl m' (Hlen bl Hbl) Ez Ei) as [Hd [Hag Hco]]. split; [exact Hd|].
    exists (fun x => if imem x (sb m') then SB else SA). pose proof (Hwit m' Ei) as Hw.
    split; [split; [apply Hco; auto|]|auto]. rewrite (proj1 (Hag _) Hw). exact Hbl.
  - intros g [Hco Hin]. set (bl := map g ix) in *.
    assert (Hl : length bl = length ix) by (unfold bl; apply map_length).
    assert (Hz : zip_map tm (combine bl ix) sempty = Some (add_zip (combine bl ix) sempty)).
    { apply zip_map_spec. split; [|reflexivity]. intros s x s' Hi Hlk.
      pose proof (in_combine_map g ix x s Hi) as ->. apply (Hco x s'); [eapply in_combine_r; eauto|auto]. }
    set (m := add_zip (combine bl ix) sempty) in *.
    assert (Hag : agrees m g).
    { split; intros x Hx; [apply add_zip_sa in Hx|apply add_zip_sb in Hx]; simpl in Hx;
        destruct Hx as [Hx|[]]; apply in_combine_map in Hx; auto. }
    assert (Hi : iinter (sa m) (sb m) = false).
    { apply iinter_false. intros x Ha Hb. eapply agrees_disj; eauto. }
    exists m. split; [|exact Hag]. apply in_flat_map. exists bl. split; [exact Hin|].
    rewrite Hz. fold m. rewrite Hi. left; reflexivity.
  - induction tb as [|bl tb IH]; simpl; [constructor|].
    inversion Hnd as [|? ? Hnotin Hnd']; subst.
    assert (IH' := IH Hnd' (fun b Hb => Hlen b (or_intror Hb))). clear IH.
    destruct (zip_map tm (combine bl ix) sempty) as [m|] eqn:Ez; [|exact IH'].
    destruct (iinter (sa m) (sb m)) eqn:Ei; [exact IH'|]. simpl. constructor; [|exact IH'].
    apply Forall_forall. intros m2 Hm2 Heq.
    apply in_flat_map in Hm2. destruct Hm2 as [bl2 [Hbl2 Hm2]].
    destruct (zip_map tm (combine bl2 ix) sempty) as [m2'|] eqn:Ez2; [|contradiction].
    destruct (iinter (sa m2') (sb m2')) eqn:Ei2; [contradiction|]. destruct Hm2 as [<-|[]].
    destruct (Hblk bl m (Hlen bl (or_introl eq_refl)) Ez Ei) as [_ [Hag1 _]].
    destruct (Hblk bl2 m2' (Hlen bl2 (or_intror Hbl2)) Ez2 Ei2) as [_ [Hag2 _]].
    pose proof (Hwit m Ei) as Hw. pose proof (agrees_sequiv _ _ _ Heq Hw) as Hw2.
    apply Hag1 in Hw. apply Hag2 in Hw2. apply Hnotin. rewrite Hw in Hw2. rewrite Hw2. exact Hbl2. Qed.

(* ---------- all objects of a term ---------- *)
Definition tabled (objs : list sobj) : list (list index * list block) :=
  flat_map (fun o => match snd o with Some tb => [(fst o, tb)] | None => [] end) objs.
Definition D_of (tobjs : list (list index * list block)) : list index := flat_map fst tobjs.
Definition P_of (tm : tmap) (tobjs : list (list index * list block)) (g : index -> sp) : Prop :=
  forall ix tb, In (ix, tb) tobjs -> Pobj tm ix tb g.
Definition RepO (tm : tmap) (o : list index * list block) (L : list smap) : Prop :=
  Rep (fst o) (Pobj tm (fst o) (snd o)) L.
Definition wf_objs (objs : list sobj) : Prop := forall ix tb, In (ix, Some tb) objs -> wf_table ix tb.

Lemma obj_maps_ok tm tb ix L : obj_maps tm tb ix = Ok L -> L = obj_maps_spec tm tb ix.
Proof. rewrite obj_maps_true; intros H; inversion H; reflexivity. Qed.

Lemma term_maps_rep tm objs : wf_objs objs -> forall o, term_maps tm objs = Ok o ->
  match o with
  | Some ls => Forall2 (RepO tm) (tabled objs) ls
  | None => forall g, ~ P_of tm (tabled objs) g end.
Proof. induction objs as [|[ix [tb|]] r IH]; intros Hwf o H; simpl in *.
  - inversion H; subst. constructor.
  - destruct (obj_maps tm tb ix) as [L|c] eqn:EL; simpl in H; [|discriminate].
    apply obj_maps_ok in EL. subst L.
    assert (HR : Rep ix (Pobj tm ix tb) (obj_maps_spec tm tb ix)).
    { apply obj_maps_rep. apply Hwf; left; reflexivity. }
    assert (Hwf' : wf_objs r) by (intros ix' tb' Hin; apply Hwf; right; exact Hin).
    destruct (obj_maps_spec tm tb ix) as [|m0 L'] eqn:EL.
    + inversion H; subst. intros g Hg.
      destruct (rep_c _ _ _ HR g (Hg ix tb (or_introl eq_refl))) as [m [[] _]].
    + destruct (term_maps tm r) as [o'|c] eqn:Er; simpl in H; [|discriminate].
      specialize (IH Hwf' o' eq_refl). destruct o' as [ls|]; inversion H; subst.
      * constructor; [exact HR|exact IH].
      * intros g Hg. apply (IH g). intros ix' tb' Hin. apply Hg. right; exact Hin.
  - apply IH; [|exact H]. intros ix' tb' Hin; apply Hwf; right; exact Hin. Qed.

Lemma term_maps_true_ok tm objs : exists o, term_maps tm objs = Ok o.
Proof. induction objs as [|[ix [tb|]] r [o IH]]; simpl; [eexists; reflexivity| |exists o; exact IH].
  rewrite obj_maps_true; simpl. destruct (obj_maps_spec tm tb ix); [eexists; reflexivity|].
  rewrite IH; simpl. destruct o; eexists; reflexivity. Qed.

Lemma local_P_of tm tobjs : local (D_of tobjs) (P_of tm tobjs).
Proof. intros g g' He Hp ix tb Hin. apply (local_Pobj tm ix tb g); [|apply Hp; exact Hin].
  intros x Hx. apply He. unfold D_of. apply in_flat_map. exists (ix, tb); auto. Qed.

Lemma combine_all_rep tm tobjs ls : Forall2 (RepO tm) tobjs ls ->
  forall D P combos, local D P -> Rep D P combos ->
  match combine_all combos ls with
  | Some cs => Rep (D ++ D_of tobjs) (fun g => P g /\ P_of tm tobjs g) cs
  | None => forall g, ~ (P g /\ P_of tm tobjs g) end.
Proof. induction 1 as [|o L tobjs ls HR HF IH]; intros D P combos Hloc HRep; simpl.
  - eapply rep_ext; [| |exact HRep].
    + intros x. rewrite in_app_iff. simpl. tauto.
    + intros g. split; [intros Hp; split; [auto|intros ? ? []]|tauto].
  - pose proof (rep_combine D P combos (fst o) _ L Hloc (local_Pobj tm (fst o) (snd o)) HRep HR) as H1.
    destruct (combine_step combos L) as [|c0 cs1] eqn:Ec.
    + intros g [Hp Hpo]. destruct (rep_c _ _ _ H1 g) as [m [[] _]].
      split; [auto|]. destruct o as [ix tb]. apply Hpo. left; reflexivity.
    + specialize (IH (D ++ fst o) (fun g => P g /\ Pobj tm (fst o) (snd o) g) (c0 :: cs1)
                     (local_and _ _ _ _ Hloc (local_Pobj tm (fst o) (snd o))) H1).
      destruct o as [ix tb]; simpl in *.
      assert (HP : forall g, (P g /\ Pobj tm ix tb g) /\ P_of tm tobjs g <-> P g /\ P_of tm ((ix, tb) :: tobjs) g).
      { intros g. split.
        - intros [[Hp Ho] Hr]. split; [auto|]. intros ix' tb' [Hin|Hin]; [inversion Hin; subst; auto|auto].
        - intros [Hp Hr]. split; [split; [auto|apply Hr; left; reflexivity]|].
          intros ix' tb' Hin. apply Hr; right; auto. }
      destruct (combine_all (c0 :: cs1) ls) as [cs|].
      * eapply rep_ext; [| |exact IH]; [|exact HP].
        intros x. rewrite !in_app_iff. tauto.
      * intros g Hg. apply (IH g). apply HP. exact Hg. Qed.

Lemma rep_sempty : Rep [] (fun _ => True) [sempty].
Proof. split.
  - intros m [<-|[]]. split; [intros x; unfold sdom; simpl; tauto|].
    exists (fun _ => SA). split; [auto|split; intros x []].
  - intros g _. exists sempty. split; [left; reflexivity|split; intros x []].
  - constructor; constructor. Qed.

Lemma combine_maps_rep tm tobjs ls : Forall2 (RepO tm) tobjs ls ->
  match combine_maps ls with
  | Some cs => Rep (D_of tobjs) (P_of tm tobjs) cs
  | None => forall g, ~ P_of tm tobjs g end.
Proof. intros HF. inversion HF as [|o L tobjs' ls' HR HF']; subst; simpl.
  - eapply rep_ext; [| |exact rep_sempty]; [tauto|]. intros g; split; [intros _ ? ? []|auto].
  - pose proof (combine_all_rep tm tobjs' ls' HF' (fst o) _ L (local_Pobj tm (fst o) (snd o)) HR) as H.
    destruct o as [ix tb]; simpl in *.
    assert (HP : forall g, Pobj tm ix tb g /\ P_of tm tobjs' g <-> P_of tm ((ix, tb) :: tobjs') g).
    { intros g. split.
      - intros [Ho Hr] ix' tb' [Hin|Hin]; [inversion Hin; subst; auto|auto].
      - intros Hr. split; [apply Hr; left; reflexivity|intros ix' tb' Hin; apply Hr; right; auto]. }
    destruct (combine_all L ls') as [cs|].
    + eapply rep_ext; [| |exact H]; [tauto|exact HP].
    + intros g Hg. apply (H g). apply HP. exact Hg. Qed.

(* ---------- completion of unassigned indices ---------- *)
Lemma all_blocks_In n b : In b (all_blocks n) <-> length b = n.
Proof. revert b; induction n as [|n IH]; intros b; simpl.
  - split; [intros [<-|[]]; reflexivity|destruct b; [auto|discriminate]].
  - rewrite in_app_iff, !in_map_iff. split.
    + intros [[b' [<- Hb]]|[b' [<- Hb]]]; simpl; f_equal; apply IH; auto.
    + destruct b as [|[|] b]; simpl; intros H; [discriminate| |]; apply eq_add_S in H.
      * left; exists b; split; [reflexivity|apply IH; exact H].
      * right; exists b; split; [reflexivity|apply IH; exact H]. Qed.
Lemma NoDup_app' {A} (l1 l2 : list A) : NoDup l1 -> NoDup l2 -> (forall x, In x l1 -> ~ In x l2) -> NoDup (l1 ++ l2).
Proof. induction l1 as [|a l1 IH]; simpl; intros H1 H2 H; [auto|].
  inversion H1; subst. constructor.
  - rewrite in_app_iff. intros [Hin|Hin]; [auto|]. apply (H a); auto.
  - apply IH; auto. Qed.
Lemma all_blocks_NoDup n : NoDup (all_blocks n).
Proof. induction n as [|n IH]; simpl; [constructor; [tauto|constructor]|].
  assert (Hinj : forall s, NoDup (map (cons s) (all_blocks n))).
  { intros s. apply FinFun.Injective_map_NoDup; [intros a b H; inversion H; auto|exact IH]. }
  apply NoDup_app'; auto. intros x H1 H2. apply in_map_iff in H1, H2.
  destruct H1 as [b1 [<- _]]. destruct H2 as [b2 [H2 _]]. discriminate. Qed.

Lemma add_targets_sa tm miss : forall m y,
  In y (sa (add_targets tm miss m)) <-> In y (sa m) \/ (In y miss /\ tlookup tm y = Some SA).
Proof. unfold add_targets. induction miss as [|x miss IH]; intros m y; simpl; [tauto|].
  rewrite IH. destruct (tlookup tm x) as [s|] eqn:El.
  - rewrite sadd_sa. split.
    + intros [[[-> ->]|H]|[H1 H2]]; auto.
    + intros [H|[[->|H1] H2]]; auto. left; left; split; congruence.
  - split; [intros [H|[H1 H2]]; auto|intros [H|[[->|H1] H2]]; auto; congruence]. Qed.
Lemma add_targets_sb tm miss : forall m y,
  In y (sb (add_targets tm miss m)) <-> In y (sb m) \/ (In y miss /\ tlookup tm y = Some SB).
Proof. unfold add_targets. induction miss as [|x miss IH]; intros m y; simpl; [tauto|].
  rewrite IH. destruct (tlookup tm x) as [s|] eqn:El.
  - rewrite sadd_sb. split.
    + intros [[[-> ->]|H]|[H1 H2]]; auto.
    + intros [H|[[->|H1] H2]]; auto. left; left; split; congruence.
  - split; [intros [H|[H1 H2]]; auto|intros [H|[[->|H1] H2]]; auto; congruence]. Qed.

Definition variant (tm : tmap) (tidx : list index) (m : smap) (var : block) : smap :=
  add_zip (combine var (miss_contr tm (missing tidx m))) (add_targets tm (missing tidx m) m).
Lemma complete_true_eq tm tidx m :
  complete tm tidx m = map (variant tm tidx m) (all_blocks (length (miss_contr tm (missing tidx m)))).
Proof. unfold complete, variant. destruct (miss_contr tm (missing tidx m)) eqn:E; simpl; reflexivity. Qed.

Lemma missing_In tidx m x : In x (missing tidx m) <-> In x tidx /\ ~ sdom m x.
Proof. unfold missing, sdom. rewrite filter_In, negb_true_iff, orb_false_iff, !imem_nIn. tauto. Qed.
Lemma miss_contr_In tm l x : In x (miss_contr tm l) <-> In x l /\ tlookup tm x = None.
Proof. unfold miss_contr. rewrite filter_In. destruct (tlookup tm x); split; intros [H1 H2]; split; auto; discriminate. Qed.
Lemma NoDup_filter' {A} (f : A -> bool) l : NoDup l -> NoDup (filter f l).
Proof. induction 1 as [|a l Hn Hd IH]; simpl; [constructor|]. destruct (f a); [|auto].
  constructor; [|auto]. rewrite filter_In. tauto. Qed.

Lemma variant_sa tm tidx m var y : In y (sa (variant tm tidx m var)) <->
  In (SA, y) (combine var (miss_contr tm (missing tidx m))) \/ In y (sa m) \/
  (In y (missing tidx m) /\ tlookup tm y = Some SA).
Proof. unfold variant. rewrite add_zip_sa, add_targets_sa. tauto. Qed.
Lemma variant_sb tm tidx m var y : In y (sb (variant tm tidx m var)) <->
  In (SB, y) (combine var (miss_contr tm (missing tidx m))) \/ In y (sb m) \/
  (In y (missing tidx m) /\ tlookup tm y = Some SB).
Proof. unfold variant. rewrite add_zip_sb, add_targets_sb. tauto. Qed.

Lemma combine_functional {A B} (l1 : list A) (l2 : list B) a b y : NoDup l2 ->
  In (a, y) (combine l1 l2) -> In (b, y) (combine l1 l2) -> a = b.
Proof. revert l1; induction l2 as [|z l2 IH]; intros [|c l1] Hnd; simpl; try tauto.
  inversion Hnd as [|? ? Hn Hd]; subst. intros [E1|E1] [E2|E2].
  - congruence.
  - inversion E1; subst. exfalso. apply in_combine_r in E2. auto.
  - inversion E2; subst. exfalso. apply in_combine_r in E1. auto.
  - eapply IH; eauto. Qed.
Lemma combine_incl_eq {A B} (v1 v2 : list A) (l : list B) : NoDup l -> length v1 = length l -> length v2 = length l ->
  (forall s y, In (s, y) (combine v1 l) -> In (s, y) (combine v2 l)) -> v1 = v2.
Proof. revert v1 v2; induction l as [|y l IH]; intros [|a v1] [|b v2] Hnd H1 H2 H; simpl in *; try discriminate; [reflexivity|].
  inversion Hnd as [|? ? Hn Hd]; subst. f_equal.
  - destruct (H a y (or_introl eq_refl)) as [E|E]; [congruence|]. apply in_combine_r in E. contradiction.
  - apply IH; auto. intros s z Hin. destruct (H s z (or_intror Hin)) as [E|E]; [|auto].
    inversion E; subst. apply in_combine_r in Hin. contradiction. Qed.

Lemma FOP_app {A} (R : A -> A -> Prop) l1 l2 : ForallOrdPairs R l1 -> ForallOrdPairs R l2 ->
  (forall a b, In a l1 -> In b l2 -> R a b) -> ForallOrdPairs R (l1 ++ l2).
Proof. induction 1 as [|a l1 Ha Hl IH]; intros H2 H; simpl; [auto|]. constructor.
  - apply Forall_app; split; [auto|]. apply Forall_forall. intros b Hb. apply H; [left; auto|auto].
  - apply IH; auto. intros x b Hx Hb. apply H; [right; auto|auto]. Qed.
Lemma FOP_map_nodup {A B} (R : B -> B -> Prop) (h : A -> B) l : NoDup l ->
  (forall a b, In a l -> In b l -> a <> b -> R (h a) (h b)) -> ForallOrdPairs R (map h l).
Proof. induction 1 as [|a l Hn Hd IH]; intros H; simpl; constructor.
  - apply Forall_forall. intros y Hy. apply in_map_iff in Hy. destruct Hy as [b [<- Hb]].
    apply H; [left; auto|right; auto|]. intros ->; contradiction.
  - apply IH. intros x y Hx Hy. apply H; right; auto. Qed.
Lemma FOP_flat_map {A B} (R : A -> A -> Prop) (R' : B -> B -> Prop) (f : A -> list B) l :
  ForallOrdPairs R l -> (forall a, In a l -> ForallOrdPairs R' (f a)) ->
  (forall a b, In a l -> In b l -> R a b -> forall x y, In x (f a) -> In y (f b) -> R' x y) ->
  ForallOrdPairs R' (flat_map f l).
Proof. induction 1 as [|a l Ha Hl IH]; intros H1 H2; simpl; [constructor|].
  apply FOP_app.
  - apply H1; left; auto.
  - apply IH; [intros; apply H1; right; auto|intros; eapply H2; eauto; right; auto].
  - intros x y Hx Hy. apply in_flat_map in Hy. destruct Hy as [b [Hb Hy]].
    rewrite Forall_forall in Ha. eapply (H2 a b); eauto; [left; auto|right; auto]. Qed.

Lemma complete_rep tm tidx D P cs : NoDup tidx -> incl D tidx -> local D P ->
  (forall g, P g -> compat_on tm D g) -> Rep D P cs ->
  Rep tidx (fun g => P g /\ compat_on tm tidx g) (flat_map (complete tm tidx) cs).
Proof. intros Hnd Hincl Hloc HPc [S C U].
  (* facts about one variant *)
  assert (Hmc_nd : forall m, NoDup (miss_contr tm (missing tidx m))).
  { intros m. unfold miss_contr, missing. apply NoDup_filter', NoDup_filter'; auto. }
  assert (Hmc : forall m y, In y (miss_contr tm (missing tidx m)) ->
            In y tidx /\ ~ sdom m y /\ tlookup tm y = None).
  { intros m y Hy. apply miss_contr_In in Hy. destruct Hy as [H1 H2]. apply missing_In in H1. tauto. }
  assert (Hdisj : forall m g0 var, agrees m g0 ->
            forall y, In y (sa (variant tm tidx m var)) -> ~ In y (sb (variant tm tidx m var))).
  { intros m g0 var Hag y Ha Hb. apply variant_sa in Ha. apply variant_sb in Hb.
    destruct Ha as [Ha|[Ha|[Ha1 Ha2]]], Hb as [Hb|[Hb|[Hb1 Hb2]]].
    - pose proof (combine_functional _ _ _ _ _ (Hmc_nd m) Ha Hb). discriminate.
    - apply in_combine_r in Ha. apply Hmc in Ha. apply (proj1 (proj2 Ha)). right; auto.
    - apply in_combine_r in Ha. apply Hmc in Ha. destruct Ha as [_ [_ Ha]]. congruence.
    - apply in_combine_r in Hb. apply Hmc in Hb. apply (proj1 (proj2 Hb)). left; auto.
    - eapply agrees_disj; eauto.
    - apply missing_In in Hb1. apply (proj2 Hb1). left; auto.
    - apply in_combine_r in Hb. apply Hmc in Hb. destruct Hb as [_ [_ Hb]]. congruence.
    - apply missing_In in Ha1. apply (proj2 Ha1). right; auto.
    - congruence. }
  assert (Hdom : forall m var, (forall x, sdom m x <-> In x D) ->
            length var = length (miss_contr tm (missing tidx m)) ->
            forall x, sdom (variant tm tidx m var) x <-> In x tidx).
  { intros m var Hd Hlen x. unfold sdom. rewrite variant_sa, variant_sb. split.
    - intros [[H|[H|[H _]]]|[H|[H|[H _]]]].
      + apply in_combine_r in H. apply Hmc in H. tauto.
      + apply Hincl, Hd. left; auto.
      + apply missing_In in H. tauto.
      + apply in_combine_r in H. apply Hmc in H. tauto.
      + apply Hincl, Hd. right; auto.
      + apply missing_In in H. tauto.
    - intros Hx. destruct (in_dec index_eq_dec x (sa m)) as [Ha|Ha]; [tauto|].
      destruct (in_dec index_eq_dec x (sb m)) as [Hb|Hb]; [tauto|].
      assert (Hmiss : In x (missing tidx m)) by (apply missing_In; unfold sdom; tauto).
      destruct (tlookup tm x) as [[|]|] eqn:El; [tauto|tauto|].
      assert (Hxc : In x (miss_contr tm (missing tidx m))) by (apply miss_contr_In; auto).
      destruct (in_combine_r_ex var _ x Hlen Hxc) as [[|] Hs]; tauto. }
  split.
  - intros v Hv. apply in_flat_map in Hv. destruct Hv as [m [Hm Hv]].
    rewrite complete_true_eq in Hv. apply in_map_iff in Hv. destruct Hv as [var [<- Hvar]].
    apply all_blocks_In in Hvar. destruct (S m Hm) as [Hd [g0 [Hp0 Hag0]]].
    split; [apply Hdom; auto|].
    set (v := variant tm tidx m var).
    exists (fun x => if imem x (sb v) then SB else SA).
    assert (Hagv : agrees v (fun x => if imem x (sb v) then SB else SA)).
    { split; intros x Hx.
      - destruct (imem x (sb v)) eqn:E; [|reflexivity]. apply imem_In in E.
        exfalso. eapply (Hdisj m g0 var Hag0); eauto.
      - assert (E : imem x (sb v) = true) by (apply imem_In; auto). rewrite E; reflexivity. }
    assert (HeqD : forall x, In x D -> g0 x = (if imem x (sb v) then SB else SA)).
    { intros x Hx. apply Hd in Hx. destruct Hx as [Hx|Hx].
      - rewrite (proj1 Hag0 x Hx). symmetry. apply (proj1 Hagv). apply variant_sa. tauto.
      - rewrite (proj2 Hag0 x Hx). symmetry. apply (proj2 Hagv). apply variant_sb. tauto. }
    split; [split|exact Hagv].
    + apply (Hloc g0); auto.
    + intros x s Hx Hl. destruct (in_dec index_eq_dec x D) as [HxD|HxD].
      * rewrite <- (HeqD x HxD). eapply HPc; eauto.
      * assert (Hmiss : In x (missing tidx m)).
        { apply missing_In. split; [auto|]. intros Hs. apply HxD, Hd; auto. }
        destruct s; [apply (proj1 Hagv), variant_sa|apply (proj2 Hagv), variant_sb]; tauto.
  - intros g [Hp Hco]. destruct (C g Hp) as [m [Hm Hag]].
    set (mc := miss_contr tm (missing tidx m)).
    exists (variant tm tidx m (map g mc)). split.
    + apply in_flat_map. exists m. split; [auto|]. rewrite complete_true_eq. apply in_map.
      apply all_blocks_In. apply map_length.
    + split; intros y Hy; [apply variant_sa in Hy|apply variant_sb in Hy];
        destruct Hy as [Hy|[Hy|[Hy1 Hy2]]].
      * apply in_combine_map in Hy. auto.
      * apply (proj1 Hag); auto.
      * apply missing_In in Hy1. eapply Hco; eauto; tauto.
      * apply in_combine_map in Hy. auto.
      * apply (proj2 Hag); auto.
      * apply missing_In in Hy1. eapply Hco; eauto; tauto.
  - apply (FOP_flat_map NE NE); [exact U| |].
    + intros m Hm. rewrite complete_true_eq. apply FOP_map_nodup; [apply all_blocks_NoDup|].
      intros v1 v2 H1 H2 Hne Heq. apply Hne. apply all_blocks_In in H1, H2.
      destruct (S m Hm) as [Hd [g0 [_ Hag0]]].
      apply (combine_incl_eq v1 v2 (miss_contr tm (missing tidx m))); auto.
      intros s y Hin. pose proof (in_combine_r _ _ _ _ Hin) as Hy. apply Hmc in Hy.
      destruct Hy as [_ [Hnd' Hnone]].
      destruct s.
      * assert (Ha : In y (sa (variant tm tidx m v1))) by (apply variant_sa; tauto).
        apply (proj1 Heq) in Ha. apply variant_sa in Ha. destruct Ha as [Ha|[Ha|[_ Ha]]]; [auto| |congruence].
        exfalso; apply Hnd'; left; auto.
      * assert (Ha : In y (sb (variant tm tidx m v1))) by (apply variant_sb; tauto).
        apply (proj2 Heq) in Ha. apply variant_sb in Ha. destruct Ha as [Ha|[Ha|[_ Ha]]]; [auto| |congruence].
        exfalso; apply Hnd'; right; auto.
    + intros m1 m2 Hm1 Hm2 Hne v1 v2 Hv1 Hv2 Heq. apply Hne.
      rewrite complete_true_eq in Hv1, Hv2. apply in_map_iff in Hv1, Hv2.
      destruct Hv1 as [var1 [<- _]]. destruct Hv2 as [var2 [<- _]].
      destruct (S m1 Hm1) as [Hd1 _]. destruct (S m2 Hm2) as [Hd2 _].
      assert (Hkey : forall ma mb vara varb, (forall x, sdom ma x <-> In x D) -> (forall x, sdom mb x <-> In x D) ->
                sequiv (variant tm tidx ma vara) (variant tm tidx mb varb) ->
                (forall x, In x (sa ma) -> In x (sa mb)) /\ (forall x, In x (sb ma) -> In x (sb mb))).
      { intros ma mb vara varb Hda Hdb Hq. split; intros x Hx.
        - assert (HxD : sdom mb x) by (apply Hdb, Hda; left; auto).
          assert (Ha : In x (sa (variant tm tidx ma vara))) by (apply variant_sa; tauto).
          apply (proj1 Hq) in Ha. apply variant_sa in Ha. destruct Ha as [Ha|[Ha|[Ha _]]]; [|auto|].
          + apply in_combine_r in Ha. apply Hmc in Ha. tauto.
          + apply missing_In in Ha. tauto.
        - assert (HxD : sdom mb x) by (apply Hdb, Hda; right; auto).
          assert (Ha : In x (sb (variant tm tidx ma vara))) by (apply variant_sb; tauto).
          apply (proj2 Hq) in Ha. apply variant_sb in Ha. destruct Ha as [Ha|[Ha|[Ha _]]]; [|auto|].
          + apply in_combine_r in Ha. apply Hmc in Ha. tauto.
          + apply missing_In in Ha. tauto. }
      destruct (Hkey m1 m2 var1 var2 Hd1 Hd2 Heq) as [K1 K2].
      destruct (Hkey m2 m1 var2 var1 Hd2 Hd1 (sequiv_sym _ _ Heq)) as [K3 K4].
      split; intros x; split; auto. Qed.

(* ------------------------------------------------------------------ *)
(* integrate_enumerates                                                 *)
(* ------------------------------------------------------------------ *)
(* the specification: total spin functions on the term's indices that are
   compatible with the target spins and put every object with a block table on
   an allowed block *)
Definition good (tm : tmap) (objs : list sobj) (tidx : list index) (g : index -> sp) : Prop :=
  compat_on tm tidx g /\ forall ix tb, In (ix, Some tb) objs -> In (map g ix) tb.
Definition idx_closed (objs : list sobj) (tidx : list index) : Prop :=
  forall ix tb, In (ix, Some tb) objs -> incl ix tidx.

Lemma tabled_In objs ix tb : In (ix, tb) (tabled objs) <-> In (ix, Some tb) objs.
Proof. unfold tabled. rewrite in_flat_map. split.
  - intros [[ix' [tb'|]] [H1 H2]]; simpl in H2; [|contradiction].
    destruct H2 as [H2|[]]. inversion H2; subst; auto.
  - intros H. exists (ix, Some tb). split; [auto|left; reflexivity]. Qed.

Lemma good_P_of tm objs tidx g : idx_closed objs tidx ->
  (good tm objs tidx g <-> P_of tm (tabled objs) g /\ compat_on tm tidx g).
Proof. intros Hcl. unfold good, P_of, Pobj. split.
  - intros [Hc Ht]. split; [|auto]. intros ix tb Hin. apply tabled_In in Hin. split; [|auto].
    intros x s Hx Hl. eapply Hc; eauto. eapply Hcl; eauto.
  - intros [Hp Hc]. split; [auto|]. intros ix tb Hin. apply tabled_In in Hin. apply (Hp ix tb Hin). Qed.

Lemma rep_final tm objs tidx : wf_objs objs -> NoDup tidx -> idx_closed objs tidx ->
  exists R, integrate_objs tm objs tidx = Ok R /\ Rep tidx (good tm objs tidx) R.
Proof. intros Hwf Hnd Hcl.
  assert (HDincl : incl (D_of (tabled objs)) tidx).
  { intros x Hx. unfold D_of in Hx. apply in_flat_map in Hx. destruct Hx as [[ix tb] [Hin Hx]].
    apply tabled_In in Hin. eapply Hcl; eauto. }
  assert (HPc : forall g, P_of tm (tabled objs) g -> compat_on tm (D_of (tabled objs)) g).
  { intros g Hp x s Hx Hl. unfold D_of in Hx. apply in_flat_map in Hx. destruct Hx as [[ix tb] [Hin Hx]].
    destruct (Hp ix tb Hin) as [Hc _]. eapply Hc; eauto. }
  assert (Hempty : forall (Hno : forall g, ~ P_of tm (tabled objs) g), Rep tidx (good tm objs tidx) []).
  { intros Hno. split; [intros m []| |constructor].
    intros g Hg. exfalso. apply (Hno g). apply good_P_of in Hg; tauto. }
  destruct tidx as [|x0 tidx'] eqn:Et.
  - (* no indices at all *)
    exists [sempty]. split; [reflexivity|]. split.
    + intros m [<-|[]]. split; [unfold sdom; simpl; tauto|]. exists (fun _ => SA).
      split; [|split; intros x []]. split; [intros x s []|].
      intros ix tb Hin. pose proof (Hcl ix tb Hin) as Hi. destruct (Hwf ix tb Hin) as [_ [_ Hne]].
      destruct ix as [|y ix]; [contradiction|exfalso; apply (Hi y); left; reflexivity].
    + intros g _. exists sempty. split; [left; reflexivity|split; intros x []].
    + constructor; constructor.
  - rewrite <- Et in *. unfold integrate_objs. rewrite Et. rewrite <- Et.
    destruct (term_maps_true_ok tm objs) as [o Ho]. rewrite Ho. simpl.
    pose proof (term_maps_rep tm objs Hwf o Ho) as Hr. destruct o as [ls|].
    + pose proof (combine_maps_rep tm (tabled objs) ls Hr) as Hc.
      destruct (combine_maps ls) as [cs|].
      * eexists; split; [reflexivity|].
        pose proof (complete_rep tm tidx _ _ cs Hnd HDincl (local_P_of tm (tabled objs)) HPc Hc) as Hf.
        eapply rep_ext; [| |exact Hf]; [tauto|]. intros g. symmetry. apply good_P_of; auto.
      * exists []. split; [reflexivity|]. apply Hempty; auto.
    + exists []. split; [reflexivity|]. apply Hempty; auto. Qed.

Lemma FOP_NoDup_map {A B} (R : A -> A -> Prop) (f : A -> B) l : ForallOrdPairs R l ->
  (forall a b, In a l -> In b l -> R a b -> f a <> f b) -> NoDup (map f l).
Proof. induction 1 as [|a l Ha Hl IH]; intros H; simpl; constructor.
  - intros Hin. apply in_map_iff in Hin. destruct Hin as [b [Hb1 Hb2]].
    rewrite Forall_forall in Ha. apply (H a b); [left; auto|right; auto|auto|auto].
  - apply IH. intros x y Hx Hy. apply H; right; auto. Qed.

Lemma assign_list_agrees tidx m g : (forall x, sdom m x <-> In x tidx) -> agrees m g ->
  assign_list tidx m = map (fun x => Some (g x)) tidx.
Proof. intros Hd Ha. unfold assign_list. apply map_ext_in. intros x Hx.
  apply agrees_sspin; [auto|apply Hd; auto]. Qed.

Lemma map_some_inj {A} (g1 g2 : A -> sp) l :
  map (fun x => Some (g1 x)) l = map (fun x => Some (g2 x)) l -> forall x, In x l -> g1 x = g2 x.
Proof. induction l as [|y l IH]; simpl; intros H x Hx; [contradiction|]. inversion H.
  destruct Hx as [<-|Hx]; auto. Qed.

Theorem integrate_enumerates tm objs tidx : wf_objs objs -> NoDup tidx -> idx_closed objs tidx ->
  exists R, integrate_objs tm objs tidx = Ok R /\
    NoDup (map (assign_list tidx) R) /\
    forall a, In a (map (assign_list tidx) R) <->
              exists g, good tm objs tidx g /\ a = map (fun x => Some (g x)) tidx.
Proof. intros Hwf Hnd Hcl. destruct (rep_final tm objs tidx Hwf Hnd Hcl) as [R [HR [S C U]]].
  exists R. split; [exact HR|]. split.
  - apply (FOP_NoDup_map NE); [exact U|]. intros m1 m2 H1 H2 Hne Heq. apply Hne.
    destruct (S m1 H1) as [Hd1 [g1 [_ Ha1]]]. destruct (S m2 H2) as [Hd2 [g2 [_ Ha2]]].
    rewrite (assign_list_agrees tidx m1 g1 Hd1 Ha1), (assign_list_agrees tidx m2 g2 Hd2 Ha2) in Heq.
    pose proof (map_some_inj g1 g2 tidx Heq) as Hg.
    assert (Hk : forall ma mb ga gb, (forall x, sdom ma x <-> In x tidx) -> (forall x, sdom mb x <-> In x tidx) ->
              agrees ma ga -> agrees mb gb -> (forall x, In x tidx -> ga x = gb x) ->
              (forall x, In x (sa ma) -> In x (sa mb)) /\ (forall x, In x (sb ma) -> In x (sb mb))).
    { intros ma mb ga gb Hda Hdb Haa Hab Hgg. split; intros x Hx.
      - assert (Ht : In x tidx) by (apply Hda; left; auto).
        destruct (proj2 (Hdb x) Ht) as [Hb|Hb]; [auto|].
        pose proof (proj1 Haa x Hx). pose proof (proj2 Hab x Hb). rewrite (Hgg x Ht) in *. congruence.
      - assert (Ht : In x tidx) by (apply Hda; right; auto).
        destruct (proj2 (Hdb x) Ht) as [Hb|Hb]; [|auto].
        pose proof (proj2 Haa x Hx). pose proof (proj1 Hab x Hb). rewrite (Hgg x Ht) in *. congruence. }
    destruct (Hk m1 m2 g1 g2 Hd1 Hd2 Ha1 Ha2 Hg) as [K1 K2].
    destruct (Hk m2 m1 g2 g1 Hd2 Hd1 Ha2 Ha1 (fun x Hx => eq_sym (Hg x Hx))) as [K3 K4].
    split; intros x; split; auto.
  - intros a. split.
    + intros Hin. apply in_map_iff in Hin. destruct Hin as [m [<- Hm]].
      destruct (S m Hm) as [Hd [g [Hg Ha]]]. exists g. split; [auto|]. apply assign_list_agrees; auto.
    + intros [g [Hg ->]]. destruct (C g Hg) as [m [Hm Ha]]. apply in_map_iff. exists m. split; [|auto].
      destruct (S m Hm) as [Hd _]. apply assign_list_agrees; auto. Qed.

Lemma nodup_b_sound l : nodup_b l = true -> NoDup l.
Proof. induction l as [|b l IH]; simpl; [constructor|]. rewrite andb_true_iff, negb_true_iff.
  intros [H1 H2]. constructor; [|auto]. intros Hin. unfold bmem in H1.
  assert (existsb (block_eqb b) l = true).
  { apply existsb_exists. exists b. split; [auto|apply block_eqb_eq; reflexivity]. }
  congruence. Qed.
Lemma wf_objs_b_sound objs : wf_objs_b objs = true -> wf_objs objs.
Proof. unfold wf_objs_b. rewrite forallb_forall. intros H ix tb Hin. specialize (H _ Hin). simpl in H.
  rewrite !andb_true_iff, negb_true_iff in H. destruct H as [[H1 H2] H3]. split; [|split].
  - apply nodup_b_sound; auto.
  - intros bl Hbl. rewrite forallb_forall in H2. apply Nat.eqb_eq. apply H2; auto.
  - destruct ix; [discriminate|discriminate]. Qed.

(* ---------- integrate_spin never raises; regression examples ---------- *)
Theorem integrate_total tm objs tidx : exists R, integrate_objs tm objs tidx = Ok R.
Proof. unfold integrate_objs. destruct tidx as [|x0 t0]; [eexists; reflexivity|].
  destruct (term_maps_true_ok tm objs) as [o Ho]. rewrite Ho. simpl.
  destruct o as [ls|]; [|eexists; reflexivity].
  destruct (combine_maps ls); eexists; reflexivity. Qed.

Definition w_i := Idx Occ NoSpin 105 0 0.
Definition w_j := Idx Occ NoSpin 106 0 0.
Definition w_a := Idx Virt NoSpin 97 0 0.

(* the inputs on which the code violated the property before the repairs *)
(* sum_i f_ii : no object with a table; both spins of i *)
Theorem regression_no_table :
  rbind (integrate_objs [] [([w_i; w_i], None)] [w_i]) (fun R => Ok (map (assign_list [w_i]) R)) =
  Ok [[Some SA]; [Some SB]].
Proof. vm_compute. reflexivity. Qed.
(* delta_ij e_a, targets i, j alpha: a gets both spins *)
Theorem regression_shallow_copy :
  rbind (integrate_objs [(w_i, SA); (w_j, SA)] [([w_i; w_j], Some delta_blocks); ([w_a], None)] [w_i; w_j; w_a])
        (fun R => Ok (map (assign_list [w_i; w_j; w_a]) R)) =
  Ok [[Some SA; Some SA; Some SA]; [Some SA; Some SA; Some SB]].
Proof. vm_compute. reflexivity. Qed.
(* -1/2 V^{ij}_{ij}: the blocks abba, baab give i two spins and are skipped *)
Theorem regression_repeated_index :
  rbind (integrate_objs [] [([w_i; w_j; w_i; w_j], Some eri_blocks)] [w_i; w_j])
        (fun R => Ok (map (assign_list [w_i; w_j]) R)) =
  Ok [[Some SA; Some SA]; [Some SA; Some SB]; [Some SB; Some SA]; [Some SB; Some SB]].
Proof. vm_compute. reflexivity. Qed.
