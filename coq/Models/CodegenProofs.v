(* C17 - proofs about the code-generator model (Models/Codegen.v). *)
From Coq Require Import ZArith NArith QArith List Bool String Ascii Lia Permutation.
From ADC Require Import Core.Scalar Core.Index Core.Expr Core.Swap Models.Codegen.
Import ListNotations.
Local Opaque iname.
Close Scope Q_scope.
Close Scope string_scope.
Open Scope list_scope.

(* ------------------------------------------------------------------ *)
(** * Index names as letters *)

(* the assignment of indices induced by an assignment of letters *)
Definition renv (p : lenv) : env := fun x => p (iname x).
(* index names are pairwise distinct on D *)
Definition inj_on (D : list index) := forall x y, In x D -> In y D -> iname x = iname y -> x = y.

Lemma names_inj_sound D : names_inj D = true -> inj_on D.
Proof. unfold names_inj, inj_on. intros H x y Hx Hy E.
  rewrite forallb_forall in H. specialize (H x Hx). rewrite forallb_forall in H.
  specialize (H y Hy). rewrite E, String.eqb_refl in H. simpl in H.
  apply index_eqb_eq; exact H. Qed.
Lemma inj_on_incl D D' : inj_on D -> incl D' D -> inj_on D'.
Proof. intros H Hi x y Hx Hy. apply H; apply Hi; assumption. Qed.

Lemma str_mem_In s l : str_mem s l = true <-> In s l.
Proof. induction l as [|x r IH]; simpl; [split; [discriminate|tauto]|].
  rewrite orb_true_iff, IH, String.eqb_eq. split; intros [H|H]; auto. Qed.

Lemma str_mem_names D x l : inj_on D -> In x D -> incl l D ->
  str_mem (iname x) (map iname l) = imem x l.
Proof. intros HD Hx Hl. induction l as [|y r IH]; simpl; [reflexivity|].
  rewrite IH by (intros z Hz; apply Hl; right; exact Hz). f_equal.
  destruct (index_eqb x y) eqn:E.
  - apply index_eqb_eq in E; subst. apply String.eqb_refl.
  - apply String.eqb_neq. intros En. apply index_eqb_neq in E. apply E.
    apply HD; auto. apply Hl; left; reflexivity. Qed.

Lemma sdedup_acc_names D seen l : inj_on D -> incl seen D -> incl l D ->
  sdedup_acc (map iname seen) (map iname l) = map iname (inodup_acc seen l).
Proof. intros HD. revert seen. induction l as [|x r IH]; intros seen Hs Hl; simpl; [reflexivity|].
  assert (Hx : In x D) by (apply Hl; left; reflexivity).
  assert (Hr : incl r D) by (intros z Hz; apply Hl; right; exact Hz).
  rewrite (str_mem_names D) by assumption.
  destruct (imem x seen); [apply IH; assumption|].
  simpl. f_equal. apply (IH (x :: seen)); [|assumption].
  intros z [<-|Hz]; auto. Qed.
Lemma sdedup_names D l : inj_on D -> incl l D -> sdedup (map iname l) = map iname (inodup l).
Proof. intros HD Hl. apply (sdedup_acc_names D [] l); auto. intros z []. Qed.

Lemma filter_names D tg l : inj_on D -> incl tg D -> incl l D ->
  filter (fun s => negb (str_mem s (map iname tg))) (map iname l) =
  map iname (filter (fun x => negb (imem x tg)) l).
Proof. intros HD Ht Hl. induction l as [|x r IH]; simpl; [reflexivity|].
  assert (Hr : incl r D) by (intros z Hz; apply Hl; right; exact Hz).
  rewrite (str_mem_names D) by (auto; apply Hl; left; reflexivity).
  destruct (imem x tg); simpl; rewrite IH by assumption; reflexivity. Qed.

Section Sem.
Variable S : Scalar.
Variable T : tmodel S.
Add Ring KRc : (Kring S).
Notation "0" := (k0 S). Notation "1" := (k1 S).
Infix "+" := (kadd S). Infix "*" := (kmul S).
Notation irange := (irange S T).
Notation sum_over := (sum_over S T).

Lemma renv_lupd D p x o y : inj_on D -> In x D -> In y D ->
  renv (lupd p (iname x) o) y = upd (renv p) x o y.
Proof. intros HD Hx Hy. unfold renv, lupd, upd.
  destruct (index_eqb y x) eqn:E.
  - apply index_eqb_eq in E; subst. rewrite String.eqb_refl; reflexivity.
  - destruct (String.eqb (iname y) (iname x)) eqn:E2; [|reflexivity].
    apply String.eqb_eq in E2. apply HD in E2; auto. subst. rewrite index_eqb_refl in E; discriminate. Qed.

(** summing over letters = summing over the indices they name *)
Lemma lsum_sum_over D xs dim F F' :
  inj_on D -> incl xs D -> depends_on S D F' ->
  (forall x, In x xs -> dim (iname x) = irange x) ->
  (forall p, F p = F' (renv p)) ->
  forall p, lsum S (map iname xs) dim p F = sum_over xs (renv p) F'.
Proof. intros HD Hxs HF Hdim HFF. induction xs as [|x r IH]; intros p; simpl; [apply HFF|].
  rewrite Hdim by (left; reflexivity). apply ksum_ext. intros o _.
  rewrite IH; [|intros z Hz; apply Hxs; right; exact Hz|intros z Hz; apply Hdim; right; exact Hz].
  apply (sum_over_agree S T D); [exact HF|]. intros y Hy _.
  apply (renv_lupd D); auto. apply Hxs; left; reflexivity. Qed.

Lemma find_dim_names D ix x : inj_on D -> incl ix D -> In x D ->
  find_dim (iname x) (map iname ix) (map irange ix) =
  if imem x ix then Some (irange x) else None.
Proof. intros HD Hi Hx. induction ix as [|y r IH]; simpl; [reflexivity|].
  assert (Hy : In y D) by (apply Hi; left; reflexivity).
  assert (Hr : incl r D) by (intros z Hz; apply Hi; right; exact Hz).
  destruct (String.eqb (iname y) (iname x)) eqn:E.
  - apply String.eqb_eq in E. apply HD in E; auto. subst. rewrite index_eqb_refl; reflexivity.
  - destruct (index_eqb x y) eqn:E2.
    + apply index_eqb_eq in E2; subst. rewrite String.eqb_refl in E; discriminate.
    + simpl. apply IH; exact Hr. Qed.

Definition dims_ok (ix : list index) (a : arr S) : Prop := adims S a = map irange ix.

Lemma letter_dim_names D ops args x : inj_on D -> incl (List.concat ops) D ->
  In x (List.concat ops) -> Forall2 dims_ok ops args ->
  letter_dim (map (map iname) ops) (map (adims S) args) (iname x) = irange x.
Proof. intros HD Hi Hx HF. induction HF as [|ix a ops args Ha HF IH]; simpl in *; [destruct Hx|].
  assert (H1 : incl ix D) by (intros z Hz; apply Hi; apply in_or_app; left; exact Hz).
  assert (H2 : incl (List.concat ops) D) by (intros z Hz; apply Hi; apply in_or_app; right; exact Hz).
  unfold dims_ok in Ha. rewrite Ha. rewrite (find_dim_names D) by (auto; apply Hi; exact Hx).
  destruct (imem x ix) eqn:E; [reflexivity|].
  apply IH; [exact H2|]. apply in_app_or in Hx. destruct Hx as [Hx|Hx]; [|exact Hx].
  apply imem_In in Hx. congruence. Qed.

Lemma renv_lbind tg r p0 x : inj_on tg -> In x tg ->
  renv (lbind (map iname tg) (map r tg) p0) x = r x.
Proof. intros HD. induction tg as [|t rest IH]; intros Hx; [destruct Hx|]. simpl.
  unfold renv, lupd. fold (renv (lbind (map iname rest) (map r rest) p0) x).
  destruct (String.eqb (iname x) (iname t)) eqn:E.
  - apply String.eqb_eq in E. apply HD in E; [subst; reflexivity|exact Hx|left; reflexivity].
  - destruct Hx as [->|Hx]; [rewrite String.eqb_refl in E; discriminate|].
    apply IH; [|exact Hx]. eapply inj_on_incl; [exact HD|]. intros z Hz; right; exact Hz. Qed.

(* the product of the operand entries, as function of the index assignment *)
Definition ops_prod (ops : list (list index)) (args : list (arr S)) (r : env) : K S :=
  kprod (map (fun ia => aval S (snd ia) (map r (fst ia))) (combine ops args)).

Lemma ops_prod_depends ops args : depends_on S (List.concat ops) (ops_prod ops args).
Proof. unfold depends_on, ops_prod. revert args. induction ops as [|ix ops IH]; intros args r1 r2 H; simpl; [reflexivity|].
  destruct args as [|a args]; simpl; [reflexivity|]. simpl in H. apply agree_app in H. destruct H as [H1 H2].
  rewrite (map_agree _ _ _ H1). f_equal. apply IH; exact H2. Qed.

Lemma ops_prod_names ops args p :
  kprod (map (fun sa => aval S (snd sa) (map p (fst sa))) (combine (map (map iname) ops) args)) =
  ops_prod ops args (renv p).
Proof. unfold ops_prod. revert args. induction ops as [|ix ops IH]; intros args; simpl; [reflexivity|].
  destruct args as [|a args]; simpl; [reflexivity|]. rewrite IH. rewrite map_map. reflexivity. Qed.

(** THE CORE: the einsum text emitted for one contraction step denotes the sum
    over the contracted indices of the product of the operand entries, with
    the result indexed in the target order, whenever index names are pairwise
    distinct *)
Theorem einsum_semantics D ops args tgt con :
  inj_on D -> incl (List.concat ops) D -> incl tgt D ->
  Forall2 dims_ok ops args ->
  NoDup con ->
  (forall x, In x con -> In x (List.concat ops) /\ ~ In x tgt) ->
  (forall x, In x tgt -> In x (List.concat ops)) ->
  (forall x, In x (List.concat ops) -> In x tgt \/ In x con) ->
  let R := einsum_val S (map (map iname) ops) (map iname tgt) args in
  adims S R = map irange tgt /\
  forall r, aval S R (map r tgt) = sum_over con r (ops_prod ops args).
Proof. intros HD Hops Htg Hdims Hnd Hcon Htgt Hcov R. split.
  - unfold R, einsum_val; simpl. rewrite map_map. apply map_ext_in. intros t Ht.
    apply (letter_dim_names D); auto.
  - intros r. unfold R, einsum_val; simpl.
    rewrite <- concat_map. rewrite (sdedup_names D) by assumption.
    rewrite (filter_names D) by (auto; intros z Hz; apply Hops; apply inodup_In; exact Hz).
    set (con' := filter (fun x => negb (imem x tgt)) (inodup (List.concat ops))).
    assert (Hc' : forall x, In x con' <-> In x (List.concat ops) /\ ~ In x tgt).
    { intros x. unfold con'. rewrite filter_In, inodup_In, negb_true_iff, imem_nIn. tauto. }
    rewrite (lsum_sum_over (List.concat ops) con' _ _ (ops_prod ops args)).
    + transitivity (sum_over con' r (ops_prod ops args)).
      * apply (sum_over_agree S T (List.concat ops)); [apply ops_prod_depends|].
        intros y Hy Hn. apply renv_lbind; [eapply inj_on_incl; eauto|].
        destruct (Hcov y Hy) as [H|H]; [exact H|]. exfalso. apply Hn. apply Hc'. split; [exact Hy|].
        apply Hcon; exact H.
      * apply (sum_over_perm S T (List.concat ops)); [apply ops_prod_depends| |].
        -- unfold con'. apply NoDup_filter. apply inodup_NoDup.
        -- apply NoDup_Permutation; [unfold con'; apply NoDup_filter; apply inodup_NoDup|exact Hnd|].
           intros x. rewrite Hc'. split; [intros [H1 H2]; destruct (Hcov x H1); tauto|apply Hcon].
    + eapply inj_on_incl; eauto.
    + intros x Hx. apply Hc' in Hx. tauto.
    + apply ops_prod_depends.
    + intros x Hx. apply Hc' in Hx. apply (letter_dim_names D); tauto.
    + intros p. apply ops_prod_names.
Qed.

(* ------------------------------------------------------------------ *)
(** * One contraction step, numpy backend *)

Variable cfg : tnames.
Variable tenv : string -> arr S.                     (* arrays bound to the printed names *)
Variable B : string -> list index -> env -> K S.     (* value of a base object (longname, indices) *)
Notation run_np := (run_np S tenv).
Notation stepval := (stepval S).

Lemma kprod_filter {A} (f : A -> K S) (p : A -> bool) l :
  kprod (map f l) = kprod (map f (filter p l)) * kprod (map f (filter (fun x => negb (p x)) l)).
Proof. induction l as [|x r IH]; simpl; [ring|]. destruct (p x); simpl; rewrite IH; ring. Qed.

(* the text cached for earlier steps evaluates to their values *)
Definition entry_ok (ce : string * cexpr) (av : string * stepval) : Prop :=
  fst ce = fst av /\ dims_ok (fst (snd av)) (run_np (snd ce)) /\
  forall r, aval S (run_np (snd ce)) (map r (fst (snd av))) = snd (snd av) r.
Definition cache_ok (cache : list (string * cexpr)) (acc : list (string * stepval)) : Prop :=
  Forall2 entry_ok cache acc.

Lemma lookup_cache_ok cache acc nm tv : cache_ok cache acc -> lookup nm acc = Some tv ->
  exists e, lookup nm cache = Some e /\ dims_ok (fst tv) (run_np e) /\
  forall r, aval S (run_np e) (map r (fst tv)) = snd tv r.
Proof. intros H. induction H as [|[k e] [k' v] cache acc [Hk [Hd Hv]] H IH]; simpl; [discriminate|].
  simpl in *. subst k'. destruct (String.eqb k nm); [|exact IH].
  intros E; inversion E; subst. exists e; auto. Qed.

(* hypothesis on one operand: an earlier result used with exactly its target
   indices, or a base tensor whose printed name is bound to its value *)
Definition op_ok (acc : list (string * stepval)) (op : string * list index) : Prop :=
  if is_contraction (fst op) then exists v, lookup (fst op) acc = Some (snd op, v)
  else dims_ok (snd op) (tenv (translate_adcc cfg (fst op) (snd op))) /\
  forall r, aval S (tenv (translate_adcc cfg (fst op) (snd op))) (map r (snd op)) = B (fst op) (snd op) r.

Definition opR (acc : list (string * stepval)) (op : string * list index) (e : cexpr) : Prop :=
  dims_ok (snd op) (run_np e) /\
  forall r, aval S (run_np e) (map r (snd op)) = operand_val S B acc op r.

Lemma iname_len1 x : N.eqb (inum x) 0 = true -> String.length (iname x) = 1%nat.
Proof. Local Transparent iname. unfold iname, chr. intros ->. reflexivity. Local Opaque iname. Qed.
Lemma single_not_multi l : single_letter l = true -> multi_letter l = false.
Proof. unfold single_letter, multi_letter. induction l as [|x r IH]; simpl; [reflexivity|].
  intros H. apply andb_true_iff in H. destruct H as [H1 H2].
  rewrite (iname_len1 x H1). simpl. apply IH; exact H2. Qed.

Lemma format_operand_np cache acc con op : cache_ok cache acc -> op_ok acc op ->
  single_letter (snd op) = true ->
  exists e, format_operand cfg Einsum cache con op = Ok e /\ opR acc op e.
Proof. intros Hc Ho Hs. destruct op as [nm idx]. unfold op_ok, opR, operand_val, format_operand in *. simpl in *.
  destruct (is_contraction nm).
  - destruct Ho as [v Hv]. destruct (lookup_cache_ok _ _ _ _ Hc Hv) as [e [He [Hd Hval]]].
    rewrite He. exists e. split; [reflexivity|]. rewrite Hv. simpl in *. auto.
  - rewrite (single_not_multi idx Hs). eexists; split; [reflexivity|]. simpl. exact Ho. Qed.

Lemma rmap_operands cache acc con ops : cache_ok cache acc -> Forall (op_ok acc) ops ->
  (forall op, In op ops -> single_letter (snd op) = true) ->
  exists es, rmap (format_operand cfg Einsum cache con) ops = Ok es /\ Forall2 (opR acc) ops es.
Proof. intros Hc H. induction H as [|op ops Ho H IH]; intros Hsl; simpl; [exists []; split; [reflexivity|constructor]|].
  destruct (format_operand_np cache acc con op Hc Ho (Hsl op (or_introl eq_refl))) as [e [He HR]]. rewrite He. simpl.
  destruct IH as [es [Hes HF]]; [intros op' Hop'; apply Hsl; right; exact Hop'|]. rewrite Hes. simpl. exists (e :: es). split; [reflexivity|constructor; assumption]. Qed.

Definition nonempty (p : cexpr * list index) : bool := negb (is_nil (snd p)).

(* splitting the operands of a step into tensors and factors *)
Lemma split_operands acc ops es : Forall2 (opR acc) ops es ->
  let tagged := combine es (map snd ops) in
  let tens := filter nonempty tagged in
  let facs := filter (fun p => is_nil (snd p)) tagged in
  Forall2 dims_ok (map snd tens) (map run_np (map fst tens)) /\
  List.concat (map snd tens) = List.concat (map snd ops) /\
  Forall (fun e => adims S (run_np e) = []) (map fst facs) /\
  forall r, kprod (map (fun op => operand_val S B acc op r) ops) =
            kprod (map (fun e => aval S (run_np e) []) (map fst facs)) *
            ops_prod (map snd tens) (map run_np (map fst tens)) r.
Proof. intros H. induction H as [|op e ops es [Hd Hv] H IH]; simpl.
  - repeat split; try constructor. intros r. unfold ops_prod; simpl. ring.
  - destruct IH as [I1 [I2 [I3 I4]]]. unfold nonempty at 1 2 3 4. simpl.
    destruct (snd op) as [|i0 ix] eqn:E; simpl.
    + split; [exact I1|split; [exact I2|split]].
      * constructor; [|exact I3]. unfold dims_ok in Hd. simpl in Hd. exact Hd.
      * intros r. rewrite I4. rewrite <- (Hv r). simpl. ring.
    + split; [|split; [|split]].
      * constructor; [exact Hd|exact I1].
      * rewrite I2. reflexivity.
      * exact I3.
      * intros r. rewrite I4. rewrite <- (Hv r). unfold ops_prod. simpl. ring.
Qed.

Lemma fold_mul_factors fs a xs : Forall (fun f => adims S f = []) fs ->
  List.length xs = List.length (adims S a) ->
  let R := fold_right (arr_mul S) (arr_one S) (fs ++ [a]) in
  adims S R = adims S a /\ aval S R xs = kprod (map (fun f => aval S f []) fs) * aval S a xs.
Proof. intros H Hl. induction H as [|f fs Hf H IH]; simpl.
  - unfold arr_mul. destruct (adims S a) as [|d ds] eqn:E; simpl.
    + destruct xs; [|discriminate]. split; [reflexivity|ring].
    + split; [reflexivity|ring].
  - destruct IH as [I1 I2]. simpl in I1, I2.
    set (R' := fold_right (arr_mul S) (arr_one S) (fs ++ [a])) in *.
    unfold arr_mul. rewrite Hf. simpl. split; [exact I1|]. rewrite I2. ring. Qed.
Lemma fold_mul_only_factors fs : Forall (fun f => adims S f = []) fs ->
  let R := fold_right (arr_mul S) (arr_one S) fs in
  adims S R = [] /\ aval S R [] = kprod (map (fun f => aval S f []) fs).
Proof. intros H. induction H as [|f fs Hf H IH]; simpl; [split; reflexivity|].
  destruct IH as [I1 I2]. simpl in I1, I2.
  set (R' := fold_right (arr_mul S) (arr_one S) fs) in *.
  unfold arr_mul. rewrite Hf. simpl. split; [exact I1|]. rewrite I2. reflexivity. Qed.

(* single-letter names: the concatenated subscript string determines the names *)
Lemma iname_single x : N.eqb (inum x) 0 = true -> iname x = chr (iletter x).
Proof. Local Transparent iname. unfold iname. intros ->. unfold chr. simpl. reflexivity. Local Opaque iname. Qed.
Lemma cat_single_inj l1 l2 : single_letter l1 = true -> single_letter l2 = true ->
  cat (map iname l1) = cat (map iname l2) -> map iname l1 = map iname l2.
Proof. unfold single_letter. revert l2. induction l1 as [|x r IH]; intros [|y r2]; simpl; intros H1 H2 E.
  - reflexivity.
  - apply andb_true_iff in H2; destruct H2 as [Hy _]. rewrite (iname_single y Hy) in E. unfold cat, chr in E.
    simpl in E. destruct r2; simpl in E; discriminate.
  - apply andb_true_iff in H1; destruct H1 as [Hx _]. rewrite (iname_single x Hx) in E. unfold cat, chr in E.
    simpl in E. destruct r; simpl in E; discriminate.
  - apply andb_true_iff in H1; destruct H1 as [Hx H1]. apply andb_true_iff in H2; destruct H2 as [Hy H2].
    assert (Ec : forall a (l : list string), cat (a :: l) = (a ++ cat l)%string).
    { intros a l. unfold cat. simpl. destruct l; simpl; [|reflexivity].
      induction a as [|c a IHa]; simpl; [reflexivity|rewrite <- IHa; reflexivity]. }
    assert (E2 := E). rewrite !Ec in E2. rewrite (iname_single x Hx), (iname_single y Hy) in *.
    unfold chr in E2. simpl in E2. inversion E2 as [[Ea Eb]]. f_equal; [unfold chr; rewrite Ea; reflexivity|].
    apply IH; assumption. Qed.

Lemma inodupb_NoDup l : inodupb l = true -> NoDup l.
Proof. induction l as [|x r IH]; simpl; intros H; [constructor|].
  apply andb_true_iff in H; destruct H as [H1 H2]. constructor; [|apply IH; exact H2].
  apply negb_true_iff in H1. apply imem_nIn; exact H1. Qed.

Lemma map_iname_inj D l1 l2 : inj_on D -> incl l1 D -> incl l2 D ->
  map iname l1 = map iname l2 -> l1 = l2.
Proof. intros HD. revert l2. induction l1 as [|x r IH]; intros [|y r2] H1 H2 E; simpl in E; try discriminate; [reflexivity|].
  assert (Ea : iname x = iname y) by (apply (f_equal (hd EmptyString)) in E; exact E).
  assert (Eb : map iname r = map iname r2) by (apply (f_equal (@tl _)) in E; exact E).
  f_equal.
  - apply HD; [apply H1; left; reflexivity|apply H2; left; reflexivity|exact Ea].
  - apply IH; [intros z Hz; apply H1; right; exact Hz|intros z Hz; apply H2; right; exact Hz|exact Eb]. Qed.
Lemma single_letter_incl D l : single_letter D = true -> incl l D -> single_letter l = true.
Proof. unfold single_letter. rewrite !forallb_forall. intros H Hi x Hx. apply H; apply Hi; exact Hx. Qed.

Record step_facts (st : cstep) : Prop := {
  sf_ndc : NoDup (cs_con st);
  sf_con : forall x, In x (cs_con st) -> In x (step_idx st) /\ ~ In x (cs_tgt st);
  sf_tgt : forall x, In x (cs_tgt st) -> In x (step_idx st);
  sf_cov : forall x, In x (step_idx st) -> In x (cs_tgt st) \/ In x (cs_con st) }.
Lemma step_wf_facts st : step_wf st = true -> step_facts st.
Proof. unfold step_wf. rewrite !andb_true_iff. intros [[[[H1 H2] H3] H4] H5].
  rewrite forallb_forall in H3, H4, H5. constructor.
  - apply inodupb_NoDup; exact H1.
  - intros x Hx. specialize (H3 x Hx). apply andb_true_iff in H3. destruct H3 as [Ha Hb].
    apply imem_In in Ha. apply negb_true_iff in Hb. apply imem_nIn in Hb. tauto.
  - intros x Hx. apply imem_In. apply H4; exact Hx.
  - intros x Hx. specialize (H5 x Hx). apply orb_true_iff in H5. rewrite !imem_In in H5. exact H5. Qed.

Definition step_ok (D : list index) (acc : list (string * stepval)) (st : cstep) : Prop :=
  step_wf st = true /\ Forall (op_ok acc) (cs_ops st) /\
  incl (step_idx st) D /\ incl (cs_tgt st) D.

(* value of  f1 * f2 * einsum("..->..", t1, t2, ..) *)
Lemma einsum_case D acc st (tens : list (cexpr * list index)) (factors : list cexpr) :
  inj_on D -> incl (step_idx st) D -> incl (cs_tgt st) D -> step_facts st ->
  Forall2 dims_ok (map snd tens) (map run_np (map fst tens)) ->
  List.concat (map snd tens) = step_idx st ->
  Forall (fun e => adims S (run_np e) = []) factors ->
  (forall r, kprod (map (fun op => operand_val S B acc op r) (cs_ops st)) =
             kprod (map (fun e => aval S (run_np e) []) factors) *
             ops_prod (map snd tens) (map run_np (map fst tens)) r) ->
  let e := CMul (factors ++ [CEinsum (map (map iname) (map snd tens)) (map iname (cs_tgt st)) (map fst tens)]) in
  dims_ok (cs_tgt st) (run_np e) /\
  forall r, aval S (run_np e) (map r (cs_tgt st)) = step_val S T B acc st r.
Proof. intros HD Hix Htg [F1 F2 F3 F4] P1 P2 P3 P4 e.
  destruct (einsum_semantics D (map snd tens) (map run_np (map fst tens)) (cs_tgt st) (cs_con st))
    as [E1 E2]; try assumption; try (rewrite P2; assumption).
  unfold e. simpl. rewrite map_app. simpl.
  set (EV := einsum_val S (map (map iname) (map snd tens)) (map iname (cs_tgt st)) (map run_np (map fst tens))) in *.
  assert (P3' : Forall (fun f => adims S f = []) (map run_np factors)).
  { rewrite Forall_map. exact P3. }
  split.
  - destruct (fold_mul_factors (map run_np factors) EV (map (fun _ : index => O) (cs_tgt st)) P3') as [G1 _].
    { rewrite E1, !map_length. reflexivity. }
    unfold dims_ok. rewrite G1. exact E1.
  - intros r. destruct (fold_mul_factors (map run_np factors) EV (map r (cs_tgt st)) P3') as [_ G2].
    { rewrite E1, !map_length. reflexivity. }
    rewrite G2. rewrite E2. unfold step_val. rewrite map_map.
    rewrite <- (sum_over_scal S T). apply sum_over_ext. intros r'. symmetry. apply P4. Qed.

(** the text emitted for one step (numpy backend) evaluates to the sum over
    the step's contracted indices of the product of its operands, indexed in
    the step's target order *)
Theorem codegen_step_semantics_np D cache acc st :
  inj_on D -> single_letter D = true -> cache_ok cache acc -> step_ok D acc st ->
  exists e, format_contraction cfg Einsum cache st = Ok e /\
            dims_ok (cs_tgt st) (run_np e) /\
            forall r, aval S (run_np e) (map r (cs_tgt st)) = step_val S T B acc st r.
Proof. intros HD HS Hc [Hwf [Hops [Hix Htg]]].
  assert (Hsl : forall op, In op (cs_ops st) -> single_letter (snd op) = true).
  { intros op Hop. apply (single_letter_incl D); [exact HS|]. intros z Hz. apply Hix. unfold step_idx.
    apply in_concat. exists (snd op). split; [apply in_map; exact Hop|exact Hz]. }
  destruct (rmap_operands cache acc (cs_con st) (cs_ops st) Hc Hops Hsl) as [es [Hes HF]].
  unfold format_contraction. rewrite Hes. simpl.
  destruct (split_operands acc (cs_ops st) es HF) as [P1 [P2 [P3 P4]]].
  change (fun p : cexpr * list index => negb (is_nil (snd p))) with nonempty.
  set (tens := filter nonempty (combine es (map snd (cs_ops st)))) in *.
  set (factors := map fst (filter (fun p : cexpr * list index => is_nil (snd p)) (combine es (map snd (cs_ops st))))) in *.
  assert (Hsf := step_wf_facts st Hwf). fold (step_idx st) in P2.
  assert (Hgen := einsum_case D acc st tens factors HD Hix Htg Hsf P1 P2 P3 P4).
  replace (map (fun p : cexpr * list index => map iname (snd p)) tens) with (map (map iname) (map snd tens))
    by (rewrite map_map; reflexivity).
  unfold format_einsum.
  destruct tens as [|[t0 i0] [|[t1 i1] tens']] eqn:Et.
  - (* no tensor: only factors *)
    simpl. eexists; split; [reflexivity|]. simpl in P2. destruct Hsf as [F1 F2 F3 F4].
    assert (Htg0 : cs_tgt st = []).
    { destruct (cs_tgt st) as [|x l]; [reflexivity|]. specialize (F3 x (or_introl eq_refl)). rewrite <- P2 in F3. destruct F3. }
    assert (Hcon0 : cs_con st = []).
    { destruct (cs_con st) as [|x l]; [reflexivity|]. destruct (F2 x (or_introl eq_refl)) as [F _]. rewrite <- P2 in F. destruct F. }
    rewrite app_nil_r. simpl.
    assert (P3' : Forall (fun f => adims S f = []) (map run_np factors)) by (rewrite Forall_map; exact P3).
    destruct (fold_mul_only_factors _ P3') as [G1 G2]. rewrite Htg0. split; [exact G1|].
    intros r. simpl. rewrite G2. unfold step_val. rewrite Hcon0. simpl. rewrite P4. rewrite map_map.
    unfold ops_prod. simpl. ring.
  - (* one tensor *)
    simpl. destruct (String.eqb (cat (map iname i0)) (cat (map iname (cs_tgt st)))) eqn:Ecat.
    + eexists; split; [reflexivity|].
      simpl in P2. rewrite app_nil_r in P2. simpl in P1.
      assert (Hd0 : dims_ok i0 (run_np t0)) by (inversion P1; assumption).
      apply String.eqb_eq in Ecat.
      assert (Hi0 : incl i0 D) by (rewrite P2; exact Hix).
      apply cat_single_inj in Ecat; try (eapply single_letter_incl; eassumption).
      apply (map_iname_inj D) in Ecat; try assumption.
      destruct Hsf as [F1 F2 F3 F4].
      assert (Hcon0 : cs_con st = []).
      { destruct (cs_con st) as [|x l]; [reflexivity|]. destruct (F2 x (or_introl eq_refl)) as [Fa Fb].
        rewrite <- P2, Ecat in Fa. contradiction. }
      simpl. rewrite map_app. simpl.
      assert (P3' : Forall (fun f => adims S f = []) (map run_np factors)) by (rewrite Forall_map; exact P3).
      split.
      * destruct (fold_mul_factors (map run_np factors) (run_np t0) (map (fun _ : index => O) i0) P3') as [G1 _].
        { rewrite Hd0, !map_length. reflexivity. }
        unfold dims_ok. rewrite G1. rewrite <- Ecat. exact Hd0.
      * intros r. destruct (fold_mul_factors (map run_np factors) (run_np t0) (map r i0) P3') as [_ G2].
        { rewrite Hd0, !map_length. reflexivity. }
        rewrite <- Ecat. rewrite G2. unfold step_val. rewrite Hcon0. simpl. rewrite P4.
        rewrite map_map. unfold ops_prod. simpl. ring.
    + eexists; split; [reflexivity|]. exact Hgen.
  - simpl. eexists; split; [reflexivity|]. exact Hgen.
Qed.

(* ------------------------------------------------------------------ *)
(** * Whole scheme of a term, numpy backend *)

Variable hf : bool.
Notation scheme_vals := (scheme_vals S T B).
Notation step_val := (step_val S T B).

Fixpoint scheme_ok (D : list index) (acc : list (string * stepval)) (steps : list cstep) : Prop :=
  match steps with
  | [] => True
  | st :: r => step_ok D acc st /\ scheme_ok D ((cs_name st, (cs_tgt st, step_val acc st)) :: acc) r
  end.

Lemma scheme_vals_app acc l1 l2 : scheme_vals acc (l1 ++ l2) = scheme_vals (scheme_vals acc l1) l2.
Proof. revert acc. induction l1 as [|st r IH]; intros acc; simpl; [reflexivity|apply IH]. Qed.
Lemma scheme_ok_app D acc l1 l2 : scheme_ok D acc (l1 ++ l2) <->
  scheme_ok D acc l1 /\ scheme_ok D (scheme_vals acc l1) l2.
Proof. revert acc. induction l1 as [|st r IH]; intros acc; simpl; [tauto|]. rewrite IH. tauto. Qed.

Lemma split_outer_nil steps i : split_inner_outer steps = (i, []) -> steps = [].
Proof. revert i. induction steps as [|st r IH]; intros i; simpl; [reflexivity|].
  destruct (split_inner_outer r) as [i' o'] eqn:E.
  destruct (existsb _ r) eqn:Ex; intros H; inversion H; subst.
  specialize (IH i' eq_refl). subst r. simpl in Ex. discriminate. Qed.
Lemma split_single_outer steps inner o : split_inner_outer steps = (inner, [o]) -> steps = inner ++ [o].
Proof. revert inner. induction steps as [|st r IH]; intros inner; simpl; [discriminate|].
  destruct (split_inner_outer r) as [i' o'] eqn:E.
  destruct (existsb _ r) eqn:Ex; intros H; inversion H; subst.
  - simpl. f_equal. apply IH; reflexivity.
  - assert (Er := split_outer_nil _ _ E). subst r. simpl in E. inversion E. reflexivity. Qed.

Lemma build_cache_np D inner : forall cache acc,
  inj_on D -> single_letter D = true -> cache_ok cache acc -> scheme_ok D acc inner ->
  exists cache', build_cache cfg Einsum cache inner = Ok cache' /\ cache_ok cache' (scheme_vals acc inner).
Proof. induction inner as [|st r IH]; intros cache acc HD HS Hc Hok; simpl.
  - exists cache; split; [reflexivity|exact Hc].
  - destruct Hok as [Hst Hr].
    destruct (codegen_step_semantics_np D cache acc st HD HS Hc Hst) as [e [He [Hd Hv]]].
    rewrite He. simpl. apply IH; auto. constructor; [|exact Hc].
    unfold entry_ok; simpl. auto. Qed.

(** the line emitted for a term whose scheme is [steps] evaluates, at every
    assignment of the letters of the last step's target, to
    sign * prefactor * (value of the last step of the scheme) *)
Theorem codegen_term_semantics_np D t l steps :
  inj_on D -> single_letter D = true ->
  ct_hasidx t = true -> ct_scheme t = Ok steps -> scheme_ok D [] steps ->
  gen_term cfg hf Einsum t = Ok l ->
  exists inner o, steps = inner ++ [o] /\ l_neg l = ct_neg t /\
    format_prefactor hf Einsum (ct_nums t) (ct_syms t) = Ok (l_pref l) /\
    forall p, run_line S T tenv Einsum (map iname (cs_tgt o)) l p =
              ksgn (ct_neg t) * kprod (map (pfac_val S T) (l_pref l)) *
              step_val (scheme_vals [] inner) o (renv p).
Proof. intros HD HS Hidx Hsch Hok H. unfold gen_term in H.
  destruct (format_prefactor hf Einsum (ct_nums t) (ct_syms t)) as [pf| |] eqn:Epf; try discriminate.
  simpl in H. rewrite Hidx in H. simpl in H.
  destruct (scheme_guard (ct_objs t)) as [g| |]; try discriminate. simpl in H. rewrite Hsch in H. simpl in H.
  destruct (format_scaling_comment Einsum (ct_objspaces t) steps) as [cm| |]; try discriminate. simpl in H.
  destruct (split_inner_outer steps) as [inner outer] eqn:Esp.
  destruct (build_cache cfg Einsum [] inner) as [cache| |] eqn:Ebc; try discriminate. simpl in H.
  destruct outer as [|o [|o2 outer]]; try discriminate.
  apply split_single_outer in Esp. subst steps.
  apply scheme_ok_app in Hok. destruct Hok as [Hin Hout]. simpl in Hout. destruct Hout as [Ho _].
  destruct (build_cache_np D inner [] [] HD HS (Forall2_nil _) Hin) as [cache' [Hb Hc]].
  rewrite Hb in Ebc. inversion Ebc; subst cache'.
  destruct (codegen_step_semantics_np D cache (scheme_vals [] inner) o HD HS Hc Ho) as [e [He [Hd Hv]]].
  rewrite He in H. simpl in H. inversion H; subst l. exists inner, o. repeat split.
  intros p. unfold run_line; simpl. rewrite map_map. fold (renv p).
  rewrite <- (Hv (renv p)). unfold renv. reflexivity. Qed.

(* ------------------------------------------------------------------ *)
(** * Prefactors *)

Definition numarg_val (a : numarg) : K S :=
  match a with NRat p q => ofQ S (Z.of_N p # q) | NSqrt n => sqrtv T n | NOther => 0 end.
Fixpoint kpow (x : K S) (n : nat) : K S := match n with O => 1 | Datatypes.S n' => x * kpow x n' end.
Fixpoint syms_val (syms : list (string * Z)) : K S :=
  match syms with
  | [] => 1
  | (s, e) :: r => kpow (symv T s) (Z.to_nat e) * syms_val r
  end.
(* the symbolic prefactor with divisions: x^e, (1/x)^(-e) *)
Fixpoint syms_true (syms : list (string * Z)) : K S :=
  match syms with
  | [] => 1
  | (s, e) :: r => (if Z.leb 0 e then kpow (symv T s) (Z.to_nat e)
                    else kpow (kinv S (symv T s)) (Z.to_nat (- e))) * syms_true r
  end.
Lemma syms_nonneg_true syms : syms_nonneg syms = true -> syms_val syms = syms_true syms.
Proof. induction syms as [|[s e] r IH]; simpl; [reflexivity|]. intros H. apply andb_true_iff in H.
  destruct H as [H1 H2]. simpl in H1. rewrite H1, (IH H2). reflexivity. Qed.

Lemma format_python_num_val a f : format_python_num hf a = Ok f -> pfac_val S T f = numarg_val a.
Proof. destruct a as [p q|n|]; simpl; try discriminate.
  - intros H.
    repeat match type of H with context [match ?x with _ => _ end] => destruct x end;
      inversion H; subst; reflexivity.
  - destruct hf; intros H; inversion H; reflexivity. Qed.
Lemma format_cpp_num_val a f : format_cpp_num hf a = Ok f -> pfac_val S T f = numarg_val a.
Proof. destruct a as [p q|n|]; simpl; try discriminate.
  - intros H.
    repeat match type of H with context [match ?x with _ => _ end] => destruct x end;
      inversion H; subst; reflexivity.
  - destruct hf; intros H; inversion H; reflexivity. Qed.

Lemma rmap_vals {A} (f : A -> res pfac) (v : A -> K S) l fs :
  (forall a x, f a = Ok x -> pfac_val S T x = v a) -> rmap f l = Ok fs ->
  kprod (map (pfac_val S T) fs) = kprod (map v l).
Proof. intros Hf. revert fs. induction l as [|a r IH]; simpl; intros fs H; [inversion H; reflexivity|].
  destruct (f a) as [x| |] eqn:E; try discriminate. simpl in H.
  destruct (rmap f r) as [xs| |]; try discriminate. simpl in H. inversion H; subst. simpl.
  rewrite (Hf a x E), (IH xs eq_refl). reflexivity. Qed.

Lemma sym_names_val syms : kprod (map (pfac_val S T) (sym_names syms)) = syms_val syms.
Proof. induction syms as [|[s e] r IH]; simpl; [reflexivity|].
  rewrite map_app, kprod_app, IH. f_equal.
  generalize (Z.to_nat e) as n. clear. induction n as [|n IHn]; simpl; [reflexivity|rewrite IHn; reflexivity]. Qed.

(** the printed prefactor (both number formats, sqrt, symbols) denotes the
    number prefactor of the term times its symbols *)
Theorem prefactor_value be nums syms pf : format_prefactor hf be nums syms = Ok pf ->
  kprod (map (pfac_val S T) pf) = kprod (map numarg_val nums) * syms_val syms.
Proof. unfold format_prefactor. destruct (syms_nonneg syms); simpl; try discriminate.
  destruct (rmap _ nums) as [nu| |] eqn:En; try discriminate. simpl. intros H; inversion H; subst.
  rewrite map_app, kprod_app, sym_names_val. f_equal.
  destruct be; eapply rmap_vals; try exact En; [apply format_python_num_val|apply format_cpp_num_val]. Qed.

(* ------------------------------------------------------------------ *)
(** * Permutation operators *)

Definition perm_idx (perms : list (index * index)) (x : index) : index :=
  fold_left (fun t pq => swap_idx (fst pq) (snd pq) t) perms x.
Definition names_of (perms : list (index * index)) := map (fun pq => (iname (fst pq), iname (snd pq))) perms.

Lemma iname_swap D p q x : inj_on D -> In p D -> In q D -> In x D ->
  iname (swap_idx p q x) = sswap (iname p, iname q) (iname x) /\ In (swap_idx p q x) D.
Proof. intros HD Hp Hq Hx. unfold swap_idx, sswap; simpl.
  destruct (index_eqb x p) eqn:E1.
  - apply index_eqb_eq in E1; subst. rewrite String.eqb_refl. auto.
  - destruct (String.eqb (iname x) (iname p)) eqn:E1'.
    { apply String.eqb_eq in E1'. apply HD in E1'; auto. subst. rewrite index_eqb_refl in E1; discriminate. }
    destruct (index_eqb x q) eqn:E2.
    + apply index_eqb_eq in E2; subst. rewrite String.eqb_refl. auto.
    + destruct (String.eqb (iname x) (iname q)) eqn:E2'; [|auto].
      apply String.eqb_eq in E2'. apply HD in E2'; auto. subst. rewrite index_eqb_refl in E2; discriminate. Qed.

Lemma iname_perm D perms x : inj_on D ->
  (forall pq, In pq perms -> In (fst pq) D /\ In (snd pq) D) -> In x D ->
  iname (perm_idx perms x) = perm_letters (names_of perms) (iname x).
Proof. intros HD. revert x. induction perms as [|[p q] r IH]; intros x Hp Hx; simpl; [reflexivity|].
  destruct (Hp (p, q) (or_introl eq_refl)) as [H1 H2]. simpl in H1, H2.
  destruct (iname_swap D p q x HD H1 H2 Hx) as [E Hin].
  unfold perm_idx in *. simpl. rewrite IH; [|intros pq Hpq; apply Hp; right; exact Hpq|exact Hin].
  unfold perm_letters. simpl. rewrite E. reflexivity. Qed.

Definition sgnZ (f : Z) : K S := ksgn (negb (Z.eqb f 1)).

(** "Apply (1 +- P..P ..) to X": the interpreter's value is X plus the signed
    copies of X with the listed transpositions applied (in the listed order)
    to the index assignment *)
Theorem perm_apply_semantics D ps ps' X Xe :
  inj_on D ->
  (forall pf pq, In pf ps -> In pq (fst pf) -> In (fst pq) D /\ In (snd pq) D) ->
  gen_permsym ps = Ok ps' -> depends_on S D Xe -> (forall p, X p = Xe (renv p)) ->
  forall p, apply_permsym S ps' X p =
            Xe (renv p) + ksum ps (fun pf => sgnZ (snd pf) * Xe (fun x => renv p (perm_idx (fst pf) x))).
Proof. intros HD Hin Hg HXe HX p. unfold apply_permsym. rewrite HX. f_equal.
  revert ps' Hg. induction ps as [|[perms f] r IH]; simpl; intros ps' Hg.
  - inversion Hg; reflexivity.
  - unfold gen_permsym in Hg. simpl in Hg.
    assert (Hr : forall pf pq, In pf r -> In pq (fst pf) -> In (fst pq) D /\ In (snd pq) D)
      by (intros pf pq H1 H2; apply (Hin pf pq); [right; exact H1|exact H2]).
    assert (Hval : X (fun t => p (perm_letters (names_of perms) t)) = Xe (fun x => renv p (perm_idx perms x))).
    { rewrite HX. apply HXe. intros x Hx. unfold renv.
      rewrite (iname_perm D); auto. intros pq Hpq. apply (Hin (perms, f) pq); [left; reflexivity|exact Hpq]. }
    destruct (Z.eqb f 1) eqn:E1.
    + simpl in Hg. destruct (rmap _ r) as [ys| |] eqn:Er; try discriminate. simpl in Hg. inversion Hg; subst.
      simpl. unfold sgnZ at 1. simpl. rewrite E1. simpl. fold (names_of perms). rewrite Hval.
      f_equal. apply (IH Hr). exact Er.
    + destruct (Z.eqb f (-1)) eqn:E2; try discriminate.
      simpl in Hg. destruct (rmap _ r) as [ys| |] eqn:Er; try discriminate. simpl in Hg. inversion Hg; subst.
      simpl. unfold sgnZ at 1. simpl. rewrite E1. simpl. fold (names_of perms). rewrite Hval.
      f_equal. apply (IH Hr). exact Er. Qed.

(* ------------------------------------------------------------------ *)
(** * Refusals (NotImplementedError) *)

Lemma rmap_refuse {A A2} (f : A -> res A2) l : rmap f l = Refuse -> exists a, In a l /\ f a = Refuse.
Proof. induction l as [|a r IH]; simpl; [discriminate|].
  destruct (f a) as [x| |] eqn:E; simpl; try discriminate.
  - destruct (rmap f r) as [xs| |]; simpl; try discriminate. intros _.
    destruct (IH eq_refl) as [b [Hb Hf]]. exists b; auto.
  - intros _. exists a; auto. Qed.

(* an operand is refused exactly for a partial trace on a libtensor tensor or
   for an index name that is not a single letter on a numpy tensor *)
Theorem refusal_exact_operand be cache con op :
  format_operand cfg be cache con op = Refuse <->
  is_contraction (fst op) = false /\
  (be = Einsum /\ multi_letter (snd op) = true \/ be = Libtensor /\ partial_trace con (snd op) = true).
Proof. destruct op as [nm idx]; unfold format_operand; simpl. destruct (is_contraction nm).
  - destruct (lookup nm cache); split; try discriminate; intros [H _]; discriminate.
  - destruct be.
    + destruct (multi_letter idx); split; auto; try discriminate.
      intros [_ [[_ H]|[H _]]]; discriminate.
    + destruct (partial_trace con idx).
      * split; auto.
      * assert (Hn : forall A (x : res A), (x = Refuse -> False) -> x = Refuse <->
            false = false /\ (Libtensor = Einsum /\ multi_letter idx = true \/ Libtensor = Libtensor /\ false = true)).
        { intros A x Hx. split; [intros H; destruct (Hx H)|intros [_ [[H _]|[_ H]]]; discriminate]. }
        apply Hn. unfold translate_libadc.
        destruct (String.eqb (name_base nm) (n_eri cfg)); simpl; [discriminate|].
        destruct (prefix "t2eri" nm); simpl; [|discriminate].
        destruct (split_on "_" nm) as [|a [|b [|c l]]]; simpl; discriminate. Qed.

(* a number is refused exactly if it is neither rational nor a square root,
   or a square root when sympy's  S.Half == 0.5  is False *)
Theorem refusal_exact_number be a :
  (match be with Einsum => format_python_num hf a | Libtensor => format_cpp_num hf a end) = Refuse <->
  a = NOther \/ (exists n, a = NSqrt n) /\ hf = false.
Proof. destruct be, a as [p q|n|]; simpl.
  all: try (split; [discriminate|intros [H|[[n' H] _]]; discriminate]).
  all: try (split; [intros _; left; reflexivity|reflexivity]).
  all: try (destruct hf; split; [discriminate|intros [H|[_ H]]; discriminate| |reflexivity];
            intros _; right; split; [eexists; reflexivity|reflexivity]).
  all: split; [|intros [H|[[n' H] _]]; discriminate];
       intros H; repeat match type of H with context [match ?x with _ => _ end] => destruct x end; discriminate.
Qed.

Lemma rmap_refuse_conv {A A2} (f : A -> res A2) l :
  (forall a, In a l -> f a <> Crash) -> (exists a, In a l /\ f a = Refuse) -> rmap f l = Refuse.
Proof. induction l as [|a r IH]; intros Hn [b [Hb Hf]]; [destruct Hb|]. simpl.
  destruct (f a) as [x| |] eqn:E; simpl.
  - destruct Hb as [->|Hb]; [congruence|].
    rewrite IH; [reflexivity|intros c Hc; apply Hn; right; exact Hc|exists b; auto].
  - reflexivity.
  - exfalso. apply (Hn a (or_introl eq_refl)). exact E. Qed.

(* the numpy backend refuses a contraction exactly if one of its tensors
   carries an index whose name is not a single letter (all inner results being
   available) *)
Theorem refusal_exact_einsum cache st :
  (forall op, In op (cs_ops st) -> is_contraction (fst op) = true -> lookup (fst op) cache <> None) ->
  (format_contraction cfg Einsum cache st = Refuse <->
   exists op, In op (cs_ops st) /\ is_contraction (fst op) = false /\ multi_letter (snd op) = true).
Proof. intros Hl. unfold format_contraction. split.
  - destruct (rmap _ (cs_ops st)) as [es| |] eqn:E; simpl; try discriminate. intros _.
    apply rmap_refuse in E. destruct E as [op [Hin H]]. apply refusal_exact_operand in H.
    exists op. destruct H as [H1 [[_ H2]|[H2 _]]]; [auto|discriminate].
  - intros [op [Hin [H1 H2]]]. rewrite (rmap_refuse_conv (format_operand cfg Einsum cache (cs_con st))); [reflexivity| |].
    + intros [nm idx] Ha. unfold format_operand. destruct (is_contraction nm) eqn:Ec.
      * specialize (Hl (nm, idx) Ha Ec). simpl in Hl. destruct (lookup nm cache); [discriminate|congruence].
      * destruct (multi_letter idx); discriminate.
    + exists op. split; [exact Hin|]. apply refusal_exact_operand. auto. Qed.

(* libtensor: refused only for a partial trace or for >= 2 tensors without
   contracted and without target indices *)
Theorem refusal_exact_libtensor cache st :
  format_contraction cfg Libtensor cache st = Refuse ->
  (exists op, In op (cs_ops st) /\ is_contraction (fst op) = false /\ partial_trace (cs_con st) (snd op) = true)
  \/ (cs_con st = [] /\ cat (map iname (cs_tgt st)) = EmptyString).
Proof. unfold format_contraction. destruct (rmap _ (cs_ops st)) as [es| |] eqn:E; simpl; try discriminate.
  - unfold format_libtensor. intros H. right.
    destruct (map fst (filter _ (combine es (map snd (cs_ops st))))) as [|t0 [|t1 ts]]; try discriminate.
    + destruct (is_nil (cs_con st)); discriminate.
    + destruct (cs_con st); simpl in H; [|destruct (String.eqb _ _); discriminate].
      destruct (String.eqb (cat (map iname (cs_tgt st))) "") eqn:E2; try discriminate.
      apply String.eqb_eq in E2. auto.
  - intros _. left. apply rmap_refuse in E. destruct E as [op [Hin H]].
    apply refusal_exact_operand in H. exists op. destruct H as [H1 [[H2 _]|[_ H2]]]; [discriminate|auto]. Qed.

(* ------------------------------------------------------------------ *)
(** * libtensor backend *)

Notation run_lt := (run_lt S tenv).
Definition lab (x : index) : string * list nat := (iname x, irange x).

Lemma ldedup_acc_names D seen l : inj_on D -> incl seen D -> incl l D ->
  ldedup_acc (map iname seen) (map lab l) = map lab (inodup_acc seen l).
Proof. intros HD. revert seen. induction l as [|x r IH]; intros seen Hs Hl; simpl; [reflexivity|].
  assert (Hx : In x D) by (apply Hl; left; reflexivity).
  assert (Hr : incl r D) by (intros z Hz; apply Hl; right; exact Hz).
  rewrite (str_mem_names D) by assumption.
  destruct (imem x seen); [apply IH; assumption|].
  simpl. f_equal. apply (IH (x :: seen)); [|assumption].
  intros z [<-|Hz]; auto. Qed.
Lemma ldedup_names D l : inj_on D -> incl l D -> ldedup (map lab l) = map lab (inodup l).
Proof. intros HD Hl. apply (ldedup_acc_names D [] l); auto. intros z []. Qed.

Lemma lab_dim_names D L x : inj_on D -> incl L D -> In x D -> In x L ->
  lab_dim (map lab L) (iname x) = irange x.
Proof. intros HD HL Hx. induction L as [|y r IH]; intros Hin; [destruct Hin|]. simpl.
  destruct (String.eqb (iname y) (iname x)) eqn:E.
  - apply String.eqb_eq in E. apply HD in E; auto; [subst; reflexivity|apply HL; left; reflexivity].
  - destruct Hin as [->|Hin]; [rewrite String.eqb_refl in E; discriminate|].
    apply IH; [intros z Hz; apply HL; right; exact Hz|exact Hin]. Qed.

Lemma filter_lab_names D tg L : inj_on D -> incl tg D -> incl L D ->
  filter (fun kd : string * list nat => negb (str_mem (fst kd) (map iname tg))) (map lab L) =
  map lab (filter (fun x => negb (imem x tg)) L).
Proof. intros HD Ht HL. induction L as [|x r IH]; simpl; [reflexivity|].
  assert (Hr : incl r D) by (intros z Hz; apply HL; right; exact Hz).
  rewrite (str_mem_names D) by (auto; apply HL; left; reflexivity).
  destruct (imem x tg); simpl; rewrite IH by assumption; reflexivity. Qed.

Lemma combine_lab ix : combine (map iname ix) (map irange ix) = map lab ix.
Proof. induction ix as [|x r IH]; simpl; [reflexivity|rewrite IH; reflexivity]. Qed.

Lemma depends_on_incl D1 D2 (F : env -> K S) : incl D1 D2 -> depends_on S D1 F -> depends_on S D2 F.
Proof. intros Hi H r1 r2 Ha. apply H. intros x Hx. apply Ha. apply Hi. exact Hx. Qed.

(* free labels of an expression = names (with ranges) of the indices [ix] *)
Definition labs_of (e : cexpr) (ix : list index) : Prop :=
  exists L, fst (run_lt e) = map lab L /\ NoDup L /\ (forall x, In x L <-> In x ix).

Definition entry_ok_lt (ce : string * cexpr) (av : string * stepval) : Prop :=
  fst ce = fst av /\ labs_of (snd ce) (fst (snd av)) /\
  (forall p, snd (run_lt (snd ce)) p = snd (snd av) (renv p)) /\
  depends_on S (fst (snd av)) (snd (snd av)).
Definition cache_ok_lt (cache : list (string * cexpr)) (acc : list (string * stepval)) : Prop :=
  Forall2 entry_ok_lt cache acc.

Lemma lookup_cache_ok_lt cache acc nm tv : cache_ok_lt cache acc -> lookup nm acc = Some tv ->
  exists e, lookup nm cache = Some e /\ labs_of e (fst tv) /\
            (forall p, snd (run_lt e) p = snd tv (renv p)) /\ depends_on S (fst tv) (snd tv).
Proof. intros H. induction H as [|[k e] [k' v] cache acc [Hk [Hl [Hv Hd]]] H IH]; simpl; [discriminate|].
  simpl in *. subst k'. destruct (String.eqb k nm); [|exact IH].
  intros E; inversion E; subst. exists e; auto. Qed.

Definition op_ok_lt (acc : list (string * stepval)) (op : string * list index) : Prop :=
  if is_contraction (fst op) then exists v, lookup (fst op) acc = Some (snd op, v)
  else forall n, translate_libadc cfg (fst op) (snd op) = Ok n ->
       dims_ok (snd op) (tenv n) /\
       forall r, aval S (tenv n) (map r (snd op)) = B (fst op) (snd op) r.

Definition opR_lt (acc : list (string * stepval)) (op : string * list index) (e : cexpr) : Prop :=
  labs_of e (snd op) /\
  (forall p, snd (run_lt e) p = operand_val S B acc op (renv p)) /\
  depends_on S (snd op) (operand_val S B acc op).

Lemma format_operand_lt D cache acc con op e : inj_on D -> incl (snd op) D ->
  cache_ok_lt cache acc -> op_ok_lt acc op ->
  format_operand cfg Libtensor cache con op = Ok e -> opR_lt acc op e.
Proof. intros HD Hi Hc Ho. destruct op as [nm idx]. unfold op_ok_lt, opR_lt, operand_val, format_operand in *. simpl in *.
  destruct (is_contraction nm).
  - destruct Ho as [v Hv]. destruct (lookup_cache_ok_lt _ _ _ _ Hc Hv) as [e' [He [Hl [Hval Hd]]]].
    rewrite He. intros E; inversion E; subst. rewrite Hv. simpl in *. auto.
  - destruct (partial_trace con idx); [discriminate|].
    destruct (translate_libadc cfg nm idx) as [n| |] eqn:En; try discriminate. simpl.
    intros E; inversion E; subst. destruct (Ho n eq_refl) as [Hd Hv]. simpl. split; [|split].
    + exists (inodup idx). unfold dims_ok in Hd. simpl. rewrite Hd, combine_lab. split; [apply (ldedup_names D); auto|].
      split; [apply inodup_NoDup|apply inodup_In].
    + intros p. rewrite map_map. apply Hv.
    + intros r1 r2 Ha. rewrite <- !Hv. rewrite (map_agree _ _ _ Ha). reflexivity. Qed.

Lemma rmap_ok_forall2 {A A2} (f : A -> res A2) l ys : rmap f l = Ok ys -> Forall2 (fun a y => f a = Ok y) l ys.
Proof. revert ys. induction l as [|a r IH]; simpl; intros ys H; [inversion H; constructor|].
  destruct (f a) as [y| |] eqn:E; try discriminate. simpl in H.
  destruct (rmap f r) as [ys'| |]; try discriminate. simpl in H. inversion H; subst.
  constructor; [exact E|apply IH; reflexivity]. Qed.

Definition tensor_op (op : string * list index) : bool := negb (is_nil (snd op)).
Definition factor_op (op : string * list index) : bool := is_nil (snd op).

Lemma split_operands_lt (R : (string * list index) -> cexpr -> Prop) ops es : Forall2 R ops es ->
  let tagged := combine es (map snd ops) in
  Forall2 R (filter tensor_op ops) (map fst (filter nonempty tagged)) /\
  Forall2 R (filter factor_op ops) (map fst (filter (fun p => is_nil (snd p)) tagged)).
Proof. intros H. induction H as [|op e ops es HR H IH]; simpl; [split; constructor|].
  destruct IH as [I1 I2]. unfold tensor_op at 1, factor_op at 1, nonempty at 1. simpl.
  destruct (snd op); simpl; split; auto. Qed.

Lemma lt_prod_ops acc ops es p : Forall2 (opR_lt acc) ops es ->
  lt_prod S (map run_lt es) p = kprod (map (fun op => operand_val S B acc op (renv p)) ops).
Proof. intros H. induction H as [|op e ops es [_ [Hv _]] H IH]; simpl; [reflexivity|].
  unfold lt_prod in *. simpl. rewrite Hv, IH. reflexivity. Qed.

Lemma ops_depends acc ops es : Forall2 (opR_lt acc) ops es ->
  depends_on S (List.concat (map snd ops)) (fun r => kprod (map (fun op => operand_val S B acc op r) ops)).
Proof. intros H. induction H as [|op e ops es [_ [_ Hd]] H IH]; simpl; intros r1 r2 Ha; [reflexivity|].
  apply agree_app in Ha. destruct Ha as [H1 H2]. rewrite (Hd r1 r2 H1). f_equal. apply IH; exact H2. Qed.

Lemma labels_union D acc ops es : inj_on D -> incl (List.concat (map snd ops)) D ->
  Forall2 (opR_lt acc) ops es ->
  exists L, lt_labels S (map run_lt es) = map lab L /\ NoDup L /\
            (forall x, In x L <-> In x (List.concat (map snd ops))).
Proof. intros HD Hi H.
  assert (HL : exists Ls, List.concat (map (fun v : ltens S => fst v) (map run_lt es)) = map lab Ls /\
                          (forall x, In x Ls <-> In x (List.concat (map snd ops)))).
  { induction H as [|op e ops es [[L [HL [_ HLs]]] _] H IH]; simpl; [exists []; split; [reflexivity|tauto]|].
    simpl in Hi. destruct IH as [Ls [E1 E2]]; [intros z Hz; apply Hi; apply in_or_app; right; exact Hz|].
    exists (L ++ Ls). rewrite HL, E1, map_app. split; [reflexivity|].
    intros x. rewrite !in_app_iff, HLs, E2. tauto. }
  destruct HL as [Ls [E1 E2]]. exists (inodup Ls). unfold lt_labels. rewrite E1.
  split; [apply (ldedup_names D); auto; intros z Hz; apply Hi; apply E2; exact Hz|].
  split; [apply inodup_NoDup|]. intros x. rewrite inodup_In. apply E2. Qed.

Lemma no_labels e : labs_of e [] -> fst (run_lt e) = [].
Proof. intros [L [HL [_ Hs]]]. rewrite HL. destruct L as [|x L]; [reflexivity|].
  exfalso. apply (Hs x). left; reflexivity. Qed.

Lemma cmul_factors factors Xs : Forall (fun e => fst (run_lt e) = []) factors ->
  fst (run_lt (CMul (factors ++ Xs))) = lt_labels S (map run_lt Xs) /\
  forall p, snd (run_lt (CMul (factors ++ Xs))) p =
            lt_prod S (map run_lt factors) p * lt_prod S (map run_lt Xs) p.
Proof. intros H. simpl. rewrite map_app. split.
  - unfold lt_labels. rewrite map_app, concat_app. f_equal.
    replace (List.concat (map (fun v : ltens S => fst v) (map run_lt factors))) with (@nil (string * list nat)); [reflexivity|].
    induction H as [|e r He H IH]; simpl; [reflexivity|]. rewrite He. simpl. exact IH.
  - intros p. unfold lt_prod. rewrite map_app, kprod_app. reflexivity. Qed.

Lemma iname_nonempty x : iname x <> EmptyString.
Proof. Local Transparent iname. unfold iname, chr. simpl. discriminate. Local Opaque iname. Qed.
Lemma cat_names_empty l : cat (map iname l) = EmptyString -> l = [].
Proof. destruct l as [|x r]; [reflexivity|]. unfold cat. simpl.
  destruct (iname x) eqn:E; [exfalso; apply (iname_nonempty x); exact E|].
  destruct (map iname r); simpl; discriminate. Qed.

Definition step_ok_lt (D : list index) (acc : list (string * stepval)) (st : cstep) : Prop :=
  step_wf st = true /\ Forall (op_ok_lt acc) (cs_ops st) /\
  incl (step_idx st) D /\ incl (cs_tgt st) D.

Lemma step_val_depends acc st es : step_facts st -> Forall2 (opR_lt acc) (cs_ops st) es ->
  depends_on S (cs_tgt st) (step_val acc st).
Proof. intros [F1 F2 F3 F4] H r1 r2 Ha. unfold Codegen.step_val.
  apply (sum_over_agree S T (step_idx st)); [apply (ops_depends acc _ es H)|].
  intros x Hx Hn. apply Ha. destruct (F4 x Hx); tauto. Qed.

Lemma factors_no_labels acc l es : (forall op, In op l -> snd op = []) ->
  Forall2 (opR_lt acc) l es -> Forall (fun e => fst (run_lt e) = []) es.
Proof. intros Hl H. induction H as [|op e ops es0 [Hlab _] H IH]; constructor.
  - apply no_labels. rewrite <- (Hl op (or_introl eq_refl)). exact Hlab.
  - apply IH. intros op' Hop'. apply Hl; right; exact Hop'. Qed.
Lemma concat_tensor_ops (ops : list (string * list index)) :
  List.concat (map snd (filter tensor_op ops)) = List.concat (map snd ops).
Proof. induction ops as [|op r IH]; simpl; [reflexivity|]. unfold tensor_op at 1.
  destruct (snd op) eqn:E; simpl; [exact IH|]. rewrite E, IH. reflexivity. Qed.
Lemma is_nil_true {A} (l : list A) : is_nil l = true -> l = [].
Proof. destruct l; [reflexivity|discriminate]. Qed.

(** the text emitted for one step (libtensor backend): whenever a text is
    produced, its free labels are the names of the step's target indices and
    its value is the sum over the contracted indices of the product of the
    operands *)
Theorem codegen_step_semantics_lt D cache acc st e :
  inj_on D -> cache_ok_lt cache acc -> step_ok_lt D acc st ->
  format_contraction cfg Libtensor cache st = Ok e ->
  labs_of e (cs_tgt st) /\
  (forall p, snd (run_lt e) p = step_val acc st (renv p)) /\
  depends_on S (cs_tgt st) (step_val acc st).
Proof. intros HD Hc [Hwf [Hops [Hix Htg]]] Hfc. unfold format_contraction in Hfc.
  destruct (rmap _ (cs_ops st)) as [es| |] eqn:Hes; try discriminate. simpl in Hfc.
  assert (HF : Forall2 (opR_lt acc) (cs_ops st) es).
  { apply rmap_ok_forall2 in Hes. clear Hfc.
    assert (Hi : forall op, In op (cs_ops st) -> incl (snd op) D).
    { intros op Hop z Hz. apply Hix. unfold step_idx. apply in_concat. exists (snd op). split; [apply in_map; exact Hop|exact Hz]. }
    revert Hops Hi. induction Hes as [|op e0 ops es0 He Hes IH]; intros Hops Hi; constructor.
    - inversion Hops; subst. eapply (format_operand_lt D); eauto. apply Hi; left; reflexivity.
    - inversion Hops; subst. apply IH; auto. intros op' Hop'. apply Hi; right; exact Hop'. }
  assert (Hsf := step_wf_facts st Hwf).
  assert (Hdep := step_val_depends acc st es Hsf HF).
  destruct Hsf as [F1 F2 F3 F4].
  destruct (split_operands_lt (opR_lt acc) _ _ HF) as [HT HFa].
  change (fun p : cexpr * list index => negb (is_nil (snd p))) with nonempty in Hfc.
  set (tes := map fst (filter nonempty (combine es (map snd (cs_ops st))))) in *.
  set (factors := map fst (filter (fun p : cexpr * list index => is_nil (snd p)) (combine es (map snd (cs_ops st))))) in *.
  set (tops := filter tensor_op (cs_ops st)) in *.
  set (fops := filter factor_op (cs_ops st)) in *.
  assert (Hfl : Forall (fun e => fst (run_lt e) = []) factors).
  { apply (factors_no_labels acc fops); [|exact HFa]. intros op Hop. unfold fops in Hop.
    apply filter_In in Hop. destruct Hop as [_ Hop]. apply is_nil_true. exact Hop. }
  assert (Hcat : List.concat (map snd tops) = step_idx st) by apply concat_tensor_ops.
  assert (HiT : incl (List.concat (map snd tops)) D) by (rewrite Hcat; exact Hix).
  destruct (labels_union D acc tops tes HD HiT HT) as [L [HL [HLnd HLs]]]. rewrite Hcat in HLs.
  assert (HLD : incl L D) by (intros z Hz; apply Hix; apply HLs; exact Hz).
  set (F' := fun r : env => kprod (map (fun op => operand_val S B acc op r) tops)).
  assert (HF' : depends_on S D F').
  { apply (depends_on_incl (List.concat (map snd tops))); [exact HiT|]. apply (ops_depends acc tops tes HT). }
  assert (HFp : forall p, lt_prod S (map run_lt tes) p = F' (renv p)) by (intros p; apply lt_prod_ops; exact HT).
  (* closing argument, generic in the shape Xs of the tensor part *)
  assert (Hclose : forall Xs, e = CMul (factors ++ Xs) ->
     (exists L', lt_labels S (map run_lt Xs) = map lab L' /\ NoDup L' /\ (forall x, In x L' <-> In x (cs_tgt st))) ->
     (forall p, lt_prod S (map run_lt Xs) p = sum_over (cs_con st) (renv p) F') ->
     labs_of e (cs_tgt st) /\ (forall p, snd (run_lt e) p = step_val acc st (renv p))).
  { intros Xs He HlabX HvalX. subst e. destruct (cmul_factors factors Xs Hfl) as [C1 C2]. split.
    - unfold labs_of. rewrite C1. exact HlabX.
    - intros p. rewrite C2, HvalX. unfold Codegen.step_val.
      rewrite (lt_prod_ops acc fops factors p HFa).
      rewrite <- (sum_over_scal S T). apply sum_over_ext. intros r'.
      symmetry. rewrite (kprod_filter (fun op => operand_val S B acc op r') factor_op (cs_ops st)).
      unfold F'. f_equal.
      apply (ops_depends acc fops factors HFa). intros x Hx. exfalso.
      assert (Hn : forall l : list (string * list index), (forall op, In op l -> snd op = []) -> List.concat (map snd l) = []).
      { induction l as [|o l IHl]; intros Hl; simpl; [reflexivity|].
        rewrite (Hl o (or_introl eq_refl)). simpl. apply IHl. intros op Hop; apply Hl; right; exact Hop. }
      rewrite Hn in Hx; [destruct Hx|]. intros op Hop. unfold fops in Hop. apply filter_In in Hop.
      destruct Hop as [_ Hop]. apply is_nil_true; exact Hop. }
  (* the shape with no contracted index: product of the tensors *)
  assert (Hplain : cs_con st = [] -> e = CMul (factors ++ tes) ->
     labs_of e (cs_tgt st) /\ (forall p, snd (run_lt e) p = step_val acc st (renv p))).
  { intros Hc0 He. apply (Hclose tes He).
    - exists L. split; [exact HL|split; [exact HLnd|]]. intros x. rewrite HLs. split; [|apply F3].
      intros Hx. destruct (F4 x Hx) as [H|H]; [exact H|]. rewrite Hc0 in H. destruct H.
    - intros p. rewrite Hc0. simpl. apply HFp. }
  assert (Hmain : labs_of e (cs_tgt st) /\ (forall p, snd (run_lt e) p = step_val acc st (renv p))).
  { unfold format_libtensor in Hfc.
    destruct tes as [|t0 [|t1 tes']] eqn:Etes.
    - inversion Hfc; subst e. apply Hplain; [|rewrite app_nil_r; reflexivity].
      destruct (cs_con st) as [|x l]; [reflexivity|]. destruct (F2 x (or_introl eq_refl)) as [Hx _].
      apply HLs in Hx. rewrite <- Hcat in HLs. simpl in HL.
      assert (L = []) by (destruct L; [reflexivity|discriminate]). subst L. destruct Hx.
    - destruct (is_nil (cs_con st)) eqn:Ec; try discriminate. inversion Hfc; subst e.
      apply Hplain; [apply is_nil_true; exact Ec|reflexivity].
    - destruct (is_nil (cs_con st)) eqn:Ec; destruct (String.eqb (cat (map iname (cs_tgt st))) "") eqn:Et;
        try discriminate; inversion Hfc; subst e; clear Hfc.
      + (* outer product *) apply Hplain; [apply is_nil_true; exact Ec|reflexivity].
      + (* dot_product *)
        apply String.eqb_eq in Et. apply cat_names_empty in Et.
        apply (Hclose [CDot (t0 :: t1 :: tes')] eq_refl).
        * exists []. rewrite Et. split; [reflexivity|split; [constructor|tauto]].
        * intros p. unfold lt_prod at 1. simpl map. simpl kprod.
          change (map run_lt (t0 :: t1 :: tes')) with (run_lt t0 :: run_lt t1 :: map run_lt tes').
          fold (lt_labels S (run_lt t0 :: run_lt t1 :: map run_lt tes')).
          simpl in HL. rewrite HL. rewrite map_map. simpl.
          transitivity (sum_over L (renv p) F').
          -- transitivity (lsum S (map iname L) (lab_dim (map lab L)) p (lt_prod S (run_lt t0 :: run_lt t1 :: map run_lt tes')) * 1); [reflexivity|].
             assert (Hdim : forall x, In x L -> lab_dim (map lab L) (iname x) = irange x)
               by (intros x Hx; apply (lab_dim_names D); auto).
             rewrite (lsum_sum_over D L (lab_dim (map lab L)) (lt_prod S (run_lt t0 :: run_lt t1 :: map run_lt tes')) F' HD HLD HF' Hdim HFp p). ring.
          -- apply (sum_over_perm S T D); [exact HF'|exact HLnd|].
             apply NoDup_Permutation; [exact HLnd|exact F1|]. intros x. rewrite HLs. split.
             ++ intros Hx. destruct (F4 x Hx) as [H|H]; [rewrite Et in H; destruct H|exact H].
             ++ intros Hx. apply F2; exact Hx.
      + (* contract *)
        apply (Hclose [CContract (map iname (cs_con st)) (t0 :: t1 :: tes')] eq_refl).
        * exists (inodup (filter (fun x => negb (imem x (cs_con st))) L)).
          unfold lt_labels at 1. simpl map. simpl List.concat. rewrite app_nil_r.
          change (map run_lt (t0 :: t1 :: tes')) with (run_lt t0 :: run_lt t1 :: map run_lt tes').
          simpl in HL. rewrite HL.
          assert (HcD : incl (cs_con st) D) by (intros z Hz; apply Hix; apply F2; exact Hz).
          rewrite (filter_lab_names D) by assumption.
          split; [apply (ldedup_names D); auto; intros z Hz; apply filter_In in Hz; apply HLD; tauto|].
          split; [apply inodup_NoDup|]. intros x. rewrite inodup_In, filter_In, negb_true_iff, imem_nIn, HLs.
          split; [intros [Hx Hn]; destruct (F4 x Hx); tauto|].
          intros Hx. split; [apply F3; exact Hx|]. intros Hc'. apply F2 in Hc'. tauto.
        * intros p. unfold lt_prod at 1. simpl map. simpl kprod.
          change (map run_lt (t0 :: t1 :: tes')) with (run_lt t0 :: run_lt t1 :: map run_lt tes').
          simpl in HL. rewrite HL.
          transitivity (lsum S (map iname (cs_con st)) (lab_dim (map lab L)) p (lt_prod S (run_lt t0 :: run_lt t1 :: map run_lt tes')) * 1); [reflexivity|].
          assert (HcD : incl (cs_con st) D) by (intros z Hz; apply Hix; apply F2; exact Hz).
          assert (Hdim : forall x, In x (cs_con st) -> lab_dim (map lab L) (iname x) = irange x).
          { intros x Hx. apply (lab_dim_names D); auto; apply HLs; apply F2; exact Hx. }
          rewrite (lsum_sum_over D (cs_con st) (lab_dim (map lab L)) (lt_prod S (run_lt t0 :: run_lt t1 :: map run_lt tes')) F' HD HcD HF' Hdim HFp p). ring. }
  destruct Hmain as [M1 M2]. split; [exact M1|split; [exact M2|exact Hdep]].
Qed.

Fixpoint scheme_ok_lt (D : list index) (acc : list (string * stepval)) (steps : list cstep) : Prop :=
  match steps with
  | [] => True
  | st :: r => step_ok_lt D acc st /\ scheme_ok_lt D ((cs_name st, (cs_tgt st, step_val acc st)) :: acc) r
  end.
Lemma scheme_ok_lt_app D acc l1 l2 : scheme_ok_lt D acc (l1 ++ l2) <->
  scheme_ok_lt D acc l1 /\ scheme_ok_lt D (scheme_vals acc l1) l2.
Proof. revert acc. induction l1 as [|st r IH]; intros acc; simpl; [tauto|]. rewrite IH. tauto. Qed.

Lemma build_cache_lt D inner : forall cache acc cache',
  inj_on D -> cache_ok_lt cache acc -> scheme_ok_lt D acc inner ->
  build_cache cfg Libtensor cache inner = Ok cache' -> cache_ok_lt cache' (scheme_vals acc inner).
Proof. induction inner as [|st r IH]; intros cache acc cache' HD Hc Hok; simpl.
  - intros H; inversion H; subst; exact Hc.
  - destruct Hok as [Hst Hr].
    destruct (format_contraction cfg Libtensor cache st) as [e| |] eqn:He; try discriminate. simpl.
    destruct (codegen_step_semantics_lt D cache acc st e HD Hc Hst He) as [Hl [Hv Hd]].
    apply IH; auto. constructor; [|exact Hc]. unfold entry_ok_lt; simpl. auto. Qed.

(** whole line of a term, libtensor backend *)
Theorem codegen_term_semantics_lt D t l steps :
  inj_on D -> ct_hasidx t = true -> ct_scheme t = Ok steps -> scheme_ok_lt D [] steps ->
  gen_term cfg hf Libtensor t = Ok l ->
  exists inner o e cm, steps = inner ++ [o] /\ l_neg l = ct_neg t /\ l_body l = Some (e, cm) /\
    format_prefactor hf Libtensor (ct_nums t) (ct_syms t) = Ok (l_pref l) /\
    labs_of e (cs_tgt o) /\
    forall tg p, run_line S T tenv Libtensor tg l p =
              ksgn (ct_neg t) * kprod (map (pfac_val S T) (l_pref l)) *
              step_val (scheme_vals [] inner) o (renv p).
Proof. intros HD Hidx Hsch Hok H. unfold gen_term in H.
  destruct (format_prefactor hf Libtensor (ct_nums t) (ct_syms t)) as [pf| |] eqn:Epf; try discriminate.
  simpl in H. rewrite Hidx in H. simpl in H.
  destruct (scheme_guard (ct_objs t)) as [g| |]; try discriminate. simpl in H. rewrite Hsch in H. simpl in H.
  destruct (format_scaling_comment Libtensor (ct_objspaces t) steps) as [cm| |]; try discriminate. simpl in H.
  destruct (split_inner_outer steps) as [inner outer] eqn:Esp.
  destruct (build_cache cfg Libtensor [] inner) as [cache| |] eqn:Ebc; try discriminate. simpl in H.
  destruct outer as [|o [|o2 outer]]; try discriminate.
  apply split_single_outer in Esp. subst steps.
  apply scheme_ok_lt_app in Hok. destruct Hok as [Hin Hout]. simpl in Hout. destruct Hout as [Ho _].
  assert (Hc := build_cache_lt D inner [] [] cache HD (Forall2_nil _) Hin Ebc).
  destruct (format_contraction cfg Libtensor cache o) as [e| |] eqn:He; try discriminate. simpl in H.
  destruct (codegen_step_semantics_lt D cache (scheme_vals [] inner) o e HD Hc Ho He) as [Hl [Hv Hd]].
  inversion H; subst l. exists inner, o, e, cm. simpl. repeat split; auto.
  intros tg p. unfold run_line; simpl. rewrite Hv. reflexivity. Qed.

(* an emitted prefactor never hides a division: the code's own refusal
   establishes syms_nonneg *)
Theorem emitted_prefactor_nonneg be nums syms pf :
  format_prefactor hf be nums syms = Ok pf -> syms_nonneg syms = true.
Proof. unfold format_prefactor. destruct (syms_nonneg syms); simpl; [reflexivity|discriminate]. Qed.

(* the prefactor is refused exactly for a division by a symbol or an
   unsupported number *)
Theorem refusal_exact_prefactor be nums syms :
  format_prefactor hf be nums syms = Refuse <->
  syms_nonneg syms = false \/
  exists a, In a nums /\ (a = NOther \/ (exists n, a = NSqrt n) /\ hf = false).
Proof. unfold format_prefactor. destruct (syms_nonneg syms); simpl.
  - split.
    + destruct (rmap _ nums) as [nu| |] eqn:En; simpl; try discriminate. intros _. right.
      apply rmap_refuse in En. destruct En as [a [Ha Hr]]. exists a. split; [exact Ha|].
      apply (refusal_exact_number be a). destruct be; exact Hr.
    + intros [H|[a [Ha Hr]]]; [discriminate|].
      rewrite (rmap_refuse_conv _ nums); [reflexivity| |].
      * intros b _. destruct be, b as [p q|n|]; simpl; try discriminate;
          try (destruct hf; discriminate);
          repeat match goal with |- context [match ?x with _ => _ end] => destruct x end; discriminate.
      * exists a. split; [exact Ha|]. apply (refusal_exact_number be a) in Hr. destruct be; exact Hr.
  - split; auto. Qed.

(* the printed prefactor denotes the full prefactor (with divisions) exactly
   when no symbol has a negative exponent *)
Theorem prefactor_value_exact be nums syms pf : syms_nonneg syms = true ->
  format_prefactor hf be nums syms = Ok pf ->
  kprod (map (pfac_val S T) pf) = kprod (map numarg_val nums) * syms_true syms.
Proof. intros Hn H. rewrite (prefactor_value be nums syms pf H), (syms_nonneg_true syms Hn). reflexivity. Qed.

(* unconditional on emitted output *)
Theorem prefactor_value_emitted be nums syms pf :
  format_prefactor hf be nums syms = Ok pf ->
  kprod (map (pfac_val S T) pf) = kprod (map numarg_val nums) * syms_true syms.
Proof. intros H. apply (prefactor_value_exact be nums syms pf); [|exact H].
  apply (emitted_prefactor_nonneg be nums syms pf H). Qed.

(* the scheme search refuses a term exactly if one of its non-number objects
   has a negative exponent (division: symbols included, the test precedes the
   symbol skip) or is neither symbol nor tensor nor delta *)
Definition offending (o : okind * Z) : bool :=
  match fst o with
  | OkNumber => false
  | OkOther => true
  | _ => Z.ltb (snd o) 0
  end.
Theorem refusal_exact_guard objs :
  (scheme_guard objs = Refuse <-> existsb offending objs = true) /\
  (scheme_guard objs = Ok tt <-> existsb offending objs = false).
Proof. induction objs as [|[k e] r [IH1 IH2]]; simpl.
  - split; split; try discriminate; reflexivity.
  - unfold offending at 1 3. simpl. destruct k; simpl.
    + split; assumption.
    + destruct (Z.ltb e 0); simpl; [split; split; try discriminate; reflexivity|split; assumption].
    + destruct (Z.ltb e 0); simpl; [split; split; try discriminate; reflexivity|split; assumption].
    + destruct (Z.ltb e 0); simpl; split; split; try discriminate; reflexivity. Qed.

(* whenever a line with a contraction is emitted for a term, the term contains
   no division and no symbol with negative exponent *)
Theorem emitted_contraction_no_division be t l : ct_hasidx t = true ->
  gen_term cfg hf be t = Ok l -> existsb offending (ct_objs t) = false.
Proof. intros Hi H. unfold gen_term in H.
  destruct (format_prefactor hf be (ct_nums t) (ct_syms t)); try discriminate. simpl in H.
  rewrite Hi in H. simpl in H. destruct (scheme_guard (ct_objs t)) as [[]| |] eqn:E; try discriminate.
  apply (proj2 (refusal_exact_guard (ct_objs t))). exact E. Qed.

(* ------------------------------------------------------------------ *)
(** * Whole program: blocks of lines under permutation operators *)

(* reference value of a block: X + sum_k sign_k X o pi_k, X = sum of the
   values V of its terms (functions of the index assignment) *)
Definition block_ref (bi : list (list (index * index) * Z) * list (env -> K S)) (r : env) : K S :=
  let X := fun r' => ksum (snd bi) (fun V => V r') in
  X r + ksum (fst bi) (fun pf => sgnZ (snd pf) * X (fun x => r (perm_idx (fst pf) x))).

Definition line_ok (be : backend) (tgt : list string) (D : list index) (V : env -> K S) (l : line) : Prop :=
  depends_on S D V /\ forall p, run_line S T tenv be tgt l p = V (renv p).
Definition block_ok (be : backend) (tgt : list string) (D : list index)
           (bi : list (list (index * index) * Z) * list (env -> K S)) (b : permsym * list line) : Prop :=
  gen_permsym (fst bi) = Ok (fst b) /\ Forall2 (line_ok be tgt D) (snd bi) (snd b) /\
  (forall pf pq, In pf (fst bi) -> In pq (fst pf) -> In (fst pq) D /\ In (snd pq) D).

Lemma ksum_lines be tgt D Vs ls : Forall2 (line_ok be tgt D) Vs ls ->
  depends_on S D (fun r => ksum Vs (fun V => V r)) /\
  forall p, ksum ls (fun l => run_line S T tenv be tgt l p) = ksum Vs (fun V => V (renv p)).
Proof. intros H. induction H as [|V l Vs ls [Hd Hv] H [I1 I2]]; simpl; split; auto.
  - intros r1 r2 _; reflexivity.
  - intros r1 r2 Ha. rewrite (Hd r1 r2 Ha), (I1 r1 r2 Ha). reflexivity.
  - intros p. rewrite Hv, I2. reflexivity. Qed.

(** the value of the whole emitted program is the sum over its blocks of the
    permutation-symmetrised sums of the term values *)
Theorem codegen_prog_semantics be tgt D bis pr :
  inj_on D -> Forall2 (block_ok be tgt D) bis pr ->
  forall p, run_prog S T tenv be tgt pr p = ksum bis (fun bi => block_ref bi (renv p)).
Proof. intros HD H p. unfold run_prog. induction H as [|bi b bis pr [Hg [Hl Hin]] H IH]; simpl; [reflexivity|].
  rewrite IH. f_equal. unfold run_block, block_ref.
  destruct (ksum_lines be tgt D _ _ Hl) as [Hd Hv].
  rewrite (perm_apply_semantics D (fst bi) (fst b) _ (fun r => ksum (snd bi) (fun V => V r)) HD Hin Hg Hd Hv p).
  reflexivity. Qed.

(* ------------------------------------------------------------------ *)
(** * Unoptimised scheme = the term (Core semantics) *)

(* the single simultaneous contraction of all objects of a term computes the
   term: value of the step * coefficient = eval_term *)
Theorem unoptimized_step_is_term (tm : term) (tg : list index) nm ops con tgt :
  Forall2 (fun op f => snd f = false /\ is_contraction (fst op) = false /\
                       forall r, B (fst op) (snd op) r = atom_val S T r (fst f)) ops (tfacs tm) ->
  NoDup con -> (forall x, In x con <-> In x (contracted tg tm)) ->
  forall r, ofQ S (tcoef tm) * step_val [] (CStep nm ops con tgt) r = eval_term S T tg r tm.
Proof. intros HF Hnd Hset r. unfold eval_term, Codegen.step_val; simpl.
  rewrite <- (sum_over_scal S T).
  assert (Hdep : depends_on S (term_idx tm) (fun r' => term_val S T r' tm)).
  { intros r1 r2 Ha. apply term_val_agree. exact Ha. }
  transitivity (sum_over con r (fun r' => term_val S T r' tm)).
  - apply sum_over_ext. intros r'. unfold term_val, mono_val. f_equal.
    clear - HF. induction HF as [|op f ops fs [Hinv [Hc Hv]] HF IH]; simpl; [reflexivity|].
    rewrite IH. f_equal. unfold operand_val. rewrite Hc. rewrite Hv. unfold fac_val. rewrite Hinv. reflexivity.
  - apply (sum_over_perm S T (term_idx tm)); [exact Hdep|exact Hnd|].
    apply NoDup_Permutation; [exact Hnd| |exact Hset].
    unfold contracted, contracted_of. apply NoDup_filter. apply inodup_NoDup. Qed.

(* ------------------------------------------------------------------ *)
(** * The decidable checks evaluated on every observed scheme imply the
      structural hypotheses of the theorems *)

Lemma idx_list_eqb_eq a b : idx_list_eqb a b = true -> a = b.
Proof. revert b. induction a as [|x a IH]; intros [|y b]; simpl; try discriminate; [reflexivity|].
  intros H. apply andb_true_iff in H. destruct H as [H1 H2]. apply index_eqb_eq in H1. subst. f_equal. apply IH; exact H2. Qed.

Definition prev_of (acc : list (string * stepval)) : list (string * list index) :=
  map (fun av : string * stepval => (fst av, fst (snd av))) acc.
Lemma lookup_prev acc nm tg : lookup nm (prev_of acc) = Some tg -> exists v, lookup nm acc = Some (tg, v).
Proof. induction acc as [|[k [tg' v]] acc IH]; simpl; [discriminate|].
  destruct (String.eqb k nm); [intros H; inversion H; subst; exists v; reflexivity|exact IH]. Qed.

(* base operands are bound to their printed names (numpy / libtensor) *)
Definition base_bound_np (steps : list cstep) : Prop :=
  forall op, In op (base_ops steps) ->
    dims_ok (snd op) (tenv (translate_adcc cfg (fst op) (snd op))) /\
    forall r, aval S (tenv (translate_adcc cfg (fst op) (snd op))) (map r (snd op)) = B (fst op) (snd op) r.
Definition base_bound_lt (steps : list cstep) : Prop :=
  forall op, In op (base_ops steps) -> forall n, translate_libadc cfg (fst op) (snd op) = Ok n ->
    dims_ok (snd op) (tenv n) /\ forall r, aval S (tenv n) (map r (snd op)) = B (fst op) (snd op) r.

Lemma base_ops_cons st r op : In op (cs_ops st) -> is_contraction (fst op) = false -> In op (base_ops (st :: r)).
Proof. intros H1 H2. unfold base_ops. simpl. rewrite filter_app. apply in_or_app. left.
  apply filter_In. split; [exact H1|rewrite H2; reflexivity]. Qed.
Lemma base_ops_tail st r op : In op (base_ops r) -> In op (base_ops (st :: r)).
Proof. unfold base_ops. simpl. rewrite filter_app. intros H. apply in_or_app. right; exact H. Qed.

Lemma scheme_idx_cons st r D : incl (scheme_idx (st :: r)) D ->
  incl (step_idx st) D /\ incl (cs_tgt st) D /\ incl (scheme_idx r) D.
Proof. unfold scheme_idx. simpl. intros H. repeat split; intros z Hz; apply H.
  - apply in_or_app; left. apply in_or_app; left; exact Hz.
  - apply in_or_app; left. apply in_or_app; right. apply in_or_app; right; exact Hz.
  - apply in_or_app; right; exact Hz. Qed.

Lemma scheme_ok_of_checks D steps : forall acc,
  forallb step_wf steps = true -> link_ok (prev_of acc) steps = true ->
  base_bound_np steps -> incl (scheme_idx steps) D -> scheme_ok D acc steps.
Proof. induction steps as [|st r IH]; intros acc Hwf Hl Hb Hi; simpl; [exact I|].
  simpl in Hwf, Hl. apply andb_true_iff in Hwf. destruct Hwf as [W1 W2].
  apply andb_true_iff in Hl. destruct Hl as [L1 L2].
  destruct (scheme_idx_cons st r D Hi) as [I1 [I2 I3]]. split.
  - unfold step_ok. repeat split; auto. rewrite forallb_forall in L1. apply Forall_forall. intros op Hop.
    specialize (L1 op Hop). unfold op_ok. destruct (is_contraction (fst op)) eqn:Ec.
    + destruct (lookup (fst op) (prev_of acc)) as [tg|] eqn:El; try discriminate.
      apply idx_list_eqb_eq in L1. subst tg. apply lookup_prev; exact El.
    + apply Hb. apply base_ops_cons; assumption.
  - apply IH; auto. intros op Hop. apply Hb. apply base_ops_tail; exact Hop. Qed.

Lemma scheme_ok_lt_of_checks D steps : forall acc,
  forallb step_wf steps = true -> link_ok (prev_of acc) steps = true ->
  base_bound_lt steps -> incl (scheme_idx steps) D -> scheme_ok_lt D acc steps.
Proof. induction steps as [|st r IH]; intros acc Hwf Hl Hb Hi; simpl; [exact I|].
  simpl in Hwf, Hl. apply andb_true_iff in Hwf. destruct Hwf as [W1 W2].
  apply andb_true_iff in Hl. destruct Hl as [L1 L2].
  destruct (scheme_idx_cons st r D Hi) as [I1 [I2 I3]]. split.
  - unfold step_ok_lt. repeat split; auto. rewrite forallb_forall in L1. apply Forall_forall. intros op Hop.
    specialize (L1 op Hop). unfold op_ok_lt. destruct (is_contraction (fst op)) eqn:Ec.
    + destruct (lookup (fst op) (prev_of acc)) as [tg|] eqn:El; try discriminate.
      apply idx_list_eqb_eq in L1. subst tg. apply lookup_prev; exact El.
    + apply Hb. apply base_ops_cons; assumption.
  - apply IH; auto. intros op Hop. apply Hb. apply base_ops_tail; exact Hop. Qed.

End Sem.
