(* C17 - model of adcgen/generate_code/generate_code.py.

   1. abstract syntax of the emitted text ([prog]) and the printer
      [print_prog] that DEFINES the concrete syntax;
   2. the deterministic generator model [codegen] (statement by statement:
      generate_code's per-term loop, format_contraction,
      format_einsum_contraction, format_libtensor_contraction,
      translate_adcc_names, translate_libadc_names, format_scaling_comment,
      format_prefactor, _format_python_prefactor, _format_cpp_prefactor,
      format_perm_symmetry) and of Obj.longname;
   3. an interpreter [run_prog] for the abstract syntax over an arbitrary
      [Scalar] (einsum semantics by index letters, libtensor contract /
      dot_product / products on labelled tensors, permutation operators).

   The contraction scheme (list of steps: operand names and indices,
   contracted indices, target indices, contraction names) and the dictionary
   returned by exploit_perm_sym are INPUT data observed from the running
   implementation; their own properties belong to C16 / C10.
   Proofs are in CodegenProofs.v. *)
From Coq Require Import ZArith NArith QArith List Bool String Ascii DecimalString Lia.
From ADC Require Import Core.Scalar Core.Index Core.Expr.
Import ListNotations.
Open Scope string_scope.

(* ------------------------------------------------------------------ *)
(** * Strings *)

Definition nstr (n : N) : string := NilEmpty.string_of_uint (N.to_uint n).
Definition pstr (p : positive) : string := nstr (Npos p).
Definition natstr (n : nat) : string := nstr (N.of_nat n).
Definition chr (n : N) : string := String (ascii_of_N n) EmptyString.
Definition join (sep : string) (l : list string) : string := String.concat sep l.
Definition cat (l : list string) : string := String.concat "" l.
Definition nl : string := String (ascii_of_N 10) EmptyString.
Definition dq : string := String (ascii_of_N 34) EmptyString.

Fixpoint str_mem (s : string) (l : list string) : bool :=
  match l with [] => false | x :: r => String.eqb s x || str_mem s r end.

(* str.split(c) *)
Fixpoint split_on_aux (c : ascii) (s : string) (cur : string) : list string :=
  match s with
  | EmptyString => [cur]
  | String a r => if Ascii.eqb a c then cur :: split_on_aux c r ""
                  else split_on_aux c r (cur ++ String a EmptyString)
  end.
Definition split_on (c : ascii) (s : string) := split_on_aux c s "".

Fixpoint drop (n : nat) (s : string) : string :=
  match n, s with O, _ => s | S n', String _ r => drop n' r | _, EmptyString => "" end.
Fixpoint take (n : nat) (s : string) : string :=
  match n, s with O, _ => "" | S n', String a r => String a (take n' r) | _, EmptyString => "" end.
Fixpoint remove_char (c : ascii) (s : string) : string :=
  match s with EmptyString => "" | String a r => if Ascii.eqb a c then remove_char c r else String a (remove_char c r) end.
Definition is_digit (a : ascii) : bool := let n := N_of_ascii a in (48 <=? n)%N && (n <=? 57)%N.
Fixpoint all_digits (s : string) : bool :=
  match s with EmptyString => true | String a r => is_digit a && all_digits r end.
(* str.isnumeric() restricted to ASCII *)
Definition isnumeric (s : string) : bool := negb (String.eqb s "") && all_digits s.

(* ------------------------------------------------------------------ *)
(** * Names of indices and spaces *)

Definition iname (i : index) : string :=
  chr (iletter i) ++ (if N.eqb (inum i) 0 then "" else nstr (inum i)).
Definition space_chr (s : space) : string := match s with Occ => "o" | Virt => "v" | Gen => "g" end.
Definition spaces_str (l : list space) : string := cat (map space_chr l).
Definition space_str (l : list index) : string := spaces_str (map ispace l).

(* ------------------------------------------------------------------ *)
(** * Abstract syntax of the emitted text *)

(* one multiplicative factor of a prefactor *)
Inductive pfac :=
| FInt (n : N)                    (* "3" *)
| FFloat (n : N)                  (* "3.0" *)
| FHalf                           (* "0.5" *)
| FQuarter                        (* "0.25" *)
| FDivI (p : N) (q : positive)    (* "3 / 7" *)
| FDivF (p : N) (q : positive)    (* "3.0 / 7.0" *)
| FSqrtPy (n : positive)          (* "sqrt(6)" *)
| FSqrtCpp (n : positive)         (* "constants::sq6" *)
| FSym (s : string).              (* symbol *)

Inductive cexpr :=
| CName (s : string)                                   (* numpy array, e.g. hf.oovv *)
| CLab (s : string) (ls : list string)                 (* libtensor labelled tensor  t2_1(i|j|a|b) *)
| CEinsum (specs : list (list string)) (out : list string) (args : list cexpr)
| CContract (con : list string) (args : list cexpr)    (* contract(i|j, ...) *)
| CDot (args : list cexpr)                             (* dot_product(...) *)
| CMul (args : list cexpr).                            (* a * b * c *)

Record line := Line { l_neg : bool; l_pref : list pfac;
                      l_body : option (cexpr * string) }.   (* contraction, scaling comment *)
(* permutation operator: list of (product of transpositions, negative?) *)
Definition permsym := list (list (string * string) * bool).
Definition prog := list (permsym * list line).

(* ------------------------------------------------------------------ *)
(** * The printer: concrete syntax *)

Definition print_pfac (f : pfac) : string :=
  match f with
  | FInt n => nstr n
  | FFloat n => nstr n ++ ".0"
  | FHalf => "0.5"
  | FQuarter => "0.25"
  | FDivI p q => nstr p ++ " / " ++ pstr q
  | FDivF p q => nstr p ++ ".0 / " ++ pstr q ++ ".0"
  | FSqrtPy n => "sqrt(" ++ pstr n ++ ")"
  | FSqrtCpp n => "constants::sq" ++ pstr n
  | FSym s => s
  end.

Fixpoint print_cexpr (e : cexpr) : string :=
  match e with
  | CName s => s
  | CLab s ls => s ++ "(" ++ join "|" ls ++ ")"
  | CEinsum specs out args =>
      "einsum(" ++ dq ++ join "," (map cat specs) ++ "->" ++ cat out ++ dq ++ ", "
      ++ join ", " (map print_cexpr args) ++ ")"
  | CContract con args =>
      "contract(" ++ join "|" con ++ ", " ++ join ", " (map print_cexpr args) ++ ")"
  | CDot args => "dot_product(" ++ join ", " (map print_cexpr args) ++ ")"
  | CMul args => join " * " (map print_cexpr args)
  end.

Definition print_line (l : line) : string :=
  (if l_neg l then "-" else "+") ++ " " ++ join " * " (map print_pfac (l_pref l)) ++
  match l_body l with
  | None => ""
  | Some (e, comment) => " * " ++ print_cexpr e ++ "  " ++ comment
  end.

Definition print_perm (pq : string * string) : string := "P_" ++ fst pq ++ snd pq.
Definition print_permsym (ps : permsym) : string :=
  match ps with
  | [] => "1"
  | _ => "(" ++ join " " ("1" :: map (fun pf : list (string * string) * bool => (if snd pf then "- " else "+ ") ++ cat (map print_perm (fst pf))) ps) ++ ")"
  end.

Definition block_header : string :=
  "The scaling comment is given as: [comp_scaling] / [mem_scaling]" ++ nl.
Definition print_block (b : permsym * list line) : string :=
  block_header ++ "Apply " ++ print_permsym (fst b) ++ " to:" ++ nl ++ join nl (map print_line (snd b)).
Definition print_prog (p : prog) : string := join (nl ++ nl) (map print_block p).

(* ------------------------------------------------------------------ *)
(** * The generator model *)

(* outcome of the implementation: a value, the documented refusal
   (NotImplementedError) or any other exception *)
Inductive res (A : Type) := Ok (a : A) | Refuse | Crash.
Arguments Ok {A} a. Arguments Refuse {A}. Arguments Crash {A}.
Definition rbind {A B} (x : res A) (f : A -> res B) : res B :=
  match x with Ok a => f a | Refuse => Refuse | Crash => Crash end.
Notation "'do' x <- e ;; f" := (rbind e (fun x => f)) (at level 200, x name, e at level 100, f at level 200).
Fixpoint rmap {A B} (f : A -> res B) (l : list A) : res (list B) :=
  match l with
  | [] => Ok []
  | x :: r => do y <- f x ;; do ys <- rmap f r ;; Ok (y :: ys)
  end.

Inductive backend := Einsum | Libtensor.

(* the part of adcgen.tensor_names that the code generator reads *)
Record tnames := { n_eri : string; n_fock : string; n_gs_amp : string;
                   n_gs_dens : string; n_left : string; n_right : string }.
Definition default_tnames := {| n_eri := "V"; n_fock := "f"; n_gs_amp := "t";
                                n_gs_dens := "p"; n_left := "X"; n_right := "Y" |}.

Section Gen.
Variable cfg : tnames.
(* value of the Python expression  sympy.S.Half == 0.5  (True before sympy
   1.13, False since); decides whether the sqrt branch of the prefactor
   formatting is reachable *)
Variable half_eq_float : bool.

(** translate_adcc_names:  base = name.split("_")[0]  is compared with the
    ERI / Fock name *)
Definition name_base (name : string) : string := hd "" (split_on "_"%char name).
Definition translate_adcc (name : string) (idx : list index) : string :=
  if String.eqb (name_base name) (n_eri cfg) then "hf." ++ space_str idx
  else if String.eqb (name_base name) (n_fock cfg) then "hf.f" ++ space_str idx
  else name.

(** translate_libadc_names;  `_, n = name.split("_")` raises ValueError unless
    there are exactly two parts *)
Definition translate_libadc (name : string) (idx : list index) : res string :=
  if String.eqb (name_base name) (n_eri cfg) then Ok ("i_" ++ space_str idx)
  else if prefix "t2eri" name then
    match split_on "_"%char name with
    | [_; n] => Ok ("pi" ++ n)
    | _ => Crash
    end
  else Ok name.

(** one step of a contraction scheme (class Contraction) *)
Record cstep := CStep { cs_name : string;                         (* contraction_<id> *)
                        cs_ops : list (string * list index);       (* names, indices *)
                        cs_con : list index;                       (* contracted *)
                        cs_tgt : list index }.                     (* target *)

Definition is_contraction (s : string) : bool := prefix "contraction" s.

Fixpoint lookup {A} (s : string) (c : list (string * A)) : option A :=
  match c with [] => None | (k, v) :: r => if String.eqb k s then Some v else lookup s r end.

Fixpoint icount (x : index) (l : list index) : nat :=
  match l with [] => O | y :: r => (if index_eqb x y then 1 else 0) + icount x r end.

(* libtensor: an index of the object that is contracted occurs more than once
   on the object (partial trace) *)
Definition partial_trace (con idx : list index) : bool :=
  existsb (fun x => imem x con && Nat.ltb 1 (icount x idx)) idx.

(* einsum: an index of the object has a name that is not a single letter
   (numpy subscripts are single letters) -> NotImplementedError *)
Definition multi_letter (idx : list index) : bool :=
  existsb (fun x => negb (Nat.eqb (String.length (iname x)) 1)) idx.

(* the loop body of format_contraction: returns the string standing for the
   operand and whether it is a tensor (has indices) *)
Definition format_operand (be : backend) (cache : list (string * cexpr)) (con : list index)
           (op : string * list index) : res cexpr :=
  let (name, idx) := op in
  if is_contraction name then
    match lookup name cache with Some e => Ok e | None => Crash end
  else match be with
       | Einsum => if multi_letter idx then Refuse
                   else Ok (CName (translate_adcc name idx))
       | Libtensor =>
           if partial_trace con idx then Refuse
           else do n <- translate_libadc name idx ;; Ok (CLab n (map iname idx))
       end.

Definition is_nil {A} (l : list A) : bool := match l with [] => true | _ => false end.

(** format_einsum_contraction *)
Definition format_einsum (tensors factors : list cexpr) (indices : list (list string))
           (target : list string) : cexpr :=
  CMul (app factors
        match tensors, indices with
        | [t], i0 :: _ => if String.eqb (cat i0) (cat target) then [t]
                          else [CEinsum indices target tensors]
        | [], _ => []
        | _, _ => [CEinsum indices target tensors]
        end).

(** format_libtensor_contraction *)
Definition format_libtensor (tensors factors : list cexpr) (target : list string)
           (contracted : list index) : res cexpr :=
  match tensors with
  | [] => Ok (CMul factors)
  | [t] => if is_nil contracted then Ok (CMul (factors ++ [t])%list) else Crash   (* assert *)
  | _ =>
      match is_nil contracted, String.eqb (cat target) "" with
      | false, false => Ok (CMul (factors ++ [CContract (map iname contracted) tensors])%list)
      | true, false => Ok (CMul (factors ++ tensors)%list)
      | false, true => Ok (CMul (factors ++ [CDot tensors])%list)
      | true, true => Refuse
      end
  end.

(** format_contraction *)
Definition format_contraction (be : backend) (cache : list (string * cexpr)) (st : cstep)
  : res cexpr :=
  do ops <- rmap (format_operand be cache (cs_con st)) (cs_ops st) ;;
  let tagged := combine ops (map snd (cs_ops st)) in
  let tensors := map fst (filter (fun p => negb (is_nil (snd p))) tagged) in
  let factors := map fst (filter (fun p => is_nil (snd p)) tagged) in
  let idxstr := map (fun p => map iname (snd p)) (filter (fun p => negb (is_nil (snd p))) tagged) in
  let target := map iname (cs_tgt st) in
  match be with
  | Einsum => Ok (format_einsum tensors factors idxstr target)
  | Libtensor => format_libtensor tensors factors target (cs_con st)
  end.

(** scaling of a contraction, ScalingComponent = (total, general, virt, occ) *)
Definition scal := (nat * nat * nat * nat)%type.
Definition count_space (s : space) (l : list space) : nat :=
  List.length (filter (fun x => space_eqb x s) l).
Definition comp_of (l : list space) : scal :=
  (List.length l, count_space Gen l, count_space Virt l, count_space Occ l).
Definition scal_key (s : scal) : list N :=
  let '(t, g, v, o) := s in [N.of_nat t; N.of_nat g; N.of_nat v; N.of_nat o].
Definition scal_max (a b : scal) : scal := if lex_ltb (scal_key a) (scal_key b) then b else a.
Definition step_comp (st : cstep) : scal := comp_of (map ispace (cs_con st ++ cs_tgt st)%list).
Definition step_mem (st : cstep) : scal := comp_of (map ispace (cs_tgt st)).
Definition maxl (l : list scal) : option scal :=
  match l with [] => None | x :: r => Some (fold_left scal_max r x) end.

Definition scal_str (s : scal) : string :=
  let '(t, g, v, o) := s in
  "N^" ++ natstr t ++ ": " ++
  (if Nat.eqb o 0 then "" else "O^" ++ natstr o) ++
  (if Nat.eqb v 0 then "" else "V^" ++ natstr v) ++
  (if Nat.eqb g 0 then "" else "G^" ++ natstr g).

(** format_scaling_comment; objspaces = [obj.space for obj in term.objects] *)
Definition format_scaling_comment (be : backend) (objspaces : list (list space))
           (steps : list cstep) : res string :=
  match maxl (map step_comp steps), maxl (map step_mem steps), maxl (map comp_of objspaces) with
  | Some c, Some m, Some tm =>
      let m' := scal_max m tm in
      Ok ((match be with Einsum => "#" | Libtensor => "//" end) ++ " " ++ scal_str c ++ " / " ++ scal_str m')
  | _, _, _ => Crash
  end.

(** number prefactor: the arguments of the sympy number |term.prefactor|
    (one argument, or the args of a Mul) *)
Inductive numarg :=
| NRat (p : N) (q : positive)          (* Rational p/q in lowest terms *)
| NSqrt (n : positive)                 (* Pow(n, 1/2) *)
| NOther.                              (* anything else *)

Definition format_python_num (a : numarg) : res pfac :=
  match a with
  | NRat p 1%positive => Ok (FInt p)
  | NRat 1%N 2%positive => Ok FHalf
  | NRat 1%N 4%positive => Ok FQuarter
  | NRat p q => Ok (FDivI p q)
  | NSqrt n => if half_eq_float then Ok (FSqrtPy n) else Refuse
  | NOther => Refuse
  end.
Definition format_cpp_num (a : numarg) : res pfac :=
  match a with
  | NRat p 1%positive => Ok (FFloat p)
  | NRat 1%N 2%positive => Ok FHalf
  | NRat 1%N 4%positive => Ok FQuarter
  | NRat p q => Ok (FDivF p q)
  | NSqrt n => if half_eq_float then Ok (FSqrtCpp n) else Refuse
  | NOther => Refuse
  end.

(** format_prefactor.  syms: for every Symbol object of the term str(obj.base)
    and its exponent.  A negative exponent (division by a symbol) is refused
    first; range(exponent) then prints exponent copies. *)
Fixpoint sym_names (syms : list (string * Z)) : list pfac :=
  match syms with
  | [] => []
  | (s, e) :: r => (repeat (FSym s) (Z.to_nat e) ++ sym_names r)%list
  end.
(* all symbol exponents are non-negative: only then the printed symbols denote
   the symbolic prefactor (range(exponent) prints nothing for 1/x) *)
Definition syms_nonneg (syms : list (string * Z)) : bool :=
  forallb (fun se : string * Z => Z.leb 0 (snd se)) syms.
Definition format_prefactor (be : backend) (nums : list numarg)
           (syms : list (string * Z)) : res (list pfac) :=
  if negb (syms_nonneg syms) then Refuse      (* "Prefactors not implemented for divisions" *)
  else
  do nu <- rmap (match be with Einsum => format_python_num | Libtensor => format_cpp_num end) nums ;;
  Ok (nu ++ sym_names syms)%list.

(** the loop over term.objects at the beginning of optimize_contractions and
    unoptimized_contraction: numbers are skipped, then a negative exponent is
    refused ("Contractions not implemented for divisions") BEFORE symbols are
    skipped, then anything that is not a tensor or delta is refused *)
Inductive okind := OkNumber | OkSymbol | OkTensor | OkOther.
Fixpoint scheme_guard (objs : list (okind * Z)) : res unit :=
  match objs with
  | [] => Ok tt
  | (OkNumber, _) :: r => scheme_guard r
  | (k, e) :: r =>
      if Z.ltb e 0 then Refuse
      else match k with
           | OkOther => Refuse
           | _ => scheme_guard r
           end
  end.

(** one term as seen by generate_code *)
Record cterm := CTerm { ct_neg : bool;                          (* term.prefactor < 0 *)
                        ct_nums : list numarg;
                        ct_syms : list (string * Z);
                        ct_objs : list (okind * Z);             (* kind of base, exponent of term.objects *)
                        ct_hasidx : bool;                       (* bool(term.idx) *)
                        ct_objspaces : list (list space);
                        ct_scheme : res (list cstep) }.          (* result of the scheme search *)

(* inner / outer split: a contraction whose name is used by a later one is inner *)
Fixpoint split_inner_outer (steps : list cstep) : list cstep * list cstep :=
  match steps with
  | [] => ([], [])
  | st :: r =>
      let (i, o) := split_inner_outer r in
      if existsb (fun other => str_mem (cs_name st) (map fst (cs_ops other))) r
      then (st :: i, o) else (i, st :: o)
  end.

Fixpoint build_cache (be : backend) (cache : list (string * cexpr)) (inner : list cstep)
  : res (list (string * cexpr)) :=
  match inner with
  | [] => Ok cache
  | st :: r => do e <- format_contraction be cache st ;;
               build_cache be ((cs_name st, e) :: cache) r
  end.

Definition gen_term (be : backend) (t : cterm) : res line :=
  do pf <- format_prefactor be (ct_nums t) (ct_syms t) ;;
  if negb (ct_hasidx t) then Ok (Line (ct_neg t) pf None)
  else
    do _g <- scheme_guard (ct_objs t) ;;
    do steps <- ct_scheme t ;;
    do comment <- format_scaling_comment be (ct_objspaces t) steps ;;
    let (inner, outer) := split_inner_outer steps in
    do cache <- build_cache be [] inner ;;
    match outer with
    | [o] => do e <- format_contraction be cache o ;; Ok (Line (ct_neg t) pf (Some (e, comment)))
    | _ => Crash
    end.

(** format_perm_symmetry: factor must be +1 or -1 (assert) *)
Definition gen_permsym (ps : list (list (index * index) * Z)) : res permsym :=
  rmap (fun pf => let '(perms, f) := pf in
                  if Z.eqb f 1 then Ok (map (fun pq => (iname (fst pq), iname (snd pq))) perms, false)
                  else if Z.eqb f (-1) then Ok (map (fun pq => (iname (fst pq), iname (snd pq))) perms, true)
                  else Crash) ps.

Definition gen_block (be : backend) (b : list (list (index * index) * Z) * list cterm)
  : res (permsym * list line) :=
  do ps <- gen_permsym (fst b) ;;
  do ls <- rmap (gen_term be) (snd b) ;;
  Ok (ps, ls).

Definition codegen (be : backend) (p : list (list (list (index * index) * Z) * list cterm)) : res prog :=
  rmap (gen_block be) p.

(** Obj.longname for tensors and deltas (use_default_names = False).
    upper/lower lengths and the space string of all indices. *)
Definition is_t_amplitude (name : string) : bool :=
  let n := String.length (n_gs_amp cfg) in
  let base := take n name in
  let order := remove_char "c"%char (drop n name) in
  if String.eqb order "" then String.eqb base (n_gs_amp cfg)
  else String.eqb base (n_gs_amp cfg) && isnumeric order.
Definition is_gs_density (name : string) : bool :=
  let n := String.length (n_gs_dens cfg) in
  let base := take n name in
  let order := drop n name in
  if String.eqb order "" then String.eqb base (n_gs_dens cfg)
  else String.eqb base (n_gs_dens cfg) && isnumeric order.
Definition is_adc_amplitude (name : string) : bool :=
  String.eqb name (n_left cfg) || String.eqb name (n_right cfg).

(* amp: the tensor is an Amplitude (its indices are listed lower before upper) *)
Inductive lobj := LTens (amp : bool) (name : string) (upper lower : list index) | LDelta (i j : index).

Definition longname (o : lobj) : res string :=
  match o with
  | LDelta i j => Ok ("d_" ++ space_str [i; j])
  | LTens amp name up lo =>
      let sp := map ispace (if amp then lo ++ up else up ++ lo)%list in
      if is_t_amplitude name then
        if negb (Nat.eqb (List.length up) (List.length lo)) then Crash
        else
          let n := String.length (n_gs_amp cfg) in
          let base := take n name in let ext := drop n name in
          if String.eqb ext "" then Ok (base ++ natstr (List.length up))
          else Ok (base ++ natstr (List.length up) ++ "_" ++ ext)
      else if is_adc_amplitude name then
        if existsb (fun s => space_eqb s Gen) sp then Crash    (* assert *)
        else
          let n_o := count_space Occ sp in let n_v := count_space Virt sp in
          let n := if Nat.eqb n_o n_v then n_o else S (Nat.min n_o n_v) in
          Ok ("u" ++ (if String.eqb name (n_left cfg) then "l" else "r") ++ natstr n)
      else if is_gs_density name then
        if negb (Nat.eqb (List.length up) (List.length lo)) then Crash
        else
          let n := String.length (n_gs_dens cfg) in
          let base := take n name in let ext := drop n name in
          if String.eqb ext "" then Ok (base ++ "0_" ++ spaces_str sp)
          else Ok (base ++ "0_" ++ ext ++ "_" ++ spaces_str sp)
      else if prefix "t2eri" name then Ok ("t2eri_" ++ drop 5 name)
      else if String.eqb name "t2sq" then Ok name
      else Ok (name ++ "_" ++ spaces_str sp)
  end.

End Gen.

(* ------------------------------------------------------------------ *)
(** * Well-formedness checks (decidable; evaluated by the harness on every
      observed scheme, hypotheses of the theorems) *)

Definition names_inj (D : list index) : bool :=
  forallb (fun x => forallb (fun y => implb (String.eqb (iname x) (iname y)) (index_eqb x y)) D) D.
(* numpy subscripts are single letters *)
Definition single_letter (D : list index) : bool := forallb (fun x => N.eqb (inum x) 0) D.
Fixpoint inodupb (l : list index) : bool :=
  match l with [] => true | x :: r => negb (imem x r) && inodupb r end.
Definition step_idx (st : cstep) : list index := List.concat (map snd (cs_ops st)).
(* contracted and target indices partition the indices of the operands *)
Definition step_wf (st : cstep) : bool :=
  let ix := step_idx st in
  inodupb (cs_con st) && inodupb (cs_tgt st) &&
  forallb (fun x => imem x ix && negb (imem x (cs_tgt st))) (cs_con st) &&
  forallb (fun x => imem x ix) (cs_tgt st) &&
  forallb (fun x => imem x (cs_tgt st) || imem x (cs_con st)) ix.
Definition scheme_idx (steps : list cstep) : list index :=
  List.concat (map (fun st => (step_idx st ++ cs_con st ++ cs_tgt st)%list) steps).

(* inner results are used with exactly their target indices *)
Fixpoint idx_list_eqb (a b : list index) : bool :=
  match a, b with
  | [], [] => true
  | x :: a', y :: b' => index_eqb x y && idx_list_eqb a' b'
  | _, _ => false
  end.
Fixpoint link_ok (prev : list (string * list index)) (steps : list cstep) : bool :=
  match steps with
  | [] => true
  | st :: r =>
      forallb (fun op : string * list index =>
                 if is_contraction (fst op) then
                   match lookup (fst op) prev with
                   | Some tg => idx_list_eqb (snd op) tg
                   | None => false
                   end
                 else true) (cs_ops st)
      && link_ok ((cs_name st, cs_tgt st) :: prev) r
  end.
(* a contracted index of a step is neither requested nor used by a later step
   (the part of C16's well-formedness that is not local to a step) *)
Fixpoint no_leak (requested : list index) (steps : list cstep) : bool :=
  match steps with
  | [] => true
  | st :: r =>
      forallb (fun c => negb (imem c requested) &&
                        negb (existsb (fun st' : cstep => existsb (fun op : string * list index => imem c (snd op)) (cs_ops st')) r))
              (cs_con st)
      && no_leak requested r
  end.
Definition last_tgt_ok (requested : list index) (steps : list cstep) : bool :=
  match rev steps with
  | o :: _ => idx_list_eqb (cs_tgt o) requested
  | [] => false
  end.
(* distinct base objects are printed with distinct names (the binding of
   printed names to tensor values is satisfiable for arbitrary values) *)
Definition base_ops (steps : list cstep) : list (string * list index) :=
  filter (fun op : string * list index => negb (is_contraction (fst op))) (List.concat (map cs_ops steps)).
Fixpoint same_sorts (a b : list index) : bool :=
  match a, b with
  | [], [] => true
  | x :: a', y :: b' => same_sort x y && same_sorts a' b'
  | _, _ => false
  end.
Definition printed_name (cfg : tnames) (be : backend) (op : string * list index) : string :=
  match be with
  | Einsum => translate_adcc cfg (fst op) (snd op)
  | Libtensor => match translate_libadc cfg (fst op) (snd op) with Ok n => n | _ => "?" end
  end.
Definition bind_ok (cfg : tnames) (be : backend) (steps : list cstep) : bool :=
  let b := base_ops steps in
  forallb (fun o1 => forallb (fun o2 =>
     implb (String.eqb (printed_name cfg be o1) (printed_name cfg be o2))
           (String.eqb (fst o1) (fst o2) && same_sorts (snd o1) (snd o2))) b) b.

(* naming convention of the target tool chain: only the ERI, the Fock matrix
   and the t2eri intermediates are renamed (hf.<block>, hf.f<block>, i_<block>,
   pi<n>); any other tensor keeps its long name *)
Definition conv_ok (cfg : tnames) (be : backend) (steps : list cstep) : bool :=
  forallb (fun op : string * list index =>
     String.eqb (printed_name cfg be op) (fst op) ||
     String.eqb (fst op) (n_eri cfg ++ "_" ++ space_str (snd op)) ||
     String.eqb (fst op) (n_fock cfg ++ "_" ++ space_str (snd op)) ||
     prefix "t2eri_" (fst op)) (base_ops steps).

Record checks := Checks { c_names : bool; c_letters : bool; c_steps : bool; c_bind : bool;
                          c_conv : bool; c_noleak : bool; c_target : bool }.
Definition scheme_checks (cfg : tnames) (be : backend) (requested : list index) (steps : list cstep) : checks :=
  let D := (scheme_idx steps ++ requested)%list in
  Checks (names_inj D) (single_letter D) (forallb step_wf steps && link_ok [] steps)
         (bind_ok cfg be steps) (conv_ok cfg be steps) (no_leak requested steps)
         (last_tgt_ok requested steps).

(* ------------------------------------------------------------------ *)
(** * The interpreter *)

Section Interp.
Variable S : Scalar.
Variable T : tmodel S.
Notation KS := (K S).
Notation "0" := (k0 S). Notation "1" := (k1 S).
Infix "+" := (kadd S). Infix "*" := (kmul S).

(* numpy array: axis ranges (lists of orbital labels) and entries *)
Record arr := Arr { adims : list (list nat); aval : list nat -> KS }.
(* assignment of values to index letters *)
Definition lenv := string -> nat.
Definition lupd (p : lenv) (x : string) (o : nat) : lenv :=
  fun y => if String.eqb y x then o else p y.
Fixpoint lbind (ls : list string) (xs : list nat) (p : lenv) : lenv :=
  match ls, xs with
  | l :: ls', x :: xs' => lupd (lbind ls' xs' p) l x
  | _, _ => p
  end.
(* sum over all values of the letters [ls] *)
Fixpoint lsum (ls : list string) (dim : string -> list nat) (p : lenv) (F : lenv -> KS) : KS :=
  match ls with
  | [] => F p
  | l :: r => ksum (dim l) (fun o => lsum r dim (lupd p l o) F)
  end.
Fixpoint sdedup_acc (seen l : list string) : list string :=
  match l with
  | [] => []
  | x :: r => if str_mem x seen then sdedup_acc seen r else x :: sdedup_acc (x :: seen) r
  end.
Definition sdedup l := sdedup_acc [] l.

(* range of a letter = range of the first operand axis labelled with it *)
Fixpoint find_dim (l : string) (spec : list string) (dims : list (list nat)) : option (list nat) :=
  match spec, dims with
  | s :: spec', d :: dims' => if String.eqb s l then Some d else find_dim l spec' dims'
  | _, _ => None
  end.
Fixpoint letter_dim (specs : list (list string)) (dimss : list (list (list nat))) (l : string) : list nat :=
  match specs, dimss with
  | sp :: specs', ds :: dimss' =>
      match find_dim l sp ds with Some d => d | None => letter_dim specs' dimss' l end
  | _, _ => []
  end.

(** numpy.einsum("s1,s2,..->out", a1, a2, ..):  entry of the result at the
    output letters = sum over all letters that are not in the output of the
    product of the operand entries *)
Definition einsum_val (specs : list (list string)) (out : list string) (args : list arr) : arr :=
  let dim := letter_dim specs (map adims args) in
  let summed := filter (fun l => negb (str_mem l out)) (sdedup (List.concat specs)) in
  Arr (map dim out)
      (fun xs => lsum summed dim (lbind out xs (fun _ => O))
                   (fun p => kprod (map (fun sa => aval (snd sa) (map p (fst sa))) (combine specs args)))).

(* scalar * array (numpy); the product of two arrays of rank > 0 would
   broadcast and is never emitted: junk value *)
Definition arr_one : arr := Arr [] (fun _ => 1).
Definition arr_mul (a b : arr) : arr :=
  match adims a with
  | [] => Arr (adims b) (fun xs => aval a [] * aval b xs)
  | _ => match adims b with
         | [] => Arr (adims a) (fun xs => aval a xs * aval b [])
         | _ => Arr [] (fun _ => 0)
         end
  end.

Variable tenv : string -> arr.     (* the arrays the program's names refer to *)

Fixpoint run_np (e : cexpr) : arr :=
  match e with
  | CName s => tenv s
  | CEinsum specs out args => einsum_val specs out (map run_np args)
  | CMul args => fold_right arr_mul arr_one (map run_np args)
  | _ => Arr [] (fun _ => 0)       (* not Python syntax *)
  end.

(** libtensor: labelled tensor expressions.  An expression evaluates to its
    free labels (with the range of each) and a function of the assignment of
    the labels.  contract(c1|c2, e1, e2, ..) sums the product of the operands
    over the labels c1, c2; dot_product sums over all labels; e1 * e2 is the
    product (scalar factors, outer products). *)
Definition ltens := (list (string * list nat) * (lenv -> KS))%type.
Fixpoint lab_dim (labs : list (string * list nat)) (l : string) : list nat :=
  match labs with
  | [] => []
  | kd :: r => if String.eqb (fst kd) l then snd kd else lab_dim r l
  end.
Fixpoint ldedup_acc (seen : list string) (labs : list (string * list nat)) : list (string * list nat) :=
  match labs with
  | [] => []
  | kd :: r => if str_mem (fst kd) seen then ldedup_acc seen r
               else kd :: ldedup_acc (fst kd :: seen) r
  end.
Definition ldedup labs := ldedup_acc [] labs.
Definition lt_prod (vs : list ltens) (p : lenv) : KS := kprod (map (fun v : ltens => snd v p) vs).
Definition lt_labels (vs : list ltens) := ldedup (List.concat (map (fun v : ltens => fst v) vs)).

Fixpoint run_lt (e : cexpr) : ltens :=
  match e with
  | CLab s ls => (ldedup (combine ls (adims (tenv s))), fun p => aval (tenv s) (map p ls))
  | CContract con args =>
      let vs := map run_lt args in
      let labs := lt_labels vs in
      (filter (fun kd => negb (str_mem (fst kd) con)) labs,
       fun p => lsum con (lab_dim labs) p (lt_prod vs))
  | CDot args =>
      let vs := map run_lt args in
      let labs := lt_labels vs in
      ([], fun p => lsum (map (fun kd : string * list nat => fst kd) labs) (lab_dim labs) p (lt_prod vs))
  | CMul args =>
      let vs := map run_lt args in (lt_labels vs, lt_prod vs)
  | _ => ([], fun _ => 0)         (* not libtensor syntax *)
  end.

(** prefactors *)
Definition pfac_val (f : pfac) : KS :=
  match f with
  | FInt n | FFloat n => ofQ S (Z.of_N n # 1)
  | FHalf => ofQ S (1 # 2)
  | FQuarter => ofQ S (1 # 4)
  | FDivI p q | FDivF p q => ofQ S (Z.of_N p # q)
  | FSqrtPy n | FSqrtCpp n => sqrtv T n
  | FSym s => symv T s
  end.
Definition sign_val (neg : bool) : KS := ksgn neg.

(** a line as function of the assignment of the target letters [tgt] (the
    requested order of the result axes) *)
Definition run_line (be : backend) (tgt : list string) (l : line) (p : lenv) : KS :=
  sign_val (l_neg l) * kprod (map pfac_val (l_pref l)) *
  match l_body l with
  | None => 1
  | Some (e, _) => match be with
                   | Einsum => aval (run_np e) (map p tgt)
                   | Libtensor => snd (run_lt e) p
                   end
  end.

(** Apply (1 +- P_ij P_ab ...) to X:  (P X)(p) = X(p o (p_n o .. o p_1)) *)
Definition sswap (pq : string * string) (t : string) : string :=
  if String.eqb t (fst pq) then snd pq else if String.eqb t (snd pq) then fst pq else t.
Definition perm_letters (perms : list (string * string)) (t : string) : string :=
  fold_left (fun t pq => sswap pq t) perms t.
Definition apply_permsym (ps : permsym) (X : lenv -> KS) (p : lenv) : KS :=
  X p + ksum ps (fun pf => ksgn (snd pf) * X (fun t => p (perm_letters (fst pf) t))).

Definition run_block (be : backend) (tgt : list string) (b : permsym * list line) (p : lenv) : KS :=
  apply_permsym (fst b) (fun p' => ksum (snd b) (fun l => run_line be tgt l p')) p.
Definition run_prog (be : backend) (tgt : list string) (pr : prog) (p : lenv) : KS :=
  ksum pr (fun b => run_block be tgt b p).

(** * Reference semantics of a contraction scheme (independent of the text):
    every step sums the product of its operands over its contracted indices;
    results of earlier steps are referred to by name. *)
Definition stepval := (list index * (env -> KS))%type.     (* target, value *)
Definition operand_val (B : string -> list index -> env -> KS) (acc : list (string * stepval))
           (op : string * list index) (r : env) : KS :=
  if is_contraction (fst op) then
    match lookup (fst op) acc with Some tv => snd tv r | None => 0 end
  else B (fst op) (snd op) r.
Definition step_val (B : string -> list index -> env -> KS) (acc : list (string * stepval))
           (st : cstep) (r : env) : KS :=
  sum_over S T (cs_con st) r (fun r' => kprod (map (fun op => operand_val B acc op r') (cs_ops st))).
Fixpoint scheme_vals (B : string -> list index -> env -> KS) (acc : list (string * stepval))
         (steps : list cstep) : list (string * stepval) :=
  match steps with
  | [] => acc
  | st :: r => scheme_vals B ((cs_name st, (cs_tgt st, step_val B acc st)) :: acc) r
  end.

End Interp.
