(* C15 - model of adcgen/spatial_orbitals.py (integrate_spin,
   transform_to_spatial_orbitals, allowed_spin_blocks, _has_valid_combination),
   Obj.allowed_spin_blocks and Obj.expand_antisym_eri.

   The model follows the code after the four repairs of findings/C15_*.md
   (commits 0c1e7ae, 8f48ab3, 18a2580, 80a5ce3 of /repo). *)
From Coq Require Import ZArith NArith QArith List Bool Lia String Ascii.
From ADC Require Import Core.Scalar Core.Index Core.Expr.
Import ListNotations.
Open Scope string_scope.
Open Scope nat_scope.
Open Scope list_scope.

(* ------------------------------------------------------------------ *)
(* spins, blocks, results                                               *)
(* ------------------------------------------------------------------ *)
Inductive sp := SA | SB.
Definition sp_eqb a b := match a, b with SA, SA => true | SB, SB => true | _, _ => false end.
Lemma sp_eqb_eq a b : sp_eqb a b = true <-> a = b.
Proof. destruct a, b; simpl; split; congruence. Qed.
Definition flip (s : sp) := match s with SA => SB | SB => SA end.
Definition to_spin (s : sp) : spin := match s with SA => Alpha | SB => Beta end.
Definition block := list sp.
Fixpoint block_eqb (a b : block) : bool :=
  match a, b with
  | [], [] => true
  | x :: a', y :: b' => sp_eqb x y && block_eqb a' b'
  | _, _ => false end.
Lemma block_eqb_eq a b : block_eqb a b = true <-> a = b.
Proof. revert b; induction a as [|x a IH]; destruct b as [|y b]; simpl; try (split; congruence).
  rewrite andb_true_iff, sp_eqb_eq, IH. split; [intros [-> ->]; reflexivity|intros H; inversion H; auto]. Qed.
Definition bmem (b : block) (l : list block) := existsb (block_eqb b) l.

(* Python exceptions are results [Err code]:
   1 (internal: block skipped)                            2 IndexError (_has_valid_combination on an empty list)
   3 RuntimeError "Not all indices were assigned"        4 ValueError odd t-amplitude
   5 NotImplementedError expand_antisym_eri (bra_ket_sym != 1)   6 ValueError unpacking p,q,r,s
   7 RuntimeError mp density with different number of upper/lower indices
   8 ValueError spatial orbital in the input   9 KeyError target_spin[spin] (line 330)
   10 RuntimeError beta -> alpha replacement not safe *)
Inductive res (A : Type) := Ok (a : A) | Err (code : nat).
Arguments Ok {A} a. Arguments Err {A} code.
Definition rbind {A B} (r : res A) (f : A -> res B) : res B :=
  match r with Ok a => f a | Err c => Err c end.

(* itertools.product("ab", repeat=n); also the order of sorted() on the strings *)
Fixpoint all_blocks (n : nat) : list block :=
  match n with 0 => [[]] | S n' => map (cons SA) (all_blocks n') ++ map (cons SB) (all_blocks n') end.
Definition count_a (b : block) := List.length (filter (fun s => sp_eqb s SA) b).

(* ------------------------------------------------------------------ *)
(* Obj.allowed_spin_blocks                                              *)
(* ------------------------------------------------------------------ *)
Definition eri_blocks : list block :=
  [[SA;SA;SA;SA]; [SA;SB;SA;SB]; [SA;SB;SB;SA]; [SB;SA;SA;SB]; [SB;SA;SB;SA]; [SB;SB;SB;SB]].
Definition coulomb_blocks : list block :=
  [[SA;SA;SA;SA]; [SA;SA;SB;SB]; [SB;SB;SA;SA]; [SB;SB;SB;SB]].
Definition delta_blocks : list block := [[SA;SA]; [SB;SB]].
Definition tamp_blocks (len : nat) : list block :=
  let n := Nat.div len 2 in
  filter (fun b => Nat.eqb (count_a (firstn n b)) (count_a (skipn n b))) (all_blocks len).

Fixpoint remove_c (s : string) : string :=
  match s with EmptyString => EmptyString
  | String c r => if Ascii.eqb c "c"%char then remove_c r else String c (remove_c r) end.
Definition is_digit (c : ascii) : bool := let n := nat_of_ascii c in Nat.leb 48 n && Nat.leb n 57.
Fixpoint all_digits (s : string) : bool :=
  match s with EmptyString => true | String c r => is_digit c && all_digits r end.
(* tensor_names.is_t_amplitude / is_gs_density / is_adc_amplitude with the default names *)
Definition is_t_amplitude (name : string) : bool :=
  match name with String "t"%char ext => all_digits (remove_c ext) | _ => false end.
Definition is_gs_density (name : string) : bool :=
  match name with String "p"%char ext => all_digits ext | _ => false end.
Definition is_adc_amplitude (name : string) : bool := String.eqb name "X" || String.eqb name "Y".

Definition space_char (s : space) : ascii := match s with Gen => "g"%char | Occ => "o"%char | Virt => "v"%char end.
Definition space_str (ix : list index) : string :=
  fold_right (fun x acc => String (space_char (ispace x)) acc) EmptyString ix.
Fixpoint str_drop (n : nat) (s : string) : string :=
  match n, s with 0, _ => s | S n', String _ r => str_drop n' r | _, EmptyString => EmptyString end.

(* obj.idx: Amplitude lists lower before upper, every other tensor upper before lower *)
Definition tens_oidx (t : tens) : list index :=
  match tkind t with KAmp => tlower t ++ tupper t | _ => tupper t ++ tlower t end.
Definition obj_idx (a : atom) : list index :=
  match a with ATens t => tens_oidx t | _ => atom_idx a end.

(* Obj.longname(True) for tensors that are not t-amplitudes; None: 'ul<n>'/'ur<n>'
   (never a registered name; checked per run) *)
Definition longname (t : tens) : res (option string) :=
  let n := tname t in
  if is_adc_amplitude n then Ok None
  else if is_gs_density n then
    if Nat.eqb (List.length (tupper t)) (List.length (tlower t)) then
      let ext := str_drop 1 n in
      Ok (Some (match ext with
                | EmptyString => ("p0_" ++ space_str (tens_oidx t))%string
                | _ => ("p0_" ++ ext ++ "_" ++ space_str (tens_oidx t))%string end))
    else Err 7
  else if String.prefix "t2eri" n then Ok (Some ("t2eri_" ++ str_drop 5 n)%string)
  else if String.eqb n "t2sq" then Ok (Some n)
  else Ok (Some (n ++ "_" ++ space_str (tens_oidx t))%string).

Definition itable := list (string * list block).   (* dumped from Intermediates() on every run *)
Fixpoint itab_get (it : itable) (k : string) : option (list block) :=
  match it with [] => None | (k', v) :: r => if String.eqb k k' then Some v else itab_get r k end.

Definition allowed_blocks (it : itable) (a : atom) : res (option (list block)) :=
  match a with
  | ATens t =>
    match tens_oidx t with
    | [] => Ok None
    | _ =>
      let n := tname t in
      if String.eqb n "V" then Ok (Some eri_blocks)
      else if is_t_amplitude n then
        if Nat.odd (List.length (tens_oidx t)) then Err 4 else Ok (Some (tamp_blocks (List.length (tens_oidx t))))
      else if String.eqb n "v" then Ok (Some coulomb_blocks)
      else rbind (longname t) (fun k => match k with None => Ok None | Some k => Ok (itab_get it k) end)
    end
  | ADelta _ _ => Ok (Some delta_blocks)
  | _ => Ok None
  end.

(* ------------------------------------------------------------------ *)
(* index sets as lists; idx_map = {"a": set, "b": set}                  *)
(* ------------------------------------------------------------------ *)
Definition iinter (a b : list index) : bool := existsb (fun x => imem x b) a.
Definition iunion (a b : list index) : list index := a ++ filter (fun x => negb (imem x a)) b.
Definition isubset (a b : list index) : bool := forallb (fun x => imem x b) a.
Definition iset_eqb (a b : list index) : bool := isubset a b && isubset b a.
Definition iadd (x : index) (a : list index) : list index := if imem x a then a else a ++ [x].

Record smap := SMap { sa : list index; sb : list index }.
Definition sempty := SMap [] [].
Definition sadd (s : sp) (x : index) (m : smap) : smap :=
  match s with SA => SMap (iadd x (sa m)) (sb m) | SB => SMap (sa m) (iadd x (sb m)) end.
Definition contra (m ad : smap) : bool := iinter (sa m) (sb ad) || iinter (sb m) (sa ad).
Definition sunion (m ad : smap) : smap := SMap (iunion (sa m) (sa ad)) (iunion (sb m) (sb ad)).
Definition smap_eqb (m1 m2 : smap) : bool := iset_eqb (sa m1) (sa m2) && iset_eqb (sb m1) (sb m2).
(* the spin the final substitution dict gives to x: it is filled for "a" first, then "b" *)
Definition sspin (m : smap) (x : index) : option sp :=
  if imem x (sb m) then Some SB else if imem x (sa m) then Some SA else None.
Definition assign_list (tidx : list index) (m : smap) : list (option sp) := map (sspin m) tidx.

Definition tmap := list (index * sp).
Fixpoint tlookup (tm : tmap) (x : index) : option sp :=
  match tm with [] => None | (y, s) :: r => if index_eqb x y then Some s else tlookup r x end.

(* ------------------------------------------------------------------ *)
(* integrate_spin, one term                                             *)
(* ------------------------------------------------------------------ *)
(* the loop "for spin, idx in zip(block, obj_idx)" *)
Fixpoint zip_map (tm : tmap) (zp : list (sp * index)) (acc : smap) : option smap :=
  match zp with
  | [] => Some acc
  | (s, x) :: r =>
    match tlookup tm x with
    | Some s' => if sp_eqb s s' then zip_map tm r (sadd s x acc) else None
    | None => zip_map tm r (sadd s x acc)
    end
  end.

(* the loop "for block in allowed_blocks"; a block that gives two spins to one index
   (object carrying an index twice) is skipped *)
Fixpoint obj_maps (tm : tmap) (tb : list block) (ix : list index) : res (list smap) :=
  match tb with
  | [] => Ok []
  | bl :: tb' =>
    match zip_map tm (combine bl ix) sempty with
    | None => obj_maps tm tb' ix
    | Some m =>
      if iinter (sa m) (sb m) then obj_maps tm tb' ix
      else rbind (obj_maps tm tb' ix) (fun l => Ok (m :: l))
    end
  end.

Definition sobj := (list index * option (list block))%type.

(* the loop "for obj in term.objects": None = term_vanishes *)
Fixpoint term_maps (tm : tmap) (objs : list sobj) : res (option (list (list smap))) :=
  match objs with
  | [] => Ok (Some [])
  | (_, None) :: r => term_maps tm r
  | (ix, Some tb) :: r =>
    rbind (obj_maps tm tb ix) (fun l =>
      match l with
      | [] => Ok None
      | _ => rbind (term_maps tm r) (fun o =>
               match o with None => Ok None | Some ls => Ok (Some (l :: ls)) end)
      end)
  end.

(* "for idx_map, addition in product(old_combinations, tensor_spin_idx_maps)" *)
Fixpoint comb_acc (ps : list (smap * smap)) (acc : list smap) : list smap :=
  match ps with
  | [] => acc
  | (m, ad) :: ps' =>
    if contra m ad then comb_acc ps' acc
    else let c := sunion m ad in
         if existsb (smap_eqb c) acc then comb_acc ps' acc else comb_acc ps' (acc ++ [c])
  end.
Definition combine_step (old nw : list smap) : list smap := comb_acc (list_prod old nw) [].
Fixpoint combine_all (combos : list smap) (rest : list (list smap)) : option (list smap) :=
  match rest with
  | [] => Some combos
  | nw :: rest' =>
    match combine_step combos nw with [] => None | c => combine_all c rest' end
  end.
(* a term without any object that has a block table starts from the empty assignment *)
Definition combine_maps (ls : list (list smap)) : option (list smap) :=
  match ls with
  | [] => Some [sempty]
  | f :: r => combine_all f r
  end.

Definition missing (tidx : list index) (m : smap) : list index :=
  filter (fun x => negb (imem x (sa m) || imem x (sb m))) tidx.
Definition add_targets (tm : tmap) (miss : list index) (m : smap) : smap :=
  fold_left (fun acc x => match tlookup tm x with Some s => sadd s x acc | None => acc end) miss m.
Definition miss_contr (tm : tmap) (miss : list index) : list index :=
  filter (fun x => match tlookup tm x with None => true | Some _ => false end) miss.
Fixpoint add_zip (zp : list (sp * index)) (m : smap) : smap :=
  match zp with [] => m | (s, x) :: r => add_zip r (sadd s x m) end.
(* every variant is a copy of the map with the unassigned contracted indices
   distributed over the two spins (product("ab", repeat=n)) *)
Definition complete (tm : tmap) (tidx : list index) (m : smap) : list smap :=
  let miss := missing tidx m in
  let m' := add_targets tm miss m in
  let mc := miss_contr tm miss in
  match mc with
  | [] => [m']
  | _ => map (fun var => add_zip (combine var mc) m') (all_blocks (List.length mc))
  end.

(* the list of variants that are substituted into the term (with multiplicity, in order) *)
Definition integrate_objs (tm : tmap) (objs : list sobj) (tidx : list index) : res (list smap) :=
  match tidx with
  | [] => Ok [sempty]                      (* "if not term_indices: result += term" *)
  | _ =>
    rbind (term_maps tm objs) (fun o =>
      match o with
      | None => Ok []
      | Some ls => match combine_maps ls with
                   | None => Ok []
                   | Some cs => Ok (flat_map (complete tm tidx) cs)
                   end
      end)
  end.

(* executable form of the well-formedness hypothesis of the theorems (SpinProofs.wf_objs):
   tables duplicate-free, blocks as long as the object has indices, no empty object *)
Fixpoint nodup_b (l : list block) : bool :=
  match l with [] => true | b :: r => negb (bmem b r) && nodup_b r end.
Definition wf_objs_b (objs : list sobj) : bool :=
  forallb (fun o => match snd o with
                    | Some tb => nodup_b tb
                                 && forallb (fun b => Nat.eqb (List.length b) (List.length (fst o))) tb
                                 && negb (match fst o with [] => true | _ => false end)
                    | None => true end) objs.

(* ---------- on the syntax of Core/Expr.v ---------- *)
Fixpoint sobjs_of (it : itable) (atoms : list atom) : res (list sobj) :=
  match atoms with
  | [] => Ok []
  | a :: r => rbind (allowed_blocks it a) (fun tb => rbind (sobjs_of it r) (fun l => Ok ((obj_idx a, tb) :: l)))
  end.
Definition atoms_idx (atoms : list atom) : list index := inodup (flat_map obj_idx atoms).
Definition has_spin (ix : list index) : bool :=
  existsb (fun x => negb (spin_eqb (ispin x) NoSpin)) ix.

(* allowed_spin_blocks is a property evaluated inside the loop over the objects, so
   an exception of a later object is not reached when an earlier one makes the
   term vanish; with the exceptions that exist (codes 4, 7) and the inputs of the
   check this order is immaterial and the tables are computed first *)
Definition integrate_atoms (it : itable) (tm : tmap) (atoms : list atom) : res (list smap) :=
  let tidx := atoms_idx atoms in
  if has_spin tidx then Err 8
  else rbind (sobjs_of it atoms) (fun objs => integrate_objs tm objs tidx).

(* ---------- renaming of indices in a term ---------- *)
Definition ren_tens (f : index -> index) (t : tens) : tens :=
  Tens (tkind t) (tname t) (tbks t) (map f (tupper t)) (map f (tlower t)).
Definition ren_poly (f : index -> index) (p : list (Q * list tens)) :=
  map (fun qt => (fst qt, map (ren_tens f) (snd qt))) p.
Definition ren_atom (f : index -> index) (x : atom) : atom :=
  match x with
  | ATens t => ATens (ren_tens f t)
  | ADelta i j => ADelta (f i) (f j)
  | ASymb n => ASymb n | ASqrt r => ASqrt r
  | APoly p => APoly (ren_poly f p) end.
Definition ren_fac (f : index -> index) (x : factor) : factor := (ren_atom f (fst x), snd x).
Definition ren_term (f : index -> index) (t : term) : term := Term (tcoef t) (map (ren_fac f) (tfacs t)).

(* get_symbols(name, spin): the registry index of the same name with a spin *)
Definition spin_idx (s : spin) (x : index) : index := Idx (ispace x) s (iletter x) (inum x) 0.
Definition lab (m : smap) (x : index) : index :=
  match sspin m x with Some s => spin_idx (to_spin s) x | None => x end.
Definition unspin (x : index) : index := Idx (ispace x) NoSpin (iletter x) (inum x) (iuid x).

Definition term_atoms (t : term) : list atom := map fst (tfacs t).
Definition integrate_term (it : itable) (tm : tmap) (t : term) : res (list term) :=
  rbind (integrate_atoms it tm (term_atoms t)) (fun vs => Ok (map (fun m => ren_term (lab m) t) vs)).
Fixpoint integrate_expr (it : itable) (tm : tmap) (e : expr) : res expr :=
  match e with
  | [] => Ok []
  | t :: r => rbind (integrate_term it tm t) (fun l => rbind (integrate_expr it tm r) (fun l' => Ok (l ++ l')))
  end.

(* ------------------------------------------------------------------ *)
(* expand_antisym_eri                                                   *)
(* ------------------------------------------------------------------ *)
Definition coulomb (p r q s : index) : tens := Tens KSym "v" 1 [p; r] [q; s].
(* alternatives of one factor: list of (coefficient, factors) *)
Definition expand_eri_fac (f : factor) : res (list (Q * list factor)) :=
  match fst f with
  | ATens t =>
    if String.eqb (tname t) "V" then
      if negb (Z.eqb (tbks t) 1) then Err 5 else
      match tens_oidx t with
      | [p; q; r; s] =>
        let d := (if spin_eqb (ispin p) (ispin r) && spin_eqb (ispin q) (ispin s)
                  then [(1%Q, coulomb p r q s)] else []) ++
                 (if spin_eqb (ispin p) (ispin s) && spin_eqb (ispin q) (ispin r)
                  then [((-1)%Q, coulomb p s q r)] else []) in
        if snd f then Ok [(1%Q, [(APoly (map (fun ct => (fst ct, [snd ct])) d), true)])]
        else Ok (map (fun ct => (fst ct, [(ATens (snd ct), false)])) d)
      | _ => Err 6
      end
    else Ok [(1%Q, [f])]
  | _ => Ok [(1%Q, [f])]
  end.
Fixpoint expand_eri_facs (fs : list factor) : res (list (Q * list factor)) :=
  match fs with
  | [] => Ok [(1%Q, [])]
  | f :: r =>
    rbind (expand_eri_fac f) (fun alts => rbind (expand_eri_facs r) (fun rest =>
      Ok (map (fun ab => (Qmult (fst (fst ab)) (fst (snd ab)), snd (fst ab) ++ snd (snd ab)))
              (list_prod alts rest))))
  end.
Definition expand_eri_term (t : term) : res (list term) :=
  rbind (expand_eri_facs (tfacs t)) (fun l => Ok (map (fun cf => Term (Qmult (tcoef t) (fst cf)) (snd cf)) l)).
Fixpoint expand_eri_expr (e : expr) : res expr :=
  match e with
  | [] => Ok []
  | t :: r => rbind (expand_eri_term t) (fun l => rbind (expand_eri_expr r) (fun l' => Ok (l ++ l')))
  end.

(* ------------------------------------------------------------------ *)
(* restricted reference: beta -> alpha                                  *)
(* ------------------------------------------------------------------ *)
Definition to_alpha (x : index) : index :=
  match ispin x with Beta => spin_idx Alpha x | _ => x end.
(* term.sympy.xreplace(sub): simultaneous renaming of the beta indices *)
Definition restrict_term (t : term) : res term :=
  let idx := inodup (term_idx t) in
  let beta := filter (fun x => spin_eqb (ispin x) Beta) idx in
  if existsb (fun x => imem (spin_idx Alpha x) idx) beta then Err 10
  else Ok (ren_term to_alpha t).
Fixpoint restrict_expr (e : expr) : res expr :=
  match e with
  | [] => Ok []
  | t :: r => rbind (restrict_term t) (fun t' => rbind (restrict_expr r) (fun l => Ok (t' :: l)))
  end.

Definition transform (it : itable) (tm : tmap) (restricted expand : bool) (e : expr) : res expr :=
  rbind (integrate_expr it tm e) (fun e1 =>
  rbind (if expand then expand_eri_expr e1 else Ok e1) (fun e2 =>
  if restricted then restrict_expr e2 else Ok e2)).

(* ------------------------------------------------------------------ *)
(* allowed_spin_blocks(expr, target) and _has_valid_combination         *)
(* ------------------------------------------------------------------ *)
(* idx_map = {} ; "if idx in idx_map and idx_map[idx] != spin: idx_map = None; break"
   (Err 1 = the block is skipped by obj_idx_maps) *)
Fixpoint blk_map (zp : list (sp * index)) (acc : tmap) : res tmap :=
  match zp with
  | [] => Ok acc
  | (s, x) :: r =>
    match tlookup acc x with
    | Some s' => if sp_eqb s s' then blk_map r acc else Err 1
    | None => blk_map r (acc ++ [(x, s)])
    end
  end.
Fixpoint obj_idx_maps (tb : list block) (ix : list index) : res (list tmap) :=
  match tb with
  | [] => Ok []
  | bl :: tb' => rbind (obj_idx_maps tb' ix) (fun l =>
                   Ok (match blk_map (combine bl ix) [] with Ok m => m :: l | Err _ => l end))
  end.
Definition n_target (tgt ix : list index) : nat := List.length (filter (fun x => imem x tgt) ix).
Fixpoint term_idx_maps (tgt : list index) (objs : list sobj) : res (list (list tmap * nat)) :=
  match objs with
  | [] => Ok []
  | (_, None) :: r => term_idx_maps tgt r
  | (ix, Some tb) :: r =>
    rbind (obj_idx_maps tb ix) (fun l => rbind (term_idx_maps tgt r) (fun ls => Ok ((l, n_target tgt ix) :: ls)))
  end.
(* sorted(..., key=n_target, reverse=True): stable, descending *)
Fixpoint ins_desc {A} (x : A * nat) (l : list (A * nat)) : list (A * nat) :=
  match l with
  | [] => [x]
  | y :: r => if Nat.ltb (snd y) (snd x) then x :: y :: r else y :: ins_desc x r
  end.
Definition sort_desc {A} (l : list (A * nat)) : list (A * nat) := fold_right ins_desc [] l.

Definition tm_compat (tsp m : tmap) : bool :=
  forallb (fun ts => match tlookup m (fst ts) with Some s => sp_eqb s (snd ts) | None => true end) tsp.
Definition smap_of (m : tmap) : smap :=
  SMap (map fst (filter (fun xs => sp_eqb (snd xs) SA) m)) (map fst (filter (fun xs => sp_eqb (snd xs) SB) m)).

(* _has_valid_combination(tensor_idx_maps, 0, variant): Some v = True with the
   variant that the caller inspects afterwards; the code undoes its additions
   exactly, so the variant is passed functionally *)
Fixpoint hvc (ls : list (list smap)) (v : smap) : option smap :=
  match ls with
  | [] => None
  | l :: rest =>
    (fix loop (l : list smap) : option smap :=
       match l with
       | [] => None
       | m :: l' =>
         if contra m v then loop l'
         else let v' := sunion v m in
              match rest with
              | [] => Some v'
              | _ => match hvc rest v' with Some r => Some r | None => loop l' end
              end
       end) l
  end.

(* target_spin = {} ; line 330 indexes target_spin[spin] *)
Fixpoint target_spin (zp : list (sp * index)) (acc : tmap) : res tmap :=
  match zp with
  | [] => Ok acc
  | (s, x) :: r => match tlookup acc x with Some _ => Err 9 | None => target_spin r (acc ++ [(x, s)]) end
  end.

(* relevant maps of every object; None = some object has no compatible block *)
Fixpoint relevant (tsp : tmap) (ims : list (list tmap * nat)) : option (list (list smap)) :=
  match ims with
  | [] => Some []
  | (l, _) :: r =>
    match map smap_of (filter (tm_compat tsp) l) with
    | [] => None
    | rl => match relevant tsp r with None => None | Some ls => Some (rl :: ls) end
    end
  end.

(* does the term contribute to the block? *)
Definition term_block (tgt tidx : list index) (ims : list (list tmap * nat)) (bl : block) : res bool :=
  rbind (target_spin (combine bl tgt) []) (fun tsp =>
    match relevant tsp ims with
    | None => Ok false
    | Some [] => Err 2
    | Some ls =>
      match hvc ls sempty with
      | None => Ok false
      | Some v =>
        if iset_eqb tidx (sa v ++ sb v) then Ok true else Err 3
      end
    end).

Definition flip_block (b : block) : block := map flip b.
Fixpoint term_loop (tgt tidx : list index) (ims : list (list tmap * nat)) (bls : list block)
         (allowed : list block) : res (list block) :=
  match bls with
  | [] => Ok allowed
  | bl :: r =>
    if bmem bl allowed then term_loop tgt tidx ims r allowed
    else rbind (term_block tgt tidx ims bl) (fun ok =>
           term_loop tgt tidx ims r (if ok then flip_block bl :: bl :: allowed else allowed))
  end.

Fixpoint expr_loop (it : itable) (tgt : list index) (bls : list block) (e : list (list atom))
         (allowed : list block) : res (list block) :=
  match e with
  | [] => Ok allowed
  | atoms :: r =>
    rbind (sobjs_of it atoms) (fun objs =>
    rbind (term_idx_maps tgt objs) (fun ims =>
    rbind (term_loop tgt (atoms_idx atoms) (sort_desc ims) bls allowed) (fun al =>
    expr_loop it tgt bls r al)))
  end.
(* tuple(sorted(allowed_blocks)) *)
Definition expr_allowed_blocks (it : itable) (tgt : list index) (e : list (list atom)) : res (list block) :=
  let bls := all_blocks (List.length tgt) in
  rbind (expr_loop it tgt bls e []) (fun al => Ok (filter (fun b => bmem b al) bls)).
