(* C11: expansion of intermediates as repeated replacement of a tensor factor
   by an instance of its registered definition. *)
From Coq Require Import ZArith QArith List Bool Lia Permutation.
From ADC Require Import Core.Scalar Core.Index Core.Expr Core.Unfold.
Import ListNotations.

Definition step := (nat * nat * expr)%type.     (* term number, factor position, body *)

Fixpoint replace_nth (n : nat) (new : expr) (e : expr) : expr :=
  match n, e with
  | _, [] => []
  | O, _ :: r => new ++ r
  | S k, t :: r => t :: replace_nth k new r
  end.

Fixpoint unfold_expr (tg : list index) (steps : list step) (e : expr)
  : option (expr * list (atom * expr)) :=
  match steps with
  | [] => Some (e, [])
  | (i, pos, body) :: rest =>
    match nth_error e i with
    | Some t =>
      if unfold_ok tg pos body t then
        match unfold_at pos body t with
        | Some (a, new) =>
          match unfold_expr tg rest (replace_nth i new e) with
          | Some (e', used) => Some (e', (a, body) :: used)
          | None => None end
        | None => None end
      else None
    | None => None end
  end.

Section Itmd.
Variable S : Scalar.
Variable T : tmodel S.
Infix "+" := (kadd S).
Add Ring KRi : (Kring S).

(* every used intermediate-tensor instance has the value of its definition *)
Definition defs_hold (used : list (atom * expr)) : Prop :=
  forall a body, In (a, body) used -> forall r, atom_val S T r a = eval S T (atom_idx a) r body.

Lemma eval_replace_nth tg r i new e t : nth_error e i = Some t ->
  eval_term S T tg r t = eval S T tg r new ->
  eval S T tg r (replace_nth i new e) = eval S T tg r e.
Proof. revert i. induction e as [|x e IH]; intros [|i]; simpl; try discriminate.
  - intros H Hv; inversion H; subst. unfold eval. rewrite ksum_app. simpl.
    fold (eval S T tg r new). rewrite <- Hv. reflexivity.
  - intros H Hv. unfold eval in *. simpl. rewrite (IH i H Hv). reflexivity. Qed.

Theorem unfold_expr_sound tg steps : forall e e' used,
  unfold_expr tg steps e = Some (e', used) -> defs_hold used ->
  forall r, eval S T tg r e = eval S T tg r e'.
Proof. induction steps as [|[[i pos] body] steps IH]; intros e e' used; simpl.
  - intros H; inversion H; subst. reflexivity.
  - destruct (nth_error e i) as [t|] eqn:En; [|discriminate].
    destruct (unfold_ok tg pos body t) eqn:Eok; [|discriminate].
    destruct (unfold_at pos body t) as [[a new]|] eqn:Eu; [|discriminate].
    destruct (unfold_expr tg steps (replace_nth i new e)) as [[e1 used1]|] eqn:Er; [|discriminate].
    intros H Hd r. inversion H; subst e' used; clear H.
    rewrite <- (IH _ _ _ Er).
    + symmetry. apply (eval_replace_nth tg r i new e t En).
      apply (unfold_at_sound S T tg pos body t a new Eu Eok).
      apply (Hd a body). left; reflexivity.
    + intros a' b' Hin. apply Hd. right; exact Hin. Qed.
End Itmd.
