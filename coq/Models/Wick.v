(* Wick.v - executable model of adcgen's Wick evaluation (func.py):
   _contraction, _has_fully_contracted_contribution, _contract_operator_string,
   the operator part of wicks, and Rules.apply (rules.py).
   Definitions only (plus the value semantics of the result); the proofs are
   in WickProofs.v so that the model evaluates even if a proof breaks. *)
From Coq Require Import ZArith NArith List Bool Arith String.
From ADC Require Import Core.Scalar Core.Index Core.Expr Models.Fock.
Import ListNotations.

(* second-quantised operator with an adcgen index: Fd(p) = Op true p,
   F(p) = Op false p *)
Record op := Op { ocre : bool; oidx : index }.

(* ---------- _contraction ---------- *)
(* result of contracting two operators:
   CZero          S.Zero
   CDelta p q     KroneckerDelta(p_idx, q_idx)
   CDelta2 p q sp KroneckerDelta(p_idx, q_idx) * KroneckerDelta(q_idx, x)
                  with x = Indices().get_generic_indices(virt=1)[("virt","")][0]
                  (sp = Virt) resp. (occ=1)[("occ","")][0] (sp = Occ): a
                  uniquely named index of the registry (never handed out
                  before) that occurs nowhere else; its name is chosen by the
                  registry at run time, the model therefore records its space
                  only and sums it on its own delta (cres_val) *)
Inductive cres :=
| CZero
| CDelta (p q : index)
| CDelta2 (p q : index) (sp : space).

Inductive tcode := TZero | TDelta | TDelta2 (sp : space).

Definition is_o (s : space) := match s with Occ => true | _ => false end.
Definition is_v (s : space) := match s with Virt => true | _ => false end.

(* the if/elif/else table of _contraction over
   (isinstance(p,Fd), isinstance(q,Fd), space_p, space_q) *)
Definition contraction_table (p_fd q_fd : bool) (sp sq : space) : tcode :=
  if negb p_fd && q_fd then                   (* isinstance(p, F) and isinstance(q, Fd) *)
    if is_o sp || is_o sq then TZero
    else if is_v sp || is_v sq then TDelta
    else TDelta2 Virt
  else if p_fd && negb q_fd then              (* isinstance(p, Fd) and isinstance(q, F) *)
    if is_v sp || is_v sq then TZero
    else if is_o sp || is_o sq then TDelta
    else TDelta2 Occ
  else TZero.

Definition contraction (a b : op) : cres :=
  match contraction_table (ocre a) (ocre b) (ispace (oidx a)) (ispace (oidx b)) with
  | TZero => CZero
  | TDelta => CDelta (oidx a) (oidx b)
  | TDelta2 sp => CDelta2 (oidx a) (oidx b) sp
  end.

(* _contraction raises NotImplementedError for indices with spin *)
Definition op_supported (a : op) : bool := spin_eqb (ispin (oidx a)) NoSpin.

(* ---------- _has_fully_contracted_contribution ---------- *)
Definition is_c (sp : space) (o : op) : bool := ocre o && space_eqb (ispace (oidx o)) sp.
Definition is_a (sp : space) (o : op) : bool := negb (ocre o) && space_eqb (ispace (oidx o)) sp.
Fixpoint cnt (f : op -> bool) (l : list op) : nat :=
  match l with [] => 0 | x :: r => (if f x then 1 else 0) + cnt f r end.

Definition prefilter (ops : list op) : bool :=
  Nat.even (List.length ops) &&
  (cnt (is_c Occ) ops <=? cnt (is_a Occ) ops + cnt (is_a Gen) ops) &&
  (cnt (is_c Virt) ops <=? cnt (is_a Virt) ops + cnt (is_a Gen) ops).

(* ---------- _contract_operator_string ---------- *)
(* a fully contracted contribution: sign (true = -1) and the contraction
   results in the order in which they were multiplied *)
Definition wterm := (bool * list cres)%type.
Definition attach (neg : bool) (c : cres) (t : wterm) : wterm := (xorb neg (fst t), c :: snd t).

(* [uf] = use the prefilter (the library does; uf = false is the plain
   recursion used to state that the prefilter changes nothing).
   [splits 1 [] rest] enumerates i = 1 .. len-1 with op_string[1:i],
   op_string[i], op_string[i+1:]. *)
Fixpoint contract_f (uf : bool) (fuel : nat) (ops : list op) : list wterm :=
  match fuel with
  | 0 => []
  | S f =>
    if uf && negb (prefilter ops) then []
    else match ops with
    | [] => []
    | a :: rest =>
      flat_map (fun s : nat * list op * op * list op =>
        let '(i, pre, b, post) := s in
        match contraction a b with
        | CZero => []
        | c =>
          let sub := match pre ++ post with
                     | [] => [(false, [])]                   (* no operators left: c *)
                     | rem => contract_f uf f rem           (* c * recursion *)
                     end in
          map (attach (Nat.even i) c) sub                    (* if not i % 2: c *= -1 *)
        end) (splits 1 [] rest)
    end
  end.

Definition contract (ops : list op) : list wterm := contract_f true (List.length ops) ops.
Definition contract_nofilter (ops : list op) : list wterm := contract_f false (List.length ops) ops.

(* operator part of wicks for one product: no operator -> the expression
   itself (1), one operator -> 0, otherwise _contract_operator_string *)
Definition wicks_ops (ops : list op) : list wterm :=
  match ops with
  | [] => [(false, [])]
  | [_] => []
  | _ => contract ops
  end.

(* ---------- value of the result ---------- *)
Definition inst (env : index -> nat) (o : op) : eop := (ocre o, env (oidx o)).

Definition in_space (M : orbmodel) (sp : space) (o : nat) : bool :=
  match sp with Gen => true | Occ => is_occ M o | Virt => negb (is_occ M o) end.
Definition orange (M : orbmodel) (sp : space) : list nat :=
  filter (in_space M sp) (seq 0 (norb M)).
(* every index is mapped into the range of its space *)
Definition env_ok (M : orbmodel) (env : index -> nat) : Prop :=
  forall x : index, In (env x) (orange M (ispace x)).

Definition dl (a b : nat) : Z := if Nat.eqb a b then 1%Z else 0%Z.

(* the fresh index of CDelta2 is summed over its range *)
Definition cres_val (M : orbmodel) (env : index -> nat) (c : cres) : Z :=
  match c with
  | CZero => 0%Z
  | CDelta p q => dl (env p) (env q)
  | CDelta2 p q sp => zsum (orange M sp) (fun o => dl (env p) (env q) * dl (env q) o)%Z
  end.
Fixpoint zprod (l : list Z) : Z := match l with [] => 1%Z | x :: r => (x * zprod r)%Z end.
Definition wterm_val (M : orbmodel) (env : index -> nat) (t : wterm) : Z :=
  (zsgn (fst t) * zprod (map (cres_val M env) (snd t)))%Z.
Definition wval (M : orbmodel) (env : index -> nat) (l : list wterm) : Z :=
  zsum l (wterm_val M env).

(* ---------- Rules.apply ---------- *)
(* forbidden_tensor_blocks: {name: [block, ...]}, a block = string over o/v/g *)
Definition rules := list (string * list (list space)).

Fixpoint block_eqb (a b : list space) : bool :=
  match a, b with
  | [], [] => true
  | x :: a', y :: b' => space_eqb x y && block_eqb a' b'
  | _, _ => false
  end.
Fixpoint lookup (n : string) (r : rules) : option (list (list space)) :=
  match r with
  | [] => None
  | (k, v) :: r' => if String.eqb n k then Some v else lookup n r'
  end.

(* Obj.name (only tensors have one) and Obj.space *)
Definition obj_name (a : atom) : option string :=
  match a with ATens t => Some (tname t) | _ => None end.
Definition obj_block (a : atom) : list space := map ispace (atom_idx a).

(* obj.name in forbidden and obj.space in forbidden[obj.name] *)
Definition forbidden (r : rules) (a : atom) : bool :=
  match obj_name a with
  | None => false
  | Some n => match lookup n r with
              | None => false
              | Some bl => existsb (block_eqb (obj_block a)) bl
              end
  end.
Definition term_forbidden (r : rules) (t : term) : bool :=
  existsb (fun f => forbidden r (fst f)) (tfacs t).
Definition rules_apply (r : rules) (e : expr) : expr :=
  match r with
  | [] => e                                          (* is_empty: nothing to do *)
  | _ => filter (fun t => negb (term_forbidden r t)) e
  end.

(* ---------- normal-ordered groups (occupied / virtual indices) ---------- *)
(* wicks calls expr.doit(wicks=True): sympy replaces NO(...) by the product of
   its operators, which NO.__new__ has already sorted (quasi-creators first)
   with the sign of the permutation.  For occ/virt indices the class of an
   operator is known from its space: Fd(virt), F(occ) are quasi-creators.
   Groups containing general indices are not modelled (sympy splits them into
   plain Dummy symbols and the library raises - see findings). *)
Definition op_ov (a : op) : bool := negb (space_eqb (ispace (oidx a)) Gen).
Definition op_qcre (a : op) : bool :=
  if ocre a then is_v (ispace (oidx a)) else is_o (ispace (oidx a)).
Fixpoint op_inv_parity (l : list op) : bool :=
  match l with
  | [] => false
  | x :: r => xorb (op_inv_parity r)
                   (if op_qcre x then false else Nat.odd (List.length (filter op_qcre r)))
  end.
Definition flatten_NO (l : list op) : bool * list op :=
  (op_inv_parity l, filter op_qcre l ++ filter (fun o => negb (op_qcre o)) l).

Definition ogroup := (bool * list op)%type.
Fixpoint flatten_groups (gs : list ogroup) : bool * list op :=
  match gs with
  | [] => (false, [])
  | (is_no, g) :: r =>
      let (s, l) := flatten_groups r in
      if is_no then let (t, g') := flatten_NO g in (xorb s t, g' ++ l)
      else (s, g ++ l)
  end.
Definition groups_ok (gs : list ogroup) : bool :=
  forallb (fun g : ogroup => negb (fst g) || forallb op_ov (snd g)) gs.
(* operator part of wicks for a product with normal-ordered groups *)
Definition wicks_groups (gs : list ogroup) : list wterm :=
  let (s, l) := flatten_groups gs in map (fun t => (xorb s (fst t), snd t)) (wicks_ops l).

(* ---------- support for the per-run ties (harness/props/c01.py) ---------- *)
(* tie T: the table translated from the source of _contraction returns, per
   case, None (S.Zero) or the product of KroneckerDelta(x, y) with
   x, y in {p_idx, q_idx, new generic registry index of a space} *)
Inductive darg := AP | AQ | AFresh (sp : space).
Definition gres := option (list (darg * darg)).
Definition darg_eqb (a b : darg) : bool :=
  match a, b with
  | AP, AP => true | AQ, AQ => true
  | AFresh s, AFresh t => space_eqb s t
  | _, _ => false
  end.
(* KroneckerDelta is symmetric in its arguments *)
Definition dpair_eqb (x y : darg * darg) : bool :=
  (darg_eqb (fst x) (fst y) && darg_eqb (snd x) (snd y)) ||
  (darg_eqb (fst x) (snd y) && darg_eqb (snd x) (fst y)).
Fixpoint dlist_eqb (l1 l2 : list (darg * darg)) : bool :=
  match l1, l2 with
  | [], [] => true
  | x :: r1, y :: r2 => dpair_eqb x y && dlist_eqb r1 r2
  | _, _ => false
  end.
Definition gres_eqb (a b : gres) : bool :=
  match a, b with
  | None, None => true
  | Some x, Some y => dlist_eqb x y
  | _, _ => false
  end.
Definition gres_of_tcode (t : tcode) : gres :=
  match t with
  | TZero => None
  | TDelta => Some [(AP, AQ)]
  | TDelta2 sp => Some [(AP, AQ); (AQ, AFresh sp)]
  end.
Definition model_table (pf qf : bool) (sp sq : space) : gres :=
  gres_of_tcode (contraction_table pf qf sp sq).
Definition table_domain : list (bool * bool * space * space) :=
  flat_map (fun pf => flat_map (fun qf => flat_map (fun sp =>
    map (fun sq => (pf, qf, sp, sq)) [Gen; Occ; Virt]) [Gen; Occ; Virt]) [false; true]) [false; true].
Definition table_diff (g : bool -> bool -> space -> space -> gres) : list (bool * bool * space * space) :=
  filter (fun c : bool * bool * space * space =>
            let '(pf, qf, sp, sq) := c in negb (gres_eqb (g pf qf sp sq) (model_table pf qf sp sq)))
         table_domain.
Definition tables_agree (g : bool -> bool -> space -> space -> gres) : bool :=
  match table_diff g with [] => true | _ => false end.

(* tie F: compact printable form of the model's results; the harness numbers
   the indices of a string and passes the number as the letter *)
Definition cres_code (c : cres) : N * N * N :=
  match c with
  | CZero => (0, 0, 9)%N
  | CDelta p q => (iletter p, iletter q, 0)%N
  | CDelta2 p q Occ => (iletter p, iletter q, 1)%N
  | CDelta2 p q Virt => (iletter p, iletter q, 2)%N
  | CDelta2 p q Gen => (iletter p, iletter q, 3)%N
  end.
Definition wterms_out (l : list wterm) : list (bool * list (N * N * N)) :=
  map (fun t => (fst t, map cres_code (snd t))) l.
Definition contract_out (ops : list op) := wterms_out (contract ops).
Definition contraction_out (a b : op) := cres_code (contraction a b).
(* which terms survive Rules.apply *)
Definition rules_keep (r : rules) (e : expr) : list bool :=
  match r with [] => map (fun _ => true) e | _ => map (fun t => negb (term_forbidden r t)) e end.

Definition op_code (a : op) : bool * N := (ocre a, iletter (oidx a)).
Definition flatten_out (l : list op) := (fst (flatten_NO l), map op_code (snd (flatten_NO l))).
