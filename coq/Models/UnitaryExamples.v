(* C20 - a concrete scalar field (Qc), a concrete orthogonal tensor model and
   the witnesses showing that the side condition of unitary_step_sound is
   necessary for the code as it is. *)
From Coq Require Import ZArith QArith Qcanon List Bool Lia String Permutation.
From ADC Require Import Core.Scalar Core.Index Core.Expr Core.Swap Core.Canon Core.Equiv.
From ADC Require Import Models.Unitary Models.UnitaryProofs.
Import ListNotations.
Open Scope string_scope.

(* ---------- the rationals as a Scalar ---------- *)
Lemma Q2Qc_add a b : Q2Qc (a + b) = (Q2Qc a + Q2Qc b)%Qc.
Proof. unfold Qcplus. apply Q2Qc_eq_iff. cbn [this Q2Qc]. rewrite !Qred_correct. reflexivity. Qed.
Lemma Q2Qc_mul a b : Q2Qc (a * b) = (Q2Qc a * Q2Qc b)%Qc.
Proof. unfold Qcmult. apply Q2Qc_eq_iff. cbn [this Q2Qc]. rewrite !Qred_correct. reflexivity. Qed.
Lemma Qinv_opp_eq (x : Q) : (/ (- x) == - / x)%Q.
Proof. destruct x as [[|n|n] d]; reflexivity. Qed.
Lemma Qcinv_opp x : (/ (- x) = - / x)%Qc.
Proof. unfold Qcinv, Qcopp. apply Q2Qc_eq_iff. cbn [this Q2Qc]. rewrite !Qred_correct. apply Qinv_opp_eq. Qed.

Definition QcScalar : Scalar :=
  {| K := Qc; k0 := 0%Qc; k1 := 1%Qc; kadd := Qcplus; kmul := Qcmult; ksub := Qcminus;
     kopp := Qcopp; kinv := Qcinv; ofQ := Q2Qc; Kring := Qcrt;
     ofQ_eq := fun a b H => proj2 (Q2Qc_eq_iff a b) H;
     ofQ_0 := eq_refl; ofQ_1 := eq_refl;
     ofQ_add := Q2Qc_add; ofQ_mul := Q2Qc_mul; kinv_opp := Qcinv_opp |}.

(* ---------- a model: two orbitals per sort, U = rotation (3/5, 4/5; -4/5, 3/5) ---------- *)
Definition rot (x y : nat) : Qc :=
  match x, y with
  | O, O => Q2Qc (3 # 5) | O, _ => Q2Qc (4 # 5)
  | _, O => Q2Qc (- 4 # 5) | _, _ => Q2Qc (3 # 5)
  end.
Definition hashv (l : list nat) : Qc := Q2Qc (Z.of_nat (fold_left (fun a x => 3 * a + x + 1)%nat l 2%nat) # 1).
Definition tvex (k : kind) (name : string) (b : Z) (up lo : list nat) : Qc :=
  if String.eqb name "U" then
    match (up ++ lo)%list with [x; y] => rot x y | _ => 0%Qc end
  else hashv (up ++ lo)%list.
Definition Tex : tmodel QcScalar :=
  Build_tmodel QcScalar (fun _ _ => [0%nat; 1%nat]) tvex (fun _ => Q2Qc (7 # 1)) (fun _ => 1%Qc).

Lemma Tex_mat c x y : mat QcScalar Tex "U" c x y = rot x y.
Proof. destruct c as [[k b] n]. unfold mat. cbn [tv Tex]. unfold tvex. cbn [String.eqb Ascii.eqb Bool.eqb].
  rewrite firstn_skipn. reflexivity. Qed.

Example Tex_orthogonal : forall sp sn, orthogonal QcScalar Tex "U" (rng Tex sp sn).
Proof. intros sp sn c1 c2 x y Hx Hy. simpl in Hx, Hy. simpl rng. cbn [ksum].
  rewrite !Tex_mat.
  destruct Hx as [<-|[<-|[]]]; destruct Hy as [<-|[<-|[]]]; split;
    apply Qc_is_canon; vm_compute; reflexivity. Qed.

(* indices *)
Definition ip := Idx Gen NoSpin 112 0 0.
Definition iq := Idx Gen NoSpin 113 0 0.
Definition ir := Idx Gen NoSpin 114 0 0.
Definition is_ := Idx Gen NoSpin 115 0 0.
Definition U (a b : index) : factor := (ATens (Tens KNonSym "U" 0 [a; b] []), false).
Definition Tn (n : string) (l : list index) : factor := (ATens (Tens KNonSym n 0 l []), false).
Definition env0 : env := fun _ => 0%nat.

(* the regular case: U_pq U_pr T_qr -> delta_qr T_qr, all values agree *)
Example regular_pass :
  unitary_pass "U" (Some [iq; ir]) (Term 1 [U ip iq; U ip ir; Tn "T" [iq; ir]])
  = RStep (false, ip, iq, ir) (Term 1 [(ADelta iq ir, false); Tn "T" [iq; ir]]).
Proof. vm_compute. reflexivity. Qed.

(* ---------- (a) the square of the unitary tensor ----------
   simplify_unitary(Expr(U_pq**2), 'U') returns 1; the value is the dimension. *)
Definition sq_term := Term 1 [U ip iq; U ip iq].
Example square_pass : unitary_pass "U" (Some []) sq_term = RStep (false, ip, iq, iq) (Term 1 [])
                   /\ unitary_pass "U" None sq_term = RStep (false, ip, iq, iq) (Term 1 []).
Proof. split; vm_compute; reflexivity. Qed.
Example square_values :
  eval_term QcScalar Tex [] env0 sq_term = Q2Qc 2 /\ eval_term QcScalar Tex [] env0 (Term 1 []) = Q2Qc 1.
Proof. split; apply Qc_is_canon; vm_compute; reflexivity. Qed.

(* Without the side condition the step theorem is false for the model of the
   code as it is. *)
Theorem unitary_step_sound_nosidecond_refuted :
  exists (S : Scalar) (T : tmodel S) name tg t p q r t' r0,
    unitary_step name tg t p q r t' /\
    unitary_pass name (Some tg) t = RStep (false, p, q, r) t' /\
    same_sort q p = true /\ same_sort r p = true /\
    orthogonal S T name (irange S T p) /\
    (forall x, In x tg -> In (r0 x) (irange S T x)) /\
    eval_term S T tg r0 t <> eval_term S T tg r0 t'.
Proof. exists QcScalar, Tex, "U", [], sq_term, ip, iq, iq, (Term 1 []), env0.
  assert (Hp : unitary_pass "U" (Some []) sq_term = RStep (false, ip, iq, iq) (Term 1 []))
    by (vm_compute; reflexivity).
  split; [apply (unitary_pass_sound "U" [] sq_term false); exact Hp|].
  split; [exact Hp|]. split; [reflexivity|]. split; [reflexivity|].
  split; [apply Tex_orthogonal|]. split; [intros x []|].
  intros H. apply (f_equal this) in H. vm_compute in H. discriminate H. Qed.

(* the same through the whole recursion: the result of the model of
   simplify_term_unitary has a different value *)
Theorem unitary_iter_value_refuted :
  exists (S : Scalar) (T : tmodel S) name tg t t' r0,
    unitary_iter 3 name (Some tg) t = Some t' /\
    (forall sp sn, orthogonal S T name (rng T sp sn)) /\
    eval_term S T tg r0 t <> eval_term S T tg r0 t'.
Proof. exists QcScalar, Tex, "U", [], sq_term, (Term 1 []), env0.
  split; [vm_compute; reflexivity|]. split; [apply Tex_orthogonal|].
  intros H. apply (f_equal this) in H. vm_compute in H. discriminate H. Qed.

(* ---------- (b) the follow-up delta evaluation ignores the provided targets ----------
   simplify_unitary(Expr(U_pq U_pr T_q, target_idx=(q, r)), 'U', evaluate_deltas=True)
   returns T_r: func.evaluate_deltas is called on res.sympy without the provided
   targets, re-derives "r is the only target" and substitutes q -> r. *)
Definition ed_term := Term 1 [Tn "T" [iq]; U ip iq; U ip ir].
Example ed_as_coded_run :
  simplify_ed_as_coded 3 "U" (Some [iq; ir]) ed_term = Some (Term 1 [Tn "T" [ir]]).
Proof. vm_compute. reflexivity. Qed.
Example ed_respecting_run :
  simplify_ed_respecting 3 "U" (Some [iq; ir]) ed_term
  = Some (Term 1 [(ADelta iq ir, false); Tn "T" [iq]]).
Proof. vm_compute. reflexivity. Qed.
Definition env_qr : env := fun x => if index_eqb x ir then 1%nat else 0%nat.

Theorem simplify_ed_as_coded_refuted :
  exists (S : Scalar) (T : tmodel S) name tg t t' r0,
    simplify_ed_as_coded 3 name (Some tg) t = Some t' /\
    (forall sp sn, orthogonal S T name (rng T sp sn)) /\
    (forall x, In x tg -> In (r0 x) (irange S T x)) /\
    eval_term S T tg r0 t <> eval_term S T tg r0 t'.
Proof. exists QcScalar, Tex, "U", [iq; ir], ed_term, (Term 1 [Tn "T" [ir]]), env_qr.
  split; [vm_compute; reflexivity|]. split; [apply Tex_orthogonal|].
  split; [intros x [<-|[<-|[]]]; vm_compute; auto|].
  intros H. apply (f_equal this) in H. vm_compute in H. discriminate H. Qed.

(* with the provided targets handed on, the same input keeps its value *)
Example simplify_ed_respecting_value :
  exists t', simplify_ed_respecting 3 "U" (Some [iq; ir]) ed_term = Some t' /\
    eval_term QcScalar Tex [iq; ir] env_qr ed_term = eval_term QcScalar Tex [iq; ir] env_qr t' /\
    eval_term QcScalar Tex [iq; ir] env0 ed_term = eval_term QcScalar Tex [iq; ir] env0 t'.
Proof. eexists. split; [vm_compute; reflexivity|]. split; apply Qc_is_canon; vm_compute; reflexivity. Qed.
