(* C20 - a concrete scalar field (Qc), a concrete orthogonal tensor model and
   the witnesses showing that the side condition of unitary_step_sound is
   necessary for the code as it is. *)
From Coq Require Import ZArith QArith Qcanon List Bool Lia String Permutation.
From ADC Require Import Core.Scalar Core.Index Core.Expr Core.Swap Core.Canon Core.Equiv.
From ADC Require Import Models.Unitary Models.UnitaryProofs.
Import ListNotations.
Open Scope string_scope.

(* ---------- the rationals as a Scalar ---------- *)
Lemma Q2Qc_add a b : Q2Qc (a + b) = (Q2Qc a + Q2Qc b)%Qc.
Proof. unfold Qcplus. apply Q2Qc_eq_iff. cbn [this Q2Qc]. rewrite !Qred_correct. reflexivity. Qed.
Lemma Q2Qc_mul a b : Q2Qc (a * b) = (Q2Qc a * Q2Qc b)%Qc.
Proof. unfold Qcmult. apply Q2Qc_eq_iff. cbn [this Q2Qc]. rewrite !Qred_correct. reflexivity. Qed.
Lemma Qinv_opp_eq (x : Q) : (/ (- x) == - / x)%Q.
Proof. destruct x as [[|n|n] d]; reflexivity. Qed.
Lemma Qcinv_opp x : (/ (- x) = - / x)%Qc.
Proof. unfold Qcinv, Qcopp. apply Q2Qc_eq_iff. cbn [this Q2Qc]. rewrite !Qred_correct. apply Qinv_opp_eq. Qed.

Definition QcScalar : Scalar :=
  {| K := Qc; k0 := 0%Qc; k1 := 1%Qc; kadd := Qcplus; kmul := Qcmult; ksub := Qcminus;
     kopp := Qcopp; kinv := Qcinv; ofQ := Q2Qc; Kring := Qcrt;
     ofQ_eq := fun a b H => proj2 (Q2Qc_eq_iff a b) H;
     ofQ_0 := eq_refl; ofQ_1 := eq_refl;
     ofQ_add := Q2Qc_add; ofQ_mul := Q2Qc_mul; kinv_opp := Qcinv_opp |}.

(* ---------- a model: two orbitals per sort, U = rotation (3/5, 4/5; -4/5, 3/5) ---------- *)
Definition rot (x y : nat) : Qc :=
  match x, y with
  | O, O => Q2Qc (3 # 5) | O, _ => Q2Qc (4 # 5)
  | _, O => Q2Qc (- 4 # 5) | _, _ => Q2Qc (3 # 5)
  end.
Definition hashv (l : list nat) : Qc := Q2Qc (Z.of_nat (fold_left (fun a x => 3 * a + x + 1)%nat l 2%nat) # 1).
Definition tvex (k : kind) (name : string) (b : Z) (up lo : list nat) : Qc :=
  if String.eqb name "U" then
    match (up ++ lo)%list with [x; y] => rot x y | _ => 0%Qc end
  else hashv (up ++ lo)%list.
Definition Tex : tmodel QcScalar :=
  Build_tmodel QcScalar (fun _ _ => [0%nat; 1%nat]) tvex (fun _ => Q2Qc (7 # 1)) (fun _ => 1%Qc).

Lemma Tex_mat c x y : mat QcScalar Tex "U" c x y = rot x y.
Proof. destruct c as [[k b] n]. unfold mat. cbn [tv Tex]. unfold tvex. cbn [String.eqb Ascii.eqb Bool.eqb].
  rewrite firstn_skipn. reflexivity. Qed.

Example Tex_orthogonal : forall sp sn, orthogonal QcScalar Tex "U" (rng Tex sp sn).
Proof. intros sp sn c1 c2 x y Hx Hy. simpl in Hx, Hy. simpl rng. cbn [ksum].
  rewrite !Tex_mat.
  destruct Hx as [<-|[<-|[]]]; destruct Hy as [<-|[<-|[]]]; split;
    apply Qc_is_canon; vm_compute; reflexivity. Qed.

(* indices *)
Definition ip := Idx Gen NoSpin 112 0 0.
Definition iq := Idx Gen NoSpin 113 0 0.
Definition ir := Idx Gen NoSpin 114 0 0.
Definition is_ := Idx Gen NoSpin 115 0 0.
Definition U (a b : index) : factor := (ATens (Tens KNonSym "U" 0 [a; b] []), false).
Definition Tn (n : string) (l : list index) : factor := (ATens (Tens KNonSym n 0 l []), false).
Definition env0 : env := fun _ => 0%nat.

(* the regular case: U_pq U_pr T_qr -> delta_qr T_qr, all values agree *)
Example regular_pass :
  unitary_pass "U" (Some [iq; ir]) (Term 1 [U ip iq; U ip ir; Tn "T" [iq; ir]])
  = RStep (false, ip, iq, ir) (Term 1 [(ADelta iq ir, false); Tn "T" [iq; ir]]).
Proof. vm_compute. reflexivity. Qed.

(* ---------- (a) the square of the unitary tensor ----------
   Before the repair simplify_unitary(Expr(U_pq**2), 'U') returned 1 although the
   value is the dimension.  The relation still contains that step (it is why
   unitary_step_sound needs its side condition); the executable pass - like
   the repaired code - skips it. *)
Definition sq_term := Term 1%Q [U ip iq; U ip iq].
Example square_values :
  eval_term QcScalar Tex [] env0 sq_term = Q2Qc 2 /\ eval_term QcScalar Tex [] env0 (Term 1 []) = Q2Qc 1.
Proof. split; apply Qc_is_canon; vm_compute; reflexivity. Qed.

Lemma square_step : unitary_step "U" [] sq_term ip iq iq (Term 1 []).
Proof. change (Term 1 []) with (build 1 iq iq []).
  apply (UStep "U" [] 1 [U ip iq; U ip iq] (Tens KNonSym "U" 0 [ip; iq] []) (Tens KNonSym "U" 0 [ip; iq] [])
               [] false ip iq iq); try reflexivity.
  - split; reflexivity.
  - intros []. Qed.

(* Without the side condition the step theorem is false. *)
Theorem unitary_step_sound_nosidecond_refuted :
  exists (S : Scalar) (T : tmodel S) name tg t p q r t' r0,
    unitary_step name tg t p q r t' /\
    same_sort q p = true /\ same_sort r p = true /\
    orthogonal S T name (irange S T p) /\
    (forall x, In x tg -> In (r0 x) (irange S T x)) /\
    eval_term S T tg r0 t <> eval_term S T tg r0 t'.
Proof. exists QcScalar, Tex, "U", [], sq_term, ip, iq, iq, (Term 1 []), env0.
  split; [exact square_step|]. split; [reflexivity|]. split; [reflexivity|].
  split; [apply Tex_orthogonal|]. split; [intros x []|].
  intros H. apply (f_equal this) in H. vm_compute in H. discriminate H. Qed.

(* regression: the executable pass and recursion leave U_pq**2 alone when q is
   contracted, and still replace it by 1 when q is a target *)
Example square_regression :
  unitary_pass "U" (Some []) sq_term = RNone /\
  unitary_pass "U" None sq_term = RNone /\
  unitary_iter 3 "U" (Some []) sq_term = Some [sq_term] /\
  unitary_iter 3 "U" None sq_term = Some [sq_term] /\
  unitary_iter 3 "U" (Some [iq]) sq_term = Some [Term 1 []].
Proof. repeat split; vm_compute; reflexivity. Qed.

(* ---------- (c) the remaining product is a sum ----------
   U_pq**2 * (e_q + e_s), targets (q, s): both summands are returned *)
Definition sum_term :=
  Term 1%Q [(APoly [(1%Q, [Tens KNonSym "e" 0 [iq] []]); (1%Q, [Tens KNonSym "e" 0 [is_] []])], false);
          U ip iq; U ip iq].
Example sum_regression :
  unitary_iter 3 "U" (Some [iq; is_]) sum_term
  = Some [Term (1 * 1)%Q [Tn "e" [iq]]; Term (1 * 1)%Q [Tn "e" [is_]]] /\
  wfb "U" Gen NoSpin [iq; is_] sum_term = true.
Proof. split; vm_compute; reflexivity. Qed.
Example sum_regression_value :
  eval_term QcScalar Tex [iq; is_] env0 sum_term
  = ksum [Term (1 * 1)%Q [Tn "e" [iq]]; Term (1 * 1)%Q [Tn "e" [is_]]] (eval_term QcScalar Tex [iq; is_] env0).
Proof. apply (unitary_iter_sound QcScalar Tex "U" Gen NoSpin [iq; is_] 3).
  - vm_compute; reflexivity.
  - vm_compute; reflexivity.
  - apply Tex_orthogonal.
  - intros x [<-|[<-|[]]]; vm_compute; auto. Qed.

(* ---------- (b) the follow-up delta evaluation and the provided targets ----------
   Before the repair func.evaluate_deltas was called on res.sympy without the
   provided targets: U_pq U_pr T_q with targets (q, r) became T_r. *)
Definition ed_term := Term 1 [Tn "T" [iq]; U ip iq; U ip ir].
Definition env_qr : env := fun x => if index_eqb x ir then 1%nat else 0%nat.

(* what ignoring the provided targets does (kept as documentation of the defect) *)
Theorem simplify_ed_ignoring_targets_refuted :
  exists (S : Scalar) (T : tmodel S) name tg t out r0,
    simplify_ed_ignoring_targets 3 name (Some tg) t = Some out /\
    (forall sp sn, orthogonal S T name (rng T sp sn)) /\
    (forall x, In x tg -> In (r0 x) (irange S T x)) /\
    eval_term S T tg r0 t <> ksum out (eval_term S T tg r0).
Proof. exists QcScalar, Tex, "U", [iq; ir], ed_term, [Term 1 [Tn "T" [ir]]], env_qr.
  split; [vm_compute; reflexivity|]. split; [apply Tex_orthogonal|].
  split; [intros x [<-|[<-|[]]]; vm_compute; auto|].
  intros H. apply (f_equal this) in H. vm_compute in H. discriminate H. Qed.

(* regression: as coded now the provided targets are handed on, the delta
   between the two targets stays and the value is kept *)
Example simplify_ed_regression :
  simplify_ed_as_coded 3 "U" (Some [iq; ir]) ed_term
  = Some [Term 1 [(ADelta iq ir, false); Tn "T" [iq]]] /\
  eval_term QcScalar Tex [iq; ir] env_qr ed_term
  = eval_term QcScalar Tex [iq; ir] env_qr (Term 1 [(ADelta iq ir, false); Tn "T" [iq]]) /\
  eval_term QcScalar Tex [iq; ir] env0 ed_term
  = eval_term QcScalar Tex [iq; ir] env0 (Term 1 [(ADelta iq ir, false); Tn "T" [iq]]).
Proof. split; [vm_compute; reflexivity|]. split; apply Qc_is_canon; vm_compute; reflexivity. Qed.
