(* C19: histories of index requests - fresh generic indices of any two
   requests in any history are disjoint; memoised members are stable. *)
From Coq Require Import List Arith NArith Lia Bool.
From ADC Require Import Core.Index Models.Substitution Models.Registry Models.RegistryProofs.
Import ListNotations.

Lemma run_app ops1 ops2 st outs :
  run (ops1 ++ ops2) st outs =
  let (st1, outs1) := run ops1 st outs in run ops2 st1 outs1.
Proof. revert st outs. induction ops1 as [|o ops1 IH]; intros st outs; simpl; [reflexivity|].
  destruct (step st o) as [st' x]. apply IH. Qed.

Lemma run_outs_grow ops : forall st outs e, In e (outs_entries outs) ->
  In e (outs_entries (snd (run ops st outs))).
Proof. induction ops as [|o ops IH]; intros st outs e H; simpl; [exact H|].
  destruct (step st o) as [st' x]. apply IH. unfold outs_entries; simpl.
  apply in_or_app. right. exact H. Qed.

(* the output of the operation executed after the history [ops] is part of
   every longer history *)
Lemma history_snoc_out ops o more e :
  In e (out_entries (snd (step (fst (history ops)) o))) ->
  In e (outs_entries (snd (history (ops ++ o :: more)))).
Proof. unfold history. intros H. rewrite run_app.
  destruct (run ops init []) as [st outs] eqn:E. cbn [fst snd] in *. simpl.
  destruct (step st o) as [st' x] eqn:Es. cbn [snd] in H.
  apply run_outs_grow. unfold outs_entries; simpl. apply in_or_app. left. exact H. Qed.

(* Two requests for generic indices at two different points of ANY history
   (e.g. two calls of psi / norm_factor / overlap, with arbitrary other index
   requests before, between and after) return indices with pairwise different
   (space, spin, name): wavefunctions requested repeatedly never share
   contracted indices, whatever happened before. *)
Theorem fresh_disjoint (ops1 ops2 : list op) (r1 r2 : list (sort * nat)) (e1 e2 : entry) :
  In e1 (out_entries (snd (step (fst (history ops1)) (OpGeneric r1)))) ->
  In e2 (out_entries (snd (step (fst (history (ops1 ++ OpGeneric r1 :: ops2))) (OpGeneric r2)))) ->
  e_key e1 <> e_key e2.
Proof. intros H1 H2 Heq.
  apply (generic_never_handed_out_before (ops1 ++ OpGeneric r1 :: ops2) r2 e2 e1 H2);
    [|symmetry; exact Heq].
  apply history_snoc_out. exact H1. Qed.

(* The same holds against explicitly requested names: a generic index never
   coincides with a name handed out by any earlier explicit request. *)
Theorem fresh_vs_explicit (ops1 ops2 : list op) (o : op) (r2 : list (sort * nat)) (e1 e2 : entry) :
  In e1 (out_entries (snd (step (fst (history ops1)) o))) ->
  In e2 (out_entries (snd (step (fst (history (ops1 ++ o :: ops2))) (OpGeneric r2)))) ->
  e_key e1 <> e_key e2.
Proof. intros H1 H2 Heq.
  apply (generic_never_handed_out_before (ops1 ++ o :: ops2) r2 e2 e1 H2);
    [|symmetry; exact Heq].
  apply history_snoc_out. exact H1. Qed.

(* ---------- cached members: a memo table keyed by the arguments ---------- *)
Section Memo.
Context {A B : Type} (eqb : A -> A -> bool).
Hypothesis eqb_eq : forall a b, eqb a b = true <-> a = b.
Fixpoint lookup (a : A) (m : list (A * B)) : option B :=
  match m with [] => None | (k, v) :: r => if eqb a k then Some v else lookup a r end.
(* a call evaluates [f] only if the argument is not cached; [f] may depend
   on the current state of the world (here: an arbitrary parameter w) *)
Definition call {W} (f : W -> A -> B) (w : W) (a : A) (m : list (A * B)) : B * list (A * B) :=
  match lookup a m with
  | Some v => (v, m)
  | None => let v := f w a in (v, m ++ [(a, v)]) end.

Lemma lookup_app_some a v m m' : lookup a m = Some v -> lookup a (m ++ m') = Some v.
Proof. induction m as [|[k x] m IH]; simpl; [discriminate|].
  destruct (eqb a k); [congruence|exact IH]. Qed.

(* once a value is cached, every later call - in any world, after any other
   calls - returns that value and leaves it cached *)
Theorem memo_stable {W} (f : W -> A -> B) a v m :
  lookup a m = Some v ->
  forall (calls : list (W * A)),
    let m' := fold_left (fun m wa => snd (call f (fst wa) (snd wa) m)) calls m in
    lookup a m' = Some v /\ forall w, fst (call f w a m') = v.
Proof. intros H calls. revert m H. induction calls as [|[w b] calls IH]; intros m H; simpl.
  - split; [exact H|]. intros w. unfold call. rewrite H. reflexivity.
  - apply IH. unfold call. destruct (lookup b m) as [x|] eqn:E; simpl; [exact H|].
    apply lookup_app_some; exact H. Qed.
End Memo.
