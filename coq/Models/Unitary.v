(* C20 - model of adcgen.simplify.simplify_unitary (simplify.py:332-446, after
   the fix: commits 07796aa, f9ef81e, 38083c0).

   A term is the flattened factor list of Core/Expr.v (a power U^n is n copies
   of the factor, U^-n is n inverted copies), in the order of sympy's
   [Mul.args]; this is exactly the list [unitary_tensors] of positions the
   code builds ("for _ in range(o.exponent)"), so [itertools.combinations]
   over it is the lexicographic enumeration of position pairs a < b of the
   flattened list.  One call of the recursive closure [simplify_term_unitary]
   is [unitary_pass]; the order of the factors of the term handed to the
   next recursion level is sympy's business and is treated as input (the
   harness compares level by level, modulo factor order). *)
From Coq Require Import ZArith QArith List Bool Lia String Permutation.
From ADC Require Import Core.Scalar Core.Index Core.Expr Core.Canon Core.Equiv.
Import ListNotations.

(* ---------- index occurrence counter: Counter(term.idx) ---------- *)
Fixpoint icount (x : index) (l : list index) : nat :=
  match l with [] => 0 | y :: r => (if index_eqb x y then 1 else 0) + icount x r end.

(* Term.target: provided target indices, else the Einstein convention
   (indices that occur exactly once; exponents count with their absolute value) *)
Definition einstein_targets (t : term) : list index :=
  filter (fun x => Nat.eqb (icount x (term_idx t)) 1) (inodup (term_idx t)).
Definition targets_of (prov : option (list index)) (t : term) : list index :=
  match prov with Some tg => tg | None => einstein_targets t end.

(* ---------- recognising the unitary tensor ---------- *)
(* o.name == t_name, "for _ in range(o.exponent)": positive exponents only *)
Definition named (name : string) (f : factor) : option tens :=
  match f with
  | (ATens u, false) => if String.eqb (tname u) name then Some u else None
  | _ => None
  end.
Definition idx2 (u : tens) : option (index * index) :=
  match tens_idx u with [a; b] => Some (a, b) | _ => None end.
(* "Did only implement the case of 2D unitary tensors" *)
Definition bad_u (name : string) (f : factor) : bool :=
  match named name f with
  | Some u => match idx2 u with None => true | Some _ => false end
  | None => false
  end.

(* what a matching pair yields: (second position?, common p, remaining q, r) *)
Definition winfo := (bool * index * index * index)%type.

(* "U_pq U_pq = delta_qq = 1: if q is a contracted index that occurs nowhere
   else, the sum over q would be lost" -> continue *)
Definition skip_pair (tg ix : list index) (q r : index) : bool :=
  index_eqb q r && negb (imem q tg) && Nat.eqb (icount q ix) 2.
(* the if / elif of the loop body followed by the skip test *)
Definition pair_rem (tg ix : list index) (i1 i2 : index * index) : option winfo :=
  let '(a0, a1) := i1 in
  let '(b0, b1) := i2 in
  if index_eqb a0 b0 && negb (imem a0 tg) && Nat.eqb (icount a0 ix) 2
  then (if skip_pair tg ix a1 b1 then None else Some (false, a0, a1, b1))
  else if index_eqb a1 b1 && negb (imem a1 tg) && Nat.eqb (icount a1 ix) 2
  then (if skip_pair tg ix a0 b0 then None else Some (true, a1, a0, b0))
  else None.
Definition try_pair (name : string) (tg ix : list index) (x y : factor) : option winfo :=
  match named name x, named name y with
  | Some u1, Some u2 =>
      match idx2 u1, idx2 u2 with
      | Some i1, Some i2 => pair_rem tg ix i1 i2
      | _, _ => None
      end
  | _, _ => None
  end.

(* ---------- combinations(range(n), 2) in lexicographic order ---------- *)
Fixpoint splits {A} (pre l : list A) : list (list A * A * list A) :=
  match l with
  | [] => []
  | x :: r => (pre, x, r) :: splits (pre ++ [x]) r
  end.
(* (first, second, all other factors in their original order) *)
Definition all_pairs {A} (l : list A) : list (A * A * list A) :=
  flat_map (fun s1 : list A * A * list A =>
              let '(pre, x, post) := s1 in
              map (fun s2 : list A * A * list A =>
                     let '(mid, y, post2) := s2 in (x, y, pre ++ mid ++ post2))
                  (splits [] post))
           (splits [] l).
Fixpoint find_first {A B} (f : A -> option B) (l : list A) : option B :=
  match l with
  | [] => None
  | x :: r => match f x with Some b => Some b | None => find_first f r end
  end.

(* ---------- KroneckerDelta(q, r) (sympy_objects.KroneckerDelta.eval) ---------- *)
Definition delta_zero (i j : index) : bool :=
  (negb (space_eqb (ispace i) Gen) && negb (space_eqb (ispace j) Gen)
   && negb (space_eqb (ispace i) (ispace j)))
  || (negb (spin_eqb (ispin i) NoSpin) && negb (spin_eqb (ispin j) NoSpin)
      && negb (spin_eqb (ispin i) (ispin j))).
Inductive dres := DOne | DZero | DFac (f : factor).
Definition mk_delta (i j : index) : dres :=
  if index_eqb i j then DOne
  else if delta_zero i j then DZero
  else DFac (if idx_leb i j then ADelta i j else ADelta j i, false).

Definition is_delta_fac (i j : index) (f : factor) : bool :=
  match f with
  | (ADelta a b, false) =>
      (index_eqb a i && index_eqb b j) || (index_eqb a j && index_eqb b i)
  | _ => false
  end.
(* new_term = delta * (lowered powers) * (other objects); an equal delta that
   is already present is absorbed (KroneckerDelta._eval_power: d**2 -> d) *)
Definition build (c : Q) (q r : index) (rest : list factor) : term :=
  match mk_delta q r with
  | DOne => Term c rest
  | DZero => Term 0 []
  | DFac d => if existsb (is_delta_fac q r) rest then Term c rest else Term c (d :: rest)
  end.

(* ---------- one call of simplify_term_unitary (without the recursion) ---------- *)
Inductive result := RErr | RNone | RStep (w : winfo) (t : term).

Definition pair_step (name : string) (tg ix : list index) (xyz : factor * factor * list factor)
  : option (winfo * list factor) :=
  let '(x, y, rest) := xyz in
  match try_pair name tg ix x y with Some w => Some (w, rest) | None => None end.

Definition unitary_pass_tg (name : string) (tg : list index) (t : term) : result :=
  if existsb (bad_u name) (tfacs t) then RErr
  else match find_first (pair_step name tg (term_idx t)) (all_pairs (tfacs t)) with
       | None => RNone
       | Some (w, rest) => let '(_, _, q, r) := w in RStep w (build (tcoef t) q r rest)
       end.
Definition unitary_pass (name : string) (prov : option (list index)) (t : term) : result :=
  unitary_pass_tg name (targets_of prov t) t.

(* "the remaining product might be a sum, e.g. 1 * (a + b)": when all that is
   left is one sum (sympy distributes the rational prefactor over it),
   new_term has several terms and each is simplified on its own *)
Definition summand (c : Q) (qt : Q * list tens) : term :=
  Term (c * fst qt) (map (fun u : tens => (ATens u, false)) (snd qt)).
Definition split_sum (t : term) : list term :=
  match tfacs t with
  | [(APoly p, false)] => if Nat.leb 2 (List.length p) then map (summand (tcoef t)) p else [t]
  | _ => [t]
  end.

Fixpoint iter_all (g : term -> option (list term)) (ts : list term) : option (list term) :=
  match ts with
  | [] => Some []
  | t :: r => match g t, iter_all g r with
              | Some a, Some b => Some (a ++ b)
              | _, _ => None
              end
  end.
(* the recursion, with the model's own factor order between the levels;
   the result is the list of terms whose sum is returned *)
Fixpoint unitary_iter (fuel : nat) (name : string) (prov : option (list index)) (t : term)
  : option (list term) :=
  match fuel with
  | O => None
  | S f => match unitary_pass name prov t with
           | RErr => None
           | RNone => Some [t]
           | RStep _ t' => iter_all (unitary_iter f name prov) (split_sum t')
           end
  end.

(* ---------- the rewriting relation ---------- *)
(* [unitary_step name tg t p q r t']: two positive occurrences of tensor [name]
   in t share the index p in the first resp. second position; p is no target
   and occurs exactly twice in t; they are replaced by KroneckerDelta(q, r). *)
Inductive unitary_step (name : string) (tg : list index)
  : term -> index -> index -> index -> term -> Prop :=
| UStep c fs u1 u2 rest (pos : bool) p q r :
    Permutation fs ((ATens u1, false) :: (ATens u2, false) :: rest) ->
    tname u1 = name -> tname u2 = name ->
    (if pos then tens_idx u1 = [q; p] /\ tens_idx u2 = [r; p]
     else tens_idx u1 = [p; q] /\ tens_idx u2 = [p; r]) ->
    ~ In p tg -> icount p (mono_idx fs) = 2%nat ->
    unitary_step name tg (Term c fs) p q r (build c q r rest).

(* all one-step successors (every pair, not only the first) *)
Definition succs (name : string) (tg : list index) (t : term) : list (winfo * term) :=
  flat_map (fun xyz => match pair_step name tg (term_idx t) xyz with
                       | Some (w, rest) => let '(_, _, q, r) := w in
                                           [(w, build (tcoef t) q r rest)]
                       | None => [] end)
           (all_pairs (tfacs t)).

(* ---------- comparison of terms modulo factor order / delta argument order ---------- *)
(* a polynomial factor is made monic in its first summand (summands sorted by
   their tensors): sympy distributes a leading number over a sum, 3*(a+b) ->
   3*a+3*b, -(a-b) -> b-a, whenever the product is rebuilt *)
Definition poly_lead (p : list (Q * list tens)) : Q :=
  match p with (c, _) :: _ => if Qeq_bool c 0 then 1 else c | [] => 1 end.
Definition poly_monic (p : list (Q * list tens)) : Q * list (Q * list tens) :=
  let p' := ksort code_pterm p in
  let c1 := poly_lead p' in
  (c1, map (fun qt : Q * list tens => (Qred (fst qt / c1), snd qt)) p').
Definition norm_fac (f : factor) : Q * factor :=
  match f with
  | (ADelta i j, b) => (1, (if idx_leb i j then ADelta i j else ADelta j i, b))
  | (APoly p, false) => let (c, p') := poly_monic p in (c, (APoly p', false))
  | _ => (1, f)
  end.
Definition qprod (l : list Q) : Q := fold_right Qmult 1 l.
Definition norm_term (t : term) : term :=
  let nf := map norm_fac (tfacs t) in
  Term (Qred (tcoef t * qprod (map fst nf))) (ksort code_fac (map snd nf)).
Definition term_eqb (a b : term) : bool :=
  q_eqb (tcoef a) (tcoef b) && list_eqb fac_eqb (tfacs a) (tfacs b).
Definition term_ceqb (a b : term) : bool := term_eqb (norm_term a) (norm_term b).

(* ---------- the side condition under which a step preserves the value ---------- *)
Definition sort_is (sp : space) (sn : spin) (x : index) : bool :=
  space_eqb (ispace x) sp && spin_eqb (ispin x) sn.
Definition incl_b (l1 l2 : list index) : bool := forallb (fun x => imem x l2) l1.
Definition set_eqb (l1 l2 : list index) : bool := incl_b l1 l2 && incl_b l2 l1.
(* all three indices of the pair in the sort on which the tensor is orthogonal;
   the two remaining indices are distinct, or the coinciding index is a target,
   or it still occurs in the result (so its summation is not lost) *)
Definition safe_step (sp : space) (sn : spin) (tg : list index) (w : winfo) (t' : term) : bool :=
  let '(_, p, q, r) := w in
  sort_is sp sn p && sort_is sp sn q && sort_is sp sn r &&
  (negb (index_eqb q r) || imem q tg || imem q (term_idx t')).

(* ---------- the premise of the property, as a boolean ----------
   every tensor called [name] (also inside sums) has all its indices in the
   sort (sp, sn); every sum factor is homogeneous: each summand carries all
   non-target indices of the sum (otherwise multiplying the sum out is not
   value preserving - this is about the input, not about simplify_unitary) *)
Definition tens_ok (name : string) (sp : space) (sn : spin) (u : tens) : bool :=
  negb (String.eqb (tname u) name) || forallb (sort_is sp sn) (tens_idx u).
Definition fac_tens (f : factor) : list tens :=
  match fst f with ATens u => [u] | APoly p => flat_map (fun qt : Q * list tens => snd qt) p | _ => [] end.
Definition homog (tg : list index) (p : list (Q * list tens)) : bool :=
  forallb (fun qt : Q * list tens =>
             forallb (fun x => imem x tg || imem x (flat_map tens_idx (snd qt))) (poly_idx p)) p.
Definition fac_ok (name : string) (sp : space) (sn : spin) (tg : list index) (f : factor) : bool :=
  forallb (tens_ok name sp sn) (fac_tens f) &&
  match f with (APoly p, false) => homog tg p | _ => true end.
Definition wfb (name : string) (sp : space) (sn : spin) (tg : list index) (t : term) : bool :=
  forallb (fac_ok name sp sn tg) (tfacs t).

(* reachability of [goal] from [t] (modulo factor order) through steps; with
   [safe = true] only through steps that satisfy the side condition and keep
   the target set *)
Fixpoint reachable (safe : bool) (name : string) (sp : space) (sn : spin)
         (prov : option (list index)) (fuel : nat) (t goal : term) : bool :=
  (term_ceqb t goal && set_eqb (targets_of prov t) (targets_of prov goal)) ||
  match fuel with
  | O => false
  | S f =>
      existsb (fun wt : winfo * term =>
                 (negb safe ||
                  (safe_step sp sn (targets_of prov t) (fst wt) (snd wt)
                   && set_eqb (targets_of prov (snd wt)) (targets_of prov t)))
                 && reachable safe name sp sn prov f (snd wt) goal)
              (succs name (targets_of prov t) t)
  end.

(* ---------- the optional follow-up: func.evaluate_deltas on the result ----------
   Fragment: deltas between two indices of one sort (all that simplify_unitary
   generates for a tensor with both indices in one space): the first argument
   is the preferred, the second the killable index and both carry the same
   information.  The full function is the subject of C09 (Models/Deltas.v);
   this fragment only serves to state which target indices it is given. *)
Definition sub1 (a b x : index) : index := if index_eqb x a then b else x.   (* a -> b *)
Definition subst_tens a b (t : tens) : tens :=
  Tens (tkind t) (tname t) (tbks t) (map (sub1 a b) (tupper t)) (map (sub1 a b) (tlower t)).
Definition subst_atom a b (x : atom) : atom :=
  match x with
  | ATens t => ATens (subst_tens a b t)
  | ADelta i j => ADelta (sub1 a b i) (sub1 a b j)
  | APoly p => APoly (map (fun qt : Q * list tens => (fst qt, map (subst_tens a b) (snd qt))) p)
  | _ => x
  end.
Definition subst_fac a b (f : factor) : factor := (subst_atom a b (fst f), snd f).
Definition trivial_delta (f : factor) : bool :=
  match f with (ADelta i j, _) => index_eqb i j | _ => false end.
(* expr.subs(a, b); KroneckerDelta(i, i) = 1 disappears *)
Definition subst_term a b (t : term) : term :=
  Term (tcoef t) (filter (fun f => negb (trivial_delta f)) (map (subst_fac a b) (tfacs t))).

(* target indices as evaluate_deltas determines them when none are passed:
   indices that occur on exactly one object (a power is one object) *)
Fixpoint dedup_facs (fs : list factor) : list factor :=
  match fs with
  | [] => []
  | f :: r => if existsb (fac_eqb f) r then dedup_facs r else f :: dedup_facs r
  end.
Definition obj_count (x : index) (fs : list factor) : nat :=
  List.length (filter (fun f => imem x (fac_idx f)) (dedup_facs fs)).
Definition targets_by_objects (t : term) : list index :=
  filter (fun x => Nat.eqb (obj_count x (tfacs t)) 1) (inodup (term_idx t)).

(* which substitution a delta triggers: kill the second index unless it is a
   target, else the first unless it is a target *)
Definition delta_action (tg : list index) (f : factor) : option (index * index) :=
  match f with
  | (ADelta i j, false) =>
      if negb (same_sort i j) then None
      else if negb (imem j tg) then Some (j, i)
      else if negb (imem i tg) then Some (i, j)
      else None
  | _ => None
  end.
(* evaluate_deltas only looks into products: "elif isinstance(expr, Mul)" *)
Definition is_mul (t : term) : bool :=
  negb (Qeq_bool (tcoef t) 1) || Nat.leb 2 (List.length (dedup_facs (tfacs t))).
Fixpoint eval_deltas (fuel : nat) (tg : list index) (t : term) : term :=
  match fuel with
  | O => t
  | S f => if negb (is_mul t) then t
           else match find_first (delta_action tg) (tfacs t) with
                | Some (a, b) => eval_deltas f tg (subst_term a b t)
                | None => t
                end
  end.
(* simplify_unitary(expr, name, evaluate_deltas=True) on one term:
   func.evaluate_deltas(res.sympy, target_idx=res.provided_target_idx) - the
   provided targets are passed on; without provided targets evaluate_deltas
   re-derives them per term.  [simplify_ed_ignoring_targets] is the behaviour
   before the repair (kept for the regression example). *)
Definition ed_targets (prov : option (list index)) (t : term) : list index :=
  match prov with Some tg => tg | None => targets_by_objects t end.
Definition simplify_ed_as_coded (fuel : nat) (name : string) (prov : option (list index)) (t : term)
  : option (list term) :=
  match unitary_iter fuel name prov t with
  | Some ts => Some (map (fun t' => eval_deltas fuel (ed_targets prov t') t') ts)
  | None => None
  end.
Definition simplify_ed_ignoring_targets (fuel : nat) (name : string) (prov : option (list index)) (t : term)
  : option (list term) :=
  match unitary_iter fuel name prov t with
  | Some ts => Some (map (fun t' => eval_deltas fuel (targets_by_objects t') t') ts)
  | None => None
  end.

(* ---------- verdicts used by the per-run correspondence (harness/props/c20.py) ----------
   The tracer records the tree of calls of simplify_term_unitary for one input
   term: a node carries the term, term.target as observed, and the calls made
   from it (none: returned here; one: ordinary replacement; several: the
   remaining product was a sum). *)
Inductive otree := ONode (t : term) (tgobs : list index) (kids : list otree).
Definition oroot (n : otree) : term := match n with ONode t _ _ => t end.
Definition okids (n : otree) : list otree := match n with ONode _ _ k => k end.

(* bring the observed children into the order of the model's summands *)
Fixpoint pick (t : term) (ks : list otree) : option (otree * list otree) :=
  match ks with
  | [] => None
  | k :: r => if term_ceqb t (oroot k) then Some (k, r)
              else match pick t r with Some (k', r') => Some (k', k :: r') | None => None end
  end.
Fixpoint align (ts : list term) (ks : list otree) : option (list otree) :=
  match ts with
  | [] => match ks with [] => Some [] | _ => None end
  | t :: ts' => match pick t ks with
                | Some (k, r) => match align ts' r with Some l => Some (k :: l) | None => None end
                | None => None
                end
  end.

(* one node against [unitary_pass]; [raised]: NotImplementedError at this node *)
Definition node_code (name : string) (prov : option (list index)) (n : otree) (raised : bool) : nat :=
  let t := oroot n in
  if negb (set_eqb (targets_of prov t) (match n with ONode _ tg _ => tg end)) then 1
  else match unitary_pass name prov t, raised, okids n with
       | RErr, true, _ => 0
       | RErr, false, _ => 2
       | _, true, _ => 6
       | RNone, _, [] => 0
       | RNone, _, _ :: _ => 3
       | RStep _ _, _, [] => 4
       | RStep _ t', _, ks => match align (split_sum t') ks with Some _ => 0 | None => 5 end
       end%nat.
(* preorder list of codes; [raised] applies to the last node visited *)
Fixpoint tree_codes (fuel : nat) (name : string) (prov : option (list index)) (n : otree)
         (raised : bool) : list nat :=
  match fuel with
  | O => [7%nat]
  | S f =>
      let ks := okids n in
      node_code name prov n (raised && match ks with [] => true | _ => false end)
      :: (fix go (l : list otree) : list nat :=
            match l with
            | [] => []
            | [k] => tree_codes f name prov k raised
            | k :: r => tree_codes f name prov k false ++ go r
            end) ks
  end.

(* the terms the implementation returned for this input term *)
Fixpoint leaves (fuel : nat) (n : otree) : list term :=
  match fuel with
  | O => []
  | S f => match okids n with
           | [] => [oroot n]
           | ks => flat_map (leaves f) ks
           end
  end.

(* the whole observed tree is explained by steps of the executable pass on
   well-formed terms that keep the target set: covered by check_tree_sound *)
Fixpoint check_tree (fuel : nat) (name : string) (sp : space) (sn : spin)
         (prov : option (list index)) (n : otree) : bool :=
  match fuel with
  | O => false
  | S f =>
      let t := oroot n in
      match okids n with
      | [] => true
      | ks =>
          wfb name sp sn (targets_of prov t) t &&
          match unitary_pass name prov t with
          | RStep _ t' =>
              match align (split_sum t') ks with
              | Some ks' =>
                  forallb (fun k => set_eqb (targets_of prov (oroot k)) (targets_of prov t)
                                    && check_tree f name sp sn prov k) ks'
              | None => false
              end
          | _ => false
          end
      end
  end.

Fixpoint ochain (fuel : nat) (n : otree) : option term :=      (* Some leaf if no node has 2 kids *)
  match fuel with
  | O => None
  | S f => match okids n with [] => Some (oroot n) | [k] => ochain f k | _ => None end
  end.

(* (codes per node in preorder, result reachable in the step relation in any
   order [chains only], tree covered by check_tree_sound) *)
Definition check_case (name : string) (sp : space) (sn : spin) (prov : option (list index))
           (n : otree) (depth : nat) (raised : bool) : list nat * bool * bool :=
  (tree_codes (S depth) name prov n raised,
   match ochain (S depth) n with
   | Some leaf => reachable false name sp sn prov (S depth) (oroot n) leaf
   | None => true
   end,
   check_tree (S depth) name sp sn prov n).

(* evaluate_deltas=True: the implementation's result for a one-term input
   whose simplified form carries one delta, against the fragment *)
Definition ed_code (fuel : nat) (prov : option (list index)) (t' out : term) : nat :=
  if term_ceqb (eval_deltas fuel (ed_targets prov t') t') out then 0%nat else 1%nat.
