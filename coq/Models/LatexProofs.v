(* C18 - proofs about the LaTeX importer / printer model (Models/Latex.v):
   per-construct inversion lemmas "import (print x) = x" and the round-trip
   theorems. *)
From Coq Require Import Ascii String.
From Coq Require Import List Bool Arith NArith ZArith Lia.
From Coq Require Decimal DecimalString DecimalN DecimalPos DecimalFacts.
From ADC Require Import Core.Index Core.Expr Core.Equiv Models.Latex.
Import ListNotations.
Local Open Scope char_scope.
Local Open Scope list_scope.

(* ------------------------------------------------------------------ *)
(* characters                                                           *)
Lemma ceqb_refl c : ceqb c c = true.
Proof. apply Ascii.eqb_refl. Qed.
Lemma ceqb_eq a b : ceqb a b = true <-> a = b.
Proof. apply Ascii.eqb_eq. Qed.
Lemma ceqb_neq a b : ceqb a b = false <-> a <> b.
Proof. apply Ascii.eqb_neq. Qed.
Lemma ceqb_sym a b : ceqb a b = ceqb b a.
Proof. apply Ascii.eqb_sym. Qed.

Lemma str_eqb_refl s : str_eqb s s = true.
Proof. induction s as [|c s IH]; simpl; [reflexivity|]. now rewrite ceqb_refl, IH. Qed.
Lemma str_eqb_eq a b : str_eqb a b = true <-> a = b.
Proof. revert b; induction a as [|x a IH]; destruct b as [|y b]; simpl; try (split; congruence).
  rewrite andb_true_iff, ceqb_eq, IH. split; [intros [-> ->]; reflexivity|intros H; inversion H; auto]. Qed.
Lemma str_eqb_neq a b : a <> b -> str_eqb a b = false.
Proof. intros H. destruct (str_eqb a b) eqn:E; [apply str_eqb_eq in E; contradiction|reflexivity]. Qed.

(* the characters with a meaning for the importer *)
Definition specials : str := L "{}()^_ +-\".
Definition plain (c : ascii) : bool := negb (cmem c specials) && negb (is_ws c).

Ltac all_chars c := destruct c as [[] [] [] [] [] [] [] []]; vm_compute; try reflexivity; try discriminate; auto.

Lemma name_char_plain c : name_char c = true -> plain c = true.
Proof. all_chars c. Qed.
Lemma digit_name_char c : is_digit c = true -> name_char c = true.
Proof. all_chars c. Qed.
Lemma letter_name_char c : is_letter c = true -> name_char c = true.
Proof. all_chars c. Qed.
Lemma idx_letter_letter c : is_idx_letter c = true -> is_letter c = true.
Proof. all_chars c. Qed.
Lemma idx_letter_not_digit c : is_idx_letter c = true -> is_digit c = false.
Proof. all_chars c. Qed.
Lemma letter_not_digit c : is_letter c = true -> is_digit c = false.
Proof. all_chars c. Qed.

Lemma plain_spec c : plain c = true ->
  ceqb c "{" = false /\ ceqb c "}" = false /\ ceqb c "(" = false /\ ceqb c ")" = false /\
  ceqb c "^" = false /\ ceqb c "_" = false /\ ceqb c " " = false /\ ceqb c "+" = false /\
  ceqb c "-" = false /\ ceqb c "\" = false /\ is_ws c = false.
Proof. all_chars c; repeat split; reflexivity. Qed.

Definition all_plain (s : str) := forallb plain s = true.
Lemma all_plain_app a b : all_plain (a ++ b) <-> all_plain a /\ all_plain b.
Proof. unfold all_plain. rewrite forallb_app, andb_true_iff. tauto. Qed.
Lemma all_plain_cons c s : all_plain (c :: s) <-> plain c = true /\ all_plain s.
Proof. unfold all_plain; simpl. rewrite andb_true_iff. tauto. Qed.
Lemma forallb_imp {A} (p q : A -> bool) l : (forall x, p x = true -> q x = true) ->
  forallb p l = true -> forallb q l = true.
Proof. intros H. induction l as [|x l IH]; simpl; [auto|]. rewrite !andb_true_iff. intros [H1 H2]; auto. Qed.
Lemma name_chars_plain s : forallb name_char s = true -> all_plain s.
Proof. apply forallb_imp, name_char_plain. Qed.
Lemma digits_plain s : forallb is_digit s = true -> all_plain s.
Proof. intros H. apply name_chars_plain. revert H. apply forallb_imp, digit_name_char. Qed.
Lemma letters_plain s : forallb is_letter s = true -> all_plain s.
Proof. intros H. apply name_chars_plain. revert H. apply forallb_imp, letter_name_char. Qed.

(* ------------------------------------------------------------------ *)
(* prefix / find_sub / strip                                            *)
Lemma prefixb_app p s : prefixb p (p ++ s) = true.
Proof. induction p as [|c p IH]; simpl; [reflexivity|]. now rewrite ceqb_refl, IH. Qed.
Lemma prefixb_nil_r p : prefixb p [] = true -> p = [].
Proof. destruct p; simpl; [reflexivity|discriminate]. Qed.
Lemma skipn_app_len {A} (p s : list A) : skipn (length p) (p ++ s) = s.
Proof. induction p; simpl; auto. Qed.

Lemma find_sub_unfold sep s : find_sub sep s =
  if prefixb sep s then Some ([], skipn (length sep) s) else
  match s with
  | [] => None
  | c :: r => match find_sub sep r with Some (a, b) => Some (c :: a, b) | None => None end
  end.
Proof. destruct s; reflexivity. Qed.
Lemma find_sub_here sep b : find_sub sep (sep ++ b) = Some ([], b).
Proof. rewrite find_sub_unfold, prefixb_app, skipn_app_len. reflexivity. Qed.
Lemma find_sub_skip sep x s : prefixb sep (x :: s) = false ->
  find_sub sep (x :: s) = match find_sub sep s with Some (a, b) => Some (x :: a, b) | None => None end.
Proof. intros H. rewrite find_sub_unfold, H. reflexivity. Qed.
Lemma prefixb_head_neq sep c x s : sep = c :: tl sep -> x <> c -> prefixb sep (x :: s) = false.
Proof. intros -> H. simpl. assert (E : ceqb c x = false) by (apply ceqb_neq; congruence). now rewrite E. Qed.
(* a separator starting with a character that does not occur before it *)
Lemma find_sub_fresh sep c a b : sep = c :: tl sep -> ~ In c a ->
  find_sub sep (a ++ sep ++ b) = Some (a, b).
Proof. intros Hs Hn. induction a as [|x a IH]; simpl app.
  - apply find_sub_here.
  - simpl in Hn. rewrite find_sub_skip by (eapply prefixb_head_neq; eauto).
    rewrite IH by tauto. reflexivity. Qed.
Lemma find_sub_none sep c s : sep = c :: tl sep -> ~ In c s -> find_sub sep s = None.
Proof. intros Hs Hn. induction s as [|x s IH].
  - rewrite find_sub_unfold. rewrite Hs. reflexivity.
  - simpl in Hn. rewrite find_sub_skip by (eapply prefixb_head_neq; eauto).
    rewrite IH by tauto. reflexivity. Qed.

Lemma lstrip_by_id p s : (match s with c :: _ => p c = false | [] => True end) -> lstrip_by p s = s.
Proof. destruct s as [|c s]; simpl; [auto|]. intros ->. reflexivity. Qed.
Lemma rev_cons_last {A} (s : list A) x : rev (s ++ [x]) = x :: rev s.
Proof. rewrite rev_app_distr. reflexivity. Qed.
Lemma rstrip_by_snoc p s x : p x = false -> rstrip_by p (s ++ [x]) = s ++ [x].
Proof. intros H. unfold rstrip_by. rewrite rev_cons_last. simpl. rewrite H.
  simpl. rewrite rev_involutive. reflexivity. Qed.
Lemma rstrip_by_snoc_true p s y : p y = true -> rstrip_by p (s ++ [y]) = rstrip_by p s.
Proof. intros H. unfold rstrip_by. rewrite rev_cons_last. simpl. now rewrite H. Qed.
Lemma rstrip_by_nil p : rstrip_by p [] = [].
Proof. reflexivity. Qed.

(* last character *)
Lemma last_char_snoc s x : last_char (s ++ [x]) = Some x.
Proof. unfold last_char. now rewrite rev_cons_last. Qed.
Lemma removelast_snoc {A} (s : list A) x : removelast (s ++ [x]) = s.
Proof. apply removelast_last. Qed.

(* split_char *)
Lemma split_char_no c s : ~ In c s -> split_char c s = [s].
Proof. induction s as [|x s IH]; simpl; [reflexivity|]. intros H.
  assert (E : ceqb x c = false) by (apply ceqb_neq; intros ->; tauto). rewrite E.
  rewrite IH by tauto. reflexivity. Qed.
Lemma split_char_app c a b : ~ In c a -> split_char c (a ++ c :: b) = a :: split_char c b.
Proof. induction a as [|x a IH]; simpl; intros H.
  - now rewrite ceqb_refl.
  - assert (E : ceqb x c = false) by (apply ceqb_neq; intros ->; tauto). rewrite E.
    rewrite IH by tauto. reflexivity. Qed.

Lemma all_plain_notin s c : all_plain s -> plain c = false -> ~ In c s.
Proof. unfold all_plain. rewrite forallb_forall. intros H Hc Hi. apply H in Hi. congruence. Qed.

(* ------------------------------------------------------------------ *)
(* indices: import_indices inverts the printing of any index list       *)
Definition name_of (i : lidx) : str := lletter i :: ldigits i.
Arguments print_idx : simpl never.
Arguments print_idxs : simpl never.
Lemma print_idxs_cons i l : print_idxs (i :: l) = print_idx i ++ print_idxs l.
Proof. reflexivity. Qed.
Lemma print_idxs_nil : print_idxs [] = [].
Proof. reflexivity. Qed.
Lemma wf_idx_spec i : wf_idx i = true ->
  is_idx_letter (lletter i) = true /\ forallb is_digit (ldigits i) = true.
Proof. unfold wf_idx. now rewrite andb_true_iff. Qed.
Lemma name_of_plain i : wf_idx i = true -> all_plain (name_of i).
Proof. intros H. apply wf_idx_spec in H. destruct H as [H1 H2]. unfold name_of.
  apply all_plain_cons. split; [|apply digits_plain, H2].
  apply name_char_plain, letter_name_char, idx_letter_letter, H1. Qed.

Lemma split_idx_unfold c r : split_idx (c :: r) =
  match r with
  | d :: _ => if is_digit d
              then match split_idx r with h :: t => (c :: h) :: t | [] => [[c]] end
              else [c] :: split_idx r
  | [] => [[c]]
  end.
Proof. reflexivity. Qed.

Definition starts_nondigit (s : str) : Prop :=
  match s with d :: _ => is_digit d = false | [] => True end.

Lemma split_idx_name ds : forallb is_digit ds = true -> forall c rest, starts_nondigit rest ->
  split_idx (c :: ds ++ rest) = (c :: ds) :: split_idx rest.
Proof. induction ds as [|d ds IH]; intros Hd c rest Hr.
  - simpl app. rewrite split_idx_unfold. destruct rest as [|x rest]; [reflexivity|].
    simpl in Hr. rewrite Hr. reflexivity.
  - simpl in Hd. apply andb_true_iff in Hd. destruct Hd as [Hd1 Hd2].
    simpl app. rewrite split_idx_unfold. rewrite Hd1.
    rewrite (IH Hd2 d rest Hr). reflexivity. Qed.

Definition nospin (i : lidx) : Prop := lspin i = NoSpin.
Lemma print_idx_nospin i : nospin i -> print_idx i = name_of i.
Proof. unfold nospin, print_idx, name_of. intros ->. simpl. now rewrite app_nil_r. Qed.

Lemma print_idxs_app a b : print_idxs (a ++ b) = print_idxs a ++ print_idxs b.
Proof. unfold print_idxs. apply flat_map_app. Qed.

Lemma starts_nondigit_names l : Forall (fun i => wf_idx i = true) l ->
  starts_nondigit (print_idxs l).
Proof. destruct l as [|i l]; [simpl; auto|]. intros H. inversion H as [|? ? Hi _]; subst.
  rewrite print_idxs_cons. unfold print_idx. simpl.
  apply wf_idx_spec in Hi. apply idx_letter_not_digit, Hi. Qed.

(* names of spin-free indices are recovered by split_idx_string *)
Lemma split_idx_names l rest : Forall (fun i => wf_idx i = true) l -> Forall nospin l ->
  starts_nondigit rest ->
  split_idx (print_idxs l ++ rest) = map name_of l ++ split_idx rest.
Proof. induction l as [|i l IH]; intros Hw Hn Hr; [reflexivity|].
  inversion Hw as [|? ? Hi Hw']; inversion Hn as [|? ? Hni Hn']; subst.
  rewrite print_idxs_cons. rewrite (print_idx_nospin i Hni). unfold name_of at 1.
  rewrite <- app_assoc. simpl app.
  rewrite split_idx_name.
  - rewrite IH by assumption. reflexivity.
  - apply wf_idx_spec in Hi. apply Hi.
  - destruct l as [|j l]; [exact Hr|]. rewrite print_idxs_cons. unfold print_idx. simpl.
    inversion Hw' as [|? ? Hj _]; subst. apply wf_idx_spec in Hj. apply idx_letter_not_digit, Hj. Qed.

Lemma mk_idx_name sp i : wf_idx i = true -> mk_idx sp (name_of i) = Some (LIdx (lletter i) (ldigits i) sp).
Proof. intros H. apply wf_idx_spec in H. unfold mk_idx, name_of. now rewrite (proj1 H). Qed.
Lemma omap_cons {A B} (f : A -> option B) x r :
  omap f (x :: r) = obind (f x) (fun y => obind (omap f r) (fun ys => Some (y :: ys))).
Proof. reflexivity. Qed.
Lemma omap_mk_idx l : Forall (fun i => wf_idx i = true) l -> Forall nospin l ->
  omap (mk_idx NoSpin) (map name_of l) = Some l.
Proof. induction l as [|i l IH]; intros Hw Hn; [reflexivity|].
  inversion Hw; inversion Hn; subst. rewrite map_cons, omap_cons. rewrite mk_idx_name by assumption.
  rewrite IH by assumption. simpl. destruct i as [c ds sp]. unfold nospin in *; simpl in *. subst. reflexivity. Qed.

Lemma omap_app {A B} (f : A -> option B) l1 l2 r1 r2 :
  omap f l1 = Some r1 -> omap f l2 = Some r2 -> omap f (l1 ++ l2) = Some (r1 ++ r2).
Proof. revert r1; induction l1 as [|x l1 IH]; simpl; intros r1 H1 H2.
  - inversion H1; subst. exact H2.
  - destruct (f x); [|discriminate]. simpl in *. destruct (omap f l1) eqn:E; [|discriminate].
    simpl in *. inversion H1; subst. rewrite (IH l eq_refl H2). reflexivity. Qed.

Lemma print_idxs_plain l : Forall (fun i => wf_idx i = true) l -> Forall nospin l ->
  all_plain (print_idxs l).
Proof. induction l as [|i l IH]; intros Hw Hn; [reflexivity|].
  inversion Hw; inversion Hn; subst. rewrite print_idxs_cons. apply all_plain_app. split; [|auto].
  rewrite print_idx_nospin by assumption. now apply name_of_plain. Qed.

Lemma in_specials_not_plain c : In c specials -> plain c = false.
Proof. unfold specials. simpl. intros H.
  repeat (destruct H as [<-|H]; [reflexivity|]). contradiction. Qed.

(* a piece without spin label *)
Lemma import_sub_nospin l : Forall (fun i => wf_idx i = true) l -> Forall nospin l ->
  import_sub (print_idxs l) = Some l.
Proof. intros Hw Hn. unfold import_sub.
  destruct (print_idxs l) eqn:E.
  - destruct l as [|i l]; [reflexivity|]. rewrite print_idxs_cons in E. unfold print_idx in E. discriminate.
  - rewrite <- E. clear E.
    assert (Hp := print_idxs_plain l Hw Hn).
    unfold contains. rewrite (find_sub_none spin_sep "_").
    + unfold get_symbols. rewrite <- (app_nil_r (print_idxs l)).
      rewrite split_idx_names by (auto; exact I). simpl. rewrite app_nil_r.
      now apply omap_mk_idx.
    + reflexivity.
    + apply all_plain_notin; [exact Hp|reflexivity]. Qed.

Definition spin_word (s : spin) : str :=
  match s with NoSpin => [] | Alpha => L "alpha" | Beta => L "beta" end.
Lemma print_spin_word s : s <> NoSpin -> print_spin s = spin_sep ++ spin_word s ++ ["}"].
Proof. destruct s; [congruence|reflexivity|reflexivity]. Qed.

(* a piece "names..last_{\alpha" *)
Lemma import_sub_spin l i : Forall (fun i => wf_idx i = true) l -> Forall nospin l ->
  wf_idx i = true -> lspin i <> NoSpin ->
  import_sub (print_idxs l ++ name_of i ++ spin_sep ++ spin_word (lspin i)) = Some (l ++ [i]).
Proof. intros Hw Hn Hi Hs. unfold import_sub.
  destruct (print_idxs l ++ name_of i ++ spin_sep ++ spin_word (lspin i)) eqn:E.
  { unfold name_of in E. destruct (print_idxs l); discriminate. }
  rewrite <- E. clear E.
  assert (Hp : all_plain (print_idxs l ++ name_of i)).
  { apply all_plain_app. split; [now apply print_idxs_plain|now apply name_of_plain]. }
  assert (F : find_sub spin_sep (print_idxs l ++ name_of i ++ spin_sep ++ spin_word (lspin i))
              = Some (print_idxs l ++ name_of i, spin_word (lspin i))).
  { rewrite app_assoc. apply (find_sub_fresh spin_sep "_"); [reflexivity|].
    apply all_plain_notin; [exact Hp|reflexivity]. }
  unfold contains, split2. rewrite F.
  assert (F2 : find_sub spin_sep (spin_word (lspin i)) = None).
  { destruct (lspin i); reflexivity. }
  rewrite F2. cbn [obind].
  assert (Sp : (if str_eqb (spin_word (lspin i)) (L "alpha") then Some Alpha
                else if str_eqb (spin_word (lspin i)) (L "beta") then Some Beta else None)
               = Some (lspin i)).
  { destruct (lspin i); [congruence|reflexivity|reflexivity]. }
  rewrite Sp. cbn [obind].
  assert (Sx : split_idx (print_idxs l ++ name_of i) = map name_of l ++ [name_of i]).
  { rewrite split_idx_names; [|assumption|assumption|].
    - f_equal. unfold name_of. rewrite <- (app_nil_r (ldigits i)) at 1.
      rewrite split_idx_name; [reflexivity| |exact I]. apply wf_idx_spec in Hi; apply Hi.
    - unfold name_of; simpl. apply wf_idx_spec in Hi. apply idx_letter_not_digit, Hi. }
  rewrite Sx. rewrite rev_app_distr. change (rev [name_of i] ++ rev (map name_of l)) with (name_of i :: rev (map name_of l)). cbv iota beta.
  rewrite rev_involutive. rewrite omap_mk_idx by assumption. cbn [obind].
  unfold get_symbols_spin.
  assert (S1 : split_idx (name_of i) = [name_of i]).
  { unfold name_of. rewrite <- (app_nil_r (ldigits i)) at 1.
    rewrite split_idx_name; [reflexivity| |exact I]. apply wf_idx_spec in Hi; apply Hi. }
  rewrite S1. rewrite mk_idx_name by assumption. simpl.
  destruct i as [c ds sp]; reflexivity. Qed.

Definition imp_parts (s : str) := omap import_sub (split_char "}" s).
Lemma import_indices_parts s parts : imp_parts s = Some parts ->
  import_indices s = Some (concat parts).
Proof. unfold import_indices, imp_parts. intros ->. reflexivity. Qed.

Lemma imp_parts_go l : Forall (fun i => wf_idx i = true) l ->
  forall pend, Forall (fun i => wf_idx i = true) pend -> Forall nospin pend ->
  exists parts, imp_parts (print_idxs pend ++ print_idxs l) = Some parts /\ concat parts = pend ++ l.
Proof. induction l as [|i l IH]; intros Hw pend Hpw Hpn.
  - rewrite print_idxs_nil, app_nil_r. exists [pend]. split; [|simpl; now rewrite !app_nil_r].
    unfold imp_parts. rewrite split_char_no.
    + simpl. rewrite import_sub_nospin by assumption. reflexivity.
    + apply all_plain_notin; [now apply print_idxs_plain|reflexivity].
  - inversion Hw as [|? ? Hi Hw']; subst.
    assert (Hdec : lspin i = NoSpin \/ lspin i <> NoSpin) by (destruct (lspin i); [left; reflexivity|right; discriminate|right; discriminate]).
    destruct Hdec as [Es|Es].
    + (* no spin: extend the pending names *)
      destruct (IH Hw' (pend ++ [i])) as [parts [H1 H2]].
      * apply Forall_app; split; [assumption|constructor; [assumption|constructor]].
      * apply Forall_app; split; [assumption|constructor; [exact Es|constructor]].
      * exists parts. split; [|rewrite H2, <- app_assoc; reflexivity].
        rewrite print_idxs_app in H1. rewrite print_idxs_cons, print_idxs_nil, app_nil_r in H1.
        rewrite <- app_assoc in H1. rewrite print_idxs_cons. exact H1.
    + destruct (IH Hw' [] (Forall_nil _) (Forall_nil _)) as [parts [H1 H2]].
      unfold imp_parts in H1. rewrite print_idxs_nil in H1. simpl app in H1, H2.
      exists ((pend ++ [i]) :: parts). split; [|simpl; rewrite H2, <- app_assoc; reflexivity].
      rewrite print_idxs_cons. unfold print_idx at 1. rewrite (print_spin_word _ Es).
      unfold imp_parts.
      replace (print_idxs pend ++ (lletter i :: ldigits i ++ spin_sep ++ spin_word (lspin i) ++ ["}"]) ++ print_idxs l)
        with ((print_idxs pend ++ name_of i ++ spin_sep ++ spin_word (lspin i)) ++ "}" :: print_idxs l).
      2:{ unfold name_of. rewrite <- !app_assoc. simpl. rewrite <- !app_assoc. simpl. rewrite <- !app_assoc. reflexivity. }
      rewrite split_char_app.
      * rewrite omap_cons. rewrite import_sub_spin by assumption.
        cbn [obind]. rewrite H1. reflexivity.
      * intros Hin. apply in_app_or in Hin. destruct Hin as [Hin|Hin].
        -- revert Hin. apply all_plain_notin; [now apply print_idxs_plain|reflexivity].
        -- apply in_app_or in Hin. destruct Hin as [Hin|Hin].
           ++ revert Hin. apply all_plain_notin; [now apply name_of_plain|reflexivity].
           ++ destruct (lspin i); simpl in Hin;
              repeat (destruct Hin as [Hin|Hin]; [discriminate|]); contradiction.
Qed.

Lemma forallb_Forall {A} (p : A -> bool) l : forallb p l = true <-> Forall (fun x => p x = true) l.
Proof. rewrite forallb_forall, Forall_forall. tauto. Qed.

(* names and spins of every index list are recovered *)
Theorem import_indices_print l : forallb wf_idx l = true ->
  import_indices (print_idxs l) = Some l.
Proof. intros H. apply forallb_Forall in H.
  destruct (imp_parts_go l H [] (Forall_nil _) (Forall_nil _)) as [parts [H1 H2]].
  rewrite print_idxs_nil in H1. simpl in H1, H2. rewrite (import_indices_parts _ _ H1). now rewrite H2. Qed.

(* ------------------------------------------------------------------ *)
(* numbers                                                              *)
Lemma L_string_of_list s : string_of_list_ascii (L s) = s.
Proof. apply string_of_list_ascii_of_string. Qed.

Lemma digits_of_uint d : forallb is_digit (L (DecimalString.NilEmpty.string_of_uint d)) = true.
Proof. induction d; simpl; auto. Qed.
Lemma uint_string_nonnil d : d <> Decimal.Nil -> L (DecimalString.NilEmpty.string_of_uint d) <> [].
Proof. destruct d; simpl; congruence. Qed.
Lemma to_uint_nonnil n : N.to_uint n <> Decimal.Nil.
Proof. destruct n; simpl; [discriminate|apply DecimalPos.Unsigned.to_uint_nonnil]. Qed.

Lemma print_N_digits n : forallb is_digit (print_N n) = true.
Proof. apply digits_of_uint. Qed.
Lemma print_N_nonempty n : print_N n <> [].
Proof. apply uint_string_nonnil, to_uint_nonnil. Qed.
Lemma isnumeric_print_N n : isnumeric (print_N n) = true.
Proof. unfold isnumeric. pose proof (print_N_nonempty n). destruct (print_N n) eqn:E; [congruence|].
  rewrite <- E. apply print_N_digits. Qed.
Lemma parse_print_N n : parse_N (print_N n) = Some n.
Proof. unfold parse_N. rewrite isnumeric_print_N. unfold print_N. rewrite L_string_of_list.
  rewrite DecimalString.NilEmpty.usu. now rewrite DecimalN.Unsigned.of_to. Qed.

Lemma digit_not_ws c : is_digit c = true -> is_ws c = false.
Proof. all_chars c. Qed.
Lemma digit_not_sign c : is_digit c = true -> ceqb c "-" = false /\ ceqb c "+" = false /\ ceqb c "_" = false.
Proof. all_chars c. Qed.

Lemma lstrip_all_not p s : forallb (fun c => negb (p c)) s = true -> lstrip_by p s = s.
Proof. destruct s as [|c s]; simpl; [reflexivity|]. rewrite andb_true_iff. intros [H _].
  destruct (p c); [discriminate|reflexivity]. Qed.
Lemma rstrip_all_not p s : forallb (fun c => negb (p c)) s = true -> rstrip_by p s = s.
Proof. intros H. unfold rstrip_by. rewrite lstrip_all_not; [apply rev_involutive|].
  rewrite forallb_forall in *. intros x Hx. apply H. now apply in_rev. Qed.
Lemma strip_no_ws s : forallb (fun c => negb (is_ws c)) s = true -> strip s = s.
Proof. intros H. unfold strip. rewrite lstrip_all_not by exact H. now apply rstrip_all_not. Qed.

Lemma digits_no_ws s : forallb is_digit s = true -> forallb (fun c => negb (is_ws c)) s = true.
Proof. apply forallb_imp. intros c H. now rewrite digit_not_ws. Qed.

Lemma underscores_ok_digits s b : forallb is_digit s = true -> s <> [] \/ b = true ->
  underscores_ok b s = true.
Proof. revert b. induction s as [|c s IH]; intros b Hd Hb; simpl.
  - destruct Hb; congruence.
  - simpl in Hd. apply andb_true_iff in Hd. destruct Hd as [H1 H2]. rewrite H1.
    apply IH; auto. Qed.
Lemma filter_us_digits s : forallb is_digit s = true ->
  filter (fun c => negb (ceqb c "_")) s = s.
Proof. induction s as [|c s IH]; simpl; [reflexivity|]. rewrite andb_true_iff. intros [H1 H2].
  destruct (digit_not_sign c H1) as [_ [_ E]]. rewrite E. simpl. now rewrite IH. Qed.
Lemma py_nat_print_N n : py_nat (print_N n) = Some n.
Proof. unfold py_nat. rewrite underscores_ok_digits.
  - rewrite filter_us_digits by apply print_N_digits. apply parse_print_N.
  - apply print_N_digits.
  - left. apply print_N_nonempty. Qed.

Lemma py_int_print_Z z : py_int (print_Z z) = Some z.
Proof. unfold py_int, print_Z. destruct (z <? 0)%Z eqn:Ez.
  - rewrite strip_no_ws.
    + rewrite py_nat_print_N. simpl. f_equal. apply Z.ltb_lt in Ez. rewrite N2Z.inj_abs_N. lia.
    + simpl. apply digits_no_ws, print_N_digits.
  - rewrite strip_no_ws by (apply digits_no_ws, print_N_digits).
    pose proof (print_N_nonempty (Z.to_N z)) as Hne. pose proof (print_N_digits (Z.to_N z)) as Hd.
    pose proof (py_nat_print_N (Z.to_N z)) as Hp.
    destruct (print_N (Z.to_N z)) as [|c r] eqn:E; [congruence|].
    simpl in Hd. apply andb_true_iff in Hd. destruct Hd as [Hc _].
    assert (Hcm : c <> "-" /\ c <> "+").
    { destruct (digit_not_sign c Hc) as [A [B _]]. split; apply ceqb_neq; assumption. }
    assert (G : (n <- py_nat (c :: r);; Some (Z.of_N n)) = Some z).
    { rewrite Hp. simpl. f_equal. apply Z.ltb_ge in Ez. now rewrite Z2N.id. }
    destruct Hcm as [A B].
    destruct c as [[] [] [] [] [] [] [] []]; try exact G; congruence. Qed.

Lemma print_Z_plainish z : forallb (fun c => is_digit c || ceqb c "-") (print_Z z) = true.
Proof. unfold print_Z. destruct (z <? 0)%Z; simpl.
  - eapply forallb_imp; [|apply print_N_digits]. intros c ->. reflexivity.
  - eapply forallb_imp; [|apply print_N_digits]. intros c ->. reflexivity. Qed.

(* ------------------------------------------------------------------ *)
(* the bracket stack: marks of well-nested strings                      *)
Definition bracket (p : bool) (c : ascii) : bool := is_open p c || is_close p c.
Inductive wn (p : bool) : str -> Prop :=
| wn_nil : wn p []
| wn_char c s : bracket p c = false -> wn p s -> wn p (c :: s)
| wn_brace w s : wn p w -> wn p s -> wn p ("{" :: w ++ "}" :: s)
| wn_paren w s : p = true -> wn p w -> wn p s -> wn p ("(" :: w ++ ")" :: s).

Lemma wn_app p a b : wn p a -> wn p b -> wn p (a ++ b).
Proof. intros Ha Hb. induction Ha; simpl; auto.
  - apply wn_char; auto.
  - rewrite <- app_assoc. simpl. apply wn_brace; auto.
  - rewrite <- app_assoc. simpl. apply wn_paren; auto. Qed.
Lemma wn_flat p s : forallb (fun c => negb (bracket p c)) s = true -> wn p s.
Proof. induction s as [|c s IH]; simpl; [constructor|]. rewrite andb_true_iff. intros [H1 H2].
  apply wn_char; auto. now destruct (bracket p c). Qed.
Lemma plain_not_bracket p c : plain c = true -> bracket p c = false.
Proof. intros H. apply plain_spec in H. destruct H as [A [B [C [D _]]]].
  unfold bracket, is_open, is_close. rewrite A, B, C, D. now destruct p. Qed.
Lemma wn_plain p s : all_plain s -> wn p s.
Proof. intros H. apply wn_flat. revert H. apply forallb_imp. intros c Hc.
  now rewrite plain_not_bracket. Qed.
Lemma wn_braces p w : wn p w -> wn p ("{" :: w ++ ["}"]).
Proof. intros H. apply wn_brace; [exact H|constructor]. Qed.

Definition inm (w : str) : list (ascii * mark) := map (fun c => (c, MIn)) w.
Definition topm (w : str) : list (ascii * mark) := map (fun c => (c, MTop)) w.
Lemma inm_app a b : inm (a ++ b) = inm a ++ inm b.
Proof. apply map_app. Qed.

Lemma marks_cons_plain p st c s : bracket p c = false ->
  marks p st (c :: s) = (c, match st with [] => MTop | _ => MIn end) :: marks p st s.
Proof. unfold bracket. intros H. apply orb_false_iff in H. destruct H as [H1 H2].
  simpl. now rewrite H1, H2. Qed.
Lemma marks_open_brace p st s : marks p st ("{" :: s) = ("{", MIn) :: marks p ("{" :: st) s.
Proof. reflexivity. Qed.
Lemma marks_close_brace p st s : marks p ("{" :: st) ("}" :: s) = ("}", MIn) :: marks p st s.
Proof. destruct p; reflexivity. Qed.
Lemma marks_open_paren st s : marks true st ("(" :: s) = ("(", MIn) :: marks true ("(" :: st) s.
Proof. reflexivity. Qed.
Lemma marks_close_paren st s : marks true ("(" :: st) (")" :: s) = (")", MIn) :: marks true st s.
Proof. reflexivity. Qed.

Lemma marks_in p w : wn p w -> forall st r, st <> [] ->
  marks p st (w ++ r) = inm w ++ marks p st r.
Proof. intros H. induction H as [|c s Hc Hs IH|w s Hw IHw Hs IHs|w s Hp Hw IHw Hs IHs]; intros st r Hst.
  - reflexivity.
  - change ((c :: s) ++ r) with (c :: s ++ r). rewrite marks_cons_plain by exact Hc. destruct st; [congruence|].
    rewrite IH by exact Hst. reflexivity.
  - simpl app. rewrite marks_open_brace. rewrite <- app_assoc. rewrite IHw by discriminate.
    change (("}" :: s) ++ r) with ("}" :: s ++ r). rewrite marks_close_brace. rewrite IHs by exact Hst.
    unfold inm. simpl. rewrite map_app. simpl. rewrite <- app_assoc. reflexivity.
  - subst p. simpl app. rewrite marks_open_paren. rewrite <- app_assoc. rewrite IHw by discriminate.
    change ((")" :: s) ++ r) with (")" :: s ++ r). rewrite marks_close_paren. rewrite IHs by exact Hst.
    unfold inm. simpl. rewrite map_app. simpl. rewrite <- app_assoc. reflexivity. Qed.

Lemma marks_top p w : wn p w -> forall r, marks p [] (w ++ r) = marks p [] w ++ marks p [] r.
Proof. intros H. induction H as [|c s Hc Hs IH|w s Hw IHw Hs IHs|w s Hp Hw IHw Hs IHs]; intros r.
  - reflexivity.
  - change ((c :: s) ++ r) with (c :: s ++ r).
    rewrite (marks_cons_plain p [] c (s ++ r) Hc), (marks_cons_plain p [] c s Hc). rewrite IH. reflexivity.
  - change (("{" :: w ++ "}" :: s) ++ r) with ("{" :: (w ++ "}" :: s) ++ r).
    rewrite !marks_open_brace. rewrite <- !app_assoc.
    rewrite !(marks_in p w Hw) by discriminate.
    change (("}" :: s) ++ r) with ("}" :: s ++ r). rewrite !marks_close_brace.
    rewrite IHs. cbn [app]. rewrite <- app_assoc. reflexivity.
  - subst p. change (("(" :: w ++ ")" :: s) ++ r) with ("(" :: (w ++ ")" :: s) ++ r).
    rewrite !marks_open_paren. rewrite <- !app_assoc.
    rewrite !(marks_in true w Hw) by discriminate.
    change ((")" :: s) ++ r) with (")" :: s ++ r). rewrite !marks_close_paren.
    rewrite IHs. cbn [app]. rewrite <- app_assoc. reflexivity. Qed.

Lemma marks_brace_group p w r : wn p w ->
  marks p [] ("{" :: w ++ "}" :: r) = inm ("{" :: w ++ ["}"]) ++ marks p [] r.
Proof. intros Hw. rewrite marks_open_brace. rewrite (marks_in p w Hw) by discriminate.
  rewrite marks_close_brace. unfold inm. simpl. rewrite map_app. simpl. rewrite <- app_assoc. reflexivity. Qed.
Lemma marks_paren_group w r : wn true w ->
  marks true [] ("(" :: w ++ ")" :: r) = inm ("(" :: w ++ [")"]) ++ marks true [] r.
Proof. intros Hw. rewrite marks_open_paren. rewrite (marks_in true w Hw) by discriminate.
  rewrite marks_close_paren. unfold inm. simpl. rewrite map_app. simpl. rewrite <- app_assoc. reflexivity. Qed.
Lemma marks_flat p s : forallb (fun c => negb (bracket p c)) s = true -> marks p [] s = topm s.
Proof. induction s as [|c s IH]; simpl; [reflexivity|]. rewrite andb_true_iff. intros [H1 H2].
  assert (Hb : bracket p c = false) by now destruct (bracket p c).
  unfold bracket in Hb. apply orb_false_iff in Hb. destruct Hb as [A B]. rewrite A, B.
  rewrite IH by exact H2. reflexivity. Qed.
Lemma marks_plain p s : all_plain s -> marks p [] s = topm s.
Proof. intros H. apply marks_flat. revert H. apply forallb_imp. intros c Hc.
  now rewrite plain_not_bracket. Qed.
(* an opened, never closed brace: everything after it is nested *)
Lemma marks_open_tail p w : wn p w -> marks p [] ("{" :: w) = inm ("{" :: w).
Proof. intros Hw. rewrite marks_open_brace. rewrite <- (app_nil_r w) at 1.
  rewrite (marks_in p w Hw) by discriminate. simpl. now rewrite app_nil_r. Qed.

(* marked characters that no loop reacts to *)
Definition inert (sep : ascii -> bool) (m : list (ascii * mark)) : Prop :=
  Forall (fun cm => snd cm <> MErr /\ (snd cm = MTop -> sep (fst cm) = false)) m.
Lemma inert_app sep a b : inert sep a -> inert sep b -> inert sep (a ++ b).
Proof. apply Forall_app_intro || (intros; apply Forall_app; auto). Qed.
Lemma inert_inm sep w : inert sep (inm w).
Proof. unfold inert, inm. apply Forall_forall. intros [c m] H. apply in_map_iff in H.
  destruct H as [x [E _]]. inversion E; subst. simpl. split; [discriminate|discriminate]. Qed.
Lemma inert_topm sep w : forallb (fun c => negb (sep c)) w = true -> inert sep (topm w).
Proof. intros H. unfold inert, topm. apply Forall_forall. intros [c m] Hi. apply in_map_iff in Hi.
  destruct Hi as [x [E Hx]]. inversion E; subst. simpl. split; [discriminate|].
  intros _. rewrite forallb_forall in H. specialize (H _ Hx). now destruct (sep c). Qed.
Lemma fst_inm w : map fst (inm w) = w.
Proof. unfold inm. rewrite map_map. simpl. apply map_id. Qed.
Lemma fst_topm w : map fst (topm w) = w.
Proof. unfold topm. rewrite map_map. simpl. apply map_id. Qed.
Lemma fst_marks_gen p st s : map fst (marks p st s) = s.
Proof. revert st. induction s as [|c s IH]; intros st; [reflexivity|].
  simpl. destruct (is_open p c); [simpl; now rewrite IH|].
  destruct (is_close p c).
  - destruct st as [|o st']; [simpl; f_equal; rewrite map_map; apply map_id|].
    destruct (matching o c); [simpl; now rewrite IH|simpl; f_equal; rewrite map_map; apply map_id].
  - simpl. now rewrite IH. Qed.
Lemma fst_marks p w : map fst (marks p [] w) = w.
Proof. apply fst_marks_gen. Qed.

(* ------------------------------------------------------------------ *)
(* the four loops skip inert stretches                                  *)
Definition prepend_head (w : str) (ps : list str) : list str :=
  match ps with p :: r => (w ++ p) :: r | [] => [w] end.
Lemma cons_head_prepend (c : ascii) w ps : ps <> [] ->
  cons_head c (prepend_head w ps) = prepend_head (c :: w) ps.
Proof. destruct ps; [congruence|reflexivity]. Qed.
Lemma prepend_head_nil ps : ps <> [] -> prepend_head [] ps = ps.
Proof. destruct ps; [congruence|reflexivity]. Qed.
Lemma cons_head_as_prepend (c : ascii) ps : ps <> [] -> cons_head c ps = prepend_head [c] ps.
Proof. destruct ps; [congruence|reflexivity]. Qed.

Lemma inert_cons sep c mk m : inert sep ((c, mk) :: m) ->
  is_err mk = false /\ (sep c && is_top mk = false) /\ inert sep m.
Proof. intros H. inversion H as [|? ? [H1 H2] H3]; subst. simpl in *.
  split; [destruct mk; simpl; [reflexivity|reflexivity|exfalso; apply H1; reflexivity]|].
  split; [|exact H3].
  destruct mk; simpl; try apply andb_false_r. rewrite H2; reflexivity. Qed.

Lemma split_terms_m_nonempty m : forall ne ps, split_terms_m ne m = Some ps -> ps <> [].
Proof. induction m as [|[c mk] m IH]; intros ne ps; simpl.
  - intros H; inversion H; discriminate.
  - destruct (is_err mk); [discriminate|].
    destruct (is_pm c && is_top mk && ne).
    + destruct (split_terms_m true m); simpl; [|discriminate]. intros H; inversion H; discriminate.
    + destruct (split_terms_m true m) as [l|] eqn:E; simpl; [|discriminate].
      intros H; inversion H. destruct l; discriminate. Qed.

Lemma split_terms_inert m : inert is_pm m -> forall ne m',
  split_terms_m ne (m ++ m') =
  option_map (prepend_head (map fst m)) (split_terms_m (ne || nonempty m) m').
Proof. induction m as [|[c mk] m IH]; intros Hi ne m'.
  - simpl. rewrite orb_false_r. destruct (split_terms_m ne m') as [ps|] eqn:E; [|reflexivity].
    simpl. f_equal. symmetry. apply prepend_head_nil. eapply split_terms_m_nonempty; eauto.
  - apply inert_cons in Hi. destruct Hi as [He [Hs Hi]].
    change (((c, mk) :: m) ++ m') with ((c, mk) :: m ++ m').
    cbn [split_terms_m]. rewrite He, Hs. cbn [andb]. rewrite IH by exact Hi.
    cbn [nonempty]. rewrite orb_true_r. cbn [orb].
    destruct (split_terms_m true m') as [ps|] eqn:E; [|reflexivity].
    cbn [option_map obind map fst]. f_equal. apply cons_head_prepend.
    eapply split_terms_m_nonempty; eauto. Qed.

Definition sep_obj (c : ascii) : bool := is_pm c || ceqb c " ".
Lemma term_objs_m_nonempty m : forall ne ps, term_objs_m ne m = Some (Some ps) -> ps <> [].
Proof. induction m as [|[c mk] m IH]; intros ne ps; simpl.
  - intros H; inversion H; discriminate.
  - destruct (is_err mk); [discriminate|]. destruct (is_pm c && is_top mk); [discriminate|].
    destruct (ceqb c " " && is_top mk && ne).
    + destruct (term_objs_m false m) as [[l|]|]; try discriminate. intros H; inversion H; discriminate.
    + destruct (term_objs_m true m) as [[l|]|]; try discriminate. intros H; inversion H.
      destruct l; discriminate. Qed.

Definition omap2 {A} (f : A -> A) (x : option (option A)) : option (option A) :=
  match x with Some (Some a) => Some (Some (f a)) | y => y end.
Lemma term_objs_inert m : inert sep_obj m -> forall ne m',
  term_objs_m ne (m ++ m') =
  omap2 (prepend_head (map fst m)) (term_objs_m (ne || nonempty m) m').
Proof. induction m as [|[c mk] m IH]; intros Hi ne m'.
  - simpl. rewrite orb_false_r. destruct (term_objs_m ne m') as [[ps|]|] eqn:E; try reflexivity.
    simpl. do 2 f_equal. symmetry. apply prepend_head_nil. eapply term_objs_m_nonempty; eauto.
  - apply inert_cons in Hi. destruct Hi as [He [Hs Hi]].
    change (((c, mk) :: m) ++ m') with ((c, mk) :: m ++ m').
    unfold sep_obj in Hs.
    assert (H1 : is_pm c && is_top mk = false) by (destruct (is_pm c); [exact Hs|reflexivity]).
    assert (H2 : ceqb c " " && is_top mk = false).
    { destruct (is_pm c); [destruct (is_top mk); [discriminate|apply andb_false_r]|exact Hs]. }
    cbn [term_objs_m]. rewrite He, H1, H2. cbn [andb]. rewrite IH by exact Hi.
    cbn [nonempty]. rewrite orb_true_r. cbn [orb].
    destruct (term_objs_m true m') as [[ps|]|] eqn:E; try reflexivity.
    cbn [omap2 map fst]. do 2 f_equal. apply cons_head_prepend.
    eapply term_objs_m_nonempty; eauto. Qed.

Definition is_hat (c : ascii) : bool := ceqb c "^".
Definition hat_prepend (w : str) (x : option (option (str * str))) :=
  match x with Some (Some (a, b)) => Some (Some (w ++ a, b)) | y => y end.
Lemma find_hat_inert m : inert is_hat m -> forall m',
  find_hat_m (m ++ m') = hat_prepend (map fst m) (find_hat_m m').
Proof. induction m as [|[c mk] m IH]; intros Hi m'.
  - simpl. destruct (find_hat_m m') as [[[a b]|]|]; reflexivity.
  - apply inert_cons in Hi. destruct Hi as [He [Hs Hi]].
    change (((c, mk) :: m) ++ m') with ((c, mk) :: m ++ m').
    cbn [find_hat_m]. unfold is_hat in Hs. rewrite He, Hs. rewrite IH by exact Hi.
    destruct (find_hat_m m') as [[[a b]|]|]; reflexivity. Qed.

Definition sep_comp (c : ascii) : bool := ceqb c "^" || ceqb c "_".
Lemma components_m_nonempty m : forall ps, components_m m = Some ps -> ps <> [].
Proof. induction m as [|[c mk] m IH]; intros ps; simpl.
  - intros H; inversion H; discriminate.
  - destruct (is_err mk); [discriminate|].
    destruct ((ceqb c "^" || ceqb c "_") && is_top mk).
    + destruct (components_m m); simpl; [|discriminate]. intros H; inversion H; discriminate.
    + destruct (components_m m) as [l|]; simpl; [|discriminate]. intros H; inversion H.
      destruct l; discriminate. Qed.
Lemma components_inert m : inert sep_comp m -> forall m',
  components_m (m ++ m') = option_map (prepend_head (map fst m)) (components_m m').
Proof. induction m as [|[c mk] m IH]; intros Hi m'.
  - simpl. destruct (components_m m') as [ps|] eqn:E; [|reflexivity].
    simpl. f_equal. symmetry. apply prepend_head_nil. eapply components_m_nonempty; eauto.
  - apply inert_cons in Hi. destruct Hi as [He [Hs Hi]].
    change (((c, mk) :: m) ++ m') with ((c, mk) :: m ++ m').
    cbn [components_m]. unfold sep_comp in Hs. rewrite He, Hs. rewrite IH by exact Hi.
    destruct (components_m m') as [ps|] eqn:E; [|reflexivity].
    cbn [option_map obind map fst]. f_equal. apply cons_head_prepend.
    eapply components_m_nonempty; eauto. Qed.

(* ------------------------------------------------------------------ *)
(* tensors, symbols, operators: import_tensor inverts print_pow/print_base *)
Section Tensor.
Variable cfg : names.
Variable cv : bool.

Definition import_base (b : str) : option base :=
  b1 <- strip_layer b ;;
  comps <- components b1 ;;
  match comps with
  | [] => None
  | name :: ixs =>
    let name := if cv then map_default_name cfg name else name in
    ixs' <- omap strip_layer ixs ;;
    dispatch cfg name ixs'
  end.
Lemma import_tensor_base t : import_tensor cfg cv t =
  (fh <- find_hat t ;;
   let '(b, oe) := match fh with
                   | None => (t, Some 1%Z)
                   | Some (b, ex) => (b, py_int (rstrip_by (ceqb "}") (lstrip_by (ceqb "{") ex)))
                   end in
   e <- oe ;; bs <- import_base b ;; Some (OPow bs e)).
Proof. unfold import_tensor, import_base.
  destruct (find_hat t) as [[[b ex]|]|]; cbn [obind]; try reflexivity.
  - destruct (py_int _); cbn [obind]; [|reflexivity].
    destruct (strip_layer b); cbn [obind]; [|reflexivity].
    destruct (components s) as [[|nm ixs]|]; cbn [obind]; try reflexivity.
    destruct (omap strip_layer ixs); cbn [obind]; [|reflexivity].
    destruct (dispatch _ _ _); reflexivity.
  - destruct (strip_layer t); cbn [obind]; [|reflexivity].
    destruct (components s) as [[|nm ixs]|]; cbn [obind]; try reflexivity.
    destruct (omap strip_layer ixs); cbn [obind]; [|reflexivity].
    destruct (dispatch _ _ _); reflexivity. Qed.
End Tensor.

Definition grp (w : str) : str := "{" :: w ++ ["}"].
Lemma grp_cons w r : grp w ++ r = "{" :: w ++ "}" :: r.
Proof. unfold grp. simpl. rewrite <- app_assoc. reflexivity. Qed.

Lemma print_Z_nonempty z : print_Z z <> [].
Proof. unfold print_Z. destruct (z <? 0)%Z; [discriminate|apply print_N_nonempty]. Qed.
Lemma zchar_facts c : is_digit c || ceqb c "-" = true ->
  bracket false c = false /\ bracket true c = false /\ ceqb "{" c = false /\ ceqb "}" c = false /\ is_ws c = false.
Proof. all_chars c; repeat split; reflexivity. Qed.
Lemma print_Z_flat p z : forallb (fun c => negb (bracket p c)) (print_Z z) = true.
Proof. eapply forallb_imp; [|apply print_Z_plainish]. intros c H. apply zchar_facts in H.
  destruct H as [A [B _]]. destruct p; [now rewrite B|now rewrite A]. Qed.
Lemma wn_print_Z p z : wn p (print_Z z).
Proof. apply wn_flat, print_Z_flat. Qed.

(* "{" ++ Z ++ "}"  ->  Z *)
Lemma exponent_strip z :
  rstrip_by (ceqb "}") (lstrip_by (ceqb "{") (grp (print_Z z))) = print_Z z.
Proof. unfold grp. change (lstrip_by (ceqb "{") ("{" :: print_Z z ++ ["}"])) with (lstrip_by (ceqb "{") (print_Z z ++ ["}"])).
  pose proof (print_Z_nonempty z) as Hne. pose proof (print_Z_plainish z) as Hp.
  destruct (print_Z z) as [|c r] eqn:E; [congruence|]. rewrite <- E in *.
  assert (Hc : ceqb "{" c = false).
  { rewrite E in Hp. simpl in Hp. apply andb_true_iff in Hp. destruct Hp as [Hc _].
    apply zchar_facts in Hc. tauto. }
  rewrite lstrip_by_id.
  2:{ rewrite E. simpl. exact Hc. }
  destruct (exists_last Hne) as [r' [x Ex]]. rewrite Ex.
  assert (Hx : ceqb "}" x = false).
  { rewrite Ex in Hp. rewrite forallb_app in Hp. apply andb_true_iff in Hp. destruct Hp as [_ Hp].
    simpl in Hp. rewrite andb_true_r in Hp. apply zchar_facts in Hp. tauto. }
  rewrite rstrip_by_snoc_true by reflexivity. now apply rstrip_by_snoc. Qed.

(* the exponent of print_pow is found and parsed *)
Lemma find_hat_pow s0 e : wn false s0 -> inert is_hat (marks false [] s0) ->
  find_hat (print_pow s0 e) =
  Some (if (e =? 1)%Z then None else Some (s0, grp (print_Z e))).
Proof. intros Hw Hi. unfold find_hat, print_pow. destruct (e =? 1)%Z.
  - rewrite <- (app_nil_r (marks false [] s0)). rewrite find_hat_inert by exact Hi.
    reflexivity.
  - rewrite marks_top by exact Hw. rewrite find_hat_inert by exact Hi.
    change (L "^{" ++ print_Z e ++ L "}") with ("^" :: "{" :: print_Z e ++ ["}"]).
    rewrite marks_cons_plain by reflexivity.
    cbn [find_hat_m is_err ceqb is_top andb]. rewrite ceqb_refl. cbn [andb hat_prepend].
    rewrite fst_marks, fst_marks, app_nil_r. reflexivity. Qed.

Lemma import_tensor_pow cfg cv s0 e : wn false s0 -> inert is_hat (marks false [] s0) ->
  import_tensor cfg cv (print_pow s0 e) = (bs <- import_base cfg cv s0 ;; Some (OPow bs e)).
Proof. intros Hw Hi. rewrite import_tensor_base. rewrite find_hat_pow by assumption.
  cbn [obind]. destruct (e =? 1)%Z eqn:E.
  - apply Z.eqb_eq in E. subst e. unfold print_pow. simpl. reflexivity.
  - rewrite exponent_strip, py_int_print_Z. reflexivity. Qed.

Lemma strip_layer_grp w : strip_layer (grp w) = Some w.
Proof. unfold strip_layer, grp. rewrite ceqb_refl. rewrite last_char_snoc, ceqb_refl.
  now rewrite removelast_snoc. Qed.
Lemma strip_layer_plain s : s <> [] -> all_plain s -> strip_layer s = Some s.
Proof. intros Hne Hp. destruct s as [|c r] eqn:E; [congruence|]. rewrite <- E in *.
  destruct (exists_last Hne) as [r' [x Ex]].
  assert (Hc : plain c = true) by (rewrite E in Hp; apply all_plain_cons in Hp; tauto).
  assert (Hx : plain x = true).
  { rewrite Ex in Hp. apply all_plain_app in Hp. destruct Hp as [_ Hp]. apply all_plain_cons in Hp. tauto. }
  apply plain_spec in Hc. apply plain_spec in Hx.
  unfold strip_layer. rewrite E. destruct Hc as [Hc _]. rewrite Hc. rewrite <- E.
  rewrite Ex at 1. rewrite last_char_snoc. destruct Hx as [_ [Hx _]]. now rewrite Hx. Qed.

Lemma marks_grp p w r : wn p w -> marks p [] (grp w ++ r) = inm (grp w) ++ marks p [] r.
Proof. intros H. rewrite grp_cons. now apply marks_brace_group. Qed.
Lemma wn_grp p w : wn p w -> wn p (grp w).
Proof. apply wn_braces. Qed.

Lemma wn_print_spin p s : wn p (print_spin s).
Proof. destruct s; [constructor| |].
  - apply (wn_char p "_" _); [now destruct p|].
    apply (wn_brace p (L "\alpha") []); [|constructor]. apply wn_flat. now destruct p.
  - apply (wn_char p "_" _); [now destruct p|].
    apply (wn_brace p (L "\beta") []); [|constructor]. apply wn_flat. now destruct p. Qed.
Lemma wn_print_idx p i : wf_idx i = true -> wn p (print_idx i).
Proof. intros H. unfold print_idx.
  change (lletter i :: ldigits i ++ print_spin (lspin i)) with (name_of i ++ print_spin (lspin i)).
  apply wn_app; [apply wn_plain, name_of_plain, H|apply wn_print_spin]. Qed.
Lemma wn_print_idxs p l : forallb wf_idx l = true -> wn p (print_idxs l).
Proof. induction l as [|i l IH]; simpl; [constructor|]. rewrite andb_true_iff. intros [H1 H2].
  rewrite print_idxs_cons. apply wn_app; [now apply wn_print_idx|auto]. Qed.

Lemma components_sep c m : sep_comp c = true ->
  components_m ((c, MTop) :: m) = (ps <- components_m m ;; Some ([] :: ps)).
Proof. intros H. unfold sep_comp in H. cbn [components_m is_err is_top]. rewrite H. reflexivity. Qed.
Lemma plain_not_sep_comp s : all_plain s -> forallb (fun c => negb (sep_comp c)) s = true.
Proof. apply forallb_imp. intros c H. apply plain_spec in H. unfold sep_comp.
  destruct H as [_ [_ [_ [_ [A [B _]]]]]]. now rewrite A, B. Qed.
Lemma plain_not_hat s : all_plain s -> forallb (fun c => negb (is_hat c)) s = true.
Proof. apply forallb_imp. intros c H. apply plain_spec in H. unfold is_hat.
  destruct H as [_ [_ [_ [_ [A _]]]]]. now rewrite A. Qed.

Lemma drop_last_empty_keep (ps : list str) x : x <> [] -> drop_last_empty (ps ++ [x]) = ps ++ [x].
Proof. intros H. unfold drop_last_empty. rewrite rev_cons_last. destruct x; [congruence|reflexivity]. Qed.

Lemma wf_tname_spec n : wf_tname n = true ->
  n <> [] /\ all_plain n /\ str_eqb n (L "a") = false.
Proof. unfold wf_tname. rewrite !andb_true_iff. intros [[H1 H2] H3]. split; [destruct n; [discriminate|discriminate]|].
  split; [now apply name_chars_plain|]. now destruct (str_eqb n (L "a")). Qed.

(* name^{U}_{Lo} *)
Lemma components_tensor name U Lo : all_plain name -> name <> [] -> wn false U -> wn false Lo ->
  components (name ++ "^" :: grp U ++ "_" :: grp Lo) = Some [name; grp U; grp Lo].
Proof. intros Hp Hne HU HL. unfold components.
  rewrite marks_top by now apply wn_plain. rewrite marks_plain by exact Hp.
  rewrite components_inert by (apply inert_topm, plain_not_sep_comp, Hp).
  rewrite marks_cons_plain by reflexivity. rewrite components_sep by reflexivity.
  rewrite marks_grp by exact HU. rewrite components_inert by apply inert_inm.
  rewrite marks_cons_plain by reflexivity. rewrite components_sep by reflexivity.
  rewrite <- (app_nil_r (grp Lo)). rewrite marks_grp by exact HL.
  rewrite components_inert by apply inert_inm.
  cbn [marks components_m option_map obind prepend_head]. rewrite !fst_inm, fst_topm, !app_nil_r.
  reflexivity. Qed.
(* name_{I} *)
Lemma components_nonsym name I : all_plain name -> name <> [] -> wn false I ->
  components (name ++ "_" :: grp I) = Some [name; grp I].
Proof. intros Hp Hne HI. unfold components.
  rewrite marks_top by now apply wn_plain. rewrite marks_plain by exact Hp.
  rewrite components_inert by (apply inert_topm, plain_not_sep_comp, Hp).
  rewrite marks_cons_plain by reflexivity. rewrite components_sep by reflexivity.
  rewrite <- (app_nil_r (grp I)). rewrite marks_grp by exact HI.
  rewrite components_inert by apply inert_inm.
  cbn [marks components_m option_map obind prepend_head]. rewrite !fst_inm, fst_topm, !app_nil_r.
  reflexivity. Qed.
Lemma components_plain name : all_plain name -> name <> [] -> components name = Some [name].
Proof. intros Hp Hne. unfold components. rewrite marks_plain by exact Hp.
  rewrite <- (app_nil_r (topm name)).
  rewrite components_inert by (apply inert_topm, plain_not_sep_comp, Hp).
  cbn [components_m option_map obind prepend_head]. rewrite fst_topm, app_nil_r.
  f_equal. apply (drop_last_empty_keep [] name Hne). Qed.

Ltac norm_app := repeat (simpl; rewrite <- app_assoc); simpl.

Section Bases.
Variable cfg : names.

Lemma import_base_tens k name bks up lo :
  wf_tname name = true -> forallb wf_idx up = true -> forallb wf_idx lo = true ->
  import_base cfg false (print_base (BTens k name bks up lo)) =
  Some (BTens (kind_of_name cfg name) name 0 up lo).
Proof. intros Hn Hu Hl. apply wf_tname_spec in Hn. destruct Hn as [Hne [Hp Ha]].
  assert (E : print_base (BTens k name bks up lo) =
              grp (name ++ "^" :: grp (print_idxs up) ++ "_" :: grp (print_idxs lo))).
  { unfold print_base, grp. norm_app. reflexivity. }
  rewrite E. unfold import_base. rewrite strip_layer_grp. cbn [obind].
  rewrite components_tensor; [|assumption|assumption|now apply wn_print_idxs|now apply wn_print_idxs].
  cbn [obind omap]. rewrite !strip_layer_grp. cbn [obind].
  unfold dispatch. rewrite Ha. rewrite !import_indices_print by assumption. reflexivity. Qed.

Lemma import_base_nonsym name ix :
  wf_tname name = true -> forallb wf_idx ix = true ->
  import_base cfg false (print_base (BNonSym name ix)) = Some (BNonSym name ix).
Proof. intros Hn Hi. apply wf_tname_spec in Hn. destruct Hn as [Hne [Hp Ha]].
  assert (E : print_base (BNonSym name ix) = grp (name ++ "_" :: grp (print_idxs ix))).
  { unfold print_base, grp. norm_app. reflexivity. }
  rewrite E. unfold import_base. rewrite strip_layer_grp. cbn [obind].
  rewrite components_nonsym; [|assumption|assumption|now apply wn_print_idxs].
  cbn [obind omap]. rewrite !strip_layer_grp. cbn [obind].
  unfold dispatch. rewrite Ha. rewrite !import_indices_print by assumption. reflexivity. Qed.

Lemma wf_sname_spec n : wf_sname n = true -> n <> [] /\ all_plain n.
Proof. unfold wf_sname. rewrite andb_true_iff. intros [H1 H2].
  split; [destruct n; discriminate|now apply letters_plain]. Qed.
Lemma import_base_symb name : wf_sname name = true ->
  import_base cfg false (print_base (BSymb name)) = Some (BSymb name).
Proof. intros Hn. apply wf_sname_spec in Hn. destruct Hn as [Hne Hp].
  unfold import_base, print_base. rewrite strip_layer_plain by assumption. cbn [obind].
  rewrite components_plain by assumption. reflexivity. Qed.
End Bases.

Lemma print_idxs_single i : print_idxs [i] = print_idx i.
Proof. rewrite print_idxs_cons, print_idxs_nil. apply app_nil_r. Qed.
Lemma import_indices_one i : wf_idx i = true -> import_indices (print_idx i) = Some [i].
Proof. intros H. rewrite <- print_idxs_single. apply import_indices_print. simpl. now rewrite H. Qed.

Lemma components_fd P : wn false P ->
  components (L "a^\dagger_" ++ grp P) = Some [L "a"; L "\dagger"; grp P].
Proof. intros HP. unfold components.
  change (L "a^\dagger_" ++ grp P) with (L "a" ++ "^" :: L "\dagger" ++ "_" :: grp P).
  rewrite marks_top by (apply wn_flat; reflexivity). rewrite marks_flat by reflexivity.
  rewrite components_inert by (apply inert_topm; reflexivity).
  rewrite marks_cons_plain by reflexivity. rewrite components_sep by reflexivity.
  rewrite marks_top by (apply wn_flat; reflexivity). rewrite marks_flat by reflexivity.
  rewrite components_inert by (apply inert_topm; reflexivity).
  rewrite marks_cons_plain by reflexivity. rewrite components_sep by reflexivity.
  rewrite <- (app_nil_r (grp P)). rewrite marks_grp by exact HP.
  rewrite components_inert by apply inert_inm.
  cbn [marks components_m option_map obind prepend_head]. rewrite !fst_inm, !fst_topm, !app_nil_r.
  reflexivity. Qed.

Lemma import_base_fd cfg i : wf_idx i = true ->
  import_base cfg false (print_base (BOp true i)) = Some (BOp true i).
Proof. intros Hi.
  assert (E : print_base (BOp true i) = grp (L "a^\dagger_" ++ grp (print_idx i))).
  { unfold print_base, grp. norm_app. reflexivity. }
  rewrite E. unfold import_base. rewrite strip_layer_grp. cbn [obind].
  rewrite components_fd by now apply wn_print_idx.
  cbn [obind omap]. rewrite strip_layer_grp.
  change (strip_layer (L "\dagger")) with (Some (L "\dagger")). cbn [obind].
  unfold dispatch. change (str_eqb (L "a") (L "a")) with true.
  change (str_eqb (L "\dagger") (L "\dagger")) with true. cbv iota beta.
  rewrite import_indices_one by exact Hi. reflexivity. Qed.

Lemma components_f P : wn false P -> components ("a" :: "_" :: "{" :: P) = Some [L "a"; "{" :: P].
Proof. intros HP. unfold components.
  rewrite marks_cons_plain by reflexivity. rewrite marks_cons_plain by reflexivity.
  rewrite marks_open_tail by exact HP. rewrite <- (app_nil_r (inm ("{" :: P))).
  change (("a", MTop) :: ("_", MTop) :: inm ("{" :: P) ++ []) with (topm (L "a") ++ ("_", MTop) :: inm ("{" :: P) ++ []).
  rewrite components_inert by (apply inert_topm; reflexivity).
  rewrite components_sep by reflexivity.
  rewrite components_inert by apply inert_inm.
  cbn [components_m option_map obind prepend_head]. rewrite fst_inm, fst_topm, !app_nil_r.
  reflexivity. Qed.

Lemma import_base_f cfg i : wf_idx i = true ->
  import_base cfg false (print_base (BOp false i)) = Some (BOp false i).
Proof. intros Hi.
  assert (E : print_base (BOp false i) = ("a" :: "_" :: "{" :: print_idx i) ++ ["}"]).
  { unfold print_base. norm_app. reflexivity. }
  rewrite E. unfold import_base.
  assert (S1 : strip_layer (("a" :: "_" :: "{" :: print_idx i) ++ ["}"]) = Some ("a" :: "_" :: "{" :: print_idx i)).
  { unfold strip_layer. change ((("a" :: "_" :: "{" :: print_idx i) ++ ["}"])) with ("a" :: ("_" :: "{" :: print_idx i) ++ ["}"]).
    cbv iota beta. change (ceqb "a" "{") with false. cbv iota.
    change ("a" :: ("_" :: "{" :: print_idx i) ++ ["}"]) with (("a" :: "_" :: "{" :: print_idx i) ++ ["}"]).
    rewrite last_char_snoc, ceqb_refl. now rewrite removelast_snoc. }
  rewrite S1. cbn [obind]. rewrite components_f by now apply wn_print_idx.
  cbn [obind omap].
  assert (Hdec : lspin i = NoSpin \/ lspin i <> NoSpin) by (destruct (lspin i); [left; reflexivity|right; discriminate|right; discriminate]).
  destruct Hdec as [Es|Es].
  - (* no spin: the name ends with a name character *)
    assert (Hp : all_plain (print_idx i)) by (rewrite print_idx_nospin by exact Es; now apply name_of_plain).
    assert (Hne : print_idx i <> []) by (unfold print_idx; discriminate).
    assert (S2 : strip_layer ("{" :: print_idx i) = Some (print_idx i)).
    { unfold strip_layer. rewrite ceqb_refl.
      destruct (exists_last Hne) as [r' [x Ex]]. rewrite Ex. rewrite last_char_snoc.
      assert (Hx : plain x = true).
      { rewrite Ex in Hp. apply all_plain_app in Hp. destruct Hp as [_ Hp]. apply all_plain_cons in Hp. tauto. }
      apply plain_spec in Hx. destruct Hx as [_ [Hx _]]. now rewrite Hx. }
    rewrite S2. cbn [obind]. unfold dispatch. change (str_eqb (L "a") (L "a")) with true. cbv iota beta.
    rewrite import_indices_one by exact Hi. reflexivity.
  - assert (Ep : print_idx i = (name_of i ++ spin_sep ++ spin_word (lspin i)) ++ ["}"]).
    { unfold print_idx. rewrite (print_spin_word _ Es). unfold name_of. norm_app. reflexivity. }
    assert (S2 : strip_layer ("{" :: print_idx i) = Some (name_of i ++ spin_sep ++ spin_word (lspin i))).
    { unfold strip_layer. rewrite ceqb_refl. rewrite Ep. rewrite last_char_snoc, ceqb_refl.
      now rewrite removelast_snoc. }
    rewrite S2. cbn [obind]. unfold dispatch. change (str_eqb (L "a") (L "a")) with true. cbv iota beta.
    assert (Im : import_indices (name_of i ++ spin_sep ++ spin_word (lspin i)) = Some [i]).
    { unfold import_indices. rewrite split_char_no.
      - cbn [omap]. pose proof (import_sub_spin [] i (Forall_nil _) (Forall_nil _) Hi Es) as H.
        rewrite print_idxs_nil, !app_nil_l in H. rewrite H. reflexivity.
      - intros Hin. apply in_app_or in Hin. destruct Hin as [Hin|Hin].
        + revert Hin. apply all_plain_notin; [now apply name_of_plain|reflexivity].
        + destruct (lspin i); simpl in Hin;
          repeat (destruct Hin as [Hin|Hin]; [discriminate|]); contradiction. }
    rewrite Im. reflexivity. Qed.

(* every base with any exponent *)
Lemma base_hat_inert b : wf_base b = true ->
  wn false (print_base b) /\ inert is_hat (marks false [] (print_base b)).
Proof. destruct b as [k n bks u l|n ix|n|[|] i]; simpl wf_base; intros H.
  - apply andb_true_iff in H. destruct H as [H Hl]. apply andb_true_iff in H. destruct H as [Hn Hu].
    apply wf_tname_spec in Hn. destruct Hn as [Hne [Hp Ha]].
    assert (E : print_base (BTens k n bks u l) =
                grp (n ++ "^" :: grp (print_idxs u) ++ "_" :: grp (print_idxs l))).
    { unfold print_base, grp. norm_app. reflexivity. }
    rewrite E.
    assert (W : wn false (n ++ "^" :: grp (print_idxs u) ++ "_" :: grp (print_idxs l))).
    { apply wn_app; [now apply wn_plain|]. apply wn_char; [reflexivity|].
      apply wn_app; [apply wn_grp; now apply wn_print_idxs|].
      apply wn_char; [reflexivity|]. apply wn_grp. now apply wn_print_idxs. }
    split; [now apply wn_grp|]. rewrite <- (app_nil_r (grp _)). rewrite marks_grp by exact W.
    rewrite app_nil_r. apply inert_inm.
  - apply andb_true_iff in H. destruct H as [Hn Hi].
    apply wf_tname_spec in Hn. destruct Hn as [Hne [Hp Ha]].
    assert (E : print_base (BNonSym n ix) = grp (n ++ "_" :: grp (print_idxs ix))).
    { unfold print_base, grp. norm_app. reflexivity. }
    rewrite E.
    assert (W : wn false (n ++ "_" :: grp (print_idxs ix))).
    { apply wn_app; [now apply wn_plain|]. apply wn_char; [reflexivity|].
      apply wn_grp. now apply wn_print_idxs. }
    split; [now apply wn_grp|]. rewrite <- (app_nil_r (grp _)). rewrite marks_grp by exact W.
    rewrite app_nil_r. apply inert_inm.
  - apply wf_sname_spec in H. destruct H as [Hne Hp]. unfold print_base.
    split; [now apply wn_plain|]. rewrite marks_plain by exact Hp. apply inert_topm, plain_not_hat, Hp.
  - assert (E : print_base (BOp true i) = grp (L "a^\dagger_" ++ grp (print_idx i))).
    { unfold print_base, grp. norm_app. reflexivity. }
    rewrite E.
    assert (W : wn false (L "a^\dagger_" ++ grp (print_idx i))).
    { apply wn_app; [apply wn_flat; reflexivity|]. apply wn_grp. now apply wn_print_idx. }
    split; [now apply wn_grp|]. rewrite <- (app_nil_r (grp _)). rewrite marks_grp by exact W.
    rewrite app_nil_r. apply inert_inm.
  - assert (E : print_base (BOp false i) = L "a_" ++ grp (print_idx i)).
    { unfold print_base, grp. norm_app. reflexivity. }
    rewrite E. split.
    + apply wn_app; [apply wn_flat; reflexivity|]. apply wn_grp. now apply wn_print_idx.
    + rewrite marks_top by (apply wn_flat; reflexivity). rewrite marks_flat by reflexivity.
      apply inert_app; [apply inert_topm; reflexivity|].
      rewrite <- (app_nil_r (grp _)). rewrite marks_grp by now apply wn_print_idx.
      rewrite app_nil_r. apply inert_inm. Qed.

Lemma import_base_print cfg b : wf_base b = true ->
  import_base cfg false (print_base b) = Some (forget_base cfg b).
Proof. destruct b as [k n bks u l|n ix|n|[|] i]; simpl wf_base; intros H.
  - apply andb_true_iff in H. destruct H as [H Hl]. apply andb_true_iff in H. destruct H as [Hn Hu].
    now apply import_base_tens.
  - apply andb_true_iff in H. destruct H as [Hn Hi]. now apply import_base_nonsym.
  - now apply import_base_symb.
  - now apply import_base_fd.
  - now apply import_base_f. Qed.

(* tensor / symbol / operator with exponent *)
Theorem import_tensor_print cfg b e : wf_base b = true ->
  import_tensor cfg false (print_pow (print_base b) e) = Some (OPow (forget_base cfg b) e).
Proof. intros H. destruct (base_hat_inert b H) as [Hw Hi].
  rewrite import_tensor_pow by assumption. rewrite import_base_print by exact H. reflexivity. Qed.

(* ------------------------------------------------------------------ *)
(* objects                                                              *)
Lemma rsplit1_last sep c a x : rev sep = c :: tl (rev sep) -> ~ In c x ->
  rsplit1 sep (a ++ sep ++ x) = Some (a, x).
Proof. intros Hs Hn. unfold rsplit1. rewrite !rev_app_distr, <- app_assoc.
  rewrite (find_sub_fresh (rev sep) c (rev x) (rev a) Hs).
  - now rewrite !rev_involutive.
  - intros H. apply Hn. now apply in_rev. Qed.
Lemma remove_first_here sep b : remove_first sep (sep ++ b) = b.
Proof. unfold remove_first. now rewrite find_sub_here. Qed.

Lemma remove_ws_no s : forallb (fun c => negb (is_ws c)) s = true -> remove_ws s = s.
Proof. unfold remove_ws. induction s as [|c s IH]; simpl; [reflexivity|].
  rewrite andb_true_iff. intros [H1 H2]. rewrite H1. now rewrite IH. Qed.
Lemma remove_ws_app a b : remove_ws (a ++ b) = remove_ws a ++ remove_ws b.
Proof. apply filter_app. Qed.
Lemma all_plain_no_ws s : all_plain s -> forallb (fun c => negb (is_ws c)) s = true.
Proof. apply forallb_imp. intros c H. apply plain_spec in H.
  destruct H as [_ [_ [_ [_ [_ [_ [_ [_ [_ [_ H]]]]]]]]]]. now rewrite H. Qed.
Lemma print_idx_no_ws i : wf_idx i = true -> forallb (fun c => negb (is_ws c)) (print_idx i) = true.
Proof. intros H. unfold print_idx.
  change (lletter i :: ldigits i ++ print_spin (lspin i)) with (name_of i ++ print_spin (lspin i)).
  rewrite forallb_app. rewrite (all_plain_no_ws _ (name_of_plain i H)). now destruct (lspin i). Qed.

Section Objects.
Variable cfg : names.
Variable rec : str -> option expr.

Lemma import_obj_int n : import_obj cfg false rec (print_obj (OInt n)) = Some (OInt n).
Proof. unfold import_obj. change (print_obj (OInt n)) with (print_N n).
  rewrite isnumeric_print_N, parse_print_N. reflexivity. Qed.

Lemma import_obj_sqrt z : import_obj cfg false rec (print_obj (OSqrt z)) = Some (OSqrt z).
Proof. unfold import_obj. change (print_obj (OSqrt z)) with (L "\sqrt{" ++ print_Z z ++ L "}").
  change (isnumeric (L "\sqrt{" ++ print_Z z ++ L "}")) with false. cbv iota.
  rewrite prefixb_app. rewrite app_assoc. change (L "}") with ["}"]. rewrite removelast_snoc.
  rewrite remove_first_here, py_int_print_Z. reflexivity. Qed.

Lemma import_obj_delta i j : wf_idx i = true -> wf_idx j = true ->
  import_obj cfg false rec (print_obj (ODelta i j)) = Some (ODelta i j).
Proof. intros Hi Hj. unfold import_obj.
  change (print_obj (ODelta i j)) with (L "\delta_{" ++ print_idx i ++ " " :: print_idx j ++ L "}").
  change (isnumeric (L "\delta_{" ++ print_idx i ++ " " :: print_idx j ++ L "}")) with false. cbv iota.
  change (prefixb (L "\sqrt{") (L "\delta_{" ++ print_idx i ++ " " :: print_idx j ++ L "}")) with false. cbv iota.
  change (prefixb (L "\delta_") (L "\delta_{" ++ print_idx i ++ " " :: print_idx j ++ L "}")) with true. cbv iota.
  replace (L "\delta_{" ++ print_idx i ++ " " :: print_idx j ++ L "}")
    with ((L "\delta_{" ++ print_idx i ++ " " :: print_idx j) ++ ["}"]) by (norm_app; reflexivity).
  rewrite removelast_snoc, remove_first_here.
  rewrite remove_ws_app. rewrite (remove_ws_no _ (print_idx_no_ws i Hi)).
  change (remove_ws (" " :: print_idx j)) with (remove_ws (print_idx j)).
  rewrite (remove_ws_no _ (print_idx_no_ws j Hj)).
  assert (E : print_idx i ++ print_idx j = print_idxs [i; j]).
  { rewrite !print_idxs_cons, print_idxs_nil, app_nil_r. reflexivity. }
  rewrite E. rewrite import_indices_print by (simpl; now rewrite Hi, Hj). reflexivity. Qed.

(* first character of a printed base *)
Definition base_first (c : ascii) : bool := ceqb c "{" || is_letter c.
Lemma print_base_first b : wf_base b = true ->
  exists c r, print_base b = c :: r /\ base_first c = true.
Proof. destruct b as [k n bks u l|n ix|n|[|] i]; simpl wf_base; intros H.
  - eexists _, _. split; [reflexivity|reflexivity].
  - eexists _, _. split; [reflexivity|reflexivity].
  - unfold wf_sname in H. apply andb_true_iff in H. destruct H as [H1 H2].
    destruct n as [|c r]; [discriminate|]. exists c, r. split; [reflexivity|].
    simpl in H2. apply andb_true_iff in H2. unfold base_first. now rewrite (proj1 H2), orb_true_r.
  - eexists _, _. split; [reflexivity|reflexivity].
  - eexists _, _. split; [reflexivity|reflexivity]. Qed.
Lemma base_first_tests c r : base_first c = true ->
  isnumeric (c :: r) = false /\ prefixb (L "\sqrt{") (c :: r) = false /\
  prefixb (L "\delta_") (c :: r) = false /\ prefixb (L "\left(") (c :: r) = false /\
  prefixb (L "\left\{") (c :: r) = false.
Proof. destruct c as [[] [] [] [] [] [] [] []]; intros H; vm_compute in H; try discriminate H;
  repeat split; reflexivity. Qed.
Lemma print_pow_cons c r e : exists r', print_pow (c :: r) e = c :: r'.
Proof. unfold print_pow. destruct (e =? 1)%Z; eexists; reflexivity. Qed.

Lemma import_obj_pow b e : wf_base b = true ->
  import_obj cfg false rec (print_obj (OPow b e)) = Some (OPow (forget_base cfg b) e).
Proof. intros H. change (print_obj (OPow b e)) with (print_pow (print_base b) e).
  destruct (print_base_first b H) as [c [r [E Hc]]].
  destruct (print_pow_cons c r e) as [r' E'].
  destruct (base_first_tests c r' Hc) as [T1 [T2 [T3 [T4 T5]]]].
  unfold import_obj. rewrite E, E', T1, T2, T3, T4, T5. rewrite <- E', <- E.
  now apply import_tensor_print. Qed.

Lemma zchar_not_paren s : forallb (fun c => is_digit c || ceqb c "-") s = true -> ~ In ")" s.
Proof. rewrite forallb_forall. intros H Hi. apply H in Hi. discriminate. Qed.

Lemma import_obj_brack ts e T : T = print_terms ts ->
  rec T = Some (map (forget_term cfg) ts) ->
  import_obj cfg false rec (print_obj (OBrack ts e)) = Some (OBrack (map (forget_term cfg) ts) e).
Proof. intros ET Hrec. unfold import_obj.
  change (print_obj (OBrack ts e)) with (print_pow (L "\left(" ++ print_terms ts ++ L "\right)") e).
  rewrite <- ET.
  set (X := if (e =? 1)%Z then [] else L "^{" ++ print_Z e ++ L "}").
  assert (EP : print_pow (L "\left(" ++ T ++ L "\right)") e = (L "\left(" ++ T) ++ L "\right)" ++ X).
  { unfold print_pow, X. destruct (e =? 1)%Z; norm_app; reflexivity. }
  rewrite EP.
  change (isnumeric ((L "\left(" ++ T) ++ L "\right)" ++ X)) with false. cbv iota.
  change (prefixb (L "\sqrt{") ((L "\left(" ++ T) ++ L "\right)" ++ X)) with false. cbv iota.
  change (prefixb (L "\delta_") ((L "\left(" ++ T) ++ L "\right)" ++ X)) with false. cbv iota.
  change (prefixb (L "\left(") ((L "\left(" ++ T) ++ L "\right)" ++ X)) with true. cbv iota.
  rewrite (rsplit1_last (L "\right)") ")").
  - cbn [obind]. rewrite remove_first_here, Hrec.
    unfold X. destruct (e =? 1)%Z eqn:Ee.
    + apply Z.eqb_eq in Ee. subst e. reflexivity.
    + assert (EX : L "^{" ++ print_Z e ++ L "}" = ("^" :: "{" :: print_Z e) ++ ["}"]) by (norm_app; reflexivity).
      rewrite EX.
      destruct (("^" :: "{" :: print_Z e) ++ ["}"]) eqn:Ed; [destruct (print_Z e); discriminate|].
      rewrite <- Ed. rewrite removelast_snoc.
      change (lstrip_by (fun c => ceqb c "^" || ceqb c "{") ("^" :: "{" :: print_Z e))
        with (lstrip_by (fun c => ceqb c "^" || ceqb c "{") (print_Z e)).
      rewrite lstrip_by_id.
      * rewrite py_int_print_Z. reflexivity.
      * pose proof (print_Z_nonempty e) as Hne. pose proof (print_Z_plainish e) as Hp.
        destruct (print_Z e) as [|c r]; [congruence|]. simpl in Hp. apply andb_true_iff in Hp.
        destruct Hp as [Hc _]. revert Hc. clear. all_chars c.
  - reflexivity.
  - unfold X. destruct (e =? 1)%Z; [simpl; tauto|].
    intros Hin. simpl in Hin. destruct Hin as [Hin|[Hin|Hin]]; try discriminate.
    apply in_app_or in Hin. destruct Hin as [Hin|Hin].
    + revert Hin. apply zchar_not_paren, print_Z_plainish.
    + simpl in Hin. destruct Hin as [Hin|Hin]; [discriminate|contradiction]. Qed.

Lemma import_obj_no ts T : T = print_terms ts ->
  rec T = Some (map (forget_term cfg) ts) ->
  import_obj cfg false rec (print_obj (ONO ts)) = Some (ONO (map (forget_term cfg) ts)).
Proof. intros ET Hrec. unfold import_obj.
  change (print_obj (ONO ts)) with (L "\left\{" ++ print_terms ts ++ L "\right\}").
  rewrite <- ET.
  assert (EP : L "\left\{" ++ T ++ L "\right\}" = (L "\left\{" ++ T) ++ L "\right\}" ++ []).
  { norm_app. reflexivity. }
  rewrite EP.
  change (isnumeric ((L "\left\{" ++ T) ++ L "\right\}" ++ [])) with false. cbv iota.
  change (prefixb (L "\sqrt{") ((L "\left\{" ++ T) ++ L "\right\}" ++ [])) with false. cbv iota.
  change (prefixb (L "\delta_") ((L "\left\{" ++ T) ++ L "\right\}" ++ [])) with false. cbv iota.
  change (prefixb (L "\left(") ((L "\left\{" ++ T) ++ L "\right\}" ++ [])) with false. cbv iota.
  change (prefixb (L "\left\{") ((L "\left\{" ++ T) ++ L "\right\}" ++ [])) with true. cbv iota.
  rewrite (rsplit1_last (L "\right\}") "}"); [|reflexivity|simpl; tauto].
  cbn [obind]. rewrite remove_first_here, Hrec. reflexivity. Qed.
End Objects.

(* ------------------------------------------------------------------ *)
(* induction over the nested structure                                  *)
Section ExprInd.
Variables (Po : obj -> Prop) (Pt : term -> Prop) (Pb : body -> Prop).
Hypothesis Hint : forall n, Po (OInt n).
Hypothesis Hsqrt : forall n, Po (OSqrt n).
Hypothesis Hdelta : forall i j, Po (ODelta i j).
Hypothesis Hpow : forall b e, Po (OPow b e).
Hypothesis Hbrack : forall ts e, Forall Pt ts -> Po (OBrack ts e).
Hypothesis Hno : forall ts, Forall Pt ts -> Po (ONO ts).
Hypothesis Hterm : forall neg num den, Pb num -> (forall d, den = Some d -> Pb d) -> Pt (Term neg num den).
Hypothesis Hobjs : forall os, Forall Po os -> Pb (BObjs os).
Hypothesis Hsum : forall ts, Forall Pt ts -> Pb (BSum ts).

Fixpoint obj_ind2 (o : obj) : Po o :=
  match o with
  | OInt n => Hint n
  | OSqrt n => Hsqrt n
  | ODelta i j => Hdelta i j
  | OPow b e => Hpow b e
  | OBrack ts e => Hbrack ts e
      ((fix F (l : list term) : Forall Pt l :=
          match l with [] => Forall_nil _ | t :: l' => Forall_cons _ (term_ind2 t) (F l') end) ts)
  | ONO ts => Hno ts
      ((fix F (l : list term) : Forall Pt l :=
          match l with [] => Forall_nil _ | t :: l' => Forall_cons _ (term_ind2 t) (F l') end) ts)
  end
with term_ind2 (t : term) : Pt t :=
  match t with
  | Term neg num den =>
    Hterm neg num den (body_ind2 num)
      (match den as d0 return (forall d, d0 = Some d -> Pb d) with
       | Some d' => fun d E => match E in (_ = y) return (match y with Some z => Pb z | None => True end)
                               with eq_refl => body_ind2 d' end
       | None => fun d E => match E in (_ = y) return (match y with Some z => Pb z | None => True end)
                            with eq_refl => I end
       end)
  end
with body_ind2 (b : body) : Pb b :=
  match b with
  | BObjs os => Hobjs os
      ((fix F (l : list obj) : Forall Po l :=
          match l with [] => Forall_nil _ | o :: l' => Forall_cons _ (obj_ind2 o) (F l') end) os)
  | BSum ts => Hsum ts
      ((fix F (l : list term) : Forall Pt l :=
          match l with [] => Forall_nil _ | t :: l' => Forall_cons _ (term_ind2 t) (F l') end) ts)
  end.
Lemma expr_ind2 : (forall o, Po o) /\ (forall t, Pt t) /\ (forall b, Pb b).
Proof. exact (conj obj_ind2 (conj term_ind2 body_ind2)). Qed.
End ExprInd.

(* ------------------------------------------------------------------ *)
(* every printed form is well nested                                    *)
Definition pow_suffix (e : Z) : str := if (e =? 1)%Z then [] else "^" :: grp (print_Z e).
Lemma print_pow_split s e : print_pow s e = s ++ pow_suffix e.
Proof. unfold print_pow, pow_suffix. destruct (e =? 1)%Z; [now rewrite app_nil_r|].
  f_equal. Qed.
Lemma wn_pow_suffix p e : wn p (pow_suffix e).
Proof. unfold pow_suffix. destruct (e =? 1)%Z; [constructor|].
  apply wn_char; [now destruct p|]. apply wn_grp, wn_print_Z. Qed.

Lemma print_terms_cons t r :
  print_terms (t :: r) = sign_first (neg_of t) ++ print_abs t ++ print_tail print_abs r.
Proof. reflexivity. Qed.
Lemma print_tail_cons t r :
  print_tail print_abs (t :: r) = sign_next (neg_of t) ++ print_abs t ++ print_tail print_abs r.
Proof. reflexivity. Qed.
Lemma wn_sign_first p b : wn p (sign_first b).
Proof. destruct b; [apply wn_flat; now destruct p|constructor]. Qed.
Lemma wn_sign_next p b : wn p (sign_next b).
Proof. destruct b; apply wn_flat; now destruct p. Qed.
Lemma wn_print_tail l : Forall (fun t => wn true (print_abs t)) l -> wn true (print_tail print_abs l).
Proof. induction 1 as [|t l Ht Hl IH]; [constructor|]. rewrite print_tail_cons.
  apply wn_app; [apply wn_sign_next|]. apply wn_app; assumption. Qed.
Lemma wn_print_terms l : Forall (fun t => wn true (print_abs t)) l -> wn true (print_terms l).
Proof. destruct 1 as [|t l Ht Hl]; [constructor|]. rewrite print_terms_cons.
  apply wn_app; [apply wn_sign_first|]. apply wn_app; [assumption|now apply wn_print_tail]. Qed.
Lemma wn_join_sp l : Forall (wn true) l -> wn true (join_sp l).
Proof. induction 1 as [|x l Hx Hl IH]; [constructor|]. destruct l as [|y l]; [exact Hx|].
  change (join_sp (x :: y :: l)) with (x ++ " " :: join_sp (y :: l)).
  apply wn_app; [exact Hx|]. apply wn_char; [reflexivity|exact IH]. Qed.

Lemma wn_print_base b : wf_base b = true -> wn true (print_base b).
Proof. destruct b as [k n bks u l|n ix|n|[|] i]; simpl wf_base; intros H.
  - apply andb_true_iff in H. destruct H as [H Hl]. apply andb_true_iff in H. destruct H as [Hn Hu].
    apply wf_tname_spec in Hn. destruct Hn as [Hne [Hp Ha]].
    assert (E : print_base (BTens k n bks u l) =
                grp (n ++ "^" :: grp (print_idxs u) ++ "_" :: grp (print_idxs l))).
    { unfold print_base, grp. norm_app. reflexivity. }
    rewrite E. apply wn_grp. apply wn_app; [now apply wn_plain|]. apply wn_char; [reflexivity|].
    apply wn_app; [apply wn_grp; now apply wn_print_idxs|].
    apply wn_char; [reflexivity|]. apply wn_grp. now apply wn_print_idxs.
  - apply andb_true_iff in H. destruct H as [Hn Hi].
    apply wf_tname_spec in Hn. destruct Hn as [Hne [Hp Ha]].
    assert (E : print_base (BNonSym n ix) = grp (n ++ "_" :: grp (print_idxs ix))).
    { unfold print_base, grp. norm_app. reflexivity. }
    rewrite E. apply wn_grp. apply wn_app; [now apply wn_plain|]. apply wn_char; [reflexivity|].
    apply wn_grp. now apply wn_print_idxs.
  - apply wf_sname_spec in H. now apply wn_plain.
  - assert (E : print_base (BOp true i) = grp (L "a^\dagger_" ++ grp (print_idx i))).
    { unfold print_base, grp. norm_app. reflexivity. }
    rewrite E. apply wn_grp. apply wn_app; [apply wn_flat; reflexivity|]. apply wn_grp. now apply wn_print_idx.
  - assert (E : print_base (BOp false i) = L "a_" ++ grp (print_idx i)).
    { unfold print_base, grp. norm_app. reflexivity. }
    rewrite E. apply wn_app; [apply wn_flat; reflexivity|]. apply wn_grp. now apply wn_print_idx. Qed.

Lemma brack_shape T e : print_pow (L "\left(" ++ T ++ L "\right)") e =
  L "\left" ++ ("(" :: (T ++ L "\right") ++ ")" :: pow_suffix e).
Proof. rewrite print_pow_split. norm_app. reflexivity. Qed.
Lemma no_shape T : L "\left\{" ++ T ++ L "\right\}" = L "\left\" ++ grp (T ++ L "\right\").
Proof. unfold grp. norm_app. reflexivity. Qed.
Lemma frac_shape N D : L "\frac{" ++ N ++ L "}{" ++ D ++ L "}" = L "\frac" ++ grp N ++ grp D.
Proof. unfold grp. norm_app. reflexivity. Qed.

Lemma Forall_forallb_imp {A} (P : A -> Prop) (p : A -> bool) l :
  Forall (fun x => p x = true -> P x) l -> forallb p l = true -> Forall P l.
Proof. induction 1 as [|x l Hx Hl IH]; simpl; [constructor|]. rewrite andb_true_iff.
  intros [H1 H2]. constructor; auto. Qed.

Lemma wf_term_frac neg num d : wf_term (Term neg num (Some d)) = true ->
  wf_fbody num = true /\ wf_fbody d = true /\ nofrac_body num = true /\ nofrac_body d = true.
Proof. destruct num; simpl; rewrite !andb_true_iff; tauto. Qed.
Lemma wf_term_plain neg num : wf_term (Term neg num None) = true ->
  exists os, num = BObjs os /\ nonempty os = true /\ forallb wf_obj os = true.
Proof. destruct num as [os|ts]; simpl; [|discriminate]. rewrite andb_true_iff. intros [H1 H2].
  exists os. auto. Qed.

Lemma wn_all :
  (forall o, wf_obj o = true -> wn true (print_obj o)) /\
  (forall t, wf_term t = true -> wn true (print_abs t)) /\
  (forall b, wf_fbody b = true -> wn true (print_body b)).
Proof. apply expr_ind2.
  - intros n _. apply wn_flat. eapply forallb_imp; [|apply print_N_digits].
    intros c H. apply digit_name_char, name_char_plain in H. now rewrite plain_not_bracket.
  - intros n _. change (print_obj (OSqrt n)) with (L "\sqrt{" ++ print_Z n ++ L "}").
    replace (L "\sqrt{" ++ print_Z n ++ L "}") with (L "\sqrt" ++ grp (print_Z n)) by (unfold grp; norm_app; reflexivity).
    apply wn_app; [apply wn_flat; reflexivity|apply wn_grp, wn_print_Z].
  - intros i j H. simpl in H. apply andb_true_iff in H. destruct H as [Hi Hj].
    change (print_obj (ODelta i j)) with (L "\delta_{" ++ print_idx i ++ " " :: print_idx j ++ L "}").
    replace (L "\delta_{" ++ print_idx i ++ " " :: print_idx j ++ L "}")
      with (L "\delta_" ++ grp (print_idx i ++ " " :: print_idx j)) by (unfold grp; norm_app; reflexivity).
    apply wn_app; [apply wn_flat; reflexivity|]. apply wn_grp.
    apply wn_app; [now apply wn_print_idx|]. apply wn_char; [reflexivity|now apply wn_print_idx].
  - intros b e H. change (print_obj (OPow b e)) with (print_pow (print_base b) e).
    rewrite print_pow_split. apply wn_app; [now apply wn_print_base|apply wn_pow_suffix].
  - intros ts e IH H. simpl in H.
    change (print_obj (OBrack ts e)) with (print_pow (L "\left(" ++ print_terms ts ++ L "\right)") e).
    rewrite brack_shape. apply wn_app; [apply wn_flat; reflexivity|].
    apply wn_paren; [reflexivity| |apply wn_pow_suffix].
    apply wn_app; [|apply wn_flat; reflexivity]. apply wn_print_terms.
    eapply Forall_forallb_imp; eauto.
  - intros ts IH H. simpl in H.
    change (print_obj (ONO ts)) with (L "\left\{" ++ print_terms ts ++ L "\right\}").
    rewrite no_shape. apply wn_app; [apply wn_flat; reflexivity|]. apply wn_grp.
    apply wn_app; [|apply wn_flat; reflexivity]. apply wn_print_terms.
    eapply Forall_forallb_imp; eauto.
  - intros neg num den IHn IHd H. destruct den as [d|].
    + apply wf_term_frac in H. destruct H as [H1 [H2 _]].
      change (print_abs (Term neg num (Some d))) with (L "\frac{" ++ print_body num ++ L "}{" ++ print_body d ++ L "}").
      rewrite frac_shape. apply wn_app; [apply wn_flat; reflexivity|].
      apply wn_app; apply wn_grp; [now apply IHn|now apply (IHd d)].
    + change (print_abs (Term neg num None)) with (print_body num). apply IHn.
      apply wf_term_plain in H. destruct H as [os [-> [H1 H2]]]. simpl. now rewrite H1, H2.
  - intros os IH H. simpl in H. apply andb_true_iff in H. destruct H as [_ H].
    change (print_body (BObjs os)) with (join_sp (map print_obj os)). apply wn_join_sp.
    apply Forall_map. eapply Forall_forallb_imp; eauto.
  - intros ts IH H. simpl in H. apply andb_true_iff in H. destruct H as [_ H].
    change (print_body (BSum ts)) with (print_terms ts). apply wn_print_terms.
    eapply Forall_forallb_imp; eauto. Qed.
Lemma wn_terms ts : forallb wf_term ts = true -> wn true (print_terms ts).
Proof. intros H. apply wn_print_terms. destruct wn_all as [_ [Ht _]].
  apply forallb_Forall in H. eapply Forall_impl; [|exact H]. intros t; apply Ht. Qed.

(* ------------------------------------------------------------------ *)
(* shape of printed objects: what the loops of import_term / split_terms see *)
Definition head_ok (s : str) : Prop :=
  exists c r, s = c :: r /\ is_ws c = false /\ is_pm c = false /\
              forall rest, prefixb (L "\frac") (s ++ rest) = false.
Definition last_ok (s : str) : Prop := exists r x, s = r ++ [x] /\ is_ws x = false.

Lemma last_ok_app a b : last_ok b -> last_ok (a ++ b).
Proof. intros [r [x [E H]]]. exists (a ++ r), x. split; [rewrite E; now rewrite app_assoc|exact H]. Qed.
Lemma last_ok_snoc a x : is_ws x = false -> last_ok (a ++ [x]).
Proof. intros H. exists a, x. auto. Qed.
Lemma last_ok_grp w : last_ok (grp w).
Proof. unfold grp. change ("{" :: w ++ ["}"]) with (("{" :: w) ++ ["}"]). now apply last_ok_snoc. Qed.

Lemma base_shape p sep b : (forall c, plain c = true -> sep c = false) -> sep "_" = false ->
  wf_base b = true -> wn p (print_base b) /\ inert sep (marks p [] (print_base b)).
Proof. intros Hsep Hus. destruct b as [k n bks u l|n ix|n|[|] i]; simpl wf_base; intros H.
  - apply andb_true_iff in H. destruct H as [H Hl]. apply andb_true_iff in H. destruct H as [Hn Hu].
    apply wf_tname_spec in Hn. destruct Hn as [Hne [Hp Ha]].
    assert (E : print_base (BTens k n bks u l) =
                grp (n ++ "^" :: grp (print_idxs u) ++ "_" :: grp (print_idxs l))).
    { unfold print_base, grp. norm_app. reflexivity. }
    rewrite E.
    assert (W : wn p (n ++ "^" :: grp (print_idxs u) ++ "_" :: grp (print_idxs l))).
    { apply wn_app; [now apply wn_plain|]. apply wn_char; [now destruct p|].
      apply wn_app; [apply wn_grp; now apply wn_print_idxs|].
      apply wn_char; [now destruct p|]. apply wn_grp. now apply wn_print_idxs. }
    split; [now apply wn_grp|]. rewrite <- (app_nil_r (grp _)). rewrite marks_grp by exact W.
    rewrite app_nil_r. apply inert_inm.
  - apply andb_true_iff in H. destruct H as [Hn Hi].
    apply wf_tname_spec in Hn. destruct Hn as [Hne [Hp Ha]].
    assert (E : print_base (BNonSym n ix) = grp (n ++ "_" :: grp (print_idxs ix))).
    { unfold print_base, grp. norm_app. reflexivity. }
    rewrite E.
    assert (W : wn p (n ++ "_" :: grp (print_idxs ix))).
    { apply wn_app; [now apply wn_plain|]. apply wn_char; [now destruct p|].
      apply wn_grp. now apply wn_print_idxs. }
    split; [now apply wn_grp|]. rewrite <- (app_nil_r (grp _)). rewrite marks_grp by exact W.
    rewrite app_nil_r. apply inert_inm.
  - apply wf_sname_spec in H. destruct H as [Hne Hp]. unfold print_base.
    split; [now apply wn_plain|]. rewrite marks_plain by exact Hp. apply inert_topm.
    revert Hp. apply forallb_imp. intros c Hc. now rewrite Hsep.
  - assert (E : print_base (BOp true i) = grp (L "a^\dagger_" ++ grp (print_idx i))).
    { unfold print_base, grp. norm_app. reflexivity. }
    rewrite E.
    assert (W : wn p (L "a^\dagger_" ++ grp (print_idx i))).
    { apply wn_app; [apply wn_flat; now destruct p|]. apply wn_grp. now apply wn_print_idx. }
    split; [now apply wn_grp|]. rewrite <- (app_nil_r (grp _)). rewrite marks_grp by exact W.
    rewrite app_nil_r. apply inert_inm.
  - assert (E : print_base (BOp false i) = L "a_" ++ grp (print_idx i)).
    { unfold print_base, grp. norm_app. reflexivity. }
    rewrite E. split.
    + apply wn_app; [apply wn_flat; now destruct p|]. apply wn_grp. now apply wn_print_idx.
    + rewrite marks_top by (apply wn_flat; now destruct p). rewrite marks_flat by now destruct p.
      apply inert_app.
      * apply inert_topm. simpl. rewrite Hus. rewrite (Hsep "a" eq_refl). reflexivity.
      * rewrite <- (app_nil_r (grp _)). rewrite marks_grp by now apply wn_print_idx.
        rewrite app_nil_r. apply inert_inm. Qed.

Lemma plain_not_sep_obj c : plain c = true -> sep_obj c = false.
Proof. intros H. apply plain_spec in H. unfold sep_obj, is_pm.
  destruct H as [_ [_ [_ [_ [_ [_ [A [B [C _]]]]]]]]]. now rewrite A, B, C. Qed.

Lemma inert_pow_suffix e : inert sep_obj (marks true [] (pow_suffix e)).
Proof. unfold pow_suffix. destruct (e =? 1)%Z; [constructor|].
  rewrite marks_cons_plain by reflexivity. constructor; [split; [discriminate|reflexivity]|].
  rewrite <- (app_nil_r (grp _)). rewrite marks_grp by apply wn_print_Z. rewrite app_nil_r. apply inert_inm. Qed.

Lemma print_base_last b : wf_base b = true -> last_ok (print_base b).
Proof. destruct b as [k n bks u l|n ix|n|[|] i]; simpl wf_base; intros H.
  - unfold print_base. change (L "}}") with (["}"] ++ ["}"]).
    repeat (rewrite app_comm_cons || rewrite app_assoc). now apply last_ok_snoc.
  - unfold print_base. change (L "}}") with (["}"] ++ ["}"]).
    repeat (rewrite app_comm_cons || rewrite app_assoc). now apply last_ok_snoc.
  - apply wf_sname_spec in H. destruct H as [Hne Hp]. unfold print_base.
    destruct (exists_last Hne) as [r [x E]]. exists r, x. split; [exact E|].
    rewrite E in Hp. apply all_plain_app in Hp. destruct Hp as [_ Hp]. apply all_plain_cons in Hp.
    destruct Hp as [Hx _]. apply plain_spec in Hx. tauto.
  - unfold print_base. change (L "}}") with (["}"] ++ ["}"]).
    repeat (rewrite app_comm_cons || rewrite app_assoc). now apply last_ok_snoc.
  - unfold print_base. change (L "}") with ["}"].
    repeat (rewrite app_comm_cons || rewrite app_assoc). now apply last_ok_snoc. Qed.
Lemma pow_suffix_last s e : last_ok s -> last_ok (s ++ pow_suffix e).
Proof. intros H. unfold pow_suffix. destruct (e =? 1)%Z; [now rewrite app_nil_r|].
  apply last_ok_app. change ("^" :: grp (print_Z e)) with (["^"] ++ grp (print_Z e)).
  apply last_ok_app, last_ok_grp. Qed.

Lemma head_ok_lit (lit : str) rest : 
  match lit with c :: _ => is_ws c = false /\ is_pm c = false | [] => False end ->
  (forall r, prefixb (L "\frac") (lit ++ r) = false) -> head_ok (lit ++ rest).
Proof. destruct lit as [|c lit]; [tauto|]. intros [H1 H2] H3. exists c, (lit ++ rest).
  split; [reflexivity|]. split; [exact H1|]. split; [exact H2|].
  intros r. rewrite <- app_assoc. apply H3. Qed.

Lemma prefix_frac_head c s : ceqb "\" c = false -> prefixb (L "\frac") (c :: s) = false.
Proof. intros H. change (prefixb (L "\frac") (c :: s)) with (ceqb "\" c && prefixb (L "frac") s).
  now rewrite H. Qed.

Lemma obj_shape o : wf_obj o = true ->
  inert sep_obj (marks true [] (print_obj o)) /\ head_ok (print_obj o) /\ last_ok (print_obj o).
Proof. destruct o as [n|n|i j|b e|ts e|ts]; intros H.
  - change (print_obj (OInt n)) with (print_N n).
    pose proof (print_N_digits n) as Hd. pose proof (print_N_nonempty n) as Hne.
    assert (Hp : all_plain (print_N n)) by now apply digits_plain.
    split; [|split].
    + rewrite marks_plain by exact Hp. apply inert_topm. revert Hp. apply forallb_imp.
      intros c Hc. now rewrite plain_not_sep_obj.
    + destruct (print_N n) as [|c r] eqn:E; [congruence|]. exists c, r.
      apply all_plain_cons in Hp. destruct Hp as [Hc _]. apply plain_spec in Hc.
      split; [reflexivity|]. split; [tauto|]. split; [unfold is_pm; destruct Hc as [_ [_ [_ [_ [_ [_ [_ [A [B _]]]]]]]]]; now rewrite A, B|].
      intros rest. destruct Hc as [_ [_ [_ [_ [_ [_ [_ [_ [_ [A _]]]]]]]]]].
      rewrite <- !app_comm_cons. apply prefix_frac_head. now rewrite ceqb_sym.
    + destruct (exists_last Hne) as [r [x E]]. exists r, x. split; [exact E|].
      rewrite E in Hd. rewrite forallb_app in Hd. apply andb_true_iff in Hd. destruct Hd as [_ Hd].
      simpl in Hd. rewrite andb_true_r in Hd. now apply digit_not_ws.
  - change (print_obj (OSqrt n)) with (L "\sqrt{" ++ print_Z n ++ L "}").
    replace (L "\sqrt{" ++ print_Z n ++ L "}") with (L "\sqrt" ++ grp (print_Z n)) by (unfold grp; norm_app; reflexivity).
    split; [|split].
    + rewrite marks_top by (apply wn_flat; reflexivity). rewrite marks_flat by reflexivity.
      apply inert_app; [apply inert_topm; reflexivity|].
      rewrite <- (app_nil_r (grp _)). rewrite marks_grp by apply wn_print_Z. rewrite app_nil_r. apply inert_inm.
    + apply head_ok_lit; [split; reflexivity|reflexivity].
    + apply last_ok_app, last_ok_grp.
  - simpl in H. apply andb_true_iff in H. destruct H as [Hi Hj].
    change (print_obj (ODelta i j)) with (L "\delta_{" ++ print_idx i ++ " " :: print_idx j ++ L "}").
    replace (L "\delta_{" ++ print_idx i ++ " " :: print_idx j ++ L "}")
      with (L "\delta_" ++ grp (print_idx i ++ " " :: print_idx j)) by (unfold grp; norm_app; reflexivity).
    assert (W : wn true (print_idx i ++ " " :: print_idx j)).
    { apply wn_app; [now apply wn_print_idx|]. apply wn_char; [reflexivity|now apply wn_print_idx]. }
    split; [|split].
    + rewrite marks_top by (apply wn_flat; reflexivity). rewrite marks_flat by reflexivity.
      apply inert_app; [apply inert_topm; reflexivity|].
      rewrite <- (app_nil_r (grp _)). rewrite marks_grp by exact W. rewrite app_nil_r. apply inert_inm.
    + apply head_ok_lit; [split; reflexivity|reflexivity].
    + apply last_ok_app, last_ok_grp.
  - simpl in H. change (print_obj (OPow b e)) with (print_pow (print_base b) e).
    rewrite print_pow_split.
    destruct (base_shape true sep_obj b plain_not_sep_obj eq_refl H) as [W I].
    split; [|split].
    + rewrite marks_top by exact W. apply inert_app; [exact I|apply inert_pow_suffix].
    + destruct (print_base_first b H) as [c [r [E Hc]]]. rewrite E.
      exists c, (r ++ pow_suffix e). split; [reflexivity|].
      assert (Hd : is_ws c = false /\ is_pm c = false /\ ceqb "\" c = false) by (revert Hc; clear; all_chars c).
      destruct Hd as [A [B C]]. split; [exact A|]. split; [exact B|].
      intros rest. rewrite <- !app_comm_cons. now apply prefix_frac_head.
    + apply pow_suffix_last. now apply print_base_last.
  - simpl in H. change (print_obj (OBrack ts e)) with (print_pow (L "\left(" ++ print_terms ts ++ L "\right)") e).
    rewrite brack_shape.
    assert (W : wn true (print_terms ts ++ L "\right")).
    { apply wn_app; [now apply wn_terms|apply wn_flat; reflexivity]. }
    split; [|split].
    + rewrite marks_top by (apply wn_flat; reflexivity). rewrite marks_flat by reflexivity.
      apply inert_app; [apply inert_topm; reflexivity|].
      rewrite marks_paren_group by exact W. apply inert_app; [apply inert_inm|apply inert_pow_suffix].
    + apply head_ok_lit; [split; reflexivity|reflexivity].
    + apply last_ok_app.
      replace ("(" :: (print_terms ts ++ L "\right") ++ ")" :: pow_suffix e)
        with (("(" :: (print_terms ts ++ L "\right") ++ [")"]) ++ pow_suffix e)
        by (norm_app; reflexivity).
      apply pow_suffix_last. change ("(" :: (print_terms ts ++ L "\right") ++ [")"]) with (("(" :: (print_terms ts ++ L "\right")) ++ [")"]).
      now apply last_ok_snoc.
  - simpl in H. change (print_obj (ONO ts)) with (L "\left\{" ++ print_terms ts ++ L "\right\}").
    rewrite no_shape.
    assert (W : wn true (print_terms ts ++ L "\right\")).
    { apply wn_app; [now apply wn_terms|apply wn_flat; reflexivity]. }
    split; [|split].
    + rewrite marks_top by (apply wn_flat; reflexivity). rewrite marks_flat by reflexivity.
      apply inert_app; [apply inert_topm; reflexivity|].
      rewrite <- (app_nil_r (grp _)). rewrite marks_grp by exact W. rewrite app_nil_r. apply inert_inm.
    + apply head_ok_lit; [split; reflexivity|reflexivity].
    + apply last_ok_app, last_ok_grp. Qed.

(* ------------------------------------------------------------------ *)
(* products of objects                                                  *)
Lemma inert_weaken (s1 s2 : ascii -> bool) m : (forall c, s2 c = true -> s1 c = true) ->
  inert s1 m -> inert s2 m.
Proof. intros H. unfold inert. apply Forall_impl. intros [c mk] [A B]. split; [exact A|].
  intros Ht. specialize (B Ht). simpl in *. destruct (s2 c) eqn:E; [|reflexivity].
  apply H in E. congruence. Qed.
Lemma head_ok_nonempty s : head_ok s -> s <> [].
Proof. intros [c [r [E _]]]. rewrite E. discriminate. Qed.
Lemma marks_nonempty p s : s <> [] -> nonempty (marks p [] s) = true.
Proof. intros H. pose proof (fst_marks p s) as F. destruct (marks p [] s); [simpl in F; congruence|reflexivity]. Qed.

Lemma join_sp_cons2 x y l : join_sp (x :: y :: l) = x ++ " " :: join_sp (y :: l).
Proof. reflexivity. Qed.
Lemma join_sp_map2 o o' os : join_sp (map print_obj (o :: o' :: os)) =
  print_obj o ++ " " :: join_sp (map print_obj (o' :: os)).
Proof. reflexivity. Qed.

Lemma term_objs_space m : term_objs_m true ((" ", MTop) :: m) =
  match term_objs_m false m with Some (Some ps) => Some (Some ([] :: ps)) | x => x end.
Proof. reflexivity. Qed.

Lemma term_objs_join os : os <> [] -> Forall (fun o => wf_obj o = true) os ->
  term_objs_m false (marks true [] (join_sp (map print_obj os))) = Some (Some (map print_obj os)).
Proof. induction os as [|o os IH]; [congruence|]. intros _ Hw.
  inversion Hw as [|? ? Ho Hos]; subst.
  destruct (obj_shape o Ho) as [Hi [Hh Hl]].
  destruct wn_all as [Wo _]. specialize (Wo o Ho).
  destruct os as [|o' os].
  - simpl map. simpl join_sp. rewrite <- (app_nil_r (marks true [] (print_obj o))).
    rewrite term_objs_inert by exact Hi. simpl. rewrite fst_marks, app_nil_r. reflexivity.
  - rewrite join_sp_map2. rewrite marks_top by exact Wo.
    rewrite term_objs_inert by exact Hi.
    rewrite marks_nonempty by now apply head_ok_nonempty. cbn [orb].
    rewrite marks_cons_plain by reflexivity. rewrite term_objs_space.
    rewrite IH by (try discriminate; assumption). cbn [omap2 prepend_head].
    rewrite fst_marks, app_nil_r. reflexivity. Qed.

Lemma inert_join os : Forall (fun o => wf_obj o = true) os ->
  inert is_pm (marks true [] (join_sp (map print_obj os))).
Proof. induction os as [|o os IH]; intros Hw; [constructor|].
  inversion Hw as [|? ? Ho Hos]; subst.
  destruct (obj_shape o Ho) as [Hi _].
  assert (Hi' : inert is_pm (marks true [] (print_obj o))).
  { eapply inert_weaken; [|exact Hi]. intros c H. unfold sep_obj. now rewrite H. }
  destruct wn_all as [Wo _]. specialize (Wo o Ho).
  destruct os as [|o' os]; [exact Hi'|].
  rewrite join_sp_map2. rewrite marks_top by exact Wo. apply inert_app; [exact Hi'|].
  rewrite marks_cons_plain by reflexivity. constructor; [split; [discriminate|reflexivity]|].
  now apply IH. Qed.

Lemma term_objs_pm_abort m : inert is_pm m -> forall ne c m', is_pm c = true ->
  term_objs_m ne (m ++ (c, MTop) :: m') = Some None.
Proof. induction m as [|[x mk] m IH]; intros Hi ne c m' Hc.
  - simpl. rewrite Hc. reflexivity.
  - apply inert_cons in Hi. destruct Hi as [He [Hs Hi]].
    change (((x, mk) :: m) ++ (c, MTop) :: m') with ((x, mk) :: m ++ (c, MTop) :: m').
    cbn [term_objs_m]. rewrite He, Hs.
    destruct (ceqb x " " && is_top mk && ne); rewrite (IH Hi _ c m' Hc); reflexivity. Qed.

Lemma length_join_le os o : In o os -> length (print_obj o) <= length (join_sp (map print_obj os)).
Proof. induction os as [|x os IH]; [contradiction|]. intros [->|H].
  - destruct os; [simpl; lia|]. rewrite join_sp_map2, app_length. lia.
  - destruct os as [|y os]; [contradiction|].
    rewrite join_sp_map2, app_length. cbn [length]. specialize (IH H). lia. Qed.

(* ------------------------------------------------------------------ *)
(* shape of a printed term (without its sign)                           *)
Definition head_ok0 (s : str) : Prop :=
  exists c r, s = c :: r /\ is_ws c = false /\ is_pm c = false.
Lemma head_ok_weak s : head_ok s -> head_ok0 s.
Proof. intros [c [r [E [A [B _]]]]]. exists c, r. auto. Qed.
Lemma head_ok0_app s r : head_ok0 s -> head_ok0 (s ++ r).
Proof. intros [c [r' [E [A B]]]]. exists c, (r' ++ r). rewrite E. auto. Qed.

Lemma join_head os o : head_ok (print_obj o) -> forall rest,
  prefixb (L "\frac") (join_sp (map print_obj (o :: os)) ++ rest) = false.
Proof. intros [c [r [E [A [B C]]]]] rest. destruct os as [|o' os].
  - simpl map. simpl join_sp. apply C.
  - rewrite join_sp_map2. rewrite <- app_assoc. apply C. Qed.
Lemma join_head0 os o : head_ok (print_obj o) -> head_ok0 (join_sp (map print_obj (o :: os))).
Proof. intros H. apply head_ok_weak in H. destruct os as [|o' os]; [exact H|].
  rewrite join_sp_map2. now apply head_ok0_app. Qed.
Lemma join_last os : os <> [] -> Forall (fun o => last_ok (print_obj o)) os ->
  last_ok (join_sp (map print_obj os)).
Proof. induction os as [|o os IH]; [congruence|]. intros _ H. inversion H as [|? ? Ho Hos]; subst.
  destruct os as [|o' os]; [exact Ho|]. rewrite join_sp_map2. apply last_ok_app.
  change (" " :: join_sp (map print_obj (o' :: os))) with ([" "] ++ join_sp (map print_obj (o' :: os))).
  apply last_ok_app. apply IH; [discriminate|assumption]. Qed.

Lemma abs_shape t : wf_term t = true ->
  wn true (print_abs t) /\ inert is_pm (marks true [] (print_abs t)) /\
  head_ok0 (print_abs t) /\ last_ok (print_abs t).
Proof. intros H. destruct wn_all as [_ [Wt Wb]]. split; [now apply Wt|].
  destruct t as [neg num [d|]].
  - apply wf_term_frac in H. destruct H as [H1 [H2 _]].
    change (print_abs (Term neg num (Some d))) with (L "\frac{" ++ print_body num ++ L "}{" ++ print_body d ++ L "}").
    rewrite frac_shape. split; [|split].
    + rewrite marks_top by (apply wn_flat; reflexivity). rewrite marks_flat by reflexivity.
      apply inert_app; [apply inert_topm; reflexivity|].
      rewrite marks_grp by now apply Wb. apply inert_app; [apply inert_inm|].
      rewrite <- (app_nil_r (grp _)). rewrite marks_grp by now apply Wb. rewrite app_nil_r. apply inert_inm.
    + exists "\", (L "frac" ++ grp (print_body num) ++ grp (print_body d)). repeat split; reflexivity.
    + apply last_ok_app, last_ok_app, last_ok_grp.
  - apply wf_term_plain in H. destruct H as [os [-> [Hne Hos]]].
    change (print_abs (Term neg (BObjs os) None)) with (join_sp (map print_obj os)).
    apply forallb_Forall in Hos. split; [now apply inert_join|].
    destruct os as [|o os]; [discriminate|]. inversion Hos as [|? ? Ho Hos']; subst.
    split.
    + apply join_head0. now apply obj_shape.
    + apply join_last; [discriminate|]. eapply Forall_impl; [|exact Hos].
      intros o0 H0. now apply obj_shape. Qed.

(* strip removes the blanks around a printed term *)
Lemma lstrip_ws_app w s : forallb is_ws w = true -> head_ok0 s -> lstrip_by is_ws (w ++ s) = s.
Proof. intros Hw [c [r [E [A _]]]]. induction w as [|x w IH]; simpl.
  - rewrite E. simpl. now rewrite A.
  - simpl in Hw. apply andb_true_iff in Hw. destruct Hw as [H1 H2]. rewrite H1. now apply IH. Qed.
Lemma rstrip_ws_app s w : forallb is_ws w = true -> last_ok s -> rstrip_by is_ws (s ++ w) = s.
Proof. intros Hw [r [x [E A]]]. unfold rstrip_by. rewrite rev_app_distr.
  assert (Hr : forallb is_ws (rev w) = true).
  { rewrite forallb_forall in *. intros y Hy. apply Hw. now apply in_rev. }
  assert (G : lstrip_by is_ws (rev w ++ rev s) = rev s).
  { clear Hw. induction (rev w) as [|y w' IH]; simpl.
    - rewrite E, rev_cons_last. simpl. now rewrite A.
    - simpl in Hr. apply andb_true_iff in Hr. destruct Hr as [H1 H2]. rewrite H1. now apply IH. }
  rewrite G. apply rev_involutive. Qed.
Lemma strip_around w1 s w2 : forallb is_ws w1 = true -> forallb is_ws w2 = true ->
  head_ok0 s -> last_ok s -> strip (w1 ++ s ++ w2) = s.
Proof. intros H1 H2 Hh Hl. unfold strip. rewrite lstrip_ws_app; [|exact H1|now apply head_ok0_app].
  now apply rstrip_ws_app. Qed.

(* ------------------------------------------------------------------ *)
(* fractions: "}{" occurs in a printed fraction only between numerator and
   denominator                                                          *)
Definition starts_brace (s : str) : bool := match s with c :: _ => ceqb c "{" | [] => false end.
Fixpoint noadj (s : str) : bool :=
  match s with
  | [] => true
  | c :: r => negb (ceqb c "}" && starts_brace r) && noadj r
  end.
Definition ends_brace (s : str) : bool :=
  match last_char s with Some c => ceqb c "}" | None => false end.

Lemma last_char_cons c d r : last_char (c :: d :: r) = last_char (d :: r).
Proof. unfold last_char. simpl rev. destruct (rev r ++ [d]) eqn:E; [destruct (rev r); discriminate|reflexivity]. Qed.
Lemma noadj_app a b : noadj a = true -> noadj b = true ->
  ends_brace a = false \/ starts_brace b = false -> noadj (a ++ b) = true.
Proof. induction a as [|c a IH]; intros Ha Hb Hj; [exact Hb|].
  simpl in Ha. apply andb_true_iff in Ha. destruct Ha as [H1 H2].
  destruct a as [|d a].
  - simpl. rewrite Hb, andb_true_r. destruct Hj as [Hj|Hj].
    + unfold ends_brace in Hj. simpl in Hj. now rewrite Hj.
    + rewrite Hj. now rewrite andb_false_r.
  - change ((c :: d :: a) ++ b) with (c :: (d :: a) ++ b). cbn [noadj].
    change (starts_brace ((d :: a) ++ b)) with (starts_brace (d :: a)). rewrite H1. cbn [andb].
    apply IH; [exact H2|exact Hb|]. destruct Hj as [Hj|Hj]; [left|right; exact Hj].
    unfold ends_brace in *. now rewrite last_char_cons in Hj. Qed.
Lemma noadj_app_l a b : noadj a = true -> noadj b = true -> starts_brace b = false -> noadj (a ++ b) = true.
Proof. intros. apply noadj_app; auto. Qed.
Lemma noadj_app_r a b : noadj a = true -> noadj b = true -> ends_brace a = false -> noadj (a ++ b) = true.
Proof. intros. apply noadj_app; auto. Qed.
Lemma noadj_cons c s : ceqb c "}" = false -> noadj (c :: s) = noadj s.
Proof. intros H. simpl. now rewrite H. Qed.
Definition nobrace (s : str) : bool := forallb (fun c => negb (ceqb c "{" || ceqb c "}")) s.
Lemma nobrace_noadj s : nobrace s = true -> noadj s = true /\ starts_brace s = false /\ ends_brace s = false.
Proof. unfold nobrace. intros H. split; [|split].
  - induction s as [|c s IH]; [reflexivity|]. simpl in H. apply andb_true_iff in H. destruct H as [H1 H2].
    apply negb_true_iff, orb_false_iff in H1. simpl. rewrite (proj2 H1). simpl. auto.
  - destruct s as [|c s]; [reflexivity|]. simpl in H. apply andb_true_iff in H. destruct H as [H1 _].
    apply negb_true_iff, orb_false_iff in H1. simpl. tauto.
  - unfold ends_brace, last_char. destruct (rev s) as [|c r] eqn:E; [reflexivity|].
    assert (Hin : In c s) by (apply in_rev; rewrite E; now left).
    rewrite forallb_forall in H. apply H in Hin. apply negb_true_iff, orb_false_iff in Hin. tauto. Qed.
Lemma plain_nobrace s : all_plain s -> nobrace s = true.
Proof. apply forallb_imp. intros c H. apply plain_spec in H. destruct H as [A [B _]]. now rewrite A, B. Qed.
Lemma noadj_grp w : noadj w = true -> noadj (grp w) = true.
Proof. intros H. unfold grp. rewrite noadj_cons by reflexivity. now apply noadj_app_l. Qed.
Lemma ends_brace_snoc s c : ends_brace (s ++ [c]) = ceqb c "}".
Proof. unfold ends_brace. now rewrite last_char_snoc. Qed.
Lemma zchars_nobrace z : nobrace (print_Z z) = true.
Proof. eapply forallb_imp; [|apply print_Z_plainish]. intros c H. apply zchar_facts in H.
  destruct H as [_ [_ [A [B _]]]]. rewrite ceqb_sym, A. rewrite ceqb_sym, B. reflexivity. Qed.

Lemma noadj_print_idx i : wf_idx i = true -> noadj (print_idx i) = true /\ starts_brace (print_idx i) = false.
Proof. intros H. split.
  - unfold print_idx.
    change (lletter i :: ldigits i ++ print_spin (lspin i)) with (name_of i ++ print_spin (lspin i)).
    apply noadj_app_l; [apply nobrace_noadj, plain_nobrace, name_of_plain, H| |]; now destruct (lspin i).
  - apply wf_idx_spec in H. destruct H as [H _]. unfold print_idx. simpl.
    revert H. generalize (lletter i). intros c. all_chars c. Qed.
Lemma noadj_print_idxs l : forallb wf_idx l = true ->
  noadj (print_idxs l) = true /\ starts_brace (print_idxs l) = false.
Proof. induction l as [|i l IH]; [split; reflexivity|]. cbn [forallb]. rewrite andb_true_iff. intros [H1 H2].
  destruct (IH H2) as [A B]. destruct (noadj_print_idx i H1) as [C D]. rewrite print_idxs_cons. split.
  - now apply noadj_app_l.
  - unfold print_idx in *. exact D. Qed.

Lemma noadj_pow_suffix e : noadj (pow_suffix e) = true /\ starts_brace (pow_suffix e) = false.
Proof. unfold pow_suffix. destruct (e =? 1)%Z; [split; reflexivity|]. split; [|reflexivity].
  rewrite noadj_cons by reflexivity. apply noadj_grp. apply nobrace_noadj, zchars_nobrace. Qed.

Lemma noadj_print_base b : wf_base b = true -> noadj (print_base b) = true.
Proof. destruct b as [k n bks u l|n ix|n|[|] i]; simpl wf_base; intros H.
  - apply andb_true_iff in H. destruct H as [H Hl]. apply andb_true_iff in H. destruct H as [Hn Hu].
    apply wf_tname_spec in Hn. destruct Hn as [Hne [Hp Ha]].
    assert (E : print_base (BTens k n bks u l) =
                grp (n ++ "^" :: grp (print_idxs u) ++ "_" :: grp (print_idxs l))).
    { unfold print_base, grp. norm_app. reflexivity. }
    rewrite E. apply noadj_grp. apply noadj_app_l; [apply nobrace_noadj, plain_nobrace, Hp| |reflexivity].
    rewrite noadj_cons by reflexivity. apply noadj_app_l; [apply noadj_grp, noadj_print_idxs, Hu| |reflexivity].
    rewrite noadj_cons by reflexivity. apply noadj_grp, noadj_print_idxs, Hl.
  - apply andb_true_iff in H. destruct H as [Hn Hi].
    apply wf_tname_spec in Hn. destruct Hn as [Hne [Hp Ha]].
    assert (E : print_base (BNonSym n ix) = grp (n ++ "_" :: grp (print_idxs ix))).
    { unfold print_base, grp. norm_app. reflexivity. }
    rewrite E. apply noadj_grp. apply noadj_app_l; [apply nobrace_noadj, plain_nobrace, Hp| |reflexivity].
    rewrite noadj_cons by reflexivity. apply noadj_grp, noadj_print_idxs, Hi.
  - apply wf_sname_spec in H. apply nobrace_noadj, plain_nobrace, H.
  - assert (E : print_base (BOp true i) = grp (L "a^\dagger_" ++ grp (print_idx i))).
    { unfold print_base, grp. norm_app. reflexivity. }
    rewrite E. apply noadj_grp. apply noadj_app_r; [reflexivity| |reflexivity].
    apply noadj_grp, noadj_print_idx, H.
  - assert (E : print_base (BOp false i) = L "a_" ++ grp (print_idx i)).
    { unfold print_base, grp. norm_app. reflexivity. }
    rewrite E. apply noadj_app_r; [reflexivity| |reflexivity]. apply noadj_grp, noadj_print_idx, H. Qed.

Lemma noadj_join l : Forall (fun s => noadj s = true) l -> noadj (join_sp l) = true.
Proof. induction 1 as [|x l Hx Hl IH]; [reflexivity|]. destruct l as [|y l]; [exact Hx|].
  rewrite join_sp_cons2. apply noadj_app_l; [exact Hx| |reflexivity].
  rewrite noadj_cons by reflexivity. exact IH. Qed.
Lemma noadj_tail l : Forall (fun t => noadj (print_abs t) = true) l ->
  noadj (print_tail print_abs l) = true /\ starts_brace (print_tail print_abs l) = false.
Proof. induction 1 as [|t l Ht Hl IH]; [split; reflexivity|]. rewrite print_tail_cons. split.
  - apply noadj_app_r; [now destruct (neg_of t)| |now destruct (neg_of t)].
    apply noadj_app_l; [exact Ht|apply IH|apply IH].
  - now destruct (neg_of t). Qed.
Lemma noadj_terms l : Forall (fun t => noadj (print_abs t) = true) l -> noadj (print_terms l) = true.
Proof. destruct 1 as [|t l Ht Hl]; [reflexivity|]. rewrite print_terms_cons.
  apply noadj_app_r; [now destruct (neg_of t)| |now destruct (neg_of t)].
  apply noadj_app_l; [exact Ht|now apply noadj_tail|now apply noadj_tail]. Qed.

Lemma Forall_forallb2 {A} (P : A -> Prop) (p q : A -> bool) l :
  Forall (fun x => p x = true -> q x = true -> P x) l ->
  forallb p l = true -> forallb q l = true -> Forall P l.
Proof. induction 1 as [|x l Hx Hl IH]; simpl; [constructor|]. rewrite !andb_true_iff.
  intros [H1 H2] [H3 H4]. constructor; auto. Qed.

Lemma noadj_all :
  (forall o, wf_obj o = true -> nofrac_obj o = true -> noadj (print_obj o) = true) /\
  (forall t, wf_term t = true -> nofrac_term t = true -> noadj (print_abs t) = true) /\
  (forall b, wf_fbody b = true -> nofrac_body b = true -> noadj (print_body b) = true).
Proof. apply expr_ind2.
  - intros n _ _. apply nobrace_noadj, plain_nobrace, digits_plain, print_N_digits.
  - intros n _ _. change (print_obj (OSqrt n)) with (L "\sqrt{" ++ print_Z n ++ L "}").
    replace (L "\sqrt{" ++ print_Z n ++ L "}") with (L "\sqrt" ++ grp (print_Z n)) by (unfold grp; norm_app; reflexivity).
    apply noadj_app_r; [reflexivity| |reflexivity]. apply noadj_grp, nobrace_noadj, zchars_nobrace.
  - intros i j H _. simpl in H. apply andb_true_iff in H. destruct H as [Hi Hj].
    change (print_obj (ODelta i j)) with (L "\delta_{" ++ print_idx i ++ " " :: print_idx j ++ L "}").
    replace (L "\delta_{" ++ print_idx i ++ " " :: print_idx j ++ L "}")
      with (L "\delta_" ++ grp (print_idx i ++ " " :: print_idx j)) by (unfold grp; norm_app; reflexivity).
    apply noadj_app_r; [reflexivity| |reflexivity]. apply noadj_grp.
    apply noadj_app_l; [now apply noadj_print_idx| |reflexivity].
    rewrite noadj_cons by reflexivity. now apply noadj_print_idx.
  - intros b e H _. change (print_obj (OPow b e)) with (print_pow (print_base b) e).
    rewrite print_pow_split. apply noadj_app_l; [now apply noadj_print_base|apply noadj_pow_suffix|apply noadj_pow_suffix].
  - intros ts e IH H1 H2. simpl in H1, H2.
    change (print_obj (OBrack ts e)) with (print_pow (L "\left(" ++ print_terms ts ++ L "\right)") e).
    rewrite print_pow_split. apply noadj_app_l; [|apply noadj_pow_suffix|apply noadj_pow_suffix].
    apply noadj_app_r; [reflexivity| |reflexivity].
    apply noadj_app_l; [|reflexivity|reflexivity]. apply noadj_terms.
    eapply Forall_forallb2; eauto.
  - intros ts IH H1 H2. simpl in H1, H2.
    change (print_obj (ONO ts)) with (L "\left\{" ++ print_terms ts ++ L "\right\}").
    apply noadj_app_r; [reflexivity| |reflexivity].
    apply noadj_app_l; [|reflexivity|reflexivity]. apply noadj_terms.
    eapply Forall_forallb2; eauto.
  - intros neg num den IHn IHd H1 H2. destruct den as [d|]; [discriminate H2|].
    change (print_abs (Term neg num None)) with (print_body num).
    apply wf_term_plain in H1. destruct H1 as [os [-> [A B]]]. apply IHn; [simpl; now rewrite A, B|exact H2].
  - intros os IH H1 H2. simpl in H1, H2. apply andb_true_iff in H1. destruct H1 as [_ H1].
    change (print_body (BObjs os)) with (join_sp (map print_obj os)). apply noadj_join.
    apply Forall_map. eapply Forall_forallb2; eauto.
  - intros ts IH H1 H2. simpl in H1, H2. apply andb_true_iff in H1. destruct H1 as [_ H1].
    change (print_body (BSum ts)) with (print_terms ts). apply noadj_terms.
    eapply Forall_forallb2; eauto. Qed.

Lemma prefix_adj c s : prefixb (L "}{") (c :: s) = ceqb "}" c && starts_brace s.
Proof. destruct s as [|d s]; simpl; [now rewrite andb_false_r|].
  rewrite (ceqb_sym d "{"). now rewrite andb_true_r. Qed.
Lemma find_adj_none D : noadj D = true -> find_sub (L "}{") D = None.
Proof. induction D as [|c D IH]; [reflexivity|]. simpl noadj. rewrite andb_true_iff. intros [H1 H2].
  rewrite find_sub_skip.
  - now rewrite IH.
  - rewrite prefix_adj. rewrite ceqb_sym. now apply negb_true_iff in H1. Qed.
Lemma find_adj_split N D : noadj N = true -> find_sub (L "}{") (N ++ L "}{" ++ D) = Some (N, D).
Proof. induction N as [|c N IH]; intros H.
  - exact (find_sub_here (L "}{") D).
  - simpl noadj in H. apply andb_true_iff in H. destruct H as [H1 H2].
    change ((c :: N) ++ L "}{" ++ D) with (c :: N ++ L "}{" ++ D).
    rewrite find_sub_skip.
    + now rewrite IH.
    + rewrite prefix_adj. apply negb_true_iff in H1. rewrite ceqb_sym.
      destruct N as [|d N]; [simpl; now rewrite andb_false_r|]. exact H1. Qed.
Lemma split2_frac N D : noadj N = true -> noadj D = true ->
  split2 (L "}{") (N ++ L "}{" ++ D) = Some (N, D).
Proof. intros HN HD. unfold split2. rewrite find_adj_split by exact HN. now rewrite find_adj_none. Qed.

(* ------------------------------------------------------------------ *)
(* one level of the importer, given that the recursive calls are right   *)
Section Step.
Variable cfg : names.
Variable f : nat.
Variable rec : str -> option expr.
Hypothesis Hrec : forall ts, forallb wf_term ts = true -> length (print_terms ts) < f ->
  rec (print_terms ts) = Some (map (forget_term cfg) ts).

Lemma import_obj_print o : wf_obj o = true -> length (print_obj o) <= f ->
  import_obj cfg false rec (print_obj o) = Some (forget_obj cfg o).
Proof. destruct o as [n|n|i j|b e|ts e|ts]; intros H Hl.
  - apply import_obj_int.
  - apply import_obj_sqrt.
  - simpl in H. apply andb_true_iff in H. destruct H. now apply import_obj_delta.
  - simpl in H. now apply import_obj_pow.
  - simpl in H. apply (import_obj_brack cfg rec ts e (print_terms ts) eq_refl). apply Hrec; [exact H|].
    change (print_obj (OBrack ts e)) with (print_pow (L "\left(" ++ print_terms ts ++ L "\right)") e) in Hl.
    rewrite print_pow_split, !app_length in Hl. simpl in Hl. lia.
  - simpl in H. apply (import_obj_no cfg rec ts (print_terms ts) eq_refl). apply Hrec; [exact H|].
    change (print_obj (ONO ts)) with (L "\left\{" ++ print_terms ts ++ L "\right\}") in Hl.
    rewrite !app_length in Hl. simpl in Hl. lia. Qed.

Lemma import_objs os all : (forall o, In o os -> In o all) ->
  Forall (fun o => wf_obj o = true) os -> length (join_sp (map print_obj all)) <= f ->
  omap (import_obj cfg false rec) (map print_obj os) = Some (map (forget_obj cfg) os).
Proof. induction os as [|o os IH]; intros Hin Hw Hl; [reflexivity|].
  inversion Hw as [|? ? Ho Hos]; subst. rewrite map_cons, omap_cons.
  rewrite import_obj_print; [|exact Ho|].
  - cbn [obind]. rewrite IH; [reflexivity| |assumption|assumption].
    intros x Hx. apply Hin. now right.
  - pose proof (length_join_le all o (Hin o (or_introl eq_refl))). lia. Qed.

Lemma import_term_objs os : nonempty os = true -> forallb wf_obj os = true ->
  length (join_sp (map print_obj os)) <= f ->
  import_term cfg false rec (join_sp (map print_obj os)) = Some (BObjs (map (forget_obj cfg) os)).
Proof. intros Hne Hw Hl. apply forallb_Forall in Hw. unfold import_term, term_objs.
  rewrite term_objs_join; [|destruct os; [discriminate|discriminate]|exact Hw].
  rewrite (import_objs os os); auto. Qed.

Lemma term_objs_sum ts : sum_shape ts = true -> forallb wf_term ts = true ->
  forallb nofrac_term ts = true -> term_objs (print_terms ts) = Some None.
Proof. intros Hs Hw Hn. unfold term_objs. destruct ts as [|t ts]; [discriminate|].
  rewrite print_terms_cons. destruct (neg_of t) eqn:En.
  - reflexivity.
  - destruct ts as [|t2 ts]; [simpl in Hs; congruence|].
    cbn [forallb] in Hw. apply andb_true_iff in Hw. destruct Hw as [Hw1 _].
    destruct (abs_shape t Hw1) as [W [I _]].
    change (sign_first false) with (@nil ascii). rewrite app_nil_l. rewrite print_tail_cons.
    rewrite marks_top by exact W.
    assert (E : exists sg, is_pm sg = true /\ sign_next (neg_of t2) = " " :: sg :: [" "]).
    { destruct (neg_of t2); [exists "-"|exists "+"]; split; reflexivity. }
    destruct E as [sg [Hsg E]]. rewrite E.
    change ((" " :: sg :: [" "]) ++ print_abs t2 ++ print_tail print_abs ts)
      with (" " :: sg :: " " :: print_abs t2 ++ print_tail print_abs ts).
    rewrite marks_cons_plain by reflexivity.
    assert (Hb : bracket true sg = false).
    { unfold is_pm in Hsg. apply orb_true_iff in Hsg. destruct Hsg as [Hx|Hx]; apply ceqb_eq in Hx; subst; reflexivity. }
    rewrite marks_cons_plain by exact Hb.
    change (marks true [] (print_abs t) ++ (" ", MTop) :: (sg, MTop) :: marks true [] (" " :: print_abs t2 ++ print_tail print_abs ts))
      with (marks true [] (print_abs t) ++ [(" ", MTop)] ++ (sg, MTop) :: marks true [] (" " :: print_abs t2 ++ print_tail print_abs ts)).
    rewrite app_assoc. apply term_objs_pm_abort; [|exact Hsg].
    apply inert_app; [exact I|]. constructor; [split; [discriminate|reflexivity]|constructor]. Qed.

Lemma import_term_sum ts : sum_shape ts = true -> forallb wf_term ts = true ->
  forallb nofrac_term ts = true -> length (print_terms ts) < f ->
  import_term cfg false rec (print_terms ts) = Some (BSum (map (forget_term cfg) ts)).
Proof. intros Hs Hw Hn Hl. unfold import_term. rewrite term_objs_sum by assumption.
  rewrite Hrec by assumption. reflexivity. Qed.

Lemma import_fbody b : wf_fbody b = true -> nofrac_body b = true -> length (print_body b) < f ->
  import_term cfg false rec (print_body b) = Some (forget_body cfg b).
Proof. destruct b as [os|ts]; simpl wf_fbody; simpl nofrac_body; intros Hw Hn Hl.
  - apply andb_true_iff in Hw. destruct Hw as [H1 H2].
    change (print_body (BObjs os)) with (join_sp (map print_obj os)) in *.
    rewrite import_term_objs; [reflexivity|assumption|assumption|lia].
  - apply andb_true_iff in Hw. destruct Hw as [H1 H2].
    change (print_body (BSum ts)) with (print_terms ts) in *.
    now rewrite import_term_sum. Qed.

Definition sgn (t : term) : ascii := if neg_of t then "-" else "+".
Definition piece (t : term) (tr : str) : str := sgn t :: " " :: print_abs t ++ tr.

Lemma removelast_app_snoc {A} (a : list A) x : removelast (a ++ [x]) = a.
Proof. apply removelast_last. Qed.

Lemma import_signed_piece t tr : wf_term t = true -> forallb is_ws tr = true ->
  length (print_abs t) <= f ->
  import_signed cfg false rec (piece t tr) = Some (forget_term cfg t).
Proof. intros Hw Htr Hl. destruct (abs_shape t Hw) as [W [I [Hh Hlast]]].
  unfold import_signed, piece.
  assert (Hs : is_pm (sgn t) = true) by (unfold sgn; now destruct (neg_of t)).
  rewrite Hs. cbn [negb].
  assert (St : strip (" " :: print_abs t ++ tr) = print_abs t).
  { change (" " :: print_abs t ++ tr) with ([" "] ++ print_abs t ++ tr). now apply strip_around. }
  rewrite St.
  assert (Hneg : ceqb (sgn t) "-" = neg_of t) by (unfold sgn; now destruct (neg_of t)).
  rewrite Hneg.
  destruct t as [neg num [d|]].
  - pose proof Hw as Hw'. apply wf_term_frac in Hw'. destruct Hw' as [H1 [H2 [H3 H4]]].
    change (print_abs (Term neg num (Some d))) with (L "\frac{" ++ print_body num ++ L "}{" ++ print_body d ++ L "}") in *.
    change (prefixb (L "\frac") (L "\frac{" ++ print_body num ++ L "}{" ++ print_body d ++ L "}")) with true.
    cbv iota.
    replace (L "\frac{" ++ print_body num ++ L "}{" ++ print_body d ++ L "}")
      with ((L "\frac{" ++ print_body num ++ L "}{" ++ print_body d) ++ ["}"]) by (norm_app; reflexivity).
    rewrite removelast_app_snoc, remove_first_here.
    destruct noadj_all as [_ [_ NB]].
    rewrite split2_frac by (apply NB; assumption). cbn [obind].
    rewrite !app_length in Hl. simpl in Hl.
    rewrite import_fbody by (try assumption; lia). cbn [obind].
    rewrite import_fbody by (try assumption; lia). reflexivity.
  - pose proof Hw as Hw'. apply wf_term_plain in Hw'. destruct Hw' as [os [-> [H1 H2]]].
    change (print_abs (Term neg (BObjs os) None)) with (join_sp (map print_obj os)) in *.
    assert (Hp : prefixb (L "\frac") (join_sp (map print_obj os)) = false).
    { destruct os as [|o os]; [discriminate|]. cbn [forallb] in H2. apply andb_true_iff in H2.
      rewrite <- (app_nil_r (join_sp _)). apply join_head. apply obj_shape. tauto. }
    rewrite Hp. rewrite import_term_objs by assumption. reflexivity. Qed.

(* split_terms on a printed sum *)
Fixpoint tl_split (l : list term) : str * list str :=
  match l with
  | [] => ([], [])
  | t :: l' => let (tr, ps) := tl_split l' in ([" "], piece t tr :: ps)
  end.
Lemma split_terms_pm sg m : is_pm sg = true ->
  split_terms_m true ((sg, MTop) :: m) = (ps <- split_terms_m true m ;; Some ([] :: cons_head sg ps)).
Proof. intros H. cbn [split_terms_m is_err is_top]. now rewrite H. Qed.
Lemma split_terms_sp ne m :
  split_terms_m ne ((" ", MTop) :: m) = (ps <- split_terms_m true m ;; Some (cons_head " " ps)).
Proof. reflexivity. Qed.

Lemma split_terms_first_minus m :
  split_terms_m false (("-", MTop) :: m) = (ps <- split_terms_m true m ;; Some (cons_head "-" ps)).
Proof. reflexivity. Qed.

Lemma split_tail l : forallb wf_term l = true ->
  split_terms_m true (marks true [] (print_tail print_abs l)) =
  Some (fst (tl_split l) :: snd (tl_split l)).
Proof. induction l as [|t l IH]; intros Hw; [reflexivity|].
  cbn [forallb] in Hw. apply andb_true_iff in Hw. destruct Hw as [Ht Hl].
  destruct (abs_shape t Ht) as [W [I [Hh _]]].
  rewrite print_tail_cons.
  assert (E : sign_next (neg_of t) = " " :: sgn t :: [" "]) by (unfold sgn; now destruct (neg_of t)).
  rewrite E.
  change ((" " :: sgn t :: [" "]) ++ print_abs t ++ print_tail print_abs l)
    with (" " :: sgn t :: " " :: print_abs t ++ print_tail print_abs l).
  assert (Hs : is_pm (sgn t) = true) by (unfold sgn; now destruct (neg_of t)).
  assert (Hb : bracket true (sgn t) = false) by (unfold sgn; now destruct (neg_of t)).
  rewrite marks_cons_plain by reflexivity. rewrite split_terms_sp.
  rewrite marks_cons_plain by exact Hb. rewrite split_terms_pm by exact Hs.
  rewrite marks_cons_plain by reflexivity. rewrite split_terms_sp.
  rewrite marks_top by exact W. rewrite split_terms_inert by exact I. cbn [orb].
  rewrite IH by exact Hl. cbn [option_map obind prepend_head cons_head tl_split].
  destruct (tl_split l) as [tr ps]. cbn [fst snd]. rewrite fst_marks. reflexivity. Qed.

Lemma split_terms_print t r : forallb wf_term (t :: r) = true ->
  split_terms (print_terms (t :: r)) =
  Some ((sign_first (neg_of t) ++ print_abs t ++ fst (tl_split r)) :: snd (tl_split r)).
Proof. intros Hw. cbn [forallb] in Hw. apply andb_true_iff in Hw. destruct Hw as [Ht Hr].
  destruct (abs_shape t Ht) as [W [I [Hh _]]].
  unfold split_terms. rewrite print_terms_cons. destruct (neg_of t).
  - change (sign_first true ++ print_abs t ++ print_tail print_abs r)
      with ("-" :: " " :: print_abs t ++ print_tail print_abs r).
    rewrite marks_cons_plain by reflexivity. rewrite marks_cons_plain by reflexivity.
    rewrite split_terms_first_minus. rewrite split_terms_sp.
    rewrite marks_top by exact W. rewrite split_terms_inert by exact I. cbn [orb].
    rewrite split_tail by exact Hr. cbn [option_map obind prepend_head cons_head]. rewrite fst_marks.
    reflexivity.
  - change (sign_first false ++ print_abs t ++ print_tail print_abs r)
      with (print_abs t ++ print_tail print_abs r).
    rewrite marks_top by exact W. rewrite split_terms_inert by exact I.
    destruct Hh as [c [r' [E _]]].
    rewrite marks_nonempty by (rewrite E; discriminate). cbn [orb].
    rewrite split_tail by exact Hr. cbn [option_map prepend_head]. rewrite fst_marks. reflexivity. Qed.

Lemma add_plus_first t tr ps : head_ok0 (print_abs t) ->
  add_plus ((sign_first (neg_of t) ++ print_abs t ++ tr) :: ps) = Some (piece t tr :: ps).
Proof. intros [c [r [E [_ Hpm]]]]. unfold piece, sgn. destruct (neg_of t).
  - reflexivity.
  - change (sign_first false ++ print_abs t ++ tr) with (print_abs t ++ tr).
    rewrite E. change ((c :: r) ++ tr) with (c :: r ++ tr). unfold add_plus. rewrite Hpm. reflexivity. Qed.

Lemma tl_split_ws l : forallb is_ws (fst (tl_split l)) = true.
Proof. destruct l as [|t l]; [reflexivity|]. simpl. destruct (tl_split l). reflexivity. Qed.

Lemma length_tail_le l t : In t l -> length (print_abs t) < length (print_tail print_abs l).
Proof. induction l as [|x l IH]; [contradiction|]. intros [->|H]; rewrite print_tail_cons, !app_length.
  - destruct (neg_of t); simpl; lia.
  - specialize (IH H). lia. Qed.

Lemma import_pieces l : forallb wf_term l = true ->
  (forall t, In t l -> length (print_abs t) <= f) ->
  omap (import_signed cfg false rec) (snd (tl_split l)) = Some (map (forget_term cfg) l).
Proof. induction l as [|t l IH]; intros Hw Hl; [reflexivity|].
  cbn [forallb] in Hw. apply andb_true_iff in Hw. destruct Hw as [Ht Hr].
  cbn [tl_split]. pose proof (tl_split_ws l) as Hws. destruct (tl_split l) as [tr ps] eqn:E.
  cbn [snd fst] in *. rewrite omap_cons.
  rewrite import_signed_piece; [|exact Ht|exact Hws|apply Hl; now left].
  cbn [obind]. rewrite IH; [reflexivity|exact Hr|]. intros x Hx. apply Hl. now right. Qed.

Lemma tail_last l : l <> [] -> forallb wf_term l = true -> last_ok (print_tail print_abs l).
Proof. induction l as [|t l IH]; [congruence|]. intros _ Hw.
  cbn [forallb] in Hw. apply andb_true_iff in Hw. destruct Hw as [Ht Hr].
  rewrite print_tail_cons. apply last_ok_app. destruct l as [|t2 l].
  - simpl. rewrite app_nil_r. now apply abs_shape.
  - apply last_ok_app. apply IH; [discriminate|exact Hr]. Qed.
Lemma terms_head_last t r : forallb wf_term (t :: r) = true ->
  (exists c s, print_terms (t :: r) = c :: s /\ is_ws c = false) /\ last_ok (print_terms (t :: r)).
Proof. intros Hw. cbn [forallb] in Hw. apply andb_true_iff in Hw. destruct Hw as [Ht Hr].
  destruct (abs_shape t Ht) as [_ [_ [[c [s [E [A _]]]] Hlast]]]. rewrite print_terms_cons. split.
  - destruct (neg_of t); [exists "-"; eexists; split; reflexivity|].
    exists c, (s ++ print_tail print_abs r). rewrite E. split; [reflexivity|exact A].
  - apply last_ok_app. destruct r as [|t2 r].
    + simpl. now rewrite app_nil_r.
    + apply last_ok_app. apply tail_last; [discriminate|exact Hr]. Qed.

Lemma length_terms_le t l : In t l -> length (print_abs t) <= length (print_terms l).
Proof. destruct l as [|x l]; [contradiction|]. intros [->|H]; rewrite print_terms_cons, !app_length.
  - lia.
  - pose proof (length_tail_le l t H). lia. Qed.

Lemma import_top_print ts : forallb wf_term ts = true -> length (print_terms ts) <= f ->
  import_top cfg false rec (print_terms ts) = Some (map (forget_term cfg) ts).
Proof. intros Hw Hl. unfold import_top. destruct ts as [|t r]; [reflexivity|].
  destruct (terms_head_last t r Hw) as [[c [s [E Hc]]] Hlast].
  assert (St : strip (print_terms (t :: r)) = print_terms (t :: r)).
  { unfold strip. rewrite lstrip_by_id by (rewrite E; exact Hc).
    pose proof (rstrip_ws_app (print_terms (t :: r)) [] eq_refl Hlast) as R.
    now rewrite app_nil_r in R. }
  rewrite St. rewrite E. rewrite <- E.
  rewrite split_terms_print by exact Hw. cbn [obind].
  pose proof Hw as Hw'. cbn [forallb] in Hw'. apply andb_true_iff in Hw'. destruct Hw' as [Ht Hr].
  destruct (abs_shape t Ht) as [_ [_ [Hh _]]].
  rewrite add_plus_first by exact Hh. cbn [obind]. rewrite omap_cons.
  rewrite import_signed_piece; [|exact Ht|apply tl_split_ws|].
  - cbn [obind]. rewrite import_pieces; [reflexivity|exact Hr|].
    intros x Hx. pose proof (length_terms_le x (t :: r) (or_intror Hx)). lia.
  - pose proof (length_terms_le t (t :: r) (or_introl eq_refl)). lia. Qed.
End Step.

(* ------------------------------------------------------------------ *)
(* the round trip                                                       *)
Lemma import_expr_print cfg : forall fuel ts, forallb wf_term ts = true ->
  length (print_terms ts) < fuel ->
  import_expr cfg false fuel (print_terms ts) = Some (map (forget_term cfg) ts).
Proof. induction fuel as [|fuel IH]; intros ts Hw Hl; [lia|].
  cbn [import_expr]. apply (import_top_print cfg fuel (import_expr cfg false fuel)); [|exact Hw|lia].
  intros ts' Hw' Hl'. now apply IH. Qed.

Theorem import_print_roundtrip cfg e : wf_expr e = true ->
  import_model cfg false (print_model e) = Some (forget cfg e).
Proof. intros H. unfold import_model, print_model, L.
  rewrite list_ascii_of_string_of_list_ascii. apply import_expr_print; [exact H|].
  unfold print_expr. lia. Qed.

(* the printer does not look at the tensor class or the bra-ket symmetry *)
Lemma print_terms_ext (g : term -> term) ts :
  Forall (fun t => print_abs (g t) = print_abs t /\ neg_of (g t) = neg_of t) ts ->
  print_terms (map g ts) = print_terms ts.
Proof. intros H. destruct H as [|t l [Ht Hn] Hl]; [reflexivity|].
  rewrite map_cons, !print_terms_cons, Ht, Hn. do 2 f_equal.
  induction Hl as [|t2 l [H2 N2] Hl IH]; [reflexivity|].
  rewrite map_cons, !print_tail_cons, H2, N2, IH. reflexivity. Qed.

Lemma print_forget_all cfg :
  (forall o, print_obj (forget_obj cfg o) = print_obj o) /\
  (forall t, print_abs (forget_term cfg t) = print_abs t /\ neg_of (forget_term cfg t) = neg_of t) /\
  (forall b, print_body (forget_body cfg b) = print_body b).
Proof. apply expr_ind2; try reflexivity.
  - intros b e. destruct b; reflexivity.
  - intros ts e IH. change (forget_obj cfg (OBrack ts e)) with (OBrack (map (forget_term cfg) ts) e).
    change (print_obj (OBrack (map (forget_term cfg) ts) e))
      with (print_pow (L "\left(" ++ print_terms (map (forget_term cfg) ts) ++ L "\right)") e).
    now rewrite (print_terms_ext _ ts IH).
  - intros ts IH. change (forget_obj cfg (ONO ts)) with (ONO (map (forget_term cfg) ts)).
    change (print_obj (ONO (map (forget_term cfg) ts)))
      with (L "\left\{" ++ print_terms (map (forget_term cfg) ts) ++ L "\right\}").
    now rewrite (print_terms_ext _ ts IH).
  - intros neg num den IHn IHd. split; [|reflexivity]. destruct den as [d|].
    + change (print_abs (forget_term cfg (Term neg num (Some d))))
        with (L "\frac{" ++ print_body (forget_body cfg num) ++ L "}{" ++ print_body (forget_body cfg d) ++ L "}").
      rewrite IHn, (IHd d eq_refl). reflexivity.
    + change (print_abs (forget_term cfg (Term neg num None))) with (print_body (forget_body cfg num)).
      now rewrite IHn.
  - intros os IH. change (print_body (forget_body cfg (BObjs os))) with (join_sp (map print_obj (map (forget_obj cfg) os))).
    rewrite map_map. change (print_body (BObjs os)) with (join_sp (map print_obj os)). f_equal.
    apply map_ext_in. intros o Ho. rewrite Forall_forall in IH. now apply IH.
  - intros ts IH. change (print_body (forget_body cfg (BSum ts))) with (print_terms (map (forget_term cfg) ts)).
    now rewrite (print_terms_ext _ ts IH). Qed.
Lemma print_forget cfg e : print_model (forget cfg e) = print_model e.
Proof. unfold print_model, print_expr, forget. f_equal. apply print_terms_ext.
  apply Forall_forall. intros t _. apply print_forget_all. Qed.

Theorem print_import_print cfg e e' : wf_expr e = true ->
  import_model cfg false (print_model e) = Some e' -> print_model e' = print_model e.
Proof. intros H E. rewrite import_print_roundtrip in E by exact H. inversion E; subst.
  apply print_forget. Qed.

(* re-applying the assumptions restores classes and bra-ket symmetries that
   are determined by the names *)
Lemma map_id_Forall {A} (g : A -> A) l : Forall (fun x => g x = x) l -> map g l = l.
Proof. induction 1 as [|x l Hx Hl IH]; [reflexivity|]. simpl. now rewrite Hx, IH. Qed.

Lemma reapply_forget_all cfg sym antisym :
  (forall o, cons_obj cfg sym antisym o = true -> reapply_obj sym antisym (forget_obj cfg o) = o) /\
  (forall t, cons_term cfg sym antisym t = true -> reapply_term sym antisym (forget_term cfg t) = t) /\
  (forall b, cons_body cfg sym antisym b = true -> reapply_body sym antisym (forget_body cfg b) = b).
Proof. apply expr_ind2; try reflexivity.
  - intros b e H. simpl in H. destruct b as [k n bks u l| | |]; try reflexivity.
    simpl in H. apply andb_true_iff in H. destruct H as [H1 H2].
    apply kind_eqb_eq in H1. apply Z.eqb_eq in H2. subst. reflexivity.
  - intros ts e IH H. simpl in H.
    change (reapply_obj sym antisym (forget_obj cfg (OBrack ts e)))
      with (OBrack (map (reapply_term sym antisym) (map (forget_term cfg) ts)) e).
    f_equal. rewrite map_map. apply map_id_Forall.
    apply forallb_Forall in H. rewrite Forall_forall in *. intros t Ht. apply IH; auto.
  - intros ts IH H. simpl in H.
    change (reapply_obj sym antisym (forget_obj cfg (ONO ts)))
      with (ONO (map (reapply_term sym antisym) (map (forget_term cfg) ts))).
    f_equal. rewrite map_map. apply map_id_Forall.
    apply forallb_Forall in H. rewrite Forall_forall in *. intros t Ht. apply IH; auto.
  - intros neg num den IHn IHd H. simpl in H. apply andb_true_iff in H. destruct H as [H1 H2].
    destruct den as [d|].
    + change (reapply_term sym antisym (forget_term cfg (Term neg num (Some d))))
        with (Term neg (reapply_body sym antisym (forget_body cfg num))
                (Some (reapply_body sym antisym (forget_body cfg d)))).
      rewrite IHn by exact H1. now rewrite (IHd d eq_refl H2).
    + change (reapply_term sym antisym (forget_term cfg (Term neg num None)))
        with (Term neg (reapply_body sym antisym (forget_body cfg num)) None).
      now rewrite IHn by exact H1.
  - intros os IH H. simpl in H.
    change (reapply_body sym antisym (forget_body cfg (BObjs os)))
      with (BObjs (map (reapply_obj sym antisym) (map (forget_obj cfg) os))).
    f_equal. rewrite map_map. apply map_id_Forall.
    apply forallb_Forall in H. rewrite Forall_forall in *. intros o Ho. apply IH; auto.
  - intros ts IH H. simpl in H.
    change (reapply_body sym antisym (forget_body cfg (BSum ts)))
      with (BSum (map (reapply_term sym antisym) (map (forget_term cfg) ts))).
    f_equal. rewrite map_map. apply map_id_Forall.
    apply forallb_Forall in H. rewrite Forall_forall in *. intros t Ht. apply IH; auto. Qed.
Lemma reapply_forget cfg sym antisym e : consistent cfg sym antisym e = true ->
  reapply sym antisym (forget cfg e) = e.
Proof. intros H. unfold reapply, forget. rewrite map_map. apply map_id_Forall.
  apply forallb_Forall in H. rewrite Forall_forall in *. intros t Ht.
  apply reapply_forget_all. now apply H. Qed.

(* the full statement, with the side condition that makes it true *)
Theorem import_print_reapply_roundtrip cfg sym antisym e :
  wf_expr e = true -> consistent cfg sym antisym e = true ->
  exists e', import_model cfg false (print_model e) = Some e' /\
             reapply sym antisym e' = e /\ print_model e' = print_model e.
Proof. intros Hw Hc. exists (forget cfg e). split; [now apply import_print_roundtrip|].
  split; [now apply reapply_forget|apply print_forget]. Qed.

(* the kind clause for the symbolic denominator: under every configuration in
   which its name is not also an amplitude name, the importer gives it the
   class SymmetricTensor that use_symbolic_denominators builds; the bra-ket
   antisymmetry comes back through antisym_tensors *)
Lemma kind_of_name_denominator cfg :
  is_adc_amplitude cfg (n_sym_orb_denom cfg) = false ->
  is_t_amplitude cfg (n_sym_orb_denom cfg) = false ->
  kind_of_name cfg (n_sym_orb_denom cfg) = KSym.
Proof. intros H1 H2. unfold kind_of_name. rewrite H1, H2. cbn [orb].
  rewrite str_eqb_refl. now destruct (str_eqb _ (n_coulomb cfg)). Qed.

Definition denom_term (cfg : names) (neg : bool) (up lo : list lidx) (e : Z) : term :=
  Term neg (BObjs [OPow (BTens KSym (n_sym_orb_denom cfg) (-1) up lo) e]) None.
Theorem symbolic_denominator_roundtrip cfg sym neg up lo e :
  is_adc_amplitude cfg (n_sym_orb_denom cfg) = false ->
  is_t_amplitude cfg (n_sym_orb_denom cfg) = false ->
  wf_tname (n_sym_orb_denom cfg) = true -> smem (n_sym_orb_denom cfg) sym = false ->
  forallb wf_idx up = true -> forallb wf_idx lo = true ->
  exists e', import_model cfg false (print_model [denom_term cfg neg up lo e]) = Some e' /\
             reapply sym [n_sym_orb_denom cfg] e' = [denom_term cfg neg up lo e] /\
             expr_kinds (reapply sym [n_sym_orb_denom cfg] e') = [(n_sym_orb_denom cfg, KSym, (-1)%Z)] /\
             print_model e' = print_model [denom_term cfg neg up lo e].
Proof. intros H1 H2 Hn Hs Hu Hl.
  assert (Hw : wf_expr [denom_term cfg neg up lo e] = true).
  { unfold wf_expr, denom_term. simpl. now rewrite Hn, Hu, Hl. }
  assert (Hc : consistent cfg sym [n_sym_orb_denom cfg] [denom_term cfg neg up lo e] = true).
  { unfold consistent, denom_term. cbn [forallb cons_term cons_body cons_obj cons_base].
    rewrite (kind_of_name_denominator cfg H1 H2).
    unfold bks_of_name. rewrite Hs. unfold smem. cbn [existsb]. rewrite str_eqb_refl. reflexivity. }
  destruct (import_print_reapply_roundtrip cfg sym [n_sym_orb_denom cfg] _ Hw Hc) as [e' [A [B C]]].
  exists e'. split; [exact A|]. split; [exact B|]. split; [now rewrite B|exact C]. Qed.

(* D^{i}_{a}, SymmetricTensor with bra-ket antisymmetry, default names: the
   input on which the kind clause used to fail *)
Definition D_witness : expr :=
  [Term false (BObjs [OPow (BTens KSym (L "D") (-1) [LIdx "i" [] NoSpin] [LIdx "a" [] NoSpin]) 1]) None].
Theorem import_kind_D_restored :
  wf_expr D_witness = true /\ consistent default_names [] [L "D"] D_witness = true /\
  exists e', import_model default_names false (print_model D_witness) = Some e' /\
             reapply [] [L "D"] e' = D_witness /\
             expr_kinds (reapply [] [L "D"] e') = [(L "D", KSym, (-1)%Z)] /\
             print_model e' = print_model D_witness.
Proof. split; [reflexivity|]. split; [reflexivity|]. eexists. split; [vm_compute; reflexivity|].
  repeat split; reflexivity. Qed.

(* the hypotheses of the round-trip theorem are satisfiable on a non-trivial
   expression: - \frac{3 \sqrt{2} {t1^{a_{\alpha}b12}_{ij}} {V^{ij}_{a_{\alpha}b12}}^{2} \delta_{i j}}{{e_{a}} - 2 {e_{i}}}
                 + \left(x + 1\right)^{2} \left\{{a^\dagger_{a}} a_{i}\right\} *)
Definition example_expr : expr :=
  let i := LIdx "i" [] NoSpin in let j := LIdx "j" [] NoSpin in
  let a := LIdx "a" [] Alpha in let b := LIdx "b" (L "12") NoSpin in
  let a0 := LIdx "a" [] NoSpin in
  [Term true (BObjs [OInt 3; OSqrt 2; OPow (BTens KAmp (L "t1") 0 [a; b] [i; j]) 1;
                     OPow (BTens KAnti (L "V") 1 [i; j] [a; b]) 2; ODelta i j])
        (Some (BSum [Term false (BObjs [OPow (BNonSym (L "e") [a0]) 1]) None;
                     Term true (BObjs [OInt 2; OPow (BNonSym (L "e") [i]) 1]) None]));
   Term false (BObjs [OBrack [Term false (BObjs [OPow (BSymb (L "x")) 1]) None;
                              Term false (BObjs [OInt 1]) None] 2;
                      ONO [Term false (BObjs [OPow (BOp true a0) 1; OPow (BOp false i) 1]) None]]) None].
Example example_hypotheses :
  wf_expr example_expr = true /\ consistent default_names [L "V"; L "f"] [] example_expr = true.
Proof. split; reflexivity. Qed.

(* tensors with an empty upper or lower index group (1h / 1p amplitude
   vectors Y^{}_{j}, Y^{a}_{}, one-operator matrices d^{}_{q}) are inside the
   fragment: [wf_base] puts no condition on the length of the index lists *)
Definition empty_group_expr : expr :=
  let j := LIdx "j" [] NoSpin in let a := LIdx "a" [] Alpha in
  [Term true (BObjs [OPow (BTens KAmp (L "Y") 0 [] [j]) 1; OPow (BTens KAnti (L "f") 1 [j] [j]) 1]) None;
   Term false (BObjs [OPow (BTens KAmp (L "X") 0 [a] []) 2; OPow (BTens KAnti (L "d") 0 [] [j]) 1;
                      OPow (BTens KSym (L "v") 0 [] []) 1; OPow (BNonSym (L "n") []) 1]) None].
Example empty_groups_roundtrip :
  wf_expr empty_group_expr = true /\ consistent default_names [L "f"] [] empty_group_expr = true /\
  print_model empty_group_expr = "- {Y^{}_{j}} {f^{j}_{j}} + {X^{a_{\alpha}}_{}}^{2} {d^{}_{j}} {v^{}_{}} {n_{}}"%string /\
  import_model default_names false (print_model empty_group_expr) = Some (forget default_names empty_group_expr).
Proof. split; [reflexivity|]. split; [reflexivity|]. split; [reflexivity|].
  apply import_print_roundtrip. reflexivity. Qed.
