(* C16 -- proofs about the model in Models/Contraction.v *)
From Coq Require Import ZArith NArith List Bool Lia PeanoNat Permutation.
From ADC Require Import Core.Scalar Core.Index Core.Expr Models.Contraction.
Import ListNotations.

(* ------------------------------------------------------------------ *)
(* boolean equalities *)
Lemma list_eqb_eq {A} (eqb : A -> A -> bool) :
  (forall a b, eqb a b = true <-> a = b) ->
  forall l1 l2, list_eqb eqb l1 l2 = true <-> l1 = l2.
Proof.
  intros H. induction l1 as [|x r IH]; destruct l2 as [|y r2]; simpl; try (split; congruence).
  rewrite andb_true_iff, H, IH. split; [intros [-> ->]; reflexivity|intros E; inversion E; auto].
Qed.
Lemma ilist_eqb_eq l1 l2 : ilist_eqb l1 l2 = true <-> l1 = l2.
Proof. apply list_eqb_eq. apply index_eqb_eq. Qed.
Lemma oname_eqb_eq a b : oname_eqb a b = true <-> a = b.
Proof. destruct a, b; simpl; try (split; congruence).
  - rewrite Nat.eqb_eq; split; congruence.
  - rewrite N.eqb_eq; split; congruence. Qed.
Lemma obj_eqb_eq a b : obj_eqb a b = true <-> a = b.
Proof. destruct a as [n1 i1], b as [n2 i2]; unfold obj_eqb; simpl.
  rewrite andb_true_iff, oname_eqb_eq, ilist_eqb_eq. split; [intros [-> ->]; reflexivity|intros E; inversion E; auto]. Qed.

Lemma inodup_acc_length seen l : length (inodup_acc seen l) <= length l.
Proof. revert seen; induction l as [|y r IH]; intros seen; simpl; [lia|].
  destruct (imem y seen); simpl; [specialize (IH seen)|specialize (IH (y :: seen))]; lia. Qed.
Lemma inodup_acc_full seen l : length (inodup_acc seen l) = length l -> inodup_acc seen l = l.
Proof. revert seen; induction l as [|y r IH]; intros seen; simpl; [reflexivity|].
  destruct (imem y seen); simpl; intros H.
  - pose proof (inodup_acc_length seen r); lia.
  - f_equal. apply IH. lia. Qed.
Lemma inodupb_NoDup l : inodupb l = true -> NoDup l.
Proof. unfold inodupb. rewrite Nat.eqb_eq. intros H.
  rewrite <- (inodup_acc_full [] l H). apply inodup_NoDup. Qed.

Lemma NoDup_app_intro {A} (a b : list A) :
  NoDup a -> NoDup b -> (forall x, In x a -> ~ In x b) -> NoDup (a ++ b).
Proof. induction a as [|x a IH]; simpl; intros Ha Hb H; [exact Hb|].
  inversion Ha; subst. constructor.
  - rewrite in_app_iff. intros [H1|H1]; [tauto|]. apply (H x); auto.
  - apply IH; auto. Qed.

Lemma forallb_In {A} (f : A -> bool) l : forallb f l = true -> forall x, In x l -> f x = true.
Proof. rewrite forallb_forall; auto. Qed.

(* ------------------------------------------------------------------ *)
(* removal of objects from the pool *)
Lemma remove_obj_perm o pool r : remove_obj o pool = Some r -> Permutation pool (o :: r).
Proof. revert r; induction pool as [|p q IH]; simpl; intros r H; [discriminate|].
  destruct (obj_eqb o p) eqn:E.
  - apply obj_eqb_eq in E; subst. inversion H; subst. reflexivity.
  - destruct (remove_obj o q) as [r'|]; [|discriminate]. inversion H; subst.
    rewrite (IH r' eq_refl). apply perm_swap. Qed.
Lemma remove_objs_perm os pool r : remove_objs os pool = Some r -> Permutation pool (os ++ r).
Proof. revert pool r; induction os as [|o q IH]; simpl; intros pool r H.
  - inversion H; reflexivity.
  - destruct (remove_obj o pool) as [pool'|] eqn:E; [|discriminate].
    rewrite (remove_obj_perm _ _ _ E). constructor. apply IH; exact H. Qed.

Lemma pool_idx_app a b : pool_idx (a ++ b) = pool_idx a ++ pool_idx b.
Proof. unfold pool_idx. apply flat_map_app. Qed.
Lemma pool_idx_In pool x : In x (pool_idx pool) <-> exists o, In o pool /\ In x (snd o).
Proof. unfold pool_idx. apply in_flat_map. Qed.
Lemma pool_idx_perm a b x : Permutation a b -> (In x (pool_idx a) <-> In x (pool_idx b)).
Proof. intros HP. rewrite !pool_idx_In. split; intros [o [H1 H2]]; exists o; split; auto.
  - eapply Permutation_in; eauto.
  - eapply Permutation_in; [apply Permutation_sym|]; eauto. Qed.
Lemma pool_idx_combine (ns : list oname) (ls : list (list index)) :
  length ns = length ls -> pool_idx (combine ns ls) = concat ls.
Proof. revert ls; induction ns as [|n r IH]; destruct ls as [|l q]; simpl; intros H; try discriminate; auto.
  unfold pool_idx in *; simpl. f_equal. apply IH. lia. Qed.

Lemma contracted_of_In tg ix x : In x (contracted_of tg ix) <-> In x ix /\ ~ In x tg.
Proof. unfold contracted_of. rewrite filter_In, inodup_In, negb_true_iff, imem_nIn. tauto. Qed.
Lemma contracted_of_NoDup tg ix : NoDup (contracted_of tg ix).
Proof. unfold contracted_of. apply NoDup_filter. apply inodup_NoDup. Qed.

Lemma contracted_of_self tg (n : oname) : contracted_of tg (pool_idx [(n, tg)]) = [].
Proof. unfold pool_idx; simpl. rewrite app_nil_r.
  destruct (contracted_of tg tg) as [|x q] eqn:E; [reflexivity|].
  assert (Hx : In x (contracted_of tg tg)) by (rewrite E; left; reflexivity).
  apply contracted_of_In in Hx. tauto. Qed.

(* ------------------------------------------------------------------ *)
Section Correct.
Variable S : Scalar.
Variable R : space -> spin -> list nat.
Variable tval : nat -> list nat -> K S.
Notation "0" := (k0 S). Notation "1" := (k1 S).
Infix "+" := (kadd S). Infix "*" := (kmul S).
Add Ring KR16 : (Kring S).

Notation csum := (csum S R).
Notation prod_val := (prod_val S tval).
Notation obj_val := (obj_val S tval).
Notation pool_value := (pool_value S R tval).
Notation step_val := (step_val S R tval).
Notation run_steps := (run_steps S R tval).
Notation T := (TM S R).

(* sums *)
Lemma csum_app xs ys r F : csum (xs ++ ys) r F = csum xs r (fun r' => csum ys r' F).
Proof. unfold Contraction.csum. revert r; induction xs as [|x xs IH]; intros r; simpl; [reflexivity|].
  apply ksum_ext; intros o _. apply IH. Qed.

Lemma csum_factor D ys r (F G : env -> K S) :
  depends_on S D F -> (forall x, In x D -> ~ In x ys) ->
  csum ys r (fun r' => F r' * G r') = F r * csum ys r G.
Proof. unfold Contraction.csum. intros HF Hd. revert r; induction ys as [|y ys IH]; intros r; simpl; [reflexivity|].
  rewrite <- ksum_scal. apply ksum_ext; intros o _.
  rewrite IH.
  - f_equal. apply HF. intros x Hx. unfold upd.
    destruct (index_eqb x y) eqn:E; [|reflexivity].
    apply index_eqb_eq in E; subst. exfalso. apply (Hd y Hx). left; reflexivity.
  - intros x Hx Hin. apply (Hd x Hx). right; exact Hin. Qed.

(* values *)
Lemma obj_val_agree st o r1 r2 : agree (snd o) r1 r2 -> obj_val st r1 o = obj_val st r2 o.
Proof. intros H. unfold Contraction.obj_val. rewrite (map_agree _ _ _ H). reflexivity. Qed.
Lemma prod_val_agree st os r1 r2 : agree (pool_idx os) r1 r2 -> prod_val st r1 os = prod_val st r2 os.
Proof. unfold Contraction.prod_val. induction os as [|o q IH]; simpl; intros H; [reflexivity|].
  unfold pool_idx in H; simpl in H. apply agree_app in H. destruct H as [H1 H2].
  rewrite (obj_val_agree st o r1 r2 H1), IH; auto. Qed.
Lemma prod_val_depends st os : depends_on S (pool_idx os) (fun r => prod_val st r os).
Proof. intros r1 r2 H. apply prod_val_agree; exact H. Qed.
Lemma prod_val_app st r a b : prod_val st r (a ++ b) = prod_val st r a * prod_val st r b.
Proof. unfold Contraction.prod_val. rewrite map_app, kprod_app. reflexivity. Qed.
Lemma prod_val_perm st r a b : Permutation a b -> prod_val st r a = prod_val st r b.
Proof. intros H. unfold Contraction.prod_val. apply kprod_perm. apply Permutation_map; exact H. Qed.

Lemma prod_val_upd st id v r os :
  existsb (fun o => oname_eqb (fst o) (NContr id)) os = false ->
  prod_val (st_upd S st id v) r os = prod_val st r os.
Proof. unfold Contraction.prod_val. induction os as [|o q IH]; simpl; intros H; [reflexivity|].
  apply orb_false_iff in H. destruct H as [H1 H2]. rewrite IH by exact H2. f_equal.
  unfold Contraction.obj_val, oval. destruct o as [[b|j] ix]; simpl in *; [reflexivity|].
  unfold st_upd. rewrite H1. reflexivity. Qed.

Lemma bind_map xs (r : env) x : In x xs -> bind xs (map r xs) x = r x.
Proof. induction xs as [|y q IH]; simpl; intros H; [tauto|].
  unfold upd. destruct (index_eqb x y) eqn:E.
  - apply index_eqb_eq in E; subst; reflexivity.
  - destruct H as [H|H]; [subst; rewrite index_eqb_refl in E; discriminate|auto]. Qed.

(* ------------------------------------------------------------------ *)
(* one step preserves the value of the pool *)
Definition step_ok (tg : list index) (c : contraction) (pool' : list obj) : Prop :=
  step_local_ok c = true /\
  (forall x, In x (c_contracted c) -> ~ In x tg /\ ~ In x (pool_idx pool')) /\
  existsb (fun o => oname_eqb (fst o) (NContr (c_id c))) pool' = false.

Lemma step_local_facts c : step_local_ok c = true ->
  NoDup (c_contracted c) /\ NoDup (c_target c) /\
  (forall x, In x (c_contracted c) -> ~ In x (c_target c)) /\
  (forall x, In x (pool_idx (c_objs c)) <-> In x (c_contracted c) \/ In x (c_target c)).
Proof. unfold step_local_ok. rewrite !andb_true_iff.
  intros [[[[[[Hlen Hn1] Hn2] Hdis] Hcov] Hc] Ht].
  apply Nat.eqb_eq in Hlen.
  split; [apply inodupb_NoDup; exact Hn1|]. split; [apply inodupb_NoDup; exact Hn2|].
  split.
  - intros x Hx. pose proof (forallb_In _ _ Hdis x Hx) as H. apply negb_true_iff, imem_nIn in H. exact H.
  - intros x. unfold c_objs. rewrite pool_idx_combine by exact Hlen. split.
    + intros Hx. pose proof (forallb_In _ _ Hcov x Hx) as H. apply orb_true_iff in H.
      rewrite !imem_In in H. exact H.
    + intros [Hx|Hx]; [pose proof (forallb_In _ _ Hc x Hx) as H|pose proof (forallb_In _ _ Ht x Hx) as H];
        apply imem_In in H; exact H. Qed.

Lemma step_preserves tg c pool pool' st r :
  Permutation pool (c_objs c ++ pool') -> step_ok tg c pool' ->
  pool_value (st_upd S st (c_id c) (step_val st c)) tg ((NContr (c_id c), c_target c) :: pool') r
  = pool_value st tg pool r.
Proof.
  intros HP [Hloc [Hout Hname]].
  destruct (step_local_facts c Hloc) as [HndX [HndT [Hdis Hcov]]].
  unfold Contraction.pool_value.
  set (X := c_contracted c) in *. set (Tc := c_target c) in *. set (G := c_objs c) in *.
  set (st' := st_upd S st (c_id c) (step_val st c)).
  set (C' := contracted_of tg (pool_idx ((NContr (c_id c), Tc) :: pool'))).
  set (C := contracted_of tg (pool_idx pool)).
  assert (HC' : forall x, In x C' <-> (In x Tc \/ In x (pool_idx pool')) /\ ~ In x tg).
  { intros x. unfold C'. rewrite contracted_of_In. unfold pool_idx at 1; simpl.
    rewrite in_app_iff. reflexivity. }
  assert (HCperm : Permutation C (C' ++ X)).
  { apply NoDup_Permutation.
    - apply contracted_of_NoDup.
    - apply NoDup_app_intro; [apply contracted_of_NoDup|exact HndX|].
      intros x Hx HxX. apply HC' in Hx. destruct Hx as [[Hx|Hx] _].
      + apply (Hdis x HxX Hx).
      + apply (proj2 (Hout x HxX) Hx).
    - intros x. unfold C. rewrite contracted_of_In, in_app_iff, HC'.
      rewrite (pool_idx_perm _ _ x HP), pool_idx_app, in_app_iff. fold G. rewrite Hcov.
      split.
      + intros [[[H|H]|H] Hn]; tauto.
      + intros [[[H|H] Hn]|H]; try tauto. split; [tauto|]. apply (proj1 (Hout x H)). }
  transitivity (csum C' r (fun r1 => prod_val st r1 pool' * step_val st c (map r1 Tc))).
  - unfold Contraction.csum. apply sum_over_ext. intros r1.
    unfold Contraction.prod_val at 1. simpl. fold (prod_val st' r1 pool').
    unfold st'. rewrite prod_val_upd by exact Hname.
    unfold Contraction.obj_val at 1. simpl. unfold st_upd at 1. rewrite N.eqb_refl. ring.
  - symmetry. unfold Contraction.csum.
    rewrite (sum_over_perm S T (pool_idx pool) C (C' ++ X) _ r (prod_val_depends st pool)
               (contracted_of_NoDup _ _) HCperm).
    fold (csum (C' ++ X) r (fun r' => prod_val st r' pool)). rewrite csum_app.
    unfold Contraction.csum. apply sum_over_ext. intros r1.
    fold (csum X r1 (fun r' => prod_val st r' pool)).
    transitivity (csum X r1 (fun r2 => prod_val st r2 pool' * prod_val st r2 G)).
    + unfold Contraction.csum. apply sum_over_ext. intros r2.
      rewrite (prod_val_perm st r2 _ _ HP), prod_val_app. ring.
    + rewrite (csum_factor (pool_idx pool') X r1 _ _ (prod_val_depends st pool')).
      * f_equal. unfold Contraction.step_val. fold X Tc G. unfold Contraction.csum.
        apply (sum_over_agree S T (pool_idx G)); [apply prod_val_depends|].
        intros x Hx Hn. symmetry. apply bind_map. apply Hcov in Hx. tauto.
      * intros x Hx HxX. apply (proj2 (Hout x HxX) Hx).
Qed.

(* ------------------------------------------------------------------ *)
(* the last contraction of a scheme *)
Definition last_id (s : scheme) : N := match rev s with [] => 0%N | c :: _ => c_id c end.
Lemma last_id_cons c d s : last_id (c :: d :: s) = last_id (d :: s).
Proof. unfold last_id. simpl. destruct (rev s ++ [d]) as [|e q] eqn:E; [|reflexivity].
  apply app_eq_nil in E. destruct E; discriminate. Qed.

Lemma wf_steps_step tg pool c rest : wf_steps tg pool (c :: rest) = true ->
  exists pool', Permutation pool (c_objs c ++ pool') /\ step_ok tg c pool' /\
    match rest with
    | [] => pool' = [] /\ c_target c = tg
    | _ => wf_steps tg ((NContr (c_id c), c_target c) :: pool') rest = true
    end.
Proof. simpl. destruct (remove_objs (c_objs c) pool) as [pool'|] eqn:E; [|discriminate].
  rewrite !andb_true_iff. intros [[[Hloc Hout] Hname] Hrest].
  exists pool'. split; [apply remove_objs_perm; exact E|]. split.
  - split; [exact Hloc|]. split.
    + intros x Hx. pose proof (forallb_In _ _ Hout x Hx) as H.
      apply andb_true_iff in H. rewrite !negb_true_iff, !imem_nIn in H. exact H.
    + apply negb_true_iff in Hname. exact Hname.
  - destruct rest; [|exact Hrest]. destruct pool'; [|discriminate].
    apply ilist_eqb_eq in Hrest. auto. Qed.

Lemma wf_steps_correct tg s : forall pool st r, wf_steps tg pool s = true ->
  run_steps st s (last_id s) (map r tg) = pool_value st tg pool r.
Proof. induction s as [|c rest IH]; intros pool st r H; [discriminate|].
  destruct (wf_steps_step _ _ _ _ H) as [pool' [HP [Hok Hrest]]].
  destruct rest as [|d rest'].
  - destruct Hrest as [-> Htg]. simpl. unfold last_id; simpl.
    rewrite <- (step_preserves tg c pool [] st r HP Hok).
    unfold Contraction.pool_value. rewrite Htg.
    rewrite contracted_of_self. unfold Contraction.csum; simpl.
    unfold Contraction.prod_val, Contraction.obj_val; simpl.
    ring.
  - rewrite last_id_cons.
    change (run_steps st (c :: d :: rest')) with
      (run_steps (st_upd S st (c_id c) (step_val st c)) (d :: rest')).
    rewrite (IH _ _ r Hrest). apply step_preserves; assumption.
Qed.

Theorem wf_scheme_correct_ objs tg s : wf_scheme objs tg s = true ->
  forall r : env, run_scheme S R tval s (map r tg) = term_value S R tval tg objs r.
Proof. unfold wf_scheme. rewrite !andb_true_iff. intros [_ H] r.
  unfold run_scheme, term_value. rewrite <- (wf_steps_correct tg s objs _ r H).
  unfold last_id. destruct (rev s) as [|c q] eqn:E; [|reflexivity].
  destruct s; [discriminate H|]. simpl in E. apply app_eq_nil in E. destruct E; discriminate. Qed.
End Correct.

(* ------------------------------------------------------------------ *)
(* structural consequences of wf_scheme *)
Definition result_obj (c : contraction) : obj := (NContr (c_id c), c_target c).

(* every object of the term and every intermediate result is consumed exactly
   once (as multisets) *)
Lemma wf_steps_objects tg s : forall pool, wf_steps tg pool s = true ->
  Permutation (flat_map c_objs s) (pool ++ map result_obj (removelast s)).
Proof. induction s as [|c rest IH]; intros pool H; [discriminate|].
  destruct (wf_steps_step _ _ _ _ H) as [pool' [HP [_ Hrest]]].
  destruct rest as [|d rest'].
  - destruct Hrest as [-> _]. simpl. rewrite !app_nil_r in *. symmetry; exact HP.
  - change (flat_map c_objs (c :: d :: rest')) with (c_objs c ++ flat_map c_objs (d :: rest')).
    rewrite (IH _ Hrest).
    change (removelast (c :: d :: rest')) with (c :: removelast (d :: rest')).
    simpl map. fold (result_obj c).
    rewrite HP. rewrite <- !app_assoc. apply Permutation_app_head.
    simpl. rewrite Permutation_middle. reflexivity. Qed.

(* intermediates are only used after they have been computed: a step can only
   consume objects of the current pool, which consists of not yet consumed
   base objects and of results of earlier steps *)
Lemma wf_steps_later tg s : forall pool, wf_steps tg pool s = true ->
  forall s1 c s2, s = s1 ++ c :: s2 ->
  forall o, In o (c_objs c) -> In o pool \/ In o (map result_obj s1).
Proof. induction s as [|c0 rest IH]; intros pool H s1 c s2 E o Ho; [discriminate|].
  destruct (wf_steps_step _ _ _ _ H) as [pool' [HP [_ Hrest]]].
  destruct s1 as [|c1 s1']; simpl in E; inversion E; subst.
  - left. eapply Permutation_in; [apply Permutation_sym; exact HP|]. apply in_or_app; auto.
  - destruct (s1' ++ c :: s2) as [|d rest'] eqn:E2; [destruct s1'; discriminate|].
    destruct (IH _ Hrest s1' c s2 (eq_sym E2) o Ho) as [[Hp|Hp]|Hp].
    + right. left. subst o. reflexivity.
    + left. eapply Permutation_in; [apply Permutation_sym; exact HP|]. apply in_or_app; auto.
    + right. right. exact Hp. Qed.

Lemma icount_In x l : icount x l <> 0 <-> In x l.
Proof. induction l as [|y r IH]; simpl; [split; [congruence|tauto]|].
  destruct (index_eqb x y) eqn:E.
  - apply index_eqb_eq in E; subst. split; [auto|lia].
  - apply index_eqb_neq in E. rewrite <- IH. split; [intros H; right; lia|intros [H|H]; [congruence|lia]]. Qed.
Lemma icount_app x a b : icount x (a ++ b) = icount x a + icount x b.
Proof. induction a; simpl; [reflexivity|rewrite IHa; lia]. Qed.
Lemma icount_NoDup x l : NoDup l -> icount x l = if imem x l then 1 else 0.
Proof. induction 1 as [|y r Hn Hnd IH]; simpl; [reflexivity|].
  destruct (index_eqb x y) eqn:E; simpl.
  - apply index_eqb_eq in E; subst. rewrite IH. apply imem_nIn in Hn. rewrite Hn. reflexivity.
  - exact IH. Qed.

(* every non-target index of the pool is summed in exactly one step, no
   other index is summed at all *)
Lemma wf_steps_index_once tg s : forall pool, wf_steps tg pool s = true ->
  forall x, icount x (flat_map c_contracted s) =
            if imem x (pool_idx pool) && negb (imem x tg) then 1 else 0.
Proof. induction s as [|c rest IH]; intros pool H x; [discriminate|].
  destruct (wf_steps_step _ _ _ _ H) as [pool' [HP [[Hloc [Hout _]] Hrest]]].
  destruct (step_local_facts c Hloc) as [HndX [_ [Hdis Hcov]]].
  simpl. rewrite icount_app, (icount_NoDup x _ HndX).
  assert (Hpool : In x (pool_idx pool) <-> (In x (c_contracted c) \/ In x (c_target c)) \/ In x (pool_idx pool')).
  { rewrite (pool_idx_perm _ _ x HP), pool_idx_app, in_app_iff, Hcov. reflexivity. }
  destruct (imem x (c_contracted c)) eqn:EX.
  - apply imem_In in EX. destruct (Hout x EX) as [Hntg Hnp].
    assert (E1 : imem x (pool_idx pool) = true) by (apply imem_In, Hpool; auto).
    assert (E2 : imem x tg = false) by (apply imem_nIn; exact Hntg).
    rewrite E1, E2. simpl.
    destruct rest as [|d rest']; [reflexivity|].
    rewrite (IH _ Hrest x).
    assert (E3 : imem x (pool_idx ((NContr (c_id c), c_target c) :: pool')) = false).
    { apply imem_nIn. unfold pool_idx; simpl. rewrite in_app_iff. intros [Hx|Hx]; [exact (Hdis x EX Hx)|exact (Hnp Hx)]. }
    rewrite E3. reflexivity.
  - apply imem_nIn in EX. simpl.
    destruct rest as [|d rest'].
    + destruct Hrest as [-> Htg]. simpl.
      destruct (imem x (pool_idx pool)) eqn:E1; [|reflexivity]. simpl.
      apply imem_In, Hpool in E1. unfold pool_idx in E1; simpl in E1.
      destruct E1 as [[E1|E1]|[]]; [tauto|]. rewrite Htg in E1. apply imem_In in E1. rewrite E1. reflexivity.
    + rewrite (IH _ Hrest x).
      assert (E3 : imem x (pool_idx ((NContr (c_id c), c_target c) :: pool')) = imem x (pool_idx pool));
        [|rewrite E3; reflexivity].
      destruct (imem x (pool_idx pool)) eqn:E1.
      * apply imem_In. apply imem_In, Hpool in E1. unfold pool_idx; simpl. rewrite in_app_iff.
        fold (pool_idx pool'). tauto.
      * apply imem_nIn. apply imem_nIn in E1. unfold pool_idx; simpl. rewrite in_app_iff.
        fold (pool_idx pool'). intros HH. apply E1, Hpool. tauto. Qed.

(* indices of every step come from the pool *)
Lemma wf_steps_incl tg s : forall pool, wf_steps tg pool s = true ->
  forall c, In c s -> incl (concat (c_idx c)) (pool_idx pool).
Proof. induction s as [|c0 rest IH]; intros pool H c Hc; [discriminate|].
  destruct (wf_steps_step _ _ _ _ H) as [pool' [HP [[Hloc _] Hrest]]].
  destruct (step_local_facts c0 Hloc) as [_ [_ [_ Hcov]]].
  assert (Hlen : length (c_names c0) = length (c_idx c0)).
  { unfold step_local_ok in Hloc. rewrite !andb_true_iff in Hloc.
    destruct Hloc as [[[[[[Hl _] _] _] _] _] _]. apply Nat.eqb_eq in Hl; exact Hl. }
  destruct Hc as [<-|Hc].
  - intros x Hx. apply (pool_idx_perm _ _ x HP). rewrite pool_idx_app, in_app_iff. left.
    unfold c_objs. rewrite pool_idx_combine by exact Hlen. exact Hx.
  - destruct rest as [|d rest']; [destruct Hc|].
    intros x Hx. pose proof (IH _ Hrest c Hc x Hx) as H1.
    unfold pool_idx in H1; simpl in H1. rewrite in_app_iff in H1. fold (pool_idx pool') in H1.
    apply (pool_idx_perm _ _ x HP). rewrite pool_idx_app, in_app_iff.
    destruct H1 as [H1|H1]; [left; apply Hcov; auto|right; exact H1]. Qed.

Lemma wf_steps_local tg s : forall pool, wf_steps tg pool s = true ->
  forall c, In c s -> step_local_ok c = true.
Proof. induction s as [|c0 rest IH]; intros pool H c Hc; [discriminate|].
  destruct (wf_steps_step _ _ _ _ H) as [pool' [_ [[Hloc _] Hrest]]].
  destruct Hc as [<-|Hc]; [exact Hloc|].
  destruct rest as [|d rest']; [destruct Hc|]. eapply IH; eauto. Qed.

(* ------------------------------------------------------------------ *)
(* scaling *)
Lemma iinsert_perm x l : Permutation (iinsert x l) (x :: l).
Proof. induction l as [|y r IH]; simpl; [reflexivity|].
  destruct (idx_leb x y); [reflexivity|]. rewrite IH. apply perm_swap. Qed.
Lemma isort_perm l : Permutation (isort l) l.
Proof. induction l as [|x r IH]; simpl; [reflexivity|]. rewrite iinsert_perm, IH. reflexivity. Qed.
Lemma filter_partition_perm {A} (f : A -> bool) l :
  Permutation (filter (fun x => negb (f x)) l ++ filter f l) l.
Proof. induction l as [|x r IH]; simpl; [reflexivity|].
  destruct (f x); simpl.
  - rewrite <- Permutation_middle. constructor; exact IH.
  - constructor; exact IH. Qed.

Lemma count_space_app sp a b : count_space sp (a ++ b) = count_space sp a + count_space sp b.
Proof. unfold count_space. rewrite filter_app, app_length. reflexivity. Qed.
Lemma count_space_perm sp a b : Permutation a b -> count_space sp a = count_space sp b.
Proof. intros H. unfold count_space. induction H; simpl; auto.
  - destruct (space_eqb (ispace x) sp); simpl; lia.
  - destruct (space_eqb (ispace x) sp), (space_eqb (ispace y) sp); simpl; lia.
  - lia. Qed.
Lemma count_space_total l : count_space Occ l + count_space Virt l + count_space Gen l = length l.
Proof. unfold count_space. induction l as [|x r IH]; simpl; [reflexivity|].
  destruct (ispace x); simpl; lia. Qed.
Lemma count_space_incl sp A B : NoDup A -> incl A B -> count_space sp A <= count_space sp (inodup B).
Proof. intros Hnd Hi. unfold count_space. apply NoDup_incl_length.
  - apply NoDup_filter; exact Hnd.
  - intros x Hx. apply filter_In in Hx. apply filter_In. split; [|tauto].
    apply inodup_In. apply Hi. tauto. Qed.

(* number of distinct indices: total and per space, in the field order of
   ScalingComponent *)
Definition counts (l : list index) : scomp :=
  SC (length l) (count_space Gen l) (count_space Virt l) (count_space Occ l).

Lemma mk_scaling_counts X Tc : s_comp (mk_scaling X Tc) = counts (X ++ Tc) /\ s_mem (mk_scaling X Tc) = counts Tc.
Proof. unfold mk_scaling, counts; simpl. split; [|reflexivity].
  rewrite !count_space_app, app_length.
  pose proof (count_space_total X). pose proof (count_space_total Tc). f_equal; lia. Qed.
Lemma counts_perm a b : Permutation a b -> counts a = counts b.
Proof. intros H. unfold counts. rewrite (Permutation_length H), !(count_space_perm _ _ _ H). reflexivity. Qed.

Lemma mk_contraction_perm id names idxs tg :
  Permutation (c_contracted (mk_contraction id names idxs tg) ++ c_target (mk_contraction id names idxs tg))
              (inodup (concat idxs)).
Proof. unfold mk_contraction, split_ct; simpl.
  set (keys := inodup (concat idxs)). set (f := is_target_idx (concat idxs) tg).
  transitivity (filter (fun x => negb (f x)) keys ++ filter f keys); [|apply filter_partition_perm].
  apply Permutation_app; [apply isort_perm|].
  destruct (ilist_eqb (isort tg) (isort (filter f keys))) eqn:E; [|apply isort_perm].
  apply ilist_eqb_eq in E. rewrite <- (isort_perm tg), E. apply isort_perm. Qed.

(* reported scaling = number of distinct indices of the step (computational)
   resp. of its target (memory) *)
Lemma scaling_true_ id names idxs tg :
  let c := mk_contraction id names idxs tg in
  s_comp (c_scaling c) = counts (inodup (concat idxs)) /\
  s_mem (c_scaling c) = counts (c_target c).
Proof. intros c. pose proof (mk_contraction_perm id names idxs tg) as HP. fold c in HP.
  change (c_scaling c) with (mk_scaling (c_contracted c) (c_target c)).
  destruct (mk_scaling_counts (c_contracted c) (c_target c)) as [H1 H2].
  rewrite H1, H2, (counts_perm _ _ HP). auto. Qed.

Lemma scomp_eta a : a = SC (s_total a) (s_gen a) (s_virt a) (s_occ a).
Proof. destruct a; reflexivity. Qed.
Lemma scomp_fields_inj a b : nlist_eqb (scomp_fields a) (scomp_fields b) = true -> a = b.
Proof. intros H. apply (list_eqb_eq Nat.eqb Nat.eqb_eq) in H.
  destruct a, b; unfold scomp_fields in H; simpl in H. inversion H; reflexivity. Qed.
Lemma scaling_ok_eq c : scaling_ok c = true -> c_scaling c = mk_scaling (c_contracted c) (c_target c).
Proof. unfold scaling_ok. rewrite andb_true_iff. intros [H1 H2].
  apply scomp_fields_inj in H1, H2. destruct (c_scaling c) as [a b], (mk_scaling (c_contracted c) (c_target c)) as [a' b'].
  simpl in *. congruence. Qed.

(* for arbitrary step data (as returned by the implementation) *)
Lemma step_scaling_true c : step_local_ok c = true -> scaling_ok c = true ->
  s_comp (c_scaling c) = counts (inodup (concat (c_idx c))) /\
  s_mem (c_scaling c) = counts (c_target c).
Proof. intros Hloc Hsc. rewrite (scaling_ok_eq c Hsc).
  destruct (mk_scaling_counts (c_contracted c) (c_target c)) as [H1 H2]. rewrite H1, H2.
  split; [|reflexivity]. apply counts_perm.
  destruct (step_local_facts c Hloc) as [HndX [HndT [Hdis Hcov]]].
  assert (Hlen : length (c_names c) = length (c_idx c)).
  { unfold step_local_ok in Hloc. rewrite !andb_true_iff in Hloc.
    destruct Hloc as [[[[[[Hl _] _] _] _] _] _]. apply Nat.eqb_eq in Hl; exact Hl. }
  unfold c_objs in Hcov. rewrite pool_idx_combine in Hcov by exact Hlen.
  apply NoDup_Permutation.
  - apply NoDup_app_intro; auto.
  - apply inodup_NoDup.
  - intros x. rewrite in_app_iff, inodup_In, Hcov. reflexivity. Qed.

Lemma counts_cw_le A B : NoDup A -> incl A B -> scomp_cw_leb (counts A) (counts (inodup B)) = true.
Proof. intros Hnd Hi. unfold scomp_cw_leb, counts; simpl.
  rewrite !andb_true_iff, !Nat.leb_le. repeat split; try (apply count_space_incl; assumption).
  apply NoDup_incl_length; [exact Hnd|]. intros x Hx. apply inodup_In. apply Hi; exact Hx. Qed.

Lemma hyper_comp objs tg :
  s_comp (c_scaling (mk_contraction 0%N (map fst objs) (map snd objs) tg)) = counts (inodup (pool_idx objs)).
Proof. destruct (scaling_true_ 0%N (map fst objs) (map snd objs) tg) as [H _]. rewrite H.
  unfold pool_idx. rewrite flat_map_concat_map. reflexivity. Qed.

(* a step whose indices all come from the term scales (computation and
   memory) component-wise at most like the simultaneous contraction *)
Lemma step_le_hyper objs tg c : step_local_ok c = true -> scaling_ok c = true ->
  incl (concat (c_idx c)) (pool_idx objs) ->
  let h := s_comp (c_scaling (mk_contraction 0%N (map fst objs) (map snd objs) tg)) in
  scomp_cw_leb (s_comp (c_scaling c)) h = true /\ scomp_cw_leb (s_mem (c_scaling c)) h = true.
Proof. intros Hloc Hsc Hi h. unfold h. rewrite hyper_comp.
  rewrite (scaling_ok_eq c Hsc).
  destruct (mk_scaling_counts (c_contracted c) (c_target c)) as [H1 H2]. rewrite H1, H2.
  destruct (step_local_facts c Hloc) as [HndX [HndT [Hdis Hcov]]].
  assert (Hlen : length (c_names c) = length (c_idx c)).
  { unfold step_local_ok in Hloc. rewrite !andb_true_iff in Hloc.
    destruct Hloc as [[[[[[Hl _] _] _] _] _] _]. apply Nat.eqb_eq in Hl; exact Hl. }
  unfold c_objs in Hcov. rewrite pool_idx_combine in Hcov by exact Hlen.
  split; apply counts_cw_le.
  - apply NoDup_app_intro; auto.
  - intros x Hx. apply Hi, Hcov. apply in_app_iff in Hx. exact Hx.
  - exact HndT.
  - intros x Hx. apply Hi, Hcov. auto. Qed.

Lemma wf_scheme_le_hyper_ objs tg s : wf_scheme objs tg s = true ->
  forallb scaling_ok s = true -> le_hyper objs tg s = true.
Proof. unfold wf_scheme. rewrite !andb_true_iff. intros [_ H] Hsc.
  unfold le_hyper. apply forallb_forall. intros c Hc.
  destruct (step_le_hyper objs tg c (wf_steps_local tg s objs H c Hc)
              (forallb_In _ _ Hsc c Hc) (wf_steps_incl tg s objs H c Hc)) as [H1 H2].
  rewrite H1, H2. reflexivity. Qed.

Lemma list_max_le l b : (forall x, In x l -> x <= b) -> list_max l <= b.
Proof. induction l as [|x r IH]; simpl; intros H; [lia|].
  apply Nat.max_lub; [apply H; auto|apply IH; intros y Hy; apply H; auto]. Qed.

(* hence the maximum over the steps, field by field, is bounded too *)
Lemma le_hyper_max objs tg s : le_hyper objs tg s = true ->
  let h := s_comp (c_scaling (mk_contraction 0%N (map fst objs) (map snd objs) tg)) in
  forall k, k < 4 ->
  list_max (map (fun c => nth k (scomp_fields (s_comp (c_scaling c))) 0) s) <= nth k (scomp_fields h) 0 /\
  list_max (map (fun c => nth k (scomp_fields (s_mem (c_scaling c))) 0) s) <= nth k (scomp_fields h) 0.
Proof. intros H h k Hk. unfold le_hyper in H. subst h.
  remember (s_comp (c_scaling (mk_contraction 0%N (map fst objs) (map snd objs) tg))) as h eqn:Eh. clear Eh.
  split; apply list_max_le; intros x Hx; apply in_map_iff in Hx; destruct Hx as [c [<- Hc]];
    pose proof (forallb_In _ _ H c Hc) as Hc'; apply andb_true_iff in Hc'; destruct Hc' as [H1 H2];
    unfold scomp_cw_leb in H1, H2; rewrite !andb_true_iff, !Nat.leb_le in H1, H2;
    unfold scomp_fields; destruct k as [|[|[|[|k]]]]; simpl; lia. Qed.

(* limits *)
Lemma limits_respected_sound tg mid mg s : limits_respected tg mid mg s = true ->
  forall c, In c s ->
  (forall d, mid = Some d -> c_target c <> tg -> length (c_target c) <= d) /\
  (forall m, mg = Some m -> length (c_names c) <= m).
Proof. unfold limits_respected. intros H c Hc. pose proof (forallb_In _ _ H c Hc) as H1.
  apply andb_true_iff in H1. destruct H1 as [H1 H2]. split.
  - intros d -> Hne. apply orb_true_iff in H1. destruct H1 as [H1|H1].
    + apply ilist_eqb_eq in H1. contradiction.
    + apply Nat.leb_le; exact H1.
  - intros m ->. apply Nat.leb_le; exact H2. Qed.

(* ------------------------------------------------------------------ *)
(* regression examples on the inputs of the two repaired defects *)
Definition wit_i := Idx Occ NoSpin 105 0 0.
Definition wit_j := Idx Occ NoSpin 106 0 0.
Definition wit_k := Idx Occ NoSpin 107 0 0.
Definition wit_objs : list obj :=
  [(NBase 0, [wit_i; wit_j]); (NBase 1, [wit_i; wit_k]); (NBase 2, [wit_i; wit_j]); (NBase 3, [wit_j])].

(* A_ij B_ik C_ij D_j -> k: _group_objects still returns the non-closed groups
   (0,1,2) and (0,2,3); with the leak guard every enumerated scheme and the
   selected one are well-formed *)
Lemma regression_unclosed_group_ :
  group_objects (map snd wit_objs) [wit_k] None = [[0; 1; 2]; [0; 1; 2; 3]; [0; 2; 3]; [1; 3]] /\
  forallb (wf_scheme wit_objs [wit_k]) (fst (enumerate_schemes [wit_k] None None 0%N wit_objs)) = true /\
  length (fst (enumerate_schemes [wit_k] None None 0%N wit_objs)) = 2 /\
  exists s cnt, optimize_contractions 0%N wit_objs [wit_k] None None = OScheme s cnt /\
                wf_scheme wit_objs [wit_k] s = true.
Proof. split; [vm_compute; reflexivity|]. split; [vm_compute; reflexivity|]. split; [vm_compute; reflexivity|].
  eexists. eexists. split; vm_compute; reflexivity. Qed.

(* a term with a single tensor A_ij, requested as (j, i) *)
Lemma regression_single_object_ :
  exists s cnt, optimize_contractions 0%N [(NBase 0, [wit_i; wit_j])] [wit_j; wit_i] None None = OScheme s cnt /\
    wf_scheme [(NBase 0, [wit_i; wit_j])] [wit_j; wit_i] s = true /\
    forall d, c_target (last s d) = [wit_j; wit_i].
Proof. eexists. eexists. split; [vm_compute; reflexivity|]. split; [vm_compute; reflexivity|].
  intros d. reflexivity. Qed.

(* the scheme ends in a contraction carrying the requested targets in order *)
Lemma wf_steps_last tg s : forall pool, wf_steps tg pool s = true ->
  s <> [] /\ forall d, c_target (last s d) = tg.
Proof. induction s as [|c rest IH]; intros pool H; [discriminate|]. split; [discriminate|]. intros d.
  destruct (wf_steps_step _ _ _ _ H) as [pool' [_ [_ Hrest]]].
  destruct rest as [|e rest']; [simpl; tauto|].
  change (last (c :: e :: rest') d) with (last (e :: rest') d).
  apply (IH _ Hrest). Qed.

Example wf_scheme_satisfiable :
  exists objs tg s, wf_scheme objs tg s = true /\ length s = 2 /\
    optimize_contractions 0%N objs tg None None = OScheme s 6%N.
Proof.
  (* Y_jb t_jkbc W_ikac -> ia  (tests/optimize_contractions_test.py: nested) *)
  pose (o := fun l => Idx Occ NoSpin l 0 0). pose (v := fun l => Idx Virt NoSpin l 0 0).
  exists [(NBase 0, [o 106; v 98]); (NBase 1, [o 106; o 107; v 98; v 99]);
          (NBase 2, [o 105; o 107; v 97; v 99])]%N, [o 105; v 97]%N.
  eexists. split; [|split]; [| |vm_compute; reflexivity]; vm_compute; reflexivity.
Qed.

(* ------------------------------------------------------------------ *)
(* statements on wf_scheme (wrappers of the pool lemmas) *)
Lemma wf_scheme_steps objs tg s : wf_scheme objs tg s = true -> wf_steps tg objs s = true.
Proof. unfold wf_scheme. rewrite !andb_true_iff. tauto. Qed.
Lemma wf_scheme_objects_once objs tg s : wf_scheme objs tg s = true ->
  Permutation (flat_map c_objs s) (objs ++ map result_obj (removelast s)).
Proof. intros H. exact (wf_steps_objects tg s objs (wf_scheme_steps _ _ _ H)). Qed.
Lemma wf_scheme_results_later objs tg s : wf_scheme objs tg s = true ->
  forall s1 c s2, s = s1 ++ c :: s2 ->
  forall o, In o (c_objs c) -> In o objs \/ In o (map result_obj s1).
Proof. intros H. exact (wf_steps_later tg s objs (wf_scheme_steps _ _ _ H)). Qed.
Lemma wf_scheme_index_once objs tg s : wf_scheme objs tg s = true ->
  forall x, icount x (flat_map c_contracted s) =
            if imem x (pool_idx objs) && negb (imem x tg) then 1 else 0.
Proof. intros H. exact (wf_steps_index_once tg s objs (wf_scheme_steps _ _ _ H)). Qed.
Lemma wf_scheme_last_target objs tg s : wf_scheme objs tg s = true ->
  s <> [] /\ forall d, c_target (last s d) = tg.
Proof. intros H. exact (wf_steps_last tg s objs (wf_scheme_steps _ _ _ H)). Qed.
Lemma wf_scheme_max_le_hyper objs tg s : wf_scheme objs tg s = true -> forallb scaling_ok s = true ->
  let h := s_comp (c_scaling (mk_contraction 0%N (map fst objs) (map snd objs) tg)) in
  forall k, k < 4 ->
  list_max (map (fun c => nth k (scomp_fields (s_comp (c_scaling c))) 0) s) <= nth k (scomp_fields h) 0 /\
  list_max (map (fun c => nth k (scomp_fields (s_mem (c_scaling c))) 0) s) <= nth k (scomp_fields h) 0.
Proof. intros H1 H2. exact (le_hyper_max objs tg s (wf_scheme_le_hyper_ objs tg s H1 H2)). Qed.

(* ------------------------------------------------------------------ *)
(* the canonical order is a total order: sorting is invariant under
   permutation *)
Lemma lex_cmp_antisym a b : lex_cmp b a = CompOpp (lex_cmp a b).
Proof. revert b; induction a as [|x a IH]; destruct b as [|y b]; simpl; auto.
  rewrite (N.compare_antisym x y). destruct (N.compare x y); simpl; auto. Qed.
Lemma lex_leb_total a b : lex_leb a b = false -> lex_leb b a = true.
Proof. unfold lex_leb. rewrite (lex_cmp_antisym a b). destruct (lex_cmp a b); simpl; congruence. Qed.
Lemma lex_leb_antisym a b : lex_leb a b = true -> lex_leb b a = true -> a = b.
Proof. unfold lex_leb. rewrite (lex_cmp_antisym a b). intros H1 H2. apply lex_cmp_eq.
  destruct (lex_cmp a b); simpl in *; congruence. Qed.
Lemma lex_leb_trans a b c : lex_leb a b = true -> lex_leb b c = true -> lex_leb a c = true.
Proof. unfold lex_leb. revert b c; induction a as [|x a IH]; intros [|y b] [|z c]; simpl; auto; try discriminate.
  destruct (N.compare_spec x y), (N.compare_spec y z), (N.compare_spec x z); subst;
    try lia; try discriminate; auto. apply IH. Qed.

Definition ile a b := idx_leb a b = true.
Lemma idx_leb_total a b : idx_leb a b = false -> idx_leb b a = true.
Proof. apply lex_leb_total. Qed.
Lemma idx_leb_antisym a b : idx_leb a b = true -> idx_leb b a = true -> a = b.
Proof. intros H1 H2. apply idx_key_inj. apply lex_leb_antisym; assumption. Qed.
Lemma idx_leb_trans a b c : idx_leb a b = true -> idx_leb b c = true -> idx_leb a c = true.
Proof. apply lex_leb_trans. Qed.

Lemma iinsert_comm x y l : iinsert x (iinsert y l) = iinsert y (iinsert x l).
Proof. induction l as [|z l IH]; simpl.
  - destruct (idx_leb x y) eqn:E1, (idx_leb y x) eqn:E2; auto.
    + rewrite (idx_leb_antisym _ _ E1 E2). reflexivity.
    + apply idx_leb_total in E1. congruence.
  - destruct (idx_leb y z) eqn:Ey, (idx_leb x z) eqn:Ex.
    + destruct (idx_leb x y) eqn:E1, (idx_leb y x) eqn:E2;
        repeat (simpl; rewrite ?Ey, ?Ex, ?E1, ?E2); auto.
      * rewrite (idx_leb_antisym _ _ E1 E2). reflexivity.
      * apply idx_leb_total in E1. congruence.
    + destruct (idx_leb x y) eqn:E1; [rewrite (idx_leb_trans _ _ _ E1 Ey) in Ex; discriminate|].
      repeat (simpl; rewrite ?Ey, ?Ex, ?E1). reflexivity.
    + destruct (idx_leb y x) eqn:E2; [rewrite (idx_leb_trans _ _ _ E2 Ex) in Ey; discriminate|].
      repeat (simpl; rewrite ?Ey, ?Ex, ?E2). reflexivity.
    + repeat (simpl; rewrite ?Ey, ?Ex). rewrite IH. reflexivity. Qed.
Lemma isort_perm_eq l1 l2 : Permutation l1 l2 -> isort l1 = isort l2.
Proof. induction 1; simpl; auto.
  - rewrite IHPermutation; reflexivity.
  - apply iinsert_comm.
  - congruence. Qed.

(* ------------------------------------------------------------------ *)
(* unoptimized_contraction is well-formed for consistent requests *)
Lemma NoDup_inodup_acc seen l : NoDup l -> (forall x, In x l -> ~ In x seen) -> inodup_acc seen l = l.
Proof. revert seen; induction l as [|y r IH]; intros seen Hnd Hd; simpl; [reflexivity|].
  inversion Hnd; subst. assert (E : imem y seen = false) by (apply imem_nIn; apply Hd; left; reflexivity).
  rewrite E. f_equal. apply IH; [assumption|]. intros x Hx [Hs|Hs]; [subst; contradiction|].
  apply (Hd x); [right; exact Hx|exact Hs]. Qed.
Lemma NoDup_inodupb l : NoDup l -> inodupb l = true.
Proof. intros H. unfold inodupb, inodup. rewrite NoDup_inodup_acc; [apply Nat.eqb_refl|exact H|auto]. Qed.

Lemma combine_fst_snd_map {A B} (l : list (A * B)) : combine (map fst l) (map snd l) = l.
Proof. induction l as [|[a b] r IH]; simpl; [reflexivity|rewrite IH; reflexivity]. Qed.
Lemma obj_eqb_refl o : obj_eqb o o = true.
Proof. apply obj_eqb_eq; reflexivity. Qed.
Lemma remove_objs_self l : remove_objs l l = Some [].
Proof. induction l as [|o r IH]; simpl; [reflexivity|]. rewrite obj_eqb_refl. exact IH. Qed.

Lemma forallb_intro {A} (f : A -> bool) l : (forall x, In x l -> f x = true) -> forallb f l = true.
Proof. intros H. apply forallb_forall; exact H. Qed.

Lemma unoptimized_wf_ cnt objs tg :
  forallb is_base objs = true -> NoDup tg ->
  (forall x, In x tg -> In x (pool_idx objs)) ->
  (forall x, icount x (pool_idx objs) = 1 -> In x tg) ->
  wf_scheme objs tg (unoptimized_contraction cnt objs tg) = true.
Proof.
  intros Hbase Hnd Hsub Hone. unfold wf_scheme, unoptimized_contraction.
  set (c := mk_contraction cnt (map fst objs) (map snd objs) tg).
  rewrite Hbase, (NoDup_inodupb tg Hnd), !andb_true_l.
  assert (Hall : concat (map snd objs) = pool_idx objs).
  { unfold pool_idx. rewrite flat_map_concat_map. reflexivity. }
  set (all := concat (map snd objs)) in *.
  set (keys := inodup all).
  set (f := is_target_idx all tg).
  assert (Hft : forall x, In x keys -> (f x = true <-> In x tg)).
  { intros x Hx. unfold f, is_target_idx. rewrite orb_true_iff, Nat.eqb_eq, imem_In. split.
    - intros [H|H]; [apply Hone; rewrite <- Hall; exact H|exact H].
    - auto. }
  assert (Hperm : Permutation tg (filter f keys)).
  { apply NoDup_Permutation; [exact Hnd|apply NoDup_filter, inodup_NoDup|].
    intros x. rewrite filter_In. split.
    - intros Hx. assert (Hk : In x keys) by (apply inodup_In; rewrite Hall; apply Hsub; exact Hx).
      split; [exact Hk|apply Hft; assumption].
    - intros [Hk Hf]. apply (Hft x Hk); exact Hf. }
  assert (Htgt : c_target c = tg).
  { unfold c, mk_contraction, split_ct; simpl. fold all keys f.
    rewrite (isort_perm_eq _ _ Hperm).
    assert (E : ilist_eqb (isort (filter f keys)) (isort (filter f keys)) = true) by (apply ilist_eqb_eq; reflexivity).
    rewrite E. reflexivity. }
  assert (Hcon : forall x, In x (c_contracted c) <-> In x all /\ ~ In x tg).
  { intros x. unfold c, mk_contraction, split_ct; simpl. fold all keys f.
    split.
    - intros Hx. apply (Permutation_in _ (isort_perm _)) in Hx. apply filter_In in Hx.
      destruct Hx as [Hk Hf]. split; [apply inodup_In; exact Hk|].
      apply negb_true_iff in Hf. intros Ht. apply (Hft x Hk) in Ht. congruence.
    - intros [Ha Hn]. apply (Permutation_in _ (Permutation_sym (isort_perm _))).
      apply filter_In. assert (Hk : In x keys) by (apply inodup_In; exact Ha). split; [exact Hk|].
      apply negb_true_iff. destruct (f x) eqn:E; [|reflexivity]. apply (Hft x Hk) in E. contradiction. }
  assert (HndC : NoDup (c_contracted c)).
  { unfold c, mk_contraction, split_ct; simpl.
    apply (Permutation_NoDup (Permutation_sym (isort_perm _))). apply NoDup_filter, inodup_NoDup. }
  assert (Hloc : step_local_ok c = true).
  { unfold step_local_ok. change (c_names c) with (map fst objs). change (c_idx c) with (map snd objs).
    fold all. rewrite !map_length, Nat.eqb_refl, (NoDup_inodupb _ HndC), Htgt, (NoDup_inodupb _ Hnd). simpl.
    rewrite !andb_true_iff. repeat split; apply forallb_intro; intros x Hx.
    - apply negb_true_iff, imem_nIn. apply Hcon in Hx. tauto.
    - apply orb_true_iff. rewrite !imem_In.
      destruct (imem x tg) eqn:E; [right; apply imem_In; exact E|left; apply Hcon; split; [exact Hx|apply imem_nIn; exact E]].
    - apply imem_In. apply Hcon in Hx. tauto.
    - apply imem_In. rewrite Hall. apply Hsub; exact Hx. }
  assert (Hobjs : c_objs c = objs).
  { unfold c_objs. change (c_names c) with (map fst objs). change (c_idx c) with (map snd objs).
    apply combine_fst_snd_map. }
  clearbody c. simpl wf_steps. rewrite Hobjs, remove_objs_self, Hloc. simpl.
  rewrite Htgt. assert (E : ilist_eqb tg tg = true) by (apply ilist_eqb_eq; reflexivity). rewrite E.
  rewrite !andb_true_r. apply forallb_intro. intros x Hx. apply Hcon in Hx.
  rewrite andb_true_r. apply negb_true_iff, imem_nIn. tauto.
Qed.
