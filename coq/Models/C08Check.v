(* C08 - boolean comparison of model outputs with the values observed from
   the implementation (used only by the per-run correspondence check; the
   cases are evaluated with vm_compute). *)
From Coq Require Import ZArith NArith List Bool.
From ADC Require Import Core.Index Core.Equiv Models.Substitution Models.Registry.
Import ListNotations.

Definition sub_eqb (a b : sub) := index_eqb (fst a) (fst b) && index_eqb (snd a) (snd b).
Definition subs_eqb : subs -> subs -> bool := list_eqb sub_eqb.
Definition names_eqb : list name -> list name -> bool := list_eqb name_eqb.

(* ----- compact encoding of maps over a fixed universe of indices ----- *)
(* code c < 100: the c-th index of the universe; code 100 + j: the j-th temporary *)
Definition dec (U : list index) (u0 : N) (c : nat) : index :=
  if Nat.ltb c 100 then nth c U (tmp 0) else tmp (u0 + N.of_nat (c - 100)).
Definition dec_subs U u0 (l : list (nat * nat)) : subs :=
  map (fun ab => (dec U u0 (fst ab), dec U u0 (snd ab))) l.
(* one case: the dict, the ordered list returned by the implementation, the
   images of the universe under the sequential application by sympy *)
Definition os_case := (list (nat * nat) * list (nat * nat) * list nat)%type.
Definition os_check (U : list index) (u0 : N) (c : os_case) : bool :=
  let m := dec_subs U u0 (fst (fst c)) in
  let l := order_substitutions u0 m in
  subs_eqb l (dec_subs U u0 (snd (fst c)))
  && idxl_eqb (map (subst_seq l) U) (map (dec U u0) (snd c))
  && idxl_eqb (map (subst_sim m) U) (map (dec U u0) (snd c)).
Fixpoint failing {A} (f : A -> bool) (l : list A) (pos : nat) : list nat :=
  match l with [] => [] | x :: r => if f x then failing f r (S pos) else pos :: failing f r (S pos) end.
Definition os_check_all U u0 (cs : list os_case) : list nat := failing (os_check U u0) cs 0.

(* ----- Container.permute ----- *)
(* perms, the dict handed to order_substitutions, the list it returned (temporaries renumbered
   from u0 in order of appearance), images of the listed indices under the sequential
   application of the transpositions *)
Definition permute_check (u0 : N) (perms dict ordered : subs) (ix imgs : list index) : bool :=
  subs_eqb (permute_map perms) dict
  && subs_eqb (permute_subs u0 perms) ordered
  && idxl_eqb (map (swaps_seq perms) ix) imgs
  && idxl_eqb (map (subst_seq (permute_subs u0 perms)) ix) imgs.

(* ----- get_lowest_avail_indices ----- *)
Definition lowest_check (n : nat) (used : list name) (sp : space) (expected : list name) : bool :=
  names_eqb (lowest_avail n used sp) expected.

(* ----- substitute_contracted ----- *)
Definition sc_check (u0 : N) (contracted tg : list index) (ordered : subs) : bool :=
  subs_eqb (sc_subs u0 contracted tg) ordered.
(* the independent statement of the clauses on an observed renaming (old -> new) of the
   contracted indices: keys are exactly the contracted indices, no target is hit, injective,
   sort preserving, new names = lowest unused names of each (space, spin) *)
Definition renaming_ok (contracted tg : list index) (ren : subs) : bool :=
  idxl_eqb (map fst ren) contracted
  && forallb (fun kv => negb (imem (snd kv) tg) && same_sort (fst kv) (snd kv)) ren
  && idxl_eqb (inodup (map snd ren)) (map snd ren).
Definition lowest_ok (contracted tg : list index) (ren : subs) : bool :=
  forallb (fun g =>
     let k := fst g in
     idxl_eqb (map (subst_sim ren) (snd g))
              (map (reg_index k) (lowest_avail (length (snd g)) (used_names tg k) (fst k))))
    (group_by_sort contracted).

(* ----- minimize_tensor_indices ----- *)
(* Permutation(p, q) stores the pair in canonical order: compare as unordered pairs *)
Definition perm_eqb (a b : sub) : bool :=
  sub_eqb a b || sub_eqb a (snd b, fst b).
Definition minimize_check (ix : list index) (tgn : list (sort * list name))
           (out : list index) (perms : subs) : bool :=
  let r := minimize_tensor_indices ix tgn in
  idxl_eqb (fst r) out && list_eqb perm_eqb (snd r) perms.

(* ----- registry ----- *)
Definition sortname_eqb (a b : sort * name) := sort_eqb (fst a) (fst b) && name_eqb (snd a) (snd b).
Definition entry_eqb (a b : entry) := sortname_eqb (fst a) (fst b) && N.eqb (snd a) (snd b).
Definition ret_eqb : retdict -> retdict -> bool :=
  list_eqb (fun a b => sort_eqb (fst a) (fst b) && list_eqb entry_eqb (snd a) (snd b)).
Definition out_eqb (a b : out) : bool :=
  match a, b with
  | ORet r, ORet s => ret_eqb r s
  | OList l, OList k => list_eqb entry_eqb l k
  | OErr, OErr => true
  | _, _ => false
  end.
Definition snap1 := (list (name * N) * list name * N)%type.
Definition snap1_eqb (a b : snap1) : bool :=
  list_eqb (fun x y => name_eqb (fst x) (fst y) && N.eqb (snd x) (snd y)) (fst (fst a)) (fst (fst b))
  && names_eqb (snd (fst a)) (snd (fst b)) && N.eqb (snd a) (snd b).
Definition snap_eqb : list snap1 -> list snap1 -> bool := list_eqb snap1_eqb.
Definition gc_eqb : list (list name * N) -> list (list name * N) -> bool :=
  list_eqb (fun a b => names_eqb (fst a) (fst b) && N.eqb (snd a) (snd b)).
Definition obs_eqb (a b : out * list (list name * N)) := out_eqb (fst a) (fst b) && gc_eqb (snd a) (snd b).
(* positions of the operations whose output or resulting generic lists / counters differ *)
Fixpoint mismatches (a b : list (out * list (list name * N))) (pos : nat) : list nat :=
  match a, b with
  | [], [] => []
  | x :: r, y :: s => if obs_eqb x y then mismatches r s (S pos) else pos :: mismatches r s (S pos)
  | _, _ => [pos]
  end.
(* [] = the model reproduces every output, every intermediate generic list and counter and
   the final symbol tables; a mismatch of the final tables is reported as position |ops| *)
Definition trace_check (st : state) (ops : list op) (expected : list (out * list (list name * N)))
           (final : list snap1) : list nat :=
  let (t, fin) := trace ops st in
  mismatches t expected 0 ++ (if snap_eqb (snapshot fin) final then [] else [length ops]).
