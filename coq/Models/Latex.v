(* C18 - model of adcgen's LaTeX importer (func.py:49-273,
   import_from_sympy_latex and its helpers, indices.py split_idx_string /
   get_symbols / index_space, tensor_names.py map_default_name /
   is_t_amplitude / is_adc_amplitude) and of the printers (_latex methods of
   Index, tensors, KroneckerDelta, F/Fd/NO and the fragment of sympy's LaTeX
   layout the library relies on).

   Strings are [list ascii]; every Python string operation used by the importer
   is mirrored by a total function ([None] = the Python code raises).
   The result of the importer is the tree of constructor calls it makes
   (before sympy evaluates them): that is what the harness compares with the
   implementation. *)
From Coq Require Import Ascii String.
From Coq Require Import List Bool Arith NArith ZArith Lia.
From Coq Require Decimal DecimalString DecimalN DecimalPos.
From ADC Require Import Core.Index Core.Expr Core.Equiv.
Import ListNotations.
Local Open Scope char_scope.
Local Open Scope list_scope.

Definition str := list ascii.
Definition L (s : string) : str := list_ascii_of_string s.

(* ------------------------------------------------------------------ *)
(* option monad                                                        *)
Definition obind {A B} (o : option A) (f : A -> option B) : option B :=
  match o with Some x => f x | None => None end.
Notation "x <- e1 ;; e2" := (obind e1 (fun x => e2))
  (at level 61, e1 at next level, right associativity).
Fixpoint omap {A B} (f : A -> option B) (l : list A) : option (list B) :=
  match l with
  | [] => Some []
  | x :: r => y <- f x ;; ys <- omap f r ;; Some (y :: ys)
  end.

(* ------------------------------------------------------------------ *)
(* characters and Python string primitives                              *)
Definition ceqb := Ascii.eqb.
Fixpoint str_eqb (a b : str) : bool :=
  match a, b with
  | [], [] => true
  | x :: a', y :: b' => ceqb x y && str_eqb a' b'
  | _, _ => false
  end.
Definition is_digit (c : ascii) : bool :=
  let n := nat_of_ascii c in (48 <=? n)%nat && (n <=? 57)%nat.
Definition is_upper (c : ascii) : bool :=
  let n := nat_of_ascii c in (65 <=? n)%nat && (n <=? 90)%nat.
Definition is_lower (c : ascii) : bool :=
  let n := nat_of_ascii c in (97 <=? n)%nat && (n <=? 122)%nat.
Definition is_letter c := is_upper c || is_lower c.
(* str.strip()/split() whitespace restricted to ASCII: 9-13, 28-32 *)
Definition is_ws (c : ascii) : bool :=
  let n := nat_of_ascii c in
  ((9 <=? n)%nat && (n <=? 13)%nat) || ((28 <=? n)%nat && (n <=? 32)%nat).
Definition cmem (c : ascii) (l : str) : bool := existsb (ceqb c) l.

Fixpoint lstrip_by (p : ascii -> bool) (s : str) : str :=
  match s with c :: r => if p c then lstrip_by p r else s | [] => [] end.
Definition rstrip_by p (s : str) : str := rev (lstrip_by p (rev s)).
Definition strip (s : str) : str := rstrip_by is_ws (lstrip_by is_ws s).

Fixpoint prefixb (p s : str) : bool :=         (* s.startswith(p) *)
  match p, s with
  | [], _ => true
  | x :: p', y :: s' => ceqb x y && prefixb p' s'
  | _ :: _, [] => false
  end.
(* first occurrence of a (non-empty) separator: (before, after) *)
Fixpoint find_sub (sep s : str) : option (str * str) :=
  if prefixb sep s then Some ([], skipn (length sep) s) else
  match s with
  | [] => None
  | c :: r => match find_sub sep r with
              | Some (a, b) => Some (c :: a, b)
              | None => None
              end
  end.
(* s.replace(sep, "", 1) *)
Definition remove_first (sep s : str) : str :=
  match find_sub sep s with Some (a, b) => a ++ b | None => s end.
(* a, b = s.split(sep)  (exactly two parts, else ValueError) *)
Definition split2 (sep s : str) : option (str * str) :=
  match find_sub sep s with
  | Some (a, b) => match find_sub sep b with None => Some (a, b) | Some _ => None end
  | None => None
  end.
(* a, b = s.rsplit(sep, 1)  (sep must occur, else ValueError) *)
Definition rsplit1 (sep s : str) : option (str * str) :=
  match find_sub (rev sep) (rev s) with
  | Some (b, a) => Some (rev a, rev b)
  | None => None
  end.
Definition contains (sep s : str) : bool :=
  match find_sub sep s with Some _ => true | None => false end.
(* s.split(c) for a single character *)
Fixpoint split_char (c : ascii) (s : str) : list str :=
  match s with
  | [] => [[]]
  | x :: r => if ceqb x c then [] :: split_char c r
              else match split_char c r with
                   | h :: t => (x :: h) :: t
                   | [] => [[x]]
                   end
  end.
(* "".join(s.split()) : remove all whitespace *)
Definition remove_ws (s : str) : str := filter (fun c => negb (is_ws c)) s.
Definition last_char (s : str) : option ascii :=
  match rev s with c :: _ => Some c | [] => None end.

(* ------------------------------------------------------------------ *)
(* numbers: str.isnumeric (ASCII), int()                                *)
Definition isnumeric (s : str) : bool :=
  match s with [] => false | _ => forallb is_digit s end.
Definition parse_N (s : str) : option N :=
  if isnumeric s then
    match DecimalString.NilEmpty.uint_of_string (string_of_list_ascii s) with
    | Some d => Some (N.of_uint d)
    | None => None
    end
  else None.
(* int literal grammar of Python's int(): single underscores between digits *)
Fixpoint underscores_ok (prev_digit : bool) (s : str) : bool :=
  match s with
  | [] => prev_digit
  | c :: r => if is_digit c then underscores_ok true r
              else if ceqb c "_" then prev_digit && underscores_ok false r
              else false
  end.
Definition py_nat (s : str) : option N :=
  if underscores_ok false s then parse_N (filter (fun c => negb (ceqb c "_")) s)
  else None.
Definition py_int (s : str) : option Z :=
  match strip s with
  | "-" :: r => n <- py_nat r ;; Some (Z.opp (Z.of_N n))
  | "+" :: r => n <- py_nat r ;; Some (Z.of_N n)
  | r => n <- py_nat r ;; Some (Z.of_N n)
  end.
Definition print_N (n : N) : str := L (DecimalString.NilEmpty.string_of_uint (N.to_uint n)).
Definition print_Z (z : Z) : str :=
  if (z <? 0)%Z then "-" :: print_N (Z.abs_N z) else print_N (Z.to_N z).

(* ------------------------------------------------------------------ *)
(* the bracket stack of split_terms / import_term / import_tensor       *)
(* Every loop of the importer walks over the characters with a stack:
     '{' (and '(' where [paren]) push, '}' / ')' pop and assert the match,
   and tests for separators only `elif ... and not stack`.  [marks] computes,
   for every character, whether that test can fire ([MTop]: not a bracket and
   the stack is empty), cannot ([MIn]) or whether the loop has raised at or
   before this character ([MErr]: pop from empty stack / failed assert).
   The individual loops are then functions of the marked string. *)
Inductive mark := MTop | MIn | MErr.
Definition is_open (paren : bool) (c : ascii) := ceqb c "{" || (paren && ceqb c "(").
Definition is_close (paren : bool) (c : ascii) := ceqb c "}" || (paren && ceqb c ")").
Definition matching (o c : ascii) :=
  (ceqb o "{" && ceqb c "}") || (ceqb o "(" && ceqb c ")").
Fixpoint marks (paren : bool) (st : str) (s : str) : list (ascii * mark) :=
  match s with
  | [] => []
  | c :: r =>
    if is_open paren c then (c, MIn) :: marks paren (c :: st) r
    else if is_close paren c then
      match st with
      | o :: st' => if matching o c then (c, MIn) :: marks paren st' r
                    else map (fun x => (x, MErr)) s
      | [] => map (fun x => (x, MErr)) s
      end
    else (c, match st with [] => MTop | _ => MIn end) :: marks paren st r
  end.
Definition is_top (m : mark) := match m with MTop => true | _ => false end.
Definition is_err (m : mark) := match m with MErr => true | _ => false end.
Definition cons_head {A} (c : A) (ps : list (list A)) : list (list A) :=
  match ps with p :: r => (c :: p) :: r | [] => [[c]] end.

Definition is_pm (c : ascii) := ceqb c "+" || ceqb c "-".

(* split_terms (func.py:202-218): cut before a top-level sign unless the
   current piece is empty; the sign starts the next piece *)
Fixpoint split_terms_m (ne : bool) (m : list (ascii * mark)) : option (list str) :=
  match m with
  | [] => Some [[]]
  | (c, mk) :: r =>
    if is_err mk then None
    else if is_pm c && is_top mk && ne then
      ps <- split_terms_m true r ;; Some ([] :: cons_head c ps)
    else ps <- split_terms_m true r ;; Some (cons_head c ps)
  end.
Definition split_terms (s : str) : option (list str) :=
  split_terms_m false (marks true [] s).

(* the loop of import_term (func.py:220-244): [None] raise, [Some None] a
   top-level sign was met -> the whole string is imported as an expression,
   [Some (Some objs)] the objects split at top-level blanks *)
Fixpoint term_objs_m (ne : bool) (m : list (ascii * mark)) : option (option (list str)) :=
  match m with
  | [] => Some (Some [[]])
  | (c, mk) :: r =>
    if is_err mk then None
    else if is_pm c && is_top mk then Some None
    else if ceqb c " " && is_top mk && ne then
      match term_objs_m false r with
      | Some (Some ps) => Some (Some ([] :: ps))
      | x => x
      end
    else
      match term_objs_m true r with
      | Some (Some ps) => Some (Some (cons_head c ps))
      | x => x
      end
  end.
Definition term_objs (s : str) := term_objs_m false (marks true [] s).

(* first top-level '^' of import_tensor (func.py:85-100): (base, exponent) *)
Fixpoint find_hat_m (m : list (ascii * mark)) : option (option (str * str)) :=
  match m with
  | [] => Some None
  | (c, mk) :: r =>
    if is_err mk then None
    else if ceqb c "^" && is_top mk then Some (Some ([], map fst r))
    else match find_hat_m r with
         | Some (Some (a, b)) => Some (Some (c :: a, b))
         | x => x
         end
  end.
Definition find_hat (s : str) := find_hat_m (marks false [] s).

(* components of a tensor string (func.py:108-122): cut at every top-level
   '^' or '_' (dropped); the last piece only `if temp` *)
Fixpoint components_m (m : list (ascii * mark)) : option (list str) :=
  match m with
  | [] => Some [[]]
  | (c, mk) :: r =>
    if is_err mk then None
    else if (ceqb c "^" || ceqb c "_") && is_top mk then
      ps <- components_m r ;; Some ([] :: ps)
    else ps <- components_m r ;; Some (cons_head c ps)
  end.
Definition drop_last_empty (ps : list str) : list str :=
  match rev ps with [] :: r => rev r | _ => ps end.
Definition components (s : str) : option (list str) :=
  ps <- components_m (marks false [] s) ;; Some (drop_last_empty ps).

(* ------------------------------------------------------------------ *)
(* indices                                                              *)
Record lidx := LIdx { lletter : ascii; ldigits : str; lspin : spin }.

Definition occ_letters := L "ijklmno".
Definition virt_letters := L "abcdefgh".
Definition gen_letters := L "pqrstuvw".
Definition is_idx_letter (c : ascii) : bool :=
  cmem c occ_letters || cmem c virt_letters || cmem c gen_letters.
Definition letter_space (c : ascii) : option space :=      (* index_space *)
  if cmem c occ_letters then Some Occ else if cmem c virt_letters then Some Virt
  else if cmem c gen_letters then Some Gen else None.

(* split_idx_string (indices.py:263-279) *)
Fixpoint split_idx (s : str) : list str :=
  match s with
  | [] => []
  | c :: r =>
    match r with
    | d :: _ => if is_digit d
                then match split_idx r with h :: t => (c :: h) :: t | [] => [[c]] end
                else [c] :: split_idx r
    | [] => [[c]]
    end
  end.
(* Indices().get_indices for one name: index_space(name) must succeed *)
Definition mk_idx (sp : spin) (name : str) : option lidx :=
  match name with
  | c :: ds => if is_idx_letter c then Some (LIdx c ds sp) else None
  | [] => None
  end.
(* get_symbols(str) without spins *)
Definition get_symbols (s : str) : option (list lidx) := omap (mk_idx NoSpin) (split_idx s).
(* get_symbols(name, spin[0]) : one spin letter, hence exactly one name *)
Definition get_symbols_spin (name : str) (sp : spin) : option (list lidx) :=
  match split_idx name with
  | [] => Some []                      (* `if not indices: return []` *)
  | [n] => i <- mk_idx sp n ;; Some [i]
  | _ => None                          (* len(indices) != len(spins) *)
  end.

Definition spin_sep := L "_{\".
(* one piece of indices.split("}") (func.py:68-80) *)
Definition import_sub (sub : str) : option (list lidx) :=
  match sub with
  | [] => Some []
  | _ =>
    if contains spin_sep sub then
      ns <- split2 spin_sep sub ;;
      let '(names, spin) := ns in
      sp <- (if str_eqb spin (L "alpha") then Some Alpha
             else if str_eqb spin (L "beta") then Some Beta else None) ;;
      match rev (split_idx names) with
      | [] => None                                  (* names[-1] *)
      | lst :: init_rev =>
        a <- omap (mk_idx NoSpin) (rev init_rev) ;;
        b <- get_symbols_spin lst sp ;;
        Some (a ++ b)
      end
    else get_symbols sub
  end.
Definition import_indices (s : str) : option (list lidx) :=
  parts <- omap import_sub (split_char "}" s) ;; Some (concat parts).

(* ------------------------------------------------------------------ *)
(* tensor names (tensor_names.py)                                       *)
Record names := Names {
  n_eri : str; n_coulomb : str; n_fock : str; n_operator : str;
  n_gs_amplitude : str; n_gs_density : str; n_left : str; n_right : str;
  n_orb_energy : str; n_sym_orb_denom : str }.
Definition default_names : names :=
  Names (L "V") (L "v") (L "f") (L "d") (L "t") (L "p") (L "X") (L "Y") (L "e") (L "D").
Definition fields (c : names) : list str :=
  [n_eri c; n_coulomb c; n_fock c; n_operator c; n_gs_amplitude c; n_gs_density c;
   n_left c; n_right c; n_orb_energy c; n_sym_orb_denom c].
Definition no_c (s : str) : str := filter (fun c => negb (ceqb c "c")) s.

Definition is_t_amplitude (c : names) (name : str) : bool :=
  let n := length (n_gs_amplitude c) in
  let base := firstn n name in
  let order := no_c (skipn n name) in
  match order with
  | [] => str_eqb base (n_gs_amplitude c)
  | _ => str_eqb base (n_gs_amplitude c) && isnumeric order
  end.
Definition is_adc_amplitude (c : names) (name : str) : bool :=
  str_eqb name (n_left c) || str_eqb name (n_right c).

(* the kind dispatch of import_tensor for a name with upper and lower indices
   (func.py:150-163): amplitudes, Coulomb integrals, symbolic orbital-energy
   denominators (SymmetricTensor, as EriOrbenergy.symbolic_denominator builds
   them), everything else AntiSymmetricTensor *)
Definition kind_of_name (c : names) (name : str) : kind :=
  if is_adc_amplitude c name || is_t_amplitude c name then KAmp
  else if str_eqb name (n_coulomb c) then KSym
  else if str_eqb name (n_sym_orb_denom c) then KSym
  else KAnti.

(* _split_default_t_amplitude / _split_default_gs_density / map_default_name *)
Definition split_default (dflt : str) (allow_c : bool) (name : str) : option str :=
  let n := length dflt in
  let base := firstn n name in
  let ext := skipn n name in
  let order := if allow_c then no_c ext else ext in
  if negb (str_eqb base dflt) then None
  else match order with
       | [] => Some ext
       | _ => if isnumeric order then Some ext else None
       end.
Fixpoint lookup_default (ds vs : list str) (name : str) : option str :=
  match ds, vs with
  | d :: ds', v :: vs' => if str_eqb d name then Some v else lookup_default ds' vs' name
  | _, _ => None
  end.
Definition map_default_name (c : names) (name : str) : str :=
  match split_default (n_gs_amplitude default_names) true name with
  | Some ext => n_gs_amplitude c ++ ext
  | None =>
    match split_default (n_gs_density default_names) false name with
    | Some ext => n_gs_density c ++ ext
    | None => match lookup_default (fields default_names) (fields c) name with
              | Some v => v
              | None => name
              end
    end
  end.

(* ------------------------------------------------------------------ *)
(* the imported / printed structure                                     *)
Inductive base :=
| BTens (k : kind) (name : str) (bks : Z) (up lo : list lidx)
    (* Amplitude / SymmetricTensor / AntiSymmetricTensor (name, upper, lower) *)
| BNonSym (name : str) (ix : list lidx)
| BSymb (name : str)
| BOp (create : bool) (i : lidx).                 (* Fd / F *)

Inductive obj :=
| OInt (n : N)                                    (* int(obj_str) *)
| OSqrt (n : Z)                                   (* sqrt(int(..)) *)
| ODelta (i j : lidx)
| OPow (b : base) (e : Z)                         (* Pow(base, exponent) *)
| OBrack (ts : list term) (e : Z)                 (* Pow(import(..).sympy, exponent) *)
| ONO (ts : list term)                            (* NO(import(..).sympy) *)
with term :=
| Term (neg : bool) (num : body) (den : option body)
with body :=
| BObjs (os : list obj)                           (* Mul of import_obj(o) for o in objects *)
| BSum (ts : list term).                          (* import_from_sympy_latex(term).sympy *)
Definition expr := list term.

(* ------------------------------------------------------------------ *)
(* the importer                                                         *)
Section Importer.
Variable cfg : names.
Variable convert : bool.                          (* convert_default_names *)

Definition strip_layer (s : str) : option str :=  (* func.py:104-107, 133-138 *)
  match s with
  | [] => None                                    (* s[0] *)
  | c :: r =>
    let s1 := if ceqb c "{" then r else s in
    match last_char s1 with
    | None => None                                (* s[-1] *)
    | Some l => Some (if ceqb l "}" then removelast s1 else s1)
    end
  end.

Definition one_idx (l : option (list lidx)) : option lidx :=
  match l with Some [i] => Some i | _ => None end.

Definition dispatch (name : str) (ixs : list str) : option base :=
  match ixs with
  | [] => Some (BSymb name)
  | _ =>
    if str_eqb name (L "a") then
      match ixs with
      | [d; i] => if str_eqb d (L "\dagger")
                  then x <- one_idx (import_indices i) ;; Some (BOp true x)
                  else None
      | [i] => x <- one_idx (import_indices i) ;; Some (BOp false x)
      | _ => None
      end
    else
      match ixs with
      | [u; l] => up <- import_indices u ;; lo <- import_indices l ;;
                  Some (BTens (kind_of_name cfg name) name 0 up lo)
      | [i] => ix <- import_indices i ;; Some (BNonSym name ix)
      | _ => None
      end
  end.

Definition import_tensor (t : str) : option obj :=
  fh <- find_hat t ;;
  let '(b, oe) := match fh with
                  | None => (t, Some 1%Z)
                  | Some (b, ex) =>
                    (b, py_int (rstrip_by (ceqb "}") (lstrip_by (ceqb "{") ex)))
                  end in
  e <- oe ;;
  b1 <- strip_layer b ;;
  comps <- components b1 ;;
  match comps with
  | [] => None                                    (* components[0] *)
  | name :: ixs =>
    let name := if convert then map_default_name cfg name else name in
    ixs' <- omap strip_layer ixs ;;
    bs <- dispatch name ixs' ;;
    Some (OPow bs e)
  end.

Definition import_obj (rec : str -> option expr) (o : str) : option obj :=
  if isnumeric o then n <- parse_N o ;; Some (OInt n)
  else if prefixb (L "\sqrt{") o then
    n <- py_int (remove_first (L "\sqrt{") (removelast o)) ;; Some (OSqrt n)
  else if prefixb (L "\delta_") o then
    ix <- import_indices (remove_ws (remove_first (L "\delta_{") (removelast o))) ;;
    match ix with [i; j] => Some (ODelta i j) | _ => None end
  else if prefixb (L "\left(") o then
    be <- rsplit1 (L "\right)") o ;;
    let '(b, ex) := be in
    e <- (match ex with
          | [] => Some 1%Z
          | _ => py_int (lstrip_by (fun c => ceqb c "^" || ceqb c "{") (removelast ex))
          end) ;;
    ts <- rec (remove_first (L "\left(") b) ;;
    Some (OBrack ts e)
  else if prefixb (L "\left\{") o then
    be <- rsplit1 (L "\right\}") o ;;
    let '(b, rest) := be in
    match rest with
    | [] => ts <- rec (remove_first (L "\left\{") b) ;; Some (ONO ts)
    | _ => None
    end
  else import_tensor o.

Definition import_term (rec : str -> option expr) (s : str) : option body :=
  match term_objs s with
  | None => None
  | Some None => ts <- rec s ;; Some (BSum ts)
  | Some (Some objs) => os <- omap (import_obj rec) objs ;; Some (BObjs os)
  end.

(* one element of `terms` (func.py:255-272) *)
Definition import_signed (rec : str -> option expr) (t : str) : option term :=
  match t with
  | [] => None                                    (* term[0] *)
  | sg :: r =>
    if negb (is_pm sg) then None else
    let neg := ceqb sg "-" in
    let t1 := strip r in
    if prefixb (L "\frac") t1 then
      nd <- split2 (L "}{") (remove_first (L "\frac{") (removelast t1)) ;;
      let '(nu, de) := nd in
      n <- import_term rec nu ;; d <- import_term rec de ;;
      Some (Term neg n (Some d))
    else n <- import_term rec t1 ;; Some (Term neg n None)
  end.

Definition add_plus (ts : list str) : option (list str) :=   (* func.py:251-252 *)
  match ts with
  | [] => None
  | [] :: _ => None                               (* terms[0][0] *)
  | (c :: t) :: r => if is_pm c then Some ts else Some ((L "+ " ++ c :: t) :: r)
  end.

Definition import_top (rec : str -> option expr) (s : str) : option expr :=
  let s := strip s in
  match s with
  | [] => Some []
  | _ => ts <- split_terms s ;; ts' <- add_plus ts ;; omap (import_signed rec) ts'
  end.

Fixpoint import_expr (fuel : nat) (s : str) : option expr :=
  match fuel with
  | O => None
  | S f => import_top (import_expr f) s
  end.
End Importer.

(* every recursive call is on a strictly shorter string *)
Definition import_model (cfg : names) (convert : bool) (s : string) : option expr :=
  let l := L s in import_expr cfg convert (S (length l)) l.

(* ------------------------------------------------------------------ *)
(* the printer: Index._latex, tensor/delta _latex, F/Fd/NO _latex and the
   layout of sympy's _print_Add / _print_Mul / _print_Pow for the fragment;
   the order of terms and factors is the order of the lists *)
Definition print_spin (s : spin) : str :=
  match s with NoSpin => [] | Alpha => L "_{\alpha}" | Beta => L "_{\beta}" end.
Definition print_idx (i : lidx) : str := lletter i :: ldigits i ++ print_spin (lspin i).
Definition print_idxs (l : list lidx) : str := flat_map print_idx l.
Definition print_base (b : base) : str :=
  match b with
  | BTens _ name _ up lo =>
      "{" :: name ++ L "^{" ++ print_idxs up ++ L "}_{" ++ print_idxs lo ++ L "}}"
  | BNonSym name ix => "{" :: name ++ L "_{" ++ print_idxs ix ++ L "}}"
  | BSymb name => name
  | BOp true i => L "{a^\dagger_{" ++ print_idx i ++ L "}}"
  | BOp false i => L "a_{" ++ print_idx i ++ L "}"
  end.
Definition print_pow (s : str) (e : Z) : str :=
  if (e =? 1)%Z then s else s ++ L "^{" ++ print_Z e ++ L "}".
Fixpoint join_sp (l : list str) : str :=
  match l with
  | [] => []
  | [x] => x
  | x :: r => x ++ " " :: join_sp r
  end.
Definition sign_first (neg : bool) : str := if neg then L "- " else [].
Definition sign_next (neg : bool) : str := if neg then L " - " else L " + ".

Definition neg_of (t : term) : bool := match t with Term n _ _ => n end.
Definition print_tail (pa : term -> str) : list term -> str :=
  fix go (l : list term) : str :=
  match l with
  | [] => []
  | t :: l' => sign_next (neg_of t) ++ pa t ++ go l'
  end.
Definition print_terms_with (pa : term -> str) (ts : list term) : str :=
  match ts with
  | [] => []
  | t :: r => sign_first (neg_of t) ++ pa t ++ print_tail pa r
  end.

Fixpoint print_obj (o : obj) : str :=
  match o with
  | OInt n => print_N n
  | OSqrt n => L "\sqrt{" ++ print_Z n ++ L "}"
  | ODelta i j => L "\delta_{" ++ print_idx i ++ " " :: print_idx j ++ L "}"
  | OPow b e => print_pow (print_base b) e
  | OBrack ts e => print_pow (L "\left(" ++ print_terms_with print_abs ts ++ L "\right)") e
  | ONO ts => L "\left\{" ++ print_terms_with print_abs ts ++ L "\right\}"
  end
with print_abs (t : term) : str :=
  match t with
  | Term _ num None => print_body num
  | Term _ num (Some d) => L "\frac{" ++ print_body num ++ L "}{" ++ print_body d ++ L "}"
  end
with print_body (b : body) : str :=
  match b with
  | BObjs os => join_sp (map print_obj os)
  | BSum ts => print_terms_with print_abs ts
  end.
Definition print_terms := print_terms_with print_abs.
Definition print_expr (e : expr) : str := print_terms e.
Definition print_model (e : expr) : string := string_of_list_ascii (print_expr e).

(* ------------------------------------------------------------------ *)
(* what the importer cannot see: the tensor class is chosen by the name and
   the bra-ket symmetry is not printed *)
Section Forget.
Variable cfg : names.
Definition forget_base (b : base) : base :=
  match b with
  | BTens _ name _ up lo => BTens (kind_of_name cfg name) name 0 up lo
  | _ => b
  end.
Fixpoint forget_obj (o : obj) : obj :=
  match o with
  | OPow b e => OPow (forget_base b) e
  | OBrack ts e => OBrack (map forget_term ts) e
  | ONO ts => ONO (map forget_term ts)
  | _ => o
  end
with forget_term (t : term) : term :=
  match t with
  | Term neg num den =>
    Term neg (forget_body num) (match den with Some d => Some (forget_body d) | None => None end)
  end
with forget_body (b : body) : body :=
  match b with
  | BObjs os => BObjs (map forget_obj os)
  | BSum ts => BSum (map forget_term ts)
  end.
Definition forget (e : expr) : expr := map forget_term e.

(* Expr(imported, sym_tensors=.., antisym_tensors=..): Obj._apply_tensor_braket_sym
   sets bra_ket_sym by name on every AntiSymmetricTensor instance *)
Variables sym antisym : list str.
Definition smem (n : str) (l : list str) := existsb (str_eqb n) l.
Definition reapply_base (b : base) : base :=
  match b with
  | BTens k name bks up lo =>
    BTens k name (if smem name sym then 1 else if smem name antisym then (-1) else bks)%Z up lo
  | _ => b
  end.
Fixpoint reapply_obj (o : obj) : obj :=
  match o with
  | OPow b e => OPow (reapply_base b) e
  | OBrack ts e => OBrack (map reapply_term ts) e
  | ONO ts => ONO (map reapply_term ts)
  | _ => o
  end
with reapply_term (t : term) : term :=
  match t with
  | Term neg num den =>
    Term neg (reapply_body num) (match den with Some d => Some (reapply_body d) | None => None end)
  end
with reapply_body (b : body) : body :=
  match b with
  | BObjs os => BObjs (map reapply_obj os)
  | BSum ts => BSum (map reapply_term ts)
  end.
Definition reapply (e : expr) : expr := map reapply_term e.
End Forget.

(* the tensor classes / bra-ket symmetries occurring in an expression *)
Definition base_kinds (b : base) : list (str * kind * Z) :=
  match b with BTens k n bks _ _ => [(n, k, bks)] | _ => [] end.
Fixpoint obj_kinds (o : obj) : list (str * kind * Z) :=
  match o with
  | OPow b _ => base_kinds b
  | OBrack ts _ => flat_map term_kinds ts
  | ONO ts => flat_map term_kinds ts
  | _ => []
  end
with term_kinds (t : term) : list (str * kind * Z) :=
  match t with
  | Term _ num den => body_kinds num ++ match den with Some d => body_kinds d | None => [] end
  end
with body_kinds (b : body) : list (str * kind * Z) :=
  match b with
  | BObjs os => flat_map obj_kinds os
  | BSum ts => flat_map term_kinds ts
  end.
Definition expr_kinds (e : expr) := flat_map term_kinds e.

(* ------------------------------------------------------------------ *)
(* the fragment for which the round trip is proved (LatexProofs.v)        *)
Definition name_char (c : ascii) := is_letter c || is_digit c.
Definition nonempty {A} (l : list A) := match l with [] => false | _ => true end.
Definition wf_tname (n : str) : bool :=
  nonempty n && forallb name_char n && negb (str_eqb n (L "a")).
Definition wf_sname (n : str) : bool := nonempty n && forallb is_letter n.
Definition wf_idx (i : lidx) : bool :=
  is_idx_letter (lletter i) && forallb is_digit (ldigits i).
Definition wf_base (b : base) : bool :=
  match b with
  | BTens _ n _ u l => wf_tname n && forallb wf_idx u && forallb wf_idx l
  | BNonSym n ix => wf_tname n && forallb wf_idx ix
  | BSymb n => wf_sname n
  | BOp _ i => wf_idx i
  end.
(* no \frac anywhere inside *)
Fixpoint nofrac_obj (o : obj) : bool :=
  match o with
  | OBrack ts _ => forallb nofrac_term ts
  | ONO ts => forallb nofrac_term ts
  | _ => true
  end
with nofrac_term (t : term) : bool :=
  match t with
  | Term _ num None => nofrac_body num
  | Term _ _ (Some _) => false
  end
with nofrac_body (b : body) : bool :=
  match b with
  | BObjs os => forallb nofrac_obj os
  | BSum ts => forallb nofrac_term ts
  end.
Definition sum_shape (ts : list term) : bool :=
  match ts with
  | [] => false
  | [t] => neg_of t
  | _ => true
  end.
Fixpoint wf_obj (o : obj) : bool :=
  match o with
  | OInt _ => true
  | OSqrt _ => true
  | ODelta i j => wf_idx i && wf_idx j
  | OPow b _ => wf_base b
  | OBrack ts _ => forallb wf_term ts
  | ONO ts => forallb wf_term ts
  end
with wf_term (t : term) : bool :=
  match t with
  | Term _ (BObjs os) None => nonempty os && forallb wf_obj os
  | Term _ (BSum _) None => false            (* would print as several terms *)
  | Term _ num (Some d) =>
    wf_fbody num && wf_fbody d && nofrac_body num && nofrac_body d
  end
with wf_fbody (b : body) : bool :=           (* numerator / denominator of \frac *)
  match b with
  | BObjs os => nonempty os && forallb wf_obj os
  | BSum ts => sum_shape ts && forallb wf_term ts
  end.
Definition wf_expr (e : expr) : bool := forallb wf_term e.

(* the classes and bra-ket symmetries are those the names / assumptions give *)
Section Consistent.
Variable cfg : names.
Variables sym antisym : list str.
Definition bks_of_name (n : str) : Z :=
  if smem n sym then 1%Z else if smem n antisym then (-1)%Z else 0%Z.
Definition cons_base (b : base) : bool :=
  match b with
  | BTens k n bks _ _ =>
    N.eqb (Equiv.kind_code k) (Equiv.kind_code (kind_of_name cfg n)) && Z.eqb bks (bks_of_name n)
  | _ => true
  end.
Fixpoint cons_obj (o : obj) : bool :=
  match o with
  | OPow b _ => cons_base b
  | OBrack ts _ => forallb cons_term ts
  | ONO ts => forallb cons_term ts
  | _ => true
  end
with cons_term (t : term) : bool :=
  match t with
  | Term _ num den => cons_body num && match den with Some d => cons_body d | None => true end
  end
with cons_body (b : body) : bool :=
  match b with
  | BObjs os => forallb cons_obj os
  | BSum ts => forallb cons_term ts
  end.
Definition consistent (e : expr) : bool := forallb cons_term e.
End Consistent.

(* ------------------------------------------------------------------ *)
(* serialisation of results for the harness: S-expressions, names in hex  *)
Definition hex_digit (n : nat) : ascii :=
  nth n (L "0123456789abcdef") "?".
Definition show_str (s : str) : str :=
  "x" :: flat_map (fun c => let n := nat_of_ascii c in [hex_digit (n / 16); hex_digit (n mod 16)]) s.
Definition sp (l : list str) : str := "(" :: join_sp l ++ [")"].
Definition show_spin (s : spin) : str :=
  match s with NoSpin => L "n" | Alpha => L "a" | Beta => L "b" end.
Definition show_idx (i : lidx) : str :=
  sp [L "I"; show_str (lletter i :: ldigits i); show_spin (lspin i)].
Definition show_idxs (l : list lidx) : str := sp (L "L" :: map show_idx l).
Definition show_kind (k : kind) : str :=
  match k with KAnti => L "anti" | KSym => L "sym" | KAmp => L "amp" | KNonSym => L "nonsym" end.
Definition show_base (b : base) : str :=
  match b with
  | BTens k n bks u l => sp [L "T"; show_kind k; show_str n; print_Z bks; show_idxs u; show_idxs l]
  | BNonSym n ix => sp [L "N"; show_str n; show_idxs ix]
  | BSymb n => sp [L "S"; show_str n]
  | BOp c i => sp [L "F"; (if c then L "1" else L "0"); show_idx i]
  end.
Fixpoint show_obj (o : obj) : str :=
  match o with
  | OInt n => sp [L "int"; print_N n]
  | OSqrt n => sp [L "sqrt"; print_Z n]
  | ODelta i j => sp [L "delta"; show_idx i; show_idx j]
  | OPow b e => sp [L "pow"; show_base b; print_Z e]
  | OBrack ts e => sp [L "brack"; sp (L "L" :: map show_term ts); print_Z e]
  | ONO ts => sp [L "NO"; sp (L "L" :: map show_term ts)]
  end
with show_term (t : term) : str :=
  match t with
  | Term neg num den =>
    sp [L "term"; (if neg then L "1" else L "0"); show_body num;
        match den with Some d => show_body d | None => L "none" end]
  end
with show_body (b : body) : str :=
  match b with
  | BObjs os => sp (L "objs" :: map show_obj os)
  | BSum ts => sp (L "sum" :: map show_term ts)
  end.
Definition show_expr (e : expr) : string := string_of_list_ascii (sp (L "L" :: map show_term e)).
Definition show_result (r : option expr) : string :=
  match r with Some e => show_expr e | None => "raise"%string end.

