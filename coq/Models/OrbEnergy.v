(* C13: symbolic orbital-energy denominators and the Fock matrix in a
   canonical Hartree-Fock model, as rewritings of factors with the model
   hypotheses under which they preserve the value. *)
From Coq Require Import ZArith QArith List Bool Lia Permutation.
From Coq Require String.
From ADC Require Import Core.Scalar Core.Index Core.Expr Core.DeltaRule.
Import ListNotations.

Definition eps_tens (en : String.string) (i : index) : tens := Tens KNonSym en 0%Z [i] [].

(* factor-wise rewriting *)
Definition rewrite_facs (rw : factor -> list factor) (fs : list factor) : list factor := flat_map rw fs.
Definition rewrite_term rw (t : term) : term := Term (tcoef t) (rewrite_facs rw (tfacs t)).
Definition rewrite_expr rw (e : expr) : expr := map (rewrite_term rw) e.

(* D^{u}_{l} -> 1 / (sum_u e - sum_l e) *)
Definition denom_poly en (u l : list index) : list (Q * list tens) :=
  map (fun i => (1%Q, [eps_tens en i])) u ++ map (fun i => ((-1)%Q, [eps_tens en i])) l.
Definition is_D dn (f : factor) : option (list index * list index * bool) :=
  match f with
  | (ATens (Tens KSym n b u l), inv) =>
    if String.eqb n dn && Z.eqb b (-1) then Some (u, l, inv) else None
  | _ => None end.
Definition rw_D en dn (f : factor) : list factor :=
  match is_D dn f with
  | Some (u, l, inv) => [(APoly (denom_poly en u l), negb inv)]
  | None => [f] end.
Definition unfold_D en dn := rewrite_expr (rw_D en dn).

(* f^{p}_{q} -> delta_pq e_p   (canonical orbitals) *)
Definition is_fock fn (f : factor) : option (index * index * Z) :=
  match f with
  | (ATens (Tens KAnti n b [p] [q]), false) => if String.eqb n fn then Some (p, q, b) else None
  | _ => None end.
Definition rw_fock en fn (f : factor) : list factor :=
  match is_fock fn f with
  | Some (p, q, _) => if index_eqb p q then [(ATens (eps_tens en p), false)]
                      else [(ADelta p q, false); (ATens (eps_tens en p), false)]
  | None => [f] end.
Definition unfold_fock en fn := rewrite_expr (rw_fock en fn).

Section OE.
Variable S : Scalar.
Variable T : tmodel S.
Notation "0" := (k0 S). Notation "1" := (k1 S).
Infix "+" := (kadd S). Infix "*" := (kmul S). Notation "- x" := (kopp S x).
Add Ring KRo : (Kring S).

Lemma eval_term_facs_equiv tg r c fs1 fs2 :
  (forall r', mono_val S T r' fs1 = mono_val S T r' fs2) ->
  (forall z, In z (mono_idx fs1) <-> In z (mono_idx fs2)) ->
  eval_term S T tg r (Term c fs1) = eval_term S T tg r (Term c fs2).
Proof. intros Hv Hi. unfold eval_term.
  rewrite (sum_over_perm S T (term_idx (Term c fs1)) _ (contracted tg (Term c fs2))).
  - apply sum_over_ext. intros r'. unfold term_val; simpl. rewrite Hv. reflexivity.
  - intros e1 e2 He. apply term_val_agree; exact He.
  - unfold contracted, contracted_of. apply NoDup_filter, inodup_NoDup.
  - apply NoDup_Permutation; try (unfold contracted, contracted_of; apply NoDup_filter, inodup_NoDup).
    intros z. unfold contracted, contracted_of, term_idx; simpl. rewrite !filter_In, !inodup_In, Hi. tauto. Qed.

Lemma rewrite_facs_sound rw :
  (forall r f, mono_val S T r (rw f) = fac_val S T r f) ->
  (forall f z, In z (mono_idx (rw f)) <-> In z (fac_idx f)) ->
  forall tg r t, eval_term S T tg r (rewrite_term rw t) = eval_term S T tg r t.
Proof. intros Hv Hi tg r [c fs]. unfold rewrite_term; simpl. apply eval_term_facs_equiv.
  - intros r'. unfold rewrite_facs, mono_val. induction fs as [|f fs IH]; simpl; [reflexivity|].
    rewrite map_app, kprod_app. fold (mono_val S T r' (rw f)). rewrite Hv, IH. reflexivity.
  - intros z. unfold rewrite_facs, mono_idx. induction fs as [|f fs IH]; simpl; [tauto|].
    rewrite flat_map_app, !in_app_iff. fold (mono_idx (rw f)). rewrite Hi, IH. tauto. Qed.

Lemma rewrite_expr_sound rw :
  (forall r f, mono_val S T r (rw f) = fac_val S T r f) ->
  (forall f z, In z (mono_idx (rw f)) <-> In z (fac_idx f)) ->
  forall tg r e, eval S T tg r (rewrite_expr rw e) = eval S T tg r e.
Proof. intros Hv Hi tg r e. unfold eval, rewrite_expr. rewrite ksum_map. apply ksum_ext.
  intros t _. apply rewrite_facs_sound; assumption. Qed.

(* ---- symbolic denominators ---- *)
Variable en dn fn : String.string.
Definition eps (x : nat) : K S := tv T KNonSym en 0%Z [x] [].
Definition esum (l : list nat) : K S := ksum l eps.
(* the model gives the symbolic denominator tensor its meaning *)
Definition D_model : Prop := forall u l,
  tv T KSym dn (-1)%Z u l = kinv S (esum u + - esum l).
Hypothesis kinv_invol : forall x, kinv S (kinv S x) = x.

Lemma denom_poly_val r u l : poly_val S T r (denom_poly en u l) = esum (map r u) + - esum (map r l).
Proof. unfold denom_poly, poly_val. rewrite ksum_app, !ksum_map. unfold esum. rewrite !ksum_map.
  f_equal.
  - apply ksum_ext. intros i _. unfold pterm_val; simpl. rewrite ofQ_1. unfold tens_val, eps; simpl. ring.
  - transitivity (ksum l (fun i => - eps (r i))).
    + apply ksum_ext. intros i _. unfold pterm_val; simpl.
      rewrite (ofQ_eq S (-1)%Q (- (1))%Q) by reflexivity. rewrite ofQ_opp, ofQ_1.
      unfold tens_val, eps; simpl. ring.
    + clear. induction l as [|a l IH]; simpl; [ring|]. rewrite IH. ring. Qed.

Lemma denom_poly_idx u l : poly_idx (denom_poly en u l) = u ++ l.
Proof. unfold denom_poly, poly_idx. rewrite flat_map_app. f_equal.
  - induction u; simpl; [reflexivity|]. rewrite IHu. reflexivity.
  - induction l; simpl; [reflexivity|]. rewrite IHl. reflexivity. Qed.

Lemma is_D_spec f u l inv : is_D dn f = Some (u, l, inv) -> f = (ATens (Tens KSym dn (-1)%Z u l), inv).
Proof. destruct f as [[[k n b u' l']|i j|n|q|p] inv']; simpl; try discriminate.
  destruct k; try discriminate.
  destruct (String.eqb n dn && Z.eqb b (-1)) eqn:E; [|discriminate].
  apply andb_true_iff in E. destruct E as [E1 E2]. apply String.eqb_eq in E1. apply Z.eqb_eq in E2.
  intros H; inversion H; subst. reflexivity. Qed.
Lemma single_val r f : mono_val S T r [f] = fac_val S T r f.
Proof. unfold mono_val; simpl. ring. Qed.
Lemma single_idx f z : In z (mono_idx [f]) <-> In z (fac_idx f).
Proof. unfold mono_idx; simpl. rewrite app_nil_r. tauto. Qed.

Theorem unfold_D_sound : D_model -> forall tg r e,
  eval S T tg r (unfold_D en dn e) = eval S T tg r e.
Proof. intros HD. apply rewrite_expr_sound.
  - intros r f. unfold rw_D. destruct (is_D dn f) as [[[u l] inv]|] eqn:E; [|apply single_val].
    apply is_D_spec in E; subst f. rewrite single_val. unfold fac_val; simpl.
    rewrite denom_poly_val. unfold tens_val; simpl. rewrite HD.
    destruct inv; simpl; [rewrite kinv_invol|]; reflexivity.
  - intros f z. unfold rw_D. destruct (is_D dn f) as [[[u l] inv]|] eqn:E; [|apply single_idx].
    apply is_D_spec in E; subst f. rewrite single_idx. unfold fac_idx; simpl.
    rewrite denom_poly_idx. unfold tens_idx; simpl. tauto. Qed.

(* ---- canonical Fock matrix ---- *)
Definition fock_model : Prop := forall bks x y,
  tv T KAnti fn bks [x] [y] = (if Nat.eqb x y then 1 else 0) * eps x.

Lemma is_fock_spec f p q b : is_fock fn f = Some (p, q, b) -> f = (ATens (Tens KAnti fn b [p] [q]), false).
Proof. destruct f as [[[k n b' u l]|i j|n|q'|p'] inv]; simpl; try discriminate.
  destruct k; try discriminate. destruct u as [|p1 [|? ?]]; try discriminate.
  destruct l as [|q1 [|? ?]]; try discriminate. destruct inv; try discriminate.
  destruct (String.eqb n fn) eqn:E; [|discriminate]. apply String.eqb_eq in E.
  intros H; inversion H; subst. reflexivity. Qed.

Theorem unfold_fock_sound : fock_model -> forall tg r e,
  eval S T tg r (unfold_fock en fn e) = eval S T tg r e.
Proof. intros HF. apply rewrite_expr_sound.
  - intros r f. unfold rw_fock. destruct (is_fock fn f) as [[[p q] b]|] eqn:E; [|apply single_val].
    apply is_fock_spec in E; subst f. unfold fac_val at 1; simpl. unfold tens_val; simpl. rewrite HF.
    destruct (index_eqb p q) eqn:Epq.
    + apply index_eqb_eq in Epq; subst q. rewrite Nat.eqb_refl, single_val.
      unfold fac_val; simpl. unfold tens_val, eps; simpl. ring.
    + unfold mono_val, fac_val; simpl. unfold delta_val, tens_val, eps; simpl. ring.
  - intros f z. unfold rw_fock. destruct (is_fock fn f) as [[[p q] b]|] eqn:E; [|apply single_idx].
    apply is_fock_spec in E; subst f. unfold fac_idx; simpl. unfold tens_idx; simpl.
    destruct (index_eqb p q) eqn:Epq.
    + apply index_eqb_eq in Epq; subst q. rewrite single_idx. unfold fac_idx; simpl. tauto.
    + unfold mono_idx, fac_idx; simpl. tauto. Qed.
End OE.
