(* C08 - invariants of the index registry over all operation histories *)
From Coq Require Import ZArith NArith List Bool Lia FinFun.
From ADC Require Import Core.Index Models.Substitution Models.SubstitutionProofs Models.Registry.
Import ListNotations.

(* ---------- equalities ---------- *)
Lemma sort_eqb_eq (a b : sort) : sort_eqb a b = true <-> a = b.
Proof. destruct a as [s1 p1], b as [s2 p2]. unfold sort_eqb; simpl.
  rewrite andb_true_iff, space_eqb_eq, spin_eqb_eq. split; [intros [-> ->]; reflexivity|intros H; inversion H; auto]. Qed.
Lemma sort_eqb_refl a : sort_eqb a a = true.
Proof. apply sort_eqb_eq; reflexivity. Qed.
Lemma sort_eqb_neq a b : sort_eqb a b = false <-> a <> b.
Proof. rewrite <- sort_eqb_eq. destruct (sort_eqb a b); split; congruence. Qed.
Lemma sort_eq_dec (a b : sort) : {a = b} + {a <> b}.
Proof. destruct (sort_eqb a b) eqn:E; [left; apply sort_eqb_eq; exact E|right; apply sort_eqb_neq; exact E]. Qed.
Lemma upd_same {A} (f : sort -> A) k v : upd f k v k = v.
Proof. unfold upd. rewrite sort_eqb_refl. reflexivity. Qed.
Lemma upd_other {A} (f : sort -> A) k v k' : k' <> k -> upd f k v k' = f k'.
Proof. intros H. unfold upd. apply sort_eqb_neq in H. rewrite H. reflexivity. Qed.

(* ---------- symbol table ---------- *)
Lemma sym_find_Some l k nm u : sym_find l k nm = Some u -> In (k, nm, u) l.
Proof. induction l as [|e r IH]; simpl; [discriminate|].
  destruct (sort_eqb (e_sort e) k && name_eqb (e_name e) nm) eqn:E.
  - apply andb_true_iff in E. destruct E as [E1 E2]. apply sort_eqb_eq in E1. apply name_eqb_eq in E2.
    intros H; inversion H; subst. left. destruct e as [[k' nm'] u']; reflexivity.
  - intros H; right; apply IH; exact H. Qed.
Lemma sym_find_None l k nm : sym_find l k nm = None <-> ~ In (k, nm) (map e_key l).
Proof. induction l as [|e r IH]; simpl; [tauto|].
  destruct (sort_eqb (e_sort e) k && name_eqb (e_name e) nm) eqn:E.
  - apply andb_true_iff in E. destruct E as [E1 E2]. apply sort_eqb_eq in E1. apply name_eqb_eq in E2.
    split; [discriminate|]. intros H; exfalso; apply H; left.
    destruct e as [[k' nm'] u']; unfold e_key, e_sort, e_name in *; simpl in *; subst; reflexivity.
  - rewrite IH. split; [|tauto]. intros H [H1|H1]; [|tauto].
    destruct e as [[k' nm'] u']; unfold e_key, e_sort, e_name in *; simpl in *. inversion H1; subst.
    rewrite sort_eqb_refl, name_eqb_refl in E. discriminate. Qed.
Lemma sym_find_app l1 l2 k nm :
  sym_find (l1 ++ l2) k nm = match sym_find l1 k nm with Some u => Some u | None => sym_find l2 k nm end.
Proof. induction l1 as [|e r IH]; simpl; [reflexivity|].
  destruct (sort_eqb (e_sort e) k && name_eqb (e_name e) nm); [reflexivity|exact IH]. Qed.

Lemma remove1_In x y l : In y (remove1 x l) -> In y l.
Proof. induction l as [|z r IH]; simpl; [tauto|]. destruct (name_eqb x z); [tauto|].
  intros [H|H]; [left; exact H|right; apply IH; exact H]. Qed.
Lemma remove1_NoDup x l : NoDup l -> NoDup (remove1 x l) /\ ~ In x (remove1 x l).
Proof. induction l as [|z r IH]; simpl; intros H; [split; [constructor|tauto]|].
  inversion H as [|? ? Hn Hnd]; subst. destruct (name_eqb x z) eqn:E.
  - apply name_eqb_eq in E; subst z. split; assumption.
  - apply name_eqb_neq in E. destruct (IH Hnd) as [H1 H2]. split.
    + constructor; [intros H3; apply Hn; apply remove1_In in H3; exact H3|exact H1].
    + intros [H3|H3]; [congruence|tauto]. Qed.

Lemma lmem_In x l : lmem x l = true <-> In x l.
Proof. unfold lmem. rewrite existsb_exists. split.
  - intros (y & H1 & H2). apply N.eqb_eq in H2; subst; exact H1.
  - intros H. exists x. split; [exact H|apply N.eqb_refl]. Qed.
Lemma space_of_letter_base sp l : In l (base sp) -> space_of_letter l = Some sp.
Proof. destruct sp; simpl; intros H;
  repeat (destruct H as [H|H]; [subst l; reflexivity|]); destruct H. Qed.

(* ---------- the invariant ---------- *)
Record Inv (st : state) : Prop := {
  inv_keys : NoDup (map e_key (symbols st));
  inv_uids : NoDup (map e_uid (symbols st));
  inv_next : forall e, In e (symbols st) -> (e_uid e < next st)%N;
  inv_gen_unused : forall k nm, In nm (generic st k) -> sym_find (symbols st) k nm = None;
  inv_gen_shape : forall k nm, In nm (generic st k) ->
                  In (fst nm) (base (fst k)) /\ (3 <= snd nm)%N /\ (snd nm < counter st k)%N;
  inv_gen_nodup : forall k, NoDup (generic st k);
  inv_counter : forall k, (3 <= counter st k)%N
}.

Lemma Inv_init : Inv init.
Proof. constructor; simpl; try constructor; try tauto; intros; lia. Qed.

Lemma Inv_new_symbol st k nm : Inv st -> sym_lookup st k nm = None -> Inv (new_symbol st k nm).
Proof. intros I Hn. unfold sym_lookup in Hn. pose proof (proj1 (sym_find_None _ _ _) Hn) as Hk.
  constructor; simpl.
  - rewrite map_app. apply NoDup_app_intro; [apply (inv_keys _ I)|repeat constructor; simpl; tauto|].
    simpl. intros x [<-|[]]. exact Hk.
  - rewrite map_app. apply NoDup_app_intro; [apply (inv_uids _ I)|repeat constructor; simpl; tauto|].
    simpl. intros x [<-|[]] H. apply in_map_iff in H. destruct H as (e & H1 & H2).
    pose proof (inv_next _ I e H2). unfold e_uid in *. simpl in H1. lia.
  - intros e H. apply in_app_iff in H. destruct H as [H|[<-|[]]].
    + pose proof (inv_next _ I e H). lia.
    + unfold e_uid; simpl. lia.
  - intros k' nm' H. rewrite sym_find_app. destruct (sort_eq_dec k' k) as [->|Hne].
    + rewrite upd_same in H. pose proof (remove1_In _ _ _ H) as H1.
      rewrite (inv_gen_unused _ I k nm' H1). simpl. unfold e_sort, e_name; simpl.
      rewrite sort_eqb_refl. simpl.
      destruct (name_eqb nm nm') eqn:E; [|reflexivity]. apply name_eqb_eq in E; subst nm'.
      exfalso. apply (proj2 (remove1_NoDup nm _ (inv_gen_nodup _ I k))). exact H.
    + rewrite upd_other in H by exact Hne. rewrite (inv_gen_unused _ I k' nm' H). simpl.
      unfold e_sort; simpl. destruct (sort_eqb k k') eqn:E; [apply sort_eqb_eq in E; congruence|reflexivity].
  - intros k' nm' H. destruct (sort_eq_dec k' k) as [->|Hne].
    + rewrite upd_same in H. apply remove1_In in H. apply (inv_gen_shape _ I); exact H.
    + rewrite upd_other in H by exact Hne. apply (inv_gen_shape _ I); exact H.
  - intros k'. destruct (sort_eq_dec k' k) as [->|Hne].
    + rewrite upd_same. apply remove1_NoDup. apply (inv_gen_nodup _ I).
    + rewrite upd_other by exact Hne. apply (inv_gen_nodup _ I).
  - apply (inv_counter _ I). Qed.

Lemma Inv_gen_step st k : Inv st -> Inv (gen_step st k).
Proof. intros I. constructor; simpl; try apply I.
  - intros k' nm H. destruct (sort_eq_dec k' k) as [->|Hne].
    + rewrite upd_same in H. apply in_app_iff in H. destruct H as [H|H]; [apply (inv_gen_unused _ I); exact H|].
      apply filter_In in H. destruct H as [_ H]. unfold sym_has, sym_lookup in H.
      destruct (sym_find (symbols st) k nm); [discriminate|reflexivity].
    + rewrite upd_other in H by exact Hne. apply (inv_gen_unused _ I); exact H.
  - intros k' nm H. destruct (sort_eq_dec k' k) as [->|Hne].
    + rewrite upd_same in H. rewrite upd_same. apply in_app_iff in H. destruct H as [H|H].
      * destruct (inv_gen_shape _ I k nm H) as (H1 & H2 & H3). repeat split; auto; lia.
      * apply filter_In in H. destruct H as [H _]. unfold generation in H. apply in_map_iff in H.
        destruct H as (l & <- & H). simpl. pose proof (inv_counter _ I k). repeat split; auto; lia.
    + rewrite upd_other in H by exact Hne. rewrite upd_other by exact Hne. apply (inv_gen_shape _ I); exact H.
  - intros k'. destruct (sort_eq_dec k' k) as [->|Hne].
    + rewrite upd_same. apply NoDup_app_intro; [apply (inv_gen_nodup _ I)| |].
      * apply NoDup_filter. unfold generation. apply Injective_map_NoDup; [|apply base_NoDup].
        intros x y H; inversion H; reflexivity.
      * intros nm H H'. apply filter_In in H. destruct H as [H _]. unfold generation in H.
        apply in_map_iff in H. destruct H as (l & <- & _).
        destruct (inv_gen_shape _ I k _ H') as (_ & _ & H3). simpl in H3. lia.
    + rewrite upd_other by exact Hne. apply (inv_gen_nodup _ I).
  - intros k'. destruct (sort_eq_dec k' k) as [->|Hne].
    + rewrite upd_same. pose proof (inv_counter _ I k). lia.
    + rewrite upd_other by exact Hne. apply (inv_counter _ I). Qed.

Lemma Inv_gen_loop fuel st k n : Inv st -> Inv (gen_loop fuel st k n).
Proof. revert st. induction fuel as [|f IH]; intros st I; simpl; [exact I|].
  destruct (Nat.ltb (length (generic st k)) n); [apply IH; apply Inv_gen_step; exact I|exact I]. Qed.
Lemma gen_loop_symbols fuel st k n :
  symbols (gen_loop fuel st k n) = symbols st /\ next (gen_loop fuel st k n) = next st.
Proof. revert st. induction fuel as [|f IH]; intros st; simpl; [tauto|].
  destruct (Nat.ltb (length (generic st k)) n); [|tauto]. destruct (IH (gen_step st k)) as [H1 H2].
  rewrite H1, H2. simpl. tauto. Qed.

(* ---------- returned dicts ---------- *)
Definition ret_entries (r : retdict) : list entry := flat_map snd r.
Lemma ret_touch_entries k r : ret_entries (ret_touch k r) = ret_entries r.
Proof. unfold ret_touch, ret_entries. destruct (assoc_sort k r); [reflexivity|].
  rewrite flat_map_app. simpl. apply app_nil_r. Qed.
Lemma ret_touch_has k r : exists l, assoc_sort k (ret_touch k r) = Some l.
Proof. unfold ret_touch. destruct (assoc_sort k r) as [l|] eqn:E; [exists l; exact E|].
  exists []. induction r as [|[k' l'] r IH]; simpl in *; [rewrite sort_eqb_refl; reflexivity|].
  destruct (sort_eqb k k'); [discriminate|apply IH; exact E]. Qed.
Lemma ret_append_entries k e r x :
  In x (ret_entries (ret_append k e r)) -> x = e \/ In x (ret_entries r).
Proof. unfold ret_entries. induction r as [|[k' l] r IH]; simpl; [tauto|].
  destruct (sort_eqb k k'); simpl; rewrite !in_app_iff.
  - simpl. intros [[H|[H|[]]]|H]; auto.
  - intros [H|H]; [auto|]. destruct (IH H); auto. Qed.
Lemma ret_append_has k e r l : assoc_sort k r = Some l -> In e (ret_entries (ret_append k e r)).
Proof. unfold ret_entries. induction r as [|[k' l'] r IH]; simpl; [discriminate|].
  destruct (sort_eqb k k') eqn:E; simpl; rewrite in_app_iff.
  - intros _. left. apply in_app_iff. right; left; reflexivity.
  - intros H. right. apply IH; exact H. Qed.
Lemma ret_append_mono k e r x : In x (ret_entries r) -> In x (ret_entries (ret_append k e r)).
Proof. unfold ret_entries. induction r as [|[k' l'] r IH]; simpl; [tauto|].
  destruct (sort_eqb k k'); simpl; rewrite !in_app_iff; intros [H|H]; auto. Qed.
Lemma assoc_set_entries k v (d : retdict) x :
  In x (ret_entries (assoc_set k v d)) -> In x v \/ In x (ret_entries d).
Proof. unfold ret_entries. induction d as [|[k' l] d IH]; simpl.
  - rewrite app_nil_r. tauto.
  - destruct (sort_eqb k k'); simpl; rewrite !in_app_iff; [tauto|]. intros [H|H]; [auto|]. destruct (IH H); auto. Qed.
Lemma ret_update_entries r add x :
  In x (ret_entries (ret_update r add)) -> In x (ret_entries r) \/ In x (ret_entries add).
Proof. unfold ret_update. revert r. induction add as [|[k v] a IH]; intros r; simpl; [tauto|].
  intros H. destruct (IH _ H) as [H1|H1].
  - apply assoc_set_entries in H1. simpl in H1. unfold ret_entries at 2. simpl. rewrite in_app_iff. tauto.
  - unfold ret_entries at 2. simpl. rewrite in_app_iff. tauto. Qed.
Lemma assoc_sort_entries k (r : retdict) l x : assoc_sort k r = Some l -> In x l -> In x (ret_entries r).
Proof. unfold ret_entries. induction r as [|[k' l'] r IH]; simpl; [discriminate|].
  destruct (sort_eqb k k'); rewrite in_app_iff.
  - intros H; inversion H; subst; tauto.
  - intros H1 H2. right. apply IH; assumption. Qed.

(* ---------- get_indices ---------- *)
(* the key addressed by a request *)
Definition req_key (sp : space) (r : name * spin) : sort * name := ((sp, snd r), fst r).

Lemma gi_loop_spec reqs : forall st ret st' ret',
  gi_loop reqs st ret = (st', Some ret') -> Inv st ->
  Inv st' /\
  (exists ext, symbols st' = symbols st ++ ext) /\
  (forall e, In e (ret_entries ret') ->
     In e (ret_entries ret) \/
     (In e (symbols st') /\ exists r sp, In r reqs /\ space_of_letter (fst (fst r)) = Some sp /\
                                           e_key e = req_key sp r)) /\
  (forall e, In e (ret_entries ret) -> In e (ret_entries ret')) /\
  (forall r, In r reqs -> exists sp u, space_of_letter (fst (fst r)) = Some sp /\
                                        In (req_key sp r, u) (ret_entries ret')).
Proof. induction reqs as [|[nm spn] r IH]; intros st ret st' ret' H I; simpl in H.
  - inversion H; subst. split; [exact I|]. split; [exists []; rewrite app_nil_r; reflexivity|].
    split; [tauto|]. split; [tauto|]. intros r [].
  - destruct (space_of_letter (fst nm)) as [sp|] eqn:Esp; [|discriminate].
    destruct (ret_touch_has (sp, spn) ret) as (l0 & Hl0).
    destruct (sym_lookup st (sp, spn) nm) as [u|] eqn:El.
    + destruct (IH _ _ _ _ H I) as (I' & (ext & Hext) & Hent & Hmono & Hreq).
      assert (Hin : In (sp, spn, nm, u) (symbols st)) by (apply sym_find_Some; exact El).
      split; [exact I'|]. split; [exists ext; exact Hext|]. split; [|split].
      * intros e He. destruct (Hent e He) as [H1|(H1 & r0 & sp0 & H2 & H3 & H4)].
        -- apply ret_append_entries in H1. rewrite ret_touch_entries in H1. destruct H1 as [->|H1]; [|left; exact H1].
           right. split; [rewrite Hext; apply in_app_iff; left; exact Hin|].
           exists (nm, spn), sp. split; [left; reflexivity|]. split; [exact Esp|reflexivity].
        -- right. split; [exact H1|]. exists r0, sp0. split; [right; exact H2|]. split; assumption.
      * intros e He. apply Hmono. apply ret_append_mono. rewrite ret_touch_entries. exact He.
      * intros r0 [<-|Hr0].
        -- exists sp, u. split; [exact Esp|]. apply Hmono. apply (ret_append_has _ _ _ _ Hl0).
        -- apply Hreq; exact Hr0.
    + pose proof (Inv_new_symbol st (sp, spn) nm I El) as I1.
      destruct (IH _ _ _ _ H I1) as (I' & (ext & Hext) & Hent & Hmono & Hreq).
      split; [exact I'|]. split; [|split; [|split]].
      * exists ((sp, spn, nm, next st) :: ext). rewrite Hext. simpl. rewrite <- app_assoc. reflexivity.
      * intros e He. destruct (Hent e He) as [H1|(H1 & r0 & sp0 & H2 & H3 & H4)].
        -- apply ret_append_entries in H1. rewrite ret_touch_entries in H1. destruct H1 as [->|H1]; [|left; exact H1].
           right. split; [rewrite Hext; simpl; rewrite !in_app_iff; left; right; left; reflexivity|].
           exists (nm, spn), sp. split; [left; reflexivity|]. split; [exact Esp|reflexivity].
        -- right. split; [exact H1|]. exists r0, sp0. split; [right; exact H2|]. split; assumption.
      * intros e He. apply Hmono. apply ret_append_mono. rewrite ret_touch_entries. exact He.
      * intros r0 [<-|Hr0].
        -- exists sp, (next st). split; [exact Esp|]. apply Hmono. apply (ret_append_has _ _ _ _ Hl0).
        -- apply Hreq; exact Hr0. Qed.

(* the state part also holds when the call raises *)
Lemma gi_loop_state reqs : forall st ret st' o,
  gi_loop reqs st ret = (st', o) -> Inv st -> Inv st' /\ exists ext, symbols st' = symbols st ++ ext.
Proof. induction reqs as [|[nm spn] r IH]; intros st ret st' o H I; simpl in H.
  - inversion H; subst. split; [exact I|exists []; rewrite app_nil_r; reflexivity].
  - destruct (space_of_letter (fst nm)) as [sp|] eqn:Esp.
    + destruct (sym_lookup st (sp, spn) nm) as [u|] eqn:El.
      * apply (IH _ _ _ _ H I).
      * destruct (IH _ _ _ _ H (Inv_new_symbol st (sp, spn) nm I El)) as (I' & ext & Hext).
        split; [exact I'|]. exists ((sp, spn, nm, next st) :: ext). rewrite Hext. simpl.
        rewrite <- app_assoc. reflexivity.
    + inversion H; subst. split; [exact I|exists []; rewrite app_nil_r; reflexivity]. Qed.

(* ---------- get_generic_indices ---------- *)
Definition keys_of (st : state) := map e_key (symbols st).

Lemma gg_loop_spec reqs : forall st ret st' o,
  gg_loop reqs st ret = (st', o) -> Inv st ->
  Inv st' /\ (exists ext, symbols st' = symbols st ++ ext) /\
  forall ret', o = Some ret' ->
    forall e, In e (ret_entries ret') ->
      In e (ret_entries ret) \/ (In e (symbols st') /\ ~ In (e_key e) (keys_of st)).
Proof. induction reqs as [|[k n] r IH]; intros st ret st' o H I; simpl in H.
  - inversion H; subst. split; [exact I|]. split; [exists []; rewrite app_nil_r; reflexivity|].
    intros ret' E e He. inversion E; subst. left; exact He.
  - destruct (Nat.eqb n 0); [apply (IH _ _ _ _ H I)|].
    set (st1 := gen_loop (gen_fuel st n) st k n) in *.
    assert (I1 : Inv st1) by (apply Inv_gen_loop; exact I).
    destruct (gen_loop_symbols (gen_fuel st n) st k n) as [Hs1 _]. fold st1 in Hs1.
    destruct (gi_loop (map (fun nm => (nm, snd k)) (firstn n (generic st1 k))) st1 []) as [st2 [ret2|]] eqn:Eg.
    + destruct (gi_loop_spec _ _ _ _ _ Eg I1) as (I2 & (ext1 & Hext1) & Hent & _ & _).
      destruct (IH _ _ _ _ H I2) as (I' & (ext2 & Hext2) & Hret).
      split; [exact I'|]. split.
      * exists (ext1 ++ ext2). rewrite Hext2, Hext1, Hs1, <- app_assoc. reflexivity.
      * intros ret' E e He. destruct (Hret ret' E e He) as [H1|[H1 H2]].
        -- apply ret_update_entries in H1. destruct H1 as [H1|H1]; [left; exact H1|].
           destruct (Hent e H1) as [[]|(H3 & r0 & sp0 & H4 & H5 & H6)].
           right. split; [rewrite Hext2; apply in_app_iff; left; exact H3|].
           apply in_map_iff in H4. destruct H4 as (nm & <- & H4). apply firstn_In in H4.
           simpl in H5, H6. destruct (inv_gen_shape _ I1 k nm H4) as (Hb & _).
           rewrite (space_of_letter_base _ _ Hb) in H5. inversion H5; subst sp0.
           unfold req_key in H6; simpl in H6. rewrite H6. unfold keys_of. rewrite <- Hs1.
           replace (fst k, snd k) with k by (destruct k; reflexivity).
           apply sym_find_None. apply (inv_gen_unused _ I1); exact H4.
        -- right. split; [exact H1|]. intros H3. apply H2. unfold keys_of in *.
           rewrite Hext1, Hs1, map_app. apply in_app_iff. left; exact H3.
    + inversion H; subst. destruct (gi_loop_state _ _ _ _ _ Eg I1) as (I2 & ext1 & Hext1).
      split; [exact I2|]. split; [exists ext1; rewrite Hext1, Hs1; reflexivity|]. intros ret' E; discriminate. Qed.

(* ---------- get_symbols ---------- *)
Lemma gs_pop_entries reqs : forall ret l, gs_pop reqs ret = Some l ->
  forall e, In e l -> In e (ret_entries ret).
Proof. induction reqs as [|[nm spn] r IH]; intros ret l H e He; simpl in H.
  - destruct (forallb _ ret); inversion H; subst. destruct He.
  - destruct (space_of_letter (fst nm)) as [sp|]; [|discriminate].
    destruct (assoc_sort (sp, spn) ret) as [[|e0 rest]|] eqn:E; try discriminate.
    destruct (gs_pop r (assoc_set (sp, spn) rest ret)) as [l'|] eqn:E2; [|discriminate].
    inversion H; subst. destruct He as [<-|He].
    + apply (assoc_sort_entries _ _ _ _ E). left; reflexivity.
    + apply (IH _ _ E2) in He. apply assoc_set_entries in He. destruct He as [He|He]; [|exact He].
      apply (assoc_sort_entries _ _ _ _ E). right; exact He. Qed.

(* ---------- one operation ---------- *)
Lemma step_spec st o st' x : step st o = (st', x) -> Inv st ->
  Inv st' /\ (exists ext, symbols st' = symbols st ++ ext) /\
  (forall e, In e (out_entries x) -> In e (symbols st')) /\
  (forall reqs, o = OpGeneric reqs -> forall e, In e (out_entries x) -> ~ In (e_key e) (keys_of st)).
Proof. intros H I. destruct o as [reqs|reqs|reqs]; simpl in H.
  - unfold get_indices in H. destruct (gi_loop reqs st []) as [st1 [r|]] eqn:E; inversion H; subst.
    + destruct (gi_loop_spec _ _ _ _ _ E I) as (I' & Hext & Hent & _).
      split; [exact I'|]. split; [exact Hext|]. split; [|intros ? HH; discriminate].
      intros e He. simpl in He. destruct (Hent e He) as [[]|[H1 _]]. exact H1.
    + destruct (gi_loop_state _ _ _ _ _ E I) as (I' & Hext).
      split; [exact I'|]. split; [exact Hext|]. split; [intros e []|intros ? HH; discriminate].
  - unfold get_generic_indices in H. destruct (gg_loop reqs st []) as [st1 o1] eqn:E.
    destruct (gg_loop_spec _ _ _ _ _ E I) as (I' & Hext & Hent).
    destruct o1 as [r|]; inversion H; subst.
    + split; [exact I'|]. split; [exact Hext|]. split.
      * intros e He. simpl in He. destruct (Hent r eq_refl e He) as [[]|[H1 _]]. exact H1.
      * intros reqs' _ e He. simpl in He. destruct (Hent r eq_refl e He) as [[]|[_ H1]]. exact H1.
    + split; [exact I'|]. split; [exact Hext|]. split; [intros e []|intros ? _ e []].
  - destruct reqs as [|r0 reqs].
    + inversion H; subst. split; [exact I|]. split; [exists []; rewrite app_nil_r; reflexivity|].
      split; [intros e []|intros ? HH; discriminate].
    + unfold get_indices in H. destruct (gi_loop (r0 :: reqs) st []) as [st1 [r|]] eqn:E.
      * destruct (gi_loop_spec _ _ _ _ _ E I) as (I' & Hext & Hent & _).
        destruct (gs_pop (r0 :: reqs) r) as [l|] eqn:E2; inversion H; subst.
        -- split; [exact I'|]. split; [exact Hext|]. split; [|intros ? HH; discriminate].
           intros e He. simpl in He. apply (gs_pop_entries _ _ _ E2) in He.
           destruct (Hent e He) as [[]|[H1 _]]. exact H1.
        -- split; [exact I'|]. split; [exact Hext|]. split; [intros e []|intros ? HH; discriminate].
      * inversion H; subst. destruct (gi_loop_state _ _ _ _ _ E I) as (I' & Hext).
        split; [exact I'|]. split; [exact Hext|]. split; [intros e []|intros ? HH; discriminate]. Qed.

(* ---------- histories ---------- *)
Lemma run_spec ops : forall st outs st' outs',
  run ops st outs = (st', outs') -> Inv st ->
  (forall e, In e (outs_entries outs) -> In e (symbols st)) ->
  Inv st' /\ (forall e, In e (outs_entries outs') -> In e (symbols st')).
Proof. induction ops as [|o r IH]; intros st outs st' outs' H I Hin; simpl in H.
  - inversion H; subst. split; assumption.
  - destruct (step st o) as [st1 x] eqn:E.
    destruct (step_spec _ _ _ _ E I) as (I1 & (ext & Hext) & Hout & _).
    apply (IH _ _ _ _ H I1). intros e He. unfold outs_entries in He. simpl in He.
    apply in_app_iff in He. destruct He as [He|He]; [apply Hout; exact He|].
    rewrite Hext. apply in_app_iff. left. apply Hin. exact He. Qed.

Theorem registry_invariant ops : Inv (fst (history ops)).
Proof. unfold history. destruct (run ops init []) as [st outs] eqn:E.
  apply (run_spec _ _ _ _ _ E Inv_init). intros e []. Qed.

Lemma NoDup_map_inj_in {A B} (f : A -> B) l a b :
  NoDup (map f l) -> In a l -> In b l -> f a = f b -> a = b.
Proof. induction l as [|x r IH]; simpl; [tauto|]. intros H Ha Hb E. inversion H as [|? ? Hn Hnd]; subst.
  destruct Ha as [->|Ha], Hb as [->|Hb]; auto.
  - exfalso; apply Hn. rewrite E. apply in_map; exact Hb.
  - exfalso; apply Hn. rewrite <- E. apply in_map; exact Ha. Qed.

(* same (space, spin, name) <-> identical object, at any two points of any history *)
Theorem get_indices_identity ops e1 e2 :
  In e1 (outs_entries (snd (history ops))) -> In e2 (outs_entries (snd (history ops))) ->
  (e_key e1 = e_key e2 <-> e_uid e1 = e_uid e2).
Proof. unfold history. destruct (run ops init []) as [st outs] eqn:E. simpl.
  destruct (run_spec _ _ _ _ _ E Inv_init) as [I Hin]; [intros e []|].
  intros H1 H2. apply Hin in H1. apply Hin in H2. split; intros H.
  - rewrite (NoDup_map_inj_in e_key _ _ _ (inv_keys _ I) H1 H2 H). reflexivity.
  - rewrite (NoDup_map_inj_in e_uid _ _ _ (inv_uids _ I) H1 H2 H). reflexivity. Qed.

(* every request of a successful get_indices is answered with the requested name and spin *)
Theorem get_indices_complete st reqs st' r : Inv st ->
  get_indices st reqs = (st', Some r) ->
  forall nm spn, In (nm, spn) reqs ->
    exists sp u, space_of_letter (fst nm) = Some sp /\ In ((sp, spn), nm, u) (ret_entries r).
Proof. intros I H nm spn Hin. unfold get_indices in H.
  destruct (gi_loop_spec _ _ _ _ _ H I) as (_ & _ & _ & _ & Hreq). apply (Hreq _ Hin). Qed.

(* the names returned by get_generic_indices were never returned by any earlier operation *)
Theorem generic_never_handed_out_before ops reqs e e' :
  In e (out_entries (snd (step (fst (history ops)) (OpGeneric reqs)))) ->
  In e' (outs_entries (snd (history ops))) ->
  e_key e <> e_key e'.
Proof. unfold history. destruct (run ops init []) as [st outs] eqn:E. cbn [fst snd].
  destruct (run_spec _ _ _ _ _ E Inv_init) as [I Hin]; [intros x []|].
  destruct (step st (OpGeneric reqs)) as [st' x] eqn:E2. cbn [fst snd].
  destruct (step_spec _ _ _ _ E2 I) as (_ & _ & _ & Hfresh).
  intros H1 H2 Heq. apply (Hfresh reqs eq_refl e H1). rewrite Heq. unfold keys_of.
  apply in_map. apply Hin. exact H2. Qed.

(* ... and they are new objects *)
Theorem generic_objects_are_new ops reqs e :
  In e (out_entries (snd (step (fst (history ops)) (OpGeneric reqs)))) ->
  ~ In e (symbols (fst (history ops))).
Proof. unfold history. destruct (run ops init []) as [st outs] eqn:E. cbn [fst snd].
  destruct (run_spec _ _ _ _ _ E Inv_init) as [I Hin]; [intros x []|].
  destruct (step st (OpGeneric reqs)) as [st' x] eqn:E2. cbn [fst snd].
  destruct (step_spec _ _ _ _ E2 I) as (_ & _ & _ & Hfresh).
  intros H1 H2. apply (Hfresh reqs eq_refl e H1). unfold keys_of. apply in_map. exact H2. Qed.

(* ---------- the generation loop reaches its exit condition ---------- *)
Lemma filter_length_le {A} (f g : A -> bool) l :
  (forall x, In x l -> f x = true -> g x = true) -> length (filter f l) <= length (filter g l).
Proof. induction l as [|x r IH]; simpl; intros H; [lia|].
  assert (IH' : length (filter f r) <= length (filter g r)) by (apply IH; intros y Hy; apply H; right; exact Hy).
  destruct (f x) eqn:E1.
  - rewrite (H x (or_introl eq_refl) E1). simpl. lia.
  - destruct (g x); simpl; lia. Qed.
Lemma filter_length_lt {A} (f g : A -> bool) l x0 :
  (forall x, In x l -> f x = true -> g x = true) -> In x0 l -> f x0 = false -> g x0 = true ->
  length (filter f l) < length (filter g l).
Proof. induction l as [|x r IH]; simpl; intros H Hin Hf Hg; [tauto|].
  assert (Hr : forall y, In y r -> f y = true -> g y = true) by (intros y Hy; apply H; right; exact Hy).
  destruct Hin as [->|Hin].
  - rewrite Hf, Hg. simpl. pose proof (filter_length_le f g r Hr). lia.
  - specialize (IH Hr Hin Hf Hg). destruct (f x) eqn:E1.
    + rewrite (H x (or_introl eq_refl) E1). simpl. lia.
    + destruct (g x); simpl; lia. Qed.

Definition pending (st : state) (k : sort) : nat :=
  length (filter (fun e => sort_eqb (e_sort e) k && (counter st k <=? snd (e_name e))%N) (symbols st)).
Definition potential (st : state) (k : sort) (n : nat) : nat := (n - length (generic st k)) + pending st k.

Lemma gen_step_potential st k n : length (generic st k) < n ->
  potential (gen_step st k) k n < potential st k n.
Proof. intros Hlt. unfold potential, pending. simpl. rewrite !upd_same, app_length.
  set (new := filter (fun nm => negb (sym_has st k nm)) (generation (base (fst k)) (counter st k))).
  assert (Hle : length (filter (fun e => sort_eqb (e_sort e) k && (N.succ (counter st k) <=? snd (e_name e))%N) (symbols st))
                <= length (filter (fun e => sort_eqb (e_sort e) k && (counter st k <=? snd (e_name e))%N) (symbols st))).
  { apply filter_length_le. intros e _ H. apply andb_true_iff in H. destruct H as [H1 H2].
    rewrite H1. simpl. apply N.leb_le in H2. apply N.leb_le. lia. }
  destruct new as [|x new'] eqn:En; [|simpl; lia].
  (* nothing new: every name of this generation is used, so the pending set shrinks *)
  simpl. rewrite Nat.add_0_r.
  destruct (base_NoDup (fst k)) as [_ Hb]. destruct (base (fst k)) as [|l0 b] eqn:Eb; [simpl in Hb; lia|].
  assert (Hu : sym_has st k (l0, counter st k) = true).
  { unfold new in En. try rewrite Eb in En. simpl in En.
    destruct (sym_has st k (l0, counter st k)); [reflexivity|discriminate]. }
  unfold sym_has, sym_lookup in Hu. destruct (sym_find (symbols st) k (l0, counter st k)) as [u|] eqn:Ef; [|discriminate].
  apply sym_find_Some in Ef.
  assert (Hlt2 : length (filter (fun e => sort_eqb (e_sort e) k && (N.succ (counter st k) <=? snd (e_name e))%N) (symbols st))
                 < length (filter (fun e => sort_eqb (e_sort e) k && (counter st k <=? snd (e_name e))%N) (symbols st))).
  { apply (filter_length_lt _ _ _ (k, (l0, counter st k), u)).
    - intros e _ H. apply andb_true_iff in H. destruct H as [H1 H2].
      rewrite H1. simpl. apply N.leb_le in H2. apply N.leb_le. lia.
    - exact Ef.
    - unfold e_sort, e_name; simpl. rewrite sort_eqb_refl. simpl. apply N.leb_gt. lia.
    - unfold e_sort, e_name; simpl. rewrite sort_eqb_refl. simpl. apply N.leb_le. lia. }
  lia. Qed.

Lemma gen_loop_exit_gen fuel : forall st k n, potential st k n <= fuel ->
  n <= length (generic (gen_loop fuel st k n) k).
Proof. induction fuel as [|f IH]; intros st k n H; simpl.
  - unfold potential in H. lia.
  - destruct (Nat.ltb (length (generic st k)) n) eqn:E.
    + apply Nat.ltb_lt in E. apply IH. pose proof (gen_step_potential st k n E). lia.
    + apply Nat.ltb_ge in E. exact E. Qed.

(* the bound used by the model is sufficient: on exit there are at least n unused generic names *)
Theorem gen_loop_exit st k n : n <= length (generic (gen_loop (gen_fuel st n) st k n) k).
Proof. apply gen_loop_exit_gen. unfold potential, pending, gen_fuel.
  pose proof (filter_length_le (fun e => sort_eqb (e_sort e) k && (counter st k <=? snd (e_name e))%N)
                               (fun _ => true) (symbols st) (fun _ _ _ => eq_refl)) as H.
  assert (F : forall l : list entry, filter (fun _ => true) l = l)
    by (induction l as [|x r IHl]; simpl; [reflexivity|f_equal; exact IHl]).
  rewrite F in H. lia. Qed.
