(* C15 - the hypotheses of the value theorems are satisfiable: the rationals as
   scalars, four spin orbitals, spin-conserving integrals and amplitudes, the
   MP2-energy term 1/4 V^{ij}_{ab} t1^{ab}_{ij}. *)
From Coq Require Import ZArith QArith Qcanon List Bool Lia String.
From ADC Require Import Core.Scalar Core.Index Core.Expr Models.Spin Models.SpinProofs Models.SpinValue.
Import ListNotations.
Open Scope string_scope.
Open Scope list_scope.

Lemma c15_Q2Qc_add a b : Q2Qc (a + b) = (Q2Qc a + Q2Qc b)%Qc.
Proof. unfold Qcplus. apply Q2Qc_eq_iff. cbn [this Q2Qc]. rewrite !Qred_correct. reflexivity. Qed.
Lemma c15_Q2Qc_mul a b : Q2Qc (a * b) = (Q2Qc a * Q2Qc b)%Qc.
Proof. unfold Qcmult. apply Q2Qc_eq_iff. cbn [this Q2Qc]. rewrite !Qred_correct. reflexivity. Qed.
Lemma c15_Qinv_opp_eq (x : Q) : (/ (- x) == - / x)%Q.
Proof. destruct x as [[|n|n] d]; reflexivity. Qed.
Lemma c15_Qcinv_opp x : (/ (- x) = - / x)%Qc.
Proof. unfold Qcinv, Qcopp. apply Q2Qc_eq_iff. cbn [this Q2Qc]. rewrite !Qred_correct. apply c15_Qinv_opp_eq. Qed.
Definition QcS15 : Scalar :=
  {| K := Qc; k0 := 0%Qc; k1 := 1%Qc; kadd := Qcplus; kmul := Qcmult; ksub := Qcminus;
     kopp := Qcopp; kinv := Qcinv; ofQ := Q2Qc; Kring := Qcrt;
     ofQ_eq := fun a b H => proj2 (Q2Qc_eq_iff a b) H;
     ofQ_0 := eq_refl; ofQ_1 := eq_refl;
     ofQ_add := c15_Q2Qc_add; ofQ_mul := c15_Q2Qc_mul; kinv_opp := c15_Qcinv_opp |}.

(* 0 = occ alpha, 1 = occ beta, 2 = virt alpha, 3 = virt beta *)
Definition rng15 (s : space) (p : spin) : list nat :=
  match s, p with
  | Occ, Alpha => [0] | Occ, Beta => [1] | Virt, Alpha => [2] | Virt, Beta => [3]
  | Occ, NoSpin => [0; 1] | Virt, NoSpin => [2; 3]
  | Gen, Alpha => [0; 2] | Gen, Beta => [1; 3] | Gen, NoSpin => [0; 2; 1; 3]
  end%nat.
Definition ospin15 (o : nat) : sp := if Nat.odd o then SB else SA.
(* a tensor value that vanishes unless the number of alpha spins is conserved *)
Definition tv15 (k : kind) (name : string) (b : Z) (up lo : list nat) : Qc :=
  if Nat.eqb (count_a (map ospin15 up)) (count_a (map ospin15 lo))
  then Q2Qc (Z.of_nat (fold_left (fun a x => 5 * a + x + 1)%nat (up ++ lo) 2%nat) # 1)
  else 0%Qc.
Definition T15 : tmodel QcS15 := Build_tmodel QcS15 rng15 tv15 (fun _ => 1%Qc) (fun _ => 1%Qc).

Definition x_i := Idx Occ NoSpin 105 0 0.
Definition x_j := Idx Occ NoSpin 106 0 0.
Definition x_a := Idx Virt NoSpin 97 0 0.
Definition x_b := Idx Virt NoSpin 98 0 0.
Definition mp2 : term :=
  Term (1 # 4) [(ATens (Tens KAnti "V" 1 [x_i; x_j] [x_a; x_b]), false);
                (ATens (Tens KAmp "t1" 0 [x_a; x_b] [x_i; x_j]), false)].

Example ex_rng : forall s, rng T15 s NoSpin = rng T15 s Alpha ++ rng T15 s Beta.
Proof. intros [| |]; reflexivity. Qed.
Example ex_alpha : forall s o, In o (rng T15 s Alpha) -> ospin15 o = SA.
Proof. intros [| |] o H; simpl in H; intuition (subst; reflexivity). Qed.
Example ex_beta : forall s o, In o (rng T15 s Beta) -> ospin15 o = SB.
Proof. intros [| |] o H; simpl in H; intuition (subst; reflexivity). Qed.
Example ex_wf : wf_objs (objs_of (tbl_of []) (tfacs mp2)).
Proof. intros ix tb [H|[H|[]]]; inversion H; subst; (split; [|split]).
  - repeat constructor; simpl; intuition discriminate.
  - intros bl Hb. simpl in Hb. repeat (destruct Hb as [<-|Hb]; [reflexivity|]). contradiction.
  - discriminate.
  - repeat constructor; simpl; intuition discriminate.
  - intros bl Hb. simpl in Hb. repeat (destruct Hb as [<-|Hb]; [reflexivity|]). contradiction.
  - discriminate. Qed.
Example ex_vanishes : vanishes QcS15 T15 ospin15 (tbl_of []) (tfacs mp2).
Proof. intros f tb [<-|[<-|[]]] Htb r Hnin; inversion Htb; subst; clear Htb;
    unfold fac_val, atom_val, tens_val; simpl; unfold tv15; simpl in *;
    destruct (ospin15 (r x_i)), (ospin15 (r x_j)), (ospin15 (r x_a)), (ospin15 (r x_b)); simpl in *;
    try reflexivity; exfalso; apply Hnin; tauto. Qed.

(* all hypotheses of C15_integrate_value hold for the MP2-energy term (no targets):
   its spin-orbital value is the sum of the six spin-labelled terms *)
Example ex_integrate_value : forall r : env,
  exists R, integrate_objs [] (objs_of (tbl_of []) (tfacs mp2)) (atoms_idx (term_atoms mp2)) = Ok R /\
    List.length R = 6%nat /\
    eval_term QcS15 T15 [] r mp2 =
    ksum R (fun m => eval_term QcS15 T15 (map (lab m) []) (fun y => r (unspin y)) (ren_term (lab m) mp2)).
Proof. intros r.
  destruct (integrate_value QcS15 T15 ospin15 ex_rng ex_alpha ex_beta (tbl_of []) [] []
              (fun x => conj (fun H : In x [] => match H with end) (fun H => H eq_refl)) mp2
              (atoms_idx (term_atoms mp2)) (inodup_NoDup _) (fun x => atoms_idx_In (tfacs mp2) x)
              ex_wf) with (r := r) as [R [HR Hv]].
  - intros x Hx. simpl in Hx. intuition (subst; reflexivity).
  - exact ex_vanishes.
  - intros x s _ H. discriminate.
  - intros x Hx. simpl in Hx. intuition (subst; split; reflexivity).
  - exists R. split; [exact HR|]. split; [|exact Hv].
    vm_compute in HR. inversion HR. reflexivity. Qed.
