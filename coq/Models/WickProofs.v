(* WickProofs.v - the model of adcgen's Wick evaluation (Wick.v) computes the
   expectation value in the reference determinant defined independently in
   Fock.v; the counting prefilter never changes the result; Rules.apply
   removes exactly the terms with a forbidden tensor block. *)
From Coq Require Import ZArith NArith List Bool Arith Lia String.
From ADC Require Import Core.Scalar Core.Index Core.Expr Models.Fock Models.Wick.
Import ListNotations.

(* ---------- ranges ---------- *)
Lemma zsum_dl_seq y s n :
  zsum (seq s n) (fun o => dl y o) = b2z ((s <=? y) && (y <? s + n)).
Proof.
  revert s. induction n as [|n IH]; intros s; simpl.
  - destruct (s <=? y) eqn:E; simpl; [|reflexivity]. apply Nat.leb_le in E.
    replace (y <? s + 0) with false by (symmetry; apply Nat.ltb_ge; lia). reflexivity.
  - rewrite IH. unfold dl.
    destruct (Nat.eqb y s) eqn:E.
    + apply Nat.eqb_eq in E. subst y.
      replace (S s <=? s) with false by (symmetry; apply Nat.leb_gt; lia).
      rewrite Nat.leb_refl. replace (s <? s + S n) with true by (symmetry; apply Nat.ltb_lt; lia).
      reflexivity.
    + apply Nat.eqb_neq in E.
      destruct (s <=? y) eqn:E1, (S s <=? y) eqn:E2, (y <? s + S n) eqn:E3, (y <? S s + n) eqn:E4;
        try reflexivity; exfalso;
        rewrite ?Nat.leb_le, ?Nat.leb_gt, ?Nat.ltb_lt, ?Nat.ltb_ge in *; lia.
Qed.

Lemma zsum_dl_filter (P : nat -> bool) y l :
  zsum (filter P l) (fun o => dl y o) = if P y then zsum l (fun o => dl y o) else 0%Z.
Proof.
  induction l as [|x l IH]; simpl; [destruct (P y); reflexivity|].
  assert (Hne : P x <> P y -> dl y x = 0%Z).
  { intros Hne. unfold dl. destruct (Nat.eqb y x) eqn:E; [|reflexivity].
    apply Nat.eqb_eq in E. subst x. congruence. }
  destruct (P x) eqn:Ex; simpl; rewrite IH; destruct (P y) eqn:Ey; try reflexivity.
  - rewrite Hne by congruence. reflexivity.
  - rewrite Hne by congruence. reflexivity.
Qed.

Lemma zsum_dl_range M sp y : y < norb M ->
  zsum (orange M sp) (fun o => dl y o) = b2z (in_space M sp y).
Proof.
  intros Hy. unfold orange. rewrite zsum_dl_filter, zsum_dl_seq.
  replace (y <? 0 + norb M) with true by (symmetry; apply Nat.ltb_lt; lia).
  simpl. destruct (in_space M sp y); reflexivity.
Qed.

Lemma env_ok_lt M env x : env_ok M env -> env x < norb M.
Proof. intros H. specialize (H x). unfold orange in H. apply filter_In in H.
  destruct H as [H _]. apply in_seq in H. lia. Qed.
Lemma env_ok_space M env x : env_ok M env -> in_space M (ispace x) (env x) = true.
Proof. intros H. specialize (H x). unfold orange in H. apply filter_In in H. tauto. Qed.

(* ---------- a contraction is the expectation value of the pair ---------- *)
Lemma vev_pair M (a b : eop) : snd a < norb M ->
  vev M [a; b] =
  b2z (xorb (fst a) (fst b) && Nat.eqb (snd a) (snd b) && Bool.eqb (fst a) (is_occ M (snd a))).
Proof.
  intros Hx. destruct (qann M a) eqn:Ha.
  - rewrite (vev_pair_qann M a b Ha). unfold acomm, qcre, qann in *.
    destruct a as [ca x], b as [cb y]; simpl in *. rewrite Ha, andb_true_r.
    destruct (xorb ca cb) eqn:Hc; simpl; [|reflexivity].
    destruct (Nat.eqb x y) eqn:Hxy; simpl; [|reflexivity].
    apply Nat.eqb_eq in Hxy. subst y. apply eqb_prop in Ha. rewrite <- Ha.
    destruct ca, cb; simpl in *; try discriminate; reflexivity.
  - assert (Hq : qcre M a = true) by (unfold qcre; rewrite Ha; reflexivity).
    rewrite (vev_qcre_first M a [b] Hx Hq). unfold qann in Ha. rewrite Ha, andb_false_r. reflexivity.
Qed.

Theorem contraction_is_vev M env a b : env_ok M env ->
  cres_val M env (contraction a b) = vev M [inst env a; inst env b].
Proof.
  intros Hok. rewrite vev_pair by (simpl; apply (env_ok_lt M env _ Hok)).
  destruct a as [ca p], b as [cb q]. unfold contraction, inst; simpl fst; simpl snd; simpl ocre; simpl oidx.
  pose proof (env_ok_space M env p Hok) as Hp. pose proof (env_ok_space M env q Hok) as Hq.
  pose proof (env_ok_lt M env q Hok) as Hlq.
  assert (Hd : forall sp, cres_val M env (CDelta2 p q sp)
                 = (dl (env p) (env q) * b2z (in_space M sp (env q)))%Z).
  { intros sp. simpl. rewrite zsum_scal, zsum_dl_range by exact Hlq. reflexivity. }
  unfold contraction_table.
  assert (Hd' : forall sp : space, cres_val M env (CDelta p q) = dl (env p) (env q)) by reflexivity.
  revert Hd Hd' Hp Hq. generalize (env p) (env q). intros x y Hd Hd' Hp Hq.
  destruct ca, cb; simpl andb; cbv iota; try reflexivity;
    destruct (ispace p), (ispace q); simpl is_o; simpl is_v; simpl orb; cbv iota;
    rewrite ?Hd, ?(Hd' Gen); simpl cres_val; unfold dl; simpl in Hp, Hq;
    (destruct (Nat.eqb x y) eqn:E; [apply Nat.eqb_eq in E; subst y|]);
    destruct (is_occ M x) eqn:O; simpl in *; try discriminate; try reflexivity;
    try (destruct (is_occ M y); simpl in *; try discriminate; reflexivity);
    try (rewrite O; reflexivity).
Qed.

(* ---------- value of lists of contributions ---------- *)
Lemma wval_attach M env n c sub :
  wval M env (map (attach n c) sub) = (zsgn n * cres_val M env c * wval M env sub)%Z.
Proof.
  unfold wval. rewrite zsum_map, <- zsum_scal. apply zsum_ext. intros [s cs] _.
  unfold wterm_val, attach; cbn [fst snd map zprod]. destruct n, s; cbn [xorb zsgn]; ring.
Qed.

Lemma isgn_zsgn i : isgn i = zsgn (Nat.even i).
Proof. reflexivity. Qed.

Lemma splits_map {A B} (f : A -> B) i pre l :
  splits i (map f pre) (map f l) =
  map (fun s : nat * list A * A * list A =>
         let '(j, p, x, q) := s in (j, map f p, f x, map f q)) (splits i pre l).
Proof.
  revert i pre. induction l as [|x l IH]; intros i pre; simpl; [reflexivity|].
  f_equal. rewrite <- IH. rewrite map_app. reflexivity.
Qed.

(* one level of the recursion, for either variant *)
Definition step (uf : bool) (f : nat) (a : op) (s : nat * list op * op * list op) : list wterm :=
  let '(i, pre, b, post) := s in
  match contraction a b with
  | CZero => []
  | c => map (attach (Nat.even i) c)
             (match pre ++ post with [] => [(false, [])] | rem => contract_f uf f rem end)
  end.
Lemma contract_f_S uf f ops :
  contract_f uf (S f) ops =
  if uf && negb (prefilter ops) then []
  else match ops with [] => [] | a :: rest => flat_map (step uf f a) (splits 1 [] rest) end.
Proof. reflexivity. Qed.

Lemma wval_step M env uf f a i pre b post :
  wval M env (step uf f a (i, pre, b, post)) =
  (isgn i * cres_val M env (contraction a b) *
   wval M env (match pre ++ post with [] => [(false, [])] | rem => contract_f uf f rem end))%Z.
Proof.
  unfold step. rewrite isgn_zsgn.
  destruct (contraction a b) eqn:E.
  - change (cres_val M env CZero) with 0%Z. unfold wval at 1. cbn [zsum]. ring.
  - apply wval_attach.
  - apply wval_attach.
Qed.

(* ---------- the plain recursion computes the expectation value ---------- *)
Lemma contract_nofilter_is_vev M env : env_ok M env ->
  forall fuel ops, List.length ops <= fuel -> ops <> [] ->
  wval M env (contract_f false fuel ops) = vev M (map (inst env) ops).
Proof.
  intros Hok. induction fuel as [|f IH]; intros ops Hlen Hne.
  - destruct ops; [congruence|simpl in Hlen; lia].
  - destruct ops as [|a rest]; [congruence|].
    rewrite contract_f_S. simpl andb. cbv iota.
    unfold wval at 1. rewrite zsum_flat_map.
    simpl map. rewrite vev_first_against_rest by (simpl; apply (env_ok_lt M env _ Hok)).
    change (@nil eop) with (map (inst env) []).
    rewrite splits_map, zsum_map.
    apply zsum_ext. intros [[[i pre] b] post] Hin.
    fold (wval M env (step false f a (i, pre, b, post))). rewrite wval_step.
    rewrite (contraction_is_vev M env a b Hok).
    apply splits_In in Hin. destruct Hin as [Hin _]. simpl in Hin.
    assert (Hl : List.length (pre ++ post) <= f).
    { simpl in Hlen. rewrite Hin in Hlen. rewrite app_length in *. simpl in Hlen. lia. }
    rewrite <- map_app.
    destruct (pre ++ post) as [|o rem] eqn:E.
    + simpl map. rewrite vev_nil. reflexivity.
    + rewrite IH by (auto; discriminate). reflexivity.
Qed.

(* ---------- the prefilter ---------- *)
Lemma cnt_app f l1 l2 : cnt f (l1 ++ l2) = cnt f l1 + cnt f l2.
Proof. induction l1 as [|x l IH]; simpl; [reflexivity|]. rewrite IH. lia. Qed.
Definition b2n (b : bool) : nat := if b then 1 else 0.
Lemma cnt_split f a p b q : cnt f (a :: p ++ b :: q) = b2n (f a) + b2n (f b) + cnt f (p ++ q).
Proof. simpl. rewrite !cnt_app. simpl. unfold b2n. lia. Qed.
Lemma even_split (a : op) p b q :
  Nat.even (List.length (a :: p ++ b :: q)) = Nat.even (List.length (p ++ q)).
Proof. simpl. rewrite !app_length. simpl. rewrite Nat.add_succ_r. reflexivity. Qed.

Lemma prefilter_remove a p b q : contraction a b <> CZero ->
  prefilter (a :: p ++ b :: q) = false -> prefilter (p ++ q) = false.
Proof.
  intros Hc. unfold prefilter. rewrite even_split, !cnt_split.
  generalize (Nat.even (List.length (p ++ q))) (cnt (is_c Occ) (p ++ q)) (cnt (is_c Virt) (p ++ q))
             (cnt (is_a Occ) (p ++ q)) (cnt (is_a Virt) (p ++ q)) (cnt (is_a Gen) (p ++ q)).
  intros e n1 n2 n3 n4 n5.
  destruct a as [ca [spa sa la na ua]], b as [cb [spb sb lb nb ub]].
  destruct ca, cb, spa, spb; try (exfalso; apply Hc; reflexivity); clear Hc;
    cbv [is_c is_a ocre oidx ispace space_eqb space_code N.eqb Pos.eqb andb negb b2n];
    destruct e; try reflexivity; intros H;
    repeat match goal with
           | |- context [Nat.leb ?x ?y] => destruct (Nat.leb_spec x y)
           | H0 : context [Nat.leb ?x ?y] |- _ => destruct (Nat.leb_spec x y)
           end; try reflexivity; try discriminate; lia.
Qed.

Lemma prefilter_nil : prefilter [] = true.
Proof. reflexivity. Qed.

Lemma flat_map_nil {A B} (g : A -> list B) l : (forall x, In x l -> g x = []) -> flat_map g l = [].
Proof. induction l as [|x l IH]; simpl; intros H; [reflexivity|]. rewrite (H x), IH; auto. Qed.

Theorem prefilter_sound_fuel fuel ops : prefilter ops = false -> contract_f false fuel ops = [].
Proof.
  revert ops. induction fuel as [|f IH]; intros ops Hpf; [reflexivity|].
  rewrite contract_f_S. simpl andb. cbv iota.
  destruct ops as [|a rest]; [reflexivity|].
  apply flat_map_nil. intros [[[i pre] b] post] Hin. unfold step.
  apply splits_In in Hin. destruct Hin as [Hin _]. simpl in Hin. subst rest.
  destruct (contraction a b) eqn:E; [reflexivity| |].
  - assert (Hp : prefilter (pre ++ post) = false) by (apply (prefilter_remove a pre b post); congruence).
    destruct (pre ++ post) as [|o rem]; [discriminate|]. rewrite IH by exact Hp. reflexivity.
  - assert (Hp : prefilter (pre ++ post) = false) by (apply (prefilter_remove a pre b post); congruence).
    destruct (pre ++ post) as [|o rem]; [discriminate|]. rewrite IH by exact Hp. reflexivity.
Qed.

Theorem contract_filter_irrelevant fuel ops : contract_f true fuel ops = contract_f false fuel ops.
Proof.
  revert ops. induction fuel as [|f IH]; intros ops; [reflexivity|].
  destruct (prefilter ops) eqn:Hpf.
  - rewrite !contract_f_S, Hpf. simpl.
    destruct ops as [|a rest]; [reflexivity|].
    apply flat_map_ext. intros [[[i pre] b] post]. unfold step.
    destruct (contraction a b); try reflexivity; destruct (pre ++ post); try reflexivity; rewrite IH; reflexivity.
  - rewrite (prefilter_sound_fuel (S f) ops Hpf). rewrite contract_f_S, Hpf. reflexivity.
Qed.

(* ---------- main theorems ---------- *)
Theorem contract_is_vev M env ops : env_ok M env -> ops <> [] ->
  wval M env (contract ops) = vev M (map (inst env) ops).
Proof.
  intros Hok Hne. unfold contract. rewrite contract_filter_irrelevant.
  apply contract_nofilter_is_vev; auto.
Qed.

Theorem prefilter_sound ops : prefilter ops = false -> contract_nofilter ops = [].
Proof. apply prefilter_sound_fuel. Qed.

Theorem contract_eq_nofilter ops : contract ops = contract_nofilter ops.
Proof. apply contract_filter_irrelevant. Qed.

Corollary prefilter_false_vev_zero M env ops : env_ok M env ->
  prefilter ops = false -> vev M (map (inst env) ops) = 0%Z.
Proof.
  intros Hok Hpf. destruct ops as [|a r]; [discriminate|].
  rewrite <- (contract_nofilter_is_vev M env Hok (List.length (a :: r)) (a :: r)) by (auto; discriminate).
  fold (contract_nofilter (a :: r)). rewrite (prefilter_sound _ Hpf). reflexivity.
Qed.

Theorem wicks_ops_is_vev M env ops : env_ok M env ->
  wval M env (wicks_ops ops) = vev M (map (inst env) ops).
Proof.
  intros Hok. destruct ops as [|a [|b r]].
  - simpl. rewrite vev_nil. reflexivity.
  - simpl wicks_ops. rewrite <- (contract_is_vev M env [a] Hok) by discriminate. reflexivity.
  - apply contract_is_vev; [exact Hok|discriminate].
Qed.

(* ---------- Rules.apply ---------- *)
Lemma block_eqb_eq a b : block_eqb a b = true <-> a = b.
Proof.
  revert b. induction a as [|x a IH]; destruct b as [|y b]; simpl; try (split; congruence).
  rewrite andb_true_iff, space_eqb_eq, IH. split; [intros [-> ->]; reflexivity|intros H; inversion H; auto].
Qed.

(* the atom is a tensor whose (name, block) is listed *)
Definition forbidden_spec (r : rules) (a : atom) : Prop :=
  exists t bl, a = ATens t /\ lookup (tname t) r = Some bl /\ In (map ispace (tens_idx t)) bl.

Lemma forbidden_iff r a : forbidden r a = true <-> forbidden_spec r a.
Proof.
  unfold forbidden, forbidden_spec. destruct a as [t|i j|n|q|p]; simpl;
    try (split; [discriminate|intros (t' & bl & H & _); discriminate]).
  destruct (lookup (tname t) r) as [bl|] eqn:E.
  - rewrite existsb_exists. split.
    + intros (b & Hb & Heq). apply block_eqb_eq in Heq. exists t, bl. subst b. auto.
    + intros (t' & bl' & Ht & Hl & Hin). inversion Ht; subst t'. rewrite E in Hl. inversion Hl; subst bl'.
      eexists; split; [exact Hin|]. apply block_eqb_eq. reflexivity.
  - split; [discriminate|]. intros (t' & bl' & Ht & Hl & _). inversion Ht; subst t'. congruence.
Qed.

Theorem rules_exact r e t :
  In t (rules_apply r e) <->
  In t e /\ forall f, In f (tfacs t) -> ~ forbidden_spec r (fst f).
Proof.
  assert (H : In t (filter (fun t => negb (term_forbidden r t)) e) <->
              In t e /\ forall f, In f (tfacs t) -> ~ forbidden_spec r (fst f)).
  { rewrite filter_In. unfold term_forbidden. rewrite negb_true_iff.
    split; intros [H1 H2]; split; auto.
    - intros f Hf Hs. apply forbidden_iff in Hs.
      assert (existsb (fun f => forbidden r (fst f)) (tfacs t) = true)
        by (apply existsb_exists; eauto). congruence.
    - destruct (existsb (fun f => forbidden r (fst f)) (tfacs t)) eqn:E; [|reflexivity].
      apply existsb_exists in E. destruct E as (f & Hf & Hb). apply forbidden_iff in Hb.
      exfalso. eapply H2; eauto. }
  destruct r as [|kv r']; [|exact H].
  simpl. split; [|tauto]. intros Hin. split; [exact Hin|].
  intros f _ (t' & bl & _ & Hl & _). discriminate.
Qed.

(* rules_apply keeps the order and multiplicity of the surviving terms *)
Theorem rules_apply_filter r e :
  rules_apply r e = filter (fun t => negb (term_forbidden r t)) e.
Proof.
  destruct r as [|kv r']; [|reflexivity]. simpl.
  induction e as [|t e IH]; simpl; [reflexivity|].
  replace (term_forbidden [] t) with false; [simpl; rewrite <- IH; reflexivity|].
  unfold term_forbidden. symmetry. induction (tfacs t) as [|f fs IHf]; simpl; [reflexivity|].
  rewrite <- IHf. unfold forbidden. destruct (obj_name (fst f)); reflexivity.
Qed.

(* ---------- normal-ordered groups ---------- *)
Lemma op_qcre_inst M env a : env_ok M env -> op_ov a = true ->
  qcre M (inst env a) = op_qcre a.
Proof.
  intros Hok Hov. pose proof (env_ok_space M env (oidx a) Hok) as Hs.
  unfold qcre, qann, inst, op_qcre, op_ov in *. simpl fst. simpl snd.
  destruct (ocre a), (ispace (oidx a)); simpl in *; try discriminate;
    try (rewrite Hs; reflexivity);
    apply negb_true_iff in Hs; rewrite Hs; reflexivity.
Qed.

Lemma filter_map_inst env (f : op -> bool) (g : eop -> bool) l :
  (forall a, In a l -> g (inst env a) = f a) ->
  filter g (map (inst env) l) = map (inst env) (filter f l).
Proof.
  induction l as [|x r IH]; intros H; simpl; [reflexivity|].
  rewrite (H x) by (left; reflexivity).
  rewrite IH by (intros a Ha; apply H; right; exact Ha).
  destruct (f x); reflexivity.
Qed.

Lemma flatten_NO_inst M env g : env_ok M env -> forallb op_ov g = true ->
  normal_order M (map (inst env) g) =
  (fst (flatten_NO g), map (inst env) (snd (flatten_NO g))).
Proof.
  intros Hok Hov. rewrite forallb_forall in Hov.
  assert (Hq : forall a, In a g -> qcre M (inst env a) = op_qcre a)
    by (intros a Ha; apply op_qcre_inst; auto).
  unfold normal_order, flatten_NO. simpl fst. simpl snd. f_equal.
  - clear Hov. induction g as [|x r IH]; [reflexivity|]. simpl.
    rewrite IH by (intros a Ha; apply Hq; right; exact Ha).
    rewrite (Hq x) by (left; reflexivity).
    rewrite (filter_map_inst env op_qcre (qcre M) r) by (intros a Ha; apply Hq; right; exact Ha).
    rewrite map_length. reflexivity.
  - rewrite map_app.
    rewrite (filter_map_inst env op_qcre (qcre M) g Hq).
    rewrite (filter_map_inst env (fun o => negb (op_qcre o)) (fun o => negb (qcre M o)) g)
      by (intros a Ha; rewrite Hq by exact Ha; reflexivity).
    reflexivity.
Qed.

Definition inst_group (env : index -> nat) (g : ogroup) : group := (fst g, map (inst env) (snd g)).

Lemma flatten_groups_inst M env gs : env_ok M env -> groups_ok gs = true ->
  expand_groups M (map (inst_group env) gs) =
  (fst (flatten_groups gs), map (inst env) (snd (flatten_groups gs))).
Proof.
  intros Hok. induction gs as [|[is_no g] r IH]; intros Hg; [reflexivity|].
  unfold groups_ok in Hg. cbn [forallb fst snd] in Hg.
  apply andb_true_iff in Hg. destruct Hg as [Hg1 Hg2].
  cbn [map inst_group fst snd expand_groups flatten_groups].
  unfold groups_ok in IH. rewrite IH by exact Hg2.
  destruct (flatten_groups r) as [s l]. cbn [fst snd].
  destruct is_no.
  - cbn [negb orb] in Hg1. rewrite (flatten_NO_inst M env g Hok Hg1).
    destruct (flatten_NO g) as [t g']. cbn [fst snd]. rewrite map_app. reflexivity.
  - cbn [fst snd]. rewrite map_app. reflexivity.
Qed.

(* products with normal-ordered groups (occ/virt indices inside the groups):
   the model's result has the value of the product in which every group has
   its own (independent) normal-order meaning *)
Theorem no_flatten_sound M env gs : env_ok M env -> groups_ok gs = true ->
  wval M env (wicks_groups gs) = gvev M (map (inst_group env) gs).
Proof.
  intros Hok Hg. unfold gvev, wicks_groups.
  rewrite (flatten_groups_inst M env gs Hok Hg).
  destruct (flatten_groups gs) as [s l]. simpl fst. simpl snd.
  rewrite <- (wicks_ops_is_vev M env l Hok).
  unfold wval. rewrite zsum_map, <- zsum_scal. apply zsum_ext. intros [n cs] _.
  unfold wterm_val. simpl fst. simpl snd. destruct s, n; cbn [xorb zsgn]; ring.
Qed.

(* a single normal-ordered group has expectation value zero (wicks returns
   S.Zero for NO objects) *)
Theorem no_group_vev_zero M env g : env_ok M env -> g <> [] ->
  gvev M [(true, map (inst env) g)] = 0%Z.
Proof.
  intros Hok Hne. unfold gvev. simpl expand_groups.
  pose proof (vev_normal_ordered M (map (inst env) g)) as H.
  unfold normal_order in *. simpl snd in H. rewrite app_nil_r.
  rewrite H; [lia| |].
  - destruct g; [congruence|discriminate].
  - intros o Ho. apply in_map_iff in Ho. destruct Ho as (a & <- & _). simpl.
    apply (env_ok_lt M env _ Hok).
Qed.

(* sympy's KroneckerDelta evaluates on construction; these evaluations do not
   change values (used by the harness when it canonicalises results) *)
Lemma dl_refl x : dl x x = 1%Z.
Proof. unfold dl. rewrite Nat.eqb_refl. reflexivity. Qed.
Lemma dl_sym x y : dl x y = dl y x.
Proof. unfold dl. rewrite Nat.eqb_sym. reflexivity. Qed.
Lemma dl_idem x y : (dl x y * dl x y)%Z = dl x y.
Proof. unfold dl. destruct (Nat.eqb x y); reflexivity. Qed.
Lemma dl_occ_virt M env p q : env_ok M env -> ispace p = Occ -> ispace q = Virt ->
  dl (env p) (env q) = 0%Z.
Proof.
  intros Hok Hp Hq. pose proof (env_ok_space M env p Hok) as H1.
  pose proof (env_ok_space M env q Hok) as H2. rewrite Hp in H1. rewrite Hq in H2.
  simpl in H1, H2. unfold dl. destruct (Nat.eqb (env p) (env q)) eqn:E; [|reflexivity].
  apply Nat.eqb_eq in E. rewrite E in H1. rewrite H1 in H2. discriminate.
Qed.

(* ---------- with tensor coefficients, summed over contracted indices ---------- *)
Section WithTensors.
Variable S : Scalar.
Definition zK (z : Z) : K S := ofQ S (QArith_base.inject_Z z).

(* sum over all assignments of the indices xs within the range of their space *)
Fixpoint sum_idx (M : orbmodel) (xs : list index) (env : index -> nat)
         (F : (index -> nat) -> K S) : K S :=
  match xs with
  | [] => F env
  | x :: r => ksum (orange M (ispace x)) (fun o => sum_idx M r (Expr.upd env x o) F)
  end.

Lemma env_ok_upd M env x o : env_ok M env -> In o (orange M (ispace x)) ->
  env_ok M (Expr.upd env x o).
Proof.
  intros Hok Ho y. unfold Expr.upd. destruct (index_eqb y x) eqn:E; [|apply Hok].
  apply index_eqb_eq in E. subst y. exact Ho.
Qed.

Lemma sum_idx_ext M xs env F G :
  env_ok M env -> (forall e, env_ok M e -> F e = G e) ->
  sum_idx M xs env F = sum_idx M xs env G.
Proof.
  revert env. induction xs as [|x r IH]; intros env Hok H; simpl; [apply H; exact Hok|].
  apply ksum_ext. intros o Ho. apply IH; [apply env_ok_upd; assumption|exact H].
Qed.

(* For every tensor part T (any function of the orbital assignment, i.e. any
   tensors with any values), every set xs of contracted indices and every
   assignment of the remaining indices: the model's result, multiplied by the
   tensors and summed over xs, equals the expectation value of the operator
   product (normal-ordered groups with their own meaning) multiplied by the
   tensors and summed over xs. *)
Theorem wicks_value M env gs (T : (index -> nat) -> K S) xs :
  env_ok M env -> groups_ok gs = true ->
  sum_idx M xs env (fun e => kmul S (T e) (zK (wval M e (wicks_groups gs)))) =
  sum_idx M xs env (fun e => kmul S (T e) (zK (gvev M (map (inst_group e) gs)))).
Proof.
  intros Hok Hg. apply sum_idx_ext; [exact Hok|].
  intros e He. rewrite (no_flatten_sound M e gs He Hg). reflexivity.
Qed.
End WithTensors.
