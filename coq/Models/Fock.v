(* Fock.v - independent semantics of strings of elementary fermionic operators:
   action of creators / annihilators on determinants (occupation functions)
   with the textbook phase, matrix elements, the expectation value in the
   reference determinant, the canonical anticommutation relations and the
   recursion (first operator against every later one) that follows from them.
   Nothing in this file knows about adcgen; Wick.v models the library,
   WickProofs.v connects the two. *)
From Coq Require Import ZArith List Bool Lia Arith.
Import ListNotations.

(* ---------- determinants ---------- *)
Definition det := nat -> bool.
Definition upd (d : det) (x : nat) (b : bool) : det :=
  fun y => if Nat.eqb y x then b else d y.
Arguments upd : simpl never.

Lemma upd_same d x b : upd d x b x = b.
Proof. unfold upd. rewrite Nat.eqb_refl. reflexivity. Qed.
Lemma upd_other d x b y : y <> x -> upd d x b y = d y.
Proof. intros H. unfold upd. apply Nat.eqb_neq in H. rewrite H. reflexivity. Qed.

(* number (mod 2) of occupied orbitals below x *)
Fixpoint parity (d : det) (x : nat) : bool :=
  match x with 0 => false | S x' => xorb (d x') (parity d x') end.

Lemma parity_ext d1 d2 x : (forall y, d1 y = d2 y) -> parity d1 x = parity d2 x.
Proof. intros H. induction x as [|x IH]; simpl; [reflexivity|]. rewrite H, IH. reflexivity. Qed.

Lemma parity_upd d y b x :
  parity (upd d y b) x = if y <? x then xorb (parity d x) (xorb (d y) b) else parity d x.
Proof.
  induction x as [|x IH]; simpl parity.
  - reflexivity.
  - rewrite IH. destruct (Nat.eq_dec x y) as [->|Hne].
    + rewrite upd_same, Nat.ltb_irrefl.
      replace (y <? S y) with true by (symmetry; apply Nat.ltb_lt; lia).
      destruct b, (d y), (parity d y); reflexivity.
    + rewrite upd_other by exact Hne.
      destruct (y <? x) eqn:E.
      * apply Nat.ltb_lt in E. replace (y <? S x) with true by (symmetry; apply Nat.ltb_lt; lia).
        destruct b, (d y), (d x), (parity d x); reflexivity.
      * apply Nat.ltb_ge in E. replace (y <? S x) with false by (symmetry; apply Nat.ltb_ge; lia).
        reflexivity.
Qed.

(* ---------- elementary operators and their action ---------- *)
(* (true, x) = creator a+_x ; (false, x) = annihilator a_x *)
Definition eop := (bool * nat)%type.
(* a signed determinant or the zero vector *)
Definition state := option (bool * det).

Definition act1 (o : eop) (st : state) : state :=
  match st with
  | None => None
  | Some (s, d) =>
      if Bool.eqb (d (snd o)) (fst o) then None
      else Some (xorb s (parity d (snd o)), upd d (snd o) (fst o))
  end.

(* the product o1 o2 ... on : on acts first *)
Definition run (ops : list eop) (st : state) : state := fold_right act1 st ops.
Definition apply (ops : list eop) (d : det) : state := run ops (Some (false, d)).

Lemma run_app u w st : run (u ++ w) st = run u (run w st).
Proof. unfold run. apply fold_right_app. Qed.
Lemma run_cons o r st : run (o :: r) st = act1 o (run r st).
Proof. reflexivity. Qed.
Lemma run_None u : run u None = None.
Proof. induction u as [|o u IH]; simpl; [reflexivity|]. rewrite IH. reflexivity. Qed.

(* equality of states up to a sign, determinants compared pointwise *)
Definition steq (neg : bool) (s1 s2 : state) : Prop :=
  match s1, s2 with
  | None, None => True
  | Some (a, d1), Some (b, d2) => a = xorb neg b /\ forall y, d1 y = d2 y
  | _, _ => False
  end.

Lemma steq_refl st : steq false st st.
Proof. destruct st as [[s d]|]; simpl; [split; [destruct s; reflexivity|auto]|exact I]. Qed.

Lemma act1_steq n o s1 s2 : steq n s1 s2 -> steq n (act1 o s1) (act1 o s2).
Proof.
  destruct s1 as [[a d1]|], s2 as [[b d2]|]; simpl; try tauto.
  intros [Hs Hd]. rewrite (Hd (snd o)).
  destruct (Bool.eqb (d2 (snd o)) (fst o)); simpl; [exact I|].
  split.
  - rewrite (parity_ext d1 d2 _ Hd), Hs. destruct n, b, (parity d2 (snd o)); reflexivity.
  - intros y. unfold upd. destruct (Nat.eqb y (snd o)); auto.
Qed.
Lemma run_steq n u s1 s2 : steq n s1 s2 -> steq n (run u s1) (run u s2).
Proof. intros H. induction u as [|o u IH]; simpl; [exact H|]. apply act1_steq; exact IH. Qed.

(* ---------- matrix elements ---------- *)
Definition deqb (n : nat) (d1 d2 : det) : bool :=
  forallb (fun x => Bool.eqb (d1 x) (d2 x)) (seq 0 n).
Definition zsgn (b : bool) : Z := if b then (-1)%Z else 1%Z.

Lemma deqb_true n d1 d2 : deqb n d1 d2 = true <-> forall x, x < n -> d1 x = d2 x.
Proof. unfold deqb. rewrite forallb_forall. split.
  - intros H x Hx. apply eqb_prop. apply H. apply in_seq. lia.
  - intros H x Hx. apply in_seq in Hx. rewrite H by lia. apply eqb_reflx. Qed.
Lemma deqb_ext n d1 d2 d : (forall y, d1 y = d2 y) -> deqb n d1 d = deqb n d2 d.
Proof. intros H. unfold deqb. induction (seq 0 n) as [|x l IH]; simpl; [reflexivity|].
  rewrite H, IH. reflexivity. Qed.

(* <d'| st > *)
Definition sval (n : nat) (st : state) (d' : det) : Z :=
  match st with
  | None => 0%Z
  | Some (s, d) => if deqb n d d' then zsgn s else 0%Z
  end.

Lemma sval_steq n neg s1 s2 d' : steq neg s1 s2 -> sval n s1 d' = (zsgn neg * sval n s2 d')%Z.
Proof.
  destruct s1 as [[a d1]|], s2 as [[b d2]|]; simpl; try tauto.
  - intros [Hs Hd]. rewrite (deqb_ext n d1 d2 d' Hd). destruct (deqb n d2 d'); [|lia].
    subst a. destruct neg, b; reflexivity.
  - intros _. lia.
Qed.

(* <d'| o1 ... on |d>  over n spin orbitals *)
Definition amp (n : nat) (ops : list eop) (d d' : det) : Z := sval n (apply ops d) d'.

(* the anticommutator {a, b} of two elementary operators *)
Definition acomm (a b : eop) : bool := xorb (fst a) (fst b) && Nat.eqb (snd a) (snd b).
Definition b2z (b : bool) : Z := if b then 1%Z else 0%Z.

(* canonical anticommutation relations, at the level of states *)
Lemma car_state_zero a b st : acomm a b = false ->
  steq true (act1 a (act1 b st)) (act1 b (act1 a st)).
Proof.
  destruct a as [ca x], b as [cb y]. unfold acomm; simpl fst; simpl snd. intros Hac.
  destruct st as [[s d]|]; [|exact I].
  destruct (Nat.eq_dec x y) as [->|Hxy].
  - (* same orbital, hence same kind: both orders vanish *)
    rewrite Nat.eqb_refl, andb_true_r in Hac.
    assert (ca = cb) by (destruct ca, cb; simpl in Hac; congruence). subst cb.
    unfold act1; simpl fst; simpl snd.
    destruct (Bool.eqb (d y) ca) eqn:E; [exact I|].
    rewrite upd_same, eqb_reflx. exact I.
  - (* different orbitals *)
    unfold act1; simpl fst; simpl snd.
    destruct (Bool.eqb (d y) cb) eqn:Ey, (Bool.eqb (d x) ca) eqn:Ex;
      rewrite ?upd_other by auto; rewrite ?Ex, ?Ey; try exact I.
    split.
    + rewrite !parity_upd.
      destruct (Nat.lt_total x y) as [Hlt|[Heq|Hgt]]; [|congruence|].
      * replace (y <? x) with false by (symmetry; apply Nat.ltb_ge; lia).
        replace (x <? y) with true by (symmetry; apply Nat.ltb_lt; lia).
        destruct s, (parity d x), (parity d y), (d x), ca; simpl in Ex; try discriminate; reflexivity.
      * replace (y <? x) with true by (symmetry; apply Nat.ltb_lt; lia).
        replace (x <? y) with false by (symmetry; apply Nat.ltb_ge; lia).
        destruct s, (parity d x), (parity d y), (d y), cb; simpl in Ey; try discriminate; reflexivity.
    + intros z. unfold upd.
      destruct (Nat.eqb z x) eqn:E1, (Nat.eqb z y) eqn:E2; try reflexivity.
      apply Nat.eqb_eq in E1, E2. congruence.
Qed.

Lemma car_state_one a b s d : acomm a b = true ->
  (act1 a (act1 b (Some (s, d))) = None /\ steq false (act1 b (act1 a (Some (s, d)))) (Some (s, d))) \/
  (act1 b (act1 a (Some (s, d))) = None /\ steq false (act1 a (act1 b (Some (s, d)))) (Some (s, d))).
Proof.
  destruct a as [ca x], b as [cb y]. unfold acomm; simpl fst; simpl snd. intros Hac.
  apply andb_true_iff in Hac. destruct Hac as [Hc Hxy]. apply Nat.eqb_eq in Hxy. subst y.
  assert (Hcb : cb = negb ca) by (destruct ca, cb; simpl in Hc; try reflexivity; discriminate). subst cb.
  unfold act1; simpl fst; simpl snd.
  destruct (Bool.eqb (d x) ca) eqn:Ex.
  - (* d x = ca : a vanishes on d, b then a restores d *)
    right. split; [reflexivity|].
    apply eqb_prop in Ex.
    replace (Bool.eqb (d x) (negb ca)) with false by (rewrite Ex; destruct ca; reflexivity).
    rewrite upd_same. replace (Bool.eqb (negb ca) ca) with false by (destruct ca; reflexivity).
    simpl. split.
    + rewrite parity_upd, Nat.ltb_irrefl. destruct s, (parity d x); reflexivity.
    + intros z. unfold upd. destruct (Nat.eqb z x) eqn:E; [|reflexivity].
      apply Nat.eqb_eq in E. subst z. symmetry. exact Ex.
  - left.
    assert (Hd : d x = negb ca) by (destruct (d x), ca; simpl in Ex; try reflexivity; discriminate).
    replace (Bool.eqb (d x) (negb ca)) with true by (rewrite Hd; symmetry; apply eqb_reflx).
    split; [reflexivity|].
    rewrite upd_same. replace (Bool.eqb ca (negb ca)) with false by (destruct ca; reflexivity).
    simpl. split.
    + rewrite parity_upd, Nat.ltb_irrefl. destruct s, (parity d x); reflexivity.
    + intros z. unfold upd. destruct (Nat.eqb z x) eqn:E; [|reflexivity].
      apply Nat.eqb_eq in E. subst z. symmetry. exact Hd.
Qed.

(* {a,b} = [a,b]_+ as an identity between matrix elements of arbitrary
   products between arbitrary determinants *)
Theorem car_amp n u a b v d d' :
  (amp n (u ++ a :: b :: v) d d' + amp n (u ++ b :: a :: v) d d')%Z
  = (b2z (acomm a b) * amp n (u ++ v) d d')%Z.
Proof.
  unfold amp, apply. rewrite !run_app, !run_cons.
  generalize (run v (Some (false, d))). intros st.
  destruct (acomm a b) eqn:Hac; simpl b2z.
  - destruct st as [[s e]|].
    + destruct (car_state_one a b s e Hac) as [[H0 H1]|[H0 H1]].
      * rewrite H0, run_None. change (sval n None d') with 0%Z.
        rewrite (sval_steq n false _ _ d' (run_steq false u _ _ H1)). simpl zsgn. lia.
      * rewrite H0, run_None. change (sval n None d') with 0%Z.
        rewrite (sval_steq n false _ _ d' (run_steq false u _ _ H1)). simpl zsgn. lia.
    + simpl act1. rewrite run_None. simpl. lia.
  - rewrite (sval_steq n true _ _ d' (run_steq true u _ _ (car_state_zero a b st Hac))).
    simpl zsgn. lia.
Qed.

(* ---------- orbital model and the reference determinant ---------- *)
Record orbmodel := { norb : nat; is_occ : nat -> bool }.

Definition vev (M : orbmodel) (ops : list eop) : Z :=
  amp (norb M) ops (is_occ M) (is_occ M).

(* quasi-annihilators (annihilate the reference): a_virt, a+_occ;
   quasi-creators: a+_virt, a_occ *)
Definition qann (M : orbmodel) (o : eop) : bool := Bool.eqb (fst o) (is_occ M (snd o)).
Definition qcre (M : orbmodel) (o : eop) : bool := negb (qann M o).

Lemma vev_nil M : vev M [] = 1%Z.
Proof. unfold vev, amp, apply; simpl.
  replace (deqb (norb M) (is_occ M) (is_occ M)) with true; [reflexivity|].
  symmetry. apply deqb_true. auto. Qed.

(* a |Phi> = 0 for a quasi-annihilator *)
Theorem vev_qann_last M (u : list eop) (a : eop) : qann M a = true -> vev M (u ++ [a]) = 0%Z.
Proof.
  intros H. unfold vev, amp, apply. rewrite run_app, run_cons. simpl run. unfold act1.
  unfold qann in H. apply eqb_prop in H. rewrite <- H, eqb_reflx, run_None. reflexivity.
Qed.

(* <Phi| a = 0 for a quasi-creator *)
Theorem vev_qcre_first M (a : eop) (v : list eop) : snd a < norb M -> qcre M a = true -> vev M (a :: v) = 0%Z.
Proof.
  intros Hx H. unfold vev, amp, apply. rewrite run_cons.
  match goal with |- context [run v ?st0] => destruct (run v st0) as [[s d]|] end; [|reflexivity].
  unfold act1. destruct (Bool.eqb (d (snd a)) (fst a)); [reflexivity|]. simpl sval.
  destruct (deqb (norb M) (upd d (snd a) (fst a)) (is_occ M)) eqn:E; [|reflexivity].
  exfalso. rewrite deqb_true in E. specialize (E (snd a) Hx). rewrite upd_same in E.
  unfold qcre, qann in H. rewrite E, eqb_reflx in H. discriminate.
Qed.

Corollary car_vev M (u : list eop) (a b : eop) (v : list eop) :
  (vev M (u ++ a :: b :: v) + vev M (u ++ b :: a :: v))%Z = (b2z (acomm a b) * vev M (u ++ v))%Z.
Proof. apply car_amp. Qed.

(* ---------- the recursion that follows from the CAR ---------- *)
(* all ways of picking one element: (python index i, prefix, element, suffix) *)
Fixpoint splits {A} (i : nat) (pre l : list A) : list (nat * list A * A * list A) :=
  match l with
  | [] => []
  | x :: r => (i, pre, x, r) :: splits (S i) (pre ++ [x]) r
  end.

Fixpoint zsum {A} (l : list A) (f : A -> Z) : Z :=
  match l with [] => 0%Z | x :: r => (f x + zsum r f)%Z end.

Lemma zsum_ext {A} (l : list A) f g : (forall x, In x l -> f x = g x) -> zsum l f = zsum l g.
Proof. induction l as [|x r IH]; simpl; intros H; [reflexivity|]. rewrite (H x), IH; auto. Qed.
Lemma zsum_zero {A} (l : list A) f : (forall x, In x l -> f x = 0%Z) -> zsum l f = 0%Z.
Proof. induction l as [|x r IH]; simpl; intros H; [reflexivity|]. rewrite (H x), IH; auto. Qed.
Lemma zsum_app {A} (l1 l2 : list A) f : zsum (l1 ++ l2) f = (zsum l1 f + zsum l2 f)%Z.
Proof. induction l1 as [|x r IH]; simpl; [reflexivity|]. rewrite IH. lia. Qed.
Lemma zsum_scal {A} (l : list A) c f : zsum l (fun x => c * f x)%Z = (c * zsum l f)%Z.
Proof. induction l as [|x r IH]; simpl; [lia|]. rewrite IH. lia. Qed.
Lemma zsum_map {A B} (g : A -> B) l f : zsum (map g l) f = zsum l (fun x => f (g x)).
Proof. induction l as [|x r IH]; simpl; [reflexivity|]. rewrite IH. reflexivity. Qed.
Lemma zsum_flat_map {A B} (g : A -> list B) l f :
  zsum (flat_map g l) f = zsum l (fun x => zsum (g x) f).
Proof. induction l as [|x r IH]; simpl; [reflexivity|]. rewrite zsum_app, IH. reflexivity. Qed.

Lemma splits_In {A} i pre (l : list A) j p x q :
  In (j, p, x, q) (splits i pre l) -> pre ++ l = p ++ x :: q /\ i + length p = j + length pre.
Proof.
  revert i pre. induction l as [|y r IH]; simpl; intros i pre H; [tauto|].
  destruct H as [H|H].
  - inversion H; subst. split; [reflexivity|lia].
  - apply IH in H. destruct H as [H1 H2]. rewrite <- app_assoc in H1. simpl in H1.
    split; [exact H1|]. rewrite app_length in H2. simpl in H2. lia.
Qed.

(* sign picked up when the operator at python index i (>= 1) is moved next to
   operator 0: (-1)^(i-1) *)
Definition isgn (i : nat) : Z := if Nat.even i then (-1)%Z else 1%Z.
Lemma isgn_S i : isgn (S i) = (- isgn i)%Z.
Proof. unfold isgn. rewrite Nat.even_succ, <- Nat.negb_even. destruct (Nat.even i); reflexivity. Qed.

(* moving a quasi-annihilator a to the right through l *)
Lemma move_right M (a : eop) : qann M a = true -> forall l i pre,
  (isgn i * vev M (pre ++ a :: l))%Z =
  (zsum (splits i pre l)
        (fun '(j, p, b, q) => isgn j * b2z (acomm a b) * vev M (p ++ q))
   + isgn (i + length l) * vev M (pre ++ l ++ [a]))%Z.
Proof.
  intros Ha l. induction l as [|b l IH]; intros i pre.
  - simpl. rewrite Nat.add_0_r. lia.
  - simpl splits. simpl zsum.
    pose proof (car_vev M pre a b l) as Hcar.
    specialize (IH (S i) (pre ++ [b])).
    rewrite <- !app_assoc in IH. simpl in IH.
    rewrite isgn_S in IH.
    replace (i + length (b :: l)) with (S (i + length l)) by (simpl; lia).
    change ((b :: l) ++ [a]) with (b :: l ++ [a]).
    simpl Nat.add in IH.
    rewrite <- Z.add_assoc, <- IH.
    replace (vev M (pre ++ a :: b :: l))
      with (b2z (acomm a b) * vev M (pre ++ l) - vev M (pre ++ b :: a :: l))%Z by lia.
    ring.
Qed.

(* contraction of two elementary operators = their expectation value *)
Lemma vev_pair_qann M (a b : eop) : qann M a = true -> vev M [a; b] = (b2z (acomm a b) * b2z (qcre M b))%Z.
Proof.
  intros Ha. pose proof (car_vev M [] a b []) as H. simpl in H. rewrite vev_nil in H.
  unfold qcre. destruct (qann M b) eqn:Hb; simpl negb; simpl b2z.
  - pose proof (vev_qann_last M [a] b Hb) as H1. simpl in H1. lia.
  - pose proof (vev_qann_last M [b] a Ha) as H1. simpl in H1. lia.
Qed.

(* Wick's recursion for expectation values: the first operator is paired with
   every later one *)
Theorem vev_first_against_rest M (a : eop) (l : list eop) : snd a < norb M ->
  vev M (a :: l) =
  zsum (splits 1 [] l) (fun '(j, p, b, q) => isgn j * vev M [a; b] * vev M (p ++ q))%Z.
Proof.
  intros Hx. destruct (qann M a) eqn:Ha.
  - pose proof (move_right M a Ha l 1 []) as H. simpl app in H.
    rewrite (vev_qann_last M l a Ha) in H.
    replace (isgn 1) with 1%Z in H by reflexivity.
    transitivity (zsum (splits 1 [] l)
       (fun '(j, p, b, q) => isgn j * b2z (acomm a b) * vev M (p ++ q))%Z); [lia|].
    apply zsum_ext. intros [[[j p] b] q] Hin.
    pose proof (car_vev M [] a b []) as Hc. simpl in Hc. rewrite vev_nil in Hc.
    pose proof (vev_qann_last M [b] a Ha) as H1. simpl in H1.
    replace (vev M [a; b]) with (b2z (acomm a b)) by lia. reflexivity.
  - assert (Hq : qcre M a = true) by (unfold qcre; rewrite Ha; reflexivity).
    rewrite (vev_qcre_first M a l Hx Hq). symmetry. apply zsum_zero.
    intros [[[j p] b] q] _. rewrite (vev_qcre_first M a [b] Hx Hq). lia.
Qed.

(* ---------- normal-ordered products ---------- *)
(* N[o1 ... on] with respect to the reference: quasi-creators to the left,
   relative orders kept, sign = parity of the number of
   (quasi-annihilator, quasi-creator) inversions.  For elementary operators
   (each is a quasi-creator or a quasi-annihilator) this is the textbook
   definition. *)
Fixpoint inv_parity (M : orbmodel) (l : list eop) : bool :=
  match l with
  | [] => false
  | x :: r => xorb (inv_parity M r)
                   (if qcre M x then false else Nat.odd (length (filter (qcre M) r)))
  end.
Definition normal_order (M : orbmodel) (l : list eop) : bool * list eop :=
  (inv_parity M l, filter (qcre M) l ++ filter (fun o => negb (qcre M o)) l).

(* a product with normal-ordered groups: (true, g) = N[g], (false, g) = g *)
Definition group := (bool * list eop)%type.
Fixpoint expand_groups (M : orbmodel) (gs : list group) : bool * list eop :=
  match gs with
  | [] => (false, [])
  | (is_no, g) :: r =>
      let (s, l) := expand_groups M r in
      if is_no then let (t, g') := normal_order M g in (xorb s t, g' ++ l)
      else (s, g ++ l)
  end.
Definition gvev (M : orbmodel) (gs : list group) : Z :=
  let (s, l) := expand_groups M gs in (zsgn s * vev M l)%Z.

(* two operators of the same class anticommute exactly *)
Lemma acomm_same_class M (a b : eop) : qcre M a = qcre M b -> acomm a b = false.
Proof.
  unfold qcre, qann, acomm. destruct a as [ca x], b as [cb y]; simpl. intros H.
  destruct (Nat.eqb x y) eqn:E; [|apply andb_false_r].
  apply Nat.eqb_eq in E. subst y. rewrite andb_true_r.
  destruct ca, cb, (is_occ M x); simpl in *; try reflexivity; discriminate.
Qed.
Theorem vev_swap_same_class M (u : list eop) (a b : eop) (v : list eop) :
  qcre M a = qcre M b -> vev M (u ++ a :: b :: v) = (- vev M (u ++ b :: a :: v))%Z.
Proof.
  intros H. pose proof (car_vev M u a b v) as Hc.
  rewrite (acomm_same_class M a b H) in Hc. simpl b2z in Hc. lia.
Qed.

(* the expectation value of a non-empty normal-ordered product vanishes *)
Theorem vev_normal_ordered M (l : list eop) :
  l <> [] -> (forall o, In o l -> snd o < norb M) ->
  vev M (snd (normal_order M l)) = 0%Z.
Proof.
  intros Hne Hlt. unfold normal_order. simpl snd.
  destruct (filter (qcre M) l) as [|c cs] eqn:E.
  - simpl app.
    assert (Hall : forall o, In o l -> qcre M o = false).
    { intros o Ho. destruct (qcre M o) eqn:Eo; [|reflexivity].
      assert (In o (filter (qcre M) l)) by (apply filter_In; auto).
      rewrite E in H. destruct H. }
    assert (Hf : filter (fun o => negb (qcre M o)) l = l).
    { clear E Hne Hlt. induction l as [|x r IH]; [reflexivity|]. simpl.
      rewrite (Hall x) by (left; reflexivity). simpl. f_equal. apply IH.
      intros o Ho. apply Hall. right; exact Ho. }
    rewrite Hf. destruct (exists_last Hne) as (l' & a & ->).
    apply vev_qann_last.
    assert (Ha : In a (l' ++ [a])) by (apply in_or_app; right; left; reflexivity).
    specialize (Hall a Ha).
    unfold qcre in Hall. apply negb_false_iff in Hall. exact Hall.
  - assert (Hc : In c (filter (qcre M) l)) by (rewrite E; left; reflexivity).
    apply filter_In in Hc. destruct Hc as [Hin Hq].
    simpl app. apply vev_qcre_first; auto.
Qed.
