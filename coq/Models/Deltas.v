(* Model of Kronecker-delta evaluation (adcgen/func.py [evaluate_deltas],
   adcgen/sympy_objects.py [KroneckerDelta.eval], [preferred_and_killable],
   [indices_contain_equal_information]).

   The argument list of the sympy [Mul] (in the order in which the
   implementation iterates over it) is an input of the model: a list of
   objects [(atom, exponent)].  [pass] is one execution of the body of
   [evaluate_deltas] for a [Mul]: find the first delta on which a substitution
   is allowed, substitute in every object, re-evaluate the deltas
   ([KroneckerDelta.eval]) and report whether the implementation recurses. *)
From Coq Require Import ZArith QArith List Bool Lia String Permutation.
From ADC Require Import Core.Scalar Core.Index Core.Expr Core.Canon Core.Equiv.
Import ListNotations.

(* ---------- the three tables over (space, spin) x (space, spin) ---------- *)
(* result of [preferred_and_killable] on delta_{ij}:
   PKij = (i, j) (i preferred, j killable), PKji = (j, i), PKnone = None *)
Inductive pk := PKij | PKji | PKnone.

Definition pref_kill (s1 : space) (p1 : spin) (s2 : space) (p2 : spin) : pk :=
  match p1, p2 with
  | NoSpin, NoSpin | Alpha, Alpha | Beta, Beta =>
      match s1, s2 with
      | Gen, Occ | Gen, Virt | Occ, Virt | Virt, Occ => PKji
      | _, _ => PKij
      end
  | _, Alpha | _, Beta =>
      match s1, s2 with
      | Occ, Gen | Virt, Gen | Occ, Virt | Virt, Occ => PKnone
      | _, _ => PKji
      end
  | _, NoSpin =>
      match s1, s2 with
      | Gen, Occ | Gen, Virt | Occ, Virt | Virt, Occ => PKnone
      | _, _ => PKij
      end
  end.

Definition equal_info (s1 : space) (p1 : spin) (s2 : space) (p2 : spin) : bool :=
  space_eqb s1 s2 && spin_eqb p1 p2.

(* space/spin part of [KroneckerDelta.eval]: false iff the delta is 0 *)
Definition space_clash (a b : space) : bool :=
  match a, b with Occ, Virt | Virt, Occ => true | _, _ => false end.
Definition spin_clash (a b : spin) : bool :=
  match a, b with Alpha, Beta | Beta, Alpha => true | _, _ => false end.
Definition delta_alive (s1 : space) (p1 : spin) (s2 : space) (p2 : spin) : bool :=
  negb (space_clash s1 s2) && negb (spin_clash p1 p2).

Definition all_spaces := [Gen; Occ; Virt].
Definition all_spins := [NoSpin; Alpha; Beta].
Definition all_sorts : list (space * spin) :=
  flat_map (fun s => map (fun p => (s, p)) all_spins) all_spaces.
(* the whole finite domain of the tables: 81 cases *)
Definition all_sort_pairs : list ((space * spin) * (space * spin)) :=
  flat_map (fun a => map (fun b => (a, b)) all_sorts) all_sorts.

Definition pk_code (x : pk) : N := match x with PKij => 0%N | PKji => 1%N | PKnone => 2%N end.
Definition pk_eqb a b := N.eqb (pk_code a) (pk_code b).

(* tables translated from the source are compared with the model on the whole domain *)
Definition tables_agree
  (pk' : space -> spin -> space -> spin -> pk)
  (ei' alive' : space -> spin -> space -> spin -> bool) : bool :=
  forallb (fun ab => match ab with ((s1, p1), (s2, p2)) =>
     pk_eqb (pk' s1 p1 s2 p2) (pref_kill s1 p1 s2 p2)
     && Bool.eqb (ei' s1 p1 s2 p2) (equal_info s1 p1 s2 p2)
     && Bool.eqb (alive' s1 p1 s2 p2) (delta_alive s1 p1 s2 p2) end) all_sort_pairs.

(* ---------- KroneckerDelta.eval ---------- *)
Inductive dres := DZero | DOne | DKeep (i j : index).
Definition idx_alive (i j : index) : bool :=
  delta_alive (ispace i) (ispin i) (ispace j) (ispin j).
Definition delta_eval (i j : index) : dres :=
  if index_eqb i j then DOne
  else if negb (idx_alive i j) then DZero
  else if idx_leb i j then DKeep i j else DKeep j i.

(* ---------- objects = arguments of the Mul ---------- *)
Definition obj := (atom * Z)%type.                 (* base, exponent (<> 0) *)
Definition obj_idx (o : obj) : list index := atom_idx (fst o).
Definition objs_idx (os : list obj) : list index := flat_map obj_idx os.
Definition obj_facs (o : obj) : list factor :=
  repeat (fst o, Z.ltb (snd o) 0) (Z.abs_nat (snd o)).
Definition objs_facs (os : list obj) : list factor := flat_map obj_facs os.
Record state := St { scoef : Q; sobjs : list obj }.
Definition state_term (st : state) : term := Term (scoef st) (objs_facs (sobjs st)).

(* [isinstance(obj, KroneckerDelta)]: a delta with exponent 1 (sympy evaluates
   positive powers of a delta to the delta itself) *)
Definition is_delta (o : obj) : option (index * index) :=
  match o with
  | (ADelta i j, z) => if Z.eqb z 1 then Some (i, j) else None
  | _ => None
  end.
Definition deltas_of (os : list obj) : list (index * index) :=
  flat_map (fun o => match is_delta o with Some d => [d] | None => [] end) os.

(* ---------- target indices when [target_idx is None] ---------- *)
(* [obj.atoms(Index)] lists every index once per object; an index is a target
   iff it occurs on exactly one object *)
Fixpoint icount (x : index) (l : list index) : nat :=
  match l with [] => 0 | y :: r => (if index_eqb x y then 1 else 0) + icount x r end.
Definition atoms_per_obj (os : list obj) : list index :=
  flat_map (fun o => inodup (obj_idx o)) os.
Definition targets_by_count (os : list obj) : list index :=
  let all := atoms_per_obj os in
  filter (fun s => Nat.eqb (icount s all) 1) (inodup all).

(* ---------- substitution ---------- *)
Definition sub1 (a b x : index) : index := if index_eqb x a then b else x.   (* a -> b *)
Definition subst_tens a b (t : tens) : tens :=
  Tens (tkind t) (tname t) (tbks t) (map (sub1 a b) (tupper t)) (map (sub1 a b) (tlower t)).
Definition subst_poly a b (p : list (Q * list tens)) :=
  map (fun qt => (fst qt, map (subst_tens a b) (snd qt))) p.
Definition subst_atom a b (x : atom) : atom :=
  match x with
  | ATens t => ATens (subst_tens a b t)
  | ADelta i j => ADelta (sub1 a b i) (sub1 a b j)
  | ASymb n => ASymb n | ASqrt r => ASqrt r
  | APoly p => APoly (subst_poly a b p)
  end.
Definition subst_fac a b (f : factor) : factor := (subst_atom a b (fst f), snd f).
Definition subst_obj a b (o : obj) : obj := (subst_atom a b (fst o), snd o).

(* re-evaluation of the deltas after the substitution; None = the term is 0 *)
Fixpoint norm_objs (os : list obj) : option (list obj) :=
  match os with
  | [] => Some []
  | o :: r =>
    match is_delta o with
    | Some (i, j) =>
      match delta_eval i j with
      | DZero => None
      | DOne => norm_objs r
      | DKeep a b => option_map (cons (ADelta a b, 1%Z)) (norm_objs r)
      end
    | None => option_map (cons o) (norm_objs r)
    end
  end.

(* ---------- one pass ---------- *)
Definition pk_of (i j : index) : option (index * index) :=      (* (preferred, killable) *)
  match pref_kill (ispace i) (ispin i) (ispace j) (ispin j) with
  | PKij => Some (i, j) | PKji => Some (j, i) | PKnone => None end.
Definition idx_equal_info (i j : index) : bool :=
  equal_info (ispace i) (ispin i) (ispace j) (ispin j).

(* the substitution (from, to) the loop body performs on delta_{ij}, if any *)
Definition delta_action (tg : list index) (d : index * index) : option (index * index) :=
  let (i, j) := d in
  match pk_of i j with
  | None => None
  | Some (pref, kill) =>
    if negb (imem kill tg) then Some (kill, pref)
    else if negb (imem pref tg) && idx_equal_info i j then Some (pref, kill)
    else None
  end.
Fixpoint first_action (tg : list index) (ds : list (index * index)) : option (index * index) :=
  match ds with
  | [] => None
  | d :: r => match delta_action tg d with Some a => Some a | None => first_action tg r end
  end.

Record pass_result := PR { pr_state : option state;          (* None: the term became 0 *)
                           pr_recurse : bool;
                           pr_action : option (index * index) }.

Definition pass (tg : list index) (st : state) : pass_result :=
  let ds := deltas_of (sobjs st) in
  match first_action tg ds with
  | None => PR (Some st) false None
  | Some (from, to) =>
    PR (option_map (St (scoef st)) (norm_objs (map (subst_obj from to) (sobjs st))))
       (Nat.ltb 1 (List.length ds)) (Some (from, to))
  end.

(* first call of evaluate_deltas without target indices *)
Definition pass_counted (st : state) : pass_result := pass (targets_by_count (sobjs st)) st.

(* ---------- the recursion, with an arbitrary step [reorder] between passes
   (sympy rebuilding / re-ordering the Mul) ---------- *)
Inductive outcome := OutOfFuel | Zero | Done (st : state).
(* [isinstance(expr, Mul)]: sympy returns the single object for a product of
   one object with coefficient 1 and a number for an empty product; the
   recursive call then returns its argument unchanged *)
Definition is_mul (st : state) : bool :=
  match sobjs st with
  | [] => false
  | [_] => negb (Qeq_bool (scoef st) 1)
  | _ => true
  end.
Fixpoint eval_deltas (fuel : nat) (reorder : state -> state) (tg : list index) (st : state) : outcome :=
  match fuel with
  | O => OutOfFuel
  | Datatypes.S f =>
    let r := pass tg st in
    match pr_state r with
    | None => Zero
    | Some st' =>
      if pr_recurse r then
        let st'' := reorder st' in
        if is_mul st'' then eval_deltas f reorder tg st'' else Done st''
      else Done st'
    end
  end.

(* a delta that is left in place: no preferred index, or evaluation would
   remove a target index / lose information *)
Definition stuck (tg : list index) (d : index * index) : Prop :=
  let (i, j) := d in
  pk_of i j = None \/
  exists pref kill, pk_of i j = Some (pref, kill) /\ In kill tg /\
                    (In pref tg \/ idx_equal_info i j = false).
Definition terminal (tg : list index) (st : state) : Prop :=
  forall d, In d (deltas_of (sobjs st)) -> stuck tg d.
Definition terminalb (tg : list index) (st : state) : bool :=
  match first_action tg (deltas_of (sobjs st)) with None => true | Some _ => false end.

(* ---------- comparison with the implementation (modulo the canonical form of
   tensors, the order of the factors and delta^2 = delta) ---------- *)
Fixpoint has_dup (l : list index) : bool :=
  match l with [] => false | x :: r => imem x r || has_dup r end.
(* the constructors of AntiSymmetricTensor / Amplitude return 0 when an index
   is repeated in the upper or in the lower group (Pauli), and when the tensor
   is bra-ket antisymmetric and its sorted upper and lower tuples coincide
   (d^X_X = - d^X_X) *)
Definition tens_pauli_zero (t : tens) : bool :=
  match inner_sym (tkind t) with
  | Some true => has_dup (tupper t) || has_dup (tlower t)
  | _ => false end.
Definition tens_diag_zero (t : tens) : bool :=
  match inner_sym (tkind t) with
  | Some true => Z.eqb (tbks t) (-1) &&
                 idxl_eqb (snd (sort_par (tupper t))) (snd (sort_par (tlower t)))
  | _ => false end.
Definition tens_zero (t : tens) : bool := tens_pauli_zero t || tens_diag_zero t.
Definition fac_pauli_zero (f : factor) : bool :=
  match fst f with ATens t => tens_zero t | _ => false end.
(* a factor (not inverted) whose value is 0 in every model respecting the symmetries *)
Definition fac_zero (f : factor) : bool :=
  match f with (ATens t, false) => tens_zero t | _ => false end.
Definition fac_is_delta (f : factor) : bool :=
  match f with (ADelta _ _, false) => true | _ => false end.
Fixpoint dedup_deltas (fs : list factor) : list factor :=      (* on a sorted list *)
  match fs with
  | [] => []
  | f :: r => match r with
              | g :: _ => if fac_is_delta f && fac_eqb f g then dedup_deltas r else f :: dedup_deltas r
              | [] => [f] end
  end.
Definition canon_state (st : state) : option (Q * list factor) :=
  let fs := objs_facs (sobjs st) in
  if existsb fac_pauli_zero fs || Qeq_bool (scoef st) 0 then None
  else let (s, cs) := canon_mono fs in Some (Qred (qsgn s (scoef st)), dedup_deltas cs).
Definition ostate_canon (o : option state) : option (Q * list factor) :=
  match o with None => None | Some st => canon_state st end.
Definition same_canon (a b : option state) : bool :=
  match ostate_canon a, ostate_canon b with
  | None, None => true
  | Some (q1, f1), Some (q2, f2) => q_eqb q1 q2 && list_eqb fac_eqb f1 f2
  | _, _ => false end.
Definition same_set (a b : list index) : bool :=
  forallb (fun x => imem x b) a && forallb (fun x => imem x a) b.

(* one recorded call of the implementation: argument list [st], targets
   ([None]: determined by counting), observed expression after the loop body
   ([next]; None = 0), whether it recursed, the target list it passed on *)
Definition check_step (st : state) (tg : option (list index)) (next : option state)
           (recursed : bool) (tg_next : option (list index)) : bool * bool * bool :=
  let tgl := match tg with Some l => l | None => targets_by_count (sobjs st) end in
  let r := pass tgl st in
  (same_canon (pr_state r) next,
   Bool.eqb (pr_recurse r) recursed,
   match tg_next with Some l => same_set l tgl | None => true end).

(* the expression finally returned: every delta left is stuck *)
Definition check_terminal (st : state) (tg : option (list index)) (final : option state) : bool * bool :=
  let tgl := match tg with Some l => l | None => targets_by_count (sobjs st) end in
  match final with None => (true, false) | Some f => (terminalb tgl f, is_mul f) end.

(* the tables as lists over the whole domain, for the exhaustive comparison
   with the running implementation *)
Definition table_dump : list (N * bool * bool) :=
  map (fun ab => match ab with ((s1, p1), (s2, p2)) =>
    (pk_code (pref_kill s1 p1 s2 p2), equal_info s1 p1 s2 p2, delta_alive s1 p1 s2 p2) end)
    all_sort_pairs.

(* the targets of the summation convention: indices occurring exactly once in
   the product (powers counted with their multiplicity) *)
Definition einstein_targets (os : list obj) : list index :=
  filter (fun s => Nat.eqb (icount s (mono_idx (objs_facs os))) 1) (inodup (objs_idx os)).

(* ---------- decidable versions of the hypotheses of the theorems, evaluated
   on every recorded argument list ---------- *)
Definition wf_objb (o : obj) : bool :=
  negb (Z.eqb (snd o) 0) &&
  match is_delta o with
  | Some (i, j) => match delta_eval i j with
                   | DKeep a b => index_eqb a i && index_eqb b j
                   | _ => false end
  | None => true
  end.
Definition wf_objsb (os : list obj) : bool := forallb wf_objb os.
Definition coveredb (tgs : list index) (os : list obj) : bool :=
  forallb (fun x => imem x tgs ||
                    existsb (fun o => match is_delta o with
                                      | None => imem x (obj_idx o) | Some _ => false end) os)
          (objs_idx os).
(* (well-formed, covered w.r.t. the targets of the value) *)
Definition check_hyps (st : state) (tg : option (list index)) : bool * bool :=
  let tgs := match tg with Some l => l | None => einstein_targets (sobjs st) end in
  (wf_objsb (sobjs st), coveredb tgs (sobjs st)).

(* ---------- a certificate for a whole observed call tree ---------- *)
(* delta_ij * delta_ij = delta_ij: sympy keeps one copy *)
Definition obj_eqb (a b : obj) : bool := atom_eqb (fst a) (fst b) && Z.eqb (snd a) (snd b).
Fixpoint dd_objs (os : list obj) : list obj :=
  match os with
  | [] => []
  | o :: r => let r' := dd_objs r in
              match is_delta o with
              | Some _ => if existsb (obj_eqb o) r' then r' else o :: r'
              | None => o :: r' end
  end.
Definition dd_term (st : state) : term := Term (scoef st) (objs_facs (dd_objs (sobjs st))).
(* same normal form (Core.Equiv.term_key: sorted contracted indices, canonical
   factors, signed coefficient) after removing duplicate deltas *)
Definition same_val (tgs : list index) (a b : option state) : bool :=
  match a, b with
  | None, None => true
  | Some x, Some y =>
    let (kx, qx) := term_key tgs (dd_term x) in
    let (ky, qy) := term_key tgs (dd_term y) in
    key_eqb kx ky && Qeq_bool qx qy
  | Some x, None => existsb fac_zero (objs_facs (sobjs x))   (* the constructor returned 0 *)
  | None, Some _ => false
  end.
Definition inclb (a b : list index) : bool := forallb (fun x => imem x b) a.
(* [obs]: the expressions the implementation produced after each loop body
   (arguments of the next recursive call, finally the result) *)
Fixpoint check_trace (tgp tgs : list index) (st : state) (obs : list (option state)) : bool :=
  match obs with
  | [] => false
  | o :: rest =>
    let res := pass tgp st in
    wf_objsb (sobjs st) && coveredb tgs (sobjs st) && same_val tgs (pr_state res) o &&
    match rest with
    | [] => true
    | _ => match o with Some s => pr_recurse res && check_trace tgp tgs s rest | None => false end
    end
  end.
Definition check_trace_top (st : state) (tg : option (list index)) (obs : list (option state)) : bool :=
  let tgp := match tg with Some l => l | None => targets_by_count (sobjs st) end in
  let tgs := match tg with Some l => l | None => einstein_targets (sobjs st) end in
  inclb tgs tgp && check_trace tgp tgs st obs.
