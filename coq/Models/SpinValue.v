(* C15 - value of the spin-integrated term (Models/Spin.v) *)
From Coq Require Import ZArith NArith QArith List Bool Lia Permutation.
From Coq Require String.
From Coq Require Import Ascii.
Local Notation sV := (String.String "V"%char String.EmptyString).
Local Notation sv := (String.String "v"%char String.EmptyString).
From ADC Require Import Core.Scalar Core.Index Core.Expr Models.Spin Models.SpinProofs.
Import ListNotations.
Open Scope nat_scope.
Open Scope list_scope.

Lemma block_eq_dec (a b : block) : {a = b} + {a <> b}.
Proof. apply list_eq_dec. intros [|] [|]; (left; reflexivity) || (right; discriminate). Qed.

Section Value.
Variable S : Scalar.
Variable T : tmodel S.
Notation "0" := (k0 S). Notation "1" := (k1 S).
Infix "+" := (kadd S). Infix "*" := (kmul S).
Add Ring KRv : (Kring S).

(* spin of a spin orbital; the spin-orbital range of a space is the alpha range
   followed by the beta range *)
Variable ospin : nat -> sp.
Hypothesis Hrng : forall s, rng T s NoSpin = rng T s Alpha ++ rng T s Beta.
Hypothesis HA : forall s o, In o (rng T s Alpha) -> ospin o = SA.
Hypothesis HB : forall s o, In o (rng T s Beta) -> ospin o = SB.

Lemma rng_spin s sg o : In o (rng T s (to_spin sg)) -> ospin o = sg.
Proof. destruct sg; simpl; [apply HA|apply HB]. Qed.

(* sum over the contracted indices, index x restricted to spin a(x) *)
Fixpoint sum_sp (xs : list index) (a : block) (r : env) (F : env -> K S) : K S :=
  match xs, a with
  | x :: xs', s :: a' => ksum (rng T (ispace x) (to_spin s)) (fun o => sum_sp xs' a' (upd r x o) F)
  | _, _ => F r
  end.

Lemma split_sum xs : (forall x, In x xs -> ispin x = NoSpin) -> forall r F,
  sum_over S T xs r F = ksum (all_blocks (length xs)) (fun a => sum_sp xs a r F).
Proof. induction xs as [|x xs IH]; intros Hs r F; simpl.
  - ring.
  - unfold irange. rewrite (Hs x (or_introl eq_refl)), Hrng.
    rewrite !ksum_app, !ksum_map. simpl.
    assert (IH' : forall r', sum_over S T xs r' F = ksum (all_blocks (length xs)) (fun a => sum_sp xs a r' F)).
    { intros r'. apply IH. intros y Hy; apply Hs; right; auto. }
    f_equal.
    + rewrite (ksum_ext S _ _ (fun o => ksum (all_blocks (length xs)) (fun a => sum_sp xs a (upd r x o) F)))
        by (intros o _; apply IH').
      apply ksum_swap.
    + rewrite (ksum_ext S _ _ (fun o => ksum (all_blocks (length xs)) (fun a => sum_sp xs a (upd r x o) F)))
        by (intros o _; apply IH').
      apply ksum_swap. Qed.

(* inside sum_sp every environment gives x in xs an orbital of spin a(x) and
   leaves the other indices alone *)
Lemma sum_sp_inv xs : forall a r F G, NoDup xs -> length a = length xs ->
  (forall r', (forall y, ~ In y xs -> r' y = r y) ->
              (forall x s, In (x, s) (combine xs a) -> ospin (r' x) = s) -> F r' = G r') ->
  sum_sp xs a r F = sum_sp xs a r G.
Proof. induction xs as [|x xs IH]; intros [|s a] r F G Hnd Hlen H; simpl in *; try discriminate.
  - apply H; [auto|intros ? ? []].
  - inversion Hnd as [|? ? Hn Hd]; subst. apply ksum_ext. intros o Ho. apply IH; [auto|lia|].
    intros r' Hr1 Hr2. apply H.
    + intros y Hy. rewrite Hr1 by tauto. unfold upd.
      destruct (index_eqb y x) eqn:E; [apply index_eqb_eq in E; subst; tauto|reflexivity].
    + intros x' s' [Hin|Hin]; [|auto]. inversion Hin; subst.
      rewrite (Hr1 x' Hn). unfold upd. rewrite index_eqb_refl. eapply rng_spin; eauto. Qed.

Lemma sum_sp_zero xs : forall a r, sum_sp xs a r (fun _ => 0) = 0.
Proof. induction xs as [|x xs IH]; intros [|s a] r; simpl; try reflexivity.
  rewrite (ksum_ext S _ _ (fun _ => 0)); [apply ksum_zero|intros; apply IH]. Qed.

Lemma kprod_zero l : In 0 l -> kprod l = 0.
Proof. induction l as [|y l IH]; simpl; [tauto|]. intros [->|H]; [ring|rewrite IH; [ring|auto]]. Qed.

Lemma ksum_subset (l1 l2 : list block) (f : block -> K S) : NoDup l1 -> NoDup l2 -> incl l2 l1 ->
  (forall a, In a l1 -> ~ In a l2 -> f a = 0) -> ksum l1 f = ksum l2 f.
Proof. revert l2; induction l1 as [|a l1 IH]; intros l2 H1 H2 Hi Hz.
  - destruct l2 as [|b l2]; [reflexivity|]. exfalso. apply (Hi b). left; reflexivity.
  - inversion H1 as [|? ? Hn Hd]; subst. simpl.
    destruct (in_dec block_eq_dec a l2) as [Hin|Hnin].
    + destruct (in_split _ _ Hin) as [u [w ->]].
      assert (HP : Permutation (u ++ a :: w) (a :: u ++ w)) by (symmetry; apply Permutation_middle).
      rewrite (ksum_perm S _ _ f HP). simpl. f_equal.
      apply NoDup_remove in H2. destruct H2 as [H2 H2'].
      apply IH; [auto|auto| |].
      * intros b Hb. assert (Hb' : In b (u ++ a :: w)).
        { apply in_app_or in Hb. apply in_or_app. destruct Hb; [left|right; right]; auto. }
        destruct (Hi b Hb') as [<-|Hl]; [contradiction|auto].
      * intros b Hb Hnb. apply Hz; [right; auto|]. intros Hb'. apply in_app_or in Hb'.
        destruct Hb' as [Hb'|[<-|Hb']]; [apply Hnb, in_or_app; auto|contradiction|apply Hnb, in_or_app; auto].
    + rewrite (Hz a (or_introl eq_refl) Hnin). rewrite <- (IH l2 Hd H2).
      * ring.
      * intros b Hb. destruct (Hi b Hb) as [<-|Hl]; [contradiction|auto].
      * intros b Hb Hnb. apply Hz; [right; auto|auto]. Qed.

(* ---------------------------------------------------------------- *)
(* the term, its objects, the vanishing hypothesis                    *)
(* ---------------------------------------------------------------- *)
Section Value0.
Variable tbl : atom -> option (list block).     (* block tables of the objects *)
Definition objs_of (fs : list factor) : list sobj := map (fun f => (obj_idx (fst f), tbl (fst f))) fs.

(* tensors vanish outside their allowed spin blocks *)
Definition vanishes (fs : list factor) : Prop :=
  forall f tb, In f fs -> tbl (fst f) = Some tb ->
    forall r, ~ In (map (fun x => ospin (r x)) (obj_idx (fst f))) tb -> fac_val S T r f = 0.

Lemma obj_idx_In a x : In x (obj_idx a) <-> In x (atom_idx a).
Proof. destruct a as [t| | | |]; simpl; try tauto. unfold tens_oidx, tens_idx.
  destruct (tkind t); rewrite !in_app_iff; tauto. Qed.

Variable tg : list index.
Variable tm : tmap.
Hypothesis Htm : forall x, In x tg <-> tlookup tm x <> None.
Variable t : term.
Variable tidx : list index.                     (* the indices of the term, in any order *)
Hypothesis Htidx_nd : NoDup tidx.
Hypothesis Htidx : forall x, In x tidx <-> In x (term_idx t).
Let C := contracted tg t.
Let objs := objs_of (tfacs t).
Hypothesis Hwf : wf_objs objs.
Hypothesis Hnospin : forall x, In x (term_idx t) -> ispin x = NoSpin.
Hypothesis Hvan : vanishes (tfacs t).

Lemma C_In x : In x C <-> In x tidx /\ ~ In x tg.
Proof. unfold C, contracted, contracted_of. rewrite filter_In, negb_true_iff, imem_nIn, inodup_In, Htidx. tauto. Qed.
Lemma C_NoDup : NoDup C.
Proof. unfold C, contracted, contracted_of. apply NoDup_filter'. apply inodup_NoDup. Qed.
Lemma closed : idx_closed objs tidx.
Proof. intros ix tb Hin. unfold objs, objs_of in Hin. apply in_map_iff in Hin.
  destruct Hin as [f [Hf Hin]]. inversion Hf; subst. intros x Hx. apply Htidx.
  unfold term_idx, mono_idx. apply in_flat_map. exists f. split; [auto|]. unfold fac_idx.
  apply obj_idx_In; auto. Qed.

(* the spin function determined by an assignment a of the contracted indices *)
Fixpoint alookup (xs : list index) (a : block) (x : index) : option sp :=
  match xs, a with
  | y :: xs', s :: a' => if index_eqb x y then Some s else alookup xs' a' x
  | _, _ => None end.
Definition gfun (a : block) (x : index) : sp :=
  match alookup C a x with Some s => s | None => match tlookup tm x with Some s => s | None => SA end end.
Lemma alookup_in xs : forall a x s, NoDup xs -> In (x, s) (combine xs a) -> alookup xs a x = Some s.
Proof. induction xs as [|y xs IH]; intros [|s0 a] x s Hnd Hin; simpl in *; try contradiction.
  inversion Hnd as [|? ? Hn Hd]; subst. destruct Hin as [Hin|Hin].
  - inversion Hin; subst. rewrite index_eqb_refl. reflexivity.
  - destruct (index_eqb x y) eqn:E; [|auto]. apply index_eqb_eq in E; subst.
    apply in_combine_l in Hin. contradiction. Qed.
Lemma alookup_none xs : forall a x, ~ In x xs -> alookup xs a x = None.
Proof. induction xs as [|y xs IH]; intros [|s0 a] x Hn; simpl in *; try reflexivity.
  destruct (index_eqb x y) eqn:E; [apply index_eqb_eq in E; subst; tauto|apply IH; tauto]. Qed.
Lemma alookup_map xs (g : index -> sp) x : In x xs -> alookup xs (map g xs) x = Some (g x).
Proof. induction xs as [|y xs IH]; simpl; [tauto|]. intros Hx.
  destruct (index_eqb x y) eqn:E; [apply index_eqb_eq in E; subst; reflexivity|].
  apply IH. destruct Hx as [->|Hx]; [rewrite index_eqb_refl in E; discriminate|auto]. Qed.

(* the assignment of the contracted indices read off a spin map *)
Definition a_of (m : smap) : block := map (fun x => match sspin m x with Some s => s | None => SA end) C.

Variable r : env.
Hypothesis Hr : forall x s, In x tidx -> tlookup tm x = Some s -> ospin (r x) = s.

Lemma not_good_zero a : length a = length C -> ~ good tm objs tidx (gfun a) ->
  sum_sp C a r (fun r' => term_val S T r' t) = 0.
Proof. intros Hlen Hng. rewrite <- (sum_sp_zero C a r).
  apply sum_sp_inv; [apply C_NoDup|auto|]. intros r' Hr1 Hr2.
  (* r' realises gfun a on the indices of the term *)
  assert (Hsp : forall x, In x tidx -> ospin (r' x) = gfun a x).
  { intros x Hx. unfold gfun. destruct (in_dec index_eq_dec x C) as [HxC|HxC].
    - destruct (in_combine_r_ex a C x) as [s Hs]; [auto|auto|].
      assert (Hs' : In (x, s) (combine C a)).
      { clear - Hs. revert a Hs. induction C as [|y l IH]; intros [|b a] Hs; simpl in *; try contradiction.
        destruct Hs as [Hs|Hs]; [inversion Hs; left; reflexivity|right; auto]. }
      rewrite (alookup_in C a x s C_NoDup Hs'). apply Hr2; auto.
    - rewrite (alookup_none C a x HxC). rewrite (Hr1 x HxC).
      assert (Htg : In x tg).
      { destruct (in_dec index_eq_dec x tg) as [H|H]; [auto|]. exfalso. apply HxC. apply C_In; auto. }
      apply Htm in Htg. destruct (tlookup tm x) as [s|] eqn:El; [|congruence]. eapply Hr; eauto. }
  (* some object with a table is not on an allowed block *)
  assert (Hcompat : compat_on tm tidx (gfun a)).
  { intros x s Hx Hl. unfold gfun. rewrite alookup_none; [rewrite Hl; reflexivity|].
    intros HxC. apply C_In in HxC. apply (proj2 HxC). apply Htm. congruence. }
  destruct (forallb (fun f => match tbl (fst f) with
                              | Some tb => bmem (map (gfun a) (obj_idx (fst f))) tb
                              | None => true end) (tfacs t)) eqn:Eall.
  - exfalso. apply Hng. split; [exact Hcompat|]. intros ix tb Hin.
    unfold objs, objs_of in Hin. apply in_map_iff in Hin. destruct Hin as [f [Hf Hin]].
    inversion Hf as [[E1 E2]]. rewrite forallb_forall in Eall. specialize (Eall f Hin).
    rewrite E2 in Eall. unfold bmem in Eall. apply existsb_exists in Eall.
    destruct Eall as [b [Hb1 Hb2]]. apply block_eqb_eq in Hb2. rewrite Hb2. exact Hb1.
  - assert (Hex : exists f, In f (tfacs t) /\ exists tb, tbl (fst f) = Some tb /\
                    ~ In (map (gfun a) (obj_idx (fst f))) tb).
    { clear - Eall. induction (tfacs t) as [|f fs IH]; simpl in Eall; [discriminate|].
      apply andb_false_iff in Eall. destruct Eall as [E|E].
      - exists f. split; [left; auto|]. destruct (tbl (fst f)) as [tb|]; [|discriminate].
        exists tb. split; [auto|]. intros Hin. assert (bmem (map (gfun a) (obj_idx (fst f))) tb = true).
        { unfold bmem. apply existsb_exists. eexists; split; [exact Hin|apply block_eqb_eq; reflexivity]. }
        congruence.
      - destruct (IH E) as [f' [H1 H2]]. exists f'. split; [right; auto|auto]. }
    destruct Hex as [f [Hf [tb [Htb Hnin]]]].
    assert (Hz : fac_val S T r' f = 0).
    { apply (Hvan f tb Hf Htb). intros Hin. apply Hnin.
      replace (map (gfun a) (obj_idx (fst f))) with (map (fun x => ospin (r' x)) (obj_idx (fst f))); [auto|].
      apply map_ext_in. intros x Hx. apply Hsp.
      apply (closed (obj_idx (fst f)) tb); [|auto]. unfold objs, objs_of. apply in_map_iff.
      exists f. rewrite Htb. auto. }
    unfold term_val, mono_val. rewrite (kprod_zero (map (fac_val S T r') (tfacs t))); [ring|].
    apply in_map_iff. exists f; auto. Qed.

Lemma map_eq_in {A B} (f h : A -> B) l : map f l = map h l -> forall x, In x l -> f x = h x.
Proof. induction l as [|y l IH]; simpl; intros H x Hx; [contradiction|]. inversion H.
  destruct Hx as [<-|Hx]; auto. Qed.

Lemma agree_fun_sequiv D m1 m2 g1 g2 : (forall x, sdom m1 x <-> In x D) -> (forall x, sdom m2 x <-> In x D) ->
  agrees m1 g1 -> agrees m2 g2 -> (forall x, In x D -> g1 x = g2 x) -> sequiv m1 m2.
Proof. intros Hd1 Hd2 Ha1 Ha2 Hg.
  assert (Hk : forall ma mb ga gb, (forall x, sdom ma x <-> In x D) -> (forall x, sdom mb x <-> In x D) ->
            agrees ma ga -> agrees mb gb -> (forall x, In x D -> ga x = gb x) ->
            (forall x, In x (sa ma) -> In x (sa mb)) /\ (forall x, In x (sb ma) -> In x (sb mb))).
  { intros ma mb ga gb Hda Hdb Haa Hab Hgg. split; intros x Hx.
    - assert (Ht : In x D) by (apply Hda; left; auto).
      destruct (proj2 (Hdb x) Ht) as [Hb|Hb]; [auto|].
      pose proof (proj1 Haa x Hx). pose proof (proj2 Hab x Hb). rewrite (Hgg x Ht) in *. congruence.
    - assert (Ht : In x D) by (apply Hda; right; auto).
      destruct (proj2 (Hdb x) Ht) as [Hb|Hb]; [|auto].
      pose proof (proj2 Haa x Hx). pose proof (proj1 Hab x Hb). rewrite (Hgg x Ht) in *. congruence. }
  destruct (Hk m1 m2 g1 g2 Hd1 Hd2 Ha1 Ha2 Hg) as [K1 K2].
  destruct (Hk m2 m1 g2 g1 Hd2 Hd1 Ha2 Ha1 (fun x Hx => eq_sym (Hg x Hx))) as [K3 K4].
  split; intros x; split; auto. Qed.

Lemma map_alookup xs : forall a d, NoDup xs -> length a = length xs ->
  map (fun x => match alookup xs a x with Some s => s | None => d x end) xs = a.
Proof. induction xs as [|y xs IH]; intros [|s a] d Hnd Hl; simpl in *; try discriminate; [reflexivity|].
  inversion Hnd as [|? ? Hn Hd]; subst. rewrite index_eqb_refl. f_equal.
  transitivity (map (fun x => match alookup xs a x with Some s => s | None => d x end) xs);
    [|apply IH; [auto|lia]]. apply map_ext_in. intros x Hx.
  destruct (index_eqb x y) eqn:E; [apply index_eqb_eq in E; subst; contradiction|reflexivity]. Qed.

(* the spin-orbital value of the term with its targets on the requested spins is the
   sum over the enumerated assignments of the spin-restricted sums *)
Theorem integrate_value_sp :
  exists R, integrate_objs tm objs tidx = Ok R /\
    eval_term S T tg r t = ksum R (fun m => sum_sp C (a_of m) r (fun r' => term_val S T r' t)).
Proof.
  destruct (rep_final tm objs tidx Hwf Htidx_nd closed) as [R [HR [Ss Cc U]]].
  exists R. split; [exact HR|].
  unfold eval_term. fold C. rewrite split_sum.
  2:{ intros x Hx. apply C_In in Hx. apply Hnospin. apply Htidx. tauto. }
  rewrite <- (ksum_map S a_of R (fun a => sum_sp C a r (fun r' => term_val S T r' t))).
  assert (Hlen : forall m, length (a_of m) = length C) by (intros; unfold a_of; apply map_length).
  assert (Hrep : forall m g, In m R -> agrees m g -> (forall x, sdom m x <-> In x tidx) -> a_of m = map g C).
  { intros m g Hm Ha Hd. unfold a_of. apply map_ext_in. intros x Hx.
    rewrite (agrees_sspin m g x Ha); [reflexivity|]. apply Hd. apply C_In in Hx. tauto. }
  apply ksum_subset.
  - apply all_blocks_NoDup.
  - apply (FOP_NoDup_map NE); [exact U|]. intros m1 m2 H1 H2 Hne Heq. apply Hne.
    destruct (Ss m1 H1) as [Hd1 [g1 [Hg1 Ha1]]]. destruct (Ss m2 H2) as [Hd2 [g2 [Hg2 Ha2]]].
    rewrite (Hrep m1 g1 H1 Ha1 Hd1), (Hrep m2 g2 H2 Ha2 Hd2) in Heq.
    apply (agree_fun_sequiv tidx m1 m2 g1 g2); auto. intros x Hx.
    destruct (in_dec index_eq_dec x C) as [HxC|HxC]; [apply (map_eq_in _ _ _ Heq x HxC)|].
    assert (Htg : In x tg).
    { destruct (in_dec index_eq_dec x tg) as [H|H]; [auto|]. exfalso. apply HxC. apply C_In; auto. }
    apply Htm in Htg. destruct (tlookup tm x) as [s|] eqn:El; [|congruence].
    rewrite (proj1 Hg1 x s Hx El), (proj1 Hg2 x s Hx El). reflexivity.
  - intros a Ha. apply in_map_iff in Ha. destruct Ha as [m [<- _]]. apply all_blocks_In. apply Hlen.
  - intros a Ha Hnin. apply all_blocks_In in Ha. apply not_good_zero; [auto|]. intros Hg.
    destruct (Cc _ Hg) as [m [Hm Hag]]. apply Hnin. apply in_map_iff. exists m. split; [|auto].
    destruct (Ss m Hm) as [Hd _]. rewrite (Hrep m _ Hm Hag Hd). unfold gfun.
    apply (map_alookup C a (fun x => match tlookup tm x with Some s => s | None => SA end) C_NoDup Ha). Qed.


(* ---------------------------------------------------------------- *)
(* the substituted terms: renaming of indices                          *)
(* ---------------------------------------------------------------- *)
Definition comp (rho : env) (f : index -> index) : env := fun x => rho (f x).

Section Ren.
Variable f : index -> index.
Lemma tens_val_ren rho u : tens_val S T rho (ren_tens f u) = tens_val S T (comp rho f) u.
Proof. unfold tens_val, ren_tens; simpl. rewrite !map_map. reflexivity. Qed.
Lemma poly_val_ren rho p : poly_val S T rho (ren_poly f p) = poly_val S T (comp rho f) p.
Proof. unfold poly_val, ren_poly. rewrite ksum_map. apply ksum_ext. intros [q ts] _.
  unfold pterm_val; simpl. rewrite map_map. f_equal. f_equal. apply map_ext. intros; apply tens_val_ren. Qed.
Lemma atom_val_ren rho x : atom_val S T rho (ren_atom f x) = atom_val S T (comp rho f) x.
Proof. destruct x; simpl; try reflexivity; [apply tens_val_ren|apply poly_val_ren]. Qed.
Lemma term_val_ren rho u : term_val S T rho (ren_term f u) = term_val S T (comp rho f) u.
Proof. unfold term_val, ren_term, mono_val; simpl. rewrite map_map. f_equal. f_equal.
  apply map_ext. intros x. unfold fac_val, ren_fac; simpl. rewrite atom_val_ren. reflexivity. Qed.

Lemma flat_map_map_comm' {A} (h : A -> list index) (g : A -> A) l :
  (forall x, h (g x) = map f (h x)) -> flat_map h (map g l) = map f (flat_map h l).
Proof. intros H. induction l; simpl; [reflexivity|]. rewrite map_app, H, IHl. reflexivity. Qed.
Lemma tens_idx_ren u : tens_idx (ren_tens f u) = map f (tens_idx u).
Proof. unfold tens_idx, ren_tens; simpl. rewrite map_app. reflexivity. Qed.
Lemma atom_idx_ren x : atom_idx (ren_atom f x) = map f (atom_idx x).
Proof. destruct x; simpl; try reflexivity; [apply tens_idx_ren|].
  unfold poly_idx, ren_poly. apply flat_map_map_comm'. intros [q ts]; simpl.
  apply flat_map_map_comm'. apply tens_idx_ren. Qed.
Lemma term_idx_ren u : term_idx (ren_term f u) = map f (term_idx u).
Proof. unfold term_idx, mono_idx, ren_term; simpl. apply flat_map_map_comm'.
  intros x; unfold fac_idx, ren_fac; simpl. apply atom_idx_ren. Qed.

Definition inj_on (D : list index) : Prop := forall x y, In x D -> In y D -> f x = f y -> x = y.
Lemma imem_ren D x l : inj_on D -> In x D -> incl l D -> imem (f x) (map f l) = imem x l.
Proof. intros Hi Hx Hl. destruct (imem x l) eqn:E.
  - apply imem_In. apply in_map. apply imem_In; auto.
  - apply imem_nIn. apply imem_nIn in E. intros Hin. apply in_map_iff in Hin.
    destruct Hin as [y [Hy1 Hy2]]. apply E. rewrite <- (Hi y x); auto. Qed.
Lemma inodup_acc_ren D : inj_on D -> forall l seen, incl l D -> incl seen D ->
  inodup_acc (map f seen) (map f l) = map f (inodup_acc seen l).
Proof. intros Hi. induction l as [|y l IH]; intros seen Hl Hs; simpl; [reflexivity|].
  rewrite (imem_ren D y seen Hi); [|apply Hl; left; auto|auto].
  destruct (imem y seen); [apply IH; [intros z Hz; apply Hl; right; auto|auto]|].
  simpl. f_equal. apply (IH (y :: seen)); [intros z Hz; apply Hl; right; auto|].
  intros z [<-|Hz]; [apply Hl; left; auto|auto]. Qed.
Lemma contracted_ren D tg0 u : inj_on D -> incl tg0 D -> incl (term_idx u) D ->
  contracted (map f tg0) (ren_term f u) = map f (contracted tg0 u).
Proof. intros Hi Ht Hu. unfold contracted, contracted_of. rewrite term_idx_ren.
  unfold inodup. replace (@nil index) with (map f []) at 1 by reflexivity.
  rewrite (inodup_acc_ren D Hi _ [] Hu) by (intros ? []).
  assert (Hsub : incl (inodup_acc [] (term_idx u)) D).
  { intros x Hx. apply Hu. apply (inodup_In (term_idx u)). exact Hx. }
  revert Hsub. generalize (inodup_acc [] (term_idx u)) as l.
  induction l as [|x l IH]; intros Hsub; simpl; [reflexivity|].
  rewrite (imem_ren D x tg0 Hi); [|apply Hsub; left; auto|auto].
  destruct (imem x tg0); simpl; rewrite IH; auto; intros z Hz; apply Hsub; right; auto. Qed.

Lemma sum_sp_agree D xs : forall a r1 r2 G, depends_on S D G ->
  (forall y, In y D -> r1 y = r2 y) -> sum_sp xs a r1 G = sum_sp xs a r2 G.
Proof. induction xs as [|x xs IH]; intros [|s a] r1 r2 G HG H; simpl; try (apply HG; exact H).
  apply ksum_ext. intros o _. apply IH; [auto|]. intros y Hy. unfold upd.
  destruct (index_eqb y x); [reflexivity|auto]. Qed.

Lemma sum_over_ren D xs : forall a rho G, inj_on D -> incl xs D -> depends_on S D G ->
  Forall2 (fun x s => ispace (f x) = ispace x /\ ispin (f x) = to_spin s) xs a ->
  sum_over S T (map f xs) rho (fun rho' => G (comp rho' f)) = sum_sp xs a (comp rho f) G.
Proof. induction xs as [|x xs IH]; intros a rho G Hi Hx HG HF; inversion HF as [|? s ? a' [Hsp1 Hsp2] HF']; subst; simpl.
  - reflexivity.
  - unfold irange. rewrite Hsp1, Hsp2. apply ksum_ext. intros o _.
    rewrite (IH a' _ G Hi); [|intros z Hz; apply Hx; right; auto|auto|auto].
    apply (sum_sp_agree D); [auto|]. intros y Hy. unfold comp, upd.
    destruct (index_eqb y x) eqn:E.
    + apply index_eqb_eq in E; subst. rewrite index_eqb_refl. reflexivity.
    + destruct (index_eqb (f y) (f x)) eqn:E2; [|reflexivity].
      apply index_eqb_eq in E2. apply Hi in E2; [|auto|apply Hx; left; auto].
      subst. rewrite index_eqb_refl in E. discriminate. Qed.
End Ren.

Hypothesis Hwfidx : forall x, In x (tg ++ term_idx t) -> ispin x = NoSpin /\ iuid x = 0%N.

Lemma unspin_lab m x : In x (tg ++ term_idx t) -> unspin (lab m x) = x.
Proof. intros Hx. destruct (Hwfidx x Hx) as [H1 H2]. unfold lab.
  destruct (sspin m x); unfold unspin, spin_idx; destruct x; simpl in *; subst; reflexivity. Qed.

Theorem integrate_value :
  exists R, integrate_objs tm objs tidx = Ok R /\
    eval_term S T tg r t =
    ksum R (fun m => eval_term S T (map (lab m) tg) (fun y => r (unspin y)) (ren_term (lab m) t)).
Proof.
  destruct (rep_final tm objs tidx Hwf Htidx_nd closed) as [R [HR HRep]].
  destruct integrate_value_sp as [R' [HR' Hv]]. rewrite HR in HR'. inversion HR'; subst R'.
  exists R. split; [exact HR|]. rewrite Hv. apply ksum_ext. intros m Hm.
  destruct (rep_s _ _ _ HRep m Hm) as [Hd _].
  set (D := tg ++ term_idx t).
  assert (Hinj : inj_on (lab m) D).
  { intros x y Hx Hy E. rewrite <- (unspin_lab m x Hx), <- (unspin_lab m y Hy), E. reflexivity. }
  assert (Hdep : depends_on S D (fun r' => term_val S T r' t)).
  { intros r1 r2 Hag. apply term_val_agree. intros x Hx. apply Hag. unfold D. apply in_or_app; auto. }
  assert (HCD : incl C D).
  { intros x Hx. apply C_In in Hx. unfold D. apply in_or_app. right. apply Htidx. tauto. }
  unfold eval_term.
  rewrite (contracted_ren (lab m) D tg t Hinj); [|intros x Hx; unfold D; apply in_or_app; auto
                                                 |intros x Hx; unfold D; apply in_or_app; auto].
  fold C.
  rewrite (sum_over_ext S T _ _ (fun rho' => term_val S T (comp rho' (lab m)) t))
    by (intros; apply term_val_ren).
  rewrite (sum_over_ren (lab m) D C (a_of m) _ (fun r' => term_val S T r' t) Hinj HCD Hdep).
  - apply (sum_sp_agree D); [exact Hdep|]. intros y Hy. unfold comp. rewrite unspin_lab; auto.
  - unfold a_of. assert (Hc : forall x, In x C -> sdom m x).
    { intros x Hx. apply Hd. apply C_In in Hx. tauto. }
    revert Hc. generalize C as l. clear. induction l as [|x l IH]; intros Hc; simpl; constructor.
    + assert (Hx : sdom m x) by (apply Hc; left; auto). unfold lab.
      destruct (sspin m x) as [s|] eqn:E; [simpl; auto|].
      exfalso. unfold sspin in E. destruct Hx as [Hx|Hx]; apply imem_In in Hx.
      * destruct (imem x (sb m)); [discriminate|]. rewrite Hx in E. discriminate.
      * rewrite Hx in E. discriminate.
    + apply IH. intros y Hy; apply Hc; right; auto. Qed.



(* no admissible spin assignment at all: the value on the requested block is zero *)
Theorem no_good_zero : (forall g, ~ good tm objs tidx g) -> eval_term S T tg r t = 0.
Proof. intros Hno. destruct integrate_value_sp as [R [HR Hv]].
  destruct (rep_final tm objs tidx Hwf Htidx_nd closed) as [R' [HR' HRep]].
  rewrite HR in HR'. inversion HR'; subst R'. rewrite Hv.
  destruct R as [|m R]; [reflexivity|]. exfalso.
  destruct (rep_s _ _ _ HRep m (or_introl eq_refl)) as [_ [g [Hg _]]]. exact (Hno g Hg). Qed.

End Value0.

(* ---------------------------------------------------------------- *)
(* expansion of the antisymmetrised integrals                         *)
(* ---------------------------------------------------------------- *)
Section Eri.
Notation "- x" := (kopp S x).
Definition dsp (a b : nat) : K S := if sp_eqb (ospin a) (ospin b) then 1 else 0.
(* <pq||rs> = d(sp,sr) d(sq,ss) (pr|qs) - d(sp,ss) d(sq,sr) (ps|qr) *)
Hypothesis Heri : forall p q r s,
  tv T KAnti sV 1%Z [p; q] [r; s] =
  dsp p r * dsp q s * tv T KSym sv 1%Z [p; r] [q; s] + - (dsp p s * dsp q r * tv T KSym sv 1%Z [p; s] [q; r]).

(* environments that respect the spin labels of the indices *)
Definition lab_ok (rho : env) : Prop :=
  forall x, (ispin x = Alpha -> ospin (rho x) = SA) /\ (ispin x = Beta -> ospin (rho x) = SB).
Definition eri_ok (f : factor) : Prop :=
  match fst f with
  | ATens u => String.eqb (tname u) sV = true ->
               tkind u = KAnti /\ length (tupper u) = 2 /\ length (tlower u) = 2 /\
               forall x, In x (tens_idx u) -> ispin x <> NoSpin
  | _ => True end.

Definition alts_val (rho : env) (alts : list (Q * list factor)) : K S :=
  ksum alts (fun cf => ofQ S (fst cf) * mono_val S T rho (snd cf)).

Lemma spin_eqb_dsp rho x y : lab_ok rho -> ispin x <> NoSpin -> ispin y <> NoSpin ->
  dsp (rho x) (rho y) = if spin_eqb (ispin x) (ispin y) then 1 else 0.
Proof. intros Hl Hx Hy. unfold dsp. destruct (Hl x) as [Ax Bx]. destruct (Hl y) as [Ay By].
  destruct (ispin x) eqn:Ex, (ispin y) eqn:Ey; try congruence; simpl;
    try rewrite (Ax eq_refl); try rewrite (Bx eq_refl); try rewrite (Ay eq_refl); try rewrite (By eq_refl);
    reflexivity. Qed.

Lemma expand_eri_fac_value rho f alts : lab_ok rho -> eri_ok f ->
  expand_eri_fac f = Ok alts -> fac_val S T rho f = alts_val rho alts.
Proof. intros Hl Hok. unfold expand_eri_fac, alts_val.
  assert (Hone : fac_val S T rho f = ksum [(1%Q, [f])] (fun cf => ofQ S (fst cf) * mono_val S T rho (snd cf))).
  { simpl. unfold mono_val; simpl. rewrite (ofQ_1 S). ring. }
  destruct f as [[u| | | |] inv]; simpl in *; try (intros H; inversion H; subst; exact Hone).
  destruct (String.eqb (tname u) sV) eqn:En; [|intros H; inversion H; subst; exact Hone].
  unfold eri_ok in Hok; simpl in Hok. destruct (Hok En) as [Hk [Hlu [Hll Hsp]]]. apply String.eqb_eq in En.
  destruct (Z.eqb (tbks u) 1) eqn:Eb; simpl; [|discriminate]. apply Z.eqb_eq in Eb.
  unfold tens_oidx. rewrite Hk.
  destruct u as [k n bks up lo]; simpl in *; subst.
  destruct up as [|p [|q [|]]]; try discriminate. destruct lo as [|r0 [|s0 [|]]]; try discriminate. simpl.
  assert (Hp : ispin p <> NoSpin) by (apply Hsp; unfold tens_idx; simpl; tauto).
  assert (Hq : ispin q <> NoSpin) by (apply Hsp; unfold tens_idx; simpl; tauto).
  assert (Hr0 : ispin r0 <> NoSpin) by (apply Hsp; unfold tens_idx; simpl; tauto).
  assert (Hs0 : ispin s0 <> NoSpin) by (apply Hsp; unfold tens_idx; simpl; tauto).
  assert (HV : tens_val S T rho (Tens KAnti sV 1 [p; q] [r0; s0]) =
               poly_val S T rho (map (fun ct => (fst ct, [snd ct]))
                 ((if spin_eqb (ispin p) (ispin r0) && spin_eqb (ispin q) (ispin s0)
                   then [(1%Q, coulomb p r0 q s0)] else []) ++
                  (if spin_eqb (ispin p) (ispin s0) && spin_eqb (ispin q) (ispin r0)
                   then [((-1)%Q, coulomb p s0 q r0)] else [])))).
  { unfold tens_val; simpl. rewrite Heri.
    rewrite (spin_eqb_dsp rho p r0), (spin_eqb_dsp rho q s0), (spin_eqb_dsp rho p s0), (spin_eqb_dsp rho q r0); auto.
    unfold poly_val, pterm_val, coulomb, tens_val.
    assert (Hm1 : ofQ S (-1)%Q = kopp S (k1 S)) by (rewrite <- (ofQ_1 S), <- ofQ_opp; reflexivity).
    destruct (spin_eqb (ispin p) (ispin r0)), (spin_eqb (ispin q) (ispin s0)),
             (spin_eqb (ispin p) (ispin s0)), (spin_eqb (ispin q) (ispin r0)); simpl;
      rewrite ?Hm1, ?(ofQ_1 S); ring. }
  destruct inv; intros H; inversion H; subst; clear H.
  - unfold fac_val; simpl. unfold mono_val; simpl. unfold fac_val; simpl.
    rewrite HV, (ofQ_1 S). ring.
  - unfold fac_val at 1; simpl. rewrite HV. unfold poly_val. rewrite !ksum_map.
    apply ksum_ext. intros [c v] _. unfold pterm_val, mono_val, fac_val; simpl. ring. Qed.

Lemma ksum_list_prod {A B} (l1 : list A) (l2 : list B) (F : A * B -> K S) :
  ksum (list_prod l1 l2) F = ksum l1 (fun a => ksum l2 (fun b => F (a, b))).
Proof. induction l1 as [|a l1 IH]; simpl; [reflexivity|].
  rewrite ksum_app, ksum_map, IH. reflexivity. Qed.

Lemma ksum_mul {A B} (l1 : list A) (l2 : list B) (f1 : A -> K S) (f2 : B -> K S) :
  ksum l1 f1 * ksum l2 f2 = ksum l1 (fun a => ksum l2 (fun b => f1 a * f2 b)).
Proof. induction l1 as [|a l1 IH]; simpl; [ring|]. rewrite <- IH, (ksum_scal S l2 (f1 a) f2). ring. Qed.

Lemma mono_val_app rho f1 f2 : mono_val S T rho (f1 ++ f2) = mono_val S T rho f1 * mono_val S T rho f2.
Proof. unfold mono_val. rewrite map_app, kprod_app. reflexivity. Qed.

Lemma expand_eri_facs_value rho : lab_ok rho -> forall fs alts, (forall f, In f fs -> eri_ok f) ->
  expand_eri_facs fs = Ok alts -> mono_val S T rho fs = alts_val rho alts.
Proof. intros Hl. induction fs as [|f fs IH]; intros alts Hok H; simpl in H.
  - inversion H; subst. unfold alts_val, mono_val; simpl. rewrite (ofQ_1 S). ring.
  - destruct (expand_eri_fac f) as [a1|c] eqn:E1; simpl in H; [|discriminate].
    destruct (expand_eri_facs fs) as [a2|c] eqn:E2; simpl in H; [|discriminate].
    inversion H; subst; clear H.
    change (mono_val S T rho (f :: fs)) with (fac_val S T rho f * mono_val S T rho fs).
    rewrite (expand_eri_fac_value rho f a1 Hl (Hok f (or_introl eq_refl)) E1).
    rewrite (IH a2 (fun g Hg => Hok g (or_intror Hg)) eq_refl).
    unfold alts_val. rewrite ksum_map, ksum_list_prod, ksum_mul.
    apply ksum_ext. intros x _. apply ksum_ext. intros y _. simpl.
    rewrite ofQ_mul, mono_val_app. ring. Qed.

(* value of a term = sum of the values of its expanded terms, for every assignment
   of orbitals that respects the spin labels *)
Theorem eri_expand_value rho u l : lab_ok rho -> (forall f, In f (tfacs u) -> eri_ok f) ->
  expand_eri_term u = Ok l -> term_val S T rho u = ksum l (fun u' => term_val S T rho u').
Proof. intros Hl Hok H. unfold expand_eri_term in H.
  destruct (expand_eri_facs (tfacs u)) as [alts|c] eqn:E; simpl in H; [|discriminate].
  inversion H; subst; clear H. rewrite ksum_map. unfold term_val at 1.
  rewrite (expand_eri_facs_value rho Hl _ alts Hok E). unfold alts_val.
  rewrite <- ksum_scal. apply ksum_ext. intros [c fs] _. unfold term_val; simpl.
  rewrite ofQ_mul. ring. Qed.
End Eri.

(* ---------------------------------------------------------------- *)
(* restricted reference: beta -> alpha                                 *)
(* ---------------------------------------------------------------- *)
Section Restricted.
(* every beta spin orbital has an alpha partner; the alpha range of a space is the
   list of partners of its beta range *)
Variable alpha_of : nat -> nat.
Hypothesis HR1 : forall s, rng T s Alpha = map alpha_of (rng T s Beta).
Hypothesis HR2 : forall s o, In o (rng T s Alpha) -> alpha_of o = o.
Variable tg0 : list index.
Variable u : term.
Let D := tg0 ++ term_idx u.
Hypothesis Hlabelled : forall x, In x D -> ispin x <> NoSpin.
Hypothesis Hinj : inj_on to_alpha D.
(* alpha and beta tensors coincide: replacing every orbital by its alpha partner does
   not change the value of the product of tensors *)
Hypothesis Hcoincide : forall rho, (forall x, In x D -> In (rho x) (irange S T x)) ->
  term_val S T (fun x => alpha_of (rho x)) u = term_val S T rho u.

Lemma irange_to_alpha x : In x D -> irange S T (to_alpha x) = map alpha_of (irange S T x).
Proof. intros Hx. unfold irange, to_alpha. pose proof (Hlabelled x Hx) as Hl.
  destruct (ispin x) eqn:E; simpl; [congruence| |apply HR1].
  rewrite E. symmetry. rewrite <- (map_id (rng T (ispace x) Alpha)) at 2. apply map_ext_in.
  intros o Ho. eapply HR2; eauto. Qed.

Lemma restricted_sum xs : forall rho rho', incl xs D -> NoDup xs ->
  (forall y, In y D -> ~ In y xs -> In (rho y) (irange S T y)) ->
  (forall y, In y D -> rho' (to_alpha y) = alpha_of (rho y)) ->
  sum_over S T (map to_alpha xs) rho' (fun rho'' => term_val S T (comp rho'' to_alpha) u) =
  sum_over S T xs rho (fun rho0 => term_val S T rho0 u).
Proof. induction xs as [|x xs IH]; intros rho rho' Hi Hnd Hrange Hrel; simpl.
  - rewrite <- (Hcoincide rho) by (intros y Hy; apply Hrange; auto).
    apply term_val_agree. intros y Hy. unfold comp. apply Hrel. unfold D. apply in_or_app; auto.
  - inversion Hnd as [|? ? Hn Hd]; subst.
    assert (HxD : In x D) by (apply Hi; left; auto).
    rewrite (irange_to_alpha x HxD), ksum_map. apply ksum_ext. intros o Ho.
    apply IH; [intros z Hz; apply Hi; right; auto|auto| |].
    + intros y Hy Hny. unfold upd. destruct (index_eqb y x) eqn:E.
      * apply index_eqb_eq in E; subst. exact Ho.
      * apply Hrange; [auto|]. intros [->|H]; [rewrite index_eqb_refl in E; discriminate|auto].
    + intros y Hy. unfold upd. destruct (index_eqb y x) eqn:E.
      * apply index_eqb_eq in E; subst. rewrite index_eqb_refl. reflexivity.
      * destruct (index_eqb (to_alpha y) (to_alpha x)) eqn:E2; [|auto].
        apply index_eqb_eq in E2. apply Hinj in E2; auto. subst. rewrite index_eqb_refl in E. discriminate. Qed.

(* the all-alpha term has the value of the spin-labelled term *)
Theorem restricted_value rho rho' :
  (forall y, In y tg0 -> In (rho y) (irange S T y)) ->
  (forall y, In y D -> rho' (to_alpha y) = alpha_of (rho y)) ->
  eval_term S T (map to_alpha tg0) rho' (ren_term to_alpha u) = eval_term S T tg0 rho u.
Proof. intros Htg Hrel. unfold eval_term.
  rewrite (contracted_ren to_alpha D tg0 u Hinj);
    [|intros x Hx; unfold D; apply in_or_app; auto|intros x Hx; unfold D; apply in_or_app; auto].
  rewrite (sum_over_ext S T _ _ (fun rho'' => term_val S T (comp rho'' to_alpha) u))
    by (intros; apply term_val_ren).
  apply restricted_sum; auto.
  - intros x Hx. unfold contracted, contracted_of in Hx. apply filter_In in Hx.
    unfold D. apply in_or_app. right. apply (inodup_In (term_idx u)). tauto.
  - unfold contracted, contracted_of. apply NoDup_filter'. apply inodup_NoDup.
  - intros y Hy Hny. apply Htg. unfold D in Hy. apply in_app_or in Hy. destruct Hy as [Hy|Hy]; [auto|].
    destruct (in_dec index_eq_dec y tg0) as [H|H]; [auto|]. exfalso. apply Hny.
    unfold contracted, contracted_of. apply filter_In. split; [apply inodup_In; auto|].
    apply negb_true_iff. apply imem_nIn. auto. Qed.
End Restricted.

(* the tables computed by the model of Obj.allowed_spin_blocks *)
Definition tbl_of (it : itable) (a : atom) : option (list block) :=
  match allowed_blocks it a with Ok o => o | Err _ => None end.
Lemma sobjs_of_objs_of it fs objs : sobjs_of it (map fst fs) = Ok objs -> objs = objs_of (tbl_of it) fs.
Proof. revert objs; induction fs as [|f fs IH]; intros objs H; simpl in H; [inversion H; reflexivity|].
  destruct (allowed_blocks it (fst f)) as [o|c] eqn:E; simpl in H; [|discriminate].
  destruct (sobjs_of it (map fst fs)) as [l|c]; simpl in H; [|discriminate].
  inversion H; subst. simpl. unfold tbl_of at 1. rewrite E. f_equal. apply IH. reflexivity. Qed.
Lemma atoms_idx_In fs x : In x (atoms_idx (map fst fs)) <-> In x (mono_idx fs).
Proof. unfold atoms_idx, mono_idx. rewrite inodup_In, !in_flat_map. split.
  - intros [a [Ha Hx]]. apply in_map_iff in Ha. destruct Ha as [f [<- Hf]]. exists f. split; [auto|].
    unfold fac_idx. apply obj_idx_In; auto.
  - intros [f [Hf Hx]]. exists (fst f). split; [apply in_map; auto|]. apply obj_idx_In; auto. Qed.

End Value.
