(* C06 - executable model of the construction of adcgen's tensor objects
   (adcgen/sympy_objects.py, adcgen/indices.py:sort_idx_canonical, the
   assumption code of adcgen/expr_container.py) and of the sympy routine
   [_sort_anticommuting_fermions] they call.  Definitions only; the proofs are
   in TensorObjProofs.v so that the model still evaluates if a proof breaks. *)
From Coq Require Import ZArith NArith List Bool Lia Ascii String.
From ADC Require Import Core.Scalar Core.Index Core.Expr Core.Canon.
Import ListNotations.

(* ------------------------------------------------------------------------- *)
(* sympy.physics.secondquant._sort_anticommuting_fermions with
   key = sort_idx_canonical.  Keys are the tuples
   (space[0], spin, number, letter, hash) = [idx_key]; [idx_cmp] is their
   lexicographic comparison; the hash component is the [iuid] field (the
   harness numbers same-named dummies in the order of their observed hashes). *)

(* for i in rng:  one left-to-right pass.  [x] is keys[i] (the element carried
   along), [r] = keys[i+1:].  Result: the list after the pass and the number of
   swaps; None = ViolationOfPauliPrinciple (left == right). *)
Fixpoint fwd_pass (x : index) (r : list index) : option (list index * nat) :=
  match r with
  | [] => Some ([x], 0)
  | y :: r' =>
    match idx_cmp x y with
    | Eq => None
    | Gt => match fwd_pass x r' with            (* left > right: swap *)
            | Some (l, n) => Some (y :: l, S n) | None => None end
    | Lt => match fwd_pass y r' with
            | Some (l, n) => Some (x :: l, n) | None => None end
    end
  end.

(* for i in rev:  one right-to-left pass over the list it is given (the caller
   passes keys[:-1], because rev starts at len-3). *)
Fixpoint bwd_pass (l : list index) : option (list index * nat) :=
  match l with
  | [] => Some ([], 0)
  | x :: r =>
    match bwd_pass r with
    | None => None
    | Some ([], n) => Some ([x], n)
    | Some (y :: r', n) =>
      match idx_cmp x y with
      | Eq => None
      | Gt => Some (y :: x :: r', S n)
      | Lt => Some (x :: y :: r', n)
      end
    end
  end.

Inductive bres := BOk (l : list index) (n : nat) | BPauli | BFuel.

(* while not verified: ...   [fuel] only makes the function structurally
   recursive; [bubble_never_out_of_fuel] shows that it is never exhausted. *)
Fixpoint bubble_loop (fuel : nat) (l : list index) (sign : nat) : bres :=
  match fuel with
  | O => BFuel
  | S f =>
    match l with
    | [] => BOk [] sign
    | x :: r =>
      match fwd_pass x r with
      | None => BPauli
      | Some (l1, n1) =>
        if Nat.eqb n1 0 then BOk l1 sign                     (* verified *)
        else match bwd_pass (removelast l1) with
             | None => BPauli
             | Some (l2, n2) => bubble_loop f (l2 ++ [last l1 x]) (sign + n1 + n2)
             end
      end
    end
  end.

(* number of inversions of a list w.r.t. the key order (used as fuel and in
   the specification) *)
Definition cnt_lt (x : index) (l : list index) : nat :=
  List.length (filter (fun y => idx_ltb y x) l).
Fixpoint inversions (l : list index) : nat :=
  match l with [] => 0 | x :: r => cnt_lt x r + inversions r end.

Definition bubble (l : list index) : bres := bubble_loop (S (inversions l)) l 0.

(* ------------------------------------------------------------------------- *)
(* AntiSymmetricTensor._need_bra_ket_swap *)
Definition spaces_of (l : list index) : list N := map (fun i => space_code (ispace i)) l.
Definition spins_of (l : list index) : list N := map (fun i => spin_code (ispin i)) l.
(* [(int(name[1:]) or 0, name[0]) for s in l], flattened (all pairs have the
   same length, so the lexicographic order is the same) *)
Definition names_of (l : list index) : list N := flat_map (fun i => [inum i; iletter i]) l.

(* comparison of (lower) against (upper) in the three stages of the code *)
Definition bk_cmp (upper lower : list index) : comparison :=
  match lex_cmp (spaces_of lower) (spaces_of upper) with
  | Lt => Lt | Gt => Gt
  | Eq => match lex_cmp (spins_of lower) (spins_of upper) with
          | Lt => Lt | Gt => Gt
          | Eq => lex_cmp (names_of lower) (names_of upper)
          end
  end.
Definition need_bra_ket_swap (upper lower : list index) : bool :=
  match bk_cmp upper lower with Lt => true | _ => false end.

(* ------------------------------------------------------------------------- *)
(* result of a constructor: S.Zero, an exception (Inputerror /
   NotImplementedError), or  (-1)^neg * tensor *)
Inductive tres := TZero | TErr | TOk (neg : bool) (t : tens).

Definition tres_neg (b : bool) (x : tres) : tres :=
  match x with TOk s t => TOk (xorb b s) t | y => y end.

Definition bks_valid (bks : Z) : bool := Z.eqb bks 1 || Z.eqb bks (-1).

(* list(upper) == list(lower) *)
Fixpoint lidx_eqb (a b : list index) : bool :=
  match a, b with
  | [], [] => true
  | x :: a', y :: b' => index_eqb x y && lidx_eqb a' b'
  | _, _ => false
  end.
(* elif bra_ket_sym is S.NegativeOne and list(upper) == list(lower): return S.Zero *)
Definition diag_zero (bks : Z) (u l : list index) : bool := Z.eqb bks (-1) && lidx_eqb u l.

(* AntiSymmetricTensor.__new__ (also Amplitude, which inherits it) *)
Definition mk_anti (k : kind) (name : string) (bks : Z) (upper lower : list index) : tres :=
  match bubble upper with
  | BPauli => TZero
  | BFuel => TErr
  | BOk u sign_u =>
    match bubble lower with
    | BPauli => TZero
    | BFuel => TErr
    | BOk l sign_l =>
      if Z.eqb bks 0 then TOk (Nat.odd (sign_u + sign_l)) (Tens k name bks u l)
      else if negb (bks_valid bks) then TErr
      else if negb (Nat.eqb (List.length u) (List.length l)) then TErr
      else if need_bra_ket_swap u l
           then let sign_u' := if Z.eqb bks (-1) then sign_u + 1 else sign_u in
                TOk (Nat.odd (sign_u' + sign_l)) (Tens k name bks l u)
           else if diag_zero bks u l then TZero
           else TOk (Nat.odd (sign_u + sign_l)) (Tens k name bks u l)
    end
  end.

(* SymmetricTensor.__new__ : sorted(...) without sign, no Pauli zero; zero
   only for a bra-ket antisymmetric tensor with identical bra and ket *)
Definition mk_sym (k : kind) (name : string) (bks : Z) (upper lower : list index) : tres :=
  let u := ksort idx_key upper in
  let l := ksort idx_key lower in
  if Z.eqb bks 0 then TOk false (Tens k name bks u l)
  else if negb (bks_valid bks) then TErr
  else if negb (Nat.eqb (List.length u) (List.length l)) then TErr
  else if need_bra_ket_swap u l then TOk (Z.eqb bks (-1)) (Tens k name bks l u)
  else if diag_zero bks u l then TZero
  else TOk false (Tens k name bks u l).

(* cls(name, upper, lower, bra_ket_sym) for the three symmetric classes;
   NonSymmetricTensor keeps its index tuple *)
Definition mk_tensor (k : kind) (name : string) (bks : Z) (upper lower : list index) : tres :=
  match k with
  | KAnti | KAmp => mk_anti k name bks upper lower
  | KSym => mk_sym k name bks upper lower
  | KNonSym => TOk false (Tens k name bks upper lower)
  end.

(* t.xreplace(map) / t.subs(map, simultaneous): the constructor is called again
   on the substituted index tuples *)
Definition subst_tensor (f : index -> index) (t : tens) : tres :=
  mk_tensor (tkind t) (tname t) (tbks t) (map f (tupper t)) (map f (tlower t)).

(* ------------------------------------------------------------------------- *)
(* KroneckerDelta.eval and _eval_power *)
Inductive dres := DOne | DZero | DDelta (i j : index).

Definition space_clash (a b : space) : bool :=
  match a, b with Occ, Virt | Virt, Occ => true | _, _ => false end.
Definition spin_clash (a b : spin) : bool :=
  match a, b with Alpha, Beta | Beta, Alpha => true | _, _ => false end.

Definition delta_eval (i j : index) : dres :=
  if index_eqb i j then DOne
  else if space_clash (ispace i) (ispace j) then DZero
  else if spin_clash (ispin i) (ispin j) then DZero
  else if idx_leb i j then DDelta i j      (* i == min(i, j, key=...) *)
  else DDelta j i.

(* exponent that remains on a (non-evaluated) delta:  d**e  ->  d**(delta_pow e) *)
Definition delta_pow (e : Z) : Z :=
  if Z.ltb 0 e then 1%Z else if Z.ltb e 0 then (-1)%Z else 0%Z.

(* ------------------------------------------------------------------------- *)
(* AntiSymmetricTensor.add_bra_ket_sym *)
Definition add_bra_ket_sym (t : tens) (b : Z) : tres :=
  if Z.eqb b (tbks t) then TOk false t
  else if Z.eqb (tbks t) 0 then mk_tensor (tkind t) (tname t) b (tupper t) (tlower t)
  else TErr.

Fixpoint smem (s : string) (l : list string) : bool :=
  match l with [] => false | x :: r => String.eqb s x || smem s r end.

(* Obj._apply_tensor_braket_sym *)
Definition apply_braket_obj (syms antis : list string) (t : tens) : tres :=
  match tkind t with
  | KNonSym => TOk false t
  | _ =>
    if smem (tname t) syms && negb (Z.eqb (tbks t) 1) then add_bra_ket_sym t 1
    else if smem (tname t) antis && negb (Z.eqb (tbks t) (-1)) then add_bra_ket_sym t (-1)
    else TOk false t
  end.

(* tensor_names.is_t_amplitude / split_t_amplitude_name with gs_amplitude = "t" *)
Definition is_digit (c : ascii) : bool :=
  let n := nat_of_ascii c in Nat.leb 48 n && Nat.leb n 57.
Fixpoint strip_c (s : string) : string :=
  match s with
  | EmptyString => EmptyString
  | String c r => if Ascii.eqb c "c"%char then strip_c r else String c (strip_c r)
  end.
Fixpoint all_digits (s : string) : bool :=
  match s with EmptyString => true | String c r => is_digit c && all_digits r end.
Definition is_t_amplitude (name : string) : bool :=
  match name with
  | String c ext => Ascii.eqb c "t"%char && all_digits (strip_c ext)
  | EmptyString => false
  end.
Definition real_name (name : string) : string :=
  match name with String c ext => String c (strip_c ext) | EmptyString => EmptyString end.

(* Obj.make_real *)
Definition make_real_obj (t : tens) : tres :=
  match tkind t with
  | KNonSym => TOk false t
  | _ =>
    if is_t_amplitude (tname t) then
      if String.eqb (real_name (tname t)) (tname t) then TOk false t
      else mk_tensor KAmp (real_name (tname t)) (tbks t) (tupper t) (tlower t)
    else TOk false t
  end.

(* sequencing of two re-canonicalisations *)
Definition tres_bind (x : tres) (f : tens -> tres) : tres :=
  match x with TOk s t => tres_neg s (f t) | y => y end.

(* what Expr(e, real=, sym_tensors=, antisym_tensors=) does to one tensor
   (fock = "f", eri = "V"): the declared bra-ket symmetry, then (real) the
   renaming of complex-conjugate amplitudes, then the declared symmetry once
   more (Expr.make_real ends with _apply_tensor_braket_sym) *)
Definition assume_obj (real : bool) (syms antis : list string) (t : tens) : tres :=
  let syms' := if real then "f"%string :: "V"%string :: syms else syms in
  let x := apply_braket_obj syms' antis t in
  if real then tres_bind (tres_bind x make_real_obj) (apply_braket_obj syms' antis) else x.
