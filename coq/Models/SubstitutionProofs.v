(* C08 - proofs about the models of ADC.Models.Substitution *)
From Coq Require Import ZArith NArith List Bool Lia Permutation FinFun.
From ADC Require Import Core.Index Models.Substitution.
Import ListNotations.

(* ====================================================================== *)
(* 1. sequential / simultaneous substitution                              *)
(* ====================================================================== *)
Lemma subst_seq_app l1 l2 x : subst_seq (l1 ++ l2) x = subst_seq l2 (subst_seq l1 x).
Proof. unfold subst_seq. apply fold_left_app. Qed.
Lemma subst_seq_cons ab l x : subst_seq (ab :: l) x = subst_seq l (subst1 ab x).
Proof. reflexivity. Qed.

Lemma lookup_In m x v : lookup m x = Some v -> In (x, v) m.
Proof. induction m as [|[k w] r IH]; simpl; [discriminate|].
  destruct (index_eqb x k) eqn:E.
  - apply index_eqb_eq in E; subst. intros H; inversion H; subst. left; reflexivity.
  - intros H; right; apply IH; exact H. Qed.
Lemma lookup_None m x : lookup m x = None <-> ~ In x (map fst m).
Proof. induction m as [|[k w] r IH]; simpl; [tauto|].
  destruct (index_eqb x k) eqn:E.
  - apply index_eqb_eq in E; subst. split; [discriminate|]. intros H; exfalso; apply H; left; reflexivity.
  - apply index_eqb_neq in E. rewrite IH. split; [intros H [H1|H1]; [congruence|tauto]|tauto]. Qed.
Lemma In_lookup m x v : NoDup (map fst m) -> In (x, v) m -> lookup m x = Some v.
Proof. induction m as [|[k w] r IH]; simpl; [tauto|]. intros Hnd [H|H].
  - inversion H; subst. rewrite index_eqb_refl. reflexivity.
  - inversion Hnd as [|? ? Hn Hnd']; subst. destruct (index_eqb x k) eqn:E.
    + apply index_eqb_eq in E; subst. exfalso; apply Hn. apply (in_map fst) in H. exact H.
    + apply IH; assumption. Qed.
Lemma is_key_In m x : is_key m x = true <-> In x (map fst m).
Proof. unfold is_key. destruct (lookup m x) eqn:E.
  - split; [intros _|reflexivity]. apply lookup_In in E. apply (in_map fst) in E; exact E.
  - apply lookup_None in E. split; [discriminate|tauto]. Qed.
Lemma is_key_false m x : is_key m x = false <-> ~ In x (map fst m).
Proof. rewrite <- is_key_In. destruct (is_key m x); split; congruence. Qed.

Lemma sim_in S x y : NoDup (map fst S) -> In (x, y) S -> subst_sim S x = y.
Proof. intros H1 H2. unfold subst_sim. rewrite (In_lookup _ _ _ H1 H2). reflexivity. Qed.
Lemma sim_notin S x : ~ In x (map fst S) -> subst_sim S x = x.
Proof. intros H. unfold subst_sim. apply lookup_None in H. rewrite H. reflexivity. Qed.
Lemma seq_notin S x : ~ In x (map fst S) -> subst_seq S x = x.
Proof. revert x. induction S as [|[a b] r IH]; intros x H; [reflexivity|].
  rewrite subst_seq_cons. unfold subst1; simpl in *.
  destruct (index_eqb x a) eqn:E; [apply index_eqb_eq in E; subst; tauto|]. apply IH; tauto. Qed.

(* a segment whose targets are not sources acts like a simultaneous substitution *)
Definition parallel (S : subs) : Prop :=
  NoDup (map fst S) /\ forall y, In y (map snd S) -> ~ In y (map fst S).
Lemma parallel_seq S x : parallel S -> subst_seq S x = subst_sim S x.
Proof. revert x. induction S as [|[a b] r IH]; intros x [Hnd Hd]; [reflexivity|].
  rewrite subst_seq_cons. unfold subst1, subst_sim; simpl in *.
  inversion Hnd as [|? ? Hn Hnd']; subst.
  assert (Hr : parallel r).
  { split; [exact Hnd'|]. intros y Hy Hy'. apply (Hd y); [right; exact Hy|right; exact Hy']. }
  destruct (index_eqb x a) eqn:E.
  - rewrite seq_notin; [reflexivity|]. intros Hb. apply (Hd b); [left; reflexivity|right; exact Hb].
  - apply IH; exact Hr. Qed.

(* ====================================================================== *)
(* 2. order_substitutions: decomposition into three segments              *)
(* ====================================================================== *)
Inductive cls := CSkip | CPlain | CLate | CCyc.
Definition classify (m : subs) (o n : index) : cls :=
  if index_eqb o n then CSkip
  else match lookup m n with
       | Some k => if is_key m k then CCyc else CLate
       | None => CPlain end.

Fixpoint pA (m rest : subs) (u : N) : subs :=
  match rest with
  | [] => []
  | (o, n) :: r => match classify m o n with
                   | CSkip => pA m r u | CPlain => (o, n) :: pA m r u
                   | CLate => pA m r u | CCyc => (o, tmp u) :: pA m r (N.succ u) end
  end.
Fixpoint pL (m rest : subs) : subs :=
  match rest with
  | [] => []
  | (o, n) :: r => match classify m o n with CLate => (o, n) :: pL m r | _ => pL m r end
  end.
Fixpoint pT (m rest : subs) (u : N) : subs :=
  match rest with
  | [] => []
  | (o, n) :: r => match classify m o n with
                   | CCyc => (tmp u, n) :: pT m r (N.succ u) | _ => pT m r u end
  end.

Lemma order_loop_parts m rest u sb fin :
  order_loop m rest u sb fin = sb ++ pA m rest u ++ rev (pL m rest) ++ fin ++ pT m rest u.
Proof. revert u sb fin. induction rest as [|[o n] r IH]; intros u sb fin; simpl.
  - rewrite app_nil_r. reflexivity.
  - unfold classify. destruct (index_eqb o n); [apply IH|].
    destruct (lookup m n) as [k|]; [destruct (is_key m k)|]; rewrite IH; simpl;
      repeat rewrite <- app_assoc; simpl; reflexivity. Qed.

Theorem order_substitutions_parts u0 m :
  order_substitutions u0 m = pA m m u0 ++ rev (pL m m) ++ pT m m u0.
Proof. unfold order_substitutions. rewrite order_loop_parts. reflexivity. Qed.

Lemma temps_loop_pT m rest u : temps_loop m rest u = map fst (pT m rest u).
Proof. revert u. induction rest as [|[o n] r IH]; intros u; simpl; [reflexivity|].
  unfold classify. destruct (index_eqb o n); [apply IH|].
  destruct (lookup m n) as [k|]; [destruct (is_key m k)|]; simpl; rewrite IH; reflexivity. Qed.

(* --- facts about the segments --- *)
Lemma tmp_inj a b : tmp a = tmp b -> a = b.
Proof. unfold tmp; intros H; inversion H; reflexivity. Qed.

Lemma pT_src m rest u p y : In (p, y) (pT m rest u) ->
  exists k o, p = tmp k /\ (u <= k)%N /\ In (o, y) rest /\ classify m o y = CCyc.
Proof. revert u. induction rest as [|[o n] r IH]; intros u; simpl; [tauto|].
  destruct (classify m o n) eqn:E; try (intros H; destruct (IH _ H) as (k & o' & H1 & H2 & H3 & H4);
    exists k, o'; repeat split; auto; lia).
  intros [H|H].
  - inversion H; subst. exists u, o. repeat split; auto; lia.
  - destruct (IH _ H) as (k & o' & H1 & H2 & H3 & H4). exists k, o'. repeat split; auto; lia. Qed.

Lemma pT_NoDup m rest u : NoDup (map fst (pT m rest u)).
Proof. revert u. induction rest as [|[o n] r IH]; intros u; simpl; [constructor|].
  destruct (classify m o n); try apply IH. simpl. constructor; [|apply IH].
  intros H. apply in_map_iff in H. destruct H as ([p y] & H1 & H2). simpl in H1; subst p.
  apply pT_src in H2. destruct H2 as (k & _ & H1 & H2 & _). apply tmp_inj in H1. lia. Qed.

Lemma pL_In m rest x y : In (x, y) (pL m rest) <-> In (x, y) rest /\ classify m x y = CLate.
Proof. induction rest as [|[o n] r IH]; simpl; [tauto|].
  destruct (classify m o n) eqn:E; simpl; rewrite IH; split;
    try (intros [H1 H2]; split; [right; exact H1|exact H2]);
    try (intros [[H1|H1] H2]; [inversion H1; subst; congruence|split; assumption]).
  - intros [H|[H1 H2]]; [inversion H; subst; split; [left; reflexivity|exact E]|split; [right; exact H1|exact H2]].
  - intros [[H1|H1] H2]; [left; exact H1|right; split; assumption]. Qed.

Lemma pL_src m rest x : In x (map fst (pL m rest)) -> In x (map fst rest).
Proof. intros H. apply in_map_iff in H. destruct H as ([a b] & H1 & H2). simpl in H1; subst a.
  apply pL_In in H2. destruct H2 as [H2 _]. apply (in_map fst) in H2. exact H2. Qed.
Lemma pL_NoDup m rest : NoDup (map fst rest) -> NoDup (map fst (pL m rest)).
Proof. induction rest as [|[o n] r IH]; simpl; [constructor|]. intros H.
  inversion H as [|? ? Hn Hnd]; subst.
  destruct (classify m o n); try (apply IH; exact Hnd). simpl. constructor; [|apply IH; exact Hnd].
  intros H1. apply Hn. apply pL_src in H1. exact H1. Qed.

Lemma pA_cases m rest u x y : In (x, y) (pA m rest u) ->
  (In (x, y) rest /\ classify m x y = CPlain) \/
  (exists n k, In (x, n) rest /\ classify m x n = CCyc /\ y = tmp k /\ (u <= k)%N /\
               In (tmp k, n) (pT m rest u)).
Proof. revert u. induction rest as [|[o n] r IH]; intros u; simpl; [tauto|].
  destruct (classify m o n) eqn:E.
  - intros H. destruct (IH _ H) as [[H1 H2]|(n' & k & H1 & H2 & H3 & H4 & H5)];
      [left; split; [right; exact H1|exact H2]|right; exists n', k; repeat split; auto].
  - intros [H|H].
    + inversion H; subst. left; split; [left; reflexivity|exact E].
    + destruct (IH _ H) as [[H1 H2]|(n' & k & H1 & H2 & H3 & H4 & H5)];
        [left; split; [right; exact H1|exact H2]|right; exists n', k; repeat split; auto].
  - intros H. destruct (IH _ H) as [[H1 H2]|(n' & k & H1 & H2 & H3 & H4 & H5)];
      [left; split; [right; exact H1|exact H2]|right; exists n', k; repeat split; auto].
  - intros [H|H].
    + inversion H; subst. right. exists n, u. repeat split; auto; [lia|left; reflexivity].
    + destruct (IH _ H) as [[H1 H2]|(n' & k & H1 & H2 & H3 & H4 & H5)];
        [left; split; [right; exact H1|exact H2]|right; exists n', k; repeat split; auto; [lia|right; exact H5]]. Qed.

Lemma pA_src m rest u x : In x (map fst (pA m rest u)) -> In x (map fst rest).
Proof. intros H. apply in_map_iff in H. destruct H as ([a b] & H1 & H2). simpl in H1; subst a.
  apply pA_cases in H2. destruct H2 as [[H _]|(n & k & H & _)]; apply (in_map fst) in H; exact H. Qed.
Lemma pA_NoDup m rest u : NoDup (map fst rest) -> NoDup (map fst (pA m rest u)).
Proof. revert u. induction rest as [|[o n] r IH]; intros u; simpl; [constructor|]. intros H.
  inversion H as [|? ? Hn Hnd]; subst.
  destruct (classify m o n); try (apply IH; exact Hnd); simpl; (constructor; [|apply IH; exact Hnd]);
    intros H1; apply Hn; apply pA_src in H1; exact H1. Qed.

Lemma pA_plain m rest u x n : In (x, n) rest -> classify m x n = CPlain -> In (x, n) (pA m rest u).
Proof. revert u. induction rest as [|[o n'] r IH]; intros u; simpl; [tauto|].
  intros [H|H] Hc.
  - inversion H; subst. rewrite Hc. left; reflexivity.
  - destruct (classify m o n'); try (apply IH; assumption); right; apply IH; assumption. Qed.
Lemma pA_cyc m rest u x n : In (x, n) rest -> classify m x n = CCyc ->
  exists k, In (x, tmp k) (pA m rest u) /\ In (tmp k, n) (pT m rest u).
Proof. revert u. induction rest as [|[o n'] r IH]; intros u; simpl; [tauto|].
  intros [H|H] Hc.
  - inversion H; subst. rewrite Hc. exists u. split; left; reflexivity.
  - destruct (classify m o n') eqn:E; try (apply IH; assumption).
    + destruct (IH u H Hc) as (k & H1 & H2). exists k. split; [right; exact H1|exact H2].
    + destruct (IH (N.succ u) H Hc) as (k & H1 & H2). exists k. split; right; assumption. Qed.

(* ====================================================================== *)
(* 3. order_substitutions_correct                                         *)
(* ====================================================================== *)
Section Correct.
Variables (u0 : N) (m : subs).
Hypothesis Hnd : NoDup (map fst m).
Hypothesis Hold : older u0 m.

Let A := pA m m u0.
Let L := rev (pL m m).
Let T := pT m m u0.

Lemma key_old x : In x (map fst m) -> (iuid x < u0)%N.
Proof. intros H. apply in_map_iff in H. destruct H as ([k v] & H1 & H2). simpl in H1; subst.
  apply (Hold _ _ H2). Qed.
Lemma val_old y : In y (map snd m) -> (iuid y < u0)%N.
Proof. intros H. apply in_map_iff in H. destruct H as ([k v] & H1 & H2). simpl in H1; subst.
  apply (Hold _ _ H2). Qed.
Lemma tmp_not_old k : (u0 <= k)%N -> ~ (iuid (tmp k) < u0)%N.
Proof. simpl; lia. Qed.

Lemma A_parallel : parallel A.
Proof. split; [apply pA_NoDup; exact Hnd|]. intros y Hy Hs.
  apply in_map_iff in Hy. destruct Hy as ([a b] & H1 & H2). simpl in H1; subst b.
  apply pA_src in Hs. apply pA_cases in H2.
  destruct H2 as [[H2 H3]|(n & k & _ & _ & H3 & H4 & _)].
  - unfold classify in H3. destruct (index_eqb a y); [discriminate|].
    destruct (lookup m y) as [k|] eqn:E; [destruct (is_key m k); discriminate|].
    apply lookup_None in E. tauto.
  - subst y. apply key_old in Hs. apply (tmp_not_old k H4 Hs). Qed.

Lemma L_src x : In x (map fst L) -> In x (map fst (pL m m)).
Proof. unfold L. rewrite map_rev. intros H. apply in_rev in H. exact H. Qed.
Lemma L_In x y : In (x, y) L <-> In (x, y) m /\ classify m x y = CLate.
Proof. unfold L. rewrite <- in_rev. apply pL_In. Qed.

Lemma L_parallel : parallel L.
Proof. split.
  - unfold L. rewrite map_rev. apply NoDup_rev. apply pL_NoDup; exact Hnd.
  - intros y Hy Hs. apply in_map_iff in Hy. destruct Hy as ([a b] & H1 & H2). simpl in H1; subst b.
    apply L_In in H2. destruct H2 as [H2 H3].
    apply in_map_iff in Hs. destruct Hs as ([y' c] & H4 & H5). simpl in H4; subst y'.
    apply L_In in H5. destruct H5 as [H5 H6].
    unfold classify in H3, H6.
    destruct (index_eqb a y); [discriminate|]. destruct (index_eqb y c); [discriminate|].
    rewrite (In_lookup _ _ _ Hnd H5) in H3.
    destruct (lookup m c) as [k|] eqn:E; [|discriminate].
    assert (Hk : is_key m c = true) by (unfold is_key; rewrite E; reflexivity).
    rewrite Hk in H3. discriminate. Qed.

Lemma T_parallel : parallel T.
Proof. split; [apply pT_NoDup|]. intros y Hy Hs.
  apply in_map_iff in Hy. destruct Hy as ([a b] & H1 & H2). simpl in H1; subst b.
  apply pT_src in H2. destruct H2 as (_ & o & _ & _ & H2 & _).
  apply in_map_iff in Hs. destruct Hs as ([y' c] & H4 & H5). simpl in H4; subst y'.
  apply pT_src in H5. destruct H5 as (k & _ & H5 & H6 & _). subst y.
  apply (in_map snd) in H2. simpl in H2. apply val_old in H2. apply (tmp_not_old k H6 H2). Qed.

Lemma T_src_temp x : In x (map fst T) <-> In x (temporaries u0 m).
Proof. unfold temporaries, T. rewrite temps_loop_pT. tauto. Qed.
Lemma T_src_not_old x : In x (map fst T) -> ~ (iuid x < u0)%N.
Proof. intros H. apply in_map_iff in H. destruct H as ([p y] & H1 & H2). simpl in H1; subst p.
  apply pT_src in H2. destruct H2 as (k & _ & -> & H2 & _). apply tmp_not_old; exact H2. Qed.

(* sources of A / L carry the class of their (unique) pair in m *)
Lemma A_src_class x n : In (x, n) m -> In x (map fst A) -> classify m x n = CPlain \/ classify m x n = CCyc.
Proof. intros Hm H. apply in_map_iff in H. destruct H as ([a b] & H1 & H2). simpl in H1; subst a.
  apply pA_cases in H2. destruct H2 as [[H2 H3]|(n' & k & H2 & H3 & _)].
  - pose proof (In_lookup _ _ _ Hnd Hm) as E1. pose proof (In_lookup _ _ _ Hnd H2) as E2.
    rewrite E1 in E2; inversion E2; subst. left; exact H3.
  - pose proof (In_lookup _ _ _ Hnd Hm) as E1. pose proof (In_lookup _ _ _ Hnd H2) as E2.
    rewrite E1 in E2; inversion E2; subst. right; exact H3. Qed.
Lemma L_src_class x n : In (x, n) m -> In x (map fst L) -> classify m x n = CLate.
Proof. intros Hm H. apply in_map_iff in H. destruct H as ([a b] & H1 & H2). simpl in H1; subst a.
  apply L_In in H2. destruct H2 as [H2 H3].
  pose proof (In_lookup _ _ _ Hnd Hm) as E1. pose proof (In_lookup _ _ _ Hnd H2) as E2.
  rewrite E1 in E2; inversion E2; subst. exact H3. Qed.

Theorem order_substitutions_correct_aux x : ~ In x (temporaries u0 m) ->
  subst_seq (order_substitutions u0 m) x = subst_sim m x.
Proof. intros Hx. rewrite order_substitutions_parts. fold A L T.
  rewrite !subst_seq_app.
  rewrite (parallel_seq A x A_parallel).
  rewrite (parallel_seq L _ L_parallel).
  rewrite (parallel_seq T _ T_parallel).
  assert (HxT : ~ In x (map fst T)) by (rewrite T_src_temp; exact Hx).
  unfold subst_sim at 4. destruct (lookup m x) as [n|] eqn:E.
  - apply lookup_In in E. destruct (classify m x n) eqn:Ec.
    + (* identity pair *)
      assert (x = n).
      { unfold classify in Ec. destruct (index_eqb x n) eqn:E1; [apply index_eqb_eq in E1; exact E1|].
        destruct (lookup m n) as [k|]; [destruct (is_key m k)|]; discriminate. }
      subst n.
      rewrite (sim_notin A x); [|intros H; destruct (A_src_class _ _ E H); congruence].
      rewrite (sim_notin L x); [|intros H; pose proof (L_src_class _ _ E H); congruence].
      apply sim_notin; exact HxT.
    + (* plain *)
      rewrite (sim_in A x n); [|apply pA_NoDup; exact Hnd|apply pA_plain; assumption].
      assert (Hn : ~ In n (map fst m)).
      { unfold classify in Ec. destruct (index_eqb x n); [discriminate|].
        destruct (lookup m n) as [k|] eqn:E2; [destruct (is_key m k); discriminate|].
        apply lookup_None; exact E2. }
      rewrite (sim_notin L n); [|intros H; apply Hn; apply L_src in H; apply pL_src in H; exact H].
      apply sim_notin. intros H. apply T_src_not_old in H. apply H.
      apply val_old. apply (in_map snd) in E. exact E.
    + (* late *)
      rewrite (sim_notin A x); [|intros H; destruct (A_src_class _ _ E H); congruence].
      rewrite (sim_in L x n); [|apply L_parallel|apply L_In; split; assumption].
      apply sim_notin. intros H. apply T_src_not_old in H. apply H.
      apply val_old. apply (in_map snd) in E. exact E.
    + (* cycle: through a temporary *)
      destruct (pA_cyc m m u0 x n E Ec) as (k & H1 & H2). fold A in H1. fold T in H2.
      rewrite (sim_in A x (tmp k)); [|apply pA_NoDup; exact Hnd|exact H1].
      assert (Hk : ~ (iuid (tmp k) < u0)%N).
      { apply T_src_not_old. apply (in_map fst) in H2. exact H2. }
      rewrite (sim_notin L (tmp k)).
      * apply sim_in; [apply pT_NoDup|exact H2].
      * intros H. apply Hk. apply key_old. apply L_src in H. apply pL_src in H. exact H.
  - apply lookup_None in E.
    rewrite (sim_notin A x); [|intros H; apply E; apply pA_src in H; exact H].
    rewrite (sim_notin L x); [|intros H; apply E; apply L_src in H; apply pL_src in H; exact H].
    apply sim_notin; exact HxT.
Qed.
End Correct.

Theorem order_substitutions_correct u0 m x :
  NoDup (map fst m) -> older u0 m -> ~ In x (temporaries u0 m) ->
  subst_seq (order_substitutions u0 m) x = subst_sim m x.
Proof. intros H1 H2 H3. apply order_substitutions_correct_aux; assumption. Qed.

(* every index older than the temporaries is not a temporary *)
Lemma old_not_temporary u0 m x : (iuid x < u0)%N -> ~ In x (temporaries u0 m).
Proof. intros H Hin. unfold temporaries in Hin. rewrite temps_loop_pT in Hin.
  apply in_map_iff in Hin. destruct Hin as ([p y] & H1 & H2). simpl in H1; subst p.
  apply pT_src in H2. destruct H2 as (k & _ & -> & H2 & _). simpl in H. lia. Qed.
Lemma olderb_older u0 m : olderb u0 m = true -> older u0 m.
Proof. unfold olderb, older. rewrite forallb_forall. intros H k v Hin. specialize (H _ Hin).
  simpl in H. apply andb_true_iff in H. destruct H as [H1 H2].
  apply N.ltb_lt in H1, H2. split; assumption. Qed.

(* ====================================================================== *)
(* 4. Container.permute: the composed dict                                *)
(* ====================================================================== *)
Lemma lookup_app l1 l2 x :
  lookup (l1 ++ l2) x = match lookup l1 x with Some v => Some v | None => lookup l2 x end.
Proof. induction l1 as [|[k v] r IH]; simpl; [reflexivity|]. destruct (index_eqb x k); [reflexivity|apply IH]. Qed.
Lemma lookup_dict_set d k v x :
  lookup (dict_set d k v) x = if index_eqb x k then Some v else lookup d x.
Proof. induction d as [|[k' v'] r IH]; simpl.
  - destruct (index_eqb x k); reflexivity.
  - destruct (index_eqb k k') eqn:E; simpl.
    + apply index_eqb_eq in E; subst k'. destruct (index_eqb x k); reflexivity.
    + destruct (index_eqb x k') eqn:E2.
      * apply index_eqb_eq in E2; subst k'. rewrite index_eqb_sym, E. reflexivity.
      * exact IH. Qed.
Lemma dict_set_keys d k v : In k (map fst d) -> map fst (dict_set d k v) = map fst d.
Proof. induction d as [|[k' v'] r IH]; simpl; [tauto|]. intros H.
  destruct (index_eqb k k') eqn:E; simpl; [reflexivity|]. f_equal. apply IH.
  destruct H as [H|H]; [subst; rewrite index_eqb_refl in E; discriminate|exact H]. Qed.
Lemma dict_set_new d k v : ~ In k (map fst d) -> dict_set d k v = d ++ [(k, v)].
Proof. induction d as [|[k' v'] r IH]; simpl; [reflexivity|]. intros H.
  destruct (index_eqb k k') eqn:E; [apply index_eqb_eq in E; subst; tauto|]. f_equal. apply IH; tauto. Qed.
Lemma dict_update_new d add : NoDup (map fst add) ->
  (forall k, In k (map fst add) -> ~ In k (map fst d)) -> dict_update d add = d ++ add.
Proof. unfold dict_update. revert d. induction add as [|[k v] r IH]; intros d Hnd Hd; simpl.
  - rewrite app_nil_r; reflexivity.
  - inversion Hnd as [|? ? Hn Hnd']; subst. rewrite dict_set_new by (apply Hd; left; reflexivity).
    rewrite IH; [rewrite <- app_assoc; reflexivity|exact Hnd'|].
    intros k' Hk'. rewrite map_app, in_app_iff. simpl. intros [H|[H|[]]].
    + apply (Hd k'); [right; exact Hk'|exact H].
    + subst k'. tauto. Qed.

Lemma dict_del_In a k0 k v : In (k, v) (dict_del a k0) <-> In (k, v) a /\ k <> k0.
Proof. unfold dict_del. rewrite filter_In. simpl. rewrite negb_true_iff, index_eqb_neq. tauto. Qed.
Lemma NoDup_map_filter {A B} (g : A -> B) f l : NoDup (map g l) -> NoDup (map g (filter f l)).
Proof. induction l as [|x r IH]; simpl; [constructor|]. intros H. inversion H as [|? ? Hn Hnd]; subst.
  destruct (f x); simpl; [constructor|]; try (apply IH; exact Hnd).
  intros H1. apply Hn. apply in_map_iff in H1. destruct H1 as (y & H1 & H2).
  apply filter_In in H2. rewrite <- H1. apply in_map. tauto. Qed.

Lemma lookup_map_val (f : index -> index) (l : subs) x :
  lookup (map (fun e : sub => (fst e, f (snd e))) l) x =
  match lookup l x with Some v => Some (f v) | None => None end.
Proof. induction l as [|[k v] r IH]; simpl; [reflexivity|].
  destruct (index_eqb x k); [reflexivity|apply IH]. Qed.

Section PermuteStep.
Variables (p q : index).
Let delstep := fun (a : subs) (e : sub) =>
  if index_eqb (snd e) p then dict_del a p else if index_eqb (snd e) q then dict_del a q else a.

Lemma delstep_fold_In sb a k v :
  In (k, v) (fold_left delstep sb a) <->
  In (k, v) a /\ (k = p -> ~ In p (map snd sb)) /\ (k = q -> q = p \/ ~ In q (map snd sb)).
Proof. revert a. induction sb as [|e r IH]; intros a; simpl; [tauto|].
  rewrite IH. unfold delstep.
  destruct (index_eqb (snd e) p) eqn:E1.
  - apply index_eqb_eq in E1. rewrite dict_del_In. split.
    + intros ((H1 & H2) & H3 & H4). split; [exact H1|]. split; [tauto|].
      intros Hk. destruct (H4 Hk) as [H5|H5]; [left; exact H5|].
      destruct (index_eq_dec q p) as [Hqp|Hqp]; [left; exact Hqp|]. right. intros [H6|H6]; [congruence|tauto].
    + intros (H1 & H2 & H3). split; [split; [exact H1|]|split].
      * intros Hk. apply (H2 Hk). left; exact E1.
      * intros Hk. specialize (H2 Hk). tauto.
      * intros Hk. destruct (H3 Hk) as [H5|H5]; [left; exact H5|right; tauto].
  - apply index_eqb_neq in E1. destruct (index_eqb (snd e) q) eqn:E2.
    + apply index_eqb_eq in E2. rewrite dict_del_In. split.
      * intros ((H1 & H2) & H3 & H4). split; [exact H1|]. split; [|tauto].
        intros Hk [H6|H6]; [congruence|]. apply (H3 Hk H6).
      * intros (H1 & H2 & H3). split; [split; [exact H1|]|split].
        -- intros Hk. destruct (H3 Hk) as [H5|H5]; [congruence|]. apply H5. left; exact E2.
        -- intros Hk. specialize (H2 Hk). tauto.
        -- intros Hk. destruct (H3 Hk) as [H5|H5]; [left; exact H5|right; tauto].
    + apply index_eqb_neq in E2. split.
      * intros (H1 & H2 & H3). split; [exact H1|]. split.
        -- intros Hk [H6|H6]; [congruence|]. apply (H2 Hk H6).
        -- intros Hk. destruct (H3 Hk) as [H5|H5]; [left; exact H5|]. right. intros [H6|H6]; [congruence|tauto].
      * intros (H1 & H2 & H3). split; [exact H1|]. split.
        -- intros Hk. specialize (H2 Hk). tauto.
        -- intros Hk. destruct (H3 Hk) as [H5|H5]; [left; exact H5|right; tauto]. Qed.

Lemma delstep_fold_NoDup {B} (g : sub -> B) sb a : NoDup (map g a) -> NoDup (map g (fold_left delstep sb a)).
Proof. revert a. induction sb as [|e r IH]; intros a H; simpl; [exact H|]. apply IH.
  unfold delstep. destruct (index_eqb (snd e) p); [apply NoDup_map_filter; exact H|].
  destruct (index_eqb (snd e) q); [apply NoDup_map_filter; exact H|exact H]. Qed.

Definition addition0 : subs := dict_set (dict_set [] p q) q p.
Lemma addition0_In k v : In (k, v) addition0 <-> (k = p /\ v = q) \/ (k = q /\ v = p /\ q <> p).
Proof. unfold addition0. simpl. destruct (index_eqb q p) eqn:E.
  - apply index_eqb_eq in E; subst q. simpl. split.
    + intros [H|[]]. inversion H; subst. left; split; reflexivity.
    + intros [[-> ->]|[_ [_ H]]]; [left; reflexivity|congruence].
  - apply index_eqb_neq in E. simpl. split.
    + intros [H|[H|[]]]; inversion H; subst; [left; split; reflexivity|right; repeat split; auto].
    + intros [[-> ->]|[-> [-> _]]]; [left; reflexivity|right; left; reflexivity]. Qed.
Lemma addition0_NoDup : NoDup (map fst addition0) /\ NoDup (map snd addition0).
Proof. unfold addition0. simpl. destruct (index_eqb q p) eqn:E; simpl.
  - split; repeat constructor; simpl; tauto.
  - apply index_eqb_neq in E. split; repeat constructor; simpl; intuition congruence. Qed.

(* the dict is a permutation of its key set *)
Definition perm_dict (sb : subs) : Prop :=
  NoDup (map fst sb) /\ NoDup (map snd sb) /\ forall x, In x (map fst sb) <-> In x (map snd sb).

Variable sb : subs.
Hypothesis I : perm_dict sb.
Let sb' := map (fun e : sub => (fst e, if index_eqb (snd e) p then q
                                       else if index_eqb (snd e) q then p else snd e)) sb.
Let add' := fold_left delstep sb addition0.

Lemma sb'_swap : sb' = map (fun e : sub => (fst e, swap_idx p q (snd e))) sb.
Proof. reflexivity. Qed.
Lemma sb'_keys : map fst sb' = map fst sb.
Proof. unfold sb'. rewrite map_map. reflexivity. Qed.
Lemma sb'_vals : map snd sb' = map (swap_idx p q) (map snd sb).
Proof. unfold sb'. rewrite !map_map. reflexivity. Qed.
Lemma lookup_sb' x : lookup sb' x = match lookup sb x with Some v => Some (swap_idx p q v) | None => None end.
Proof. rewrite sb'_swap. apply (lookup_map_val (swap_idx p q)). Qed.

Lemma add'_In k v : In (k, v) add' <->
  (k = p /\ v = q /\ ~ In p (map snd sb)) \/ (k = q /\ v = p /\ q <> p /\ ~ In q (map snd sb)).
Proof. unfold add'. rewrite delstep_fold_In, addition0_In. split.
  - intros ([[-> ->]|[-> [-> Hqp]]] & H2 & H3).
    + left. repeat split; auto.
    + right. repeat split; auto. destruct (H3 eq_refl); tauto.
  - intros [(-> & -> & H)|(-> & -> & H1 & H2)].
    + split; [left; split; reflexivity|]. split; [intros _; exact H|].
      intros Hpq. left. symmetry; exact Hpq.
    + split; [right; repeat split; auto|]. split; [intros Hk; congruence|intros _; right; exact H2]. Qed.
Lemma add'_NoDup : NoDup (map fst add') /\ NoDup (map snd add').
Proof. destruct addition0_NoDup as [H1 H2]. split; apply delstep_fold_NoDup; assumption. Qed.
Lemma add'_keys_new k : In k (map fst add') -> ~ In k (map fst sb').
Proof. intros H. apply in_map_iff in H. destruct H as ([k' v] & H1 & H2). simpl in H1; subst k'.
  rewrite sb'_keys. destruct I as (_ & _ & HI). rewrite HI.
  apply add'_In in H2. destruct H2 as [(-> & _ & H)|(-> & _ & _ & H)]; exact H. Qed.

Lemma permute_step_app : permute_step sb (p, q) = sb' ++ add'.
Proof. unfold permute_step. cbn [fst snd]. fold addition0. fold delstep. fold add'. fold sb'.
  apply dict_update_new; [apply add'_NoDup|apply add'_keys_new]. Qed.

Lemma permute_step_sim x : subst_sim (permute_step sb (p, q)) x = swap_idx p q (subst_sim sb x).
Proof. rewrite permute_step_app. unfold subst_sim. rewrite lookup_app, lookup_sb'.
  destruct I as (HK & HV & HI).
  destruct (lookup sb x) as [v|] eqn:E; [reflexivity|].
  apply lookup_None in E. assert (EV : ~ In x (map snd sb)) by (rewrite <- HI; exact E).
  destruct (index_eq_dec x p) as [->|Hxp].
  - rewrite (In_lookup add' p q); [|apply add'_NoDup|apply add'_In; left; repeat split; auto].
    unfold swap_idx. rewrite index_eqb_refl. reflexivity.
  - destruct (index_eq_dec x q) as [->|Hxq].
    + rewrite (In_lookup add' q p); [|apply add'_NoDup|apply add'_In; right; repeat split; auto].
      unfold swap_idx. apply index_eqb_neq in Hxp. rewrite Hxp, index_eqb_refl. reflexivity.
    + rewrite swap_idx_other by assumption.
      destruct (lookup add' x) as [v|] eqn:E2; [|reflexivity].
      apply lookup_In in E2. apply add'_In in E2. destruct E2 as [(H & _)|(H & _)]; congruence. Qed.

Lemma NoDup_app_intro {A} (l1 l2 : list A) : NoDup l1 -> NoDup l2 ->
  (forall x, In x l2 -> ~ In x l1) -> NoDup (l1 ++ l2).
Proof. induction l1 as [|a r IH]; simpl; intros H1 H2 H3; [exact H2|].
  inversion H1 as [|? ? Hn Hnd]; subst. constructor.
  - rewrite in_app_iff. intros [H|H]; [tauto|]. apply (H3 a H). left; reflexivity.
  - apply IH; [exact Hnd|exact H2|]. intros x Hx Hr. apply (H3 x Hx). right; exact Hr. Qed.

Lemma swap_in_vals x : In x (map (swap_idx p q) (map snd sb)) <-> In (swap_idx p q x) (map snd sb).
Proof. rewrite in_map_iff. split.
  - intros (v & H1 & H2). subst x. rewrite swap_idx_invol. exact H2.
  - intros H. exists (swap_idx p q x). split; [apply swap_idx_invol|exact H]. Qed.

Lemma permute_step_perm_dict : perm_dict (permute_step sb (p, q)).
Proof. rewrite permute_step_app. destruct I as (HK & HV & HI). destruct add'_NoDup as [HaK HaV].
  unfold perm_dict. rewrite !map_app. split; [|split].
  - apply NoDup_app_intro; [rewrite sb'_keys; exact HK|exact HaK|apply add'_keys_new].
  - apply NoDup_app_intro; [|exact HaV|].
    + rewrite sb'_vals. apply Injective_map_NoDup; [intros a b; apply swap_idx_inj|exact HV].
    + intros w Hw. rewrite sb'_vals, swap_in_vals.
      apply in_map_iff in Hw. destruct Hw as ([k v] & H1 & H2). simpl in H1; subst v.
      apply add'_In in H2. destruct H2 as [(_ & -> & H)|(_ & -> & Hqp & H)].
      * unfold swap_idx. destruct (index_eqb q p) eqn:E; [apply index_eqb_eq in E; rewrite E; exact H|].
        rewrite index_eqb_refl. exact H.
      * unfold swap_idx. rewrite index_eqb_refl. exact H.
  - intros x. rewrite !in_app_iff, sb'_keys, sb'_vals, swap_in_vals.
    assert (Hk : In x (map fst add') <-> (x = p /\ ~ In p (map snd sb)) \/ (x = q /\ q <> p /\ ~ In q (map snd sb))).
    { rewrite in_map_iff. split.
      - intros ([k v] & H1 & H2). simpl in H1; subst k. apply add'_In in H2. tauto.
      - intros [[-> H]|[-> [H1 H2]]]; [exists (p, q)|exists (q, p)]; (split; [reflexivity|]); apply add'_In; tauto. }
    assert (Hv : In x (map snd add') <-> (x = q /\ ~ In p (map snd sb)) \/ (x = p /\ q <> p /\ ~ In q (map snd sb))).
    { rewrite in_map_iff. split.
      - intros ([k v] & H1 & H2). simpl in H1; subst v. apply add'_In in H2. tauto.
      - intros [[-> H]|[-> [H1 H2]]]; [exists (p, q)|exists (q, p)]; (split; [reflexivity|]); apply add'_In; tauto. }
    rewrite Hk, Hv, HI.
    destruct (in_dec index_eq_dec p (map snd sb)) as [Hp|Hp];
    destruct (in_dec index_eq_dec q (map snd sb)) as [Hq|Hq];
    destruct (index_eq_dec x p) as [->|Hxp]; try (destruct (index_eq_dec x q) as [->|Hxq]);
    try (destruct (index_eq_dec q p) as [->|Hqp]);
    unfold swap_idx; rewrite ?index_eqb_refl;
    repeat match goal with
           | H : ?a <> ?b |- context [index_eqb ?a ?b] => rewrite (proj2 (index_eqb_neq a b) H)
           end; tauto. Qed.
End PermuteStep.

Lemma perm_dict_nil : perm_dict [].
Proof. unfold perm_dict; simpl. split; [constructor|split; [constructor|tauto]]. Qed.

Lemma permute_fold_inv perms sb : perm_dict sb ->
  perm_dict (fold_left permute_step perms sb) /\
  forall x, subst_sim (fold_left permute_step perms sb) x = swaps_seq perms (subst_sim sb x).
Proof. revert sb. induction perms as [|[p q] r IH]; intros sb I; simpl; [split; [exact I|reflexivity]|].
  destruct (IH _ (permute_step_perm_dict p q sb I)) as [H1 H2]. split; [exact H1|].
  intros x. rewrite H2, permute_step_sim by exact I. reflexivity. Qed.

Theorem permute_map_correct perms x : subst_sim (permute_map perms) x = swaps_seq perms x.
Proof. unfold permute_map. destruct (permute_fold_inv perms [] perm_dict_nil) as [_ H]. apply H. Qed.
Theorem permute_map_perm_dict perms : perm_dict (permute_map perms).
Proof. unfold permute_map. apply (permute_fold_inv perms [] perm_dict_nil). Qed.

(* keys and values of the composed dict occur in the transpositions *)
Lemma permute_step_support sb pq k v : In (k, v) (permute_step sb pq) ->
  perm_dict sb ->
  (In k (map fst sb) \/ k = fst pq \/ k = snd pq) /\ (In v (map snd sb) \/ v = fst pq \/ v = snd pq).
Proof. destruct pq as [p q]. intros H I. rewrite (permute_step_app p q sb I) in H.
  apply in_app_iff in H. destruct H as [H|H].
  - apply in_map_iff in H. destruct H as ([k' v'] & H1 & H2). simpl in H1. inversion H1; subst.
    split; [left; apply (in_map fst) in H2; exact H2|].
    destruct (index_eqb v' p); [right; right; reflexivity|].
    destruct (index_eqb v' q); [right; left; reflexivity|left; apply (in_map snd) in H2; exact H2].
  - apply (add'_In p q sb) in H. simpl. destruct H as [(-> & -> & _)|(-> & -> & _)]; tauto. Qed.

Definition perm_indices (perms : subs) : list index := map fst perms ++ map snd perms.
Lemma permute_map_support perms k v : In (k, v) (permute_map perms) ->
  In k (perm_indices perms) /\ In v (perm_indices perms).
Proof. unfold permute_map.
  assert (G : forall sb, perm_dict sb -> In (k, v) (fold_left permute_step perms sb) ->
            (In k (map fst sb) \/ In k (perm_indices perms)) /\ (In v (map snd sb) \/ In v (perm_indices perms))).
  { induction perms as [|[p q] r IH]; intros sb I H; simpl in H.
    - split; left; [apply (in_map fst) in H|apply (in_map snd) in H]; exact H.
    - destruct (IH _ (permute_step_perm_dict p q sb I) H) as [H1 H2].
      unfold perm_indices in *. simpl.
      assert (Hk : forall z, In z (map fst r ++ map snd r) -> p = z \/ In z (map fst r ++ q :: map snd r)).
      { intros z Hz. right. apply in_app_iff in Hz. apply in_app_iff.
        destruct Hz; [left|right; right]; assumption. }
      split.
      + destruct H1 as [H1|H1]; [|right; apply Hk; exact H1].
        apply in_map_iff in H1. destruct H1 as ([k' v'] & E & H1). simpl in E; subst k'.
        destruct (permute_step_support _ _ _ _ H1 I) as [[H3|[H3|H3]] _]; simpl in H3.
        * left; exact H3.
        * right; left; symmetry; exact H3.
        * right. right. apply in_app_iff. right. left. symmetry; exact H3.
      + destruct H2 as [H2|H2]; [|right; apply Hk; exact H2].
        apply in_map_iff in H2. destruct H2 as ([k' v'] & E & H2). simpl in E; subst v'.
        destruct (permute_step_support _ _ _ _ H2 I) as [_ [H3|[H3|H3]]]; simpl in H3.
        * left; exact H3.
        * right; left; symmetry; exact H3.
        * right. right. apply in_app_iff. right. left. symmetry; exact H3. }
  intros H. destruct (G [] perm_dict_nil H) as [[[]|H1] [[]|H2]]. split; assumption. Qed.

(* what Container.permute does = the transpositions one after another *)
Theorem permute_subs_correct u0 perms x :
  (forall y, In y (perm_indices perms) -> (iuid y < u0)%N) -> (iuid x < u0)%N ->
  subst_seq (permute_subs u0 perms) x = swaps_seq perms x.
Proof. intros Hold Hx. unfold permute_subs. rewrite order_substitutions_correct.
  - apply permute_map_correct.
  - apply permute_map_perm_dict.
  - intros k v H. apply permute_map_support in H. destruct H as [H1 H2]. split; apply Hold; assumption.
  - apply old_not_temporary; exact Hx. Qed.

(* ====================================================================== *)
(* 5. get_lowest_avail_indices                                            *)
(* ====================================================================== *)
Lemma name_eqb_eq a b : name_eqb a b = true <-> a = b.
Proof. destruct a as [l1 n1], b as [l2 n2]. unfold name_eqb; simpl.
  rewrite andb_true_iff, !N.eqb_eq. split; [intros [-> ->]; reflexivity|intros H; inversion H; auto]. Qed.
Lemma name_eqb_refl a : name_eqb a a = true.
Proof. apply name_eqb_eq; reflexivity. Qed.
Lemma name_eqb_neq a b : name_eqb a b = false <-> a <> b.
Proof. rewrite <- name_eqb_eq. destruct (name_eqb a b); split; congruence. Qed.
Lemma name_eq_dec (a b : name) : {a = b} + {a <> b}.
Proof. destruct (name_eqb a b) eqn:E; [left; apply name_eqb_eq; exact E|right; apply name_eqb_neq; exact E]. Qed.
Lemma nmem_In x l : nmem x l = true <-> In x l.
Proof. induction l as [|y r IH]; simpl; [split; [discriminate|tauto]|].
  rewrite orb_true_iff, IH, name_eqb_eq. split; intros [H|H]; auto. Qed.
Lemma nmem_nIn x l : nmem x l = false <-> ~ In x l.
Proof. rewrite <- nmem_In. destruct (nmem x l); split; congruence. Qed.
Lemma unused_spec used s : unused used s = true <-> ~ In s used.
Proof. unfold unused. rewrite negb_true_iff. apply nmem_nIn. Qed.

Lemma stream_from_In b s k l j : In (l, j) (stream_from b s k) <->
  In l b /\ (s <= j)%N /\ (j < s + N.of_nat k)%N.
Proof. revert s. induction k as [|k IH]; intros s.
  - simpl. split; [tauto|intros (_ & H1 & H2); lia].
  - cbn [stream_from]. rewrite in_app_iff, IH. unfold generation. rewrite in_map_iff. split.
    + intros [(l' & H1 & H2)|(H1 & H2 & H3)].
      * inversion H1; subst. split; [exact H2|lia].
      * split; [exact H1|lia].
    + intros (H1 & H2 & H3). destruct (N.eq_dec j s) as [->|Hne].
      * left. exists l. split; [reflexivity|exact H1].
      * right. split; [exact H1|lia]. Qed.
Lemma stream_from_app b s k1 k2 :
  stream_from b s (k1 + k2) = stream_from b s k1 ++ stream_from b (s + N.of_nat k1) k2.
Proof. revert s. induction k1 as [|k1 IH]; intros s.
  - simpl. f_equal. lia.
  - cbn [stream_from plus]. rewrite IH, <- app_assoc. do 3 f_equal. lia. Qed.
Lemma stream_from_length b s k : length (stream_from b s k) = k * length b.
Proof. revert s. induction k as [|k IH]; intros s; [reflexivity|].
  cbn [stream_from]. rewrite app_length, IH. unfold generation. rewrite map_length. reflexivity. Qed.
Lemma stream_from_NoDup b s k : NoDup b -> NoDup (stream_from b s k).
Proof. intros Hb. revert s. induction k as [|k IH]; intros s; [constructor|].
  cbn [stream_from]. apply NoDup_app_intro.
  - unfold generation. apply Injective_map_NoDup; [|exact Hb]. intros x y H; inversion H; reflexivity.
  - apply IH.
  - intros [l j] H1 H2. apply stream_from_In in H1. unfold generation in H2.
    apply in_map_iff in H2. destruct H2 as (l' & H2 & _). inversion H2; subst. lia. Qed.

Lemma pool_loop_stream fuel b k required :
  exists k', pool_loop fuel b (stream b k) (N.of_nat k) required = stream b k' /\
             k <= k' <= k + fuel /\ (required <= length (stream b k') \/ k' = k + fuel).
Proof. revert k. induction fuel as [|f IH]; intros k; simpl.
  - exists k. split; [reflexivity|]. split; [lia|right; lia].
  - destruct (Nat.ltb (length (stream b k)) required) eqn:E.
    + destruct (IH (S k)) as (k' & H1 & H2 & H3). exists k'.
      replace (stream b (S k)) with (stream b k ++ generation b (N.of_nat k)) in H1.
      * rewrite Nat2N.inj_succ in H1. split; [exact H1|]. split; [lia|].
        destruct H3 as [H3|H3]; [left; exact H3|right; lia].
      * unfold stream. replace (S k) with (k + 1) by lia. rewrite stream_from_app. simpl.
        rewrite app_nil_r. reflexivity.
    + apply Nat.ltb_ge in E. exists k. split; [reflexivity|]. split; [lia|left; exact E]. Qed.

Lemma pool_stream b required : 1 <= length b ->
  exists k', pool b required = stream b k' /\ k' <= 1 + required /\ required <= length (stream b k').
Proof. intros Hb. unfold pool.
  destruct (pool_loop_stream required b 1 required) as (k' & H1 & H2 & H3).
  exists k'. split.
  - rewrite <- H1. unfold stream. simpl. rewrite app_nil_r. reflexivity.
  - split; [lia|]. destruct H3 as [H3|H3]; [exact H3|]. subst k'.
    unfold stream. rewrite stream_from_length. nia. Qed.

Lemma filter_neq_length u (l : list name) : NoDup l ->
  length l <= S (length (filter (fun s => negb (name_eqb s u)) l)).
Proof. induction l as [|x r IH]; simpl; [lia|]. intros H. inversion H as [|? ? Hn Hnd]; subst.
  destruct (name_eqb x u) eqn:E; simpl.
  - apply name_eqb_eq in E; subst x.
    assert (F : filter (fun s => negb (name_eqb s u)) r = r).
    { clear IH H Hnd. induction r as [|y r IH]; simpl; [reflexivity|].
      destruct (name_eqb y u) eqn:E2; simpl.
      - apply name_eqb_eq in E2; subst. exfalso; apply Hn; left; reflexivity.
      - f_equal. apply IH. intros H; apply Hn; right; exact H. }
    rewrite F. lia.
  - specialize (IH Hnd). lia. Qed.
Lemma filter_unused_length used (l : list name) : NoDup l ->
  length l <= length (filter (unused used) l) + length used.
Proof. revert l. induction used as [|u us IH]; intros l Hl.
  - assert (F : filter (unused []) l = l).
    { clear Hl. induction l as [|y r IHl]; simpl; [reflexivity|]. f_equal; exact IHl. }
    rewrite F. simpl. lia.
  - assert (F : filter (unused (u :: us)) l = filter (fun s => negb (name_eqb s u)) (filter (unused us) l)).
    { clear Hl. induction l as [|y r IHl]; [reflexivity|].
      cbn [filter]. rewrite IHl.
      assert (E : unused (u :: us) y = negb (name_eqb y u) && unused us y)
        by (unfold unused; simpl; rewrite negb_orb; reflexivity).
      rewrite E. destruct (unused us y); cbn [filter]; destruct (name_eqb y u); simpl; reflexivity. }
    rewrite F. pose proof (IH l Hl) as H1.
    pose proof (filter_neq_length u (filter (unused us) l) (NoDup_filter _ Hl)) as H2. simpl. lia. Qed.

Lemma firstn_app_short {A} n (l1 l2 : list A) : n <= length l1 -> firstn n (l1 ++ l2) = firstn n l1.
Proof. intros H. rewrite firstn_app. replace (n - length l1) with 0 by lia. simpl. apply app_nil_r. Qed.
Lemma firstn_In {A} n (l : list A) x : In x (firstn n l) -> In x l.
Proof. revert l. induction n as [|n IH]; intros l; simpl; [tauto|]. destruct l as [|y r]; simpl; [tauto|].
  intros [H|H]; [left; exact H|right; apply IH; exact H]. Qed.
Lemma firstn_NoDup {A} n (l : list A) : NoDup l -> NoDup (firstn n l).
Proof. revert l. induction n as [|n IH]; intros l H; simpl; [constructor|]. destruct l as [|y r]; [constructor|].
  inversion H; subst. constructor; [intros H1; apply firstn_In in H1; tauto|apply IH; assumption]. Qed.

Lemma base_NoDup sp : NoDup (base sp) /\ 1 <= length (base sp).
Proof. destruct sp; simpl; (split; [|lia]); repeat constructor; simpl; intuition discriminate. Qed.

Theorem lowest_avail_spec n used sp :
  (forall K, length used + n < K ->
     lowest_avail n used sp = firstn n (filter (unused used) (stream (base sp) K))) /\
  length (lowest_avail n used sp) = n /\
  NoDup (lowest_avail n used sp) /\
  (forall s, In s (lowest_avail n used sp) -> ~ In s used /\ In (fst s) (base sp)).
Proof. destruct (base_NoDup sp) as [Hb1 Hb2].
  destruct (pool_stream (base sp) (length used + n) Hb2) as (k' & H1 & H2 & H3).
  unfold lowest_avail. rewrite H1.
  assert (Hnd : NoDup (stream (base sp) k')) by (apply stream_from_NoDup; exact Hb1).
  assert (Hlen : n <= length (filter (unused used) (stream (base sp) k'))).
  { pose proof (filter_unused_length used _ Hnd). lia. }
  split; [|split; [|split]].
  - intros K HK. unfold stream. replace K with (k' + (K - k')) by lia.
    rewrite stream_from_app, filter_app, firstn_app_short by exact Hlen. reflexivity.
  - apply firstn_length_le; exact Hlen.
  - apply firstn_NoDup. apply NoDup_filter. exact Hnd.
  - intros s Hs. apply firstn_In in Hs. apply filter_In in Hs. destruct Hs as [Hs1 Hs2].
    split; [apply unused_spec; exact Hs2|]. destruct s as [l j]. apply stream_from_In in Hs1. simpl; tauto. Qed.

(* ====================================================================== *)
(* 6. substitute_contracted: the renaming dict                            *)
(* ====================================================================== *)
Lemma sort_eqb_true (a b : sort) : sort_eqb a b = true <-> a = b.
Proof. destruct a as [s1 p1], b as [s2 p2]. unfold sort_eqb; simpl.
  rewrite andb_true_iff, space_eqb_eq, spin_eqb_eq. split; [intros [-> ->]; reflexivity|intros H; inversion H; auto]. Qed.

Definition members (g : list (sort * list index)) : list index := flat_map snd g.
Definition gwf (g : list (sort * list index)) : Prop :=
  NoDup (map fst g) /\ forall k l, In (k, l) g -> forall x, In x l -> isort x = k.

Lemma group_add_keys x g k : In k (map fst (group_add x g)) <-> k = isort x \/ In k (map fst g).
Proof. induction g as [|[k' l] r IH]; simpl; [intuition congruence|].
  destruct (sort_eqb k' (isort x)) eqn:E; simpl.
  - apply sort_eqb_true in E. subst k'. intuition congruence.
  - rewrite IH. tauto. Qed.
Lemma group_add_wf x g : gwf g -> gwf (group_add x g).
Proof. intros [H1 H2]. induction g as [|[k' l] r IH]; simpl.
  - split; [repeat constructor; simpl; tauto|]. intros k l [H|[]] y Hy. inversion H; subst.
    destruct Hy as [->|[]]; reflexivity.
  - destruct (sort_eqb k' (isort x)) eqn:E.
    + apply sort_eqb_true in E. split; [exact H1|]. intros k l0 [H|H] y Hy.
      * inversion H; subst. apply in_app_iff in Hy. destruct Hy as [Hy|[->|[]]]; [|reflexivity].
        apply (H2 (isort x) l (or_introl eq_refl)); exact Hy.
      * apply (H2 k l0 (or_intror H)); exact Hy.
    + simpl in H1. inversion H1 as [|? ? Hn Hnd]; subst.
      destruct IH as [I1 I2]; [exact Hnd|intros k l0 H; apply (H2 k l0); right; exact H|].
      split.
      * simpl. constructor; [|exact I1]. rewrite group_add_keys. intros [H|H]; [|tauto].
        subst k'. destruct (isort x) as [a b]; unfold sort_eqb in E; simpl in E.
        assert (space_eqb a a = true) by (apply space_eqb_eq; reflexivity).
        assert (spin_eqb b b = true) by (apply spin_eqb_eq; reflexivity).
        rewrite H, H0 in E; discriminate.
      * intros k l0 [H|H] y Hy; [inversion H; subst; apply (H2 k l0 (or_introl eq_refl)); exact Hy|].
        apply (I2 k l0 H); exact Hy. Qed.
Lemma group_add_perm x g : Permutation (x :: members g) (members (group_add x g)).
Proof. unfold members. induction g as [|[k' l] r IH]; simpl; [reflexivity|].
  destruct (sort_eqb k' (isort x)); simpl.
  - rewrite <- app_assoc. simpl. apply Permutation_middle.
  - rewrite <- IH. apply Permutation_middle. Qed.
Lemma group_fold_wf l g : gwf g -> gwf (fold_left (fun g x => group_add x g) l g).
Proof. revert g. induction l as [|x r IH]; intros g H; simpl; [exact H|]. apply IH. apply group_add_wf; exact H. Qed.
Lemma group_fold_perm l g :
  Permutation (l ++ members g) (members (fold_left (fun g x => group_add x g) l g)).
Proof. revert g. induction l as [|x r IH]; intros g; simpl; [reflexivity|].
  rewrite <- IH. rewrite <- group_add_perm. apply Permutation_middle. Qed.
Lemma group_by_sort_wf l : gwf (group_by_sort l).
Proof. apply group_fold_wf. split; [constructor|intros k l0 []]. Qed.
Lemma group_by_sort_perm l : Permutation l (members (group_by_sort l)).
Proof. unfold group_by_sort. rewrite <- group_fold_perm. simpl. rewrite app_nil_r. reflexivity. Qed.

Lemma combine_fst {A B} (l : list A) (l' : list B) : length l = length l' -> map fst (combine l l') = l.
Proof. revert l'. induction l as [|x r IH]; destruct l' as [|y r']; simpl; intros H; try reflexivity; try discriminate.
  f_equal. apply IH. lia. Qed.
Lemma combine_snd {A B} (l : list A) (l' : list B) : length l = length l' -> map snd (combine l l') = l'.
Proof. revert l'. induction l as [|x r IH]; destruct l' as [|y r']; simpl; intros H; try reflexivity; try discriminate.
  f_equal. apply IH. lia. Qed.
Lemma map_flat_map {A B C} (f : B -> C) (g : A -> list B) l :
  map f (flat_map g l) = flat_map (fun x => map f (g x)) l.
Proof. induction l as [|x r IH]; simpl; [reflexivity|]. rewrite map_app, IH. reflexivity. Qed.

Definition group_names (tg : list index) (g : sort * list index) : list name :=
  lowest_avail (length (snd g)) (used_names tg (fst g)) (fst (fst g)).
Definition group_vals (tg : list index) (g : sort * list index) : list index :=
  map (reg_index (fst g)) (group_names tg g).
Lemma sc_group_eq tg g : sc_group tg g = combine (snd g) (group_vals tg g).
Proof. reflexivity. Qed.
Lemma group_vals_length tg g : length (snd g) = length (group_vals tg g).
Proof. unfold group_vals, group_names. rewrite map_length.
  destruct (lowest_avail_spec (length (snd g)) (used_names tg (fst g)) (fst (fst g))) as (_ & H & _). symmetry; exact H. Qed.
Lemma sc_map_keys c tg : map fst (sc_map c tg) = members (group_by_sort c).
Proof. unfold sc_map, members. rewrite map_flat_map. apply flat_map_ext. intros g.
  rewrite sc_group_eq. apply combine_fst. apply group_vals_length. Qed.
Lemma sc_map_vals c tg : map snd (sc_map c tg) = flat_map (group_vals tg) (group_by_sort c).
Proof. unfold sc_map. rewrite map_flat_map. apply flat_map_ext. intros g.
  rewrite sc_group_eq. apply combine_snd. apply group_vals_length. Qed.

Lemma reg_index_sort k nm : isort (reg_index k nm) = k.
Proof. destruct k; reflexivity. Qed.
Lemma reg_index_name k nm : iname (reg_index k nm) = nm.
Proof. destruct nm; reflexivity. Qed.
Lemma ndedup_In x l : In x (ndedup l) <-> In x l.
Proof. induction l as [|y r IH]; simpl; [tauto|]. destruct (nmem y r) eqn:E.
  - rewrite IH. apply nmem_In in E. split; [tauto|]. intros [->|H]; tauto.
  - simpl. rewrite IH. tauto. Qed.

Lemma group_vals_NoDup tg g : NoDup (group_vals tg g).
Proof. unfold group_vals, group_names. apply Injective_map_NoDup.
  - intros a b H. rewrite <- (reg_index_name (fst g) a), <- (reg_index_name (fst g) b), H. reflexivity.
  - apply lowest_avail_spec. Qed.
Lemma group_vals_sort tg g x : In x (group_vals tg g) -> isort x = fst g.
Proof. unfold group_vals. intros H. apply in_map_iff in H. destruct H as (nm & <- & _). apply reg_index_sort. Qed.
Lemma groups_vals_NoDup tg gs : NoDup (map fst gs) -> NoDup (flat_map (group_vals tg) gs).
Proof. induction gs as [|g r IH]; simpl; intros H; [constructor|]. inversion H as [|? ? Hn Hnd]; subst.
  apply NoDup_app_intro; [apply group_vals_NoDup|apply IH; exact Hnd|].
  intros x Hx Hg. apply group_vals_sort in Hg. apply in_flat_map in Hx. destruct Hx as (g' & H1 & H2).
  apply group_vals_sort in H2. apply Hn. rewrite <- Hg, H2. apply in_map; exact H1. Qed.

Lemma sim_combine S l v : NoDup (map fst S) -> incl (combine l v) S -> length l = length v ->
  map (subst_sim S) l = v.
Proof. intros Hnd. revert v. induction l as [|x r IH]; destruct v as [|y v']; simpl; intros Hi Hl;
    try reflexivity; try discriminate.
  f_equal.
  - apply sim_in; [exact Hnd|apply Hi; left; reflexivity].
  - apply IH; [intros z Hz; apply Hi; right; exact Hz|lia]. Qed.

Theorem sc_map_spec c tg : NoDup c ->
  (* exactly the contracted indices are renamed *)
  Permutation c (map fst (sc_map c tg)) /\
  (* two distinct indices are never merged *)
  NoDup (map snd (sc_map c tg)) /\
  (* space and spin are kept, no target index is hit, the new indices are registry indices *)
  (forall o n, In (o, n) (sc_map c tg) -> same_sort o n = true /\ ~ In n tg /\ iuid n = 0%N) /\
  (* per (space, spin): the new names are the lowest unused names, in the order of the contracted indices *)
  (forall k l, In (k, l) (group_by_sort c) ->
     map (subst_sim (sc_map c tg)) l =
     map (reg_index k) (lowest_avail (length l) (used_names tg k) (fst k))).
Proof. intros Hc. destruct (group_by_sort_wf c) as [W1 W2].
  assert (Hk : NoDup (map fst (sc_map c tg))).
  { rewrite sc_map_keys. apply (Permutation_NoDup (group_by_sort_perm c) Hc). }
  split; [rewrite sc_map_keys; apply group_by_sort_perm|]. split; [|split].
  - rewrite sc_map_vals. apply groups_vals_NoDup; exact W1.
  - intros o n H. unfold sc_map in H. apply in_flat_map in H. destruct H as ([k l] & H1 & H2).
    rewrite sc_group_eq in H2. pose proof (in_combine_l _ _ _ _ H2) as Ho. pose proof (in_combine_r _ _ _ _ H2) as Hn.
    simpl in Ho. pose proof (W2 k l H1 o Ho) as Hso.
    unfold group_vals in Hn. apply in_map_iff in Hn. destruct Hn as (nm & <- & Hnm). simpl in Hnm.
    unfold group_names in Hnm. simpl in Hnm.
    destruct (lowest_avail_spec (length l) (used_names tg k) (fst k)) as (_ & _ & _ & Hun).
    destruct (Hun nm Hnm) as [Hun1 _]. simpl. split; [|split; [|destruct k; reflexivity]].
    + unfold same_sort. unfold isort in Hso. destruct k as [a b]. inversion Hso; subst. simpl.
      apply andb_true_iff. split; [apply space_eqb_eq|apply spin_eqb_eq]; reflexivity.
    + intros Ht. apply Hun1. unfold used_names. apply ndedup_In. apply in_map_iff.
      exists (reg_index k nm). split; [apply reg_index_name|]. apply filter_In. split; [exact Ht|].
      rewrite reg_index_sort. apply sort_eqb_true; reflexivity.
  - intros k l H. apply sim_combine; [exact Hk| |].
    + intros z Hz. unfold sc_map. apply in_flat_map. exists (k, l). split; [exact H|]. exact Hz.
    + rewrite map_length. destruct (lowest_avail_spec (length l) (used_names tg k) (fst k)) as (_ & HH & _).
      symmetry; exact HH. Qed.

(* consequently the ordered list built by substitute_contracted realises this renaming *)
Theorem sc_subs_correct u0 c tg x : NoDup c ->
  (forall y, In y c -> (iuid y < u0)%N) -> (0 < u0)%N -> (iuid x < u0)%N ->
  subst_seq (sc_subs u0 c tg) x = subst_sim (sc_map c tg) x.
Proof. intros Hc Hold Hu Hx. destruct (sc_map_spec c tg Hc) as (H1 & _ & H3 & _).
  unfold sc_subs. apply order_substitutions_correct.
  - apply (Permutation_NoDup H1 Hc).
  - intros k v Hin. split.
    + apply Hold. apply (Permutation_in _ (Permutation_sym H1)). apply (in_map fst) in Hin. exact Hin.
    + destruct (H3 k v Hin) as (_ & _ & Hv). rewrite Hv. exact Hu.
  - apply old_not_temporary; exact Hx. Qed.

(* ====================================================================== *)
(* 7. minimize_tensor_indices: the result is the image under the returned *)
(*    transpositions                                                      *)
(* ====================================================================== *)
Lemma swaps_seq_snoc perms pq x : swaps_seq (perms ++ [pq]) x = swap_idx (fst pq) (snd pq) (swaps_seq perms x).
Proof. unfold swaps_seq. rewrite fold_left_app. reflexivity. Qed.
Lemma minimize_step_image nuniq tgn ix st pos :
  m_idx st = map (swaps_seq (m_perms st)) ix ->
  m_idx (minimize_step nuniq tgn st pos) = map (swaps_seq (m_perms (minimize_step nuniq tgn st pos))) ix.
Proof. intros H. unfold minimize_step.
  destruct (nth_error (m_idx st) pos) as [s|]; [|exact H].
  destruct (imem s (m_done st)); [exact H|].
  destruct (nmem (iname s) _); [exact H|].
  destruct (match assoc_sort (isort s) (m_min st) with Some l => l | None => _ end) as [|min_s rest]; [exact H|].
  destruct (index_eqb s min_s); simpl; [exact H|].
  rewrite H, map_map. apply map_ext. intros x. rewrite swaps_seq_snoc. reflexivity. Qed.
Theorem minimize_image ix tgn :
  fst (minimize_tensor_indices ix tgn) = map (swaps_seq (snd (minimize_tensor_indices ix tgn))) ix.
Proof. unfold minimize_tensor_indices. cbn [fst snd].
  assert (G : forall l st, m_idx st = map (swaps_seq (m_perms st)) ix ->
            m_idx (fold_left (minimize_step (length (inodup ix)) tgn) l st) =
            map (swaps_seq (m_perms (fold_left (minimize_step (length (inodup ix)) tgn) l st))) ix).
  { induction l as [|p r IH]; intros st H; simpl; [exact H|]. apply IH. apply minimize_step_image; exact H. }
  apply G. simpl. symmetry. rewrite <- (map_id ix) at 2. apply map_ext. reflexivity. Qed.
