(* C08 - executable models of the index-renaming code of adcgen:
     indices.py   order_substitutions, get_lowest_avail_indices,
                  minimize_tensor_indices
     expr_container.py  Container.permute (dict composition loop),
                  Term.substitute_contracted (construction of the sub dict).
   A Python dict is an association list in insertion order with distinct keys;
   `is` on Index objects is Leibniz equality on [index] (the uid component
   separates raw `Index('p')` dummies).  Proofs are in SubstitutionProofs.v. *)
From Coq Require Import ZArith NArith List Bool Lia.
From ADC Require Import Core.Index.
Import ListNotations.

Definition sub := (index * index)%type.
Definition subs := list sub.

(* ---------- sequential and simultaneous substitution on indices ---------- *)
(* expr.subs([(a, b)]) on an index x *)
Definition subst1 (ab : sub) (x : index) : index :=
  if index_eqb x (fst ab) then snd ab else x.
(* expr.subs([(a1,b1); (a2,b2); ...]) : one pair after another *)
Definition subst_seq (l : subs) (x : index) : index :=
  fold_left (fun y ab => subst1 ab y) l x.
(* dict lookup *)
Fixpoint lookup (m : subs) (x : index) : option index :=
  match m with
  | [] => None
  | (k, v) :: r => if index_eqb x k then Some v else lookup r x
  end.
Definition is_key (m : subs) (x : index) : bool :=
  match lookup m x with Some _ => true | None => false end.
(* the simultaneous substitution described by the dict m *)
Definition subst_sim (m : subs) (x : index) : index :=
  match lookup m x with Some v => v | None => x end.

(* ---------- order_substitutions (indices.py:376-408) ---------- *)
(* p = Index('p'): a fresh general index without spin; freshness is the uid *)
Definition tmp (u : N) : index := Idx Gen NoSpin 112 0 u.

(* the loop `for o, n in subsdict.items()`; state = (u, subs, final_subs) *)
Fixpoint order_loop (m rest : subs) (u : N) (sb fin : subs) : subs :=
  match rest with
  | [] => sb ++ fin                                     (* subs.extend(final_subs) *)
  | (o, n) :: r =>
    if index_eqb o n then order_loop m r u sb fin       (* o is n: continue *)
    else match lookup m n with                          (* other_n := subsdict.get(n) *)
         | Some k =>
           if is_key m k                                (* other_n in subsdict *)
           then order_loop m r (N.succ u)               (* p = Index('p') *)
                           (sb ++ [(o, tmp u)])         (* subs.append((o, p)) *)
                           (fin ++ [(tmp u, n)])        (* final_subs.append((p, n)) *)
           else order_loop m r u sb ((o, n) :: fin)     (* final_subs.insert(0, (o, n)) *)
         | None => order_loop m r u (sb ++ [(o, n)]) fin (* subs.append((o, n)) *)
         end
  end.
Definition order_substitutions (u0 : N) (m : subs) : subs := order_loop m m u0 [] [].

(* the temporaries created by the call, in creation order *)
Fixpoint temps_loop (m rest : subs) (u : N) : list index :=
  match rest with
  | [] => []
  | (o, n) :: r =>
    if index_eqb o n then temps_loop m r u
    else match lookup m n with
         | Some k => if is_key m k then tmp u :: temps_loop m r (N.succ u)
                     else temps_loop m r u
         | None => temps_loop m r u
         end
  end.
Definition temporaries (u0 : N) (m : subs) : list index := temps_loop m m u0.

(* every index of the dict is older than the temporaries *)
Definition older (u0 : N) (m : subs) : Prop :=
  forall k v, In (k, v) m -> (iuid k < u0)%N /\ (iuid v < u0)%N.
Definition olderb (u0 : N) (m : subs) : bool :=
  forallb (fun kv => N.ltb (iuid (fst kv)) u0 && N.ltb (iuid (snd kv)) u0) m.

(* ---------- Container.permute (expr_container.py:31-55) ---------- *)
(* sub[k] = v : keeps the position of an existing key, appends a new one *)
Fixpoint dict_set (d : subs) (k v : index) : subs :=
  match d with
  | [] => [(k, v)]
  | (k', v') :: r => if index_eqb k k' then (k', v) :: r else (k', v') :: dict_set r k v
  end.
Definition dict_del (d : subs) (k : index) : subs :=
  filter (fun e => negb (index_eqb (fst e) k)) d.
Definition dict_update (d add : subs) : subs :=
  fold_left (fun d e => dict_set d (fst e) (snd e)) add d.

(* one iteration of `for p, q in perms` *)
Definition permute_step (sb : subs) (pq : sub) : subs :=
  let p := fst pq in let q := snd pq in
  let addition := dict_set (dict_set [] p q) q p in        (* {p: q, q: p} *)
  (* for old, new in sub.items(): ... *)
  let sb' := map (fun e => (fst e, if index_eqb (snd e) p then q
                                   else if index_eqb (snd e) q then p else snd e)) sb in
  let addition' := fold_left (fun a e => if index_eqb (snd e) p then dict_del a p
                                         else if index_eqb (snd e) q then dict_del a q
                                         else a) sb addition in
  dict_update sb' addition'.                              (* if addition: sub.update(addition) *)
Definition permute_map (perms : subs) : subs := fold_left permute_step perms [].
(* what permute hands to subs() *)
Definition permute_subs (u0 : N) (perms : subs) : subs :=
  order_substitutions u0 (permute_map perms).
(* the documented meaning: P_pq applied one after another *)
Definition swaps_seq (perms : subs) (x : index) : index :=
  fold_left (fun y pq => swap_idx (fst pq) (snd pq) y) perms x.

(* ---------- get_lowest_avail_indices (indices.py:309-333) ---------- *)
Definition name := (N * N)%type.                 (* letter code, number; 0 = no number *)
Definition name_eqb (a b : name) := N.eqb (fst a) (fst b) && N.eqb (snd a) (snd b).
Fixpoint nmem (x : name) (l : list name) : bool :=
  match l with [] => false | y :: r => name_eqb x y || nmem x r end.

(* Indices.base *)
Definition base (s : space) : list N :=
  match s with
  | Occ => [105; 106; 107; 108; 109; 110; 111]%N            (* ijklmno *)
  | Virt => [97; 98; 99; 100; 101; 102; 103; 104]%N         (* abcdefgh *)
  | Gen => [112; 113; 114; 115; 116; 117; 118; 119]%N       (* pqrstuvw *)
  end.
(* s + str(suffix) for s in base  (suffix 0 = the bare letters) *)
Definition generation (b : list N) (k : N) : list name := map (fun l => (l, k)) b.
(* while len(idx) < required: idx.extend(...); suffix += 1 *)
Fixpoint pool_loop (fuel : nat) (b : list N) (idx : list name) (suffix : N) (required : nat)
  : list name :=
  match fuel with
  | O => idx
  | S f => if Nat.ltb (length idx) required
           then pool_loop f b (idx ++ generation b suffix) (N.succ suffix) required
           else idx
  end.
Definition pool (b : list N) (required : nat) : list name :=
  pool_loop required b (generation b 0) 1 required.
Definition unused (used : list name) (s : name) : bool := negb (nmem s used).
Definition lowest_avail (n : nat) (used : list name) (sp : space) : list name :=
  firstn n (filter (unused used) (pool (base sp) (length used + n))).

(* the first k generations of the infinite stream base, base1, base2, ... *)
Fixpoint stream_from (b : list N) (start : N) (k : nat) : list name :=
  match k with O => [] | S k' => generation b start ++ stream_from b (N.succ start) k' end.
Definition stream (b : list N) (k : nat) : list name := stream_from b 0 k.

(* ---------- Term.substitute_contracted: the sub dict (expr_container.py:787-813) ---------- *)
Definition sort := (space * spin)%type.
Definition sort_eqb (a b : sort) := space_eqb (fst a) (fst b) && spin_eqb (snd a) (snd b).
Definition isort (x : index) : sort := (ispace x, ispin x).
Definition iname (x : index) : name := (iletter x, inum x).
(* get_symbols(name, spin): the registry index of that name *)
Definition reg_index (k : sort) (nm : name) : index := Idx (fst k) (snd k) (fst nm) (snd nm) 0.

(* contracted[key].append(s) *)
Fixpoint group_add (x : index) (g : list (sort * list index)) : list (sort * list index) :=
  match g with
  | [] => [(isort x, [x])]
  | (k, l) :: r => if sort_eqb k (isort x) then (k, l ++ [x]) :: r else (k, l) :: group_add x r
  end.
Definition group_by_sort (l : list index) : list (sort * list index) :=
  fold_left (fun g x => group_add x g) l [].
Fixpoint ndedup (l : list name) : list name :=
  match l with [] => [] | x :: r => if nmem x r then ndedup r else x :: ndedup r end.
(* used[key] : the set of names of the target indices of that space and spin *)
Definition used_names (tg : list index) (k : sort) : list name :=
  ndedup (map iname (filter (fun t => sort_eqb (isort t) k) tg)).
Definition sc_group (tg : list index) (g : sort * list index) : subs :=
  let k := fst g in
  combine (snd g) (map (reg_index k) (lowest_avail (length (snd g)) (used_names tg k) (fst k))).
(* the dict `sub` before ordering; contracted is duplicate-free *)
Definition sc_map (contracted tg : list index) : subs :=
  flat_map (sc_group tg) (group_by_sort contracted).
(* substitute_contracted(only_build_sub=True) *)
Definition sc_subs (u0 : N) (contracted tg : list index) : subs :=
  order_substitutions u0 (sc_map contracted tg).

(* ---------- minimize_tensor_indices (indices.py:411-477) ---------- *)
(* state of the loop: tensor indices, minimal_indices (per sort, the list is the
   stack read from its head), permutations, minimized *)
Fixpoint assoc_sort {A} (k : sort) (l : list (sort * A)) : option A :=
  match l with [] => None | (k', v) :: r => if sort_eqb k k' then Some v else assoc_sort k r end.
Fixpoint assoc_set {A} (k : sort) (v : A) (l : list (sort * A)) : list (sort * A) :=
  match l with
  | [] => [(k, v)]
  | (k', v') :: r => if sort_eqb k k' then (k', v) :: r else (k', v') :: assoc_set k v r
  end.
Record mstate := { m_idx : list index; m_min : list (sort * list index);
                   m_perms : subs; m_done : list index }.
Definition minimize_step (nuniq : nat) (tgn : list (sort * list name)) (st : mstate) (pos : nat)
  : mstate :=
  match nth_error (m_idx st) pos with
  | None => st
  | Some s =>
    if imem s (m_done st) then st
    else
      let k := isort s in
      let space_target := match assoc_sort k tgn with Some l => l | None => [] end in
      if nmem (iname s) space_target
      then {| m_idx := m_idx st; m_min := m_min st; m_perms := m_perms st;
              m_done := s :: m_done st |}
      else
        let mins := match assoc_sort k (m_min st) with
                    | Some l => l
                    | None => map (reg_index k) (lowest_avail nuniq space_target (fst k))
                    end in
        match mins with
        | [] => st                                       (* pop from empty list: not reachable *)
        | min_s :: rest =>
          let mm := assoc_set k rest (m_min st) in
          if index_eqb s min_s
          then {| m_idx := m_idx st; m_min := mm; m_perms := m_perms st;
                  m_done := min_s :: m_done st |}
          else {| m_idx := map (swap_idx s min_s) (m_idx st); m_min := mm;
                  m_perms := m_perms st ++ [(s, min_s)]; m_done := min_s :: m_done st |}
        end
  end.
Definition minimize_tensor_indices (ix : list index) (tgn : list (sort * list name))
  : list index * subs :=
  let st := fold_left (minimize_step (length (inodup ix)) tgn) (seq 0 (length ix))
                      {| m_idx := ix; m_min := []; m_perms := []; m_done := [] |} in
  (m_idx st, m_perms st).
