(* Proofs about the model of Kronecker-delta evaluation (Models/Deltas.v). *)
From Coq Require Import ZArith QArith List Bool Lia Permutation.
From ADC Require Import Core.Scalar Core.Index Core.Expr Core.Canon Core.Equiv Models.Deltas.
Import ListNotations.

(* ---------- order facts on index keys ---------- *)
Lemma lex_cmp_antisym a b : lex_cmp b a = CompOpp (lex_cmp a b).
Proof. revert b; induction a as [|x a IH]; destruct b as [|y b]; simpl; try reflexivity.
  rewrite (N.compare_antisym x y). destruct (N.compare x y); simpl; auto. Qed.
Lemma idx_leb_total a b : idx_leb a b = false -> idx_leb b a = true.
Proof. unfold idx_leb, lex_leb. rewrite (lex_cmp_antisym (idx_key a) (idx_key b)).
  destruct (lex_cmp (idx_key a) (idx_key b)); simpl; congruence. Qed.
Lemma idx_leb_antisym a b : idx_leb a b = true -> idx_leb b a = true -> a = b.
Proof. unfold idx_leb, lex_leb. rewrite (lex_cmp_antisym (idx_key a) (idx_key b)).
  destruct (lex_cmp (idx_key a) (idx_key b)) eqn:E; simpl; try congruence.
  intros _ _. apply idx_cmp_eq. exact E. Qed.

(* ---------- list facts ---------- *)
Lemma NoDup_app_disjoint {A} (l1 l2 : list A) x : NoDup (l1 ++ l2) -> In x l1 -> In x l2 -> False.
Proof. induction l1 as [|y l1 IH]; simpl; intros H H1 H2; [tauto|].
  inversion H as [|? ? Hn Hnd]; subst. destruct H1 as [->|H1].
  - apply Hn. apply in_or_app; auto.
  - apply IH; auto. Qed.

Lemma NoDup_app_l {A} (l1 l2 : list A) : NoDup (l1 ++ l2) -> NoDup l1.
Proof. induction l1 as [|y l1 IH]; simpl; intros H; [constructor|].
  inversion H as [|? ? Hn Hnd]; subst. constructor; [|auto].
  intros Hy; apply Hn; apply in_or_app; auto. Qed.
Lemma NoDup_app_r {A} (l1 l2 : list A) : NoDup (l1 ++ l2) -> NoDup l2.
Proof. induction l1 as [|y l1 IH]; simpl; intros H; [exact H|].
  inversion H; subst; auto. Qed.

Section OrbitalModel.
Variable S : Scalar.
Variable T : tmodel S.
Notation "0" := (k0 S). Notation "1" := (k1 S).
Infix "+" := (kadd S). Infix "*" := (kmul S).
Add Ring KRd : (Kring S).
Notation irange := (irange S T).
Notation eval_term := (eval_term S T).
Notation sum_over := (sum_over S T).
Notation mono_val := (mono_val S T).
Notation term_val := (term_val S T).
Notation fac_val := (fac_val S T).
Notation atom_val := (atom_val S T).

(* General orbitals are the occupied and the virtual ones, orbitals without
   spin label are the alpha and the beta ones, no orbital is listed twice. *)
Record orbital_model : Prop := {
  om_gen : forall p, Permutation (rng T Gen p) (rng T Occ p ++ rng T Virt p);
  om_nospin : forall s, Permutation (rng T s NoSpin) (rng T s Alpha ++ rng T s Beta);
  om_nodup : NoDup (rng T Gen NoSpin)
}.
Hypothesis OM : orbital_model.

Definition space_le (a b : space) : bool :=
  match a, b with _, Gen => true | Occ, Occ => true | Virt, Virt => true | _, _ => false end.
Definition spin_le (a b : spin) : bool :=
  match a, b with _, NoSpin => true | Alpha, Alpha => true | Beta, Beta => true | _, _ => false end.

Lemma rng_space_gen s p : incl (rng T s p) (rng T Gen p).
Proof. destruct s; [apply incl_refl| |]; intros x Hx;
  apply (Permutation_in x (Permutation_sym (om_gen OM p))); apply in_or_app; auto. Qed.
Lemma rng_spin_nospin s p : incl (rng T s p) (rng T s NoSpin).
Proof. destruct p; [apply incl_refl| |]; intros x Hx;
  apply (Permutation_in x (Permutation_sym (om_nospin OM s))); apply in_or_app; auto. Qed.
Lemma rng_incl s1 p1 s2 p2 : space_le s1 s2 = true -> spin_le p1 p2 = true ->
  incl (rng T s1 p1) (rng T s2 p2).
Proof. intros H1 H2. apply incl_tran with (rng T s2 p1).
  - destruct s1, s2; simpl in H1; try discriminate; try apply incl_refl; apply rng_space_gen.
  - destruct p1, p2; simpl in H2; try discriminate; try apply incl_refl; apply rng_spin_nospin. Qed.

Lemma rng_nodup s p : NoDup (rng T s p).
Proof.
  assert (G : forall q, NoDup (rng T Gen q)).
  { pose proof (Permutation_NoDup (om_nospin OM Gen) (om_nodup OM)) as H.
    intros [|  |]; [exact (om_nodup OM)|eapply NoDup_app_l; exact H|eapply NoDup_app_r; exact H]. }
  pose proof (Permutation_NoDup (om_gen OM p) (G p)) as H.
  destruct s; [apply G|eapply NoDup_app_l; exact H|eapply NoDup_app_r; exact H]. Qed.

Lemma rng_space_disjoint p1 p2 x : In x (rng T Occ p1) -> In x (rng T Virt p2) -> False.
Proof. intros H1 H2. apply rng_spin_nospin in H1, H2.
  eapply NoDup_app_disjoint; [|exact H1|exact H2].
  apply (Permutation_NoDup (om_gen OM NoSpin)). apply rng_nodup. Qed.
Lemma rng_spin_disjoint s1 s2 x : In x (rng T s1 Alpha) -> In x (rng T s2 Beta) -> False.
Proof. intros H1 H2. apply rng_space_gen in H1, H2.
  eapply NoDup_app_disjoint; [|exact H1|exact H2].
  apply (Permutation_NoDup (om_nospin OM Gen)). apply rng_nodup. Qed.

Lemma dead_disjoint i j x : idx_alive i j = false -> In x (irange i) -> In x (irange j) -> False.
Proof. unfold idx_alive, delta_alive, Expr.irange. destruct i as [s1 p1 ? ? ?], j as [s2 p2 ? ? ?]; simpl.
  intros H H1 H2. apply andb_false_iff in H. destruct H as [H|H]; apply negb_false_iff in H.
  - destruct s1, s2; simpl in H; try discriminate;
      [eapply rng_space_disjoint; eauto|eapply rng_space_disjoint; eauto].
  - destruct p1, p2; simpl in H; try discriminate;
      [eapply rng_spin_disjoint; eauto|eapply rng_spin_disjoint; eauto]. Qed.

(* the kept index carries at least the information of the removed one: in
   every orbital model its range is included (all 81 space/spin cases) *)
Theorem pref_kill_info i j pref kill : idx_alive i j = true -> pk_of i j = Some (pref, kill) ->
  incl (irange pref) (irange kill).
Proof. unfold idx_alive, pk_of, Expr.irange.
  destruct i as [s1 p1 l1 n1 u1], j as [s2 p2 l2 n2 u2]; simpl.
  destruct s1, p1, s2, p2; simpl; intros Ha Hp; try discriminate Ha; try discriminate Hp;
    inversion Hp; subst; simpl; apply rng_incl; reflexivity. Qed.

Lemma equal_info_range i j : idx_equal_info i j = true -> irange i = irange j.
Proof. unfold idx_equal_info, equal_info, Expr.irange. rewrite andb_true_iff, space_eqb_eq, spin_eqb_eq.
  intros [-> ->]; reflexivity. Qed.

End OrbitalModel.

(* ====================================================================== *)
(* Structural facts that do not depend on a tensor model                  *)
(* ====================================================================== *)
Lemma is_delta_Some o i j : is_delta o = Some (i, j) -> o = (ADelta i j, 1%Z).
Proof. destruct o as [[t|a b|n|q|p] z]; simpl; try discriminate.
  destruct (Z.eqb z 1) eqn:E; [|discriminate]. apply Z.eqb_eq in E. intros H; inversion H; subst; reflexivity. Qed.
Lemma is_delta_delta i j : is_delta (ADelta i j, 1%Z) = Some (i, j).
Proof. reflexivity. Qed.
Lemma is_delta_subst a b o : is_delta (subst_obj a b o) =
  match is_delta o with Some (i, j) => Some (sub1 a b i, sub1 a b j) | None => None end.
Proof. destruct o as [[t|i j|n|q|p] z]; simpl; try reflexivity. destruct (Z.eqb z 1); reflexivity. Qed.

Lemma deltas_of_In os i j : In (i, j) (deltas_of os) <-> In (ADelta i j, 1%Z) os.
Proof. unfold deltas_of. rewrite in_flat_map. split.
  - intros [o [Ho Hd]]. destruct (is_delta o) as [[a b]|] eqn:E; [|destruct Hd].
    destruct Hd as [Hd|[]]. inversion Hd; subst. apply is_delta_Some in E; subst; exact Ho.
  - intros H. exists (ADelta i j, 1%Z). split; [exact H|]. simpl. left; reflexivity. Qed.

Lemma sub1_other a b x : x <> a -> sub1 a b x = x.
Proof. intros H. unfold sub1. apply index_eqb_neq in H. rewrite H. reflexivity. Qed.
Lemma sub1_hit a b : sub1 a b a = b.
Proof. unfold sub1. rewrite index_eqb_refl. reflexivity. Qed.
Lemma sub1_cases a b x : (x = a /\ sub1 a b x = b) \/ (x <> a /\ sub1 a b x = x).
Proof. destruct (index_eq_dec x a) as [->|H]; [left; split; [reflexivity|apply sub1_hit]|right; split; [exact H|apply sub1_other; exact H]]. Qed.
Lemma sub1_neq a b x : a <> b -> sub1 a b x <> a.
Proof. intros H. destruct (sub1_cases a b x) as [[_ ->]|[H1 ->]]; congruence. Qed.

(* indices of substituted objects *)
Lemma flat_map_map_comm' {A} (f : A -> list index) (g : A -> A) h l :
  (forall x, f (g x) = map h (f x)) -> flat_map f (map g l) = map h (flat_map f l).
Proof. intros H. induction l; simpl; [reflexivity|]. rewrite map_app, H, IHl. reflexivity. Qed.
Lemma tens_idx_subst a b t : tens_idx (subst_tens a b t) = map (sub1 a b) (tens_idx t).
Proof. unfold tens_idx, subst_tens; simpl. rewrite map_app. reflexivity. Qed.
Lemma atom_idx_subst a b x : atom_idx (subst_atom a b x) = map (sub1 a b) (atom_idx x).
Proof. destruct x; simpl; try reflexivity; [apply tens_idx_subst|].
  unfold poly_idx, subst_poly. apply flat_map_map_comm'. intros [q ts]; simpl.
  apply flat_map_map_comm'. apply tens_idx_subst. Qed.
Lemma obj_idx_subst a b o : obj_idx (subst_obj a b o) = map (sub1 a b) (obj_idx o).
Proof. unfold obj_idx, subst_obj; simpl. apply atom_idx_subst. Qed.
Lemma objs_idx_subst a b os : objs_idx (map (subst_obj a b) os) = map (sub1 a b) (objs_idx os).
Proof. unfold objs_idx. apply flat_map_map_comm'. apply obj_idx_subst. Qed.

Lemma repeat_map {A B} (f : A -> B) x n : map f (repeat x n) = repeat (f x) n.
Proof. induction n; simpl; [reflexivity|rewrite IHn; reflexivity]. Qed.
Lemma obj_facs_subst a b o : obj_facs (subst_obj a b o) = map (subst_fac a b) (obj_facs o).
Proof. unfold obj_facs, subst_obj; simpl. rewrite repeat_map. reflexivity. Qed.
Lemma objs_facs_subst a b os : objs_facs (map (subst_obj a b) os) = map (subst_fac a b) (objs_facs os).
Proof. unfold objs_facs. induction os as [|o os IH]; simpl; [reflexivity|].
  rewrite map_app, obj_facs_subst, IH. reflexivity. Qed.

(* well-formed argument lists: exponents are not 0 and every delta is in the
   form that KroneckerDelta.eval leaves (distinct, compatible, sorted indices) *)
Definition wf_obj (o : obj) : Prop :=
  snd o <> 0%Z /\ forall i j, is_delta o = Some (i, j) -> delta_eval i j = DKeep i j.
Definition wf_objs (os : list obj) : Prop := forall o, In o os -> wf_obj o.

Lemma delta_eval_keep i j : delta_eval i j = DKeep i j ->
  i <> j /\ idx_alive i j = true /\ idx_leb i j = true.
Proof. unfold delta_eval. destruct (index_eqb i j) eqn:E; [discriminate|].
  apply index_eqb_neq in E. destruct (idx_alive i j); simpl; [|discriminate].
  destruct (idx_leb i j); intros H; [auto|]. inversion H; subst; congruence. Qed.

Lemma idx_alive_sym i j : idx_alive i j = idx_alive j i.
Proof. unfold idx_alive, delta_alive. destruct (ispace i), (ispace j), (ispin i), (ispin j); reflexivity. Qed.

Lemma delta_eval_norm i j a b : delta_eval i j = DKeep a b ->
  delta_eval a b = DKeep a b /\ ((a = i /\ b = j) \/ (a = j /\ b = i)).
Proof. unfold delta_eval at 1. destruct (index_eqb i j) eqn:E; [discriminate|].
  destruct (idx_alive i j) eqn:Ea; simpl; [|discriminate].
  destruct (idx_leb i j) eqn:El; intros H; inversion H; subst.
  - split; [|left; auto]. unfold delta_eval. rewrite E, Ea, El. reflexivity.
  - split; [|right; auto]. unfold delta_eval. rewrite index_eqb_sym, E, idx_alive_sym, Ea.
    rewrite (idx_leb_total _ _ El). reflexivity. Qed.

(* two sorted deltas on the same pair of indices are the same object *)
Lemma sorted_delta_unique i j a b : delta_eval i j = DKeep i j -> delta_eval a b = DKeep a b ->
  ((a = i /\ b = j) \/ (a = j /\ b = i)) -> a = i /\ b = j.
Proof. intros H1 H2 [H|[-> ->]]; [exact H|].
  apply delta_eval_keep in H1, H2. destruct H1 as [Hn [_ L1]], H2 as [_ [_ L2]].
  exfalso; apply Hn. apply idx_leb_antisym; assumption. Qed.

(* what norm_objs keeps *)
Lemma norm_objs_In os os2 o : norm_objs os = Some os2 -> In o os ->
  match is_delta o with
  | None => In o os2
  | Some (i, j) => match delta_eval i j with
                   | DZero => False | DOne => True
                   | DKeep a b => In (ADelta a b, 1%Z) os2 end
  end.
Proof. revert os2. induction os as [|x os IH]; simpl; intros os2 H Ho; [tauto|].
  destruct Ho as [->|Ho].
  - destruct (is_delta o) as [[i j]|] eqn:E.
    + destruct (delta_eval i j) as [| |a b] eqn:Ed; [discriminate|exact I|].
      destruct (norm_objs os); simpl in H; [|discriminate]. inversion H; subst. left; reflexivity.
    + destruct (norm_objs os); simpl in H; [|discriminate]. inversion H; subst. left; reflexivity.
  - destruct (is_delta x) as [[i j]|] eqn:E.
    + destruct (delta_eval i j) as [| |a b] eqn:Ed; [discriminate|apply IH; auto|].
      destruct (norm_objs os) as [r|]; simpl in H; [|discriminate]. inversion H; subst.
      specialize (IH r eq_refl Ho). destruct (is_delta o) as [[i' j']|].
      * destruct (delta_eval i' j'); auto. right; exact IH.
      * right; exact IH.
    + destruct (norm_objs os) as [r|]; simpl in H; [|discriminate]. inversion H; subst.
      specialize (IH r eq_refl Ho). destruct (is_delta o) as [[i' j']|].
      * destruct (delta_eval i' j'); auto. right; exact IH.
      * right; exact IH. Qed.

Lemma norm_objs_from os os2 o : norm_objs os = Some os2 -> In o os2 ->
  (In o os /\ is_delta o = None) \/
  (exists i j a b, In (ADelta i j, 1%Z) os /\ delta_eval i j = DKeep a b /\ o = (ADelta a b, 1%Z)).
Proof. revert os2. induction os as [|x os IH]; simpl; intros os2 H Ho.
  - inversion H; subst. destruct Ho.
  - destruct (is_delta x) as [[i j]|] eqn:E.
    + apply is_delta_Some in E. subst x.
      destruct (delta_eval i j) as [| |a b] eqn:Ed; [discriminate| |].
      * destruct (IH _ H Ho) as [[H1 H2]|[i' [j' [a' [b' [H1 [H2 H3]]]]]]]; [left; auto|].
        right. exists i', j', a', b'. auto.
      * destruct (norm_objs os) as [r|]; simpl in H; [|discriminate]. inversion H; subst.
        destruct Ho as [<-|Ho].
        -- right. exists i, j, a, b. auto.
        -- destruct (IH _ eq_refl Ho) as [[H1 H2]|[i' [j' [a' [b' [H1 [H2 H3]]]]]]]; [left; auto|].
           right. exists i', j', a', b'. auto.
    + destruct (norm_objs os) as [r|]; simpl in H; [|discriminate]. inversion H; subst.
      destruct Ho as [<-|Ho]; [left; auto|].
      destruct (IH _ eq_refl Ho) as [[H1 H2]|[i' [j' [a' [b' [H1 [H2 H3]]]]]]]; [left; auto|].
      right. exists i', j', a', b'. auto. Qed.

Lemma norm_objs_None os : norm_objs os = None ->
  exists i j, In (ADelta i j, 1%Z) os /\ delta_eval i j = DZero.
Proof. induction os as [|x os IH]; simpl; [discriminate|].
  destruct (is_delta x) as [[i j]|] eqn:E.
  - apply is_delta_Some in E; subst x. destruct (delta_eval i j) as [| |a b] eqn:Ed.
    + intros _. exists i, j. auto.
    + intros H. destruct (IH H) as [i' [j' [H1 H2]]]. exists i', j'. auto.
    + destruct (norm_objs os); simpl; [discriminate|]. intros _.
      destruct (IH eq_refl) as [i' [j' [H1 H2]]]. exists i', j'. auto.
  - destruct (norm_objs os); simpl; [discriminate|]. intros _.
    destruct (IH eq_refl) as [i' [j' [H1 H2]]]. exists i', j'. auto. Qed.

(* ---------- the action chosen by the loop ---------- *)
Lemma first_action_spec tg ds a : first_action tg ds = Some a ->
  exists d, In d ds /\ delta_action tg d = Some a.
Proof. induction ds as [|d ds IH]; simpl; [discriminate|].
  destruct (delta_action tg d) eqn:E.
  - intros H; inversion H; subst. exists d; auto.
  - intros H. destruct (IH H) as [d' [H1 H2]]. exists d'; auto. Qed.
Lemma first_action_None tg ds : first_action tg ds = None ->
  forall d, In d ds -> delta_action tg d = None.
Proof. induction ds as [|d ds IH]; simpl; [tauto|].
  destruct (delta_action tg d) eqn:E; [discriminate|]. intros H d' [<-|H']; auto. Qed.

Lemma pk_of_pair i j pref kill : pk_of i j = Some (pref, kill) ->
  (pref = i /\ kill = j) \/ (pref = j /\ kill = i).
Proof. unfold pk_of. destruct (pref_kill _ _ _ _); intros H; inversion H; auto. Qed.

Lemma delta_action_spec tg i j from to : delta_action tg (i, j) = Some (from, to) ->
  exists pref kill, pk_of i j = Some (pref, kill) /\
    ((from = kill /\ to = pref /\ ~ In kill tg) \/
     (from = pref /\ to = kill /\ In kill tg /\ ~ In pref tg /\ idx_equal_info i j = true)).
Proof. unfold delta_action. destruct (pk_of i j) as [[pref kill]|] eqn:E; [|discriminate].
  destruct (imem kill tg) eqn:Ek; simpl.
  - destruct (imem pref tg) eqn:Ep; simpl; [discriminate|].
    destruct (idx_equal_info i j) eqn:Ei; [|discriminate].
    intros H; inversion H; subst. exists from, to. split; [reflexivity|]. right.
    apply imem_In in Ek. apply imem_nIn in Ep. auto.
  - intros H; inversion H; subst. exists to, from. split; [reflexivity|]. left.
    apply imem_nIn in Ek. auto. Qed.

Lemma delta_action_stuck tg d : delta_action tg d = None -> stuck tg d.
Proof. destruct d as [i j]. unfold delta_action, stuck.
  destruct (pk_of i j) as [[pref kill]|] eqn:E; [|left; reflexivity].
  destruct (imem kill tg) eqn:Ek; simpl; [|discriminate].
  intros H. right. exists pref, kill. split; [reflexivity|]. split; [apply imem_In; exact Ek|].
  destruct (imem pref tg) eqn:Ep; simpl in H.
  - left. apply imem_In; exact Ep.
  - right. destruct (idx_equal_info i j); [discriminate|reflexivity]. Qed.

(* a target index is never the one that is substituted away *)
Theorem pass_keeps_targets tg st from to :
  pr_action (pass tg st) = Some (from, to) ->
  ~ In from tg /\
  exists i j, In (ADelta i j, 1%Z) (sobjs st) /\ ((from = i /\ to = j) \/ (from = j /\ to = i)).
Proof. unfold pass. destruct (first_action tg (deltas_of (sobjs st))) as [[f t]|] eqn:E; simpl; [|discriminate].
  intros H; inversion H; subst. destruct (first_action_spec _ _ _ E) as [[i j] [Hd Ha]].
  apply deltas_of_In in Hd. destruct (delta_action_spec _ _ _ _ _ Ha) as [pref [kill [Hp Hc]]].
  apply pk_of_pair in Hp.
  destruct Hc as [[-> [-> Hn]]|[-> [-> [Hk [Hn _]]]]]; (split; [exact Hn|]); exists i, j; (split; [exact Hd|]);
    destruct Hp as [[-> ->]|[-> ->]]; auto. Qed.

(* ====================================================================== *)
(* Value semantics                                                        *)
(* ====================================================================== *)
Section Value.
Variable S : Scalar.
Variable T : tmodel S.
Notation "0" := (k0 S). Notation "1" := (k1 S).
Infix "+" := (kadd S). Infix "*" := (kmul S).
Add Ring KRv : (Kring S).
Notation irange := (irange S T).
Notation eval_term := (eval_term S T).
Notation sum_over := (sum_over S T).
Notation mono_val := (mono_val S T).
Notation term_val := (term_val S T).
Notation fac_val := (fac_val S T).
Notation atom_val := (atom_val S T).
Notation delta_val := (delta_val S).
Hypothesis OM : orbital_model S T.

(* ---------- sums ---------- *)
Lemma sum_over_app xs ys r F :
  sum_over (xs ++ ys) r F = sum_over xs r (fun r' => sum_over ys r' F).
Proof. revert r. induction xs as [|x xs IH]; simpl; intros r; [reflexivity|].
  apply ksum_ext. intros o _. apply IH. Qed.

(* inside the sum every summed index is in its range and the others are untouched *)
Lemma sum_over_ext_in xs r F G :
  (forall r', (forall x, In x xs -> In (r' x) (irange x)) ->
              (forall x, ~ In x xs -> r' x = r x) -> F r' = G r') ->
  sum_over xs r F = sum_over xs r G.
Proof. revert r. induction xs as [|x xs IH]; simpl; intros r H.
  - apply H; [intros x []|reflexivity].
  - apply ksum_ext. intros o Ho. apply IH. intros r' H1 H2. apply H.
    + intros y [<-|Hy]; [|auto]. destruct (in_dec index_eq_dec x xs) as [Hx|Hx]; [auto|].
      rewrite (H2 x Hx). unfold upd. rewrite index_eqb_refl. exact Ho.
    + intros y Hy. rewrite H2 by (intros Hy'; apply Hy; right; exact Hy').
      unfold upd. destruct (index_eqb y x) eqn:E; [|reflexivity].
      apply index_eqb_eq in E; subst. exfalso; apply Hy; left; reflexivity. Qed.

Lemma NoDup_app_intro_single {A} (l : list A) x : NoDup l -> ~ In x l -> NoDup (l ++ [x]).
Proof. induction l as [|y l IH]; simpl; intros Hnd Hn; [constructor; [tauto|constructor]|].
  inversion Hnd; subst. constructor.
  - rewrite in_app_iff. simpl. intros [H|[H|[]]]; [contradiction|subst; tauto].
  - apply IH; tauto. Qed.

Lemma ksum_single (l : list nat) v (f : nat -> K S) :
  NoDup l -> In v l -> (forall o, In o l -> o <> v -> f o = 0) -> ksum l f = f v.
Proof. induction l as [|x l IH]; simpl; intros Hnd Hin Hz; [destruct Hin|].
  inversion Hnd as [|? ? Hn Hnd']; subst. destruct Hin as [->|Hin].
  - rewrite (ksum_ext S l f (fun _ => 0)).
    + rewrite ksum_zero. ring.
    + intros o Ho. apply Hz; [right; exact Ho|]. intros ->. contradiction.
  - rewrite IH; auto. rewrite (Hz x); [ring|left; reflexivity|]. intros ->. contradiction. Qed.

(* ---------- values under substitution ---------- *)
Lemma sub1_env a b (r : env) y : r (sub1 a b y) = upd r a (r b) y.
Proof. unfold sub1, upd. destruct (index_eqb y a); reflexivity. Qed.
Lemma map_sub1_env a b (r : env) l : map r (map (sub1 a b) l) = map (upd r a (r b)) l.
Proof. rewrite map_map. apply map_ext. intros; apply sub1_env. Qed.
Lemma tens_val_subst a b r t : tens_val S T r (subst_tens a b t) = tens_val S T (upd r a (r b)) t.
Proof. unfold tens_val, subst_tens; simpl. rewrite !map_sub1_env. reflexivity. Qed.
Lemma poly_val_subst a b r p : poly_val S T r (subst_poly a b p) = poly_val S T (upd r a (r b)) p.
Proof. unfold poly_val, subst_poly. rewrite ksum_map. apply ksum_ext. intros [q ts] _.
  unfold pterm_val; simpl. rewrite map_map. f_equal. f_equal. apply map_ext. intros; apply tens_val_subst. Qed.
Lemma atom_val_subst a b r x : atom_val r (subst_atom a b x) = atom_val (upd r a (r b)) x.
Proof. destruct x; simpl; try reflexivity; [apply tens_val_subst| |apply poly_val_subst].
  unfold Expr.delta_val. rewrite !sub1_env. reflexivity. Qed.
Lemma fac_val_subst a b r f : fac_val r (subst_fac a b f) = fac_val (upd r a (r b)) f.
Proof. unfold Expr.fac_val, subst_fac; simpl. rewrite atom_val_subst. reflexivity. Qed.
Lemma mono_val_subst a b r fs : mono_val r (map (subst_fac a b) fs) = mono_val (upd r a (r b)) fs.
Proof. unfold Expr.mono_val. rewrite map_map. f_equal. apply map_ext. intros; apply fac_val_subst. Qed.

Lemma mono_val_cons r f fs : mono_val r (f :: fs) = fac_val r f * mono_val r fs.
Proof. reflexivity. Qed.
Lemma mono_val_app r l1 l2 : mono_val r (l1 ++ l2) = mono_val r l1 * mono_val r l2.
Proof. unfold Expr.mono_val. rewrite map_app, kprod_app. reflexivity. Qed.

Lemma delta_val_refl r i : delta_val r i i = 1.
Proof. unfold Expr.delta_val. rewrite Nat.eqb_refl. reflexivity. Qed.
Lemma delta_val_sym' r i j : delta_val r i j = delta_val r j i.
Proof. unfold Expr.delta_val. rewrite Nat.eqb_sym. reflexivity. Qed.

Lemma delta_obj_facs i j : obj_facs (ADelta i j, 1%Z) = [(ADelta i j, false)].
Proof. reflexivity. Qed.

Lemma norm_objs_val r os os2 : norm_objs os = Some os2 ->
  mono_val r (objs_facs os2) = mono_val r (objs_facs os).
Proof. revert os2. induction os as [|x os IH]; simpl; intros os2 H.
  - inversion H; reflexivity.
  - destruct (is_delta x) as [[i j]|] eqn:E.
    + apply is_delta_Some in E; subst x. rewrite delta_obj_facs. simpl app. rewrite mono_val_cons.
      unfold delta_eval in H. destruct (index_eqb i j) eqn:Eij.
      * apply index_eqb_eq in Eij; subst j. rewrite (IH _ H).
        unfold Expr.fac_val; simpl. rewrite delta_val_refl. ring.
      * destruct (negb (idx_alive i j)); [discriminate|].
        destruct (norm_objs os) as [r2|]; [|destruct (idx_leb i j); discriminate].
        specialize (IH r2 eq_refl).
        destruct (idx_leb i j); simpl in H; inversion H; subst.
        -- change (objs_facs ((ADelta i j, 1%Z) :: r2)) with ((ADelta i j, false) :: objs_facs r2).
           rewrite mono_val_cons, IH. reflexivity.
        -- change (objs_facs ((ADelta j i, 1%Z) :: r2)) with ((ADelta j i, false) :: objs_facs r2).
           rewrite mono_val_cons, IH. unfold Expr.fac_val; simpl. rewrite (delta_val_sym' r j i). reflexivity.
    + destruct (norm_objs os) as [r2|]; simpl in H; [|discriminate]. inversion H; subst.
      simpl objs_facs. rewrite !mono_val_app, (IH r2 eq_refl). reflexivity. Qed.

Lemma delta_kills r i j fs : In (ADelta i j, false) fs -> r i <> r j -> mono_val r fs = 0.
Proof. induction fs as [|f fs IH]; simpl; intros Hin Hne; [destruct Hin|].
  rewrite mono_val_cons. destruct Hin as [->|Hin].
  - unfold Expr.fac_val; simpl. unfold Expr.delta_val.
    apply Nat.eqb_neq in Hne. rewrite Hne. ring.
  - rewrite IH by assumption. ring. Qed.

Lemma delta_in_facs os i j : In (ADelta i j, 1%Z) os -> In (ADelta i j, false) (objs_facs os).
Proof. intros H. unfold objs_facs. apply in_flat_map. exists (ADelta i j, 1%Z). split; [exact H|].
  rewrite delta_obj_facs. left; reflexivity. Qed.

(* ---------- index sets ---------- *)
Lemma mono_idx_repeat f n x : In x (mono_idx (repeat f n)) <-> n <> O /\ In x (fac_idx f).
Proof. induction n as [|n IH]; simpl; [split; [tauto|intros [H _]; congruence]|].
  unfold mono_idx in *. simpl. rewrite in_app_iff, IH. split; [intros [H|[_ H]]; split; auto|tauto]. Qed.
Lemma mono_idx_objs os x : wf_objs os -> (In x (mono_idx (objs_facs os)) <-> In x (objs_idx os)).
Proof. intros W. unfold objs_facs, objs_idx. induction os as [|o os IH]; simpl; [tauto|].
  assert (W' : wf_objs os) by (intros o' Ho'; apply W; right; exact Ho').
  unfold mono_idx in *. rewrite flat_map_app, !in_app_iff, (IH W').
  fold (mono_idx (obj_facs o)). unfold obj_facs. rewrite mono_idx_repeat.
  unfold fac_idx, obj_idx; simpl.
  destruct (W o (or_introl eq_refl)) as [Hz _].
  assert (Z.abs_nat (snd o) <> O) by lia. tauto. Qed.

Lemma contracted_In tg t x : In x (contracted tg t) <-> In x (term_idx t) /\ ~ In x tg.
Proof. unfold contracted, contracted_of. rewrite filter_In, inodup_In, negb_true_iff, imem_nIn. tauto. Qed.
Lemma contracted_NoDup' tg t : NoDup (contracted tg t).
Proof. unfold contracted, contracted_of. apply NoDup_filter. apply inodup_NoDup. Qed.
Lemma term_val_depends t : depends_on S (term_idx t) (fun r => term_val r t).
Proof. intros r1 r2 H. apply term_val_agree; exact H. Qed.

Definition inrange (r : env) (l : list index) : Prop := forall x, In x l -> In (r x) (irange x).

(* inside [eval_term] all indices of the term are within their ranges *)
Lemma eval_term_ext_in tgs r t G : inrange r tgs ->
  (forall r', inrange r' (term_idx t) -> (forall x, In x tgs -> r' x = r x) -> term_val r' t = G r') ->
  eval_term tgs r t = sum_over (contracted tgs t) r G.
Proof. intros Hr H. unfold Expr.eval_term. apply sum_over_ext_in. intros r' H1 H2. apply H.
  - intros x Hx. destruct (in_dec index_eq_dec x tgs) as [Ht|Ht].
    + rewrite H2; [apply Hr; exact Ht|]. rewrite contracted_In; tauto.
    + apply H1. apply contracted_In; auto.
  - intros x Hx. apply H2. rewrite contracted_In; tauto. Qed.

(* ---------- the delta rule on a whole term ---------- *)
(* [os] contains delta_{ij} with {i,j} = {from,to}; [from] is summed over a
   range that contains the range of [to] *)
Section Core.
Variables (c : Q) (os os2 : list obj) (i j from to : index) (tgs : list index) (r : env).
Hypothesis W : wf_objs os.
Hypothesis Hd : In (ADelta i j, 1%Z) os.
Hypothesis Hft : (from = i /\ to = j) \/ (from = j /\ to = i).
Hypothesis Hfrom : ~ In from tgs.
Hypothesis Hincl : incl (irange to) (irange from).
Hypothesis Hr : inrange r tgs.
Let os1 := map (subst_obj from to) os.
Let t := Term c (objs_facs os).

Lemma core_wf_ij : delta_eval i j = DKeep i j.
Proof using W Hd. clear Hft Hfrom Hincl Hr. destruct (W _ Hd) as [_ H]. apply H. reflexivity. Qed.
Lemma core_neq : from <> to.
Proof using W Hd Hft. clear Hfrom Hincl Hr. destruct (delta_eval_keep _ _ core_wf_ij) as [H _]. destruct Hft as [[-> ->]|[-> ->]]; congruence. Qed.
Lemma core_from_idx : In from (objs_idx os) /\ In to (objs_idx os).
Proof using Hd Hft. clear W Hfrom Hincl Hr. unfold objs_idx. split; apply in_flat_map; exists (ADelta i j, 1%Z); (split; [exact Hd|]);
  unfold obj_idx; simpl; destruct Hft as [[-> ->]|[-> ->]]; auto. Qed.
Lemma core_term_idx x : In x (term_idx t) <-> In x (objs_idx os).
Proof using W. clear Hd Hft Hfrom Hincl Hr. unfold t, term_idx; simpl. apply mono_idx_objs. exact W. Qed.

(* the term vanishes unless [from] and [to] are assigned the same orbital *)
Lemma core_kills r' : r' from <> r' to -> term_val r' t = 0.
Proof using Hd Hft. clear W Hfrom Hincl Hr. intros H. unfold Expr.term_val, t; simpl.
  rewrite (delta_kills r' i j); [ring|apply delta_in_facs; exact Hd|].
  destruct Hft as [[-> ->]|[-> ->]]; congruence. Qed.

(* --- the product becomes 0: a delta between incompatible indices appears --- *)
Lemma core_zero : norm_objs os1 = None -> eval_term tgs r t = 0.
Proof using OM W Hd Hft Hr. clear Hfrom Hincl. intros HN. rewrite (eval_term_ext_in tgs r t (fun _ => 0) Hr); [apply sum_over_zero|].
  intros r' Hin _.
  destruct (norm_objs_None _ HN) as [a' [b' [H1 H2]]].
  unfold os1 in H1. apply in_map_iff in H1. destruct H1 as [o [Ho Hin_o]].
  assert (Hdo : is_delta (subst_obj from to o) = Some (a', b')) by (rewrite Ho; reflexivity).
  rewrite is_delta_subst in Hdo. destruct (is_delta o) as [[a b]|] eqn:E; [|discriminate].
  inversion Hdo; subst a' b'. clear Hdo. pose proof (is_delta_Some _ _ _ E) as ->.
  destruct (W _ Hin_o) as [_ Hk]. specialize (Hk a b E).
  destruct (Nat.eq_dec (r' from) (r' to)) as [Heq|Hne]; [|apply core_kills; exact Hne].
  (* r' from = r' to: then r' (sub x) = r' x, and the dead delta separates a and b *)
  assert (Hsub : forall x, r' (sub1 from to x) = r' x).
  { intros x. destruct (sub1_cases from to x) as [[-> ->]|[_ ->]]; congruence. }
  unfold delta_eval in H2. destruct (index_eqb (sub1 from to a) (sub1 from to b)); [discriminate|].
  destruct (idx_alive (sub1 from to a) (sub1 from to b)) eqn:Ea; simpl in H2;
    [destruct (idx_leb _ _); discriminate|].
  assert (Hidx : forall x, In x (objs_idx os) -> In (sub1 from to x) (objs_idx os)).
  { intros x Hx. destruct (sub1_cases from to x) as [[_ ->]|[_ ->]]; [apply core_from_idx|exact Hx]. }
  assert (Ha : In a (objs_idx os) /\ In b (objs_idx os)).
  { unfold objs_idx. split; apply in_flat_map; exists (ADelta a b, 1%Z); (split; [exact Hin_o|]);
      unfold obj_idx; simpl; auto. }
  destruct Ha as [Ha Hb].
  unfold Expr.term_val, t; simpl. rewrite (delta_kills r' a b); [ring|apply delta_in_facs; exact Hin_o|].
  intros Hab. apply (dead_disjoint S T OM _ _ (r' a) Ea).
  - rewrite <- (Hsub a). apply Hin. apply core_term_idx. apply Hidx; exact Ha.
  - rewrite Hab, <- (Hsub b). apply Hin. apply core_term_idx. apply Hidx; exact Hb. Qed.

(* --- the product survives --- *)
Hypothesis HN : norm_objs os1 = Some os2.
Let t2 := Term c (objs_facs os2).
(* [to] stays summed (or is a target): some other object carries from or to *)
Hypothesis Hkeep : In to tgs \/
  exists o, In o os /\ o <> (ADelta i j, 1%Z) /\ (In to (obj_idx o) \/ In from (obj_idx o)).

Lemma core_wf2 : wf_objs os2.
Proof using W HN. clear Hd Hft Hfrom Hincl Hr Hkeep. intros o Ho. destruct (norm_objs_from _ _ _ HN Ho) as [[H1 H2]|[a [b [a' [b' [H1 [H2 ->]]]]]]].
  - unfold os1 in H1. apply in_map_iff in H1. destruct H1 as [o0 [<- Hin0]].
    destruct (W _ Hin0) as [Hz _]. split; [exact Hz|]. intros x y Hxy. congruence.
  - split; [simpl; discriminate|]. intros x y Hxy. simpl in Hxy. inversion Hxy; subst.
    apply (delta_eval_norm _ _ _ _ H2). Qed.

Lemma core_idx2_incl x : In x (objs_idx os2) -> In x (objs_idx os) /\ x <> from.
Proof using W Hd Hft HN. clear Hfrom Hincl Hr Hkeep. intros Hx. unfold objs_idx in Hx. apply in_flat_map in Hx. destruct Hx as [o [Ho Hxo]].
  assert (H1 : In x (objs_idx os1)).
  { destruct (norm_objs_from _ _ _ HN Ho) as [[H1 _]|[a [b [a' [b' [H1 [H2 ->]]]]]]].
    - unfold objs_idx. apply in_flat_map. exists o; auto.
    - unfold objs_idx. apply in_flat_map. exists (ADelta a b, 1%Z). split; [exact H1|].
      destruct (delta_eval_norm _ _ _ _ H2) as [_ [[-> ->]|[-> ->]]]; unfold obj_idx in *; simpl in *; tauto. }
  unfold os1 in H1. rewrite objs_idx_subst in H1. apply in_map_iff in H1. destruct H1 as [y [<- Hy]].
  split; [|apply sub1_neq; apply core_neq].
  destruct (sub1_cases from to y) as [[_ ->]|[_ ->]]; [apply core_from_idx|exact Hy]. Qed.

(* an object other than delta_{ij} that carries x (or [from], if x = to) survives *)
Lemma core_survive o x : In o os -> o <> (ADelta i j, 1%Z) -> x <> from ->
  (In x (obj_idx o) \/ (x = to /\ In from (obj_idx o))) -> In x (objs_idx os2).
Proof using W Hd Hft HN. clear Hfrom Hincl Hr Hkeep. intros Ho Hne Hxf Hx.
  assert (Hx1 : In x (obj_idx (subst_obj from to o))).
  { rewrite obj_idx_subst. apply in_map_iff. destruct Hx as [Hx|[-> Hx]].
    - exists x. split; [apply sub1_other; exact Hxf|exact Hx].
    - exists from. split; [apply sub1_hit|exact Hx]. }
  assert (Ho1 : In (subst_obj from to o) os1) by (apply in_map; exact Ho).
  pose proof (norm_objs_In _ _ _ HN Ho1) as Hn.
  destruct (is_delta (subst_obj from to o)) as [[a' b']|] eqn:E.
  - pose proof E as E'. rewrite is_delta_subst in E'.
    destruct (is_delta o) as [[a b]|] eqn:Eo; [|discriminate]. inversion E'; subst a' b'. clear E'.
    pose proof (is_delta_Some _ _ _ Eo) as ->.
    destruct (W _ Ho) as [_ Hk]. specialize (Hk a b Eo).
    destruct (delta_eval (sub1 from to a) (sub1 from to b)) as [| |a2 b2] eqn:Ed; [destruct Hn| |].
    + (* the delta became delta_xx: then it was delta_{ij} *)
      exfalso. apply Hne.
      unfold delta_eval in Ed. destruct (index_eqb (sub1 from to a) (sub1 from to b)) eqn:Eab.
      2:{ destruct (negb (idx_alive _ _)); [discriminate|destruct (idx_leb _ _); discriminate]. }
      apply index_eqb_eq in Eab.
      destruct (delta_eval_keep _ _ Hk) as [Hab _].
      assert (Hs : (a = i /\ b = j) \/ (a = j /\ b = i)).
      { destruct (sub1_cases from to a) as [[Ha Ea]|[Ha Ea]], (sub1_cases from to b) as [[Hb Eb]|[Hb Eb]];
          rewrite Ea, Eb in Eab; try congruence; subst;
          destruct Hft as [[-> ->]|[-> ->]]; auto. }
      destruct (sorted_delta_unique _ _ _ _ core_wf_ij Hk Hs) as [-> ->]. reflexivity.
    + unfold objs_idx. apply in_flat_map. exists (ADelta a2 b2, 1%Z). split; [exact Hn|].
      unfold obj_idx in *; simpl in *.
      destruct (delta_eval_norm _ _ _ _ Ed) as [_ [[-> ->]|[-> ->]]]; tauto.
  - unfold objs_idx. apply in_flat_map. exists (subst_obj from to o). auto. Qed.

Lemma core_idx2_to : ~ In to tgs -> In to (objs_idx os2).
Proof using W Hd Hft HN Hkeep. clear Hfrom Hincl Hr. intros Hnt. destruct Hkeep as [Ht|[o [Ho [Hne Hx]]]]; [contradiction|].
  apply (core_survive o to Ho Hne); [intros E; apply core_neq; auto|].
  destruct Hx; auto. Qed.

Lemma core_idx2_other x : In x (objs_idx os) -> x <> from -> ~ In x tgs -> In x (objs_idx os2).
Proof using W Hd Hft HN Hkeep. clear Hfrom Hincl Hr. intros Hx Hxf Hxt. unfold objs_idx in Hx. apply in_flat_map in Hx. destruct Hx as [o [Ho Hxo]].
  destruct (is_delta o) as [[a b]|] eqn:E.
  - pose proof (is_delta_Some _ _ _ E) as ->.
    destruct (index_eq_dec a i) as [->|Ha]; [destruct (index_eq_dec b j) as [->|Hb]|].
    + (* x is on delta_{ij} itself: x = to *)
      assert (x = to).
      { unfold obj_idx in Hxo; simpl in Hxo. destruct Hft as [[-> ->]|[-> ->]]; destruct Hxo as [<-|[<-|[]]]; congruence. }
      subst x. apply core_idx2_to; exact Hxt.
    + apply (core_survive _ x Ho); [congruence|exact Hxf|left; exact Hxo].
    + apply (core_survive _ x Ho); [congruence|exact Hxf|left; exact Hxo].
  - apply (core_survive _ x Ho); [intros ->; discriminate|exact Hxf|left; exact Hxo]. Qed.

Lemma core_perm : Permutation (contracted tgs t) (contracted tgs t2 ++ [from]).
Proof using W Hd Hft Hfrom HN Hkeep. clear Hincl Hr. apply NoDup_Permutation.
  - apply contracted_NoDup'.
  - apply NoDup_app_intro_single; [apply contracted_NoDup'|].
    rewrite contracted_In. intros [H _]. unfold t2, term_idx in H; simpl in H.
    apply (mono_idx_objs _ _ core_wf2) in H. apply core_idx2_incl in H. tauto.
  - intros x. rewrite in_app_iff, !contracted_In. unfold t2 at 1, term_idx at 2; simpl tfacs.
    rewrite (mono_idx_objs _ _ core_wf2), core_term_idx. simpl. split.
    + intros [Hx Hxt]. destruct (index_eq_dec x from) as [->|Hxf]; [right; left; reflexivity|].
      left. split; [apply core_idx2_other; assumption|exact Hxt].
    + intros [[Hx Hxt]|[<-|[]]].
      * split; [apply core_idx2_incl; exact Hx|exact Hxt].
      * split; [apply core_from_idx|exact Hfrom]. Qed.

Lemma core_sound : eval_term tgs r t2 = eval_term tgs r t.
Proof using OM W Hd Hft Hfrom Hincl Hr HN Hkeep. symmetry. unfold Expr.eval_term at 1.
  rewrite (sum_over_perm S T (term_idx t) _ _ _ r (term_val_depends t) (contracted_NoDup' tgs t) core_perm).
  rewrite sum_over_app. unfold Expr.eval_term. apply sum_over_ext_in. intros r' H1 H2. simpl.
  assert (Hto : In (r' to) (irange to)).
  { destruct (in_dec index_eq_dec to tgs) as [Ht|Ht].
    - rewrite H2; [apply Hr; exact Ht|]. rewrite contracted_In; tauto.
    - apply H1. apply contracted_In. split; [|exact Ht].
      unfold t2, term_idx; simpl. apply (mono_idx_objs _ _ core_wf2). apply core_idx2_to; exact Ht. }
  rewrite (ksum_single (irange from) (r' to)).
  - unfold Expr.term_val, t, t2; simpl. f_equal.
    rewrite <- mono_val_subst, <- objs_facs_subst. fold os1. symmetry. apply norm_objs_val. exact HN.
  - unfold Expr.irange. apply (rng_nodup S T OM).
  - apply Hincl. exact Hto.
  - intros o _ Hne. apply core_kills. unfold upd. rewrite index_eqb_refl.
    assert (E : index_eqb to from = false) by (apply index_eqb_neq; intros E; apply core_neq; auto).
    rewrite E. exact Hne. Qed.

End Core.
(* ---------- hypotheses on the argument list ---------- *)
(* every contracted index on a delta also occurs on another object *)
Definition cov (tgs : list index) (os : list obj) : Prop :=
  forall i j x, In (ADelta i j, 1%Z) os -> (x = i \/ x = j) -> ~ In x tgs ->
    exists o, In o os /\ o <> (ADelta i j, 1%Z) /\ In x (obj_idx o).
(* the hypothesis of the property: every contracted index occurs on at least
   one object that is not a delta *)
Definition covered (tgs : list index) (os : list obj) : Prop :=
  forall x, In x (objs_idx os) -> ~ In x tgs ->
    exists o, In o os /\ is_delta o = None /\ In x (obj_idx o).
Lemma covered_cov tgs os : covered tgs os -> cov tgs os.
Proof. intros H i j x Hd Hx Hn.
  destruct (H x) as [o [H1 [H2 H3]]]; [|exact Hn|].
  - unfold objs_idx. apply in_flat_map. exists (ADelta i j, 1%Z). split; [exact Hd|].
    unfold obj_idx; simpl. destruct Hx as [->| ->]; auto.
  - exists o. split; [exact H1|]. split; [intros ->; discriminate|exact H3]. Qed.

Definition state_val (tgs : list index) (r : env) (st : state) : K S :=
  eval_term tgs r (state_term st).

(* what the loop body does when it acts *)
Lemma pass_action_facts tgp tgs st from to : wf_objs (sobjs st) -> incl tgs tgp ->
  first_action tgp (deltas_of (sobjs st)) = Some (from, to) ->
  exists i j, In (ADelta i j, 1%Z) (sobjs st) /\
    ((from = i /\ to = j) \/ (from = j /\ to = i)) /\ ~ In from tgs /\
    incl (irange to) (irange from).
Proof. intros W Hi E. destruct (first_action_spec _ _ _ E) as [[i j] [Hd Ha]].
  apply deltas_of_In in Hd. exists i, j. split; [exact Hd|].
  destruct (W _ Hd) as [_ Hk]. specialize (Hk i j eq_refl).
  destruct (delta_eval_keep _ _ Hk) as [_ [Halive _]].
  destruct (delta_action_spec _ _ _ _ _ Ha) as [pref [kill [Hp Hc]]].
  pose proof (pref_kill_info S T OM i j pref kill Halive Hp) as Hinfo.
  pose proof (pk_of_pair _ _ _ _ Hp) as Hpair.
  destruct Hc as [[-> [-> Hn]]|[-> [-> [Hk' [Hn Hei]]]]].
  - split; [destruct Hpair as [[-> ->]|[-> ->]]; auto|]. split; [intros H; apply Hn; apply Hi; exact H|exact Hinfo].
  - split; [destruct Hpair as [[-> ->]|[-> ->]]; auto|]. split; [intros H; apply Hn; apply Hi; exact H|].
    apply (equal_info_range S T) in Hei.
    destruct Hpair as [[-> ->]|[-> ->]]; unfold Expr.irange in *; rewrite Hei; apply incl_refl. Qed.

(* One pass preserves the value for every assignment of the targets. *)
Theorem pass_sound tgp tgs st r :
  wf_objs (sobjs st) -> incl tgs tgp -> cov tgs (sobjs st) -> inrange r tgs ->
  match pr_state (pass tgp st) with
  | Some st' => state_val tgs r st' = state_val tgs r st
  | None => state_val tgs r st = 0
  end.
Proof. intros W Hi Hc Hr. unfold pass.
  destruct (first_action tgp (deltas_of (sobjs st))) as [[from to]|] eqn:E; simpl; [|reflexivity].
  destruct (pass_action_facts _ _ _ _ _ W Hi E) as [i [j [Hd [Hft [Hfrom Hincl]]]]].
  unfold state_val, state_term.
  destruct (norm_objs (map (subst_obj from to) (sobjs st))) as [os2|] eqn:HN; simpl.
  - apply (core_sound (scoef st) (sobjs st) os2 i j from to tgs r W Hd Hft Hfrom Hincl Hr HN).
    destruct (in_dec index_eq_dec to tgs) as [Ht|Ht]; [left; exact Ht|right].
    destruct (Hc i j to Hd) as [o [H1 [H2 H3]]]; [destruct Hft as [[_ ->]|[_ ->]]; auto|exact Ht|].
    exists o. auto.
  - apply (core_zero (scoef st) (sobjs st) i j from to tgs r W Hd Hft Hr HN). Qed.

(* invariants of a pass *)
Lemma pass_wf tg st st' : wf_objs (sobjs st) -> pr_state (pass tg st) = Some st' -> wf_objs (sobjs st').
Proof. intros W. unfold pass.
  destruct (first_action tg (deltas_of (sobjs st))) as [[from to]|] eqn:E; simpl.
  - destruct (norm_objs (map (subst_obj from to) (sobjs st))) as [os2|] eqn:HN; simpl; [|discriminate].
    intros H; inversion H; subst; simpl. apply (core_wf2 (sobjs st) os2 from to W HN).
  - intros H; inversion H; subst; exact W. Qed.

Lemma pass_covered tgp tgs st st' : wf_objs (sobjs st) -> incl tgs tgp -> covered tgs (sobjs st) ->
  pr_state (pass tgp st) = Some st' -> covered tgs (sobjs st').
Proof. intros W Hi Hc. unfold pass.
  destruct (first_action tgp (deltas_of (sobjs st))) as [[from to]|] eqn:E; simpl.
  2:{ intros H; inversion H; subst; exact Hc. }
  destruct (pass_action_facts _ _ _ _ _ W Hi E) as [i [j [Hd [Hft [Hfrom Hincl]]]]].
  destruct (norm_objs (map (subst_obj from to) (sobjs st))) as [os2|] eqn:HN; simpl; [|discriminate].
  intros H; inversion H; subst; simpl. clear H. intros x Hx Hxt.
  destruct (core_idx2_incl (sobjs st) os2 i j from to W Hd Hft HN x Hx) as [Hx0 Hxf].
  assert (Hsurv : forall o y, In o (sobjs st) -> is_delta o = None -> In y (obj_idx o) ->
            exists o', In o' os2 /\ is_delta o' = None /\ In (sub1 from to y) (obj_idx o')).
  { intros o y Ho Hn Hy. exists (subst_obj from to o).
    assert (Hn' : is_delta (subst_obj from to o) = None) by (rewrite is_delta_subst, Hn; reflexivity).
    split; [|split; [exact Hn'|]].
    - pose proof (norm_objs_In _ _ _ HN (in_map (subst_obj from to) _ _ Ho)) as Hk.
      rewrite Hn' in Hk. exact Hk.
    - rewrite obj_idx_subst. apply in_map. exact Hy. }
  destruct (index_eq_dec x to) as [->|Hxto].
  - destruct (Hc from) as [o [H1 [H2 H3]]];
      [apply (core_from_idx (sobjs st) i j from to Hd Hft)|exact Hfrom|].
    destruct (Hsurv o from H1 H2 H3) as [o' [Ho' [Hn' Hin']]]. rewrite sub1_hit in Hin'.
    exists o'. auto.
  - destruct (Hc x Hx0 Hxt) as [o [H1 [H2 H3]]].
    destruct (Hsurv o x H1 H2 H3) as [o' [Ho' [Hn' Hin']]]. rewrite (sub1_other _ _ _ Hxf) in Hin'.
    exists o'. auto. Qed.

(* ---------- the whole recursion ---------- *)
(* what may happen between two passes (sympy rebuilds and re-orders the
   product): any step that keeps the invariants and the value *)
Definition good_step (tgs : list index) (f : state -> state) : Prop :=
  forall st, wf_objs (sobjs st) -> covered tgs (sobjs st) ->
    wf_objs (sobjs (f st)) /\ covered tgs (sobjs (f st)) /\
    forall r, inrange r tgs -> state_val tgs r (f st) = state_val tgs r st.

Theorem eval_deltas_sound fuel reorder tgp tgs r : good_step tgs reorder -> incl tgs tgp -> inrange r tgs ->
  forall st, wf_objs (sobjs st) -> covered tgs (sobjs st) ->
  match eval_deltas fuel reorder tgp st with
  | OutOfFuel => True
  | Zero => state_val tgs r st = 0
  | Done st' => state_val tgs r st' = state_val tgs r st
  end.
Proof. intros G Hi Hr. induction fuel as [|f IH]; intros st W Hc; simpl; [exact I|].
  pose proof (pass_sound tgp tgs st r W Hi (covered_cov _ _ Hc) Hr) as Hp.
  destruct (pr_state (pass tgp st)) as [st'|] eqn:E; [|exact Hp].
  destruct (pr_recurse (pass tgp st)); [|exact Hp].
  pose proof (pass_wf _ _ _ W E) as W'. pose proof (pass_covered _ _ _ _ W Hi Hc E) as Hc'.
  destruct (G st' W' Hc') as [W2 [Hc2 Hv]].
  destruct (is_mul (reorder st')); [|rewrite (Hv r Hr); exact Hp].
  specialize (IH (reorder st') W2 Hc2).
  destruct (eval_deltas f reorder tgp (reorder st')) as [| |st2]; [exact I| |].
  - rewrite <- Hp, <- (Hv r Hr). exact IH.
  - rewrite IH, (Hv r Hr). exact Hp. Qed.

(* a product that is not a Mul any more: under the coverage hypothesis a lone
   delta carries two target indices and is stuck *)
Lemma lone_terminal tgp tgs st : incl tgs tgp -> covered tgs (sobjs st) -> is_mul st = false ->
  terminal tgp st.
Proof. intros Hi Hc Hm [i j] Hd. apply deltas_of_In in Hd.
  unfold is_mul in Hm. destruct (sobjs st) as [|o [|o2 os]] eqn:Eo; [destruct Hd| |discriminate].
  destruct Hd as [->|[]].
  assert (Hin : forall x, x = i \/ x = j -> In x tgp).
  { intros x Hx. destruct (in_dec index_eq_dec x tgs) as [Ht|Ht]; [apply Hi; exact Ht|].
    destruct (Hc x) as [o [[<-|[]] [Hn _]]]; [|exact Ht|discriminate Hn].
    unfold objs_idx, obj_idx; simpl. destruct Hx as [->| ->]; auto. }
  unfold stuck. destruct (pk_of i j) as [[pref kill]|] eqn:Ep; [|left; reflexivity].
  right. exists pref, kill. split; [reflexivity|].
  destruct (pk_of_pair _ _ _ _ Ep) as [[-> ->]|[-> ->]]; split; try left; apply Hin; auto. Qed.

(* re-ordering the arguments is such a step *)
Lemma objs_idx_perm os os' x : Permutation os os' -> In x (objs_idx os) -> In x (objs_idx os').
Proof. intros P. unfold objs_idx. rewrite !in_flat_map. intros [o [H1 H2]]. exists o.
  split; [eapply Permutation_in; eauto|exact H2]. Qed.

Lemma eval_term_perm tgs r c fs fs' : Permutation fs fs' ->
  eval_term tgs r (Term c fs) = eval_term tgs r (Term c fs').
Proof. intros P. unfold Expr.eval_term.
  assert (Hidx : forall x, In x (mono_idx fs) <-> In x (mono_idx fs')).
  { intros x. unfold mono_idx. rewrite !in_flat_map. split; intros [f [H1 H2]]; exists f;
      (split; [eapply Permutation_in; [|exact H1]; auto using Permutation_sym|exact H2]). }
  assert (PC : Permutation (contracted tgs (Term c fs)) (contracted tgs (Term c fs'))).
  { apply NoDup_Permutation; try apply contracted_NoDup'. intros x. rewrite !contracted_In.
    unfold term_idx; simpl. rewrite Hidx. tauto. }
  rewrite (sum_over_perm S T (term_idx (Term c fs)) _ _ _ r (term_val_depends _) (contracted_NoDup' _ _) PC).
  apply sum_over_ext. intros r'. unfold Expr.term_val; simpl. f_equal.
  unfold Expr.mono_val. apply kprod_perm. apply Permutation_map. exact P. Qed.

Lemma objs_facs_perm os os' : Permutation os os' -> Permutation (objs_facs os) (objs_facs os').
Proof. unfold objs_facs. induction 1; simpl.
  - constructor.
  - apply Permutation_app_head. assumption.
  - rewrite !app_assoc. apply Permutation_app_tail. apply Permutation_app_comm.
  - etransitivity; eauto. Qed.

Lemma perm_good_step tgs f :
  (forall st, scoef (f st) = scoef st /\ Permutation (sobjs (f st)) (sobjs st)) -> good_step tgs f.
Proof. intros H st W Hc. destruct (H st) as [Hq P]. split; [|split].
  - intros o Ho. apply W. eapply Permutation_in; eauto.
  - intros x Hx Hxt. destruct (Hc x (objs_idx_perm _ _ x P Hx) Hxt) as [o [H1 H2]].
    exists o. split; [eapply Permutation_in; [apply Permutation_sym; exact P|exact H1]|exact H2].
  - intros r _. unfold state_val, state_term. rewrite Hq. apply eval_term_perm.
    apply objs_facs_perm. exact P. Qed.

End Value.

(* ====================================================================== *)
(* Termination and terminal states (no tensor model needed)               *)
(* ====================================================================== *)
Lemma deltas_of_cons o os : deltas_of (o :: os) =
  match is_delta o with Some d => [d] | None => [] end ++ deltas_of os.
Proof. reflexivity. Qed.

Lemma norm_no_deltas a b os : deltas_of os = [] ->
  norm_objs (map (subst_obj a b) os) = Some (map (subst_obj a b) os) /\
  deltas_of (map (subst_obj a b) os) = [].
Proof. induction os as [|o os IH]; [simpl; auto|]. rewrite deltas_of_cons.
  destruct (is_delta o) as [d|] eqn:E; [discriminate|]. intros H. simpl in H.
  destruct (IH H) as [H1 H2].
  assert (E' : is_delta (subst_obj a b o) = None) by (rewrite is_delta_subst, E; reflexivity).
  cbn [map norm_objs]. rewrite E', H1. split; [reflexivity|].
  rewrite deltas_of_cons, E', H2. reflexivity. Qed.

Lemma norm_single_delta a b i j os os2 : deltas_of os = [(i, j)] -> sub1 a b i = sub1 a b j ->
  norm_objs (map (subst_obj a b) os) = Some os2 -> deltas_of os2 = [].
Proof. revert os2. induction os as [|o os IH]; intros os2 Hd Hs HN; [discriminate|].
  rewrite deltas_of_cons in Hd. cbn [map norm_objs] in HN. rewrite is_delta_subst in HN.
  destruct (is_delta o) as [[i' j']|] eqn:E; simpl in Hd.
  - inversion Hd as [[Hi Hj Hr]]. subst i' j'.
    unfold delta_eval in HN. rewrite Hs, index_eqb_refl in HN.
    destruct (norm_no_deltas a b os Hr) as [H1 H2]. rewrite H1 in HN. injection HN as <-. rewrite H2. congruence.
  - destruct (norm_objs (map (subst_obj a b) os)) as [r2|]; simpl in HN; [|discriminate].
    inversion HN; subst. rewrite deltas_of_cons.
    assert (E' : is_delta (subst_obj a b o) = None) by (rewrite is_delta_subst, E; reflexivity).
    rewrite E'. simpl. apply (IH r2 Hd Hs eq_refl). Qed.

Lemma pass_terminal tg st st' : pr_recurse (pass tg st) = false ->
  pr_state (pass tg st) = Some st' -> terminal tg st'.
Proof. unfold pass.
  destruct (first_action tg (deltas_of (sobjs st))) as [[from to]|] eqn:E; simpl.
  - intros Hl. destruct (first_action_spec _ _ _ E) as [[i j] [Hd Ha]].
    destruct (deltas_of (sobjs st)) as [|d [|d2 ds]] eqn:Eds; [destruct Hd| |simpl in Hl; discriminate].
    destruct Hd as [->|[]].
    destruct (norm_objs (map (subst_obj from to) (sobjs st))) as [os2|] eqn:HN; simpl; [|discriminate].
    intros H; inversion H; subst; simpl.
    assert (Hs : sub1 from to i = sub1 from to j).
    { destruct (delta_action_spec _ _ _ _ _ Ha) as [pref [kill [Hp Hc]]].
      apply pk_of_pair in Hp.
      assert (Hft : (from = i /\ to = j) \/ (from = j /\ to = i))
        by (destruct Hc as [[-> [-> _]]|[-> [-> _]]]; destruct Hp as [[-> ->]|[-> ->]]; auto).
      destruct Hft as [[-> ->]|[-> ->]].
      - rewrite sub1_hit. destruct (sub1_cases i j j) as [[_ ->]|[_ ->]]; reflexivity.
      - rewrite sub1_hit. destruct (sub1_cases j i i) as [[_ ->]|[_ ->]]; reflexivity. }
    intros d Hdd. simpl in Hdd. rewrite (norm_single_delta _ _ _ _ _ _ Eds Hs HN) in Hdd. destruct Hdd.
  - intros _ H; inversion H; subst. intros d Hd.
    apply delta_action_stuck. eapply first_action_None; eauto. Qed.

(* every delta in the returned product is stuck: it has no preferred index,
   or evaluating it would remove a target index or lose information - unless
   the product collapsed to a single object, which evaluate_deltas returns as
   it is (a lone delta is not a Mul) *)
Theorem eval_deltas_terminal fuel reorder tg st st' :
  eval_deltas fuel reorder tg st = Done st' -> terminal tg st' \/ is_mul st' = false.
Proof. revert st. induction fuel as [|f IH]; intros st; simpl; [discriminate|].
  destruct (pr_state (pass tg st)) as [s1|] eqn:E; [|discriminate].
  destruct (pr_recurse (pass tg st)) eqn:Er.
  - destruct (is_mul (reorder s1)) eqn:Em; [apply IH|].
    intros H; inversion H; subst. right; exact Em.
  - intros H; inversion H; subst. left. eapply pass_terminal; eauto. Qed.

Lemma terminalb_terminal tg st : terminalb tg st = true -> terminal tg st.
Proof. unfold terminalb. destruct (first_action tg (deltas_of (sobjs st))) eqn:E; [discriminate|].
  intros _ d Hd. apply delta_action_stuck. eapply first_action_None; eauto. Qed.

(* the number of deltas decreases with every pass that recurses *)
Lemma deltas_of_subst_length a b os : length (deltas_of (map (subst_obj a b) os)) = length (deltas_of os).
Proof. induction os as [|o os IH]; [reflexivity|]. cbn [map]. rewrite !deltas_of_cons, !app_length, IH.
  rewrite is_delta_subst. destruct (is_delta o) as [[i j]|]; reflexivity. Qed.
Lemma norm_length os os2 : norm_objs os = Some os2 -> (length (deltas_of os2) <= length (deltas_of os))%nat.
Proof. revert os2. induction os as [|o os IH]; intros os2 H; [inversion H; simpl; lia|].
  cbn [norm_objs] in H. rewrite deltas_of_cons, app_length.
  destruct (is_delta o) as [[i j]|] eqn:E.
  - destruct (delta_eval i j) as [| |a b]; [discriminate|specialize (IH _ H); simpl; lia|].
    destruct (norm_objs os) as [r2|]; simpl in H; [|discriminate]. inversion H; subst.
    rewrite deltas_of_cons, app_length. simpl. specialize (IH r2 eq_refl). lia.
  - destruct (norm_objs os) as [r2|]; simpl in H; [|discriminate]. inversion H; subst.
    rewrite deltas_of_cons, app_length, E. simpl. specialize (IH r2 eq_refl). lia. Qed.
Lemma norm_length_one os os2 x : norm_objs os = Some os2 -> In (ADelta x x, 1%Z) os ->
  (length (deltas_of os2) < length (deltas_of os))%nat.
Proof. revert os2. induction os as [|o os IH]; intros os2 H Hin; [destruct Hin|].
  cbn [norm_objs] in H. rewrite deltas_of_cons, app_length. destruct Hin as [->|Hin].
  - rewrite is_delta_delta in *. unfold delta_eval in H. rewrite index_eqb_refl in H.
    pose proof (norm_length _ _ H). simpl. lia.
  - destruct (is_delta o) as [[i j]|] eqn:E.
    + destruct (delta_eval i j) as [| |a b]; [discriminate|specialize (IH _ H Hin); simpl; lia|].
      destruct (norm_objs os) as [r2|]; simpl in H; [|discriminate]. inversion H; subst.
      rewrite deltas_of_cons, app_length. simpl. specialize (IH r2 eq_refl Hin). lia.
    + destruct (norm_objs os) as [r2|]; simpl in H; [|discriminate]. inversion H; subst.
      rewrite deltas_of_cons, app_length, E. simpl. specialize (IH r2 eq_refl Hin). lia. Qed.

Lemma pass_decreases tg st st' : pr_recurse (pass tg st) = true -> pr_state (pass tg st) = Some st' ->
  (length (deltas_of (sobjs st')) < length (deltas_of (sobjs st)))%nat.
Proof. unfold pass.
  destruct (first_action tg (deltas_of (sobjs st))) as [[from to]|] eqn:E; simpl; [|discriminate].
  intros _. destruct (first_action_spec _ _ _ E) as [[i j] [Hd Ha]]. apply deltas_of_In in Hd.
  destruct (norm_objs (map (subst_obj from to) (sobjs st))) as [os2|] eqn:HN; simpl; [|discriminate].
  intros H; inversion H; subst; simpl.
  rewrite <- (deltas_of_subst_length from to (sobjs st)).
  apply (norm_length_one _ _ to HN).
  apply (in_map (subst_obj from to)) in Hd. unfold subst_obj in Hd; simpl in Hd.
  destruct (delta_action_spec _ _ _ _ _ Ha) as [pref [kill [Hp Hc]]]. apply pk_of_pair in Hp.
  assert (Hft : (from = i /\ to = j) \/ (from = j /\ to = i))
    by (destruct Hc as [[-> [-> _]]|[-> [-> _]]]; destruct Hp as [[-> ->]|[-> ->]]; auto).
  destruct Hft as [[-> ->]|[-> ->]]; rewrite sub1_hit in Hd.
  - destruct (sub1_cases i j j) as [[_ Es]|[_ Es]]; rewrite Es in Hd; exact Hd.
  - destruct (sub1_cases j i i) as [[_ Es]|[_ Es]]; rewrite Es in Hd; exact Hd. Qed.

(* fuel > number of deltas is enough, for any step between passes that does
   not create deltas *)
Theorem eval_deltas_fuel reorder tg :
  (forall st, (length (deltas_of (sobjs (reorder st))) <= length (deltas_of (sobjs st)))%nat) ->
  forall fuel st, (length (deltas_of (sobjs st)) < fuel)%nat -> eval_deltas fuel reorder tg st <> OutOfFuel.
Proof. intros Hr. induction fuel as [|f IH]; intros st Hl; [lia|]. simpl.
  destruct (pr_state (pass tg st)) as [st'|] eqn:E; [|discriminate].
  destruct (pr_recurse (pass tg st)) eqn:Er; [|discriminate].
  destruct (is_mul (reorder st')); [|discriminate].
  apply IH. pose proof (pass_decreases _ _ _ Er E). specialize (Hr st'). lia. Qed.

(* ====================================================================== *)
(* Target indices determined by counting                                  *)
(* ====================================================================== *)
Lemma icount_app x l1 l2 : icount x (l1 ++ l2) = (icount x l1 + icount x l2)%nat.
Proof. induction l1 as [|y l1 IH]; simpl; [reflexivity|]. rewrite IH. lia. Qed.
Lemma icount_pos x l : (0 < icount x l)%nat <-> In x l.
Proof. induction l as [|y l IH]; simpl; [split; [lia|tauto]|].
  destruct (index_eqb x y) eqn:E.
  - apply index_eqb_eq in E; subst. split; [auto|lia].
  - apply index_eqb_neq in E. rewrite <- IH. split; [intros H; right; lia|intros [H|H]; [congruence|lia]]. Qed.
Lemma icount_nodup x l : NoDup l -> (icount x l <= 1)%nat.
Proof. induction 1 as [|y l Hn Hnd IH]; simpl; [lia|].
  destruct (index_eqb x y) eqn:E; [|lia]. apply index_eqb_eq in E; subst.
  assert (icount y l = 0)%nat; [|lia].
  destruct (icount y l) eqn:Ec; [reflexivity|]. exfalso; apply Hn. apply icount_pos. lia. Qed.
Lemma icount_inodup x l : icount x (inodup l) = if imem x l then 1%nat else 0%nat.
Proof. pose proof (icount_nodup x _ (inodup_NoDup l)) as H1.
  pose proof (icount_pos x (inodup l)) as H2. rewrite inodup_In in H2.
  destruct (imem x l) eqn:E.
  - apply imem_In in E. apply H2 in E. lia.
  - apply imem_nIn in E. destruct (icount x (inodup l)) eqn:Ec; [reflexivity|].
    exfalso; apply E; apply H2; lia. Qed.
Lemma icount_repeat x f n : icount x (mono_idx (repeat f n)) = (n * icount x (fac_idx f))%nat.
Proof. induction n as [|n IH]; simpl; [reflexivity|].
  unfold mono_idx in *. simpl. rewrite icount_app, IH. reflexivity. Qed.

(* an index that occurs exactly once in the product occurs on exactly one object *)
Lemma mono_idx_objs_cons o os : mono_idx (objs_facs (o :: os)) = mono_idx (obj_facs o) ++ mono_idx (objs_facs os).
Proof. unfold mono_idx, objs_facs. simpl. apply flat_map_app. Qed.
Lemma counts_compare x os : (forall o, In o os -> snd o <> 0%Z) ->
  (icount x (atoms_per_obj os) <= icount x (mono_idx (objs_facs os)))%nat /\
  ((0 < icount x (mono_idx (objs_facs os)))%nat -> (0 < icount x (atoms_per_obj os))%nat).
Proof. induction os as [|o os IH]; intros W; [simpl; lia|].
  destruct IH as [IH1 IH2]; [intros o' Ho'; apply W; right; exact Ho'|].
  rewrite mono_idx_objs_cons. change (atoms_per_obj (o :: os)) with (inodup (obj_idx o) ++ atoms_per_obj os).
  rewrite !icount_app. unfold obj_facs. rewrite icount_repeat, icount_inodup.
  change (fac_idx (fst o, (snd o <? 0)%Z)) with (obj_idx o).
  assert (Hz : (Z.abs_nat (snd o) <> 0)%nat) by (specialize (W o (or_introl eq_refl)); lia).
  destruct (imem x (obj_idx o)) eqn:E.
  - apply imem_In, icount_pos in E.
    pose proof (Nat.mul_le_mono 1 (Z.abs_nat (snd o)) 1 (icount x (obj_idx o))) as Hm.
    split; lia.
  - apply imem_nIn in E. assert (icount x (obj_idx o) = 0)%nat.
    { destruct (icount x (obj_idx o)) eqn:Ec; [reflexivity|]. exfalso; apply E; apply icount_pos; lia. }
    rewrite H. split; [lia|]. intros Hp. apply IH2. lia. Qed.

(* the targets of the summation convention are among the targets found by
   counting objects (evaluate_deltas with target_idx=None) *)
Theorem einstein_targets_counted os : (forall o, In o os -> snd o <> 0%Z) ->
  incl (einstein_targets os) (targets_by_count os).
Proof. intros W x. unfold einstein_targets, targets_by_count. rewrite !filter_In, !inodup_In.
  intros [Hx Hc]. apply Nat.eqb_eq in Hc.
  destruct (counts_compare x os W) as [H1 H2].
  assert (Hp : (0 < icount x (atoms_per_obj os))%nat) by (apply H2; lia).
  split; [apply icount_pos; exact Hp|apply Nat.eqb_eq; lia]. Qed.

(* ---------- the first call without target indices ---------- *)
Section Counted.
Variable S : Scalar.
Variable T : tmodel S.
Hypothesis OM : orbital_model S T.

Lemma wf_objs_exponents os : wf_objs os -> forall o, In o os -> snd o <> 0%Z.
Proof. intros W o Ho. apply (W o Ho). Qed.

Theorem pass_counted_sound st r :
  let tgs := einstein_targets (sobjs st) in
  wf_objs (sobjs st) -> cov tgs (sobjs st) -> inrange S T r tgs ->
  match pr_state (pass_counted st) with
  | Some st' => state_val S T tgs r st' = state_val S T tgs r st
  | None => state_val S T tgs r st = k0 S
  end.
Proof. intros tgs W Hc Hr. unfold pass_counted.
  apply (pass_sound S T OM); auto. apply einstein_targets_counted. apply wf_objs_exponents; exact W. Qed.

Theorem eval_deltas_counted_sound fuel reorder st r :
  let tgs := einstein_targets (sobjs st) in
  good_step S T tgs reorder -> inrange S T r tgs ->
  wf_objs (sobjs st) -> covered tgs (sobjs st) ->
  match eval_deltas fuel reorder (targets_by_count (sobjs st)) st with
  | OutOfFuel => True
  | Zero => state_val S T tgs r st = k0 S
  | Done st' => state_val S T tgs r st' = state_val S T tgs r st
  end.
Proof. intros tgs G Hr W Hc.
  apply (eval_deltas_sound S T OM); auto. apply einstein_targets_counted. apply wf_objs_exponents; exact W. Qed.

(* under the hypothesis of the property every delta that is left is stuck *)
Theorem eval_deltas_terminal_covered fuel reorder tgp tgs :
  good_step S T tgs reorder -> incl tgs tgp ->
  forall st st', wf_objs (sobjs st) -> covered tgs (sobjs st) ->
  eval_deltas fuel reorder tgp st = Done st' -> terminal tgp st'.
Proof. intros G Hi. induction fuel as [|f IH]; intros st st' W Hc; simpl; [discriminate|].
  destruct (pr_state (pass tgp st)) as [s1|] eqn:E; [|discriminate].
  destruct (pr_recurse (pass tgp st)) eqn:Er.
  - pose proof (pass_wf _ _ _ W E) as W'.
    pose proof (pass_covered S T OM _ _ _ _ W Hi Hc E) as Hc'.
    destruct (G s1 W' Hc') as [W2 [Hc2 _]].
    destruct (is_mul (reorder s1)) eqn:Em; [apply IH; assumption|].
    intros H; inversion H; subst. apply (lone_terminal tgp tgs); assumption.
  - intros H; inversion H; subst. eapply pass_terminal; eauto. Qed.
End Counted.

(* ---------- the decidable hypotheses ---------- *)
Lemma wf_objsb_ok os : wf_objsb os = true -> wf_objs os.
Proof. unfold wf_objsb. rewrite forallb_forall. intros H o Ho. specialize (H o Ho).
  unfold wf_objb in H. apply andb_true_iff in H. destruct H as [H1 H2].
  split; [apply negb_true_iff, Z.eqb_neq in H1; exact H1|].
  intros i j E. rewrite E in H2. destruct (delta_eval i j) as [| |a b]; try discriminate.
  apply andb_true_iff in H2. destruct H2 as [Ha Hb]. apply index_eqb_eq in Ha, Hb. subst. reflexivity. Qed.
Lemma coveredb_ok tgs os : coveredb tgs os = true -> covered tgs os.
Proof. unfold coveredb. rewrite forallb_forall. intros H x Hx Hn. specialize (H x Hx).
  apply orb_true_iff in H. destruct H as [H|H]; [apply imem_In in H; contradiction|].
  apply existsb_exists in H. destruct H as [o [Ho Hc]]. exists o. split; [exact Ho|].
  destruct (is_delta o); [discriminate|]. split; [reflexivity|apply imem_In; exact Hc]. Qed.

(* ====================================================================== *)
(* Certificate for an observed call tree                                  *)
(* ====================================================================== *)
Lemma obj_eqb_eq a b : obj_eqb a b = true -> a = b.
Proof. destruct a as [a1 z1], b as [b1 z2]. unfold obj_eqb; simpl. rewrite andb_true_iff.
  intros [H1 H2]. apply atom_eqb_eq in H1. apply Z.eqb_eq in H2. subst; reflexivity. Qed.

Lemma obj_facs_incl o os x : In o os -> In x (mono_idx (obj_facs o)) -> In x (mono_idx (objs_facs os)).
Proof. intros Ho. unfold mono_idx, objs_facs. rewrite !in_flat_map. intros [f [Hf Hx]].
  exists f. split; [apply in_flat_map; exists o; auto|exact Hx]. Qed.

Lemma dd_objs_idx os x : In x (mono_idx (objs_facs (dd_objs os))) <-> In x (mono_idx (objs_facs os)).
Proof. induction os as [|o os IH]; [tauto|]. cbn [dd_objs].
  assert (Hc : In x (mono_idx (objs_facs (o :: dd_objs os))) <-> In x (mono_idx (objs_facs (o :: os)))).
  { rewrite !mono_idx_objs_cons, !in_app_iff, IH. tauto. }
  destruct (is_delta o) as [d|]; [|exact Hc].
  destruct (existsb (obj_eqb o) (dd_objs os)) eqn:E; [|exact Hc].
  apply existsb_exists in E. destruct E as [o' [Ho' Heq]]. apply obj_eqb_eq in Heq. subst o'.
  rewrite mono_idx_objs_cons, in_app_iff, <- IH. split; [auto|].
  intros [H|H]; [apply (obj_facs_incl o); assumption|exact H]. Qed.

Section Trace.
Variable S : Scalar.
Variable T : tmodel S.
Hypothesis OM : orbital_model S T.
Hypothesis R : respects S T.
Notation "0" := (k0 S). Notation "1" := (k1 S).
Infix "+" := (kadd S). Infix "*" := (kmul S).
Add Ring KRt : (Kring S).

Lemma delta_idem r i j fs : In (ADelta i j, false) fs ->
  delta_val S r i j * mono_val S T r fs = mono_val S T r fs.
Proof. induction fs as [|f fs IH]; intros Hin; [destruct Hin|].
  rewrite (mono_val_cons S T). destruct Hin as [->|Hin].
  - unfold fac_val; simpl. unfold delta_val. destruct (Nat.eqb (r i) (r j)); ring.
  - rewrite <- (IH Hin) at 2. ring. Qed.

Lemma dd_objs_val r os : mono_val S T r (objs_facs (dd_objs os)) = mono_val S T r (objs_facs os).
Proof. induction os as [|o os IH]; [reflexivity|]. cbn [dd_objs].
  assert (Hc : mono_val S T r (objs_facs (o :: dd_objs os)) = mono_val S T r (objs_facs (o :: os))).
  { change (objs_facs (o :: dd_objs os)) with (obj_facs o ++ objs_facs (dd_objs os)).
    change (objs_facs (o :: os)) with (obj_facs o ++ objs_facs os).
    rewrite !(mono_val_app S T), IH. reflexivity. }
  destruct (is_delta o) as [[i j]|] eqn:Ed; [|exact Hc].
  destruct (existsb (obj_eqb o) (dd_objs os)) eqn:E; [|exact Hc].
  apply existsb_exists in E. destruct E as [o' [Ho' Heq]]. apply obj_eqb_eq in Heq. subst o'.
  apply is_delta_Some in Ed. subst o.
  change (objs_facs ((ADelta i j, 1%Z) :: os)) with ((ADelta i j, false) :: objs_facs os).
  rewrite (mono_val_cons S T), <- IH. unfold fac_val; simpl. symmetry.
  apply delta_idem. apply delta_in_facs. exact Ho'. Qed.

Lemma eval_term_same tgs r c fs fs' :
  (forall x, In x (mono_idx fs) <-> In x (mono_idx fs')) ->
  (forall r', mono_val S T r' fs = mono_val S T r' fs') ->
  eval_term S T tgs r (Term c fs) = eval_term S T tgs r (Term c fs').
Proof. intros Hidx Hv. unfold eval_term.
  assert (PC : Permutation (contracted tgs (Term c fs)) (contracted tgs (Term c fs'))).
  { apply NoDup_Permutation; try apply contracted_NoDup'. intros x. rewrite !contracted_In.
    unfold term_idx; simpl. rewrite Hidx. tauto. }
  rewrite (sum_over_perm S T (term_idx (Term c fs)) _ _ _ r (term_val_depends S T _) (contracted_NoDup' _ _) PC).
  apply sum_over_ext. intros r'. unfold term_val; simpl. rewrite Hv. reflexivity. Qed.

Lemma dd_val tgs r st : state_val S T tgs r st = eval_term S T tgs r (dd_term st).
Proof. unfold state_val, state_term, dd_term. apply eval_term_same.
  - intros x. symmetry. apply dd_objs_idx.
  - intros r'. symmetry. apply dd_objs_val. Qed.

Definition oval (tgs : list index) (r : env) (o : option state) : K S :=
  match o with Some s => state_val S T tgs r s | None => 0 end.

(* ---------- tensors that the constructors evaluate to 0 have value 0 ---------- *)
Lemma two_half : ofQ S (1 # 2) * (1 + 1) = 1.
Proof. transitivity (ofQ S ((1 # 2) * (1 + 1))%Q).
  - rewrite ofQ_mul, ofQ_add, ofQ_1. reflexivity.
  - rewrite <- (ofQ_1 S). apply ofQ_eq. reflexivity. Qed.
Lemma half_zero x : x = kopp S x -> x = 0.
Proof. intros H. assert (H2 : x + x = 0) by (rewrite H at 1; ring).
  transitivity (ofQ S (1 # 2) * (1 + 1) * x); [rewrite two_half; ring|].
  transitivity (ofQ S (1 # 2) * (x + x)); [ring|rewrite H2; ring]. Qed.

Lemma adj_sym_dup (g : list index -> K S) : adj_sym S true g ->
  forall mid pre a post, g (pre ++ a :: mid ++ a :: post) = 0.
Proof. intros Hg. induction mid as [|b mid IH]; intros pre a post; simpl.
  - apply half_zero. pose proof (Hg pre a a post) as H. simpl in H.
    transitivity (kopp S 1 * g (pre ++ a :: a :: post)); [exact H|ring].
  - rewrite (Hg pre a b (mid ++ a :: post)).
    replace (pre ++ b :: a :: mid ++ a :: post) with ((pre ++ [b]) ++ a :: mid ++ a :: post)
      by (rewrite <- app_assoc; reflexivity).
    rewrite IH. ring. Qed.

Lemma has_dup_split l : has_dup l = true -> exists pre a mid post, l = pre ++ a :: mid ++ a :: post.
Proof. induction l as [|a l IH]; simpl; [discriminate|]. rewrite orb_true_iff. intros [H|H].
  - apply imem_In in H. apply in_split in H. destruct H as [l1 [l2 ->]]. exists [], a, l1, l2. reflexivity.
  - destruct (IH H) as [pre [b [mid [post ->]]]]. exists (a :: pre), b, mid, post. reflexivity. Qed.

Lemma tens_pauli_zero_val r t : tens_pauli_zero t = true -> tens_val S T r t = 0.
Proof. unfold tens_pauli_zero. destruct t as [k n bks u l]; simpl.
  destruct (inner_sym k) as [[|]|] eqn:Ek; try discriminate.
  rewrite orb_true_iff. unfold tens_val; simpl.
  intros [H|H]; apply has_dup_split in H; destruct H as [pre [a [mid [post ->]]]].
  - apply (adj_sym_dup (fun x => tv T k n bks (map r x) (map r l))).
    intros l1 x y l2. rewrite !map_app; simpl. apply (resp_upper S T R k n bks true Ek).
  - apply (adj_sym_dup (fun x => tv T k n bks (map r u) (map r x))).
    intros l1 x y l2. rewrite !map_app; simpl. apply (resp_lower S T R k n bks true Ek). Qed.

Lemma tens_diag_zero_val r t : tens_diag_zero t = true -> tens_val S T r t = 0.
Proof. unfold tens_diag_zero. intros H. rewrite (canon_tens_sound S T R r t).
  unfold canon_tens. destruct t as [k n bks u l]; simpl in *.
  destruct (inner_sym k) as [[|]|] eqn:Ek; try discriminate.
  destruct (sort_par u) as [pu u'], (sort_par l) as [pl l']. simpl in H.
  apply andb_true_iff in H. destruct H as [Hb He]. apply Z.eqb_eq in Hb. apply idxl_eqb_eq in He. subst.
  assert (Hz : tv T k n (-1)%Z (map r l') (map r l') = 0).
  { apply half_zero. apply (resp_bk_anti S T R k n); [congruence|reflexivity]. }
  destruct ((((-1 =? 1)%Z || (-1 =? -1)%Z) && Nat.eqb (length l') (length l') &&
            lex_ltb (keys_of l') (keys_of l'))%bool); simpl; unfold tens_val; simpl; rewrite Hz; ring. Qed.

Lemma tens_zero_val r t : tens_zero t = true -> tens_val S T r t = 0.
Proof. unfold tens_zero. rewrite orb_true_iff. intros [H|H]; [apply tens_pauli_zero_val|apply tens_diag_zero_val]; exact H. Qed.

Lemma fac_zero_kills r fs : existsb fac_zero fs = true -> mono_val S T r fs = 0.
Proof. induction fs as [|f fs IH]; simpl; [discriminate|]. rewrite (mono_val_cons S T), orb_true_iff.
  intros [H|H].
  - destruct f as [[t| | | |] [|]]; simpl in H; try discriminate.
    unfold fac_val; simpl. rewrite (tens_zero_val r t H). ring.
  - rewrite (IH H). ring. Qed.

Lemma zero_state_val tgs r x : existsb fac_zero (objs_facs (sobjs x)) = true -> state_val S T tgs r x = 0.
Proof. intros H. unfold state_val, eval_term.
  rewrite (sum_over_ext S T _ _ (fun _ => 0)); [apply sum_over_zero|].
  intros r'. unfold term_val, state_term; simpl. rewrite (fac_zero_kills r' _ H). ring. Qed.

Lemma same_val_sound tgs r a b : same_val tgs a b = true -> oval tgs r a = oval tgs r b.
Proof. destruct a as [x|], b as [y|]; cbn [same_val oval]; try discriminate; [| |reflexivity].
  - pose proof (term_key_val S T R tgs r (dd_term x)) as Hx.
    pose proof (term_key_val S T R tgs r (dd_term y)) as Hy.
    destruct (term_key tgs (dd_term x)) as [kx qx], (term_key tgs (dd_term y)) as [ky qy].
    cbn [fst snd] in Hx, Hy. rewrite andb_true_iff. intros [Hk Hq].
    apply key_eqb_eq in Hk. apply Qeq_bool_eq in Hq. subst ky.
    rewrite !dd_val, Hx, Hy, (ofQ_eq S _ _ Hq). reflexivity.
  - apply zero_state_val. Qed.

(* every accepted trace has the value of its first product, in every tensor
   model that respects the declared tensor symmetries *)
Theorem check_trace_sound tgp tgs r : incl tgs tgp -> inrange S T r tgs ->
  forall obs st, check_trace tgp tgs st obs = true ->
  state_val S T tgs r st = oval tgs r (last obs None).
Proof. intros Hi Hr. induction obs as [|o rest IH]; intros st H; [discriminate|].
  cbn [check_trace] in H. rewrite !andb_true_iff in H. destruct H as [[[Hw Hc] Hs] Hrest].
  apply wf_objsb_ok in Hw. apply coveredb_ok in Hc.
  pose proof (pass_sound S T OM tgp tgs st r Hw Hi (covered_cov _ _ Hc) Hr) as Hp.
  pose proof (same_val_sound tgs r _ _ Hs) as Hv.
  assert (Hstep : state_val S T tgs r st = oval tgs r o).
  { rewrite <- Hv. destruct (pr_state (pass tgp st)); simpl; [symmetry; exact Hp|exact Hp]. }
  destruct rest as [|o2 rest]; [exact Hstep|].
  destruct o as [s|]; [|discriminate]. apply andb_true_iff in Hrest. destruct Hrest as [_ Hrest].
  rewrite Hstep. simpl oval. rewrite (IH s Hrest). reflexivity. Qed.

Lemma inclb_incl a b : inclb a b = true -> incl a b.
Proof. unfold inclb. rewrite forallb_forall. intros H x Hx. apply imem_In. apply H; exact Hx. Qed.

Theorem check_trace_top_sound st tg obs r :
  let tgs := match tg with Some l => l | None => einstein_targets (sobjs st) end in
  inrange S T r tgs -> check_trace_top st tg obs = true ->
  state_val S T tgs r st = oval tgs r (last obs None).
Proof. intros tgs Hr H. unfold check_trace_top in H. apply andb_true_iff in H. destruct H as [Hi H].
  apply inclb_incl in Hi. eapply check_trace_sound; eauto. Qed.
End Trace.
