(* C02: scaffolding of the perturbation expansion - the combinations of
   perturbation orders that contribute to an n-th order product. *)
From Coq Require Import List Arith Lia Bool.
Import ListNotations.

(* itertools.product(vals, repeat=len) *)
Fixpoint tuples (vals : list nat) (len : nat) : list (list nat) :=
  match len with
  | 0 => [[]]
  | S n => flat_map (fun v => map (cons v) (tuples vals n)) vals
  end.
(* func.gen_term_orders *)
Definition gen_term_orders (order len min : nat) : list (list nat) :=
  filter (fun l => Nat.eqb (list_sum l) order) (tuples (seq min (order + 1 - min)) len).

Lemma tuples_In vals n l : In l (tuples vals n) <-> length l = n /\ Forall (fun x => In x vals) l.
Proof. revert l. induction n as [|n IH]; intros l; simpl.
  - split.
    + intros [<-|[]]. split; [reflexivity|constructor].
    + intros [H _]. destruct l; [left; reflexivity|discriminate].
  - rewrite in_flat_map. split.
    + intros [v [Hv Hl]]. apply in_map_iff in Hl. destruct Hl as [t [<- Ht]].
      apply IH in Ht. destruct Ht as [Hlen Hall]. split; [simpl; congruence|constructor; assumption].
    + intros [Hlen Hall]. destruct l as [|v t]; [discriminate|]. inversion Hall; subst.
      exists v. split; [assumption|]. apply in_map. apply IH. split; [simpl in Hlen; lia|assumption]. Qed.

Lemma NoDup_map_cons v (L : list (list nat)) : NoDup L -> NoDup (map (cons v) L).
Proof. induction 1 as [|x L Hx Hnd IH]; simpl; constructor; [|exact IH].
  rewrite in_map_iff. intros [y [Hy Hin]]. inversion Hy; subst. contradiction. Qed.

Lemma NoDup_app_intro {A} (l1 l2 : list A) : NoDup l1 -> NoDup l2 ->
  (forall x, In x l1 -> ~ In x l2) -> NoDup (l1 ++ l2).
Proof. induction 1 as [|x l1 Hx Hnd IH]; intros H2 Hd; simpl; [exact H2|].
  constructor.
  - rewrite in_app_iff. intros [H|H]; [contradiction|]. apply (Hd x); [left; reflexivity|exact H].
  - apply IH; [exact H2|]. intros y Hy. apply Hd. right; exact Hy. Qed.

Lemma flat_map_cons_NoDup (L : list (list nat)) vs : NoDup L -> NoDup vs ->
  NoDup (flat_map (fun v => map (cons v) L) vs).
Proof. intros HL Hv. induction Hv as [|v vs Hin Hnd IHv]; simpl; [constructor|].
  apply NoDup_app_intro; [apply NoDup_map_cons; exact HL|exact IHv|].
  intros l Hl Hl2. apply in_map_iff in Hl. destruct Hl as [t [<- _]].
  apply in_flat_map in Hl2. destruct Hl2 as [w [Hw Hl2]]. apply in_map_iff in Hl2.
  destruct Hl2 as [t2 [Heq _]]. inversion Heq; subst. contradiction. Qed.

Lemma tuples_NoDup vals n : NoDup vals -> NoDup (tuples vals n).
Proof. intros Hv. induction n as [|n IH]; simpl; [constructor; [intros []|constructor]|].
  apply flat_map_cons_NoDup; assumption. Qed.

Theorem gen_term_orders_spec order len min l :
  In l (gen_term_orders order len min) <->
  length l = len /\ Forall (fun x => min <= x <= order) l /\ list_sum l = order.
Proof. unfold gen_term_orders. rewrite filter_In, tuples_In, Nat.eqb_eq.
  assert (H : Forall (fun x => In x (seq min (order + 1 - min))) l <-> Forall (fun x => min <= x <= order) l).
  { rewrite !Forall_forall. split; intros H x Hx; specialize (H x Hx); [apply in_seq in H|apply in_seq]; lia. }
  rewrite H. tauto. Qed.

Theorem gen_term_orders_NoDup order len min : NoDup (gen_term_orders order len min).
Proof. unfold gen_term_orders. apply NoDup_filter. apply tuples_NoDup. apply seq_NoDup. Qed.

(* every Cauchy-product coefficient is complete and not double counted:
   e.g. for products of two series the pairs are exactly (k, n-k) *)
Corollary gen_term_orders_pairs order min a b :
  In [a; b] (gen_term_orders order 2 min) <-> min <= a /\ min <= b /\ a + b = order.
Proof. rewrite gen_term_orders_spec. simpl. split.
  - intros [_ [H1 H2]]. inversion H1 as [|? ? Ha H1']; subst. inversion H1' as [|? ? Hb _]; subst. lia.
  - intros [Ha [Hb Hs]]. split; [reflexivity|]. split; [|lia].
    constructor; [lia|]. constructor; [lia|constructor]. Qed.
