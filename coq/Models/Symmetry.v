(* C10: meaning of a reported permutational symmetry and of decompositions. *)
From Coq Require Import ZArith QArith List Bool Lia Permutation.
From ADC Require Import Core.Scalar Core.Index Core.Expr Core.Swap Core.Canon Core.Equiv Core.SwapAny.
Import ListNotations.

Definition scale_term (f : Q) (t : term) : term := Term (Qmult f (tcoef t)) (tfacs t).
Definition scale_expr (f : Q) (e : expr) : expr := map (scale_term f) e.

(* what the per-run check evaluates for a reported symmetry (perms, f) of e *)
Definition symmetry_check tg ps (f : Q) c1 c2 (e : expr) : bool :=
  perms_ok tg ps && check_equiv tg c1 c2 (permute_expr ps e) (scale_expr f e).

(* reassembly of the parts returned by exploit_perm_sym:
   sum over parts of (part + sum_{(perms,f)} f * P part) *)
Definition reassemble (parts : list (list (list (index * index) * Q) * expr)) : expr :=
  flat_map (fun pe => snd pe ++ flat_map (fun pf => scale_expr (snd pf) (permute_expr (fst pf) (snd pe))) (fst pe)) parts.
Definition reassemble_ok tg (parts : list (list (list (index * index) * Q) * expr)) : bool :=
  forallb (fun pe => forallb (fun pf => perms_ok tg (fst pf)) (fst pe)) parts.

Section Sym.
Variable S : Scalar.
Variable T : tmodel S.
Hypothesis R : respects S T.
Infix "+" := (kadd S). Infix "*" := (kmul S).
Add Ring KR7 : (Kring S).

Lemma eval_scale tg r f e : eval S T tg r (scale_expr f e) = ofQ S f * eval S T tg r e.
Proof. unfold eval, scale_expr. rewrite ksum_map. rewrite <- ksum_scal. apply ksum_ext.
  intros [c fs] _. unfold scale_term; simpl.
  rewrite (eval_term_coef S T tg r (f * c)%Q fs), (eval_term_coef S T tg r c fs), ofQ_mul. ring. Qed.

Theorem reported_symmetry_sound tg ps f c1 c2 e :
  symmetry_check tg ps f c1 c2 e = true ->
  forall r, eval S T tg (permute_env ps r) e = ofQ S f * eval S T tg r e.
Proof. unfold symmetry_check. rewrite andb_true_iff. intros [H1 H2] r.
  rewrite <- (eval_permute S T tg ps H1). rewrite (check_equiv_sound S T R _ _ _ _ _ H2).
  apply eval_scale. Qed.

(* value of the reassembled decomposition, by definition of applying the
   permutation operators to the parts *)
Definition part_value tg r (pe : list (list (index * index) * Q) * expr) : K S :=
  eval S T tg r (snd pe) +
  ksum (fst pe) (fun pf => ofQ S (snd pf) * eval S T tg (permute_env (fst pf) r) (snd pe)).

Theorem reassemble_value tg parts : reassemble_ok tg parts = true -> forall r,
  eval S T tg r (reassemble parts) = ksum parts (part_value tg r).
Proof. unfold reassemble, reassemble_ok. induction parts as [|[sym sub] parts IH]; intros H r; simpl; [reflexivity|].
  simpl in H. rewrite andb_true_iff in H. destruct H as [H1 H2].
  rewrite !eval_app. rewrite IH by exact H2. unfold part_value at 2; simpl. f_equal. f_equal.
  clear IH H2. induction sym as [|[ps f] sym IHs]; simpl; [reflexivity|].
  simpl in H1. rewrite andb_true_iff in H1. destruct H1 as [Hp Hr].
  rewrite eval_app, eval_scale, (eval_permute S T tg ps Hp), IHs by exact Hr. reflexivity. Qed.

Theorem decomposition_lossless tg c1 c2 parts e :
  reassemble_ok tg parts = true -> check_equiv tg c1 c2 (reassemble parts) e = true ->
  forall r, ksum parts (part_value tg r) = eval S T tg r e.
Proof. intros H1 H2 r. rewrite <- (reassemble_value tg parts H1).
  apply (check_equiv_sound S T R _ _ _ _ _ H2). Qed.
End Sym.
