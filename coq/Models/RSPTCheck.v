(* Verified checker for Rayleigh-Schroedinger perturbation series over Z/pZ.

   The determinant-space engine of the harness (harness/detspace.py) solves
   the order-by-order equations by Gaussian elimination.  Nothing of that
   solver has to be trusted: its output (energies E_n and wavefunction
   coefficients psi_n, n <= N) is handed to [rspt_ok], which is evaluated by
   the kernel, and [rspt_ok_sound] states what acceptance means: the
   truncated series Psi(l) = sum_n l^n psi_n, E(l) = sum_n l^n E_n satisfy

       (H0 + l H1) Psi(l) - E(l) Psi(l)  =  l^(N+1) * (remainder)   (mod p)

   componentwise for every value of the perturbation parameter l, together
   with intermediate normalisation <ref|Psi(l)> = 1 (mod p).

   Vector-valued polynomials are stored per component: [Psi : list poly],
   [nth i Psi] is the polynomial of component i (coefficient list, lowest
   order first). *)
From Coq Require Import ZArith List Lia Bool.
Import ListNotations.
Local Open Scope Z_scope.

Definition poly := list Z.

Fixpoint peval (c : poly) (x : Z) : Z :=
  match c with [] => 0 | a :: c' => a + x * peval c' x end.

Fixpoint padd (a b : poly) : poly :=
  match a, b with
  | [], _ => b
  | _, [] => a
  | x :: a', y :: b' => (x + y) :: padd a' b'
  end.

Definition pscale (k : Z) (a : poly) : poly := map (Z.mul k) a.
Definition pshift (a : poly) : poly := 0 :: a.
Definition pneg (a : poly) : poly := pscale (-1) a.

Fixpoint pmul (a b : poly) : poly :=
  match a with
  | [] => []
  | x :: a' => padd (pscale x b) (pshift (pmul a' b))
  end.

Lemma peval_padd a : forall b x, peval (padd a b) x = peval a x + peval b x.
Proof.
  induction a as [|u a IH]; intros [|v b] x; cbn [padd peval]; try lia.
  rewrite IH. ring.
Qed.

Lemma peval_pscale k a x : peval (pscale k a) x = k * peval a x.
Proof.
  unfold pscale. induction a as [|u a IH]; cbn [map peval]; [ring|].
  rewrite IH. ring.
Qed.

Lemma peval_pshift a x : peval (pshift a) x = x * peval a x.
Proof. unfold pshift. cbn [peval]. ring. Qed.

Lemma peval_pmul a : forall b x, peval (pmul a b) x = peval a x * peval b x.
Proof.
  induction a as [|u a IH]; intros b x; cbn [pmul peval]; [ring|].
  rewrite peval_padd, peval_pscale, peval_pshift, IH. ring.
Qed.

(* sum_j row_j * Psi_j as a polynomial *)
Fixpoint pdot (row : list Z) (Psi : list poly) : poly :=
  match row, Psi with
  | k :: row', q :: Psi' => padd (pscale k q) (pdot row' Psi')
  | _, _ => []
  end.

Fixpoint dotv (row : list Z) (v : list Z) : Z :=
  match row, v with
  | k :: row', y :: v' => k * y + dotv row' v'
  | _, _ => 0
  end.

Lemma peval_pdot row : forall Psi x,
  peval (pdot row Psi) x = dotv row (map (fun q => peval q x) Psi).
Proof.
  induction row as [|k row IH]; intros [|q Psi] x; cbn [pdot peval map dotv];
    try reflexivity.
  rewrite peval_padd, peval_pscale, IH. reflexivity.
Qed.

(* residual polynomial of component i *)
Definition residual (row0 row1 : list Z) (E : poly) (Psi : list poly)
  (qi : poly) : poly :=
  padd (padd (pdot row0 Psi) (pshift (pdot row1 Psi))) (pneg (pmul E qi)).

Lemma peval_residual row0 row1 E Psi qi x :
  peval (residual row0 row1 E Psi qi) x =
  dotv row0 (map (fun q => peval q x) Psi)
  + x * dotv row1 (map (fun q => peval q x) Psi)
  - peval E x * peval qi x.
Proof.
  unfold residual, pneg.
  rewrite !peval_padd, peval_pshift, !peval_pdot, peval_pscale, peval_pmul.
  ring.
Qed.

(* the first n coefficients vanish modulo p *)
Fixpoint low_zero (p : Z) (n : nat) (c : poly) : bool :=
  match n, c with
  | O, _ => true
  | S _, [] => true
  | S n', a :: c' => (a mod p =? 0) && low_zero p n' c'
  end.

Lemma low_zero_sound p : forall n c x,
  low_zero p n c = true ->
  (peval c x) mod p = (x ^ Z.of_nat n * peval (skipn n c) x) mod p.
Proof.
  induction n as [|n IH]; intros c x H.
  - cbn [skipn Z.of_nat]. rewrite Z.pow_0_r. f_equal. ring.
  - destruct c as [|a c].
    + cbn [skipn peval]. rewrite Z.mul_0_r. reflexivity.
    + cbn [low_zero] in H. apply andb_prop in H as [Ha Hc].
      apply Z.eqb_eq in Ha. cbn [skipn peval].
      rewrite Nat2Z.inj_succ, Z.pow_succ_r by lia.
      rewrite Zplus_mod, Ha, Z.add_0_l, Zmod_mod.
      rewrite Zmult_mod, (IH c x Hc), <- Zmult_mod.
      f_equal. ring.
Qed.

(* all components: rows of H0, H1 and the component polynomials in parallel *)
Fixpoint rows_ok (p : Z) (N : nat) (H0 H1 : list (list Z)) (E : poly)
  (Psi qs : list poly) : bool :=
  match H0, H1, qs with
  | r0 :: H0', r1 :: H1', q :: qs' =>
      low_zero p (S N) (residual r0 r1 E Psi q)
      && rows_ok p N H0' H1' E Psi qs'
  | [], [], [] => true
  | _, _, _ => false
  end.

(* intermediate normalisation: the reference component is 1 + O(l^(N+1)) *)
Definition norm_ok (p : Z) (N : nat) (q : poly) : bool :=
  match q with
  | a :: q' => ((a - 1) mod p =? 0) && low_zero p N q'
  | [] => false
  end.

Definition rspt_ok (p : Z) (N : nat) (H0 H1 : list (list Z)) (E : poly)
  (Psi : list poly) (ref : nat) : bool :=
  rows_ok p N H0 H1 E Psi Psi && norm_ok p N (nth ref Psi []).

Definition values (Psi : list poly) (x : Z) : list Z :=
  map (fun q => peval q x) Psi.

Lemma rows_ok_sound p N E Psi : forall H0 H1 qs,
  rows_ok p N H0 H1 E Psi qs = true ->
  forall i r0 r1 q x,
    nth_error H0 i = Some r0 -> nth_error H1 i = Some r1 ->
    nth_error qs i = Some q ->
    (dotv r0 (values Psi x) + x * dotv r1 (values Psi x)
     - peval E x * peval q x) mod p =
    (x ^ Z.of_nat (S N)
     * peval (skipn (S N) (residual r0 r1 E Psi q)) x) mod p.
Proof.
  induction H0 as [|a0 H0 IH]; intros [|a1 H1] [|aq qs] H i r0 r1 q x E0 E1 Eq;
    cbn [rows_ok] in H; try discriminate;
    try (destruct i; discriminate).
  apply andb_prop in H as [Hh Ht].
  destruct i as [|i]; cbn [nth_error] in E0, E1, Eq.
  - injection E0 as <-. injection E1 as <-. injection Eq as <-.
    rewrite <- (low_zero_sound p (S N) _ x Hh), peval_residual.
    reflexivity.
  - eapply IH; eassumption.
Qed.

Lemma norm_ok_sound p N q x :
  norm_ok p N q = true ->
  (peval q x) mod p =
  (1 + x ^ Z.of_nat (S N) * peval (skipn (S N) q) x) mod p.
Proof.
  destruct q as [|a q]; cbn [norm_ok]; [discriminate|].
  intro H. apply andb_prop in H as [Ha Hq]. apply Z.eqb_eq in Ha.
  cbn [peval skipn].
  rewrite Nat2Z.inj_succ, Z.pow_succ_r by lia.
  replace (a + x * peval q x) with ((a - 1) + (1 + x * peval q x)) by ring.
  rewrite Zplus_mod, Ha, Z.add_0_l, Zmod_mod.
  rewrite Zplus_mod, Zmult_mod, (low_zero_sound p N q x Hq), <- Zmult_mod,
    <- Zplus_mod.
  f_equal. ring.
Qed.

(* The statement: acceptance means the truncated series solve the perturbed
   eigenvalue problem through order N, for every value x of the perturbation
   parameter, in intermediate normalisation. *)
Theorem rspt_ok_sound p N H0 H1 E Psi ref :
  rspt_ok p N H0 H1 E Psi ref = true ->
  (forall i r0 r1 q x,
      nth_error H0 i = Some r0 -> nth_error H1 i = Some r1 ->
      nth_error Psi i = Some q ->
      exists rem,
        (dotv r0 (values Psi x) + x * dotv r1 (values Psi x)
         - peval E x * peval q x) mod p
        = (x ^ Z.of_nat (S N) * rem) mod p)
  /\ (forall x, exists rem,
        (peval (nth ref Psi []) x) mod p
        = (1 + x ^ Z.of_nat (S N) * rem) mod p).
Proof.
  unfold rspt_ok. intro H. apply andb_prop in H as [Hr Hn]. split.
  - intros i r0 r1 q x E0 E1 Eq. eexists.
    eapply rows_ok_sound; eassumption.
  - intro x. eexists. apply norm_ok_sound. exact Hn.
Qed.

(* the lowest coefficients of E are the perturbation energies: E(x) read off
   the reference row (projection on the reference) *)
Corollary rspt_energy p N H0 H1 E Psi ref r0 r1 x :
  rspt_ok p N H0 H1 E Psi ref = true ->
  nth_error H0 ref = Some r0 -> nth_error H1 ref = Some r1 ->
  nth_error Psi ref = Some (nth ref Psi []) ->
  exists rem rem',
    (dotv r0 (values Psi x) + x * dotv r1 (values Psi x)) mod p
    = (peval E x * (1 + x ^ Z.of_nat (S N) * rem')
       + x ^ Z.of_nat (S N) * rem) mod p.
Proof.
  intros H E0 E1 Eq.
  destruct (rspt_ok_sound _ _ _ _ _ _ _ H) as [Hrows Hnorm].
  destruct (Hrows ref r0 r1 _ x E0 E1 Eq) as [rem Hrem].
  destruct (Hnorm x) as [rem' Hrem'].
  exists rem, rem'.
  set (A := dotv r0 (values Psi x) + x * dotv r1 (values Psi x)) in *.
  set (q := peval (nth ref Psi []) x) in *.
  set (e := peval E x) in *.
  set (X := x ^ Z.of_nat (S N)) in *.
  replace A with ((A - e * q) + e * q) by ring.
  rewrite Zplus_mod, Hrem, (Zmult_mod e q), Hrem', <- Zmult_mod, <- Zplus_mod.
  f_equal. ring.
Qed.

(* non-vacuity: a 2x2 example, H0 = diag(0,2), H1 = [[1,1],[1,0]], p = 101:
   E = 0 + 1 l - 1/2 l^2, psi_1 = (0,-1/2); 1/2 = 51 mod 101 *)
Example rspt_ok_example :
  rspt_ok 101 2 [[0; 0]; [0; 2]] [[1; 1]; [1; 0]] [0; 1; 50]
          [[1; 0; 0]; [0; 50; 25]] 0 = true.
Proof. vm_compute. reflexivity. Qed.

(* ---- orthonormality of explicitly constructed states ------------------- *)
(* a state is a list of coefficient polynomials (one per determinant) *)
Fixpoint pdotp (A B : list poly) : poly :=
  match A, B with
  | a :: A', b :: B' => padd (pmul a b) (pdotp A' B')
  | _, _ => []
  end.

Lemma peval_pdotp A : forall B x,
  peval (pdotp A B) x = dotv (values A x) (values B x).
Proof.
  induction A as [|a A IH]; intros [|b B] x; cbn [pdotp values map dotv peval];
    try reflexivity.
  rewrite peval_padd, peval_pmul. fold (values A x) (values B x).
  rewrite IH. reflexivity.
Qed.

Lemma dotv_comm a : forall b, dotv a b = dotv b a.
Proof.
  induction a as [|x a IH]; intros [|y b]; cbn [dotv]; try reflexivity.
  rewrite IH. ring.
Qed.

Definition ortho_row (p : Z) (N : nat) (A : list poly)
  (rest : list (list poly)) : bool :=
  forallb (fun B => low_zero p (S N) (pdotp A B)) rest.

Fixpoint ortho_ok (p : Z) (N : nat) (states : list (list poly)) : bool :=
  match states with
  | [] => true
  | A :: rest =>
      norm_ok p N (pdotp A A) && ortho_row p N A rest && ortho_ok p N rest
  end.

Definition delta (i j : nat) : Z := if Nat.eqb i j then 1 else 0.

Lemma ortho_ok_le p N : forall states,
  ortho_ok p N states = true ->
  forall i j A B x, (i <= j)%nat ->
    nth_error states i = Some A -> nth_error states j = Some B ->
    exists rem,
      (dotv (values A x) (values B x)) mod p
      = (delta i j + x ^ Z.of_nat (S N) * rem) mod p.
Proof.
  induction states as [|S0 rest IH]; intros H i j A B x Hij Ei Ej.
  - destruct i; discriminate.
  - cbn [ortho_ok] in H. apply andb_prop in H as [H Hrest].
    apply andb_prop in H as [Hn Hrow].
    destruct i as [|i].
    + cbn [nth_error] in Ei. injection Ei as <-.
      destruct j as [|j].
      * cbn [nth_error] in Ej. injection Ej as <-.
        exists (peval (skipn (S N) (pdotp S0 S0)) x).
        rewrite <- peval_pdotp. unfold delta. cbn [Nat.eqb].
        apply norm_ok_sound. exact Hn.
      * cbn [nth_error] in Ej. apply nth_error_In in Ej.
        unfold ortho_row in Hrow. rewrite forallb_forall in Hrow.
        specialize (Hrow B Ej).
        exists (peval (skipn (S N) (pdotp S0 B)) x).
        rewrite <- peval_pdotp. unfold delta. cbn [Nat.eqb].
        rewrite Z.add_0_l. apply low_zero_sound. exact Hrow.
    + destruct j as [|j]; [lia|].
      cbn [nth_error] in Ei, Ej.
      destruct (IH Hrest i j A B x ltac:(lia) Ei Ej) as [rem Hrem].
      exists rem. unfold delta in *. cbn [Nat.eqb]. exact Hrem.
Qed.

(* acceptance means: the states are orthonormal through order N for every
   value x of the perturbation parameter *)
Theorem ortho_ok_sound p N states :
  ortho_ok p N states = true ->
  forall i j A B x,
    nth_error states i = Some A -> nth_error states j = Some B ->
    exists rem,
      (dotv (values A x) (values B x)) mod p
      = (delta i j + x ^ Z.of_nat (S N) * rem) mod p.
Proof.
  intros H i j A B x Ei Ej.
  destruct (Nat.le_gt_cases i j) as [Hij|Hij].
  - eapply ortho_ok_le; eassumption.
  - destruct (ortho_ok_le p N states H j i B A x ltac:(lia) Ej Ei) as [rem Hr].
    exists rem. rewrite dotv_comm.
    replace (delta i j) with (delta j i); [exact Hr|].
    unfold delta. rewrite (Nat.eqb_sym j i). reflexivity.
Qed.

Example ortho_ok_example :
  ortho_ok 101 1 [[[1]; [0; 1]]; [[0; 100]; [1]]] = true.
Proof. vm_compute. reflexivity. Qed.
