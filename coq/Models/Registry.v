(* C08 - the index registry `Indices` (indices.py:62-239) as a state machine,
   and `get_symbols` (indices.py:336-373).
   The identity of a Python Index object is modelled by a uid handed out by
   `_new_symbol` (a counter); names are (letter, number) with number 0 = bare
   letter.  Proofs are in RegistryProofs.v. *)
From Coq Require Import ZArith NArith List Bool Lia.
From ADC Require Import Core.Index Models.Substitution.
Import ListNotations.

Definition entry := (sort * name * N)%type.         (* ((space, spin), name, uid) *)
Definition e_sort (e : entry) : sort := fst (fst e).
Definition e_name (e : entry) : name := snd (fst e).
Definition e_uid (e : entry) : N := snd e.
Definition e_key (e : entry) : sort * name := fst e.

Record state := {
  symbols : list entry;            (* _symbols, flattened, in creation order *)
  generic : sort -> list name;     (* _generic_indices[space][spin] *)
  counter : sort -> N;             (* _counter[space][spin] *)
  next : N                         (* identity of the next object created *)
}.
Definition init : state :=
  {| symbols := []; generic := fun _ => []; counter := fun _ => 3%N; next := 1%N |}.

Definition upd {A} (f : sort -> A) (k : sort) (v : A) : sort -> A :=
  fun k' => if sort_eqb k' k then v else f k'.

Fixpoint sym_find (l : list entry) (k : sort) (nm : name) : option N :=
  match l with
  | [] => None
  | e :: r => if sort_eqb (e_sort e) k && name_eqb (e_name e) nm then Some (e_uid e)
              else sym_find r k nm
  end.
Definition sym_lookup (st : state) := sym_find (symbols st).
Definition sym_has (st : state) (k : sort) (nm : name) : bool :=
  match sym_lookup st k nm with Some _ => true | None => false end.

(* list.remove(x): first occurrence *)
Fixpoint remove1 (x : name) (l : list name) : list name :=
  match l with [] => [] | y :: r => if name_eqb x y then r else y :: remove1 x r end.

Definition lmem (x : N) (l : list N) : bool := existsb (N.eqb x) l.
(* index_space *)
Definition space_of_letter (l : N) : option space :=
  if lmem l (base Occ) then Some Occ
  else if lmem l (base Virt) then Some Virt
  else if lmem l (base Gen) then Some Gen else None.

(* the dict returned by get_indices / get_generic_indices *)
Definition retdict := list (sort * list entry).
Definition ret_touch (k : sort) (r : retdict) : retdict :=      (* if key not in ret: ret[key] = [] *)
  match assoc_sort k r with Some _ => r | None => r ++ [(k, [])] end.
Fixpoint ret_append (k : sort) (e : entry) (r : retdict) : retdict :=
  match r with
  | [] => []
  | (k', l) :: r' => if sort_eqb k k' then (k', l ++ [e]) :: r' else (k', l) :: ret_append k e r'
  end.
Definition ret_update (r add : retdict) : retdict :=
  fold_left (fun d kv => assoc_set (fst kv) (snd kv) d) add r.

(* ---------- get_indices ---------- *)
Definition new_symbol (st : state) (k : sort) (nm : name) : state :=
  {| symbols := symbols st ++ [(k, nm, next st)];
     generic := upd (generic st) k (remove1 nm (generic st k));
     counter := counter st;
     next := N.succ (next st) |}.
Fixpoint gi_loop (reqs : list (name * spin)) (st : state) (ret : retdict)
  : state * option retdict :=
  match reqs with
  | [] => (st, Some ret)
  | (nm, spn) :: r =>
    match space_of_letter (fst nm) with
    | None => (st, None)                               (* Inputerror *)
    | Some sp =>
      let k := (sp, spn) in
      let ret1 := ret_touch k ret in
      match sym_lookup st k nm with
      | Some u => gi_loop r st (ret_append k (k, nm, u) ret1)
      | None => gi_loop r (new_symbol st k nm) (ret_append k (k, nm, next st) ret1)
      end
    end
  end.
Definition get_indices (st : state) (reqs : list (name * spin)) := gi_loop reqs st [].

(* ---------- _gen_generic_idx ---------- *)
Definition gen_step (st : state) (k : sort) : state :=
  let c := counter st k in
  let new_idx := filter (fun nm => negb (sym_has st k nm)) (generation (base (fst k)) c) in
  {| symbols := symbols st;
     generic := upd (generic st) k (generic st k ++ new_idx);
     counter := upd (counter st) k (N.succ c);
     next := next st |}.
(* while n > len(self._generic_indices[space][spin]) *)
Fixpoint gen_loop (fuel : nat) (st : state) (k : sort) (n : nat) : state :=
  match fuel with
  | O => st
  | S f => if Nat.ltb (length (generic st k)) n then gen_loop f (gen_step st k) k n else st
  end.
(* enough iterations for the loop to reach its exit condition (RegistryProofs.gen_loop_exit) *)
Definition gen_fuel (st : state) (n : nat) : nat := n + length (symbols st).

(* ---------- get_generic_indices ---------- *)
Fixpoint gg_loop (reqs : list (sort * nat)) (st : state) (ret : retdict)
  : state * option retdict :=
  match reqs with
  | [] => (st, Some ret)
  | (k, n) :: r =>
    if Nat.eqb n 0 then gg_loop r st ret
    else
      let st1 := gen_loop (gen_fuel st n) st k n in
      let idx := firstn n (generic st1 k) in
      match gi_loop (map (fun nm => (nm, snd k)) idx) st1 [] with
      | (st2, Some ret2) => gg_loop r st2 (ret_update ret ret2)
      | (st2, None) => (st2, None)
      end
  end.
Definition get_generic_indices (st : state) (reqs : list (sort * nat)) := gg_loop reqs st [].

(* ---------- get_symbols ---------- *)
Fixpoint gs_pop (reqs : list (name * spin)) (ret : retdict) : option (list entry) :=
  match reqs with
  | [] => if forallb (fun kv => match snd kv with [] => true | _ => false end) ret
          then Some [] else None
  | (nm, spn) :: r =>
    match space_of_letter (fst nm) with
    | None => None
    | Some sp =>
      match assoc_sort (sp, spn) ret with
      | Some (e :: rest) =>
        match gs_pop r (assoc_set (sp, spn) rest ret) with
        | Some l => Some (e :: l) | None => None end
      | _ => None
      end
    end
  end.

(* ---------- operations and histories ---------- *)
Inductive op :=
| OpGet (reqs : list (name * spin))           (* Indices().get_indices(names, spins) *)
| OpGeneric (reqs : list (sort * nat))        (* Indices().get_generic_indices(kwargs) *)
| OpSymbols (reqs : list (name * spin)).      (* get_symbols(names, spins) *)
Inductive out :=
| ORet (r : retdict)
| OList (l : list entry)
| OErr.

Definition step (st : state) (o : op) : state * out :=
  match o with
  | OpGet reqs =>
    match get_indices st reqs with
    | (st', Some r) => (st', ORet r) | (st', None) => (st', OErr) end
  | OpGeneric reqs =>
    match get_generic_indices st reqs with
    | (st', Some r) => (st', ORet r) | (st', None) => (st', OErr) end
  | OpSymbols reqs =>
    match reqs with
    | [] => (st, OList [])
    | _ =>
      match get_indices st reqs with
      | (st', Some r) =>
        match gs_pop reqs r with Some l => (st', OList l) | None => (st', OErr) end
      | (st', None) => (st', OErr)
      end
    end
  end.

(* the history: all outputs so far (most recent first) *)
Fixpoint run (ops : list op) (st : state) (outs : list out) : state * list out :=
  match ops with
  | [] => (st, outs)
  | o :: r => let (st', x) := step st o in run r st' (x :: outs)
  end.
Definition history (ops : list op) : state * list out := run ops init [].

Definition out_entries (x : out) : list entry :=
  match x with ORet r => flat_map snd r | OList l => l | OErr => [] end.
Definition outs_entries (xs : list out) : list entry := flat_map out_entries xs.

(* ---------- observation of a state (for the correspondence check) ---------- *)
Definition all_sorts : list sort :=
  [(Occ, NoSpin); (Occ, Alpha); (Occ, Beta); (Virt, NoSpin); (Virt, Alpha); (Virt, Beta);
   (Gen, NoSpin); (Gen, Alpha); (Gen, Beta)].
Definition snapshot (st : state) : list (list (name * N) * list name * N) :=
  map (fun k => (map (fun e => (e_name e, e_uid e))
                     (filter (fun e => sort_eqb (e_sort e) k) (symbols st)),
                 generic st k, counter st k)) all_sorts.
(* a state given by its observation *)
Definition mk_state (syms : list entry) (gen : list (sort * list name))
           (cnt : list (sort * N)) (nxt : N) : state :=
  {| symbols := syms;
     generic := fun k => match assoc_sort k gen with Some l => l | None => [] end;
     counter := fun k => match assoc_sort k cnt with Some c => c | None => 3%N end;
     next := nxt |}.
(* generic lists and counters of all sorts *)
Definition snap_gc (st : state) : list (list name * N) :=
  map (fun k => (generic st k, counter st k)) all_sorts.
(* outputs and (generic, counter) observations after each operation, oldest
   first, and the final state *)
Fixpoint trace (ops : list op) (st : state) : list (out * list (list name * N)) * state :=
  match ops with
  | [] => ([], st)
  | o :: r => let (st', x) := step st o in
              let (t, fin) := trace r st' in ((x, snap_gc st') :: t, fin)
  end.
