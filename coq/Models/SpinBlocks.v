(* C15 - a spin block that allowed_spin_blocks(expr, target) does not report is zero *)
From Coq Require Import ZArith NArith QArith List Bool Lia Permutation.
From ADC Require Import Core.Scalar Core.Index Core.Expr Models.Spin Models.SpinProofs
  Models.SpinValue Models.SpinDfs.
Import ListNotations.
Open Scope nat_scope.
Open Scope list_scope.

Lemma combine_swap {A B} (l1 : list A) (l2 : list B) a b : In (a, b) (combine l1 l2) <-> In (b, a) (combine l2 l1).
Proof. revert l2; induction l1 as [|x l1 IH]; intros [|y l2]; simpl; try tauto.
  rewrite IH. split; intros [H|H]; auto; left; inversion H; reflexivity. Qed.
Lemma tlookup_combine tgt : forall bl x s, NoDup tgt -> In (x, s) (combine tgt bl) ->
  tlookup (combine tgt bl) x = Some s.
Proof. induction tgt as [|y tgt IH]; intros [|b bl] x s Hnd Hin; simpl in *; try contradiction.
  inversion Hnd as [|? ? Hn Hd]; subst. destruct Hin as [Hin|Hin].
  - inversion Hin; subst. rewrite index_eqb_refl. reflexivity.
  - destruct (index_eqb x y) eqn:E; [|auto]. apply index_eqb_eq in E; subst.
    apply in_combine_l in Hin. contradiction. Qed.
Lemma tlookup_combine_dom tgt : forall bl x, length bl = length tgt ->
  (In x tgt <-> tlookup (combine tgt bl) x <> None).
Proof. induction tgt as [|y tgt IH]; intros [|b bl] x Hl; simpl in *; try discriminate; [tauto|].
  destruct (index_eqb x y) eqn:E.
  - apply index_eqb_eq in E; subst. split; [discriminate|auto].
  - rewrite <- (IH bl x) by lia. apply index_eqb_neq in E. split; [intros [H|H]; [congruence|auto]|auto]. Qed.

Section Blocks.
Variable S : Scalar.
Variable T : tmodel S.
Variable ospin : nat -> sp.
Hypothesis Hrng : forall s, rng T s NoSpin = rng T s Alpha ++ rng T s Beta.
Hypothesis HA : forall s o, In o (rng T s Alpha) -> ospin o = SA.
Hypothesis HB : forall s o, In o (rng T s Beta) -> ospin o = SB.

Theorem unreported_block_zero it tgt e L bl t r :
  expr_allowed_blocks it tgt e = Ok L -> length bl = length tgt -> ~ In bl L -> NoDup tgt ->
  In (term_atoms t) e ->
  wf_objs (objs_of (tbl_of it) (tfacs t)) ->
  (forall x, In x (term_idx t) -> ispin x = NoSpin) ->
  vanishes S T ospin (tbl_of it) (tfacs t) ->
  (forall s x, In (s, x) (combine bl tgt) -> ospin (r x) = s) ->
  eval_term S T tgt r t = k0 S.
Proof. intros HL Hlen Hn Hnd Hin Hwf Hns Hvan Hr.
  destruct (block_not_reported it tgt e L bl HL Hlen Hn _ Hin) as [objs [Ho Hno]].
  apply sobjs_of_objs_of in Ho. subst objs.
  set (tm := combine tgt bl). set (tidx := atoms_idx (term_atoms t)).
  assert (Htidx : forall x, In x tidx <-> In x (term_idx t)) by (intros x; apply atoms_idx_In).
  apply (no_good_zero S T ospin Hrng HA HB (tbl_of it) tgt tm
           (fun x => tlookup_combine_dom tgt bl x Hlen) t tidx (inodup_NoDup _) Htidx Hwf Hns Hvan r).
  - intros x s _ Hl. apply Hr. apply combine_swap. apply tlookup_In. exact Hl.
  - intros g [Hc Hal]. apply (Hno (fun x => match tlookup tm x with Some s => s | None => g x end)). split.
    + intros s x Hsx. apply combine_swap in Hsx. unfold tm. rewrite (tlookup_combine tgt bl x s Hnd Hsx). reflexivity.
    + intros ix tb Hix. replace (map _ ix) with (map g ix); [apply Hal; auto|].
      apply map_ext_in. intros x Hx. destruct (tlookup tm x) as [s|] eqn:El; [|reflexivity].
      apply (Hc x s); [|auto]. apply Htidx. unfold objs_of in Hix. apply in_map_iff in Hix.
      destruct Hix as [f [Hf Hfin]]. inversion Hf; subst. unfold term_idx, mono_idx. apply in_flat_map.
      exists f. split; [auto|]. unfold fac_idx. apply obj_idx_In; auto. Qed.
End Blocks.
