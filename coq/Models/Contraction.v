(* C16 -- model of adcgen/generate_code/contraction.py and
   adcgen/generate_code/optimize_contractions.py.

   Objects are abstract: a name and the list of their indices.  Base tensors
   are named [NBase n] (n identifies the longname string), results of
   contractions [NContr id] where [id] is the value drawn from the global
   counter [Contraction._instance_counter]; the model threads that counter
   through the enumeration in the order in which the Python generator creates
   Contraction instances.

   Everything in this file is executable (used with vm_compute by the
   harness); the proofs live in Models/ContractionProofs.v. *)
From Coq Require Import ZArith NArith List Bool Lia PeanoNat.
From ADC Require Import Core.Scalar Core.Index Core.Expr.
Import ListNotations.

(* ------------------------------------------------------------------ *)
(* generic list helpers                                                 *)
Fixpoint list_eqb {A} (eqb : A -> A -> bool) (l1 l2 : list A) : bool :=
  match l1, l2 with
  | [], [] => true
  | x :: r1, y :: r2 => eqb x y && list_eqb eqb r1 r2
  | _, _ => false
  end.
Definition ilist_eqb := list_eqb index_eqb.
Definition nlist_eqb := list_eqb Nat.eqb.
Definition nmem (x : nat) (l : list nat) := existsb (Nat.eqb x) l.

Fixpoint icount (x : index) (l : list index) : nat :=
  match l with [] => 0 | y :: r => (if index_eqb x y then 1 else 0) + icount x r end.

(* sorted(..., key=sort_idx_canonical): stable insertion sort on idx_key *)
Fixpoint iinsert (x : index) (l : list index) : list index :=
  match l with
  | [] => [x]
  | y :: r => if idx_leb x y then x :: l else y :: iinsert x r
  end.
Definition isort (l : list index) : list index := fold_right iinsert [] l.

(* ------------------------------------------------------------------ *)
(* names                                                                *)
Inductive oname := NBase (n : nat) | NContr (id : N).
Definition oname_eqb (a b : oname) : bool :=
  match a, b with
  | NBase x, NBase y => Nat.eqb x y
  | NContr x, NContr y => N.eqb x y
  | _, _ => false
  end.
Definition obj := (oname * list index)%type.
Definition obj_eqb (a b : obj) : bool :=
  oname_eqb (fst a) (fst b) && ilist_eqb (snd a) (snd b).

(* ------------------------------------------------------------------ *)
(* Contraction._split_contracted_and_target
     idx_counter = Counter(chain.from_iterable(indices))
     for idx, count in idx_counter.items():
         if count == 1 or idx in term_target_indices: target.append(idx)
         else: contracted.append(idx)
   Counter.items() iterates in first-occurrence order. *)
Definition is_target_idx (all tg : list index) (x : index) : bool :=
  Nat.eqb (icount x all) 1 || imem x tg.
Definition split_ct (idxs : list (list index)) (tg : list index)
  : list index * list index :=
  let all := concat idxs in
  let keys := inodup all in
  (filter (fun x => negb (is_target_idx all tg x)) keys,
   filter (is_target_idx all tg) keys).

(* ------------------------------------------------------------------ *)
(* ScalingComponent(total, general, virt, occ), Scaling(computational, memory);
   both dataclasses are order=True: lexicographic in the order of the fields *)
Record scomp := SC { s_total : nat; s_gen : nat; s_virt : nat; s_occ : nat }.
Record scaling := Scal { s_comp : scomp; s_mem : scomp }.
Definition scomp_fields (s : scomp) : list nat := [s_total s; s_gen s; s_virt s; s_occ s].

Definition count_space (sp : space) (l : list index) : nat :=
  length (filter (fun x => space_eqb (ispace x) sp) l).

(* Contraction._determine_scaling *)
Definition mk_scaling (contracted target : list index) : scaling :=
  let c sp := count_space sp contracted + count_space sp target in
  let m sp := count_space sp target in
  Scal (SC (c Occ + c Virt + c Gen) (c Gen) (c Virt) (c Occ))
       (SC (length target) (m Gen) (m Virt) (m Occ)).

Fixpoint nlist_ltb (a b : list nat) : bool :=      (* Python list < list *)
  match a, b with
  | [], [] => false
  | [], _ :: _ => true
  | _ :: _, [] => false
  | x :: a', y :: b' => if x <? y then true else if y <? x then false else nlist_ltb a' b'
  end.
Definition scomp_leb (a b : scomp) : bool :=        (* dataclass order, <= *)
  negb (nlist_ltb (scomp_fields b) (scomp_fields a)).
(* component-wise comparison (all four fields) *)
Definition scomp_cw_leb (a b : scomp) : bool :=
  (s_total a <=? s_total b) && (s_gen a <=? s_gen b) &&
  (s_virt a <=? s_virt b) && (s_occ a <=? s_occ b).

(* ------------------------------------------------------------------ *)
(* Contraction.__init__ *)
Record contraction := mkC {
  c_id : N;                         (* self.id / contraction_name *)
  c_names : list oname;
  c_idx : list (list index);
  c_contracted : list index;
  c_target : list index;
  c_scaling : scaling }.

Definition mk_contraction (id : N) (names : list oname) (idxs : list (list index))
  (tg : list index) : contraction :=
  let ct := split_ct idxs tg in
  let c := isort (fst ct) in
  let t := isort (snd ct) in
  (* outer contraction: use the requested order of the target indices *)
  let t := if ilist_eqb (isort tg) t then tg else t in
  mkC id names idxs c t (mk_scaling c t).

Definition c_objs (c : contraction) : list obj := combine (c_names c) (c_idx c).

(* ------------------------------------------------------------------ *)
(* _group_objects *)
Definition nth_idx (objs : list (list index)) (p : nat) : list index := nth p objs [].

(* {pos for idx in contracted for pos in idx_occurences[idx]}, as the sorted
   list of its elements *)
Definition positions_of (objs : list (list index)) (contracted : list index) : list nat :=
  filter (fun p => existsb (fun x => imem x (nth_idx objs p)) contracted)
         (seq 0 (length objs)).

(* itertools.combinations(range(n), 2) *)
Definition pairs (n : nat) : list (nat * nat) :=
  flat_map (fun i => map (fun j => (i, j)) (seq (S i) (n - S i))) (seq 0 n).

Definition group_mem (g : list nat) (gs : list (list nat)) : bool :=
  existsb (nlist_eqb g) gs.
(* groups[key] = None on an insertion-ordered dict *)
Definition dict_add (g : list nat) (gs : list (list nat)) : list (list nat) :=
  if group_mem g gs then gs else gs ++ [g].

(* the `while True` loop; fuel = number of objects + 1 suffices because the
   set of positions grows strictly in every iteration that continues *)
Fixpoint closure (fuel : nat) (objs : list (list index)) (tg : list index) (maxg : nat)
  (contracted : list index) (positions : list nat) (groups : list (list nat))
  : list (list nat) :=
  match fuel with
  | 0 => groups
  | S f =>
    let newc := fst (split_ct (map (nth_idx objs) positions) tg) in
    if ilist_eqb contracted newc then groups else
    let newp := positions_of objs newc in
    if nlist_eqb newp positions || (maxg <? length newp) then groups else
    closure f objs tg maxg newc newp (dict_add newp groups)
  end.

Definition group_step (objs : list (list index)) (tg : list index) (maxg : nat)
  (st : list (list nat) * list (list nat)) (pr : nat * nat)
  : list (list nat) * list (list nat) :=
  let '(groups, outer) := st in
  let '(p1, p2) := pr in
  let contracted := fst (split_ct [nth_idx objs p1; nth_idx objs p2] tg) in
  match contracted with
  | [] => (groups, outer ++ [[p1; p2]])
  | _ =>
    let positions := positions_of objs contracted in
    if maxg <? length positions then st
    else if group_mem positions groups then st
    else (closure (S (length objs)) objs tg maxg contracted positions
                  (groups ++ [positions]), outer)
  end.

Definition group_objects (objs : list (list index)) (tg : list index)
  (max_group_size : option nat) : list (list nat) :=
  let maxg := match max_group_size with None => length objs | Some m => m end in
  let '(groups, outer) := fold_left (group_step objs tg maxg) (pairs (length objs)) ([], []) in
  groups ++ outer.

(* with the two `assert`s: None = AssertionError *)
Definition group_objects_chk (objs : list (list index)) (tg : list index)
  (max_group_size : option nat) : option (list (list nat)) :=
  let maxg := match max_group_size with None => length objs | Some m => m end in
  if (1 <? length objs) && (1 <? maxg) then Some (group_objects objs tg max_group_size)
  else None.

(* ------------------------------------------------------------------ *)
(* _optimize_contractions (generator, depth first).  Returns the schemes in
   the order in which they are yielded and the advanced instance counter. *)
Definition scheme := list contraction.
Definition dflt_name := NBase 0.

Definition skip_itmd (max_itmd_dim : option nat) (tg : list index) (c : contraction) : bool :=
  match max_itmd_dim with
  | None => false
  | Some d => negb (ilist_eqb (c_target c) tg) && (d <? length (c_target c))
  end.

(* the guard added by the fix of the non-closed-group defect:
     if any(idx in relevant_obj_indices[pos] for pos in remaining_pos
            for idx in contraction.contracted): continue *)
Definition leaks (c : contraction) (remaining : list (list index)) : bool :=
  existsb (fun ix => existsb (fun x => imem x ix) (c_contracted c)) remaining.

(* body of the `for group in connected_groups` loop; [rec] is the recursive
   call of the generator *)
Definition enum_step (rec : N -> list oname -> list (list index) -> list scheme * N)
  (tg : list index) (mid : option nat) (names : list oname) (idxs : list (list index))
  (st : list scheme * N) (group : list nat) : list scheme * N :=
  let '(acc, cnt) := st in
  let c := mk_contraction cnt (map (fun p => nth p names dflt_name) group)
                          (map (nth_idx idxs) group) tg in
  let cnt := N.succ cnt in
  if skip_itmd mid tg c then (acc, cnt) else
  let rem := filter (fun p => negb (nmem p group)) (seq 0 (length names)) in
  if leaks c (map (nth_idx idxs) rem) then (acc, cnt) else
  let rnames := NContr (c_id c) :: map (fun p => nth p names dflt_name) rem in
  let ridx := c_target c :: map (nth_idx idxs) rem in
  if length rnames =? 1 then (acc ++ [[c]], cnt) else
  let '(subs, cnt') := rec cnt rnames ridx in
  (acc ++ map (cons c) subs, cnt').

Fixpoint enum (fuel : nat) (tg : list index) (mid mg : option nat) (cnt : N)
  (names : list oname) (idxs : list (list index)) : list scheme * N :=
  match fuel with
  | 0 => ([], cnt)
  | S f =>
    fold_left (enum_step (enum f tg mid mg) tg mid names idxs)
              (group_objects idxs tg mg) ([], cnt)
  end.

Definition enumerate_schemes (tg : list index) (mid mg : option nat) (cnt : N)
  (objs : list obj) : list scheme * N :=
  (* fuel: a step either lowers the number of objects or (group of a single
     object carrying a repeated index) replaces a base object by a result
     with pairwise distinct indices, which never forms such a group again *)
  enum (2 * length objs + 1) tg mid mg cnt (map fst objs) (map snd objs).

(* ------------------------------------------------------------------ *)
(* ranking in optimize_contractions *)
Definition list_max (l : list nat) : nat := fold_right Nat.max 0 l.
Definition rank_part (vals : list (list nat)) : list nat :=
  (* vals: per step the four fields; for each field [max, count of max] *)
  flat_map (fun k => let col := map (fun v => nth k v 0) vals in
                     let m := list_max col in [m; count_occ Nat.eq_dec col m])
           [0; 1; 2; 3].
Definition rank_key (s : scheme) : list nat :=
  rank_part (map (fun c => scomp_fields (s_comp (c_scaling c))) s) ++
  rank_part (map (fun c => scomp_fields (s_mem (c_scaling c))) s).

Definition select_optimal (schemes : list scheme) : option scheme :=
  option_map fst
  (fold_left (fun (best : option (scheme * list nat)) s =>
     let k := rank_key s in
     match best with
     | None => Some (s, k)
     | Some (_, kb) => if nlist_ltb k kb then Some (s, k) else best
     end) schemes None).

(* ------------------------------------------------------------------ *)
(* extraction of the relevant objects of a term (first loop of
   optimize_contractions / unoptimized_contraction) *)
Inductive okind := ONumber | OSymbol | OTensor | OOther.
Record tobj := TObj { to_kind : okind; to_name : nat; to_idx : list index; to_exp : Z }.

Fixpoint relevant_objs (os : list tobj) : option (list obj) :=   (* None: NotImplementedError *)
  match os with
  | [] => Some []
  | o :: r =>
    match to_kind o with
    | ONumber => relevant_objs r
    | k =>
      if (to_exp o <? 0)%Z then None else
      match k with
      | OSymbol => relevant_objs r
      | OTensor =>
        match relevant_objs r with
        | None => None
        | Some l => Some (repeat (NBase (to_name o), to_idx o) (Z.to_nat (to_exp o)) ++ l)
        end
      | _ => None
      end
    end
  end.

(* result of optimize_contractions *)
Inductive opt_result :=
| OEmpty                         (* [] : no tensors or deltas *)
| OAssert                        (* max_n_simultaneous_contracted < 2 *)
| ONoScheme                      (* RuntimeError *)
| OScheme (s : scheme) (cnt : N).

Definition optimize_contractions (cnt : N) (objs : list obj) (tg : list index)
  (mid mg : option nat) : opt_result :=
  match objs with
  | [] => OEmpty
  | [o] => (* trivial: a single tensor/delta (resorting of indices, trace) *)
           OScheme [mk_contraction cnt [fst o] [snd o] tg] (N.succ cnt)
  | _ =>
    match mg with
    | Some m => if m <? 2 then OAssert else
                let '(ss, cnt') := enumerate_schemes tg mid mg cnt objs in
                match select_optimal ss with None => ONoScheme | Some s => OScheme s cnt' end
    | None => let '(ss, cnt') := enumerate_schemes tg mid mg cnt objs in
              match select_optimal ss with None => ONoScheme | Some s => OScheme s cnt' end
    end
  end.

(* unoptimized_contraction *)
Definition unoptimized_contraction (cnt : N) (objs : list obj) (tg : list index) : scheme :=
  [mk_contraction cnt (map fst objs) (map snd objs) tg].

(* ------------------------------------------------------------------ *)
(* limits *)
Definition limits_respected (tg : list index) (mid mg : option nat) (s : scheme) : bool :=
  forallb (fun c =>
    match mid with
    | None => true
    | Some d => ilist_eqb (c_target c) tg || (length (c_target c) <=? d)
    end &&
    match mg with None => true | Some m => length (c_names c) <=? m end) s.

(* ------------------------------------------------------------------ *)
(* well-formedness of a scheme w.r.t. the objects of the term and the
   requested target indices: simulation of the pool of pending objects *)
Fixpoint remove_obj (o : obj) (pool : list obj) : option (list obj) :=
  match pool with
  | [] => None
  | p :: r => if obj_eqb o p then Some r
              else match remove_obj o r with None => None | Some r' => Some (p :: r') end
  end.
Fixpoint remove_objs (os : list obj) (pool : list obj) : option (list obj) :=
  match os with
  | [] => Some pool
  | o :: r => match remove_obj o pool with None => None | Some pool' => remove_objs r pool' end
  end.

Definition pool_idx (pool : list obj) : list index := flat_map snd pool.

Definition inodupb (l : list index) : bool := Nat.eqb (length (inodup l)) (length l).

(* the data of one step are consistent in themselves *)
Definition step_local_ok (c : contraction) : bool :=
  let all := concat (c_idx c) in
  Nat.eqb (length (c_names c)) (length (c_idx c)) &&
  inodupb (c_contracted c) && inodupb (c_target c) &&
  forallb (fun x => negb (imem x (c_target c))) (c_contracted c) &&
  forallb (fun x => imem x (c_contracted c) || imem x (c_target c)) all &&
  forallb (fun x => imem x all) (c_contracted c) &&
  forallb (fun x => imem x all) (c_target c).

Fixpoint wf_steps (tg : list index) (pool : list obj) (s : scheme) : bool :=
  match s with
  | [] => false
  | c :: rest =>
    match remove_objs (c_objs c) pool with
    | None => false                      (* object not available (any more) *)
    | Some pool' =>
      step_local_ok c &&
      (* no contracted index among the term targets or outside the step *)
      forallb (fun x => negb (imem x tg) && negb (imem x (pool_idx pool'))) (c_contracted c) &&
      (* the name of the result is not the name of a pending object *)
      negb (existsb (fun o => oname_eqb (fst o) (NContr (c_id c))) pool') &&
      match rest with
      | [] => match pool' with [] => ilist_eqb (c_target c) tg | _ => false end
      | _ => wf_steps tg ((NContr (c_id c), c_target c) :: pool') rest
      end
    end
  end.

Definition is_base (o : obj) : bool := match fst o with NBase _ => true | _ => false end.

Definition wf_scheme (objs : list obj) (tg : list index) (s : scheme) : bool :=
  forallb is_base objs && inodupb tg && wf_steps tg objs s.

(* ------------------------------------------------------------------ *)
(* the reported scaling is the scaling of the step data *)
Definition scaling_ok (c : contraction) : bool :=
  let sc := c_scaling c in
  let sc' := mk_scaling (c_contracted c) (c_target c) in
  list_eqb Nat.eqb (scomp_fields (s_comp sc)) (scomp_fields (s_comp sc')) &&
  list_eqb Nat.eqb (scomp_fields (s_mem sc)) (scomp_fields (s_mem sc')).

(* ------------------------------------------------------------------ *)
(* interpreter *)
Section Run.
Variable S : Scalar.
Variable R : space -> spin -> list nat.          (* ranges *)
Variable tval : nat -> list nat -> K S.          (* values of the base tensors *)

Definition TM : tmodel S :=
  {| rng := R; tv := fun _ _ _ _ _ => k0 S; symv := fun _ => k0 S; sqrtv := fun _ => k0 S |}.
(* sum over all assignments of the indices xs (within their ranges) *)
Definition csum (xs : list index) (r : env) (F : env -> K S) : K S := sum_over S TM xs r F.

Definition store := N -> list nat -> K S.
Definition st0 : store := fun _ _ => k0 S.
Definition st_upd (st : store) (id : N) (v : list nat -> K S) : store :=
  fun j => if N.eqb j id then v else st j.

Definition oval (st : store) (n : oname) : list nat -> K S :=
  match n with NBase b => tval b | NContr id => st id end.
Definition obj_val (st : store) (r : env) (o : obj) : K S := oval st (fst o) (map r (snd o)).
Definition prod_val (st : store) (r : env) (os : list obj) : K S :=
  kprod (map (obj_val st r) os).

Definition env0 : env := fun _ => 0.
Fixpoint bind (xs : list index) (vs : list nat) : env :=
  match xs, vs with
  | x :: xs', v :: vs' => upd (bind xs' vs') x v
  | _, _ => env0
  end.

(* einsum of one step: result as a function of the values of its target
   indices (in the order of c_target) *)
Definition step_val (st : store) (c : contraction) : list nat -> K S :=
  fun args => csum (c_contracted c) (bind (c_target c) args)
                   (fun r => prod_val st r (c_objs c)).

Fixpoint run_steps (st : store) (s : scheme) : store :=
  match s with
  | [] => st
  | c :: rest => run_steps (st_upd st (c_id c) (step_val st c)) rest
  end.

(* value of the last contraction of the scheme at the given target values *)
Definition run_scheme (s : scheme) (args : list nat) : K S :=
  match rev s with
  | [] => k0 S
  | c :: _ => run_steps st0 s (c_id c) args
  end.

(* value of the term: sum over all non-target indices of the product of all
   objects *)
Definition pool_value (st : store) (tg : list index) (pool : list obj) (r : env) : K S :=
  csum (contracted_of tg (pool_idx pool)) r (fun r' => prod_val st r' pool).
Definition term_value (tg : list index) (objs : list obj) (r : env) : K S :=
  pool_value st0 tg objs r.
End Run.

(* ------------------------------------------------------------------ *)
(* helpers of the per-run correspondence check (harness/props/c16.py):
   decidable equality on the result structures and a digest of schemes *)
Definition scomp_eqb (a b : scomp) := nlist_eqb (scomp_fields a) (scomp_fields b).
Definition scaling_eqb (a b : scaling) :=
  scomp_eqb (s_comp a) (s_comp b) && scomp_eqb (s_mem a) (s_mem b).
Definition contraction_eqb (a b : contraction) : bool :=
  N.eqb (c_id a) (c_id b) && list_eqb oname_eqb (c_names a) (c_names b) &&
  list_eqb ilist_eqb (c_idx a) (c_idx b) && ilist_eqb (c_contracted a) (c_contracted b) &&
  ilist_eqb (c_target a) (c_target b) && scaling_eqb (c_scaling a) (c_scaling b).
Definition scheme_eqb := list_eqb contraction_eqb.
Definition opt_result_eqb (a b : opt_result) : bool :=
  match a, b with
  | OEmpty, OEmpty | OAssert, OAssert | ONoScheme, ONoScheme => true
  | OScheme x n, OScheme y m => scheme_eqb x y && N.eqb n m
  | _, _ => false
  end.

Definition idx_code (i : index) : list N :=
  [(space_code (ispace i) + 3 * (spin_code (ispin i) + 3 * (iletter i + 256 * (inum i + 1024 * iuid i))))%N].
Definition name_code (n : oname) : N :=
  match n with NBase k => (2 * N.of_nat k)%N | NContr k => (2 * k + 1)%N end.
Definition ilist_code (l : list index) : list N :=
  N.of_nat (length l) :: flat_map idx_code l.
Definition contraction_code (c : contraction) : list N :=
  [c_id c; N.of_nat (length (c_names c))] ++ map name_code (c_names c) ++
  [N.of_nat (length (c_idx c))] ++ flat_map ilist_code (c_idx c) ++
  ilist_code (c_contracted c) ++ ilist_code (c_target c) ++
  map N.of_nat (scomp_fields (s_comp (c_scaling c)) ++ scomp_fields (s_mem (c_scaling c))).
Definition digest_mask : N := 2305843009213693951%N.     (* 2^61 - 1 *)
Definition digest (l : list N) : N :=
  fold_left (fun h x => N.land (N.shiftl h 20 + 7 * h + x + 1)%N digest_mask) l 7%N.
Definition scheme_digest (s : scheme) : N :=
  digest (N.of_nat (length s) :: flat_map contraction_code s).

(* maximal computational scaling of a scheme is component-wise bounded by the
   scaling of the simultaneous contraction of all objects *)
Definition le_hyper (objs : list obj) (tg : list index) (s : scheme) : bool :=
  let h := s_comp (c_scaling (mk_contraction 0%N (map fst objs) (map snd objs) tg)) in
  forallb (fun c => scomp_cw_leb (s_comp (c_scaling c)) h &&
                    scomp_cw_leb (s_mem (c_scaling c)) h) s.

Record case_result := CaseResult {
  r_groups_ok : bool;
  r_enum_digests : list N; r_enum_cnt : N; r_enum_wf : list bool;
  r_selected_ok : bool; r_selected_wf : bool; r_limits_ok : bool;
  r_scaling_ok : bool; r_le_hyper : bool;
  r_unopt_ok : bool; r_unopt_wf : bool }.

Definition check_case (objs : list obj) (tg : list index) (mid mg : option nat)
  (py_groups : option (list (list nat)))
  (cnt_enum : N)
  (cnt_opt : N) (py_opt : opt_result)
  (cnt_un : N) (py_unopt : scheme) : case_result :=
  let g := group_objects_chk (map snd objs) tg mg in
  let groups_ok := match g, py_groups with
                   | None, None => true
                   | Some a, Some b => list_eqb nlist_eqb a b
                   | _, _ => false end in
  let '(ss, cnt') := match g with
                     | Some _ => enumerate_schemes tg mid mg cnt_enum objs
                     | None => ([], cnt_enum) end in
  let sel_scheme := match py_opt with OScheme s _ => Some s | _ => None end in
  let on_sel (f : scheme -> bool) := match sel_scheme with Some s => f s | None => true end in
  CaseResult groups_ok (map scheme_digest ss) cnt' (map (wf_scheme objs tg) ss)
    (opt_result_eqb (optimize_contractions cnt_opt objs tg mid mg) py_opt)
    (on_sel (wf_scheme objs tg)) (on_sel (limits_respected tg mid mg))
    (on_sel (forallb scaling_ok)) (on_sel (le_hyper objs tg))
    (scheme_eqb (unoptimized_contraction cnt_un objs tg) py_unopt)
    (wf_scheme objs tg py_unopt).
