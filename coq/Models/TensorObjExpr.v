(* C06 - Expr(e, real=, sym_tensors=, antisym_tensors=) on whole expressions:
   the per-tensor re-canonicalisation [assume_obj] mapped over terms and
   factors, and its value theorem for [eval]. *)
From Coq Require Import ZArith QArith List Bool Lia String Permutation.
From ADC Require Import Core.Scalar Core.Index Core.Expr Core.Canon.
From ADC Require Import Models.TensorObj Models.TensorObjProofs.
Import ListNotations.
Local Notation length := List.length.

Inductive fres := FZero | FErr | FOk (neg : bool) (fs : list factor).

(* Term._apply_tensor_braket_sym / Term.make_real: Mul over the objects.
   Polynomial factors and inverted vanishing tensors are not modelled (FErr). *)
Fixpoint assume_facs (real : bool) (syms antis : list string) (fs : list factor) : fres :=
  match fs with
  | [] => FOk false []
  | (ATens t, inv) :: r =>
    match assume_obj real syms antis t, assume_facs real syms antis r with
    | TErr, _ => FErr
    | _, FErr => FErr
    | TZero, _ => if inv then FErr else FZero
    | TOk _ _, FZero => FZero
    | TOk s t', FOk s' r' => FOk (xorb s s') ((ATens t', inv) :: r')
    end
  | (APoly _, _) :: _ => FErr
  | f :: r =>
    match assume_facs real syms antis r with
    | FOk s' r' => FOk s' (f :: r') | x => x end
  end.

(* None = an exception (or an unmodelled factor) somewhere in the expression *)
Fixpoint assume_expr (real : bool) (syms antis : list string) (e : expr) : option expr :=
  match e with
  | [] => Some []
  | t :: r =>
    match assume_facs real syms antis (tfacs t), assume_expr real syms antis r with
    | FErr, _ => None
    | _, None => None
    | FZero, Some r' => Some r'
    | FOk s fs, Some r' => Some (Term (if s then Qopp (tcoef t) else tcoef t) fs :: r')
    end
  end.

(* ------------------------------------------------------------------------- *)
Lemma mk_tensor_idx_perm k n b u l s t : mk_tensor k n b u l = TOk s t ->
  Permutation (u ++ l) (tens_idx t).
Proof. intros H. apply mk_tensor_shape in H. destruct H as (_ & _ & _ & [(Hu & Hl)|(_ & _ & Hu & Hl)]);
  unfold tens_idx.
  - apply Permutation_app; assumption.
  - rewrite Permutation_app_comm. apply Permutation_app; assumption. Qed.

Lemma add_bra_ket_sym_idx_perm t b s t' : add_bra_ket_sym t b = TOk s t' ->
  Permutation (tens_idx t) (tens_idx t').
Proof. unfold add_bra_ket_sym. destruct (Z.eqb b (tbks t)); [intros H; inversion H; reflexivity|].
  destruct (Z.eqb (tbks t) 0); [|discriminate]. apply mk_tensor_idx_perm. Qed.

Lemma apply_braket_idx_perm syms antis t s t' : apply_braket_obj syms antis t = TOk s t' ->
  Permutation (tens_idx t) (tens_idx t').
Proof. unfold apply_braket_obj.
  destruct (tkind t);
  try (destruct (smem (tname t) syms && negb (Z.eqb (tbks t) 1)); [apply add_bra_ket_sym_idx_perm|];
       destruct (smem (tname t) antis && negb (Z.eqb (tbks t) (-1))); [apply add_bra_ket_sym_idx_perm|]);
  intros H; inversion H; reflexivity. Qed.

Lemma make_real_idx_perm t s t' : make_real_obj t = TOk s t' ->
  Permutation (tens_idx t) (tens_idx t').
Proof. unfold make_real_obj.
  destruct (tkind t); destruct (is_t_amplitude (tname t));
    destruct (String.eqb (real_name (tname t)) (tname t)); intros H;
    try (inversion H; reflexivity); apply mk_tensor_idx_perm in H; exact H. Qed.

Lemma assume_obj_idx_perm real syms antis t s t' : assume_obj real syms antis t = TOk s t' ->
  Permutation (tens_idx t) (tens_idx t').
Proof. unfold assume_obj. destruct real; [|apply apply_braket_idx_perm].
  destruct (apply_braket_obj _ antis t) as [| |s1 t1] eqn:E1; simpl; try discriminate.
  destruct (make_real_obj t1) as [| |s2 t2] eqn:E2; simpl; try discriminate.
  destruct (apply_braket_obj _ antis t2) as [| |s3 t3] eqn:E3; simpl; try discriminate.
  intros H; inversion H; subst. rewrite (apply_braket_idx_perm _ _ _ _ _ E1).
  rewrite (make_real_idx_perm _ _ _ E2). apply (apply_braket_idx_perm _ _ _ _ _ E3). Qed.

Lemma assume_facs_idx_perm real syms antis fs : forall s fs',
  assume_facs real syms antis fs = FOk s fs' -> Permutation (mono_idx fs) (mono_idx fs').
Proof. induction fs as [|[a inv] r IH]; simpl; intros s fs'.
  - intros H; inversion H; reflexivity.
  - destruct a as [t|i j|nm|q|p].
    + destruct (assume_obj real syms antis t) as [| |s1 t1] eqn:E1;
        destruct (assume_facs real syms antis r) as [| |s2 r2] eqn:E2; try discriminate;
        try (destruct inv; discriminate).
      intros H; inversion H; subst. unfold mono_idx; simpl. unfold fac_idx at 1 3; simpl.
      apply Permutation_app; [apply (assume_obj_idx_perm _ _ _ _ _ _ E1)|apply (IH _ _ eq_refl)].
    + destruct (assume_facs real syms antis r) as [| |s2 r2] eqn:E2; try discriminate.
      intros H; inversion H; subst. unfold mono_idx; simpl. do 2 constructor. apply (IH _ _ eq_refl).
    + destruct (assume_facs real syms antis r) as [| |s2 r2] eqn:E2; try discriminate.
      intros H; inversion H; subst. unfold mono_idx; simpl. apply (IH _ _ eq_refl).
    + destruct (assume_facs real syms antis r) as [| |s2 r2] eqn:E2; try discriminate.
      intros H; inversion H; subst. unfold mono_idx; simpl. apply (IH _ _ eq_refl).
    + discriminate. Qed.

Lemma contracted_of_perm tg l l' : Permutation l l' ->
  Permutation (contracted_of tg l) (contracted_of tg l').
Proof. intros HP. unfold contracted_of. apply NoDup_Permutation.
  - apply NoDup_filter, inodup_NoDup.
  - apply NoDup_filter, inodup_NoDup.
  - intros x. rewrite !filter_In, !inodup_In. split; intros [H1 H2]; split; auto;
      eapply Permutation_in; try eassumption. symmetry; exact HP. Qed.

Section ExprSound.
Variable S : Scalar.
Variable T : tmodel S.
Hypothesis R : sym_respects S T.
Hypothesis H2 : two_regular S.
Notation "0" := (k0 S). Notation "1" := (k1 S).
Infix "+" := (kadd S). Infix "*" := (kmul S). Notation "- x" := (kopp S x).
Add Ring KR10 : (Kring S).

Variable real : bool.
Variables syms antis : list string.
Definition facs_satisfy (fs : list factor) : Prop :=
  forall t inv, In (ATens t, inv) fs -> model_satisfies S T real syms antis t.

Lemma kinv_ksgn s x : kinv S (ksgn s * x) = ksgn s * kinv S x.
Proof. destruct s; simpl.
  - replace (- (1) * x) with (- x) by ring. rewrite kinv_opp. ring.
  - replace (1 * x) with x by ring. ring. Qed.

Lemma assume_facs_value fs : facs_satisfy fs -> forall r,
  match assume_facs real syms antis fs with
  | FOk s fs' => mono_val S T r fs = ksgn s * mono_val S T r fs'
  | FZero => mono_val S T r fs = 0
  | FErr => True
  end.
Proof. induction fs as [|[a inv] rest IH]; intros Hs r.
  - simpl. unfold mono_val; simpl. ring.
  - assert (Hrest : facs_satisfy rest) by (intros t i Hin; apply (Hs t i); right; exact Hin).
    specialize (IH Hrest r). simpl. unfold mono_val in *. simpl.
    destruct a as [t|i j|nm|q|p].
    + pose proof (assume_sound S T R r real syms antis t (Hs t inv (or_introl eq_refl))) as Ht.
      destruct (assume_obj real syms antis t) as [| |s1 t1];
        destruct (assume_facs real syms antis rest) as [| |s2 r2]; simpl in *; auto.
      * destruct inv; [exact I|]. change (fac_val S T r (ATens t, false)) with (tens_val S T r t). rewrite (Ht H2). ring.
      * destruct inv; [exact I|]. change (fac_val S T r (ATens t, false)) with (tens_val S T r t). rewrite (Ht H2). ring.
      * rewrite IH. ring.
      * assert (Hf : forall tt, fac_val S T r (ATens tt, inv) =
                  if inv then kinv S (tens_val S T r tt) else tens_val S T r tt) by reflexivity.
        rewrite IH, !Hf. destruct inv.
        -- rewrite Ht, kinv_ksgn. destruct s1, s2; simpl; ring.
        -- rewrite Ht. destruct s1, s2; simpl; ring.
    + destruct (assume_facs real syms antis rest) as [| |s2 r2]; simpl in *; auto; rewrite IH; ring.
    + destruct (assume_facs real syms antis rest) as [| |s2 r2]; simpl in *; auto; rewrite IH; ring.
    + destruct (assume_facs real syms antis rest) as [| |s2 r2]; simpl in *; auto; rewrite IH; ring.
    + exact I. Qed.

Lemma ofQ_opp' a : ofQ S (- a)%Q = - ofQ S a.
Proof. apply ofQ_opp. Qed.

Lemma assume_term_value tg r t : facs_satisfy (tfacs t) ->
  match assume_facs real syms antis (tfacs t) with
  | FOk s fs => eval_term S T tg r t =
                eval_term S T tg r (Term (if s then Qopp (tcoef t) else tcoef t) fs)
  | FZero => eval_term S T tg r t = 0
  | FErr => True
  end.
Proof. intros Hs. pose proof (assume_facs_value (tfacs t) Hs) as Hv.
  destruct (assume_facs real syms antis (tfacs t)) as [| |s fs] eqn:E; auto.
  - unfold eval_term. rewrite (sum_over_ext S T _ _ (fun _ => 0)); [apply sum_over_zero|].
    intros r'. unfold term_val. rewrite Hv. ring.
  - set (t' := Term (if s then Qopp (tcoef t) else tcoef t) fs).
    unfold eval_term.
    rewrite (sum_over_ext S T _ _ (fun r' => term_val S T r' t')).
    2:{ intros r'. unfold term_val, t'. simpl. rewrite Hv. destruct s; simpl; [rewrite ofQ_opp'|]; ring. }
    apply (sum_over_perm S T (term_idx t')).
    + intros r1 r2 Ha. apply term_val_agree. exact Ha.
    + unfold contracted, contracted_of. apply NoDup_filter, inodup_NoDup.
    + unfold contracted. apply contracted_of_perm. unfold term_idx, t'. simpl.
      apply (assume_facs_idx_perm _ _ _ _ _ _ E). Qed.

(* declaring the assumptions on an expression leaves its value unchanged in
   every model that satisfies them, for every choice of target indices and
   every assignment *)
Theorem assume_expr_value e : (forall t, In t e -> facs_satisfy (tfacs t)) ->
  forall e', assume_expr real syms antis e = Some e' ->
  forall tg r, eval S T tg r e = eval S T tg r e'.
Proof. induction e as [|t rest IH]; intros Hs e' He tg r; simpl in He.
  - inversion He; reflexivity.
  - pose proof (assume_term_value tg r t (Hs t (or_introl eq_refl))) as Ht.
    assert (Hrest : forall t0, In t0 rest -> facs_satisfy (tfacs t0)) by (intros; apply Hs; right; assumption).
    destruct (assume_facs real syms antis (tfacs t)) as [| |s fs];
      destruct (assume_expr real syms antis rest) as [r'|] eqn:Er; try discriminate;
      inversion He; subst; unfold eval in *; simpl.
    + rewrite Ht, (IH Hrest _ eq_refl tg r). ring.
    + rewrite Ht, (IH Hrest _ eq_refl tg r). reflexivity. Qed.
End ExprSound.
